/-
Property C15, parse half — `Parse` on a source against `Parse` on the pieces of `SplitStatements`.

New specification-level definitions (all in namespace `Pql.Piecewise`):
`shStmt d` (Lemmas/PiecewiseDefs.lean) — move every span of a statement `d` bytes to the right
  (`Span.null` and `Span.zero`, the two constants the parser writes into trees, are fixed points);
`mapE n m d` — move the positions of error leaves by `d`, sending the end-of-input position `n:n`
  of the piece to the end-of-input position `m:m` of the *whole* source;
`offsetsFrom 0 pieces` — start offset of every piece; `piecesAt src` pairs pieces and offsets;
`pieceStep` — what the loop of `Parse` does with the result of one piece.

Headlines: `C15_parse_pieces_full`, `C15_parse_pieces`, `C15_piece_statements`,
`C15_parse_errors`, `C15_parse_error_iff`, `C15_statement_count`, `C15_parse_semicolon`.
-/
import PqlModel.Lemmas.PiecewiseStmts
import PqlModel.Lemmas.PiecewiseJoin
namespace Pql.Piecewise
open Pql Pql.C15

/-- the pieces of `SplitStatements`, each with its start offset in `src`
    (sum of the lengths of the earlier pieces, plus one for each ';' between them) -/
def piecesAt (src : Bytes) : List (Bytes × Nat) :=
  (splitStatements src).zip (offsetsFrom 0 (splitStatements src))

/-- the offsets are those of `C15_piece_tokens_at` -/
theorem piecesAt_eq (src : Bytes) : piecesAt src = (splitStatements src).zip (pieceStarts src) := by
  rw [piecesAt, offsetsFrom_eq_pieceStarts]

theorem piecesAt_fst (src : Bytes) : (piecesAt src).map (·.1) = splitStatements src := by
  rw [piecesAt, List.map_fst_zip]
  rw [offsetsFrom_length]; exact Nat.le_refl _

theorem mem_piecesAt {src : Bytes} {po : Bytes × Nat} (h : po ∈ piecesAt src) :
    po.1 ∈ splitStatements src := (List.of_mem_zip h).1

/-- what the loop of `Parse` (source length `L`) does with piece `po.1` at offset `po.2`, in terms
    of `parse po.1`: the statements of the piece are appended, moved to the piece's offset; the
    errors of the piece are appended, moved likewise (end of input = end of the whole source) —
    unless they carry the not-found flag, in which case they *replace* the accumulated errors -/
def pieceStep (L : Nat) (st : List Stmt × Errs) (po : Bytes × Nat) : List Stmt × Errs :=
  (st.1 ++ (parse po.1).1.map (shStmt po.2),
   if isNF (parse po.1).2 then mapE po.1.length L po.2 (parse po.1).2
   else st.2 ++ mapE po.1.length L po.2 (parse po.1).2)

theorem stepAcc_piece (L : Nat) (st : List Stmt × Errs) (p : Bytes) (o : Nat)
    (h : ∀ t ∈ scan p, t.kind ≠ .semi) :
    stepAcc st (pStatement ⟨L⟩ (scanFrom p o)) = pieceStep L st (p, o) := by
  rw [scanFrom_eq_map_scan, pStatement_sh (n := p.length) (m := L) (d := o) (scan p) (TokP_scan p)]
  simp only [stepAcc, pieceStep, parse_nosemi_fst p h, parse_nosemi_snd p h, pStatement_flag]
  congr 1
  cases (pStatement ⟨p.length⟩ (scan p)).1 <;> rfl

/-- **C15 (parse, full).** `Parse` on a source is the fold of `pieceStep` over the pieces of
    `SplitStatements`, in order: both the statements and the errors of the whole are determined by
    `Parse` on each piece alone. -/
theorem C15_parse_pieces_full (src : Bytes) :
    parse src = (piecesAt src).foldl (pieceStep src.length) ([], []) := by
  rw [parse_eq_foldPieces, foldPieces, piecesAt]
  have hns := C15_no_semi_in_piece src
  generalize (([], []) : List Stmt × Errs) = st
  generalize hl : (splitStatements src).zip (offsetsFrom 0 (splitStatements src)) = l
  have hm : ∀ po ∈ l, ∀ t ∈ scan po.1, t.kind ≠ .semi := by
    intro po hpo; rw [← hl] at hpo; exact hns _ (List.of_mem_zip hpo).1
  clear hl
  induction l generalizing st with
  | nil => rfl
  | cons po l ih =>
    simp only [List.foldl_cons]
    rw [stepAcc_piece _ _ _ _ (hm po (by simp))]
    exact ih _ (fun po' hpo' => hm po' (by simp [hpo']))

theorem foldl_pieceStep_fst (L : Nat) (l : List (Bytes × Nat)) (st : List Stmt × Errs) :
    (l.foldl (pieceStep L) st).1 = st.1 ++ l.flatMap (fun po => (parse po.1).1.map (shStmt po.2)) := by
  induction l generalizing st with
  | nil => simp
  | cons po l ih => simp [List.foldl_cons, ih, pieceStep]

/-- **C15 (parse, statements) — unconditional.** For every source, with or without errors: the
    statements `Parse` returns are, in order, the statements `Parse` returns for each piece of
    `SplitStatements` alone, with every span moved to the offset of the piece.  In particular a
    piece that fails does not disturb the statements of the other pieces. -/
theorem C15_parse_pieces (src : Bytes) :
    (parse src).1 = (piecesAt src).flatMap (fun po => (parse po.1).1.map (shStmt po.2)) := by
  rw [C15_parse_pieces_full, foldl_pieceStep_fst]; rfl

/-- **C15 (parse, errors).** The error of the whole source: go through the pieces in order;
    the error leaves of a piece (positions moved to the piece's offset, end of input = end of the
    whole source) are appended, except that a piece failing with a not-found error *discards* the
    errors of all earlier pieces (`resultError = joinErrors(err, …)` in `Parse`). -/
theorem C15_parse_errors (src : Bytes) :
    (parse src).2 = (piecesAt src).foldl (fun es po =>
      if isNF (parse po.1).2 then mapE po.1.length src.length po.2 (parse po.1).2
      else es ++ mapE po.1.length src.length po.2 (parse po.1).2) [] := by
  rw [C15_parse_pieces_full]
  have : ∀ (l : List (Bytes × Nat)) (st : List Stmt × Errs),
      (l.foldl (pieceStep src.length) st).2 = l.foldl (fun es po =>
        if isNF (parse po.1).2 then mapE po.1.length src.length po.2 (parse po.1).2
        else es ++ mapE po.1.length src.length po.2 (parse po.1).2) st.2 := by
    intro l
    induction l with
    | nil => intro st; rfl
    | cons po l ih => intro st; simp only [List.foldl_cons]; rw [ih]; rfl
  exact this _ ([], [])

/-- **C15 (parse, one piece).** A piece of `SplitStatements` parsed on its own yields at most one
    statement, and none exactly when it has no tokens or fails with a not-found error (neither
    a `let` statement nor a tabular expression starts there).  Any other failure still yields a
    partial statement. -/
theorem C15_piece_statements (src : Bytes) : ∀ p ∈ splitStatements src,
    (parse p).1.length ≤ 1 ∧ ((parse p).1 = [] ↔ scan p = [] ∨ isNF (parse p).2 = true) := by
  intro p hp
  have h := C15_no_semi_in_piece src p hp
  rw [parse_nosemi_fst p h, parse_nosemi_snd p h, ← pStatement_flag]
  have := pStatement_none_iff ⟨p.length⟩ (scan p)
  cases hv : (pStatement ⟨p.length⟩ (scan p)).1 with
  | none => rw [hv] at this; exact ⟨by simp, by simpa using this⟩
  | some s => rw [hv] at this; exact ⟨by simp, by simpa using this⟩

theorem isNF_ne_nil {es : Errs} (h : isNF es = true) : es ≠ [] := by
  intro he; subst he; simp at h

theorem foldl_pieceStep_snd_nil (L : Nat) (l : List (Bytes × Nat)) (st : List Stmt × Errs) :
    (l.foldl (pieceStep L) st).2 = [] ↔ st.2 = [] ∧ ∀ po ∈ l, (parse po.1).2 = [] := by
  induction l generalizing st with
  | nil => simp
  | cons po l ih =>
    simp only [List.foldl_cons, ih, List.mem_cons, forall_eq_or_imp]
    have : (pieceStep L st po).2 = [] ↔ st.2 = [] ∧ (parse po.1).2 = [] := by
      simp only [pieceStep]
      split
      · rename_i hnf
        have := isNF_ne_nil hnf
        simp [this]
      · simp
    rw [this, and_assoc]

/-- **C15 (parse, error iff).** `Parse` succeeds on a source iff it succeeds on every piece. -/
theorem C15_parse_error_iff (src : Bytes) :
    (parse src).2 = [] ↔ ∀ p ∈ splitStatements src, (parse p).2 = [] := by
  rw [C15_parse_pieces_full, foldl_pieceStep_snd_nil, ← piecesAt_fst]
  simp

theorem length_flatMap_pieces (l : List (Bytes × Nat))
    (h : ∀ po ∈ l, (parse po.1).1.length = if scan po.1 = [] then 0 else 1) :
    (l.flatMap (fun po => (parse po.1).1.map (shStmt po.2))).length =
      ((l.map (·.1)).filter (fun p => decide (scan p ≠ []))).length := by
  induction l with
  | nil => rfl
  | cons po l ih =>
    simp only [List.flatMap_cons, List.length_append, List.length_map, List.map_cons,
      List.filter_cons]
    rw [ih (fun po' hpo' => h po' (by simp [hpo'])), h po (by simp)]
    by_cases hs : scan po.1 = [] <;> simp [hs]; omega

/-- **C15 (statement count).** When `Parse` succeeds it reports as many statements as there are
    pieces with at least one token (the statements are in the order of the pieces by
    `C15_parse_pieces`). -/
theorem C15_statement_count (src : Bytes) (h : (parse src).2 = []) :
    (parse src).1.length = ((splitStatements src).filter (fun p => decide (scan p ≠ []))).length := by
  rw [C15_parse_pieces, length_flatMap_pieces, piecesAt_fst]
  intro po hpo
  have hp := mem_piecesAt hpo
  have he := (C15_parse_error_iff src).mp h po.1 hp
  obtain ⟨h1, h2⟩ := C15_piece_statements src po.1 hp
  rw [he] at h2
  simp only [isNF_nil, Bool.false_eq_true, or_false] at h2
  by_cases hs : scan po.1 = []
  · simp [hs, h2.mpr hs]
  · simp only [hs, if_false]
    have : (parse po.1).1 ≠ [] := fun hn => hs (h2.mp hn)
    have := List.length_pos_iff.mpr this
    omega


/-! ### `a ++ ";" ++ b` (what cmd/pql compiles: accepted `let …;` texts, then the statement) -/

theorem map_shStmt_zero (l : List Stmt) : l.map (shStmt 0) = l := map_id_of _ shStmt_zero l

/-- `Parse` run in a longer source (`m` bytes) on the tokens of `p`: same statements, the errors
    differ only in the end-of-input position -/
theorem parse_in_context (p : Bytes) (m d : Nat) :
    pStatements ⟨m⟩ ((scan p).length + 1) [] [] ((scan p).map (Token.shift d)) =
      ((parse p).1.map (shStmt d), mapE p.length m d (parse p).2) := by
  have := pStatements_sh (n := p.length) (m := m) (d := d) ((scan p).length + 1) [] [] (scan p)
    (TokP_scan p)
  simpa [parse, parseTokens] using this

/-- **C15 (parse, at a semicolon).** If the scan of `a ++ ";" ++ b` is the scan of `a`, the
    semicolon token, and the scan of `b` moved behind it (no string, quoted name or comment
    that starts in `a` reaches the ';'), then the statements of `a ++ ";" ++ b` are those of `a`
    followed by those of `b` moved by `|a| + 1`, and the whole parses without error iff `a` and
    `b` do. -/
theorem C15_parse_semicolon (a b : Bytes)
    (H : scan (a ++ 59 :: b) = scan a ++ ⟨.semi, a.length, a.length + 1, []⟩ ::
      (scan b).map (Token.shift (a.length + 1))) :
    (parse (a ++ 59 :: b)).1 = (parse a).1 ++ (parse b).1.map (shStmt (a.length + 1)) ∧
    ((parse (a ++ 59 :: b)).2 = [] ↔ (parse a).2 = [] ∧ (parse b).2 = []) := by
  have h0 : parse (a ++ 59 :: b) =
      pStatements ⟨(a ++ 59 :: b).length⟩ (((scan b).map (Token.shift (a.length + 1))).length + 1)
        (pStatements ⟨(a ++ 59 :: b).length⟩ ((scan a).length + 1) [] [] (scan a)).1
        (pStatements ⟨(a ++ 59 :: b).length⟩ ((scan a).length + 1) [] [] (scan a)).2
        ((scan b).map (Token.shift (a.length + 1))) := by
    rw [parse, parseTokens, H]
    exact pStatements_append _ _ [] [] _ _ _ rfl (Nat.lt_succ_self _)
  have ha := parse_in_context a (a ++ 59 :: b).length 0
  rw [map_shift_zero, map_shStmt_zero] at ha
  have hb := parse_in_context b (a ++ 59 :: b).length (a.length + 1)
  rw [List.length_map] at h0
  constructor
  · rw [h0, pStatements_acc_fst, ha, hb]
  · rw [h0, pStatements_errs_nil, ha, hb]
    simp

/-- the same with the hypothesis in the form of `C15_scan_local` / `scanFrom_semi_split`:
    the scanner has a step boundary at the ';' -/
theorem C15_parse_semicolon_of_reaches (a b : Bytes) (hr : Reaches (a ++ 59 :: b) a.length) :
    (parse (a ++ 59 :: b)).1 = (parse a).1 ++ (parse b).1.map (shStmt (a.length + 1)) ∧
    ((parse (a ++ 59 :: b)).2 = [] ↔ (parse a).2 = [] ∧ (parse b).2 = []) :=
  C15_parse_semicolon a b (scan_semi_split a b hr)

/-! ### concrete instances and counterexamples -/

/-- `scanFrom` with fuel: reducible by the kernel, for the concrete examples -/
def scanFuel : Nat → Bytes → Nat → List Token
  | 0, _, _ => []
  | k + 1, s, off =>
    match s with
    | [] => []
    | _ :: _ => (scanOne s).toks off ++ scanFuel k (s.drop (scanOne s).width) (off + (scanOne s).width)

theorem scanFrom_eq_scanFuel : ∀ (k : Nat) (s : Bytes) (off : Nat), s.length ≤ k →
    scanFrom s off = scanFuel k s off := by
  intro k
  induction k with
  | zero =>
    intro s off h
    have : s = [] := List.length_eq_zero_iff.mp (by omega)
    subst this; simp [scanFrom_nil, scanFuel]
  | succ k ih =>
    intro s off h
    cases s with
    | nil => simp [scanFrom_nil, scanFuel]
    | cons c rest =>
      rw [scanFrom_step (by simp)]
      simp only [scanFuel]
      have := scanOne_width_pos c rest
      rw [ih _ _ (by simp only [List.length_drop, List.length_cons] at h ⊢; omega)]

theorem scan_eq_scanFuel (s : Bytes) : scan s = scanFuel s.length s 0 :=
  scanFrom_eq_scanFuel _ s 0 (Nat.le_refl _)

/-- `let x = 1;;T | where a == ';'` — a `let`, an empty piece, a ';' inside a string literal -/
def srcEx : Bytes := [108, 101, 116, 32, 120, 32, 61, 32, 49, 59, 59, 84, 32, 124, 32, 119, 104, 101,
  114, 101, 32, 97, 32, 61, 61, 32, 39, 59, 39]

set_option maxRecDepth 100000 in
/-- three pieces, at offsets 0, 10, 11 -/
theorem srcEx_pieces : piecesAt srcEx =
    [([108, 101, 116, 32, 120, 32, 61, 32, 49], 0), ([], 10),
     ([84, 32, 124, 32, 119, 104, 101, 114, 101, 32, 97, 32, 61, 61, 32, 39, 59, 39], 11)] := by
  rw [piecesAt, splitStatements, scan_eq_scanFuel]; decide

set_option maxRecDepth 100000 in
/-- non-vacuity of `C15_statement_count`: the source parses without error, into two statements -/
theorem srcEx_ok : (parse srcEx).2 = [] ∧ (parse srcEx).1.length = 2 := by
  rw [parse, scan_eq_scanFuel]; decide

set_option maxRecDepth 100000 in
/-- the pieces alone: one statement, none, one statement; no errors -/
theorem srcEx_piece_results :
    (piecesAt srcEx).map (fun po => ((parse po.1).1.length, (parse po.1).2)) =
      [(1, []), (0, []), (1, [])] := by
  rw [srcEx_pieces]
  simp only [List.map_cons, List.map_nil, parse, scan_eq_scanFuel]
  decide

/-- `C15_parse_pieces` on the example: statement 1 is the statement of piece 1 (offset 0),
    statement 2 the statement of piece 3 moved by 11; piece 2 contributes nothing -/
theorem srcEx_statements : (parse srcEx).1 =
    (parse [108, 101, 116, 32, 120, 32, 61, 32, 49]).1.map (shStmt 0) ++
    ((parse []).1.map (shStmt 10) ++
    ((parse [84, 32, 124, 32, 119, 104, 101, 114, 101, 32, 97, 32, 61, 61, 32, 39, 59, 39]).1.map
      (shStmt 11) ++ [])) := by
  rw [C15_parse_pieces, srcEx_pieces]; rfl

/-- `let x = 1` -/
def exA : Bytes := [108, 101, 116, 32, 120, 32, 61, 32, 49]
/-- `;T | where a == ';'` -/
def exB : Bytes := [59, 84, 32, 124, 32, 119, 104, 101, 114, 101, 32, 97, 32, 61, 61, 32, 39, 59, 39]

set_option maxRecDepth 100000 in
/-- non-vacuity of the hypothesis of `C15_parse_semicolon` (`exA ++ ";" ++ exB = srcEx`) -/
theorem srcEx_semicolon_hyp :
    scan (exA ++ 59 :: exB) = scan exA ++ ⟨.semi, exA.length, exA.length + 1, []⟩ ::
      (scan exB).map (Token.shift (exA.length + 1)) := by
  have hm : (⟨.semi, 0 + exA.length, 0 + exA.length + 1, []⟩ : Token) ∈
      scanFrom (exA ++ 59 :: exB) 0 := by
    rw [scanFrom_eq_scanFuel 29 _ 0 (by decide)]; decide
  have h := C15_scan_local exA exB 0 hm
  rw [scanFrom_eq_map_scan exB] at h
  simpa [scan] using h

/-- `T|where '` -/
def cexA : Bytes := [84, 124, 119, 104, 101, 114, 101, 32, 39]
/-- `'` -/
def cexB : Bytes := [39]

set_option maxRecDepth 100000 in
/-- **The hypothesis of `C15_parse_semicolon` is needed.**  `a = "T|where '"`, `b = "'"`: the ';'
    of `a ++ ";" ++ b` lies inside a string literal, the whole parses without error, `a` does not. -/
theorem C15_parse_semicolon_needs_hyp :
    (parse (cexA ++ 59 :: cexB)).2 = [] ∧ (parse cexA).2 ≠ [] := by
  simp only [parse, scan_eq_scanFuel]; decide

set_option maxRecDepth 100000 in
/-- **The hypothesis of `C15_statement_count` is needed.**  `1` is one piece with one token and
    parses (with a not-found error) to no statement. -/
theorem C15_statement_count_needs_ok :
    (parse [49]).1.length = 0 ∧ ((splitStatements [49]).filter (fun p => decide (scan p ≠ []))).length = 1 := by
  simp only [parse, splitStatements, scan_eq_scanFuel]; decide

set_option maxRecDepth 100000 in
/-- **Error positions are not those of the piece.**  `let x;T`: the error of the first statement
    ("expected '=', got EOF") is reported at 7:7, the end of the whole source, not at 5:5 (where
    `Parse "let x"` reports it) moved by the offset 0 of the piece; both statements are returned.
    This is the `n:n ↦ m:m` clause of `mapE` in `C15_parse_errors`. -/
theorem C15_eof_error_at_end_of_source :
    (parse [108, 101, 116, 32, 120, 59, 84]).2.map (·.span) = [some ⟨7, 7⟩] ∧
    (parse [108, 101, 116, 32, 120]).2.map (·.span) = [some ⟨5, 5⟩] ∧
    (parse [108, 101, 116, 32, 120, 59, 84]).1.length = 2 := by
  simp only [parse, scan_eq_scanFuel]; decide

set_option maxRecDepth 100000 in
/-- **A not-found failure discards the errors of the earlier pieces.**  `let x;)`: piece 1 alone
    has one error, piece 2 alone has two; the whole source reports only the two of piece 2
    (and still returns the partial `let` statement of piece 1). -/
theorem C15_notFound_discards_earlier_errors :
    (parse [108, 101, 116, 32, 120]).2.length = 1 ∧ (parse [41]).2.length = 2 ∧
    (parse [108, 101, 116, 32, 120, 59, 41]).2.map (·.span) = [some ⟨7, 7⟩, some ⟨6, 7⟩] ∧
    (parse [108, 101, 116, 32, 120, 59, 41]).1.length = 1 := by
  simp only [parse, scan_eq_scanFuel]; decide


/-- `C15_parse_semicolon` applies to the example (`exA ++ ";" ++ exB = srcEx`) -/
theorem srcEx_semicolon :
    (parse (exA ++ 59 :: exB)).1 = (parse exA).1 ++ (parse exB).1.map (shStmt (exA.length + 1)) ∧
    ((parse (exA ++ 59 :: exB)).2 = [] ↔ (parse exA).2 = [] ∧ (parse exB).2 = []) :=
  C15_parse_semicolon exA exB srcEx_semicolon_hyp

/-- **The hypothesis `TokP` of the commutation lemmas (`pStatement_sh`, `pStatements_sh`) is
    needed.**  An (impossible) empty identifier token at 0:0 has the span `Span.zero`, which
    `shStmt` leaves alone while `Token.shift` moves it. -/
theorem pStatement_sh_needs_TokP :
    pStatement ⟨1⟩ ([⟨.ident, 0, 0, [84]⟩].map (Token.shift 1)) ≠
      ((pStatement ⟨0⟩ [⟨.ident, 0, 0, [84]⟩]).1.map (shStmt 1),
        mapE 0 1 1 (pStatement ⟨0⟩ [⟨.ident, 0, 0, [84]⟩]).2.1,
        (pStatement ⟨0⟩ [⟨.ident, 0, 0, [84]⟩]).2.2) := by
  intro h
  have := congrArg (fun r => r.1.map Stmt.spanOf) h
  revert this
  decide

/-- the `Rbrack` field of the index expression of `T | where <x>[<i>…` -/
def rbrackOf : Stmt → Option Span
  | .tabular (.mk _ (.cons (.where_ _ _ (.index _ _ _ rb)) .nil)) => some rb
  | _ => none

set_option maxRecDepth 100000 in
/-- **Why `shSpan` does not move `Span.zero`.**  In `T|where a[1` the closing bracket is missing and
    the `Rbrack` field of the (partial) index expression is Go's zero value 0:0 — a *valid* span.
    In `;T|where a[1` the same statement sits at offset 1 and its `Rbrack` is still 0:0, not 1:1:
    a shift of "every valid span" would be wrong on failed parses. -/
theorem C15_zero_span_is_not_moved :
    (parse [84, 124, 119, 104, 101, 114, 101, 32, 97, 91, 49]).1.map rbrackOf = [some ⟨0, 0⟩] ∧
    (parse [59, 84, 124, 119, 104, 101, 114, 101, 32, 97, 91, 49]).1.map rbrackOf = [some ⟨0, 0⟩] := by
  simp only [parse, scan_eq_scanFuel]; decide

end Pql.Piecewise
