/-
Property C06 (and C13), tie by translation: the front part of `(*CompileOptions).Compile`.

`harness/extract_expr.go` regenerates an IR of `Compile` from its start up to the call of `splitQueries`
(unit `Compile:pre` of `Facts.exprIR`): `parser.Parse`, the fresh scope map with the copy loop over
`opts.Parameters`, the statement loop with its type switch (`*parser.TabularExpr`: "batch queries not
supported"; `*parser.LetStatement`: lets after the query skipped, a let-mode context, `writeExpressionTight`,
the value stored into the scope; default), "missing tabular queries", `splitQueries(nil, source, scope, expr)`.
`Model/ExprIR.lean` interprets it.  This file proves that the hand-written model is that interpretation:

  `C06_paramCopy_ir`      the copy loop builds the model's initial scope (visiting the map in any order gives the
                          same lookups: `C06_paramCopy_order`)
  `C06_compileStmts_ir`   the statement loop = `compileStmts`, for every statement list, scope and query
                          (statements that are a nil `*TabularExpr` excepted: `C06_compileStmts_ir_needs_tab`)
  `C06_compilePre_ir`     the whole front part
  `C06_compile_ir`        `Compile` = front part, then the statement assembly of `Facts.writeIR`
                          (`WriteIR.interpAssembly`, C05): equal to the model's `compile` for every parameter
                          list and every source, hypothesis-free
-/
import PqlModel.Props.C01WriteExprIRAll
import PqlModel.Props.C05WriteIRStmt
import PqlModel.Props.C11b
namespace Pql.ExprIR
open Pql
open Pql.WriteIR (M IErr liftW goPanic stuck Path)
set_option linter.unusedSimpArgs false
set_option linter.unusedVariables false

/-! ### the regenerated unit, decoded -/

def Stm (f : String) : Path := ⟨"stmt", f⟩
def ExprV : Path := ⟨"expr", ""⟩

def copyBody : List Stmt := [.mapSetPath "scope" ⟨"k", ""⟩ ⟨"v", ""⟩]

def letBody : List Stmt :=
  [.ite (.notNil ExprV) [.continue_] [],
   .ctx "ctx" "source" "scope" "letExprMode",
   .newSb "sb",
   .write "tight" (Stm "X"),
   .mapSetSb "scope" (Stm "Name.Name") "sb"]

def tabBody : List Stmt :=
  [.ite (.notNil ExprV) [.retErr "source" "stmt.Span()" "batch queries not supported"] [],
   .set "expr" (Stm "")]

def loopBody : List Stmt :=
  [.ite (.typeIs "stmt" "TabularExpr" (Stm "")) tabBody
     [.ite (.typeIs "stmt" "LetStatement" (Stm "")) letBody
        [.retErr "source" "stmt.Span()" "unhandled %T statement"]]]

def compilePreIR : List Stmt :=
  [.tryParse "stmts" "source",
   .varNil "expr" "*parser.TabularExpr",
   .makeMap "scope",
   .ite (.notNil ⟨"opts", ""⟩) [.forMap "k" "v" ⟨"opts", "Parameters"⟩ copyBody] [],
   .for_ "_" "stmt" ⟨"stmts", ""⟩ loopBody,
   .ite (.isNil ExprV) [.errorf "missing tabular queries"] [],
   .trySplit "subqueries" "source" "scope" "expr"]

/-- what the translator regenerates for the front part of `Compile` -/
theorem compilePre_ir : decode (irOf "Compile:pre") = some compilePreIR := by rfl

/-! ### the variables -/

/-- the variables of `Compile` once `scope` is declared -/
def cV (sc : List (Bytes × List Chunk)) (t : Tabular) (l : List Pql.Stmt) (o : Option (List (Bytes × Bytes)))
    (src : Bytes) : List (String × Val) :=
  [("scope", .scope sc), ("expr", .tab t), ("stmts", .stmts l), ("opts", .opts o), ("source", .str src)]

/-- the Go variable `expr` for the model's optional query -/
def tOf : Option Tabular → Tabular
  | none => .nil
  | some t => t

def scopeEntry (kv : Bytes × Bytes) : Bytes × List Chunk := (kv.1, [Chunk.raw kv.2])

/-! ### the copy loop -/

theorem copy_loop (sem : Sem) (l : List Pql.Stmt) (o : Option (List (Bytes × Bytes))) (src : Bytes) :
    ∀ (ps : List (Bytes × Bytes)) (sc : List (Bytes × List Chunk)) (out : List Chunk),
      forEntries "k" "v" (execBlock sem copyBody) ps ⟨cV sc .nil l o src, out⟩ =
        .ok (.next, ⟨cV (ps.reverse.map scopeEntry ++ sc) .nil l o src, out⟩)
  | [], sc, out => by simp [forEntries]
  | kv :: ps, sc, out => by
    have ih := copy_loop sem l o src ps (scopeEntry kv :: sc) out
    rw [forEntries]
    have hb : execBlock sem copyBody (((⟨cV sc .nil l o src, out⟩ : State).declare "k" (.str kv.1)).declare "v" (.str kv.2)) =
        .ok (.next, ⟨("v", .str kv.2) :: ("k", .str kv.1) :: cV (scopeEntry kv :: sc) .nil l o src, out⟩) := by
      xe_simp [copyBody, cV, sqlOfVal, scopeEntry]
    rw [hb]
    simp only [bind_ok]
    have hl : (⟨("v", .str kv.2) :: ("k", .str kv.1) :: cV (scopeEntry kv :: sc) .nil l o src, out⟩ : State).leave
        ⟨cV sc .nil l o src, out⟩ = ⟨cV (scopeEntry kv :: sc) .nil l o src, out⟩ := by
      simp [State.leave, cV]
    rw [hl, ih]
    simp [List.reverse_cons, List.map_append, List.append_assoc]

/-- **the copy loop over `opts.Parameters` is translated code**: visiting the entries in the order `ord`, it
    leaves in the fresh map one entry per parameter, the first visited innermost -/
theorem C06_paramCopy_ir (sem : Sem) (l : List Pql.Stmt) (ps : List (Bytes × Bytes)) (src : Bytes) (out : List Chunk) :
    exec sem (.ite (.notNil ⟨"opts", ""⟩) [.forMap "k" "v" ⟨"opts", "Parameters"⟩ copyBody] [])
        ⟨cV [] .nil l (some ps) src, out⟩ =
      .ok (.next, ⟨cV ((sem.mapOrder ps).reverse.map scopeEntry) .nil l (some ps) src, out⟩) := by
  have h := copy_loop sem l (some ps) src (sem.mapOrder ps) [] out
  simp only [List.append_nil] at h
  rw [exec]
  simp only [evalCond, State.get, cV, List.find?, nilAt, bind_ok, pure_ok, Option.isNone, Bool.not_false,
    show (("scope" : String) == "opts") = false by decide, show (("expr" : String) == "opts") = false by decide,
    show (("stmts" : String) == "opts") = false by decide, show (("opts" : String) == "opts") = true by decide,
    ↓reduceIte, List.nil_append]
  simp only [cV] at h
  xe_simp [h]

theorem C06_paramCopy_nil (sem : Sem) (l : List Pql.Stmt) (src : Bytes) (out : List Chunk) :
    exec sem (.ite (.notNil ⟨"opts", ""⟩) [.forMap "k" "v" ⟨"opts", "Parameters"⟩ copyBody] [])
        ⟨cV [] .nil l none src, out⟩ = .ok (.next, ⟨cV [] .nil l none src, out⟩) := by
  xe_simp [cV]

/-- Go leaves the order of `range` over a map unspecified; the keys of a map are distinct, so every order
    yields a scope with the same lookups -/
theorem C06_paramCopy_order (ps qs : List (Bytes × Bytes)) (hp : ps.Perm qs) (hd : (ps.map (·.1)).Nodup) (name : Bytes) :
    lookupScope (ps.map scopeEntry) name = lookupScope (qs.map scopeEntry) name := by
  unfold lookupScope
  induction hp with
  | nil => rfl
  | @cons x l₁ l₂ _ ih =>
    have hd' : (l₁.map (·.1)).Nodup := by
      simp only [List.map_cons, List.nodup_cons] at hd
      exact hd.2
    simp only [List.map_cons, List.find?_cons]
    cases (scopeEntry x).1 == name
    · exact ih hd'
    · rfl
  | swap x y l =>
    have hne : y.1 ≠ x.1 := by
      simp only [List.map_cons, List.nodup_cons, List.mem_cons, not_or] at hd
      exact hd.1.1
    simp only [List.map_cons, List.find?_cons]
    cases hy : (scopeEntry y).1 == name <;> cases hx : (scopeEntry x).1 == name
    · rfl
    · rfl
    · rfl
    · exfalso
      have h1 : y.1 = name := by simpa [scopeEntry] using hy
      have h2 : x.1 = name := by simpa [scopeEntry] using hx
      exact hne (h1.trans h2.symm)
  | trans h1 h2 ih1 ih2 =>
    rw [ih1 hd, ih2 ((h1.map _).nodup_iff.1 hd)]

/-! ### the statement loop -/

theorem compileStmts_cons (src : Bytes) (s : Pql.Stmt) (rest : List Pql.Stmt) (sc : List (Bytes × List Chunk))
    (q : Option Tabular) :
    compileStmts src (s :: rest) sc q = compileStmts src [s] sc q >>= fun r => compileStmts src rest r.1 r.2 := by
  cases s with
  | tabular t => cases q <;> simp [compileStmts, bind, Except.bind]
  | let_ kw name asg x =>
    cases q with
    | some t => simp [compileStmts, bind, Except.bind]
    | none =>
      simp only [compileStmts]
      cases (writeExpr ⟨src, sc, .let_⟩ x).map (wrapTight x) with
      | error e => simp [bind, Except.bind]
      | ok sql => cases name <;> simp [bind, Except.bind]

/-- the callees the loop needs: `writeExpressionTight` in let mode -/
def TightOK (sem : Sem) (src : Bytes) : Prop :=
  ∀ sc e, sem.tight ⟨src, sc, .let_⟩ e = liftW ((writeExpr ⟨src, sc, .let_⟩ e).map (wrapTight e))

/-- one statement: the body of the loop against `compileStmts` on that statement -/
theorem stmt_step (sem : Sem) (src : Bytes) (ht : TightOK sem src) (l : List Pql.Stmt) (o : Option (List (Bytes × Bytes)))
    (s : Pql.Stmt) (sc : List (Bytes × List Chunk)) (q : Option Tabular) (hq : q ≠ some .nil) (hs : s ≠ .tabular .nil)
    (out : List Chunk) :
    match compileStmts src [s] sc q with
    | .error e => execBlock sem loopBody ⟨("stmt", .stmt s) :: cV sc (tOf q) l o src, out⟩ = .error (.go e)
    | .ok r => r.2 ≠ some .nil ∧ ∃ f out', (f = .next ∨ f = .cont) ∧
        execBlock sem loopBody ⟨("stmt", .stmt s) :: cV sc (tOf q) l o src, out⟩ =
          .ok (f, ⟨("stmt", .stmt s) :: cV r.1 (tOf r.2) l o src, out'⟩) := by
  cases s with
  | tabular t =>
    cases q with
    | none =>
      cases t with
      | nil => exact absurd rfl hs
      | mk source ops =>
        refine ⟨by simp, .next, out, Or.inl rfl, ?_⟩
        xe_simp [loopBody, tabBody, Stm, ExprV, cV, tOf]
    | some t' =>
      cases t' with
      | nil => exact absurd rfl hq
      | mk source ops =>
        show execBlock _ _ _ = _
        xe_simp [loopBody, tabBody, Stm, ExprV, cV, tOf]
  | let_ kw name asg x =>
    cases q with
    | some t' =>
      cases t' with
      | nil => exact absurd rfl hq
      | mk source ops =>
        refine ⟨by simp [compileStmts], .cont, out, Or.inr rfl, ?_⟩
        xe_simp [loopBody, letBody, Stm, ExprV, cV, tOf, compileStmts]
    | none =>
      have htx := ht sc x
      simp only [compileStmts]
      cases hw : (writeExpr ⟨src, sc, .let_⟩ x).map (wrapTight x) with
      | error e =>
        rw [hw] at htx
        show execBlock _ _ _ = _
        xe_simp [loopBody, letBody, Stm, ExprV, cV, tOf, htx]
      | ok sql =>
        rw [hw] at htx
        cases name with
        | none =>
          show execBlock _ _ _ = _
          xe_simp [loopBody, letBody, Stm, ExprV, cV, tOf, htx]
        | some n =>
          refine ⟨by simp, .next, sql, Or.inl rfl, ?_⟩
          xe_simp [loopBody, letBody, Stm, ExprV, cV, tOf, htx]

theorem stmts_loop (sem : Sem) (src : Bytes) (ht : TightOK sem src) (l : List Pql.Stmt) (o : Option (List (Bytes × Bytes))) :
    ∀ (stmts : List Pql.Stmt) (i : Nat) (sc : List (Bytes × List Chunk)) (q : Option Tabular) (out : List Chunk),
      (∀ s ∈ stmts, s ≠ .tabular .nil) → q ≠ some .nil →
      match compileStmts src stmts sc q with
      | .error e => forEach "_" "stmt" (execBlock sem loopBody) i (stmts.map .stmt) ⟨cV sc (tOf q) l o src, out⟩ = .error (.go e)
      | .ok r => r.2 ≠ some .nil ∧
          ∃ out', forEach "_" "stmt" (execBlock sem loopBody) i (stmts.map .stmt) ⟨cV sc (tOf q) l o src, out⟩ =
            .ok (.next, ⟨cV r.1 (tOf r.2) l o src, out'⟩)
  | [], i, sc, q, out, _, hq => by simp [compileStmts, forEach, hq]
  | s :: rest, i, sc, q, out, hs, hq => by
    have h1 := stmt_step sem src ht l o s sc q hq (hs s (List.mem_cons_self ..)) out
    rw [compileStmts_cons]
    simp only [List.map_cons, forEach, State.declare, show (("_" : String) == "_") = true by decide,
      show (("stmt" : String) == "_") = false by decide, ↓reduceIte, Bool.false_eq_true]
    cases hc : compileStmts src [s] sc q with
    | error e =>
      rw [hc] at h1
      simp only [bind_err]
      rw [h1]; rfl
    | ok r =>
      rw [hc] at h1
      obtain ⟨hq', f, out', hf, hb⟩ := h1
      have ih := stmts_loop sem src ht l o rest (i + 1) r.1 r.2 out' (fun s' hs' => hs s' (List.mem_cons_of_mem _ hs')) hq'
      have hl : (⟨("stmt", .stmt s) :: cV r.1 (tOf r.2) l o src, out'⟩ : State).leave ⟨cV sc (tOf q) l o src, out⟩ =
          ⟨cV r.1 (tOf r.2) l o src, out'⟩ := by simp [State.leave, cV]
      simp only [bind_ok]
      rw [hb]
      simp only [bind_ok]
      rcases hf with rfl | rfl <;> simp only [hl] <;> exact ih

/-! ### the callees -/

/-- `parser.Parse`: the statements, or an error -/
def parseModel (src : Bytes) : Option (List Pql.Stmt) :=
  if (parse src).2.isEmpty then some (parse src).1 else none

/-- `splitQueries(nil, source, scope, expr)` (tied to its own regenerated IR by `C02_split_ir`) -/
def splitModel (src : Bytes) (sc : List (Bytes × List Chunk)) (t : Tabular) : M (List Subquery) :=
  liftW (splitQueries src sc [] t)

/-- the callees of `Compile`: the expression writers interpreted from their regenerated bodies -/
def theSem (ord : List (Bytes × Bytes) → List (Bytes × Bytes)) : Sem := compileSem parseModel splitModel ord

theorem theSem_tight (ord) : (theSem ord).tight = interpWriteTight := rfl
theorem theSem_order (ord) : (theSem ord).mapOrder = ord := rfl

theorem tightOK (ord : List (Bytes × Bytes) → List (Bytes × Bytes)) (src : Bytes) : TightOK (theSem ord) src := by
  intro sc e
  rw [theSem_tight]
  exact C01_writeTight_ir ⟨src, sc, .let_⟩ e (fun h => by cases h)

/-- **C06 (the statement loop of `Compile` is translated code).**  For every list of statements (none of them a
    nil `*TabularExpr`), every scope and every query found so far, the interpretation of the regenerated loop —
    with the interpretation of `writeExpressionTight` and everything below it as the callee — ends in the error
    of the model's `compileStmts`, or leaves in `scope` and `expr` what `compileStmts` returns -/
theorem C06_compileStmts_ir (ord : List (Bytes × Bytes) → List (Bytes × Bytes)) (src : Bytes) (l : List Pql.Stmt)
    (o : Option (List (Bytes × Bytes))) (stmts : List Pql.Stmt) (sc : List (Bytes × List Chunk)) (q : Option Tabular)
    (out : List Chunk) (hs : ∀ s ∈ stmts, s ≠ .tabular .nil) (hq : q ≠ some .nil) :
    (forEach "_" "stmt" (execBlock (theSem ord) loopBody) 0 (stmts.map .stmt) ⟨cV sc (tOf q) l o src, out⟩).map
        (fun r => (r.1, r.2.vars)) =
      liftW ((compileStmts src stmts sc q).map fun r => (Flow.next, cV r.1 (tOf r.2) l o src)) := by
  have h := stmts_loop (theSem ord) src (tightOK ord src) l o stmts 0 sc q out hs hq
  cases hc : compileStmts src stmts sc q with
  | error e => rw [hc] at h; rw [h]; rfl
  | ok r =>
    rw [hc] at h
    obtain ⟨_, out', h⟩ := h
    rw [h]; rfl

/-- the side condition is needed: on a nil `*TabularExpr` statement Go's `expr != nil` stays false (a second
    query is then accepted, or "missing tabular queries" reported), the model counts it as the query -/
theorem C06_compileStmts_ir_needs_tab :
    (forEach "_" "stmt" (execBlock (theSem List.reverse) loopBody) 0 ([Pql.Stmt.tabular .nil].map .stmt)
        ⟨cV [] .nil [] none [], []⟩).map (fun r => (r.1, r.2.vars)) = .ok (.next, cV [] .nil [] none []) ∧
    (compileStmts [] [.tabular .nil] [] none).map (fun r => r.2) = .ok (some .nil) := by
  constructor
  · xe_simp [forEach, loopBody, tabBody, Stm, ExprV, cV]
  · rfl

/-- non-vacuity: `let x = -1; T` -/
theorem C06_compileStmts_ir_nonvacuous :
    let stmts : List Pql.Stmt := [.let_ .zero (some ⟨[120], .zero, false⟩) .zero (.unary .zero .minus (.lit .zero .number [49])),
      .tabular (.mk (some ⟨[84], .zero, false⟩) .nil)]
    (∀ s ∈ stmts, s ≠ .tabular .nil) ∧
    (compileStmts [] stmts [] none).map (fun r => r.1) = .ok [([120], [.txt "(", .txt "-", .num [49], .txt ")"])] := by
  constructor
  · intro s hs
    simp at hs
    rcases hs with rfl | rfl <;> simp
  · rfl

/-! ### the front part of `Compile` -/

def scope0 (ord : List (Bytes × Bytes) → List (Bytes × Bytes)) : Option (List (Bytes × Bytes)) → List (Bytes × List Chunk)
  | none => []
  | some ps => (ord ps).reverse.map scopeEntry

def finishPre : Flow × State → M (List (Bytes × List Chunk) × List Subquery)
  | (.next, st) => do
    match ← st.get "scope", ← st.get "subqueries" with
    | .scope sc, .subs l => pure (sc, l)
    | _, _ => stuck
  | _ => stuck

theorem interpCompilePre_eq (sem : Sem) (opts : Option (List (Bytes × Bytes))) (src : Bytes) :
    interpCompilePre sem opts src =
      execBlock sem compilePreIR ⟨[("opts", .opts opts), ("source", .str src)], []⟩ >>= finishPre := by
  unfold interpCompilePre
  rw [compilePre_ir]
  simp only []
  cases execBlock sem compilePreIR ⟨[("opts", .opts opts), ("source", .str src)], []⟩ with
  | error e => rfl
  | ok r => obtain ⟨f, st⟩ := r; cases f <;> rfl

def postIR : List Stmt :=
  [.ite (.isNil ExprV) [.errorf "missing tabular queries"] [], .trySplit "subqueries" "source" "scope" "expr"]

theorem post_eq (ord : List (Bytes × Bytes) → List (Bytes × Bytes)) (src : Bytes) (l : List Pql.Stmt)
    (o : Option (List (Bytes × Bytes))) (sc : List (Bytes × List Chunk)) (q : Option Tabular) (hq : q ≠ some .nil)
    (out : List Chunk) :
    execBlock (theSem ord) postIR ⟨cV sc (tOf q) l o src, out⟩ >>= finishPre =
      liftW (match q with
        | none => .error .err
        | some t => (splitQueries src sc [] t).map fun subs => (sc, subs)) := by
  cases q with
  | none => xe_simp [postIR, ExprV, cV, tOf]
  | some t =>
    cases t with
    | nil => exact absurd rfl hq
    | mk source ops =>
      cases hsq : splitQueries src sc [] (.mk source ops) <;>
        xe_simp [postIR, ExprV, cV, tOf, theSem, compileSem, splitModel, noSem, hsq, finishPre]

/-- **C06 (the front part of `Compile` is translated code).**  For every options value (nil or not), every
    parameter list and every source whose statements contain no nil `*TabularExpr` (the parser never builds
    one): the interpretation of the regenerated statements of `Compile` up to the call of `splitQueries` fails
    as the parser / `compileStmts` / `splitQueries` fail, or leaves in `scope` and `subqueries` the model's
    scope and subqueries -/
theorem C06_compilePre_ir (ord : List (Bytes × Bytes) → List (Bytes × Bytes)) (opts : Option (List (Bytes × Bytes)))
    (src : Bytes) (hs : ∀ s ∈ (parse src).1, s ≠ .tabular .nil) :
    interpCompilePre (theSem ord) opts src =
      if (parse src).2.isEmpty then
        liftW (compileStmts src (parse src).1 (scope0 ord opts) none >>= fun sq =>
          match sq.2 with
          | none => .error .err
          | some t => (splitQueries src sq.1 [] t).map fun subs => (sq.1, subs))
      else .error (.go .err) := by
  rw [interpCompilePre_eq]
  cases hp : (parse src).2.isEmpty with
  | false => xe_simp [compilePreIR, theSem, compileSem, parseModel, noSem, hp]
  | true =>
    simp only [↓reduceIte]
    have hsplit : compilePreIR = [.tryParse "stmts" "source", .varNil "expr" "*parser.TabularExpr", .makeMap "scope",
        .ite (.notNil ⟨"opts", ""⟩) [.forMap "k" "v" ⟨"opts", "Parameters"⟩ copyBody] [],
        .for_ "_" "stmt" ⟨"stmts", ""⟩ loopBody] ++ postIR := rfl
    -- the state when the copy loop starts
    have h3 : ∀ rest, execBlock (theSem ord) (.tryParse "stmts" "source" :: .varNil "expr" "*parser.TabularExpr" ::
          .makeMap "scope" :: rest) ⟨[("opts", .opts opts), ("source", .str src)], []⟩ =
        execBlock (theSem ord) rest ⟨cV [] .nil (parse src).1 opts src, []⟩ := by
      intro rest
      xe_simp [theSem, compileSem, parseModel, noSem, hp, cV]
    have hcopy : exec (theSem ord) (.ite (.notNil ⟨"opts", ""⟩) [.forMap "k" "v" ⟨"opts", "Parameters"⟩ copyBody] [])
          ⟨cV [] .nil (parse src).1 opts src, []⟩ =
        .ok (.next, ⟨cV (scope0 ord opts) .nil (parse src).1 opts src, []⟩) := by
      cases opts with
      | none => exact C06_paramCopy_nil _ _ _ _
      | some ps => rw [C06_paramCopy_ir, theSem_order]; rfl
    have hloop := stmts_loop (theSem ord) src (tightOK ord src) (parse src).1 opts (parse src).1 0 (scope0 ord opts) none []
      hs (by simp)
    have hfor : ∀ st : State, st = ⟨cV (scope0 ord opts) .nil (parse src).1 opts src, []⟩ →
        exec (theSem ord) (.for_ "_" "stmt" ⟨"stmts", ""⟩ loopBody) st =
          forEach "_" "stmt" (execBlock (theSem ord) loopBody) 0 ((parse src).1.map .stmt) st := by
      intro st hst
      subst hst
      rw [exec]
      xe_simp [cV]
    rw [hsplit]
    simp only [List.cons_append, List.nil_append]
    rw [h3, execBlock, hcopy]
    simp only [bind_ok]
    rw [execBlock, hfor _ rfl]
    cases hc : compileStmts src (parse src).1 (scope0 ord opts) none with
    | error e =>
      rw [hc] at hloop
      simp only [show tOf (none : Option Tabular) = Tabular.nil from rfl] at hloop
      rw [hloop]
      rfl
    | ok r =>
      rw [hc] at hloop
      obtain ⟨hq', out', hl⟩ := hloop
      simp only [show tOf (none : Option Tabular) = Tabular.nil from rfl] at hl
      rw [hl]
      simp only [bind_ok]
      have := post_eq ord src (parse src).1 opts r.1 r.2 hq' out'
      rw [this]

/-! ### `Compile` -/

def resultM : CompileResult → M Bytes
  | .ok sql => .ok sql
  | .error => .error (.go .err)
  | .panic => .error (.go .panic)

/-- `(*CompileOptions).Compile(source)`: the front part, then the statement assembly — the unit `Compile` of
    `Facts.writeIR`, interpreted by `WriteIR.interpAssembly` (C05) — on what the front part left in `scope`
    and `subqueries`; the result is the bytes of what was written -/
def interpCompile (ord : List (Bytes × Bytes) → List (Bytes × Bytes)) (opts : Option (List (Bytes × Bytes)))
    (src : Bytes) : M Bytes := do
  let r ← interpCompilePre (theSem ord) opts src
  let cs ← WriteIR.interpAssembly WriteIR.modelSem src r.1 r.2
  pure (renderChunks cs)

/-- a program that parses without error has no nil `*TabularExpr` statement -/
theorem parsed_no_nil_tab (src : Bytes) (h : (parse src).2.isEmpty = true) : ∀ s ∈ (parse src).1, s ≠ .tabular .nil := by
  intro s hs hn
  have he : (parse src).2 = [] := List.isEmpty_iff.1 h
  have hp : parseTokens src.length (scan src) = ((parse src).1, []) := by
    show parse src = _
    rw [← he]
  have hc := C11.C11_parsed_complete _ _ _ hp s hs
  rw [hn] at hc
  cases hc with
  | mk _ kids hl hc hk => simp [Node.ofStmt, Node.children] at hc

/-- **C06 / C13 (`Compile` is translated code, front to back).**  For every options value — nil, or with any
    parameter list — and every source: the interpretation of the regenerated front part of `Compile` (parse, fresh
    scope with the parameters copied in, the statement loop with its let-mode expression writer, the two error
    returns, the call of `splitQueries`) followed by the interpretation of the regenerated statement assembly
    yields exactly the model's `compile`: the same SQL bytes, an error where the model reports one, a panic where
    it panics.  Hypothesis-free.  (The map is visited in reverse list order here; by `C06_paramCopy_order` any other
    order gives a scope with the same lookups.) -/
theorem C06_compile_ir (opts : Option (List (Bytes × Bytes))) (src : Bytes) :
    interpCompile List.reverse opts src = resultM (compile (opts.getD []) src) := by
  unfold interpCompile compile
  cases hp : (parse src).2.isEmpty with
  | false =>
    have hpre : interpCompilePre (theSem List.reverse) opts src = .error (.go .err) := by
      rw [interpCompilePre_eq]
      xe_simp [compilePreIR, theSem, compileSem, parseModel, noSem, hp]
    rw [hpre]
    simp [hp, resultM, bind, Except.bind]
  | true =>
    rw [C06_compilePre_ir List.reverse opts src (parsed_no_nil_tab src hp)]
    have hs0 : scope0 List.reverse opts = (opts.getD []).map fun kv => (kv.1, [Chunk.raw kv.2]) := by
      cases opts with
      | none => rfl
      | some ps => simp [scope0, scopeEntry]
    simp only [hp, ↓reduceIte, Bool.not_true, Bool.false_eq_true, hs0]
    rw [WriteIR.compileChunks_eq]
    cases compileStmts src (parse src).1 ((opts.getD []).map fun kv => (kv.1, [Chunk.raw kv.2])) none with
    | error e => cases e <;> rfl
    | ok sq =>
      obtain ⟨sc, q⟩ := sq
      cases q with
      | none => rfl
      | some t =>
        simp only [bind_ok]
        cases hsq : splitQueries src sc [] t with
        | error e => cases e <;> simp [liftW, Except.map, resultM, bind, Except.bind]
        | ok subs =>
          have ha := WriteIR.C05_assembly_ir src sc subs
          simp only [liftW, Except.map, bind_ok]
          rw [ha]
          cases WriteIR.assemble ⟨src, sc, .default⟩ subs with
          | error e => cases e <;> simp [liftW, resultM, bind, Except.bind]
          | ok cs => simp [liftW, resultM, bind, Except.bind, pure, Except.pure]

/-- the parameters reach the scope whatever the order in which Go visits the map -/
theorem C06_compile_scope_order (ord : List (Bytes × Bytes) → List (Bytes × Bytes)) (ps : List (Bytes × Bytes))
    (hord : (ord ps).Perm ps) (hd : (ps.map (·.1)).Nodup) (name : Bytes) :
    lookupScope (scope0 ord (some ps)) name = lookupScope (scope0 List.reverse (some ps)) name := by
  show lookupScope ((ord ps).reverse.map scopeEntry) name = lookupScope (ps.reverse.reverse.map scopeEntry) name
  rw [List.reverse_reverse]
  have h1 : ((ord ps).reverse).Perm ps := (List.reverse_perm _).trans hord
  have hd' : (((ord ps).reverse).map (·.1)).Nodup := (h1.map _).nodup_iff.2 hd
  exact C06_paramCopy_order _ _ h1 hd' name

end Pql.ExprIR
