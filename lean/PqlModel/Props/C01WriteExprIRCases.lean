/-
Property C01 (and C13), tie by translation, part 2: the regenerated body of `writeExpression`, decoded
(`we_ir`), the bodies of the ten `write*Function` rewrites (`writer_ir_*`: arity guard, then the template)
and the lemmas about their pieces: the loop over the parts of a qualified identifier, the operands of a
template range, a built-in's writer.  Props/C01WriteExprIRAll.lean assembles them.
-/
import PqlModel.Props.C01WriteExprIR
import PqlModel.Props.C01Templates
namespace Pql.ExprIR
open Pql
open Pql.WriteIR (M IErr liftW goPanic stuck Path)
set_option linter.unusedSimpArgs false
set_option linter.unusedVariables false

/-! ### `writeExpression`, decoded -/

def CtxMode : Path := ⟨"ctx", "mode"⟩
def Part (f : String) : Path := ⟨"part", f⟩

/-- the body of `for i, part := range x.Parts` -/
def partBody : List Stmt :=
  [.ite (.gt0 "i") [.lit "."] [],
   .ite (.and (.and (.not (.flag (Part "Quoted")))
            (.or (.strEqC (Part "Name") "leftJoinTableAlias") (.strEqC (Part "Name") "rightJoinTableAlias")))
          (.modeNe CtxMode "joinExprMode"))
     [.retErr "ctx.source" "part.NameSpan" "%s used in non-join context"] [],
   .qid (Part "Name")]

/-- the statements of the QualifiedIdent case before the loop -/
def qidentPre : Stmt :=
  .ite (.lenEq ⟨"x", "Parts"⟩ 1)
     [.def_ "part" ⟨"x", "Parts[0]"⟩,
      .ite (.not (.flag (Part "Quoted")))
        [.ite (.mapHas "sql" "ctx.scope" (Part "Name")) [.str ⟨"sql", ""⟩, .ret] [],
         .ite (.mapHas "sql" "builtinIdentifiers" (Part "Name")) [.str ⟨"sql", ""⟩, .ret] [],
         .ite (.modeEq CtxMode "letExprMode")
           [.retErr "ctx.source" "part.NameSpan" "unknown identifier %s in let expression"] []]
        [.ite (.modeEq CtxMode "letExprMode")
           [.retErr "ctx.source" "part.NameSpan" "quoted identifier not permitted in let expression"] []]]
     [.ite (.modeEq CtxMode "letExprMode")
        [.retErr "ctx.source" "x.Span()" "qualified identifier not permitted in let expression"] []]

def qidentCase : List Stmt := [qidentPre, .for_ "i" "part" ⟨"x", "Parts"⟩ partBody]

def litCase : List Stmt :=
  [.ite (.tokIs ⟨"x", "Kind"⟩ "TokenNumber") [.str ⟨"x", "Value"⟩]
     [.ite (.tokIs ⟨"x", "Kind"⟩ "TokenString") [.qstr ⟨"x", "Value"⟩]
        [.fprintfS "NULL /* unhandled " " literal */" ⟨"x", "Kind"⟩]]]

def unaryCase : List Stmt :=
  [.ite (.tokIs ⟨"x", "Op"⟩ "TokenPlus") [.lit "+"]
     [.ite (.tokIs ⟨"x", "Op"⟩ "TokenMinus") [.lit "-"]
        [.fprintfS "/* unhandled " " unary op */ " ⟨"x", "Op"⟩]],
   .write "tight" ⟨"x", "X"⟩]

def binaryCase : List Stmt :=
  [.ite (.tokIs ⟨"x", "Op"⟩ "TokenEq")
     [.ite (.modeEq CtxMode "joinExprMode")
        [.hasJoin "xl" "xr" ⟨"x", "X"⟩,
         .hasJoin "yl" "yr" ⟨"x", "Y"⟩,
         .ite (.and (.or (.var "xl") (.var "yl")) (.or (.var "xr") (.var "yr")))
           [.template "BinaryExpr:TokenEq:join", .ret] []]
        [],
      .template "BinaryExpr:TokenEq"]
     [.ite (.tokIs ⟨"x", "Op"⟩ "TokenNE") [.template "BinaryExpr:TokenNE"]
        [.ite (.tokIs ⟨"x", "Op"⟩ "TokenCaseInsensitiveEq") [.template "BinaryExpr:TokenCaseInsensitiveEq"]
           [.ite (.tokIs ⟨"x", "Op"⟩ "TokenCaseInsensitiveNE") [.template "BinaryExpr:TokenCaseInsensitiveNE"]
              [.ite (.mapHas "sqlOp" "binaryOps" ⟨"x", "Op"⟩) [.template "BinaryExpr:default"]
                 [.fprintfS "NULL /* unhandled " " binary op */ " ⟨"x", "Op"⟩]]]]]]

def callCase : List Stmt :=
  [.scope [.defKnown "f" ⟨"x", "Func.Name"⟩,
           .ite (.notNil ⟨"f", ""⟩) [.callKnown "f" "x"] [.template "CallExpr:default"]]]

def defaultCase : List Stmt := [.fprintfT "NULL /* unhandled " " expression */" X]

def weIR : List Stmt :=
  [.unparen "x" "p" "ok" "ParenExpr" "X",
   .ite (.typeIs "x" "QualifiedIdent" X) qidentCase
     [.ite (.typeIs "x" "BasicLit" X) litCase
        [.ite (.typeIs "x" "UnaryExpr" X) unaryCase
           [.ite (.typeIs "x" "BinaryExpr" X) binaryCase
              [.ite (.typeIs "x" "InExpr" X) [.template "InExpr"]
                 [.ite (.typeIs "x" "IndexExpr" X) [.template "IndexExpr"]
                    [.ite (.typeIs "x" "CallExpr" X) callCase defaultCase]]]]]],
   .ret]

/-- what the translator regenerates for `writeExpression` -/
theorem we_ir : decode (irOf "writeExpression") = some weIR := by rfl

/-! ### the `write*Function` rewrites, decoded -/

def argSpan : String := "parser.Span{ Start: x.Lparen.End, End: x.Rparen.Start, }"

/-- arity guard, then the statements that are the writer's template -/
def writerIR (guard : Cond) (msg writer : String) : List Stmt :=
  [.ite guard [.retErr "ctx.source" argSpan msg] [], .template writer, .ret]

def Args : Path := ⟨"x", "Args"⟩

theorem writer_ir_count : decode (irOf "writer:writeCountFunction") =
    some (writerIR (.lenNe Args 0) "count() takes no arguments (got %d)" "writeCountFunction") := by rfl
theorem writer_ir_countif : decode (irOf "writer:writeCountIfFunction") =
    some (writerIR (.lenNe Args 1) "countif(x) takes a single argument (got %d)" "writeCountIfFunction") := by rfl
theorem writer_ir_if : decode (irOf "writer:writeIfFunction") =
    some (writerIR (.lenNe Args 3) "%s(if, then, else) takes 3 arguments (got %d)" "writeIfFunction") := by rfl
theorem writer_ir_isnotnull : decode (irOf "writer:writeIsNotNullFunction") =
    some (writerIR (.lenNe Args 1) "isnotnull(x) takes a single argument (got %d)" "writeIsNotNullFunction") := by rfl
theorem writer_ir_isnull : decode (irOf "writer:writeIsNullFunction") =
    some (writerIR (.lenNe Args 1) "isnull(x) takes a single argument (got %d)" "writeIsNullFunction") := by rfl
theorem writer_ir_not : decode (irOf "writer:writeNotFunction") =
    some (writerIR (.lenNe Args 1) "not(x) takes a single argument (got %d)" "writeNotFunction") := by rfl
theorem writer_ir_now : decode (irOf "writer:writeNowFunction") =
    some (writerIR (.lenNe Args 0) "now()) takes a no arguments (got %d)" "writeNowFunction") := by rfl
theorem writer_ir_strcat : decode (irOf "writer:writeStrcatFunction") =
    some (writerIR (.lenEq Args 0) "strcat(x) takes least one argument" "writeStrcatFunction") := by rfl
theorem writer_ir_tolower : decode (irOf "writer:writeToLowerFunction") =
    some (writerIR (.lenNe Args 1) "tolower(x) takes a single argument (got %d)" "writeToLowerFunction") := by rfl
theorem writer_ir_toupper : decode (irOf "writer:writeToUpperFunction") =
    some (writerIR (.lenNe Args 1) "toupper(x) takes a single argument (got %d)" "writeToUpperFunction") := by rfl

/-- every unit the translator is expected to deliver is there, and nothing else -/
theorem C01_exprIR_keys :
    Facts.exprIR.map (·.1) =
      ["Compile:pre", "hasJoinTerms", "writeExpression", "writeExpressionMaybeParen", "writeExpressionTight",
       "writer:writeCountFunction", "writer:writeCountIfFunction", "writer:writeIfFunction",
       "writer:writeIsNotNullFunction", "writer:writeIsNullFunction", "writer:writeNotFunction",
       "writer:writeNowFunction", "writer:writeStrcatFunction", "writer:writeToLowerFunction",
       "writer:writeToUpperFunction"] := by decide

/-- every writer named in `initKnownFunctions` has a unit -/
theorem C01_writers_have_units :
    Facts.knownFunctions.all (fun r => Facts.exprIR.any (·.1 == "writer:" ++ r.2.1)) = true := by decide

/-! ### helpers -/

theorem liftW_bind {α β : Type} (a : Except WErr α) (f : α → Except WErr β) :
    liftW (a >>= f) = liftW a >>= fun x => liftW (f x) := by
  cases a <;> rfl

theorem liftW_ok {α : Type} (a : α) : liftW (Except.ok a : Except WErr α) = .ok a := rfl
theorem liftW_err {α : Type} (e : WErr) : (liftW (Except.error e : Except WErr α)) = .error (.go e) := rfl

/-! ### the loop over the parts of a qualified identifier -/

/-- the part the loop rejects: `$left` / `$right` unquoted outside a join condition -/
def badPart (c : Ctx) : Ident → Bool :=
  fun p => !p.quoted && (p.name == leftAlias || p.name == rightAlias) && c.mode ≠ .join

theorem part_step (sem : Sem) (c : Ctx) (a b : Val) (i : Nat) (p : Ident) (out : List Chunk) :
    execBlock sem partBody ⟨[("part", .ident (some p)), ("i", .nat i), ("x", a), ("x", b), ("ctx", .ctx c none)], out⟩ =
      if badPart c p then .error (.go .err)
      else .ok (.next, ⟨[("part", .ident (some p)), ("i", .nat i), ("x", a), ("x", b), ("ctx", .ctx c none)],
        out ++ (if i > 0 then [.txt "."] else []) ++ [.qid p.name]⟩) := by
  cases hq : p.quoted <;> by_cases h1 : p.name = leftAlias <;> by_cases h2 : p.name = rightAlias <;>
    cases hm : c.mode <;> by_cases hi : i > 0 <;>
    xe_simp [partBody, Part, CtxMode, badPart, hq, h1, h2, hm, hi, ofString_left, ofString_right, left_ne_right]

/-- the chunks the loop writes from index `i` on -/
def partsFrom (i : Nat) : List Ident → List Chunk
  | [] => []
  | p :: ps => (if i > 0 then [.txt "."] else []) ++ [.qid p.name] ++ partsFrom (i + 1) ps

theorem parts_loop (sem : Sem) (c : Ctx) (a b : Val) : ∀ (ps : List Ident) (i : Nat) (out : List Chunk),
    forEach "i" "part" (execBlock sem partBody) i (ps.map fun p => .ident (some p))
        ⟨[("x", a), ("x", b), ("ctx", .ctx c none)], out⟩ =
      if ps.any (badPart c) then .error (.go .err)
      else .ok (.next, ⟨[("x", a), ("x", b), ("ctx", .ctx c none)], out ++ partsFrom i ps⟩)
  | [], i, out => by simp [forEach, partsFrom]
  | p :: ps, i, out => by
    have ih := parts_loop sem c a b ps (i + 1) (out ++ (if i > 0 then [.txt "."] else []) ++ [.qid p.name])
    simp only [List.map_cons, forEach, State.declare]
    have hd : (("i" == "_") = false) ∧ (("part" == "_") = false) := by decide
    simp only [hd.1, hd.2, Bool.false_eq_true, ↓reduceIte]
    rw [part_step]
    by_cases hb : badPart c p = true
    · simp [hb, bind, Except.bind]
    · simp only [hb, Bool.false_eq_true, ↓reduceIte, bind_ok, List.any_cons, Bool.false_or]
      have hl : (⟨[("part", .ident (some p)), ("i", .nat i), ("x", a), ("x", b), ("ctx", .ctx c none)],
          out ++ (if i > 0 then [.txt "."] else []) ++ [.qid p.name]⟩ : State).leave
            ⟨[("x", a), ("x", b), ("ctx", .ctx c none)], out⟩ =
          ⟨[("x", a), ("x", b), ("ctx", .ctx c none)], out ++ (if i > 0 then [.txt "."] else []) ++ [.qid p.name]⟩ := by
        simp [State.leave]
      rw [hl, ih]
      simp [partsFrom, List.append_assoc]

theorem partsFrom_succ (i : Nat) : ∀ ps : List Ident, partsFrom (i + 1) ps = ps.flatMap fun p => [.txt ".", .qid p.name]
  | [] => rfl
  | p :: ps => by simp [partsFrom, partsFrom_succ (i + 1) ps]

theorem sep_flat (sep : String) (f : Ident → List Chunk) : ∀ (p : Ident) (ps : List Ident),
    sepChunks sep ((p :: ps).map f) = f p ++ ps.flatMap fun x => .txt sep :: f x
  | p, [] => by simp [sepChunks]
  | p, q :: ps => by
    have ih := sep_flat sep f q ps
    simp only [List.map_cons] at ih ⊢
    simp [sepChunks, ih]

theorem partsFrom_zero (ps : List Ident) : partsFrom 0 ps = sepChunks "." (ps.map fun p => [.qid p.name]) := by
  cases ps with
  | nil => rfl
  | cons p ps => rw [sep_flat]; simp [partsFrom, partsFrom_succ]

/-! ### operands of a template range -/

/-- `writeExpression` on every element of a list, given that the callee agrees with the model on them -/
theorem plainAll_eq (sem : Sem) (c : Ctx) : (es : ExprList) →
    (∀ x, x.size ≤ es.size → (c.mode = .join → x.Good) → sem.plain c x = liftW (writeExpr c x)) →
    (c.mode = .join → es.Good) → plainAll sem c es = liftW (writeList c es)
  | .nil, _, _ => rfl
  | .cons e es, H, hg => by
    have h1 := H e (by simp [ExprList.size]) (fun h => (hg h).1)
    have h2 := plainAll_eq sem c es (fun x hx hgx => H x (by simp [ExprList.size]; omega) hgx) (fun h => (hg h).2)
    rw [plainAll, writeList, h1, h2]
    cases writeExpr c e <;> cases writeList c es <;> rfl

end Pql.ExprIR
