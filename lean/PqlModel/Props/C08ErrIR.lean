/-
Property C08 (and C07, C10), tie by translation: the parser's ERROR ALGEBRA is translated code.

The model (`Model/Parse.lean`) and both parser interpreters (`Model/ParseIR.lean`, `Model/ExprParseIR*.lean`) read a Go
error as the list of its leaves (`Errs`) and `joinErrors` / `makeErrorOpaque` / `isNotFound` as `++` / `mkOpaque` /
`isNF` — primitives so far.  Here:

* `harness/extract_err.go` regenerates from parser/parser.go, on every run, the bodies of the three functions
  (`Facts.errIR`), the error types with their method sets (`Facts.errTypes`) and every place that constructs an error
  value (`Facts.errSites`);
* `Model/ErrIR.lean` interprets the bodies on Go error TREES (`GoErr`), with `errors.Join`, `errors.As`, `fmt.Errorf`
  as primitives of their documented meaning, and defines `leaves` — what the harness hook `parser.VerifErrors` reports;
* `Props/C08ErrIRUnits.lean`: interpretation = `goJoin` / `goOpaque` / `errorsAsI` for every value;
  `Props/C08ErrIRAlgebra.lean`: these are `++` / `mkOpaque` / `isNF` through `leaves`; the invariant of the built values;
  `Props/C08ErrIRShape.lean`: what the invariant buys, counterexamples per clause.

This file: the three headline theorems at the method table of the Go code as it is now (`goMethods`, decoded from
the regenerated table), the constructor sites, the corollaries for the primitives of the two interpreters, and
non-vacuity on the error values of three real inputs (trees as printed by a `%T`-walk of the Go values).
-/
import PqlModel.Props.C08ErrIRShape
import PqlModel.Model.ExprParseIRValues
import PqlModel.Lemmas.LayoutLex
namespace Pql.ErrIR
open Pql
set_option linter.unusedSimpArgs false

theorem go_opaque_hides : goMethods.opaqueUnwrap = false := by rw [goMethods_eq]
theorem go_nf_unwraps : goMethods.nfUnwrap = true := by rw [goMethods_eq]

/-! ### the three functions -/

/-- **`joinErrors` is `++`**: for EVERY argument list the interpretation of the regenerated body terminates
    without panic and the leaves of its result are the leaves of the arguments, in order -/
theorem C08_joinErrors_ir (args : List (Option GoErr)) :
    ∃ r, interpJoinErrors goMethods args = .ok r ∧ leaves goMethods r = args.flatMap (leaves goMethods) :=
  ⟨goJoin args, joinErrors_interp goMethods args, leaves_goJoin goMethods args⟩

/-- **`makeErrorOpaque` is `mkOpaque`**: for EVERY value (nil, a `*parseError` — the span is kept, the inner
    not-found error hidden —, a join — every element wrapped, every span kept —, anything else) -/
theorem C08_makeErrorOpaque_ir (e : Option GoErr) :
    ∃ r, interpMakeErrorOpaque goMethods e = .ok r ∧ leaves goMethods r = mkOpaque (leaves goMethods e) :=
  ⟨goOpaque e, makeErrorOpaque_interp goMethods e, leaves_goOpaque goMethods go_opaque_hides e⟩

/-- **`isNotFound` is `isNF`**: for every value without a bare `notFoundError` (`bareNF_cx`: needed) -/
theorem C08_isNotFound_ir (e : Option GoErr) (h : bareNFO e = false) :
    interpIsNotFound goMethods e = .ok (isNF (leaves goMethods e)) := by
  rw [isNotFound_interp, errorsAs_leaves goMethods go_opaque_hides e h]

/-- … in particular for every value the productions of the parser hold -/
theorem C08_isNotFound_built (e : Option GoErr) (h : Built e) :
    interpIsNotFound goMethods e = .ok (isNF (leaves goMethods e)) :=
  C08_isNotFound_ir e ((wfO_iff e).mp (built_wf h)).1

/-- the results of the interpreted functions on built values are built values: the invariant holds at every
    point of every production (`C08_built_invariant`) -/
theorem C08_built_closed :
    (∀ args : List (Option GoErr), (∀ a ∈ args, Built a) → ∃ r, interpJoinErrors goMethods args = .ok r ∧ Built r) ∧
      (∀ e, Built e → ∃ r, interpMakeErrorOpaque goMethods e = .ok r ∧ Built r) :=
  ⟨fun args h => ⟨_, joinErrors_interp goMethods args, .join args h⟩,
   fun e h => ⟨_, makeErrorOpaque_interp goMethods e, .opaque e h⟩⟩

/-- **the invariant of the values the parser builds**: no bare not-found error; every join non-empty and without
    a join among its elements; the `err` of every `parseError` a fresh message (possibly marked not-found, possibly
    hidden); no `%w` wrapper -/
theorem C08_built_invariant (e : Option GoErr) (h : Built e) :
    bareNFO e = false ∧ allNodesO joinNode e = true ∧ allNodesO perrNode e = true ∧ allNodesO wrapNode e = true :=
  (wfO_iff e).mp (built_wf h)

/-- `err != nil` is `errs ≠ []` on built values -/
theorem C08_nil_ir (e : Option GoErr) (h : Built e) : leaves goMethods e = [] ↔ e = none :=
  leaves_eq_nil_iff goMethods e (wf_joinsOK e (built_wf h))

/-! ### the constructor sites -/

def units : List String := ["joinErrors", "makeErrorOpaque", "isNotFound"]

/-- **every place of package parser that constructs an error value** is `&parseError{…, err: <fresh message>}`,
    `&parseError{…, err: notFoundError{<fresh message>}}` or a fresh message — except inside the three translated
    functions (whose meaning is their IR) and the one `fmt.Errorf("…%w", …)` at the end of `Parse` -/
theorem C08_errSites_ir :
    Facts.errSites.all (fun x => (siteVal x.2).isSome || (x.2 == "unit" && units.contains x.1)
      || (x.2 == "wrapw" && x.1 == "Parse")) = true ∧
    (Facts.errSites.filter (·.2 == "wrapw")).length = 1 := by decide

/-- the readings of the constructor sites in both interpreters (`perr nf` ↦ `nfAt`, `perr plain` ↦ `errAt`,
    `errnopos` ↦ `errNoPos`, `wrapw e` ↦ the leaves of `e`) are the leaves of the values built there -/
theorem C08_site_leaves (s : Span) (e : GoErr) :
    leaves goMethods (some (.perr s (.nf .plain))) = nfAt s ∧
      leaves goMethods (some (.perr s .plain)) = errAt s ∧
      leaves goMethods (some .plain) = errNoPos ∧
      leaves goMethods (some (.wrapW e)) = leaves goMethods (some e) := by
  rw [goMethods_eq]
  refine ⟨?_, ?_, ?_, rfl⟩ <;>
    simp [leaves, flat, errorsAs, dynType, nfType, nfAt, errAt, errNoPos]

/-- what `Parse` returns has the leaves of its accumulated error -/
theorem C08_returned_leaves (e : Option GoErr) (h : Returned e) :
    ∃ b, Built b ∧ leaves goMethods e = leaves goMethods b := by
  cases h with
  | nil => exact ⟨none, .nil, rfl⟩
  | wrapped e h => exact ⟨some e, h, rfl⟩

/-! ### the primitives of the two parser interpreters -/

/-- `Model/ParseIR.lean` (`join a b`, `opaque e`, `isNF e`) and the model: the binary forms -/
theorem C08_opIR_primitives (a b : Option GoErr) (ha : Built a) :
    leaves goMethods (goJoin [a, b]) = leaves goMethods a ++ leaves goMethods b ∧
      leaves goMethods (goOpaque a) = mkOpaque (leaves goMethods a) ∧
      errorsAsI goMethods nfType a = isNF (leaves goMethods a) := by
  refine ⟨by simp [leaves_goJoin], leaves_goOpaque goMethods go_opaque_hides a,
    errorsAs_leaves goMethods go_opaque_hides a ((wfO_iff a).mp (built_wf ha)).1⟩

theorem allErrs_leaves : ∀ es : List (Option GoErr),
    ExprParseIR.allErrs (es.map fun e => ExprParseIR.Val.err (leaves goMethods e)) = some (es.flatMap (leaves goMethods))
  | [] => rfl
  | e :: es => by simp [ExprParseIR.allErrs, ExprParseIR.asErr, allErrs_leaves es]

/-- `Model/ExprParseIR*.lean`: what `evalCall` assumes of `joinErrors`, `makeErrorOpaque`, `isNotFound` on abstract
    error values IS the abstraction of the interpreted Go functions on the values they abstract -/
theorem C08_exprIR_primitives (es : List (Option GoErr)) (e : Option GoErr) (he : Built e) :
    ExprParseIR.evalCall "joinErrors" (es.map fun e => .err (leaves goMethods e)) =
        some (.err (leaves goMethods (goJoin es))) ∧
      ExprParseIR.evalCall "makeErrorOpaque" [.err (leaves goMethods e)] = some (.err (leaves goMethods (goOpaque e))) ∧
      ExprParseIR.evalCall "isNotFound" [.err (leaves goMethods e)] = some (.bool (errorsAsI goMethods nfType e)) := by
  refine ⟨?_, ?_, ?_⟩
  · simp [ExprParseIR.evalCall, allErrs_leaves, leaves_goJoin]
  · simp [ExprParseIR.evalCall, ExprParseIR.callOpaque, ExprParseIR.asErr, leaves_goOpaque goMethods go_opaque_hides]
  · simp [ExprParseIR.evalCall, ExprParseIR.callIsNF, ExprParseIR.asErr,
      errorsAs_leaves goMethods go_opaque_hides e ((wfO_iff e).mp (built_wf he)).1]

/-! ### non-vacuity: the error values of three real inputs -/

def nfSite (s : Span) : Option GoErr := some (.perr s (.nf .plain))
def errSite (s : Span) : Option GoErr := some (.perr s .plain)

theorem built_nfSite (s : Span) : Built (nfSite s) := .site "perr nf plain" _ s rfl
theorem built_errSite (s : Span) : Built (errSite s) := .site "perr plain" _ s rfl

/-- `T | where f(b[=])`: inside the brackets `=` is not an expression (a not-found `parseError` at 14–15, made opaque
    because the bracket was consumed) and is left over (`endSplit`: a second `parseError` at 14–15); the join is made
    opaque element by element on the way out (argument list, `where`) -/
def exIndex : Option GoErr :=
  goJoin [none, goOpaque (goOpaque (goJoin [goOpaque (nfSite ⟨14, 15⟩), errSite ⟨14, 15⟩]))]

/-- `let x;T`: `=` expected at the end of the first statement (7–7); `Parse` makes the statement's error opaque -/
def exLet : Option GoErr := goJoin [goJoin [none, goOpaque (errSite ⟨7, 7⟩)], none]

/-- `T | join (U | ) on a`: the operator name is missing after the inner pipe (12–13) -/
def exJoin : Option GoErr := goJoin [none, goOpaque (goOpaque (goJoin [none, errSite ⟨12, 13⟩]))]

/-- the trees are the ones the Go implementation builds (under the final `*fmt.wrapError`):
    `joinError[opaque(opaque(perr[14,15](opaque(nf(errorString))))), opaque(opaque(perr[14,15](errorString)))]`,
    `joinError[perr[7,7](opaque(errorString))]`, `joinError[opaque(opaque(perr[12,13](errorString)))]` -/
theorem C08_examples_trees :
    exIndex = some (.join [.opaque (.opaque (.perr ⟨14, 15⟩ (.opaque (.nf .plain)))),
                           .opaque (.opaque (.perr ⟨14, 15⟩ .plain))]) ∧
      exLet = some (.join [.perr ⟨7, 7⟩ (.opaque .plain)]) ∧
      exJoin = some (.join [.opaque (.opaque (.perr ⟨12, 13⟩ .plain))]) := ⟨rfl, rfl, rfl⟩

theorem C08_examples_built : Built exIndex ∧ Built exLet ∧ Built exJoin := by
  have b0 : Built none := .nil
  refine ⟨?_, ?_, ?_⟩
  · refine .join _ fun a ha => ?_
    simp only [List.mem_cons, List.mem_nil_iff, or_false] at ha
    rcases ha with rfl | rfl
    · exact b0
    · refine .opaque _ (.opaque _ (.join _ fun a ha => ?_))
      simp only [List.mem_cons, List.mem_nil_iff, or_false] at ha
      rcases ha with rfl | rfl
      · exact .opaque _ (built_nfSite _)
      · exact built_errSite _
  · refine .join _ fun a ha => ?_
    simp only [List.mem_cons, List.mem_nil_iff, or_false] at ha
    rcases ha with rfl | rfl
    · refine .join _ fun a ha => ?_
      simp only [List.mem_cons, List.mem_nil_iff, or_false] at ha
      rcases ha with rfl | rfl
      · exact b0
      · exact .opaque _ (built_errSite _)
    · exact b0
  · refine .join _ fun a ha => ?_
    simp only [List.mem_cons, List.mem_nil_iff, or_false] at ha
    rcases ha with rfl | rfl
    · exact b0
    · refine .opaque _ (.opaque _ (.join _ fun a ha => ?_))
      simp only [List.mem_cons, List.mem_nil_iff, or_false] at ha
      rcases ha with rfl | rfl
      · exact b0
      · exact built_errSite _

/-- **non-vacuity**: the leaves of these values are exactly the errors of the model's `parse` on the three sources
    (and what the Go hook reports: two leaves at 14–15, one at 7–7, one at 12–13, no not-found flag left) -/
theorem C08_examples_leaves :
    leaves goMethods exIndex = (parse (Bytes.ofString "T | where f(b[=])")).2 ∧
      leaves goMethods exLet = (parse (Bytes.ofString "let x;T")).2 ∧
      leaves goMethods exJoin = (parse (Bytes.ofString "T | join (U | ) on a")).2 := by
  refine ⟨?_, ?_, ?_⟩ <;> (simp only [parse, Layout.scan_eq_scanFuel]; decide)

/-- the headline theorems apply to them with all hypotheses met, and say something: the not-found error of the first
    example is still visible to `isNotFound` before the last `makeErrorOpaque`, not after -/
theorem C08_examples_nontrivial :
    interpIsNotFound goMethods (goJoin [nfSite ⟨14, 15⟩, errSite ⟨14, 15⟩]) = .ok true ∧
      interpIsNotFound goMethods (goOpaque (goJoin [nfSite ⟨14, 15⟩, errSite ⟨14, 15⟩])) = .ok false ∧
      interpIsNotFound goMethods exIndex = .ok false ∧
      (leaves goMethods exIndex).length = 2 := by
  refine ⟨?_, ?_, ?_, ?_⟩
  · rw [isNotFound_interp, goMethods_eq]; exact congrArg Except.ok (by decide)
  · rw [isNotFound_interp, goMethods_eq]; exact congrArg Except.ok (by decide)
  · rw [isNotFound_interp, goMethods_eq]; exact congrArg Except.ok (by decide)
  · rw [goMethods_eq]; decide

end Pql.ErrIR
