/-
Property C07, tie by translation: `(*parser).projectOperator` (with the column loop `pProjectCols`) is the
interpretation of its regenerated body (`C07_projectOperator_ir`).  This is the one function of the level
that writes through a pointer after having stored it (`op.Cols = append(op.Cols, col)` … `col.Assign = …`,
`col.X, err = p.expr()`): the columns live in the interpreter's heap and the operator holds references.
-/
import PqlModel.Props.C07OperatorIRExtend
namespace Pql.OpIR
open Pql
set_option linter.unusedSimpArgs false

theorem newRec_project : newRec "ProjectOperator" =
    some ⟨"ProjectOperator", [("Pipe", .span .zero), ("Keyword", .span .zero), ("Cols", .list [])]⟩ := by rfl
theorem newRec_projectColumn : newRec "ProjectColumn" =
    some ⟨"ProjectColumn", [("Name", .ident none), ("Assign", .span .zero), ("X", .expr .nil)]⟩ := by rfl

/-- the heap record of a column -/
def colRec (x : Column) : Rec := ⟨"ProjectColumn", [("Name", .ident x.name), ("Assign", .span x.assign), ("X", .expr x.x)]⟩
def colRecs (acc : List Column) : List Rec := acc.map colRec

/-- the references `1 … n` -/
def refsUpTo : Nat → List Val
  | 0 => []
  | n + 1 => refsUpTo n ++ [.ref (n + 1)]

theorem colRecs_length (acc : List Column) : (colRecs acc).length = acc.length := by simp [colRecs]

theorem colRecs_snoc (acc : List Column) (n : Option Ident) (s : Span) (e : Expr) :
    colRecs acc ++ [⟨"ProjectColumn", [("Name", .ident n), ("Assign", .span s), ("X", .expr e)]⟩] = colRecs (acc ++ [⟨n, s, e⟩]) := by
  simp [colRecs, colRec]

theorem colRecs_get (acc : List Column) (x : Column) (n : Nat) (h : n = acc.length) :
    (colRecs (acc ++ [x]))[n]? = some ⟨"ProjectColumn", [("Name", .ident x.name), ("Assign", .span x.assign), ("X", .expr x.x)]⟩ := by
  subst h; simp [colRecs, colRec]

theorem colRecs_getElem (acc : List Column) (x : Column) (h : acc.length < (colRecs (acc ++ [x])).length) :
    (colRecs (acc ++ [x]))[acc.length]'h =
      ⟨"ProjectColumn", [("Name", .ident x.name), ("Assign", .span x.assign), ("X", .expr x.x)]⟩ := by
  simp [colRecs, colRec]

theorem colRecs_set (acc : List Column) (x : Column) (k : Nat) (h : k = acc.length) (n : Option Ident) (s : Span) (e : Expr) :
    (colRecs (acc ++ [x])).set k ⟨"ProjectColumn", [("Name", .ident n), ("Assign", .span s), ("X", .expr e)]⟩ =
      colRecs (acc ++ [⟨n, s, e⟩]) := by
  subst h; simp [colRecs, colRec]

theorem snoc_get (l : List Rec) (r : Rec) (n : Nat) (h : n = l.length) : (l ++ [r])[n]? = some r := by
  subst h; simp

theorem snoc_set (l : List Rec) (r r' : Rec) (n : Nat) (h : n = l.length) : (l ++ [r]).set n r' = l ++ [r'] := by
  subst h; simp

theorem toColumns_append (h : List Rec) : ∀ (a b : List Val) (x y : List Column),
    toColumns h a = some x → toColumns h b = some y → toColumns h (a ++ b) = some (x ++ y)
  | [], b, x, y, ha, hb => by
    simp [toColumns] at ha
    subst ha
    simpa using hb
  | v :: a, b, x, y, ha, hb => by
    simp only [toColumns] at ha
    cases hv : toColumn h v with
    | none => simp [hv] at ha
    | some cv =>
      cases hr : toColumns h a with
      | none => simp [hv, hr] at ha
      | some cr =>
        simp [hv, hr] at ha
        subst ha
        simp [toColumns, hv, toColumns_append h a b cr y hr hb]

theorem toColumn_ref (o : Rec) (acc : List Column) (i : Nat) (x : Column) (hx : acc[i]? = some x) :
    toColumn (o :: colRecs acc) (.ref (i + 1)) = some x := by
  have : (colRecs acc)[i]? = some (colRec x) := by simp [colRecs, hx]
  simp [toColumn, this, colRec, toIdent, toExpr]

theorem toColumns_refs (o : Rec) (acc : List Column) : ∀ k, k ≤ acc.length →
    toColumns (o :: colRecs acc) (refsUpTo k) = some (acc.take k)
  | 0, _ => by simp [refsUpTo, toColumns]
  | k + 1, hk => by
    have ih := toColumns_refs o acc k (by omega)
    have hx : acc[k]? = some acc[k] := List.getElem?_eq_getElem (by omega)
    have h1 : toColumns (o :: colRecs acc) [.ref (k + 1)] = some [acc[k]] := by
      simp only [toColumns, toColumn_ref o acc k acc[k] hx]
    rw [refsUpTo, toColumns_append _ _ _ _ _ ih h1, List.take_add_one, hx]
    rfl

theorem toColumns_all (o : Rec) (acc : List Column) : toColumns (o :: colRecs acc) (refsUpTo acc.length) = some acc := by
  simpa using toColumns_refs o acc acc.length (Nat.le_refl _)

theorem toColumns_all' (o : Rec) (acc : List Column) (x : Column) :
    toColumns (o :: colRecs (acc ++ [x])) (refsUpTo (acc.length + 1)) = some (acc ++ [x]) := by
  simpa using toColumns_all o (acc ++ [x])

/-- the state in the column loop: the operator at address 0, the columns at 1 … m -/
def projectSt (pipe kws : Span) (kw pt : Token) (acc : List Column) (m : Nat) (ts : List Token) (u : Option (List Token)) : St :=
  ⟨[("op", .ref 0), ("keyword", .tok kw), ("pipe", .tok pt), ("p", .parser ts u)],
   ⟨"ProjectOperator", [("Pipe", .span pipe), ("Keyword", .span kws), ("Cols", .list (refsUpTo m))]⟩ :: colRecs acc⟩

theorem refsUpTo_snoc (n : Nat) : refsUpTo n ++ [.ref (n + 1)] = refsUpTo (n + 1) := rfl

macro "proj_simp" : tactic =>
  `(tactic| ir_simp [*, pIdent, newRec_projectColumn, colRecs_length, colRecs_get, colRecs_getElem, colRecs_set, colRecs_snoc, refsUpTo_snoc,
      toColumns_all, toColumns_all', kind_comma, kind_assign, eofTok, Token.span, nfAt, errNoPos])

theorem project_loop (c : PCtx) (fuel : Nat) (pipe kws : Span) (kw pt : Token) :
    ∀ (n : Nat) (acc : List Column) (m : Nat) (ts : List Token) (u : Option (List Token)), m = acc.length →
      result toOp "op" none
          (runLoop false (execBlock (envAt c) (lastLoop projectOperatorBody)) n fuel (projectSt pipe kws kw pt acc m ts u)) =
        .ok ⟨.project pipe kws (pProjectCols c fuel n acc ts).val, (pProjectCols c fuel n acc ts).errs,
          (pProjectCols c fuel n acc ts).rest⟩
  | 0, acc, m, ts, u, hm => by
    subst hm
    simp [runLoop, result_fuel, projectSt, pProjectCols, St.parser, St.get, toOp, recToOp, listOf, toColumns_all, optM,
      bind, Except.bind, pure, Except.pure]
  | n + 1, acc, m, ts, u, hm => by
    subst hm
    have ih := project_loop c fuel pipe kws kw pt n
    simp only [lastLoop, projectOperatorBody, List.getLast?_cons_cons, List.getLast?_singleton, projectSt, envAt] at ih ⊢
    unfold runLoop pProjectCols
    rcases ts with _ | ⟨t, rest0⟩
    · proj_simp
    · by_cases hk : t.kind = .ident ∨ t.kind = .qident
      · rcases rest0 with _ | ⟨sep, rest⟩
        · proj_simp
        · by_cases hc : sep.kind = .comma
          · proj_simp
          · by_cases ha : sep.kind = .assign
            · cases he : (pExpr c fuel rest).errs
              · rcases hr : (pExpr c fuel rest).rest with _ | ⟨sep2, rest2⟩
                · proj_simp
                · by_cases hc2 : sep2.kind = .comma
                  · proj_simp
                  · proj_simp
              · proj_simp
            · proj_simp
      · proj_simp

theorem pOperator_project (c : PCtx) (fuel : Nat) (pipe : Span) (kw : Token) (ts : List Token) :
    pOperator c (fuel + 1) pipe (kwTok "project" kw) ts =
      some ⟨.project pipe kw.span (pProjectCols c fuel (ts.length + 1) [] ts).val, (pProjectCols c fuel (ts.length + 1) [] ts).errs,
        (pProjectCols c fuel (ts.length + 1) [] ts).rest⟩ := by
  dispatch_simp

theorem projectOperator_run (c : PCtx) (fuel : Nat) (pipe kw : Token) (ts : List Token) :
    runOp c projectOperatorBody fuel pipe kw ts =
      .ok ⟨.project pipe.span kw.span (pProjectCols c fuel (ts.length + 1) [] ts).val,
        (pProjectCols c fuel (ts.length + 1) [] ts).errs, (pProjectCols c fuel (ts.length + 1) [] ts).rest⟩ := by
  have hsplit : projectOperatorBody = projectOperatorBody.dropLast ++ [.loop (lastLoop projectOperatorBody)] := rfl
  unfold runOp run
  rw [hsplit, execBlock_append]
  simp only [execBlock_single]
  have hpre : execBlock (envAt c) projectOperatorBody.dropLast fuel (entry (opParams ts pipe kw)) =
      .ok (.next, projectSt pipe.span kw.span kw pipe [] 0 ts none) := by
    ir_simp [projectOperatorBody, newRec_project, projectSt, colRecs, refsUpTo]
  rw [hpre]
  simp only [bind, Except.bind, exec, projectSt, St.parser, St.get, List.find?, envAt]
  simp
  exact project_loop c fuel pipe.span kw.span kw pipe (ts.length + 1) [] 0 ts none rfl

/-- **projectOperator**: the model's production is the interpretation of the regenerated body -/
theorem C07_projectOperator_ir (c : PCtx) (fuel : Nat) (pipe kw : Token) (ts : List Token) :
    (runOp c (bodyOf "projectOperator") fuel pipe kw ts).map some =
      .ok (pOperator c (fuel + 1) pipe.span (kwTok "project" kw) ts) := by
  simp only [bodyOf, projectOperator_ir, Option.map_some, Option.getD_some, projectOperator_run, pOperator_project]
  rfl

end Pql.OpIR
