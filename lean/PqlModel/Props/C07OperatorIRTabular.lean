/-
Property C07 (also C08, C13), tie by translation: `(*parser).tabularExpr` — the source table, the `|` loop
(`pOps`), the keyword switch, the error of an unknown operator name, `endSplit` after every operator —
is the interpretation of the regenerated body (`C07_tabularExpr_ir`), for every context, fuel and token
list for which the model does not run out of fuel (`NoFuel`; at fuel 0 the model's `pOperator` yields its
fuel result even for an unknown keyword, which no Go code does: `tabular_fuel_cx`).

The meaning of `opParser.<method>(pipeToken, operatorName)` is the model's `pOperator` on the canonical
keyword of that method (`calleeAt`, from the regenerated `Facts.operatorKeywords`);
`callee_<keyword>` say that this is `pOperator` on the token itself for each of the 14 keywords.
-/
import PqlModel.Props.C07OperatorIRLet
import PqlModel.Lemmas.ParseFuelTab
namespace Pql.OpIR
open Pql
set_option linter.unusedSimpArgs false

/-- the interpretation of `tabularExpr`: the operator loop runs on the call depth, as `pOps` does -/
def tabEnv (c : PCtx) : Env := { c := c, callee := calleeAt c, fuelLoop := true }

/-! ### the callee of every keyword -/

theorem callee_count (c : PCtx) (n : Nat) (pt name : Token) (ts : List Token) (h : name.value = Bytes.ofString "count") :
    calleeAt c n "countOperator" [.tok pt, .tok name] ts = ofOp (pOperator c n pt.span name ts) ∧
      (pOperator c n pt.span name ts).isSome = true := by
  cases n <;>
    simp (config := { decide := true }) [calleeAt, methodKeyword, Facts.operatorKeywords, ofOp, pOperator, kwTok, Token.span, h] <;>
    (repeat' split) <;> simp

theorem callee_where (c : PCtx) (n : Nat) (pt name : Token) (ts : List Token) (h : name.value = Bytes.ofString "where") :
    calleeAt c n "whereOperator" [.tok pt, .tok name] ts = ofOp (pOperator c n pt.span name ts) ∧
      (pOperator c n pt.span name ts).isSome = true := by
  cases n <;>
    simp (config := { decide := true }) [calleeAt, methodKeyword, Facts.operatorKeywords, ofOp, pOperator, kwTok, Token.span, h] <;>
    (repeat' split) <;> simp

theorem callee_filter (c : PCtx) (n : Nat) (pt name : Token) (ts : List Token) (h : name.value = Bytes.ofString "filter") :
    calleeAt c n "whereOperator" [.tok pt, .tok name] ts = ofOp (pOperator c n pt.span name ts) ∧
      (pOperator c n pt.span name ts).isSome = true := by
  cases n <;>
    simp (config := { decide := true }) [calleeAt, methodKeyword, Facts.operatorKeywords, ofOp, pOperator, kwTok, Token.span, h] <;>
    (repeat' split) <;> simp

theorem callee_sort (c : PCtx) (n : Nat) (pt name : Token) (ts : List Token) (h : name.value = Bytes.ofString "sort") :
    calleeAt c n "sortOperator" [.tok pt, .tok name] ts = ofOp (pOperator c n pt.span name ts) ∧
      (pOperator c n pt.span name ts).isSome = true := by
  cases n <;>
    simp (config := { decide := true }) [calleeAt, methodKeyword, Facts.operatorKeywords, ofOp, pOperator, kwTok, Token.span, h] <;>
    (repeat' split) <;> simp

theorem callee_order (c : PCtx) (n : Nat) (pt name : Token) (ts : List Token) (h : name.value = Bytes.ofString "order") :
    calleeAt c n "sortOperator" [.tok pt, .tok name] ts = ofOp (pOperator c n pt.span name ts) ∧
      (pOperator c n pt.span name ts).isSome = true := by
  cases n <;>
    simp (config := { decide := true }) [calleeAt, methodKeyword, Facts.operatorKeywords, ofOp, pOperator, kwTok, Token.span, h] <;>
    (repeat' split) <;> simp

theorem callee_take (c : PCtx) (n : Nat) (pt name : Token) (ts : List Token) (h : name.value = Bytes.ofString "take") :
    calleeAt c n "takeOperator" [.tok pt, .tok name] ts = ofOp (pOperator c n pt.span name ts) ∧
      (pOperator c n pt.span name ts).isSome = true := by
  cases n <;>
    simp (config := { decide := true }) [calleeAt, methodKeyword, Facts.operatorKeywords, ofOp, pOperator, kwTok, Token.span, h] <;>
    (repeat' split) <;> simp

theorem callee_limit (c : PCtx) (n : Nat) (pt name : Token) (ts : List Token) (h : name.value = Bytes.ofString "limit") :
    calleeAt c n "takeOperator" [.tok pt, .tok name] ts = ofOp (pOperator c n pt.span name ts) ∧
      (pOperator c n pt.span name ts).isSome = true := by
  cases n <;>
    simp (config := { decide := true }) [calleeAt, methodKeyword, Facts.operatorKeywords, ofOp, pOperator, kwTok, Token.span, h] <;>
    (repeat' split) <;> simp

theorem callee_top (c : PCtx) (n : Nat) (pt name : Token) (ts : List Token) (h : name.value = Bytes.ofString "top") :
    calleeAt c n "topOperator" [.tok pt, .tok name] ts = ofOp (pOperator c n pt.span name ts) ∧
      (pOperator c n pt.span name ts).isSome = true := by
  cases n <;>
    simp (config := { decide := true }) [calleeAt, methodKeyword, Facts.operatorKeywords, ofOp, pOperator, kwTok, Token.span, h] <;>
    (repeat' split) <;> simp

theorem callee_project (c : PCtx) (n : Nat) (pt name : Token) (ts : List Token) (h : name.value = Bytes.ofString "project") :
    calleeAt c n "projectOperator" [.tok pt, .tok name] ts = ofOp (pOperator c n pt.span name ts) ∧
      (pOperator c n pt.span name ts).isSome = true := by
  cases n <;>
    simp (config := { decide := true }) [calleeAt, methodKeyword, Facts.operatorKeywords, ofOp, pOperator, kwTok, Token.span, h] <;>
    (repeat' split) <;> simp

theorem callee_extend (c : PCtx) (n : Nat) (pt name : Token) (ts : List Token) (h : name.value = Bytes.ofString "extend") :
    calleeAt c n "extendOperator" [.tok pt, .tok name] ts = ofOp (pOperator c n pt.span name ts) ∧
      (pOperator c n pt.span name ts).isSome = true := by
  cases n <;>
    simp (config := { decide := true }) [calleeAt, methodKeyword, Facts.operatorKeywords, ofOp, pOperator, kwTok, Token.span, h] <;>
    (repeat' split) <;> simp

theorem callee_summarize (c : PCtx) (n : Nat) (pt name : Token) (ts : List Token) (h : name.value = Bytes.ofString "summarize") :
    calleeAt c n "summarizeOperator" [.tok pt, .tok name] ts = ofOp (pOperator c n pt.span name ts) ∧
      (pOperator c n pt.span name ts).isSome = true := by
  cases n <;>
    simp (config := { decide := true }) [calleeAt, methodKeyword, Facts.operatorKeywords, ofOp, pOperator, kwTok, Token.span, h] <;>
    (repeat' split) <;> simp

theorem callee_join (c : PCtx) (n : Nat) (pt name : Token) (ts : List Token) (h : name.value = Bytes.ofString "join") :
    calleeAt c n "joinOperator" [.tok pt, .tok name] ts = ofOp (pOperator c n pt.span name ts) ∧
      (pOperator c n pt.span name ts).isSome = true := by
  cases n <;>
    simp (config := { decide := true }) [calleeAt, methodKeyword, Facts.operatorKeywords, ofOp, pOperator, kwTok, Token.span, h] <;>
    (repeat' split) <;> simp

theorem callee_as (c : PCtx) (n : Nat) (pt name : Token) (ts : List Token) (h : name.value = Bytes.ofString "as") :
    calleeAt c n "asOperator" [.tok pt, .tok name] ts = ofOp (pOperator c n pt.span name ts) ∧
      (pOperator c n pt.span name ts).isSome = true := by
  cases n <;>
    simp (config := { decide := true }) [calleeAt, methodKeyword, Facts.operatorKeywords, ofOp, pOperator, kwTok, Token.span, h] <;>
    (repeat' split) <;> simp

theorem callee_render (c : PCtx) (n : Nat) (pt name : Token) (ts : List Token) (h : name.value = Bytes.ofString "render") :
    calleeAt c n "renderOperator" [.tok pt, .tok name] ts = ofOp (pOperator c n pt.span name ts) ∧
      (pOperator c n pt.span name ts).isSome = true := by
  cases n <;>
    simp (config := { decide := true }) [calleeAt, methodKeyword, Facts.operatorKeywords, ofOp, pOperator, kwTok, Token.span, h] <;>
    (repeat' split) <;> simp

/-! ### the operator loop -/

theorem newRec_tabular : newRec "TabularExpr" = some ⟨"TabularExpr", [("Source", .nil), ("Operators", .list [])]⟩ := by rfl
theorem newRec_tableRef : newRec "TableRef" = some ⟨"TableRef", [("Table", .ident none)]⟩ := by rfl
theorem kind_pipe : TokKind.ofGoName "TokenPipe" = some .pipe := by decide

def opVals : OpList → List Val
  | .nil => []
  | .cons o os => .op o :: opVals os

theorem toOps_vals (h : List Rec) : ∀ ops : OpList, toOps h (opVals ops) = some ops
  | .nil => rfl
  | .cons o os => by simp [opVals, toOps, toOp, toOps_vals h os]

theorem opVals_snoc : ∀ (ops : OpList) (o : Op), opVals ops ++ [.op o] = opVals (ops.snoc o)
  | .nil, o => rfl
  | .cons x os, o => by simp [opVals, OpList.snoc, opVals_snoc os o]

/-- `result` on a function one of whose loops ran out of fuel, with an accumulated error -/
theorem result_fuel' {α : Type} (conv : List Rec → Val → Option α) (nv ev : String) (st : St) :
    result conv nv (some ev) (.ok (.fuel, st)) =
      (st.parser "p" >>= fun p => st.get ev >>= fun e => asErrs e >>= fun acc => st.get nv >>= fun v =>
        optM (conv st.heap v) >>= fun x => pure ⟨x, acc ++ errFuel, p.1⟩) := by
  simp only [result, bind, Except.bind, pure, Except.pure]

/-- the state in the operator loop: the expression at address 0, its table reference at 1 -/
def tabSt (name : Ident) (ops : OpList) (acc e0 : Errs) (ts : List Token) (u : Option (List Token)) : St :=
  ⟨[("finalError", .errs acc), ("expr", .ref 0), ("err", .errs e0), ("tableName", .ident (some name)), ("p", .parser ts u)],
   [⟨"TabularExpr", [("Source", .ref 1), ("Operators", .list (opVals ops))]⟩, ⟨"TableRef", [("Table", .ident (some name))]⟩]⟩

macro "tab_simp" : tactic =>
  `(tactic| ir_simp_core [*, kind_pipe, kind_ident, eofTok, opVals_snoc, toOps_vals, toTabular, result_fuel', ofOp])

theorem noFuel_snoc_fuel (a : Errs) : ¬ NoFuel (a ++ errFuel) := by
  intro h
  have := h ⟨none, false, true⟩ (by simp [errFuel])
  simp at this

theorem tab_loop (c : PCtx) (name : Ident) (e0 : Errs) :
    ∀ (n k : Nat) (ops : OpList) (acc : Errs) (ts : List Token) (u : Option (List Token)),
      NoFuel (pOps c n ops acc ts).errs →
      result toTabular "expr" (some "finalError")
          (runLoop true (execBlock (tabEnv c) (lastLoop tabularExprBody)) n k (tabSt name ops acc e0 ts u)) =
        .ok ⟨.mk (some name) (pOps c n ops acc ts).val, (pOps c n ops acc ts).errs, (pOps c n ops acc ts).rest⟩
  | 0, k, ops, acc, ts, u, hnf => by
    simp only [pOps] at hnf
    exact absurd hnf (noFuel_snoc_fuel acc)
  | n + 1, k, ops, acc, ts, u, hnf => by
    have ih := tab_loop c name e0 n k
    simp only [lastLoop, tabularExprBody, List.getLast?_cons_cons, List.getLast?_singleton, tabSt, tabEnv] at ih ⊢
    unfold runLoop
    unfold pOps at hnf ⊢
    rcases ts with _ | ⟨pt, rest⟩
    · tab_simp
    · by_cases hp : pt.kind = .pipe
      · rcases hsp : split .pipe rest with ⟨s1, s2⟩
        rcases s1 with _ | ⟨nm, opToks⟩
        · simp only [hp, hsp, ne_eq, not_true_eq_false, if_false] at hnf
          tab_simp
        · by_cases hi : nm.kind = .ident
          · simp only [hp, hsp, hi, ne_eq, not_true_eq_false, if_false] at hnf
            by_cases h0 : nm.value = Bytes.ofString "count"
            · obtain ⟨hc, hs⟩ := callee_count c n pt nm opToks h0
              obtain ⟨r, hr⟩ := Option.isSome_iff_exists.1 hs
              rw [hr] at hc
              simp only [hr, List.append_assoc] at hnf
              tab_simp
            by_cases h1 : nm.value = Bytes.ofString "where"
            · obtain ⟨hc, hs⟩ := callee_where c n pt nm opToks h1
              obtain ⟨r, hr⟩ := Option.isSome_iff_exists.1 hs
              rw [hr] at hc
              simp only [hr, List.append_assoc] at hnf
              tab_simp
            by_cases h2 : nm.value = Bytes.ofString "filter"
            · obtain ⟨hc, hs⟩ := callee_filter c n pt nm opToks h2
              obtain ⟨r, hr⟩ := Option.isSome_iff_exists.1 hs
              rw [hr] at hc
              simp only [hr, List.append_assoc] at hnf
              tab_simp
            by_cases h3 : nm.value = Bytes.ofString "sort"
            · obtain ⟨hc, hs⟩ := callee_sort c n pt nm opToks h3
              obtain ⟨r, hr⟩ := Option.isSome_iff_exists.1 hs
              rw [hr] at hc
              simp only [hr, List.append_assoc] at hnf
              tab_simp
            by_cases h4 : nm.value = Bytes.ofString "order"
            · obtain ⟨hc, hs⟩ := callee_order c n pt nm opToks h4
              obtain ⟨r, hr⟩ := Option.isSome_iff_exists.1 hs
              rw [hr] at hc
              simp only [hr, List.append_assoc] at hnf
              tab_simp
            by_cases h5 : nm.value = Bytes.ofString "take"
            · obtain ⟨hc, hs⟩ := callee_take c n pt nm opToks h5
              obtain ⟨r, hr⟩ := Option.isSome_iff_exists.1 hs
              rw [hr] at hc
              simp only [hr, List.append_assoc] at hnf
              tab_simp
            by_cases h6 : nm.value = Bytes.ofString "limit"
            · obtain ⟨hc, hs⟩ := callee_limit c n pt nm opToks h6
              obtain ⟨r, hr⟩ := Option.isSome_iff_exists.1 hs
              rw [hr] at hc
              simp only [hr, List.append_assoc] at hnf
              tab_simp
            by_cases h7 : nm.value = Bytes.ofString "top"
            · obtain ⟨hc, hs⟩ := callee_top c n pt nm opToks h7
              obtain ⟨r, hr⟩ := Option.isSome_iff_exists.1 hs
              rw [hr] at hc
              simp only [hr, List.append_assoc] at hnf
              tab_simp
            by_cases h8 : nm.value = Bytes.ofString "project"
            · obtain ⟨hc, hs⟩ := callee_project c n pt nm opToks h8
              obtain ⟨r, hr⟩ := Option.isSome_iff_exists.1 hs
              rw [hr] at hc
              simp only [hr, List.append_assoc] at hnf
              tab_simp
            by_cases h9 : nm.value = Bytes.ofString "extend"
            · obtain ⟨hc, hs⟩ := callee_extend c n pt nm opToks h9
              obtain ⟨r, hr⟩ := Option.isSome_iff_exists.1 hs
              rw [hr] at hc
              simp only [hr, List.append_assoc] at hnf
              tab_simp
            by_cases h10 : nm.value = Bytes.ofString "summarize"
            · obtain ⟨hc, hs⟩ := callee_summarize c n pt nm opToks h10
              obtain ⟨r, hr⟩ := Option.isSome_iff_exists.1 hs
              rw [hr] at hc
              simp only [hr, List.append_assoc] at hnf
              tab_simp
            by_cases h11 : nm.value = Bytes.ofString "join"
            · obtain ⟨hc, hs⟩ := callee_join c n pt nm opToks h11
              obtain ⟨r, hr⟩ := Option.isSome_iff_exists.1 hs
              rw [hr] at hc
              simp only [hr, List.append_assoc] at hnf
              tab_simp
            by_cases h12 : nm.value = Bytes.ofString "as"
            · obtain ⟨hc, hs⟩ := callee_as c n pt nm opToks h12
              obtain ⟨r, hr⟩ := Option.isSome_iff_exists.1 hs
              rw [hr] at hc
              simp only [hr, List.append_assoc] at hnf
              tab_simp
            by_cases h13 : nm.value = Bytes.ofString "render"
            · obtain ⟨hc, hs⟩ := callee_render c n pt nm opToks h13
              obtain ⟨r, hr⟩ := Option.isSome_iff_exists.1 hs
              rw [hr] at hc
              simp only [hr, List.append_assoc] at hnf
              tab_simp
            have hnone : pOperator c n pt.span nm opToks = none ∨ n = 0 := by
              cases n with
              | zero => exact Or.inr rfl
              | succ m => exact Or.inl (by simp [pOperator, *])
            rcases hnone with hnone | rfl
            · simp only [hnone] at hnf
              tab_simp
            · simp only [pOperator, pOps] at hnf
              exact absurd hnf (noFuel_snoc_fuel _)
          · simp only [hp, hsp, hi, ne_eq, not_true_eq_false, not_false_eq_true, if_false, if_true] at hnf
            tab_simp
      · tab_simp

/-! ### the function -/

/-- the interpretation of `tabularExpr` at call depth `fuel` -/
def runTab (c : PCtx) (body : List IStmt) (fuel : Nat) (ts : List Token) : M (PRes Tabular) :=
  result toTabular "expr" (some "finalError") (run (tabEnv c) body fuel [("p", .parser ts none)])

theorem tabularExpr_run (c : PCtx) (fuel : Nat) (ts : List Token) (hnf : NoFuel (pTabular c (fuel + 1) ts).errs) :
    runTab c tabularExprBody fuel ts =
      .ok ⟨(pTabular c (fuel + 1) ts).val, (pTabular c (fuel + 1) ts).errs, (pTabular c (fuel + 1) ts).rest⟩ := by
  have hsplit : tabularExprBody = tabularExprBody.dropLast ++ [.loop (lastLoop tabularExprBody)] := rfl
  unfold runTab run
  rw [hsplit, execBlock_append]
  simp only [execBlock_single]
  unfold pTabular pIdent at hnf ⊢
  rcases ts with _ | ⟨t, rest⟩
  · ir_simp [tabularExprBody, tabEnv, pIdent, toTabular, nfAt]
  · by_cases hk : t.kind = .ident ∨ t.kind = .qident
    · simp only [hk, if_true] at hnf
      have hpre : execBlock (tabEnv c) tabularExprBody.dropLast fuel (entry [("p", .parser (t :: rest) none)]) =
          .ok (.next, tabSt ⟨t.value, t.span, t.kind = .qident⟩ .nil [] [] rest none) := by
        ir_simp [tabularExprBody, tabEnv, pIdent, hk, newRec_tabular, newRec_tableRef, tabSt, opVals]
      rw [hpre]
      simp only [bind, Except.bind, exec, tabSt, St.parser, St.get, List.find?, tabEnv, hk, if_true]
      simp
      exact tab_loop c ⟨t.value, t.span, t.kind = .qident⟩ [] fuel fuel .nil [] rest none hnf
    · ir_simp [tabularExprBody, tabEnv, pIdent, toTabular, nfAt, hk]

/-- **tabularExpr**: the model's `pTabular` is the interpretation of the regenerated body, whenever the
    model does not run out of fuel -/
theorem C07_tabularExpr_ir (c : PCtx) (fuel : Nat) (ts : List Token) (hnf : NoFuel (pTabular c (fuel + 1) ts).errs) :
    runTab c (bodyOf "tabularExpr") fuel ts = .ok (pTabular c (fuel + 1) ts) := by
  simp only [bodyOf, tabularExpr_ir, Option.map_some, Option.getD_some, tabularExpr_run c fuel ts hnf]

/-- the hypothesis holds with the fuel the parser supplies (and any larger amount) -/
theorem C07_tabularExpr_ir_fueled (c : PCtx) (fuel : Nat) (ts : List Token) (hf : 4 * ts.length ≤ fuel) :
    runTab c (bodyOf "tabularExpr") fuel ts = .ok (pTabular c (fuel + 1) ts) :=
  C07_tabularExpr_ir c fuel ts (pTabular_noFuel c (fuel + 1) ts (by omega))

def nOps : Tabular → Nat
  | .nil => 0
  | .mk _ ops => ops.length

/-- without the hypothesis the statement is false: on `T | foo` at call depth 1 the model's `pOperator`
    is out of fuel and yields its fuel result — a `count` node for the unknown keyword `foo` and a fuel leaf —
    whereas the Go code (and its interpretation: the default branch of the regenerated switch, no node)
    reports an unknown operator name -/
theorem tabular_fuel_cx :
    let ts : List Token := [⟨.ident, 0, 1, [84]⟩, ⟨.pipe, 1, 2, []⟩, ⟨.ident, 2, 5, [102, 111, 111]⟩]
    nOps (pTabular ⟨5⟩ 2 ts).val = 1 ∧ ¬ NoFuel (pTabular ⟨5⟩ 2 ts).errs ∧
      ((runTab ⟨5⟩ tabularExprBody 1 ts).toOption.map fun r => nOps r.val) = some 0 := by
  refine ⟨by decide, ?_, ?_⟩
  · intro h
    have := h ⟨none, false, true⟩ (by decide)
    simp at this
  · have hsp : split .pipe [(⟨.ident, 2, 5, [102, 111, 111]⟩ : Token)] = ([⟨.ident, 2, 5, [102, 111, 111]⟩], []) := by decide
    simp only [runTab, run, tabularExprBody]
    ir_simp_core [tabEnv, calleeAt, pIdent, newRec_tabular, newRec_tableRef, runLoop, kind_pipe, kind_ident, hsp, result_fuel',
      toTabular, toOps, nOps, Except.toOption, OpList.length]

end Pql.OpIR
