/-
Property C03, the whole statement: for
      T | before | join kind=… (U | rops) on conds | after
with join-free `before`, `rops`, `after` (and `after` not starting with sort / take / top, which would be
attached to the join's own SELECT), the intended statement evaluates to the documented meaning

      after ( joinTables kind  (before T)  (rops U)  conds )         =  Rel.interp … the pipeline

The semantics of the join-free blocks is taken as hypotheses `hR3…` (`JoinSem.BlockSem`): the expected
result of task R3 (property C02, `C02_statement_semantics`) for each of the three blocks, in the form
"binding the block's links as CTEs behind already evaluated links, its last name is bound to the
pipeline's meaning".
-/
import PqlModel.Lemmas.JoinSemChain
import PqlModel.Lemmas.JoinSemBlock
import PqlModel.Props.C03Semantics
namespace Pql.C03
open Pql Sql CompileOracle Intended JoinSem

/-- **C03 (the chain).** -/
theorem C03_chain (src : Bytes) (db : DB) (T U : Ident) (before after rops : OpList) (p k a b : Span)
    (flavor : Option Ident) (d e f : Span) (conds : ExprList) (subs : List SubA) (st : Statement)
    (hjb : SplitQ.joinFree before = true) (hjr : SplitQ.joinFree rops = true)
    (hja : SplitQ.joinFree after = true) (hpl : startsPlain after = true)
    (hs : splitA [] (.mk (some T) (appendOps before
      (.cons (.join p k a b flavor d (.mk (some U) rops) e f conds) after))) = some subs)
    (hst : stmtOf src subs = some st)
    (hnames : (subs.map (·.name)).Nodup)
    (hT : T.name ∉ subs.map (·.name)) (hU : U.name ∉ subs.map (·.name))
    (hR3b : BlockSem src db [] [] T before)
    (hR3r : ∀ ctes0 dst, BlockSem src db ctes0 dst U rops)
    (hR3a : ∀ ctes0 dst (J : Ident), BlockSem src db ctes0 dst J after) :
    evalStatement db st =
      Rel.interpOps src db
        (joinTables (kindOf flavor == Bytes.ofString "innerunique") (kindOf flavor == Bytes.ofString "leftouter")
          (Rel.interpOps src db (lookupTable db [] T.name) before)
          (Rel.interp src db (.mk (some U) rops)) (buildJoinCondition conds)) after := by
  obtain ⟨B, BR, left, hB, hBR, hl, hcase⟩ := chain_shape T U before after rops p k a b flavor d e f conds subs
    hjb hja hpl hs
  obtain ⟨R, rfl, hRne⟩ := splitA_frame B BR (some U) rops hjr hBR
  obtain ⟨all, hall, hev⟩ := evalStatement_chain src db subs st hst hnames
  rw [hev]
  -- subs = B ++ R ++ [J] ++ A
  have hA : ∃ A, subs = B ++ R ++ [joinLink (some T) 0 B (B ++ R) flavor left conds] ++ A ∧
      ((after = .nil ∧ A = []) ∨ (A ≠ [] ∧
        splitA (B ++ R ++ [joinLink (some T) 0 B (B ++ R) flavor left conds])
          (.mk (some ⟨(joinLink (some T) 0 B (B ++ R) flavor left conds).name, .zero, false⟩) after) =
          some (B ++ R ++ [joinLink (some T) 0 B (B ++ R) flavor left conds] ++ A))) := by
    rcases hcase with ⟨h1, h2⟩ | ⟨h1, h2⟩
    · exact ⟨[], by simpa using h2, .inl ⟨h1, rfl⟩⟩
    · obtain ⟨A, hA, hAne⟩ := splitA_frame _ _ _ _ hja h2
      exact ⟨A, hA, .inr ⟨hAne, hA ▸ h2⟩⟩
  obtain ⟨A, rfl, hAcase⟩ := hA
  obtain ⟨sBRJ, selsA, h1, hsA, rfl⟩ := mapM_append_some _ _ _ _ hall
  obtain ⟨sBR, selsJ, h2, hsJ, rfl⟩ := mapM_append_some _ _ _ _ h1
  obtain ⟨selsB, selsR, hsB, hsR, rfl⟩ := mapM_append_some _ _ _ _ h2
  have hnd' : ((B ++ R ++ [joinLink (some T) 0 B (B ++ R) flavor left conds]).map (·.name)).Nodup := by
    have := hnames
    rw [List.map_append] at this
    exact (List.nodup_append.mp this).1
  obtain ⟨hJfresh, hJ⟩ := chain_upto_join src db T U before rops flavor left conds B R selsB selsR selsJ hjb hB hBR hRne hl
    hsB hsR hsJ hnd' (fun h => hT (by simp only [List.map_append, List.mem_append] at h ⊢; exact .inl (.inl h)))
    (fun h => hU (by simp only [List.map_append, List.mem_append] at h ⊢; exact .inl (.inl (.inl h)))) hR3b hR3r
  rw [runCtes_append, runCtes_append, runCtes_append, hJ]
  rcases hAcase with ⟨hnil, rfl⟩ | ⟨hAne, hsplit⟩
  · subst hnil
    have hsA' : selsA = [] := by simpa using hsA.symm
    subst hsA'
    have hnil' : ∀ c, runCtes db c [] = c := fun _ => rfl
    simp only [List.append_nil, hnil', Rel.interpOps]
    rw [lastName_snoc, lookupTable_snoc_self _ _ _ _ hJfresh]
  · rw [lastName_append _ _ hAne]
    have hnA : ∀ n ∈ A.map (·.name), n ∉
        (runCtes db (runCtes db [] selsB) selsR ++
          [((joinLink (some T) 0 B (B ++ R) flavor left conds).name,
            joinTables (kindOf flavor == Bytes.ofString "innerunique") (kindOf flavor == Bytes.ofString "leftouter")
              (Rel.interpOps src db (lookupTable db [] T.name) before)
              (Rel.interp src db (.mk (some U) rops)) (buildJoinCondition conds))]).map (·.1) := by
      intro n hn hmem
      have hnm := hnames
      rw [List.map_append, List.nodup_append] at hnm
      apply hnm.2.2 n _ n hn rfl
      simp only [List.map_append, List.map_cons, List.map_nil, runCtes_names, mapM_linkSel_names src _ _ hsB,
        mapM_linkSel_names src _ _ hsR] at hmem ⊢
      simpa using hmem
    have hndA : (A.map (·.name)).Nodup := by
      have hnm := hnames
      rw [List.map_append, List.nodup_append] at hnm
      exact hnm.2.1
    have := hR3a _ _ _ A selsA hsplit hsA hndA hnA
    rw [this, lookupTable_snoc_self _ _ _ _ hJfresh]

/-- the right-hand side of `C03_chain` is the documented meaning of the whole pipeline -/
theorem C03_chain_meaning (src : Bytes) (db : DB) (T U : Ident) (before after rops : OpList) (p k a b : Span)
    (flavor : Option Ident) (d e f : Span) (conds : ExprList) :
    Rel.interp src db (.mk (some T) (appendOps before
      (.cons (.join p k a b flavor d (.mk (some U) rops) e f conds) after))) =
      Rel.interpOps src db
        (joinTables (kindOf flavor == Bytes.ofString "innerunique") (kindOf flavor == Bytes.ofString "leftouter")
          (Rel.interpOps src db (lookupTable db [] T.name) before)
          (Rel.interp src db (.mk (some U) rops)) (buildJoinCondition conds)) after := by
  rw [interp_mk, interpOps_append]
  simp only [Rel.interpOps]
  rw [C03_interp_join]

/-! ### non-vacuity, and the name hypotheses are necessary (name capture, known finding K3) -/
namespace Ex
def joinOp (flavor : Option Ident) (right : Tabular) : Op :=
  .join .zero .zero .zero .zero flavor .zero right .zero .zero keyK
def tabU : Tabular := .mk (some (idt "U")) .nil
/-- `T | join kind=leftouter (U) on k` -/
def prog1 : Tabular := .mk (some (idt "T")) (.cons (joinOp (some (idt "leftouter")) tabU) .nil)
def subs1 : List SubA := (splitA [] prog1).getD []
def stmt1 : Statement := (stmtOf [] subs1).getD default

/-- `C03_chain` instantiated (all three blocks empty: `BlockSem_nil`): the intended statement of
    `T | join kind=leftouter (U) on k` evaluates to the documented meaning of the pipeline -/
example : splitA [] prog1 = some subs1 ∧ stmtOf [] subs1 = some stmt1 ∧
    evalStatement exDB stmt1 = Rel.interp [] exDB prog1 := by
  have hs : splitA [] prog1 = some subs1 := rfl
  have hst : stmtOf [] subs1 = some stmt1 := rfl
  refine ⟨hs, hst, ?_⟩
  have := C03_chain [] exDB (idt "T") (idt "U") .nil .nil .nil .zero .zero .zero .zero (some (idt "leftouter"))
    .zero .zero .zero keyK subs1 stmt1 rfl rfl rfl rfl hs hst (by decide) (by decide) (by decide)
    (BlockSem_nil _ _ _ _ _) (fun _ _ => BlockSem_nil _ _ _ _ _) (fun _ _ _ => BlockSem_nil _ _ _ _ _)
  rw [this]
  exact (C03_chain_meaning [] exDB (idt "T") (idt "U") .nil .nil .nil .zero .zero .zero .zero
    (some (idt "leftouter")) .zero .zero .zero keyK).symm

def stmtOfT (t : Tabular) : Option Statement := (splitA [] t).bind (stmtOf [])
def namesOfT (t : Tabular) : List Bytes := ((splitA [] t).getD []).map (·.name)

/-- `hU` is necessary: in `T | as U | join (U) on k` the CTE named `U` captures the right-hand table -/
theorem C03_chain_needs_hU :
    let prog := Tabular.mk (some (idt "T")) (.cons (.as_ .zero .zero (some (idt "U"))) (.cons (joinOp none tabU) .nil))
    (namesOfT prog).Nodup ∧ bs "T" ∉ namesOfT prog ∧ bs "U" ∈ namesOfT prog ∧
    (stmtOfT prog).map (evalStatement exDB) ≠ some (Rel.interp [] exDB prog) := by decide

/-- `hT` is necessary: in `T | join (U | as T) on k` the right-hand side's name `T` captures the left table -/
theorem C03_chain_needs_hT :
    let prog := Tabular.mk (some (idt "T"))
      (.cons (joinOp none (.mk (some (idt "U")) (.cons (.as_ .zero .zero (some (idt "T"))) .nil))) .nil)
    (namesOfT prog).Nodup ∧ bs "T" ∈ namesOfT prog ∧ bs "U" ∉ namesOfT prog ∧
    (stmtOfT prog).map (evalStatement exDB) ≠ some (Rel.interp [] exDB prog) := by decide

/-- `hnames` is necessary: in `T | as X | join (U | as X) on k` the second `X` is shadowed by the first -/
theorem C03_chain_needs_hnames :
    let prog := Tabular.mk (some (idt "T")) (.cons (.as_ .zero .zero (some (idt "X")))
      (.cons (joinOp none (.mk (some (idt "U")) (.cons (.as_ .zero .zero (some (idt "X"))) .nil))) .nil))
    ¬ (namesOfT prog).Nodup ∧ bs "T" ∉ namesOfT prog ∧ bs "U" ∉ namesOfT prog ∧
    (stmtOfT prog).map (evalStatement exDB) ≠ some (Rel.interp [] exDB prog) := by decide

/-- beyond `startsPlain`: a `sort` directly after the join is attached to the join's own SELECT, whose
    ORDER BY also sees the aliases `$left` / `$right`; the documented meaning sorts the join *result*,
    where these aliases do not exist.  (`Compile` rejects `$left` outside a join condition, so this
    program has no SQL at all; it shows that `startsPlain` cannot simply be dropped from `C03_chain`.) -/
theorem C03_sort_on_join_link_sees_aliases :
    let term : SortTerm := ⟨.qident [idt "$left", idt "a"], false, .zero, false, .zero⟩
    let prog := Tabular.mk (some (idt "T"))
      (.cons (joinOp (some (idt "leftouter")) tabU) (.cons (.sort .zero .zero [term]) .nil))
    (namesOfT prog).Nodup ∧ bs "T" ∉ namesOfT prog ∧ bs "U" ∉ namesOfT prog ∧
    (stmtOfT prog).map (evalStatement exDB) ≠ some (Rel.interp [] exDB prog) := by decide

/-- … while an ordinary sort after the join agrees on this database -/
example :
    let term : SortTerm := ⟨.qident [idt "a"], false, .zero, false, .zero⟩
    let prog := Tabular.mk (some (idt "T"))
      (.cons (joinOp (some (idt "leftouter")) tabU) (.cons (.sort .zero .zero [term]) .nil))
    (stmtOfT prog).map (evalStatement exDB) = some (Rel.interp [] exDB prog) := by decide
end Ex

end Pql.C03
