/-
C02 / C03 / C05 support: the Go function `splitQueries` is IMPERATIVE (a slice of pointers `dst`,
a pointer `lastSubquery` through which `sort` / `take` / `op` / `name` are written in place, an
index `dstStart`, recursion for the right-hand side of a join).  `SplitImp.Machine`
(Lemmas/SplitImpMachine.lean) models exactly that — heap of `subquery` objects, `dst : List Addr`,
`lastSubquery : Option Addr`, one definition per Go statement group — and this file proves that
the functional model's `splitQueries` / `splitOps` (Model/Compile.lean: `setLast`,
`chainSubquery dst dstStart src`, `lastOf`) computes the same result.

  C02_splitQueries_refines        machine result, read through the pointers = functional model
  C02_splitQueries_refines_list   the same, started from any list of subqueries loaded on a heap
  C02_splitQueries_refines_top    `splitQueries(nil, …)` as `Compile` calls it
  C02_splitQueriesI_post          … and the heap facts: valid pointers, the argument slice is a
                                  prefix of the result, the caller's objects are not written
  C02_callee_preserves_caller_view
  C02_lastSubquery_is_last        the loop invariant: what `lastSubquery` points to
  C02_aliasing_is_visible         the machine CAN exhibit aliasing (so the theorem is not by construction)
  hypotheses: `validDst` (no dangling pointer), `skeletonOk` (no nil `Source.Table` / `as` name);
    counterexamples C02_refines_needs_valid, C02_refines_needs_source, C02_refines_needs_as_name;
    `skeletonOk_of_good`: every tree the parser returns without error satisfies `skeletonOk`
  transfers: C02_limit_never_crosses_nested_imp, C05_names_by_index_imp, C05_reads_earlier_imp
  C02_compile_imperative          the model's `compile` with the machine in place of the functional
                                  `splitQueries` is the same function of (params, source text)
-/
import PqlModel.Lemmas.SplitImpRefine
import PqlModel.Lemmas.ParseGood
import PqlModel.Props.C02Split
import PqlModel.Props.C05SplitRefines
import PqlModel.Props.C07Layout
namespace Pql.SplitImp
open Pql SplitQ

/-! ### 1. the refinement -/

theorem valid_of_validDst {h : Heap} {dst : List Addr} (hv : validDst h dst = true) :
    ∀ a ∈ dst, a < h.size := by
  intro a ha
  have := List.all_eq_true.mp hv a ha
  simpa using this

/-- **The imperative machine refines to the functional model.**  For every source text, scope,
    tabular expression (any length, any nesting of joins), heap and initial slice `dst` without
    dangling pointers: running the machine and reading the returned slice through the final heap
    gives exactly what the functional `splitQueries` computes on the list the initial slice
    denotes — the same subqueries in the same order with the same name, source, op, sort, take —
    and when one side fails the other fails with the same error (`err` / `panic`). -/
theorem C02_splitQueries_refines (src : Bytes) (scope : List (Bytes × List Chunk)) (t : Tabular)
    (h : Heap) (dst : List Addr) (hv : validDst h dst = true) (hg : skeletonOk t = true) :
    (splitQueriesI src scope h dst t).map (fun r => abs r.1 r.2) =
      splitQueries src scope (abs h dst) t := by
  have sim := refines_tab src scope t h dst (valid_of_validDst hv) hg
  unfold SimQ at sim
  cases hr : splitQueriesI src scope h dst t with
  | error e =>
    rw [hr] at sim
    cases hm : splitQueries src scope (abs h dst) t with
    | error e' => rw [hm] at sim; simp only at sim; rw [sim]; rfl
    | ok out => rw [hm] at sim; exact sim.elim
  | ok r =>
    rw [hr] at sim
    cases hm : splitQueries src scope (abs h dst) t with
    | error e' => rw [hm] at sim; exact sim.elim
    | ok out => rw [hm] at sim; simp only at sim; rw [← sim.abs_eq]; rfl

/-- **… with the heap facts.**  A successful run of the machine: the functional model succeeds
    with the list the result denotes; all returned pointers are valid; the returned slice is the
    argument slice followed by at least one pointer to an object allocated during the call
    (`ext`, `grows`); no object that existed at the call has been written (`frame`). -/
theorem C02_splitQueriesI_post (src : Bytes) (scope : List (Bytes × List Chunk)) (t : Tabular)
    (h : Heap) (dst : List Addr) (hv : validDst h dst = true) (hg : skeletonOk t = true)
    (h' : Heap) (dst' : List Addr) (hrun : splitQueriesI src scope h dst t = .ok (h', dst')) :
    ∃ out, splitQueries src scope (abs h dst) t = .ok out ∧ PostQ h dst h' dst' out := by
  have sim := refines_tab src scope t h dst (valid_of_validDst hv) hg
  unfold SimQ at sim
  rw [hrun] at sim
  cases hm : splitQueries src scope (abs h dst) t with
  | error e' => rw [hm] at sim; exact sim.elim
  | ok out => rw [hm] at sim; exact ⟨out, rfl, sim⟩

/-- **The recursive call cannot disturb its caller**: the pointers the caller passed are still the
    first pointers of the returned slice and denote the same subqueries as before — in
    particular `dst[leftSubquery]` and the object the caller's `lastSubquery` pointed to. -/
theorem C02_callee_preserves_caller_view (src : Bytes) (scope : List (Bytes × List Chunk)) (t : Tabular)
    (h : Heap) (dst : List Addr) (hv : validDst h dst = true) (hg : skeletonOk t = true)
    (h' : Heap) (dst' : List Addr) (hrun : splitQueriesI src scope h dst t = .ok (h', dst')) :
    dst'.take dst.length = dst ∧ abs h' dst = abs h dst := by
  obtain ⟨out, _, post⟩ := C02_splitQueriesI_post src scope t h dst hv hg h' dst' hrun
  obtain ⟨new, hnew, _⟩ := post.ext
  refine ⟨by rw [hnew]; simp, abs_congr fun a ha => ?_⟩
  unfold cell
  rw [post.frame.2 a (valid_of_validDst hv a ha)]

/-- any list of subqueries, put on a heap: object `i` at address `i`, `dst = [0, …, n-1]` -/
def loadList (dst0 : List Subquery) : Heap × List Addr := (dst0.toArray, List.range dst0.length)

theorem abs_loadList (dst0 : List Subquery) : abs (loadList dst0).1 (loadList dst0).2 = dst0 := by
  apply List.ext_getElem
  · simp [abs, loadList]
  · intro i h1 h2
    simp only [abs, loadList, List.length_map, List.length_range] at h1 h2 ⊢
    simp [cell, h2]

theorem validDst_loadList (dst0 : List Subquery) : validDst (loadList dst0).1 (loadList dst0).2 = true := by
  simp [validDst, loadList]

/-- the functional model's statement "for every initial `dst`" -/
theorem C02_splitQueries_refines_list (src : Bytes) (scope : List (Bytes × List Chunk)) (t : Tabular)
    (dst0 : List Subquery) (hg : skeletonOk t = true) :
    (splitQueriesI src scope (loadList dst0).1 (loadList dst0).2 t).map (fun r => abs r.1 r.2) =
      splitQueries src scope dst0 t := by
  rw [C02_splitQueries_refines src scope t _ _ (validDst_loadList dst0) hg, abs_loadList]

/-- `splitQueries(nil, source, scope, expr)`, the call in `Compile` -/
theorem C02_splitQueries_refines_top (src : Bytes) (scope : List (Bytes × List Chunk)) (t : Tabular)
    (hg : skeletonOk t = true) : runI src scope t = splitQueries src scope [] t :=
  C02_splitQueries_refines src scope t #[] [] rfl hg

/-! ### 2. what `lastSubquery` points to -/

/-- the state in which `splitQueries` enters its loop -/
theorem inv_entry (h : Heap) (dst : List Addr) (hv : validDst h dst = true) :
    Inv h.size dst.length ⟨h, dst, none⟩ :=
  ⟨valid_of_validDst hv, Nat.le_refl _, Nat.le_refl _, rfl⟩

/-- **The loop invariant** (`Inv`, Lemmas/SplitImpHeap.lean) holds whenever the loop of an
    activation has run over any operator list without error: `lastSubquery == nil` exactly when
    the activation has appended nothing yet (`len(dst) == dstStart`); otherwise it is the LAST
    element of `dst`, its address occurs nowhere else in `dst`, and the object was allocated by
    this activation (address `≥ n0`, the heap size at entry).  So every `lastSubquery.f = v` of
    the Go code writes the last subquery of the current pipeline and nothing else — which is what
    the functional model's `setLast` does.  The Go pointer never points to a non-last element
    while it is written through: in the join case `lastSubquery = dst[len(dst)-1]` is only read
    (`.name`) and replaced by a fresh object before the next iteration. -/
theorem C02_lastSubquery_is_last (src : Bytes) (scope : List (Bytes × List Chunk)) (source : Option Ident)
    (ops : OpList) (k n0 : Nat) (st st' : St) (inv : Inv n0 k st) (hs : source.isSome = true)
    (hg : opsOk ops = true) (hrun : loopI src scope source k st ops = .ok st') :
    Inv n0 k st' ∧
      (match st'.last with
        | none => st'.dst.length = k
        | some p => st'.dst.getLast? = some p ∧ p ∉ st'.dst.dropLast ∧ n0 ≤ p) := by
  have sim := refines_ops src scope ops source k st n0 inv hs hg
  unfold SimL at sim
  rw [hrun] at sim
  cases hm : splitOps src scope source k (abs st.heap st.dst) ops with
  | error e => rw [hm] at sim; exact sim.elim
  | ok out =>
    rw [hm] at sim
    refine ⟨sim.inv, ?_⟩
    have hl := sim.inv.last
    cases hlast : st'.last with
    | none => rw [hlast] at hl; exact hl
    | some p =>
      rw [hlast] at hl
      obtain ⟨_, hn0, pre, hd, hnot⟩ := hl
      simp only [hd, List.getLast?_append, List.getLast?_singleton, Option.some_or,
        List.dropLast_concat]
      exact ⟨trivial, hnot, hn0⟩

/-- **The machine can exhibit aliasing**: if the address `lastSubquery` holds occurred twice in
    `dst`, a write through the pointer would change both entries, while the functional model's
    `setLast` changes only the last.  (So `C02_splitQueries_refines` is a fact about the Go
    algorithm — fresh objects, unique last pointer — not about how the machine is written.) -/
theorem C02_aliasing_is_visible :
    let s : Subquery := { name := [], source := [] }
    let st : St := ⟨#[s], [0, 0], some 0⟩
    ∃ st', stAssign (fun x => { x with take := some .nil }) st = .ok st' ∧
      (abs st'.heap st'.dst).map (·.take.isSome) = [true, true] ∧
      (setLast (abs st.heap st.dst) fun x => { x with take := some .nil }).map (·.take.isSome) =
        [false, true] :=
  ⟨_, rfl, by decide +kernel, by decide +kernel⟩

/-! ### 3. the hypotheses are needed, and hold for parser output -/

-- decidable equality of results, for checking concrete instances by evaluation
-- (`DecidableEq` for `Op` / `Tabular` / `Expr` comes from Props/C07Layout.lean)
deriving instance DecidableEq for Subquery
deriving instance DecidableEq for Except

/-- `T | count` -/
def exCount : Tabular := .mk (some ⟨[84], .zero, false⟩) (.cons (.count .zero .zero) .nil)

/-- without `validDst`: a dangling pointer in `dst` (impossible in Go) is hit by the next
    allocation, and the machine's result differs from the model's -/
theorem C02_refines_needs_valid :
    validDst #[] [0] = false ∧ skeletonOk exCount = true ∧
      (splitQueriesI [] [] #[] [0] exCount).map (fun r => abs r.1 r.2) ≠
        splitQueries [] [] (abs #[] [0]) exCount ∧
      -- the machine's two pointers are aliases of the one new object
      ((splitQueriesI [] [] #[] [0] exCount).map fun r => (abs r.1 r.2).map (·.op.isSome)) = .ok [true, true] ∧
      ((splitQueries [] [] (abs #[] [0]) exCount).map fun out => out.map (·.op.isSome)) = .ok [false, true] := by
  decide +kernel

/-- without a source table (`Source.Table == nil`): Go (and the machine) panic in
    `dataSourceSQL`, the functional model returns a subquery reading the table `""` -/
theorem C02_refines_needs_source :
    skeletonOk (.mk none .nil) = false ∧ runI [] [] (.mk none .nil) = .error .panic ∧
      splitQueries [] [] [] (.mk none .nil) = .ok [{ name := subqueryName 0, source := [.qid []] }] := by
  decide +kernel

/-- `T | as <nil>` -/
def exAsNil : Tabular := .mk (some ⟨[84], .zero, false⟩) (.cons (.as_ .zero .zero none) .nil)

/-- without a name in `as` (`op.Name == nil`): Go (and the machine) panic on `op.Name.Name`, the
    functional model names the subquery `""` -/
theorem C02_refines_needs_as_name :
    skeletonOk exAsNil = false ∧ runI [] [] exAsNil = .error .panic ∧
      splitQueries [] [] [] exAsNil =
        .ok [{ name := [], source := [.qid [84]], op := some (.as_ .zero .zero none) }] := by
  decide +kernel

mutual
/-- trees without nil in a required position (`Tabular.Good`, Lemmas/WalkLemmas.lean) satisfy
    `skeletonOk`; by `parseTokens_good` (Lemmas/ParseGood.lean) these include every statement of a
    program the parser accepts without error — the only trees `Compile` passes to `splitQueries` -/
theorem skeletonOk_of_good : ∀ t : Tabular, t.Good → skeletonOk t = true
  | .nil, _ => rfl
  | .mk source ops, h => by
    simp only [Tabular.Good] at h
    simp only [skeletonOk, Bool.and_eq_true]
    refine ⟨?_, opsOk_of_good ops h.2⟩
    cases source with
    | none => exact absurd rfl h.1
    | some i => rfl
theorem opsOk_of_good : ∀ ops : OpList, ops.Good → opsOk ops = true
  | .nil, _ => rfl
  | .cons o os, h => by
    simp only [OpList.Good] at h
    have ih := opsOk_of_good os h.2
    cases o with
    | as_ p kw name =>
      simp only [opsOk, Bool.and_eq_true]
      refine ⟨?_, ih⟩
      have := h.1
      simp only [Op.Good] at this
      cases name with
      | none => exact absurd rfl this
      | some i => rfl
    | join p kw kind ka flavor lp right rp on conds =>
      simp only [opsOk, Bool.and_eq_true]
      have := h.1
      simp only [Op.Good] at this
      exact ⟨skeletonOk_of_good right this.1, ih⟩
    | count p kw => simpa only [opsOk] using ih
    | where_ p kw e => simpa only [opsOk] using ih
    | sort p kw ts => simpa only [opsOk] using ih
    | take p kw n => simpa only [opsOk] using ih
    | top p kw n b c => simpa only [opsOk] using ih
    | project p kw cs => simpa only [opsOk] using ih
    | extend p kw cs => simpa only [opsOk] using ih
    | summarize p kw cs b gs => simpa only [opsOk] using ih
    | render p kw ch w lp props rp => simpa only [opsOk] using ih
end

/-- parsed programs: every tabular statement of a program parsed without error satisfies the
    hypothesis of the refinement theorem -/
theorem skeletonOk_of_parsed {srcLen : Nat} {ts : List Token} {stmts : List Stmt}
    (h : parseTokens srcLen ts = (stmts, [])) (t : Tabular) (ht : Stmt.tabular t ∈ stmts) :
    skeletonOk t = true :=
  skeletonOk_of_good t (by have := parseTokens_good h _ ht; simpa only [Stmt.Good] using this)

/-! ### 4. what the refinement buys: properties of the functional model hold of the machine -/

/-- `C02_limit_never_crosses_nested` for the imperative machine: reading every subquery the
    machine built as `op; sort; take` and concatenating gives exactly the operators of the
    pipeline in order (right-hand pipelines where their join stands) -/
theorem C02_limit_never_crosses_nested_imp (src : Bytes) (scope : List (Bytes × List Chunk)) (t : Tabular)
    (hg : skeletonOk t = true) (dst : List Subquery) (h : runI src scope t = .ok dst) :
    dst.flatMap subClauses = tabClauses t :=
  C02.C02_limit_never_crosses_nested src scope t dst (by rw [← C02_splitQueries_refines_top src scope t hg]; exact h)

/-- `C05_names_by_index` for the imperative machine -/
theorem C05_names_by_index_imp (src : Bytes) (scope : List (Bytes × List Chunk)) (t : Tabular)
    (hg : skeletonOk t = true) (dst : List Subquery) (h : runI src scope t = .ok dst) :
    ∀ (i : Nat) (hi : i < dst.length),
      dst[i].name = subqueryName i ∨ ∃ p k n, dst[i].op = some (.as_ p k n) ∧ dst[i].name = identName n :=
  C05.C05_names_by_index src scope t dst (by rw [← C02_splitQueries_refines_top src scope t hg]; exact h)

/-- `C05_reads_earlier` (in its form for the model's subqueries, `C05_reads_earlier_model`) for
    the imperative machine: every subquery reads only earlier subqueries or source tables -/
theorem C05_reads_earlier_imp (src : Bytes) (scope : List (Bytes × List Chunk)) (t : Tabular)
    (hg : skeletonOk t = true) (out : List Subquery) (h : runI src scope t = .ok out) :
    ∀ (i : Nat) (hi : i < out.length),
      let earlier (n : Bytes) : Prop :=
        (∃ (j : Nat) (hj : j < i), (out[j]'(Nat.lt_trans hj hi)).name = n) ∨ n ∈ C05.tablesOf t
      (∃ n, out[i].source = [.qid n] ∧ earlier n) ∨
      (∃ u kw l r c, out[i].source = joinSourceOf u kw [.qid l] r c ∧ earlier l ∧ earlier r) :=
  C05.C05_reads_earlier_model src scope t out (by rw [← C02_splitQueries_refines_top src scope t hg]; exact h)

/-! ### 5. non-vacuity: the machine runs -/

private def idb (s : String) : Ident := ⟨Bytes.ofString s, .zero, false⟩
private def col (s : String) : Expr := .qident [idb s]
private def term (s : String) : SortTerm := ⟨col s, true, .zero, false, .zero⟩

/-- `T | where x | sort by a | take 5 | as X
       | join kind=leftouter (U | sort by b | join (V | take 1) on k | top 2 by c) on k
       | take 3 | sort by d | project a` -/
def exPipeline : Tabular :=
  .mk (some (idb "T"))
    (.cons (.where_ .zero .zero (col "x"))
    (.cons (.sort .zero .zero [term "a"])
    (.cons (.take .zero .zero (.lit .zero .number [53]))
    (.cons (.as_ .zero .zero (some (idb "X")))
    (.cons (.join .zero .zero .zero .zero (some (idb "leftouter")) .zero
        (.mk (some (idb "U"))
          (.cons (.sort .zero .zero [term "b"])
          (.cons (.join .zero .zero .zero .zero none .zero
              (.mk (some (idb "V")) (.cons (.take .zero .zero (.lit .zero .number [49])) .nil))
              .zero .zero (.cons (col "k") .nil))
          (.cons (.top .zero .zero (.lit .zero .number [50]) .zero (some (term "c"))) .nil))))
        .zero .zero (.cons (col "k") .nil))
    (.cons (.take .zero .zero (.lit .zero .number [51]))
    (.cons (.sort .zero .zero [term "d"])
    (.cons (.project .zero .zero [⟨some (idb "a"), .zero, .nil⟩]) .nil))))))))

example : skeletonOk exPipeline = true := by decide

/-- the machine, run on the example, and the functional model agree (checked by evaluation, not
    through the theorem) -/
theorem exPipeline_agrees : runI [] [] exPipeline = splitQueries [] [] [] exPipeline := by
  decide +kernel

/-- … and the run is a real one: eight subqueries; `where`+`sort`+`take` share the first, `as`
    renames the second, the right-hand side of the outer join contributes four (its `top` is
    attached to the inner join's subquery), the outer join's subquery carries `take 3`, `sort by d`
    gets its own subquery and `project` the last -/
theorem exPipeline_runs :
    (match runI [] [] exPipeline with
      | .ok out => out.map fun s => (s.name, s.op.map opTypeName, s.sort.isSome, s.take.isSome)
      | .error _ => []) =
      [(subqueryName 0, some "WhereOperator", true, true),
       (Bytes.ofString "X", some "AsOperator", false, false),
       (subqueryName 2, none, true, false),
       (subqueryName 3, none, false, true),
       (subqueryName 4, none, true, true),
       (subqueryName 5, none, false, true),
       (subqueryName 6, none, true, false),
       (subqueryName 7, some "ProjectOperator", false, false)] := by
  decide +kernel

/-- the heap at the end: eight objects, `dst` points to them in allocation order (no object is
    unreachable, none is shared) -/
theorem exPipeline_heap :
    (match splitQueriesI [] [] #[] [] exPipeline with
      | .ok (h, dst) => (h.size, dst)
      | .error _ => (0, [])) = (8, [0, 1, 2, 3, 4, 5, 6, 7]) := by
  decide +kernel

/-- the theorems of section 4 apply to it -/
example : ∃ out, runI [] [] exPipeline = .ok out ∧ out.flatMap subClauses = tabClauses exPipeline := by
  have hok : (runI [] [] exPipeline).isOk = true := by decide +kernel
  cases h : runI [] [] exPipeline with
  | error e => rw [h] at hok; cases hok
  | ok out => exact ⟨out, rfl, C02_limit_never_crosses_nested_imp [] [] exPipeline (by decide) out h⟩

/-- a non-empty initial slice — even one in which a pointer occurs twice — satisfies the
    hypotheses: `lastSubquery` never points into the part of `dst` the activation was handed -/
theorem exInitial_agrees :
    let s0 : Subquery := { name := Bytes.ofString "a", source := [] }
    let s1 : Subquery := { name := Bytes.ofString "b", source := [], take := some .nil }
    validDst #[s0, s1] [1, 1, 0] = true ∧
    (splitQueriesI [] [] #[s0, s1] [1, 1, 0] exPipeline).map (fun r => abs r.1 r.2) =
      splitQueries [] [] [s1, s1, s0] exPipeline ∧
    ((splitQueriesI [] [] #[s0, s1] [1, 1, 0] exPipeline).map fun r => (r.1.size, r.2)) =
      .ok (10, [1, 1, 0, 2, 3, 4, 5, 6, 7, 8, 9]) := by
  refine ⟨by decide, ?_, by decide +kernel⟩
  exact C02_splitQueries_refines [] [] exPipeline _ _ (by decide) (by decide)

/-! ### 6. `Compile` with the imperative `splitQueries` -/

/-- `compileChunks` (Model/Compile.lean) with the imperative machine in place of the functional
    `splitQueries` -/
def compileChunksI (src : Bytes) (params : List (Bytes × Bytes)) (stmts : List Stmt) : W := do
  let scope0 := params.map fun kv => (kv.1, [Chunk.raw kv.2])
  let (scope, q) ← compileStmts src stmts scope0 none
  match q with
  | none => .error .err
  | some t =>
    let subs ← runI src scope t
    let ctx : Ctx := ⟨src, scope, .default⟩
    match subs.reverse with
    | [] => .error .panic
    | query :: ctesRev =>
      let ctes := ctesRev.reverse
      let withPart ← if ctes.isEmpty then pure [] else do
        let c ← writeCtes ctx ctes
        pure (.txt "WITH " :: c)
      let body ← query.write ctx
      pure (withPart ++ body ++ [.txt ";"])

/-- `compile` with `compileChunksI` -/
def compileI (params : List (Bytes × Bytes)) (src : Bytes) : CompileResult :=
  let r := parse src
  if !r.2.isEmpty then .error
  else
    match compileChunksI src params r.1 with
    | .ok cs => .ok (renderChunks cs)
    | .error .err => .error
    | .error .panic => .panic

/-- the query `compileStmts` selects is one of the statements -/
theorem compileStmts_query_mem (src : Bytes) :
    ∀ (stmts : List Stmt) (scope : List (Bytes × List Chunk)) (q : Option Tabular)
      (scope' : List (Bytes × List Chunk)) (t : Tabular),
      compileStmts src stmts scope q = .ok (scope', some t) → q = some t ∨ Stmt.tabular t ∈ stmts
  | [], scope, q, scope', t, h => by
    unfold compileStmts at h
    cases h; exact .inl rfl
  | .tabular t0 :: rest, scope, q, scope', t, h => by
    unfold compileStmts at h
    cases q with
    | some _ => cases h
    | none =>
      rcases compileStmts_query_mem src rest scope (some t0) scope' t h with h1 | h1
      · cases h1; exact .inr (by simp)
      · exact .inr (by simp [h1])
  | .let_ p name a x :: rest, scope, q, scope', t, h => by
    unfold compileStmts at h
    cases q with
    | some t1 =>
      rcases compileStmts_query_mem src rest scope (some t1) scope' t h with h1 | h1
      · exact .inl h1
      · exact .inr (by simp [h1])
    | none =>
      simp only at h
      split at h
      · cases h
      · split at h
        · cases h
        · rcases compileStmts_query_mem src rest _ none scope' t h with h1 | h1
          · cases h1
          · exact .inr (by simp [h1])

theorem compileChunksI_eq (src : Bytes) (params : List (Bytes × Bytes)) (stmts : List Stmt)
    (hgood : ∀ s ∈ stmts, s.Good) : compileChunksI src params stmts = compileChunks src params stmts := by
  unfold compileChunksI compileChunks
  simp only [bind, Except.bind]
  cases hc : compileStmts src stmts (params.map fun kv => (kv.1, [Chunk.raw kv.2])) none with
  | error e => rfl
  | ok r =>
    obtain ⟨scope, q⟩ := r
    cases q with
    | none => rfl
    | some t =>
      simp only
      have hm : Stmt.tabular t ∈ stmts := by
        rcases compileStmts_query_mem src stmts _ none scope t hc with h1 | h1
        · cases h1
        · exact h1
      have hg : skeletonOk t = true :=
        skeletonOk_of_good t (by have := hgood _ hm; simpa only [Stmt.Good] using this)
      rw [C02_splitQueries_refines_top src scope t hg]
      rfl

/-- **`Compile` end to end, for every source text and every parameter map**: replacing the
    functional `splitQueries` of the model's `compile` by the imperative machine changes nothing
    (no hypothesis: a text with a parse error is rejected before `splitQueries` is reached, and
    what the parser accepts has no nil in a position `splitQueries` dereferences). -/
theorem C02_compile_imperative (params : List (Bytes × Bytes)) (src : Bytes) :
    compileI params src = compile params src := by
  unfold compileI compile
  simp only
  by_cases he : (parse src).2.isEmpty = true
  · have hnil : (parse src).2 = [] := List.isEmpty_iff.mp he
    have hp : parseTokens src.length (scan src) = ((parse src).1, []) := by
      rw [← hnil]; rfl
    rw [compileChunksI_eq src params _ (parseTokens_good hp)]
    rfl
  · simp only [he, Bool.not_false, if_true]

end Pql.SplitImp
