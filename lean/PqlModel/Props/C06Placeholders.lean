/-
Property C06 — PLACEHOLDER parameters (`$1`, `?`, `{name:Type}`) end to end.

Real callers bind parameters to placeholders.  The reference SQL lexer reads a placeholder as ONE
`.param` token, the reference parser reads it at atom level only (`SExpr.param`).

  `parseStatement_inst`   the reference SQL reader COMMUTES with the instantiation of placeholders:
                          `parseStatement (ts.map (instTok ρ)) = (parseStatement ts).map (instStatement ρ)`
                          for every assignment `ρ` of values (strings / number spellings) to placeholder
                          texts (fuel induction over all functions of Spec/Sql/Parse.lean, an EQUATION);
  `isPlaceholder`         the decidable predicate "the text is one placeholder": `$` + word bytes, `?`,
                          `{` … `}`; `lex_placeholder`: such a text lexes to the one token `.param text`;
  `C06_placeholders_lex`  the SQL text compiled with placeholder parameters LEXES to the chunk tokens
                          (the adjacency argument of C05 transferred from the program in which every
                          parameter is `let p = 0`: what may stand before a digit may stand before `$ ? {`,
                          what may follow a number — and no chunk starts with `$` — may follow a placeholder);
  `C06_placeholder_params_end_to_end`
                          for every assignment `ρ`: the emitted text is read back as a statement `st` with
                          `SExpr.param` leaves; `instStatement ρ st` is (up to `normS`) the intended statement
                          of the program `let p = ρ(placeholder of p); …` and evaluates to `Rel.interp` of that
                          program — the placeholders' values are exactly let-bound constants.
  `C06_placeholder_statement_shape`  `st` does not depend on `ρ`.

Side conditions: those of `E2EFinal.end_to_end_program` for the program with the lets in front (each with
its counterexample in Props/C02EndToEndSource.lean — with `params = []` the theorem IS
`end_to_end_program`), `isPlaceholder` (needed: `PhCex.placeholder_needed`), `PVal.ok` (a number value is
a number spelling; needed: `PhCex.valOk_needed`).
NEW specification-level definitions: `PVal`, `instTok`, `instS`, `instL`, `instSel`, `instStatement`
(Lemmas/E2EMoreInst.lean, E2EMoreInstStmt.lean), `isPlaceholder` (Lemmas/E2EMoreLex.lean), `pletsOf`.
-/
import PqlModel.Lemmas.E2EMorePlets
import PqlModel.Props.C05LexStatement
import PqlModel.Lemmas.E2EFinalChecks
import PqlModel.Props.C02ProgramNames
namespace Pql.E2EMore
open Pql Sql LexRender Pql.Params CompileOracle Intended Pql.RT JoinFull Pql.ParsedOK Pql.E2E

/-- **the reference SQL reader commutes with the instantiation of placeholders** -/
theorem C06_parse_commutes_with_instantiation (ρ : Bytes → PVal) (ts : List STok) :
    parseStatement (ts.map (instTok ρ)) = (parseStatement ts).map (instStatement ρ) :=
  parseStatement_inst ρ ts

/-- a placeholder text is one `.param` token -/
theorem C06_placeholder_one_token (text : Bytes) (h : isPlaceholder text = true) :
    Sql.lex .standard text = some [.param text] := lex_placeholder text h

/-- the three fillings of one skeleton -/
theorem placeholder_skeleton (src : Bytes) (params : List (Bytes × Bytes)) (stmts : List Stmt) (cs : List Chunk)
    (hc : compileChunks src params stmts = .ok cs) :
    ∃ r0, cs = bindRaw (fill (paramScope params)) r0 ∧
      ∀ ρ, compileChunks src [] (pletsOf ρ params ++ stmts) = .ok (bindRaw (fill (valScope ρ params)) r0) := by
  rw [compileChunks_eq_from, compileFrom_skeleton src params stmts _ (paramScope_keys params)] at hc
  cases h0 : compileFrom src (holeScope (params.map (·.1))) stmts with
  | error e => rw [h0] at hc; cases hc
  | ok r0 =>
    rw [h0, exmap_ok] at hc
    refine ⟨r0, by injection hc with h; exact h.symm, fun ρ => ?_⟩
    rw [compileChunks_plets, compileFrom_skeleton src params stmts _ (valScope_keys ρ params), h0, exmap_ok]

/-- **C06 (placeholders: LexRender).**  The text compiled with placeholder parameters lexes to the tokens of
    its chunks (each `.raw` chunk being the one token `.param text`). -/
theorem C06_placeholders_lex (src : Bytes) (params : List (Bytes × Bytes)) (stmts : List Stmt) (cs : List Chunk)
    (hph : ∀ kv ∈ params, isPlaceholder kv.2 = true)
    (hok : stmtsLexOK stmts = true)
    (hc : compileChunks src params stmts = .ok cs) :
    Sql.lex .standard (renderChunks cs) = some (toksOf cs) := by
  obtain ⟨r0, rfl, hall⟩ := placeholder_skeleton src params stmts cs hc
  have hN := hall (fun _ => .num [48])
  have hadj := C05.program_adj src _ _
    (pletsOf_lexOK (fun _ => .num [48]) params stmts hok (fun _ _ => by decide)) hN
  exact holes_lex_top _ _ (holeLex_fill params hph) r0 hadj

/-- **C06 (placeholders: the tokens, instantiated, are the tokens of the program with the lets).** -/
theorem C06_placeholders_toks (src : Bytes) (params : List (Bytes × Bytes)) (stmts : List Stmt) (cs : List Chunk)
    (ρ : Bytes → PVal)
    (hph : ∀ kv ∈ params, isPlaceholder kv.2 = true)
    (hok : stmtsLexOK stmts = true)
    (hc : compileChunks src params stmts = .ok cs) :
    ∃ cs', compileChunks src [] (pletsOf ρ params ++ stmts) = .ok cs' ∧
      (toksOf cs).map (instTok ρ) = toksOf cs' := by
  obtain ⟨r0, rfl, hall⟩ := placeholder_skeleton src params stmts cs hc
  have hN := hall (fun _ => .num [48])
  have hadj := C05.program_adj src _ _
    (pletsOf_lexOK (fun _ => .num [48]) params stmts hok (fun _ _ => by decide)) hN
  exact ⟨_, hall ρ, holes_inst ρ _ _ _ (holeVal_fill ρ params hph) r0 [] hadj⟩

/-- **C06 (placeholder parameters, end to end).**  `params` binds names to placeholder texts
    (`isPlaceholder`), `ρ` assigns a value (a string, or a number spelling) to every placeholder text.  If
    `lets ++ [query t]` compiles WITH THE PARAMETERS to chunks `cs`, then — under the side conditions of
    `E2EFinal.end_to_end_program` for the program `pletsOf ρ params ++ lets ++ [query t]`, in which every
    parameter `p ↦ text` is `let p = ρ text` —
    * the emitted SQL text is read by the reference lexer and parser as a statement `st` (in which a parameter
      reference is the leaf `SExpr.param text`);
    * `st` with every placeholder replaced by its value, `instStatement ρ st`, is what the reader reads from
      the text of the program with the lets, is the intended statement of that program up to `normS`, and
    * evaluates on every rectangular database to the meaning of that program: the values of the
      placeholders are exactly let-bound constants. -/
theorem C06_placeholder_params_end_to_end (src : Bytes) (params : List (Bytes × Bytes)) (ρ : Bytes → PVal)
    (lets : List Stmt) (t : Tabular) (cs : List Chunk)
    (hph : ∀ kv ∈ params, isPlaceholder kv.2 = true)
    (hρ : ∀ kv ∈ params, (ρ kv.2).ok = true)
    (hc : compileChunks src params (lets ++ [.tabular t]) = .ok cs)
    (hl : IsLets lets) (hv : LetValuesOK lets)
    (hjs : envJoinSafe (letsEnv (pletsOf ρ params ++ lets) []) = true)
    (hJ : TrueFree (letsEnv (pletsOf ρ params ++ lets) []) ∨ TabNE t = true) (hN : tabNamed t)
    (hlexP : stmtsLexOK (lets ++ [.tabular t]) = true)
    (hok : C05.tabularOK (substTabular (letsEnv (pletsOf ρ params ++ lets) []) t) = true)
    (hnames : namesOk (substTabular (letsEnv (pletsOf ρ params ++ lets) []) t) = true)
    (hops : tabOpsOk (substTabular (letsEnv (pletsOf ρ params ++ lets) []) t) = true) :
    ∃ st cs' want, readSql (renderChunks cs) = some st ∧
      compileChunks src [] (pletsOf ρ params ++ lets ++ [.tabular t]) = .ok cs' ∧
      readSql (renderChunks cs') = some (instStatement ρ st) ∧
      intended src (pletsOf ρ params ++ lets ++ [.tabular t]) = some want ∧
      statementEq (instStatement ρ st) want = true ∧
      ∀ db, RectDB db →
        evalStatement db (instStatement ρ st) =
          Rel.interp src db (substTabular (letsEnv (pletsOf ρ params ++ lets) []) t) ∧
        Rel.interpProgram src db (pletsOf ρ params ++ lets ++ [.tabular t]) =
          some (Rel.interp src db (substTabular (letsEnv (pletsOf ρ params ++ lets) []) t)) := by
  have hlex := C06_placeholders_lex src params _ cs hph hlexP hc
  obtain ⟨cs', hc', htoks⟩ := C06_placeholders_toks src params _ cs ρ hph hlexP hc
  rw [← List.append_assoc] at hc'
  have hlets : IsLets (pletsOf ρ params ++ lets) := by
    intro st hst
    rcases List.mem_append.1 hst with h | h
    · exact pletsOf_isLets ρ params st h
    · exact hl st h
  have hvals : LetValuesOK (pletsOf ρ params ++ lets) := by
    intro st hst
    rcases List.mem_append.1 hst with h | h
    · exact pletsOf_valuesOK ρ params hρ st h
    · exact hv st h
  have hlexP' : stmtsLexOK (pletsOf ρ params ++ lets ++ [.tabular t]) = true := by
    rw [List.append_assoc]; exact pletsOf_lexOK ρ params _ hlexP hρ
  obtain ⟨stV, want, h1, _, h3, h4, h5⟩ :=
    E2EFinal.end_to_end_program src (pletsOf ρ params ++ lets) t cs' hc' hlets hvals hjs hJ hN hlexP' hok hnames hops
  have hlexV := C05.C05_lexRender_program src _ cs' hlexP' hc'
  have hpV : parseStatement (toksOf cs') = some stV := by
    rw [← readSql_of_lex hlexV]; exact h1
  rw [← htoks, parseStatement_inst] at hpV
  cases hp : parseStatement (toksOf cs) with
  | none => rw [hp] at hpV; cases hpV
  | some st =>
    rw [hp, Option.map_some, Option.some.injEq] at hpV
    subst hpV
    refine ⟨st, cs', want, ?_, hc', h1, h3, h4, fun db hdb => ?_⟩
    · rw [readSql_of_lex hlex, hp]
    · exact ⟨(h5 db hdb).1, (h5 db hdb).2.2⟩

/-- **C06 (placeholders, purely syntactic).**  NO side condition beyond `stmtsLexOK` (true of every parsed
    K4-free program): reading the text of the program with `let p = ρ text` in front is instantiating, by
    `ρ`, the reading of the text compiled with the placeholders — for every `ρ`, with one and the same
    `readSql (renderChunks cs)`. -/
theorem C06_placeholder_read_commutes (src : Bytes) (params : List (Bytes × Bytes)) (stmts : List Stmt)
    (cs : List Chunk) (hph : ∀ kv ∈ params, isPlaceholder kv.2 = true) (hok : stmtsLexOK stmts = true)
    (hc : compileChunks src params stmts = .ok cs) (ρ : Bytes → PVal)
    (hρ : ∀ kv ∈ params, (ρ kv.2).ok = true) :
    ∃ cs', compileChunks src [] (pletsOf ρ params ++ stmts) = .ok cs' ∧
      readSql (renderChunks cs') = (readSql (renderChunks cs)).map (instStatement ρ) := by
  obtain ⟨cs', hc', htoks⟩ := C06_placeholders_toks src params _ cs ρ hph hok hc
  refine ⟨cs', hc', ?_⟩
  rw [readSql_of_lex (C05.C05_lexRender_program src _ cs' (pletsOf_lexOK ρ params _ hok hρ) hc'),
    readSql_of_lex (C06_placeholders_lex src params _ cs hph hok hc), ← htoks, parseStatement_inst]

/-- **C06 (placeholder parameters, end to end) against `Rel.interpProgram`, without `tabNamed`** (implicit
    column names may mention parameters: `extend a + p` is the column `a + p`): through
    `C02_end_to_end_program_names` and `C06_placeholder_read_commutes`. -/
theorem C06_placeholder_params_end_to_end_names (src : Bytes) (params : List (Bytes × Bytes)) (ρ : Bytes → PVal)
    (lets : List Stmt) (t : Tabular) (cs : List Chunk)
    (hph : ∀ kv ∈ params, isPlaceholder kv.2 = true)
    (hρ : ∀ kv ∈ params, (ρ kv.2).ok = true)
    (hc : compileChunks src params (lets ++ [.tabular t]) = .ok cs)
    (hl : IsLets lets) (hv : LetValuesOK lets)
    (hjs : envJoinSafe (letsEnv (pletsOf ρ params ++ lets) []) = true)
    (hJ : TrueFree (letsEnv (pletsOf ρ params ++ lets) []) ∨ TabNE t = true)
    (hlexP : stmtsLexOK (lets ++ [.tabular t]) = true)
    (hok : C05.tabularOK (substTabular (letsEnv (pletsOf ρ params ++ lets) []) t) = true)
    (hnames : namesOk (substTabular (letsEnv (pletsOf ρ params ++ lets) []) (Rel.nameTabular src t)) = true)
    (hops : tabOpsOk (substTabular (letsEnv (pletsOf ρ params ++ lets) []) (Rel.nameTabular src t)) = true) :
    ∃ st, readSql (renderChunks cs) = some st ∧
      ∀ db, RectDB db →
        Rel.interpProgram src db (pletsOf ρ params ++ lets ++ [.tabular t]) =
          some (evalStatement db (instStatement ρ st)) := by
  obtain ⟨cs', hc', hread⟩ := C06_placeholder_read_commutes src params _ cs hph hlexP hc ρ hρ
  rw [← List.append_assoc] at hc'
  have hlets : IsLets (pletsOf ρ params ++ lets) := by
    intro st hst
    rcases List.mem_append.1 hst with h | h
    · exact pletsOf_isLets ρ params st h
    · exact hl st h
  have hvals : LetValuesOK (pletsOf ρ params ++ lets) := by
    intro st hst
    rcases List.mem_append.1 hst with h | h
    · exact pletsOf_valuesOK ρ params hρ st h
    · exact hv st h
  have hlexP' : stmtsLexOK (pletsOf ρ params ++ lets ++ [.tabular t]) = true := by
    rw [List.append_assoc]; exact pletsOf_lexOK ρ params _ hlexP hρ
  obtain ⟨stV, h1, _, h2⟩ :=
    C02_end_to_end_program_names src (pletsOf ρ params ++ lets) t cs' hc' hlets hvals hjs hJ hlexP' hok hnames hops
  rw [h1] at hread
  cases hp : readSql (renderChunks cs) with
  | none => rw [hp] at hread; cases hread
  | some st =>
    rw [hp, Option.map_some, Option.some.injEq] at hread
    subst hread
    exact ⟨st, rfl, h2⟩

/-! ### source bytes, functional form -/

/-- compile with the parameters, read the text back, give the placeholders their values, evaluate -/
def runParams (src : Bytes) (params : List (Bytes × Bytes)) (ρ : Bytes → PVal) (db : DB) : Option Table :=
  match compile params src with
  | .ok sql => (readSql sql).map fun st => evalStatement db (instStatement ρ st)
  | _ => none

def letValuesB (lets : List Stmt) : Bool :=
  lets.all fun st => match st with | .let_ _ _ _ x => x.lexOK && shapeOK x | _ => true

theorem letValuesOK_of_B {lets : List Stmt} (h : letValuesB lets = true) : LetValuesOK lets := by
  intro st hst kw n a x hx
  subst hx
  have := List.all_eq_true.mp h _ hst
  simpa using this

/-- the side conditions inherited from `E2EFinal.end_to_end_program`, for source bytes, as one Boolean -/
def phBase (src : Bytes) (params : List (Bytes × Bytes)) (ρ : Bytes → PVal) : Bool :=
  match parse src, compile params src with
  | (stmts, []), .ok _ =>
    match E2EFinal.splitLets stmts with
    | some (lets, t) =>
      letValuesB lets &&
        envJoinSafe (letsEnv (pletsOf ρ params ++ lets) []) && TabNE t && E2EFinal.tabNamedB t &&
        stmtsLexOK (lets ++ [Stmt.tabular t]) &&
        C05.tabularOK (substTabular (letsEnv (pletsOf ρ params ++ lets) []) t) &&
        namesOk (substTabular (letsEnv (pletsOf ρ params ++ lets) []) t) &&
        tabOpsOk (substTabular (letsEnv (pletsOf ρ params ++ lets) []) t)
    | none => false
  | _, _ => false

/-- the decidable hypotheses of `C06_placeholder_params_end_to_end` for source bytes, as one Boolean -/
def phHyps (src : Bytes) (params : List (Bytes × Bytes)) (ρ : Bytes → PVal) : Bool :=
  params.all (fun kv => isPlaceholder kv.2) && params.all (fun kv => (ρ kv.2).ok) && phBase src params ρ

theorem compile_params_ok_chunks (src sql : Bytes) (params : List (Bytes × Bytes)) (stmts : List Stmt)
    (hp : parse src = (stmts, [])) (hc : compile params src = .ok sql) :
    ∃ cs, compileChunks src params stmts = .ok cs ∧ sql = renderChunks cs := by
  unfold compile at hc
  simp only [hp, List.isEmpty_nil, Bool.not_true, Bool.false_eq_true, if_false] at hc
  cases hr : compileChunks src params stmts with
  | ok cs =>
    rw [hr] at hc
    simp only [CompileResult.ok.injEq] at hc
    exact ⟨cs, rfl, hc.symm⟩
  | error e =>
    rw [hr] at hc
    cases e <;> cases hc

/-- **C06 (placeholder parameters, end to end, source bytes, functional form)**: compile the source with
    the placeholder parameters, read the text back, give the placeholders their values, evaluate = the
    meaning (`Rel.interpProgram`) of the program with `let p = value` in front -/
theorem C06_placeholder_params_run (src : Bytes) (params : List (Bytes × Bytes)) (ρ : Bytes → PVal)
    (h : phHyps src params ρ = true) :
    ∀ db, RectDB db → (runParams src params ρ db).isSome = true ∧
      runParams src params ρ db = Rel.interpProgram src db (pletsOf ρ params ++ (parse src).1) := by
  simp only [phHyps, Bool.and_eq_true, List.all_eq_true] at h
  obtain ⟨⟨h1, h2⟩, h⟩ := h
  unfold phBase at h
  split at h
  · rename_i stmts sql hp hc
    split at h
    · rename_i lets t hs
      obtain ⟨rfl, hl⟩ := E2EFinal.splitLets_spec stmts lets t hs
      simp only [Bool.and_eq_true] at h
      obtain ⟨⟨⟨⟨⟨⟨⟨h3, h4⟩, h5⟩, h6⟩, h7⟩, h8⟩, h9⟩, h10⟩ := h
      obtain ⟨cs, hcs, rfl⟩ := compile_params_ok_chunks src sql params _ hp hc
      obtain ⟨st, _, _, hr, _, _, _, _, hev⟩ := C06_placeholder_params_end_to_end src params ρ lets t cs h1 h2 hcs hl
        (letValuesOK_of_B h3) h4 (Or.inr h5) (E2EFinal.tabNamed_of_B t h6) h7 h8 h9 h10
      intro db hdb
      obtain ⟨ha, hb⟩ := hev db hdb
      simp only [runParams, hc, hr, Option.map_some, ha, hp, ← List.append_assoc, hb, Option.isSome_some, and_self]
    · cases h
  · cases h

/-! ### non-vacuity: concrete source bytes, placeholders of the three kinds -/
namespace PhEx
open C03.Ex

def s (x : String) : Bytes := Bytes.ofString x

/-- parameters `lim ↦ $1`, `kk ↦ {kk:Int32}`, `nm ↦ ?` -/
def exParams : List (Bytes × Bytes) := [(s "lim", s "$1"), (s "kk", s "{kk:Int32}"), (s "nm", s "?")]
/-- a parameter in a comparison, one in a `!=` test (written `<>`), one projected as a column, and one let
    defined from a parameter -/
def exSrc : Bytes := s "let m = lim; T | where a >= m and k != kk | project k, a, nm | take 2"
/-- `$1 = 20`, `{kk:Int32} = 2`, `? = 'x'` -/
def exRho : Bytes → PVal := fun p =>
  if p = s "$1" then .num (s "20") else if p = s "{kk:Int32}" then .num (s "2") else .str (s "x")

unseal Pql.scanFrom in
/-- all hypotheses of `C06_placeholder_params_run` hold -/
theorem ex_hyps : phHyps exSrc exParams exRho = true := by decide +kernel

/-- the theorem instantiated -/
theorem ex_end_to_end : ∀ db, RectDB db → (runParams exSrc exParams exRho db).isSome = true ∧
    runParams exSrc exParams exRho db =
      Rel.interpProgram exSrc db (pletsOf exRho exParams ++ (parse exSrc).1) :=
  C06_placeholder_params_run exSrc exParams exRho ex_hyps

unseal Pql.scanFrom in
/-- the emitted text contains the placeholders verbatim -/
theorem ex_text : compile exParams exSrc = .ok (s
    "WITH \"__subquery0\" AS (SELECT * FROM \"T\" WHERE (\"a\" >= $1) AND (coalesce(\"k\" <> {kk:Int32}, FALSE))),\n     \"__subquery1\" AS (SELECT \"k\" AS \"k\", \"a\" AS \"a\", ? AS \"nm\" FROM \"__subquery0\")\nSELECT * FROM \"__subquery1\" LIMIT 2;") := by
  decide +kernel

set_option maxRecDepth 100000 in
unseal Pql.scanFrom in
/-- cross-check by evaluation on `C03.Ex.exDB`: both sides computed -/
theorem ex_computed :
    runParams exSrc exParams exRho C03.Ex.exDB =
      Rel.interpProgram exSrc C03.Ex.exDB (pletsOf exRho exParams ++ (parse exSrc).1) ∧
    (runParams exSrc exParams exRho C03.Ex.exDB).isSome = true := by
  refine ⟨by decide +kernel, by decide +kernel⟩

end PhEx

/-! ### the two new hypotheses are needed -/
namespace PhCex
open C03.Ex PhEx

/-- `p ↦ $1 + 1` is not ONE placeholder: in `a * p` the emitted `"a" * $1 + 1` regroups -/
def npParams : List (Bytes × Bytes) := [(s "p", s "$1 + 1")]
def npSrc : Bytes := s "T | extend y = a * p | take 2"
def npRho : Bytes → PVal := fun p => if p = s "$1" then .num (s "4") else .num (s "5")

set_option maxRecDepth 100000 in
unseal Pql.scanFrom in
/-- **`isPlaceholder` is needed**: every other hypothesis holds, the text is read back, and the result
    (`a * 4 + 1`) is not the meaning of the program with `let p = 5` (`a * 5`) -/
theorem placeholder_needed :
    npParams.all (fun kv => isPlaceholder kv.2) = false ∧ npParams.all (fun kv => (npRho kv.2).ok) = true ∧
    phBase npSrc npParams npRho = true ∧ RectDB C03.Ex.exDB ∧
    (runParams npSrc npParams npRho C03.Ex.exDB).isSome = true ∧
    runParams npSrc npParams npRho C03.Ex.exDB ≠
      Rel.interpProgram npSrc C03.Ex.exDB (pletsOf npRho npParams ++ (parse npSrc).1) := by
  refine ⟨by decide, by decide, by decide +kernel, by decide, by decide +kernel, by decide +kernel⟩

/-- an empty text: the emitted text is not read at all -/
def emParams : List (Bytes × Bytes) := [(s "p", [])]

unseal Pql.scanFrom in
theorem placeholder_needed_empty :
    phBase npSrc emParams npRho = true ∧ runParams npSrc emParams npRho C03.Ex.exDB = none := by
  refine ⟨by decide +kernel, by decide +kernel⟩

/-- the value `1 + 1` is not a number spelling -/
def okParams : List (Bytes × Bytes) := [(s "p", s "$1")]
def okRho : Bytes → PVal := fun _ => .num (s "1 + 1")

/-- does reading the text with the lets give the instantiated reading of the text with placeholders
    (up to `normS`)? -/
def readCommutes (src : Bytes) (params : List (Bytes × Bytes)) (ρ : Bytes → PVal) : Option Bool :=
  match compileChunks src params (parse src).1, compileChunks src [] (pletsOf ρ params ++ (parse src).1) with
  | .ok cs, .ok cs' =>
    match readSql (renderChunks cs), readSql (renderChunks cs') with
    | some st, some st' => some (statementEq st' (instStatement ρ st))
    | _, _ => none
  | _, _ => none

unseal Pql.scanFrom in
/-- **`PVal.ok` is needed** (for `C06_placeholder_read_commutes` and the `readSql (renderChunks cs')` part of
    the end-to-end theorem): with the "number" `1 + 1` the text with the let reads `"a" * 1 + 1`, which is
    not the instantiated `"a" * $1`; with a number spelling it is -/
theorem valOk_needed :
    okParams.all (fun kv => isPlaceholder kv.2) = true ∧ okParams.all (fun kv => (okRho kv.2).ok) = false ∧
    readCommutes npSrc okParams okRho = some false ∧ readCommutes npSrc okParams npRho = some true := by
  refine ⟨by decide, by decide, by decide +kernel, by decide +kernel⟩

end PhCex

end Pql.E2EMore
