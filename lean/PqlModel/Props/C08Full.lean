/-
Property C08 — the parser accepts only what its tree represents (and, with `pos = true`,
the token-position half of C10): if parsing succeeds without any error, every token is
accounted for by the returned trees, in order, with exact positions.

The statements carry the hypothesis `TokOK ts` (PqlModel/Lemmas/AccountedBasic.lean): every token
has `start ≤ stop`, tokens are in source order, and tokens of a kind without text (everything
but identifiers, quoted identifiers, numbers and strings) have the empty value.  `scan`
guarantees it (`scan_tokOK`), so `C08_accounted_parse` has no hypothesis beyond success.  Over
*arbitrary* token lists the statement is false (`C08_accounted_unrestricted_false`): the grammar's
`unparse` gives symbol tokens the empty value and decides by `Span.isValid` whether an optional
keyword is present, which only agrees with the parser on token lists a scanner can produce.

`Forall₂` is the usual pointwise relation on two lists (core Lean has no `List.Forall₂`; it is
defined in PqlModel/Lemmas/AccountedStmt.lean); `C08_accounted_parse_zip` restates the result as
"equal lengths and pointwise on `zip`".
-/
import PqlModel.Lemmas.AccountedStmt
import PqlModel.Lemmas.AccountedScan
namespace Pql.C08
open Pql

/-! ### stage 1: expressions -/

/-- **C08, stage 1 (expressions).** If `pExpr` succeeds without any error, the tokens it consumed
    are accounted for — kinds, values, order and exact positions — by the `unparse` of its tree. -/
theorem C08_accounted_expr (c : PCtx) (fuel : Nat) (ts : List Token) (e : Expr) (rest : List Token)
    (hok : TokOK ts) (h : pExpr c fuel ts = ⟨e, [], rest⟩) :
    ∃ us consumed, Grammar.unparseExpr e = some us ∧ ts = consumed ++ rest ∧
      Grammar.accounts true us consumed = true :=
  pExpr_acc hok h

/-- the same for expression lists (`in (…)`, call arguments, join conditions) -/
theorem C08_accounted_exprList (c : PCtx) (fuel : Nat) (ts : List Token) (l : ExprList) (rest : List Token)
    (hok : TokOK ts) (h : pExprList c fuel ts = ⟨l, [], rest⟩) :
    ∃ us consumed, Grammar.unparseExprList l = some us ∧ ts = consumed ++ rest ∧
      Grammar.accounts true us consumed = true :=
  (pExprList_acc hok h).2

/-! ### stage 2: operators -/

/-- sort terms (`x [asc|desc] [nulls first|last]`) -/
theorem C08_accounted_sortTerm (c : PCtx) (fuel : Nat) (ts : List Token) (v : Option SortTerm)
    (rest : List Token) (hok : TokOK ts) (h : pSortTerm c fuel ts = ⟨v, [], rest⟩) :
    ∃ term us consumed, v = some term ∧ Grammar.unparseSortTerm term = some us ∧ ts = consumed ++ rest ∧
      Grammar.accounts true us consumed = true :=
  pSortTerm_acc hok h

/-- extend / summarize columns (`[name =] x`) -/
theorem C08_accounted_column (c : PCtx) (fuel : Nat) (ts : List Token) (col : Column) (rest : List Token)
    (hok : TokOK ts) (h : pNamedColumn c fuel ts = ⟨col, [], rest⟩) :
    ∃ us consumed, Grammar.unparseColumn false col = some us ∧ ts = consumed ++ rest ∧
      Grammar.accounts true us consumed = true :=
  pNamedColumn_acc hok h

/-- **C08, stage 2 (operators).** An operator `| name …` parsed without any error: the pipe, the
    operator name and what the operator consumed of its range are accounted for by the operator
    node (all eleven operators, including the comma allowed before `by` in summarize). -/
theorem C08_accounted_operator (c : PCtx) (fuel : Nat) (pipeTok name : Token) (ts : List Token) (op : Op)
    (rest : List Token) (hok : TokOK (pipeTok :: name :: ts)) (hp : pipeTok.kind = .pipe)
    (hk : name.kind = .ident) (h : pOperator c fuel pipeTok.span name ts = some ⟨op, [], rest⟩) :
    ∃ us consumed, Grammar.unparseOp op = some us ∧ ts = consumed ++ rest ∧
      Grammar.accounts true us (pipeTok :: name :: consumed) = true :=
  pOperator_acc hok hp hk h

/-- tabular expressions `source | op | op …` -/
theorem C08_accounted_tabular (c : PCtx) (fuel : Nat) (ts : List Token) (t : Tabular) (rest : List Token)
    (hok : TokOK ts) (h : pTabular c fuel ts = ⟨t, [], rest⟩) :
    ∃ us consumed, Grammar.unparseTabular t = some us ∧ ts = consumed ++ rest ∧
      Grammar.accounts true us consumed = true :=
  pTabular_acc hok h

/-- `let name = x` -/
theorem C08_accounted_let (c : PCtx) (fuel : Nat) (ts : List Token) (v : Option Stmt) (rest : List Token)
    (hok : TokOK ts) (h : pLet c fuel ts = ⟨v, [], rest⟩) :
    ∃ s us consumed, v = some s ∧ Grammar.unparseStmt s = some us ∧ ts = consumed ++ rest ∧
      Grammar.accounts true us consumed = true :=
  pLet_acc hok h

/-! ### stage 3: statements -/

/-- **C08 (`_partial`: restricted to well-formed token lists).** If `parseTokens` succeeds without
    any error on a token list as a scanner produces it (`TokOK`), the statements it returns
    correspond one to one, in order, to the non-empty semicolon-separated token groups, and each
    statement's `unparse` accounts for all tokens of its group with exact positions. -/
theorem C08_accounted_partial (srcLen : Nat) (ts : List Token) (stmts : List Stmt) (hok : TokOK ts)
    (h : parseTokens srcLen ts = (stmts, [])) :
    Forall₂ (fun st g => ∃ us, Grammar.unparseStmt st = some us ∧ Grammar.accounts true us g = true)
      stmts (Grammar.splitStatementsToks ts) :=
  parseTokens_acc srcLen ts stmts hok h

/-- **C08 for `Parse`.** If `parse src` succeeds without any error, every token of `scan src` is
    accounted for by the returned trees, in order, with exact positions. -/
theorem C08_accounted_parse (src : Bytes) (stmts : List Stmt) (h : parse src = (stmts, [])) :
    Forall₂ (fun st g => ∃ us, Grammar.unparseStmt st = some us ∧ Grammar.accounts true us g = true)
      stmts (Grammar.splitStatementsToks (scan src)) :=
  C08_accounted_partial src.length (scan src) stmts (scan_tokOK src) h

/-- the same as equal lengths and a pointwise statement on `zip` -/
theorem C08_accounted_parse_zip (src : Bytes) (stmts : List Stmt) (h : parse src = (stmts, [])) :
    stmts.length = (Grammar.splitStatementsToks (scan src)).length ∧
    ∀ p ∈ stmts.zip (Grammar.splitStatementsToks (scan src)),
      ∃ us, Grammar.unparseStmt p.1 = some us ∧ Grammar.accounts true us p.2 = true :=
  ⟨(C08_accounted_parse src stmts h).length_eq, (C08_accounted_parse src stmts h).zip⟩

/-! ### why `TokOK` is needed

`let x = a.b` where the dot token carries a (non-empty) value, which `scan` never produces:
the parser does not look at the value of a symbol token, the grammar's `unparse` claims it is
empty. -/

def badTokens : List Token :=
  [⟨.ident, 0, 3, Bytes.ofString "let"⟩, ⟨.ident, 4, 5, [120]⟩, ⟨.assign, 6, 7, []⟩,
   ⟨.ident, 8, 9, [97]⟩, ⟨.dot, 9, 10, [1]⟩, ⟨.ident, 10, 11, [98]⟩]

def badStmt : Stmt :=
  .let_ ⟨0, 3⟩ (some ⟨[120], ⟨4, 5⟩, false⟩) ⟨6, 7⟩ (.qident [⟨[97], ⟨8, 9⟩, false⟩, ⟨[98], ⟨10, 11⟩, false⟩])

theorem bad_parses : parseTokens 11 badTokens = ([badStmt], []) := by rfl

def badUs : List Grammar.UTok := (Grammar.unparseStmt badStmt).getD []

theorem bad_unparse : Grammar.unparseStmt badStmt = some badUs := by rfl

theorem bad_not_accounted : Grammar.accounts true badUs badTokens = false := by decide

/-- **finding.** Without `TokOK` the property is false: the parser accepts `let x = a.b` whose dot
    token has value `[1]` with no error, and the tree's `unparse` does not account for that token. -/
theorem C08_accounted_unrestricted_false :
    ¬ ∀ (srcLen : Nat) (ts : List Token) (stmts : List Stmt), parseTokens srcLen ts = (stmts, []) →
      Forall₂ (fun st g => ∃ us, Grammar.unparseStmt st = some us ∧ Grammar.accounts true us g = true)
        stmts (Grammar.splitStatementsToks ts) := by
  intro hall
  have h := hall 11 badTokens [badStmt] bad_parses
  have hs : Grammar.splitStatementsToks badTokens = [badTokens] := by decide
  rw [hs] at h
  cases h with
  | cons hab _ =>
    obtain ⟨us, hus, ha⟩ := hab
    rw [bad_unparse] at hus
    simp only [Option.some.injEq] at hus
    subst hus
    rw [bad_not_accounted] at ha
    exact absurd ha (by decide)

/-! `T | sort by a asc` where the `asc` token has `start > stop`: the parser stores the span, the
grammar's `unparse` takes an invalid span to mean "no direction given". -/

def badTokens2 : List Token :=
  [⟨.ident, 0, 1, [84]⟩, ⟨.pipe, 2, 3, []⟩, ⟨.ident, 4, 8, Bytes.ofString "sort"⟩, ⟨.by_, 9, 11, []⟩,
   ⟨.ident, 12, 13, [97]⟩, ⟨.ident, 17, 14, Bytes.ofString "asc"⟩]

def badStmt2 : Stmt :=
  .tabular (.mk (some ⟨[84], ⟨0, 1⟩, false⟩)
    (.cons (.sort ⟨2, 3⟩ ⟨4, 11⟩ [⟨.qident [⟨[97], ⟨12, 13⟩, false⟩], true, ⟨17, 14⟩, true, .null⟩]) .nil))

theorem bad2_parses : parseTokens 17 badTokens2 = ([badStmt2], []) := by rfl

def badUs2 : List Grammar.UTok := (Grammar.unparseStmt badStmt2).getD []

theorem bad2_unparse : Grammar.unparseStmt badStmt2 = some badUs2 := by rfl

theorem bad2_not_accounted : Grammar.accounts true badUs2 badTokens2 = false := by decide

#print axioms C08_accounted_expr
#print axioms C08_accounted_exprList
#print axioms C08_accounted_sortTerm
#print axioms C08_accounted_column
#print axioms C08_accounted_operator
#print axioms C08_accounted_tabular
#print axioms C08_accounted_let
#print axioms C08_accounted_partial
#print axioms C08_accounted_parse
#print axioms C08_accounted_parse_zip
#print axioms C08_accounted_unrestricted_false
#print axioms bad2_parses
#print axioms bad2_not_accounted

end Pql.C08
