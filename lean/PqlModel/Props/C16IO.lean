/-
Property C16, input/output side of the command-line tool (cmd/pql/main.go):

1. `multiReadCloser.Read` (several files read as one stream) is a logical concatenation
   (`C16_multi_concat`, terminating, no invented `0, nil`);
2. the text the statement loop splits is the input with `\r\n` → `\n` and a final newline
   supplied — nothing else is lost (`C16_lines_lossless`); on an over-long line exactly the
   lines before it are delivered and the failure is reported (`C16_lines_prefix`);
3. `cliMain` in closed form over the statement pieces (`C16_main_spec`), output order, failure
   isolation, prelude = accepted lets, exit status, nothing dropped silently.

Model definitions for `multiReadCloser` / `makeInput`: Lemmas/CliIOModel.lean (with the
assumptions A1-A3 spelled out there).  Counterexamples for every hypothesis, non-vacuity
instances and whole scripts evaluated by the kernel: Lemmas/CliIOExamples.lean.  Specification-level definitions: Lemmas/CliIOLines.lean
(`ensureNL`, `crlfToLf`, `rawLines`), Lemmas/CliIOSpec.lean (`Outcome`, `steps`, `runPieces`, …).
-/
import PqlModel.Lemmas.CliIOMulti
import PqlModel.Lemmas.CliIOLines
import PqlModel.Lemmas.CliIOSpec
import PqlModel.Lemmas.CliIOExamples
import PqlModel.Props.C16
namespace Pql.CliIO
open Pql Pql.CliSpec

/-! ## 1. `multiReadCloser` -/

/-- **C16 (several inputs are one stream).**  For every list of readers and every chunking of
    their data into `Read` results (including `n > 0, io.EOF`, `0, io.EOF`, `0, nil`, and
    errors), reading the `multiReadCloser` until it reports `io.EOF` or an error yields exactly
    the contents of the readers, in order, up to and including the first reader that fails; it
    ends with `io.EOF` iff no reader failed.  `totalResults + 1` calls of `Read` suffice. -/
theorem C16_multi_concat (rs : List Reader) :
    inputStream rs = toEnding (concatContents rs) :=
  drain_multiRead rs _ (Nat.le_refl _)

/-- more patience does not change the result -/
theorem C16_multi_concat_fuel (rs : List Reader) (fuel : Nat) (h : totalResults rs + 1 ≤ fuel) :
    drain multiRead fuel rs = inputStream rs := by
  rw [drain_multiRead rs fuel h, C16_multi_concat]

/-- `totalResults rs` calls can be too few (the last call only learns `io.EOF`) -/
theorem C16_multi_fuel_tight :
    drain multiRead (totalResults [[([1], Status.ok)]]) [[([1], .ok)]] = ([1], .outOfFuel) := by
  decide

/-- without errors: the plain concatenation, ending with `io.EOF` -/
theorem C16_multi_concat_noErr (rs : List Reader) (h : noErr rs = true) :
    inputStream rs = ((rs.map fun r => r.content.1).flatten, .eof) := by
  rw [C16_multi_concat, concatContents_noErr rs h]; rfl

/-- the drain always ends by itself -/
theorem C16_multi_terminates (rs : List Reader) : (inputStream rs).2 ≠ .outOfFuel := by
  rw [C16_multi_concat]
  generalize concatContents rs = p
  obtain ⟨b, f⟩ := p
  cases f <;> simp [toEnding]

/-- `Reader.content` is what reading that reader alone (no `multiReadCloser`) yields -/
theorem C16_reader_alone (r : Reader) (fuel : Nat) (h : r.length + 1 ≤ fuel) :
    drain Reader.read fuel r = toEnding r.content :=
  drain_reader r fuel h

/-- one file through a `multiReadCloser` = that file read directly (`makeInput` with one path) -/
theorem C16_multi_single (r : Reader) :
    inputStream [r] = drain Reader.read (r.length + 1) r := by
  rw [C16_multi_concat, concatContents_single, drain_reader r _ (Nat.le_refl _)]

/-- the chunking is irrelevant: readers with the same contents give the same stream -/
theorem C16_multi_chunking (rs rs' : List Reader)
    (h : rs.map Reader.content = rs'.map Reader.content) : inputStream rs = inputStream rs' := by
  rw [C16_multi_concat, C16_multi_concat]
  congr 1
  induction rs generalizing rs' with
  | nil =>
    cases rs' with
    | nil => rfl
    | cons _ _ => simp at h
  | cons r rs ih =>
    cases rs' with
    | nil => simp at h
    | cons r' rs' =>
      simp only [List.map_cons, List.cons.injEq] at h
      simp only [concatContents, h.1, ih rs' h.2]

/-- **No invented `0, nil`**: see `multiRead_zero_nil`. -/
theorem C16_multi_zero_nil (rs rs' : List Reader) (h : multiRead rs = (([], .ok), rs')) :
    ∃ dropped r' rest, rs = dropped ++ (([], .ok) :: r') :: rest ∧ rs' = r' :: rest ∧
      ∀ d ∈ dropped, (Reader.read d).1 = (([], Status.eof) : ReadResult) :=
  multiRead_zero_nil rs rs' h

/-- every `Read` uses up a scripted result, or everything is used up and it says `0, io.EOF` -/
theorem C16_multi_progress (rs : List Reader) :
    totalResults (multiRead rs).2 < totalResults rs ∨
      (totalResults rs = 0 ∧ multiRead rs = (([], .eof), [])) :=
  multiRead_progress rs

/-- QUIRK (harmless for files): a reader that ends with `0, io.EOF` is skipped within the same
    call, so runs of `0, nil` of neighbouring readers are glued together: here each reader
    alone shows one empty read in a row, the multi-reader two (`bufio.Scanner` gives up after
    100 consecutive empty reads; `io.MultiReader` behaves the same way). -/
theorem C16_multi_empty_runs_merge :
    let a : Reader := [([], .ok), ([], .eof)]
    let b : Reader := [([], .ok), ([7], .eof)]
    (multiRead [a, b]).1 = ([], .ok) ∧
    (multiRead (multiRead [a, b]).2).1 = ([], .ok) ∧
    inputStream [a, b] = ([7], .eof) := by decide

/-- `n > 0` together with `io.EOF` from a reader that is not the last: the data are passed on,
    the `io.EOF` is swallowed -/
theorem C16_multi_data_with_eof :
    multiRead [[([1, 2], .eof)], [([3], .eof)]] = (([1, 2], .ok), [[([3], .eof)]]) ∧
    multiRead [[([3], .eof)]] = (([3], .eof), []) := by decide

theorem C16_multi_example :
    inputStream [[([1], .ok), ([], .ok), ([2, 3], .eof), ([9], .ok)], [], [([], .eof)],
      [([4], .ok)], [([5], .err), ([6], .ok)], [([7], .eof)]] = ([1, 2, 3, 4, 5], .err) := by
  decide

/-- `makeInput`: nothing / "-" = standard input; several paths in order; a path that cannot be
    opened fails the whole command -/
theorem C16_makeInput_examples (stdin f g : Reader) :
    let fs : String → Option Reader := fun p => if p = "f" then some f else if p = "g" then some g else none
    makeInput [] stdin fs = some [stdin] ∧
    makeInput ["-"] stdin fs = some [stdin] ∧
    makeInput ["f"] stdin fs = some [f] ∧
    makeInput ["f", "-", "g"] stdin fs = some [f, stdin, g] ∧
    makeInput ["f", "nope", "g"] stdin fs = none := by
  simp [makeInput, makeInput.go]

/-- **C16 (several files = their concatenation).**  Without read errors, the tool run on a list
    of inputs is the tool run on the concatenation of their contents — no separator is
    inserted, so a line or a statement may continue from one file into the next. -/
theorem C16_files (compile : Bytes → Option Bytes) (rs : List Reader) (h : noErr rs = true) :
    cliFiles compile rs = cliMain compile (rs.map fun r => r.content.1).flatten := by
  unfold cliFiles cliStream cliMain
  rw [C16_multi_concat_noErr rs h]
  simp

/-- In general: the bytes up to and including the first failing reader are processed, and a
    failing reader makes the run fail like an over-long line does. -/
theorem C16_files_general (compile : Bytes → Option Bytes) (rs : List Reader) :
    cliFiles compile rs =
      cliRun compile (bufioLines (concatContents rs).1).1
        ((bufioLines (concatContents rs).1).2 || (concatContents rs).2) := by
  unfold cliFiles cliStream
  rw [C16_multi_concat]
  generalize concatContents rs = p
  obtain ⟨b, f⟩ := p
  have e1 : (Ending.err != Ending.eof) = true := by decide
  cases f with
  | true => simp [toEnding, e1]
  | false => simp [toEnding]

/-- `C16_files` needs `noErr`: a failing reader is reported -/
theorem C16_files_needs_noErr :
    cliFiles stub [[([], .err)]] ≠ cliMain stub ([[([], Status.err)]].map fun r => (Reader.content r).1).flatten := by
  decide +kernel

/-- two files, the cut in the middle of a statement and of a line -/
theorem C16_files_example :
    cliFiles stub [[(Bytes.ofString "let a;\nX", .ok), ([], .eof)], [], [(Bytes.ofString "Y;Z", .eof)]] =
      ⟨Bytes.ofString "let a;XY\n\nlet a;Z\n\n", 0, false⟩ := by
  decide +kernel

/-! ## 2. lines -/

/-- **C16 (nothing is lost on the way to the statement splitter).**  If no line is over-long,
    the text the loop splits (each delivered line followed by '\n') is the input, with a final
    '\n' supplied if the non-empty input lacks one, and every `\r\n` replaced by `\n`.
    (A final `\r` at the very end of an unterminated last line is dropped as well — that is
    `dropCR` in Go's `bufio.ScanLines` at EOF — and is covered: `ensureNL` first turns it into
    `\r\n`.) -/
theorem C16_lines_lossless (input : Bytes) (h : (bufioLines input).2 = false) :
    normalise (bufioLines input).1 = crlfToLf (ensureNL input) := by
  rw [bufioLines_eq] at h ⊢
  simp only at h ⊢
  have hall : ∀ l ∈ rawLines input, decide (l.length < maxLine) = true := by
    intro l hl
    have := (List.any_eq_false.mp h) l hl
    simp only [decide_eq_true_eq, Nat.not_le] at this
    simpa using this
  rw [takeWhile_all _ _ hall]
  have := crlfToLf_lines (rawLines input) (rawLines_no_nl input) []
  simp only [List.append_nil, crlfToLf] at this
  rw [← rawLines_join, this]

/-- Only `\r` bytes are dropped, the order is kept: every other byte of the input reaches the
    splitter. -/
theorem C16_lines_only_cr_dropped (input : Bytes) (h : (bufioLines input).2 = false) :
    (normalise (bufioLines input).1).Sublist (ensureNL input) ∧
    (normalise (bufioLines input).1).filter (· != 13) = (ensureNL input).filter (· != 13) := by
  rw [C16_lines_lossless input h]
  exact ⟨crlfToLf_sublist _, crlfToLf_filter _⟩

/-- input without `\r\n` (and not ending in `\r`) is passed on unchanged but for the final '\n' -/
theorem C16_lines_identity (input : Bytes) (h : (bufioLines input).2 = false)
    (hcr : ∀ u v, ensureNL input ≠ u ++ 13 :: 10 :: v) :
    normalise (bufioLines input).1 = ensureNL input := by
  rw [C16_lines_lossless input h, crlfToLf_id _ hcr]

/-- `ensureNL` in closed form -/
theorem C16_ensureNL (x : Bytes) :
    ensureNL x = if x = [] ∨ x.getLast? = some 10 then x else x ++ [10] := ensureNL_eq x

/-- **C16 (over-long line).**  If reading stops with an error, the input (final newline
    supplied) consists of '\n'-terminated lines `pre`, then a first line `long` of at least
    65536 bytes, then `rest`; exactly the lines of `pre` are delivered (each without its
    trailing `\r`), so the text that is split is the `\r\n`-normalised part of the input before
    the over-long line; the failure itself is reported (`C16_exit_iff`). -/
theorem C16_lines_prefix (input : Bytes) (h : (bufioLines input).2 = true) :
    ∃ pre long rest, (∀ l ∈ pre ++ long :: rest, (10 : UInt8) ∉ l) ∧
      ensureNL input = normalise (pre ++ long :: rest) ∧
      (∀ l ∈ pre, l.length < maxLine) ∧ maxLine ≤ long.length ∧
      (bufioLines input).1 = pre.map dropCR ∧
      normalise (bufioLines input).1 = crlfToLf (normalise pre) := by
  rw [bufioLines_eq] at h ⊢
  simp only at h ⊢
  obtain ⟨long, hmem, hlong⟩ := List.any_eq_true.mp h
  simp only [decide_eq_true_eq] at hlong
  rcases takeWhile_split (fun l : Bytes => decide (l.length < maxLine)) (rawLines input) with
    hall | ⟨pre, l0, rest, hsplit, htw, hpre, hl0⟩
  · have := hall long hmem
    simp only [decide_eq_true_eq] at this
    omega
  · have hnl : ∀ l ∈ pre ++ l0 :: rest, (10 : UInt8) ∉ l := by
      rw [← hsplit]; exact rawLines_no_nl input
    rw [htw]
    refine ⟨pre, l0, rest, hnl, ?_, ?_, ?_, rfl, ?_⟩
    · rw [← hsplit, rawLines_join]
    · intro l hl; simpa using hpre l hl
    · simp only [decide_eq_false_iff_not] at hl0; omega
    · have := crlfToLf_lines pre (fun l hl => hnl l (List.mem_append_left _ hl)) []
      simp only [List.append_nil, crlfToLf] at this
      exact this.symm

/-- reading fails iff some line (cut at '\n', before `dropCR`) has 65536 bytes or more -/
theorem C16_readErr_iff (input : Bytes) :
    (bufioLines input).2 = true ↔ ∃ l ∈ rawLines input, maxLine ≤ l.length := by
  rw [bufioLines_eq]
  simp

/-- `rawLines` is THE cut of the input at '\n' -/
theorem C16_rawLines_spec (input : Bytes) :
    (∀ l ∈ rawLines input, (10 : UInt8) ∉ l) ∧ normalise (rawLines input) = ensureNL input :=
  ⟨rawLines_no_nl input, rawLines_join input⟩

/-! ## 3. the tool in closed form -/

/-- **C16 (main, closed form).**  `cliMain` as a function of the input bytes: with
    `text` = the delivered lines each followed by '\n' (`C16_lines_lossless`: the input itself up
    to `\r\n` → `\n`), the result is `runPieces` on `splitStatements text`:
    the records of the terminated pieces (`steps`: each compiled with the prelude of the lets
    accepted before it), then the unterminated last piece if it has a token; standard output =
    the SQL of the successful queries in statement order, each followed by a blank line;
    `nErrors` = number of failed statements (+1 if the input could not be read completely);
    exit status non-zero iff `nErrors > 0`. -/
theorem C16_main_spec (compile : Bytes → Option Bytes) (input : Bytes) :
    cliMain compile input =
      runPieces compile (splitStatements (normalise (bufioLines input).1)) (bufioLines input).2 := by
  unfold cliMain
  simp only []
  rw [C16.C16_refines_all, specRun_eq_specFrom, specFrom_eq_runPieces]

/-- the same directly on the input bytes, when no line is over-long -/
theorem C16_main_spec_bytes (compile : Bytes → Option Bytes) (input : Bytes)
    (h : (bufioLines input).2 = false) :
    cliMain compile input =
      runPieces compile (splitStatements (crlfToLf (ensureNL input))) false := by
  rw [C16_main_spec, C16_lines_lossless input h, h]

/-- the specification `CliSpec.run` in closed form -/
theorem C16_spec_closed (compile : Bytes → Option Bytes) (lines : List Bytes) (readErr : Bool) :
    CliSpec.run compile lines readErr =
      runPieces compile (splitStatements (normalise lines)) readErr := by
  rw [specRun_eq_specFrom, specFrom_eq_runPieces]

/-- (a) the records are the terminated statements, in order … -/
theorem C16_steps_stmts (compile : Bytes → Option Bytes) (ss : List Bytes) :
    (steps compile [] ss).map (·.stmt) = ss := steps_stmts compile [] ss

/-- … each with the outcome of compiling it behind its prelude … -/
theorem C16_steps_res (compile : Bytes → Option Bytes) (ss : List Bytes) :
    ∀ st ∈ steps compile [] ss, st.res = outcome compile st.prelude st.stmt :=
  steps_res compile [] ss

/-- … (c) and the prelude of each record is exactly the lets accepted before it, each followed
    by ";\n": a failed let (or any query) is not in it. -/
theorem C16_steps_prelude (compile : Bytes → Option Bytes) (ss : List Bytes)
    (pre post : List Step) (st : Step) (h : steps compile [] ss = pre ++ st :: post) :
    st.prelude = (pre.filter (·.res.accepted)).flatMap fun p => p.stmt ++ Bytes.ofString ";\n" := by
  have := steps_prelude compile [] ss pre post st h
  simpa [preludeAfter] using this

/-- (a) output order = statement order, each SQL followed by a blank line -/
theorem C16_output_order (compile : Bytes → Option Bytes) (input : Bytes) :
    (cliMain compile input).out =
      ((allOutcomes compile (splitStatements (normalise (bufioLines input).1))).filterMap
        Outcome.sql?).flatMap (· ++ [10, 10]) := by
  rw [C16_main_spec]; rfl

/-- (c) a failed statement leaves the prelude of the next statement unchanged -/
theorem C16_failed_let_not_in_prelude (compile : Bytes → Option Bytes) (ss : List Bytes)
    (pre post : List Step) (st nxt : Step) (h : steps compile [] ss = pre ++ st :: nxt :: post)
    (hf : st.res.failed = true) : nxt.prelude = st.prelude := by
  have h1 := steps_prelude compile [] ss pre (nxt :: post) st h
  have h2 := steps_prelude compile [] ss (pre ++ [st]) post nxt (by simpa using h)
  rw [h2, preludeAfter_append, ← h1]
  simp [preludeAfter, failed_not_accepted hf]

/-- the result with one more logged error -/
def oneMoreError (r : CliResult) : CliResult := ⟨r.out, r.nErrors + 1, true⟩

/-- **C16 (b) (a failed statement is isolated).**  Take any sequence of statement pieces and
    insert, anywhere before the last piece, a statement `s` that fails behind the prelude it
    meets (a query or a `let`): the output and every other statement's treatment are unchanged;
    only one more error is logged and the exit status is non-zero. -/
theorem C16_failure_isolated (compile : Bytes → Option Bytes) (pre post : List Bytes)
    (s : Bytes) (readErr : Bool) (hpost : post ≠ [])
    (hf : (outcome compile (preludeAfter [] (steps compile [] pre)) s).failed = true) :
    runPieces compile (pre ++ s :: post) readErr =
      oneMoreError (runPieces compile (pre ++ post) readErr) := by
  obtain ⟨A, B, h1, h2⟩ := allOutcomes_insert_failed compile pre post s hpost hf
  unfold runPieces oneMoreError
  simp only [h1, h2]
  have e1 : sqlText (A ++ outcome compile (preludeAfter [] (steps compile [] pre)) s :: B) =
      sqlText (A ++ B) := by
    simp [sqlText, List.filterMap_append, failed_no_sql hf]
  have e2 : nFailed (A ++ outcome compile (preludeAfter [] (steps compile [] pre)) s :: B) =
      nFailed (A ++ B) + 1 := by
    simp [nFailed, List.countP_append, hf]; omega
  rw [e1, e2]
  simp only [CliResult.mk.injEq, true_and]
  constructor
  · omega
  · simp; omega

/-- replacing a failing statement by another failing statement changes nothing at all -/
theorem C16_failure_replace (compile : Bytes → Option Bytes) (pre post : List Bytes)
    (s s' : Bytes) (readErr : Bool) (hpost : post ≠ [])
    (hf : (outcome compile (preludeAfter [] (steps compile [] pre)) s).failed = true)
    (hf' : (outcome compile (preludeAfter [] (steps compile [] pre)) s').failed = true) :
    runPieces compile (pre ++ s :: post) readErr = runPieces compile (pre ++ s' :: post) readErr := by
  rw [C16_failure_isolated compile pre post s readErr hpost hf,
    C16_failure_isolated compile pre post s' readErr hpost hf']

/-- **C16 (d) (exit status).**  The exit status is non-zero iff the input could not be read
    completely or some statement failed. -/
theorem C16_exit_iff (compile : Bytes → Option Bytes) (input : Bytes) :
    (cliMain compile input).exitNonZero = true ↔
      (bufioLines input).2 = true ∨
      ∃ o ∈ allOutcomes compile (splitStatements (normalise (bufioLines input).1)),
        o.failed = true := by
  rw [C16_main_spec]
  unfold runPieces
  simp only [decide_eq_true_eq]
  generalize allOutcomes compile _ = all
  have hpos : 0 < nFailed all ↔ ∃ o ∈ all, o.failed = true := by
    simp [nFailed, List.countP_pos_iff]
  cases (bufioLines input).2 with
  | true => simp
  | false => simpa using hpos

/-- `nErrors` = failed statements, plus one for a read error -/
theorem C16_nErrors (compile : Bytes → Option Bytes) (input : Bytes) :
    (cliMain compile input).nErrors =
      nFailed (allOutcomes compile (splitStatements (normalise (bufioLines input).1))) +
        (if (bufioLines input).2 then 1 else 0) := by
  rw [C16_main_spec]; rfl

/-- the hypothesis of `C16_main_spec_bytes` is needed: after an over-long line (65536 bytes
    without '\n') the tool reports a failure even if `compile` accepts everything -/
theorem C16_main_spec_bytes_needs_short :
    ∃ (compile : Bytes → Option Bytes) (input : Bytes),
      cliMain compile input ≠ runPieces compile (splitStatements (crlfToLf (ensureNL input))) false := by
  refine ⟨fun _ => some [], List.replicate maxLine 97, fun heq => ?_⟩
  have hne : List.replicate maxLine (97 : UInt8) ≠ [] := by
    intro h0
    have := congrArg List.length h0
    rw [List.length_replicate] at this
    exact absurd this (by decide)
  have hnl : (10 : UInt8) ∉ List.replicate maxLine (97 : UInt8) := by
    intro hm; have := List.eq_of_mem_replicate hm; simp at this
  have herr : (bufioLines (List.replicate maxLine 97)).2 = true := by
    rw [bufioLines_eq]
    simp only [rawLines_one_line _ hne hnl]
    simp
  have hexit := congrArg CliResult.exitNonZero heq
  rw [(C16_exit_iff _ _).mpr (Or.inl herr)] at hexit
  have hr : ∀ pieces, (runPieces (fun _ => some []) pieces false).exitNonZero =
      decide (nFailed (allOutcomes (fun _ => some []) pieces) + 0 > 0) := fun _ => rfl
  rw [hr, nFailed_of_total _ (fun _ => rfl)] at hexit
  simp at hexit

/-- the pieces that are processed: every terminated piece (even an empty one), and the last
    piece iff it has a token -/
def processed (pieces : List Bytes) : List Bytes :=
  pieces.dropLast ++ (if (scan (pieces.getLast?.getD [])).isEmpty then [] else [pieces.getLast?.getD []])

/-- **C16 (e) (nothing is dropped silently).**  Every piece with at least one token is
    processed; every processed piece has exactly one outcome — its SQL is written, or it is an
    accepted `let`, or it is counted as an error:
    #processed = #SQL outputs + #accepted lets + #failures. -/
theorem C16_nothing_dropped (compile : Bytes → Option Bytes) (pieces : List Bytes) :
    (∀ p ∈ pieces, scan p ≠ [] → p ∈ processed pieces) ∧
    (allOutcomes compile pieces).length = (processed pieces).length ∧
    (processed pieces).length =
      ((allOutcomes compile pieces).filterMap Outcome.sql?).length +
      (allOutcomes compile pieces).countP Outcome.accepted +
      nFailed (allOutcomes compile pieces) := by
  have hlen : (allOutcomes compile pieces).length = (processed pieces).length := by
    unfold allOutcomes processed finalOutcome
    simp only [List.length_append, List.length_map, steps_length]
    split <;> rfl
  refine ⟨?_, hlen, ?_⟩
  · intro p hp htok
    unfold processed
    rcases List.eq_nil_or_concat pieces with rfl | ⟨init, last, rfl⟩
    · simp at hp
    · rw [List.concat_eq_append] at hp ⊢
      simp only [List.dropLast_concat, List.getLast?_concat, Option.getD_some, List.mem_append]
      rcases List.mem_append.mp hp with hp | hp
      · exact Or.inl hp
      · right
        simp only [List.mem_singleton] at hp
        subst hp
        have : (scan p).isEmpty = false := by
          cases hs : scan p with
          | nil => exact absurd hs htok
          | cons _ _ => rfl
        simp [this]
  · rw [← hlen]; exact outcome_trichotomy _

/-- (e) for the tool: with the whole input read, the number of logged errors is the number of
    processed pieces that produced neither SQL nor an accepted `let`. -/
theorem C16_nothing_dropped_main (compile : Bytes → Option Bytes) (input : Bytes)
    (h : (bufioLines input).2 = false) :
    let pieces := splitStatements (crlfToLf (ensureNL input))
    (processed pieces).length =
      ((allOutcomes compile pieces).filterMap Outcome.sql?).length +
      (allOutcomes compile pieces).countP Outcome.accepted +
      (cliMain compile input).nErrors := by
  intro pieces
  have h1 := (C16_nothing_dropped compile pieces).2.2
  have h2 := C16_nErrors compile input
  rw [C16_lines_lossless input h, h] at h2
  simp only [Bool.false_eq_true, if_false, Nat.add_zero] at h2
  rw [h2]; exact h1

/-- `C16_nothing_dropped_main` needs "no read error": the read error is one more logged error
    that belongs to no piece -/
theorem C16_nothing_dropped_main_needs_read :
    ∃ (compile : Bytes → Option Bytes) (input : Bytes),
      let pieces := splitStatements (normalise (bufioLines input).1)
      (processed pieces).length ≠
        ((allOutcomes compile pieces).filterMap Outcome.sql?).length +
        (allOutcomes compile pieces).countP Outcome.accepted +
        (cliMain compile input).nErrors := by
  refine ⟨fun _ => some [], List.replicate maxLine 97, ?_⟩
  intro pieces heq
  have h1 := (C16_nothing_dropped (fun _ => some []) pieces).2.2
  have h2 := C16_nErrors (fun _ => some []) (List.replicate maxLine 97)
  rw [lines_lossless_needs_short.1, nFailed_of_total _ (fun _ => rfl)] at h2
  rw [nFailed_of_total _ (fun _ => rfl)] at h1
  rw [h2] at heq
  simp only [if_true] at heq
  omega

/-- `C16_failure_replace` needs the replacement to fail as well -/
theorem C16_failure_replace_needs_failure :
    runPieces stub ([Bytes.ofString "X"] ++ Bytes.ofString "!" :: [[]]) false ≠
      runPieces stub ([Bytes.ofString "X"] ++ Bytes.ofString "Y" :: [[]]) false := by
  decide +kernel

end Pql.CliIO
