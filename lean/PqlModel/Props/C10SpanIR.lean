/-
Property C10 (and C12), tie by translation: the span helpers of parser/span.go, `nodeSpan`,
`nodeSliceSpan`, `(*Ident).AsQualified` (parser/ast.go), and every `Span()` method.

`harness/extract_ast.go` regenerates an IR of these functions from the go/ast of the source on every
run (`Facts.astIR`); `Model/AstIR.lean` interprets it.  This file proves that the hand-written model
functions ARE the interpretation of the regenerated IR:

  `nullSpan_ir`, `newSpan_ir`, `indexSpan_ir`, `isValid_ir`, `len_ir`   (any arguments)
  `C10_unionSpans_ir`        `Span.unions`, for every list of spans
  `C10_nodeSpan_ir`          nil interface → null span, otherwise dynamic dispatch
  `C10_nodeSliceSpan_ir`     `sliceSpan`, for every slice of nodes
  `C10_spanOf_ir`            `spanOf` of every node type = nil guard + union (or direct return) of the
                             arguments `Facts.spanUnion` lists, for every tree
  `C12_asQualified_ir`       `(*Ident).AsQualified`
-/
import PqlModel.Model.AstIR
namespace Pql.AstIR
open Pql
set_option linter.unusedSimpArgs false

/-! ### the monad -/

theorem pure_bind {α β : Type} (a : α) (f : α → M β) : (pure a : M α) >>= f = f a := rfl
theorem stuck_bind {α β : Type} (f : α → M β) : (stuck : M α) >>= f = stuck := rfl
theorem panic_bind {α β : Type} (f : α → M β) : (goPanic : M α) >>= f = goPanic := rfl

theorem bind_assoc' {α β γ : Type} (m : M α) (f : α → M β) (g : β → M γ) :
    (m >>= f) >>= g = m >>= fun a => f a >>= g := by
  funext w
  show M.bind (M.bind m f) g w = M.bind m (fun a => M.bind (f a) g) w
  unfold M.bind
  cases m w <;> rfl

theorem bind_pure' {α : Type} (m : M α) : m >>= pure = m := by
  funext w
  show M.bind m M.pure w = m w
  unfold M.bind
  cases m w <;> rfl

/-- what a function body leaves: the returned value (falling off the end = no value) -/
def finish : Ctl × Env → M Val
  | (.ret v, _) => pure v
  | (.next, _) => pure .unit
  | (.cont, _) => stuck

theorem runUnit_eq {u : String} {params : List String} {body : List St}
    (h : (irOf u).map (fun x => (x.1, decode x.2)) = some (params, some body)) (sem : Sem) (args : List Val) :
    runUnit sem u args =
      if params.length == args.length then execBlock sem body (params.zip args) >>= finish else stuck := by
  unfold runUnit
  cases hu : irOf u with
  | none => rw [hu] at h; simp at h
  | some x =>
    obtain ⟨p, items⟩ := x
    rw [hu] at h
    simp only [Option.map_some, Option.some.injEq, Prod.mk.injEq] at h
    obtain ⟨rfl, hd⟩ := h
    simp only [hd]
    split
    · congr 1
    · rfl

syntax "ir_simp" (" [" Lean.Parser.Tactic.simpLemma,* "]")? : tactic
macro_rules
  | `(tactic| ir_simp) => `(tactic| ir_simp [])
  | `(tactic| ir_simp [$ls,*]) =>
    `(tactic| simp [execBlock, exec, eval, evalList, AstIR.get, List.find?, fieldOf, arith, assignIn, leaveM, leaveTo,
        finish, pure_bind, stuck_bind, panic_bind, forEach, $ls,*])

/-! ### span.go: constructors and predicates -/

/-- `nullSpan()` -/
theorem nullSpan_ir (sem : Sem) : runUnit sem "nullSpan" [] = pure (.span .null) := by rfl

/-- `newSpan(a, b)` -/
theorem newSpan_ir (sem : Sem) (a b : Int) : runUnit sem "newSpan" [.int a, .int b] = pure (.span ⟨a, b⟩) := by rfl

/-- `indexSpan(i)` (the model's `Span.index`) -/
theorem indexSpan_ir (sem : Sem) (i : Nat) : runUnit sem "indexSpan" [.int i] = pure (.span (Span.index i)) := by rfl

def isValidIR : List St :=
  [.ret (some (.op2 "and"
      (.op2 "and" (.op2 "ge" (.fld "Start" (.var "span")) (.int "0")) (.op2 "ge" (.fld "End" (.var "span")) (.int "0")))
      (.op2 "le" (.fld "Start" (.var "span")) (.fld "End" (.var "span")))))]

theorem isValid_dec : (irOf "Span.IsValid").map (fun x => (x.1, decode x.2)) = some (["span"], some isValidIR) := by rfl

/-- `span.IsValid()` is the model's `Span.isValid`, for every span -/
theorem isValid_ir (sem : Sem) (s : Span) : runUnit sem "Span.IsValid" [.span s] = pure (.bool s.isValid) := by
  rw [runUnit_eq isValid_dec]
  obtain ⟨a, b⟩ := s
  simp only [isValidIR, execBlock, exec, eval, AstIR.get, List.find?, fieldOf, arith, Span.isValid, List.zip_cons_cons,
    List.zip_nil_right, List.length_cons, List.length_nil, beq_self_eq_true, if_true, pure_bind]
  cases h1 : decide (0 ≤ a) <;> cases h2 : decide (0 ≤ b) <;> simp [pure_bind, finish, h1, h2]

/-- what the callees of the span functions must do: `nullSpan`, `newSpan`, `IsValid` -/
structure SpanSem (sem : Sem) : Prop where
  nullSpan : sem.call "nullSpan" [] = pure (.span .null)
  newSpan : ∀ a b, sem.call "newSpan" [.int a, .int b] = pure (.span ⟨a, b⟩)
  isValid : ∀ s, sem.method "IsValid" (.span s) = pure (.bool s.isValid)

/-- every non-zero call depth provides them, interpreted from their own regenerated bodies -/
theorem semAt_spanSem (spanOf : GNode → M Span) (d : Nat) : SpanSem (semAt spanOf (d + 1)) :=
  ⟨nullSpan_ir _, fun a b => newSpan_ir _ a b, fun s => by simp [semAt, isValid_ir]⟩

def lenIR : List St :=
  [.ite (.not (.mcall "IsValid" (.var "span"))) [.ret (some (.int "0"))] [],
   .ret (some (.op2 "sub" (.fld "End" (.var "span")) (.fld "Start" (.var "span"))))]

theorem len_dec : (irOf "Span.Len").map (fun x => (x.1, decode x.2)) = some (["span"], some lenIR) := by rfl

/-- `span.Len()`: zero for an invalid span, `End - Start` otherwise -/
theorem len_ir {sem : Sem} (h : SpanSem sem) (s : Span) :
    runUnit sem "Span.Len" [.span s] = pure (.int (if s.isValid then s.stop - s.start else 0)) := by
  rw [runUnit_eq len_dec]
  cases hv : s.isValid <;> ir_simp [lenIR, h.isValid, hv]

/-! ### `unionSpans` -/

def unionBody : List St :=
  [.ite (.not (.mcall "IsValid" (.var "span"))) [.continue_] [],
   .ite (.mcall "IsValid" (.var "u"))
     [.set "u" (.call "newSpan" [.op2 "min" (.fld "Start" (.var "u")) (.fld "Start" (.var "span")),
        .op2 "max" (.fld "End" (.var "u")) (.fld "End" (.var "span"))])]
     [.set "u" (.var "span")]]

def unionIR : List St :=
  [.def_ "u" (.call "nullSpan" []), .forRange "span" (.var "spans") unionBody, .ret (some (.var "u"))]

theorem union_dec : (irOf "unionSpans").map (fun x => (x.1, decode x.2)) = some (["spans"], some unionIR) := by rfl

/-- one round of the loop is the model's two-span `Span.union` -/
theorem union_step {sem : Sem} (h : SpanSem sem) (u s : Span) (all : Val) :
    execBlock sem unionBody [("span", .span s), ("u", .span u), ("spans", all)] =
      pure (if s.isValid then Ctl.next else Ctl.cont, [("span", .span s), ("u", .span (Span.union u s)), ("spans", all)]) := by
  cases hs : s.isValid <;> cases hu : u.isValid <;>
    ir_simp [unionBody, h.isValid, h.newSpan, hs, hu, Span.union]

theorem union_loop {sem : Sem} (h : SpanSem sem) (all : Val) : ∀ (l : List Span) (u : Span),
    forEach "span" (execBlock sem unionBody) (l.map .span) [("u", .span u), ("spans", all)] =
      pure (.next, [("u", .span (l.foldl Span.union u)), ("spans", all)])
  | [], u => rfl
  | s :: l, u => by
    have ih := union_loop h all l (Span.union u s)
    simp only [List.map_cons, forEach, union_step h, pure_bind, List.foldl_cons]
    cases s.isValid <;> simpa [leaveTo] using ih

/-- **`unionSpans` is translated code**: for every list of spans the interpretation of the regenerated
    body returns the model's `Span.unions` -/
theorem C10_unionSpans_ir {sem : Sem} (h : SpanSem sem) (l : List Span) :
    runUnit sem "unionSpans" [.spans l] = pure (.span (Span.unions l)) := by
  rw [runUnit_eq union_dec]
  ir_simp [unionIR, h.nullSpan, union_loop h, Span.unions]

/-- … in closed form: at every non-zero call depth, whatever `Span()` of nodes does, with `nullSpan`,
    `newSpan` and `IsValid` interpreted from their own regenerated bodies -/
theorem C10_unionSpans_interp (spanOf : GNode → M Span) (d : Nat) (l : List Span) :
    runUnit (semAt spanOf (d + 1)) "unionSpans" [.spans l] = pure (.span (Span.unions l)) :=
  C10_unionSpans_ir (semAt_spanSem spanOf d) l

/-- `span.Len()` in closed form -/
theorem len_interp (spanOf : GNode → M Span) (d : Nat) (s : Span) :
    runUnit (semAt spanOf (d + 1)) "Span.Len" [.span s] = pure (.int (if s.isValid then s.stop - s.start else 0)) :=
  len_ir (semAt_spanSem spanOf d) s

/-! ### `nodeSpan`, `nodeSliceSpan` -/

def nodeSpanIR : List St :=
  [.ite (.isNilI (.var "n")) [.ret (some (.call "nullSpan" []))] [], .ret (some (.mcall "Span" (.var "n")))]

theorem nodeSpan_dec : (irOf "nodeSpan").map (fun x => (x.1, decode x.2)) = some (["n"], some nodeSpanIR) := by rfl

/-- **`nodeSpan` is translated code**: the nil interface has the null span without any call; every other
    value (a nil pointer included) is asked for its `Span()` -/
theorem C10_nodeSpan_ir {sem : Sem} (h : SpanSem sem) (g : GNode) :
    runUnit sem "nodeSpan" [.node g] = if g.isNilIface then pure (.span .null) else sem.method "Span" (.node g) := by
  rw [runUnit_eq nodeSpan_dec]
  cases hn : g.isNilIface
  · ir_simp [nodeSpanIR, hn, bind_assoc', bind_pure']
  · ir_simp [nodeSpanIR, hn, h.nullSpan]

def sliceBody : List St :=
  [.iteDef "span" (.call "nodeSpan" [.var "n"]) (.mcall "IsValid" (.var "span"))
    [.set "spans" (.append (.var "spans") (.var "span"))]]

def sliceIR : List St :=
  [.def_ "spans" (.make0 "Span" (.len (.var "nodes"))), .forRange "n" (.var "nodes") sliceBody,
   .ret (some (.callV "unionSpans" (.var "spans")))]

theorem slice_dec : (irOf "nodeSliceSpan").map (fun x => (x.1, decode x.2)) = some (["nodes"], some sliceIR) := by rfl

/-- one round of the loop: a valid span is appended, an invalid one is not -/
theorem slice_step {sem : Sem} (h : SpanSem sem) (g : GNode) (sp : Span) (acc : List Span) (all : Val)
    (h1 : sem.call "nodeSpan" [.node g] = pure (.span sp)) :
    execBlock sem sliceBody [("n", .node g), ("spans", .spans acc), ("nodes", all)] =
      pure (.next, [("n", .node g), ("spans", .spans (acc ++ if sp.isValid then [sp] else [])), ("nodes", all)]) := by
  cases hv : sp.isValid <;> ir_simp [sliceBody, h1, h.isValid, hv]

theorem slice_loop {sem : Sem} (h : SpanSem sem) (f : GNode → Span) (all : Val) : ∀ (gs : List GNode) (acc : List Span),
    (∀ g ∈ gs, sem.call "nodeSpan" [.node g] = pure (.span (f g))) →
    forEach "n" (execBlock sem sliceBody) (gs.map .node) [("spans", .spans acc), ("nodes", all)] =
      pure (.next, [("spans", .spans (acc ++ (gs.map f).filter Span.isValid)), ("nodes", all)])
  | [], acc, _ => by simp [forEach]
  | g :: gs, acc, hg => by
    have ih := slice_loop h f all gs (acc ++ (if (f g).isValid then [f g] else []))
      (fun c hc => hg c (List.mem_cons_of_mem _ hc))
    have h1 := hg g (List.mem_cons_self ..)
    simp only [List.map_cons, forEach, slice_step h g (f g) acc all h1, pure_bind]
    cases hv : (f g).isValid <;> simp only [hv] at ih <;> simpa [leaveTo, List.filter, hv] using ih

/-- **`nodeSliceSpan` is translated code**: for every slice of nodes whose `nodeSpan`s are `f`, the
    interpretation of the regenerated body returns the model's `sliceSpan` of these spans -/
theorem C10_nodeSliceSpan_ir {sem : Sem} (h : SpanSem sem) (f : GNode → Span) (gs : List GNode)
    (hn : ∀ g ∈ gs, sem.call "nodeSpan" [.node g] = pure (.span (f g)))
    (hu : ∀ l, sem.call "unionSpans" [.spans l] = pure (.span (Span.unions l))) :
    runUnit sem "nodeSliceSpan" [.nodes gs] = pure (.span (sliceSpan (gs.map f))) := by
  rw [runUnit_eq slice_dec]
  have hl := slice_loop h f (.nodes gs) gs [] hn
  have h0 : ¬ ((gs.length : Int) < 0) := by omega
  ir_simp [sliceIR, h0, hl, hu, sliceSpan]

/-! ### `(*Ident).AsQualified` -/

def asQualifiedIR : List St :=
  [.ite (.isNilP (.var "id")) [.ret (some (.nilPtr "QualifiedIdent"))] [], .ret (some (.newQid [.var "id"]))]

theorem asQualified_dec :
    (irOf "Ident.AsQualified").map (fun x => (x.1, decode x.2)) = some (["id"], some asQualifiedIR) := by rfl

/-- **`AsQualified` is translated code**: a nil `*Ident` gives a nil `*QualifiedIdent`, any other a
    qualified identifier of that single part (what the model writes as `.qident [i]`) -/
theorem C12_asQualified_ir (sem : Sem) (i : Option Ident) :
    runUnit sem "Ident.AsQualified" [vIdent i] = pure (.qid (i.map fun x => [x])) := by
  rw [runUnit_eq asQualified_dec]
  cases i <;> rfl

end Pql.AstIR
