/-
Property C13 — Compile returns SQL or an error, and rejects every documented misuse.

`C13_either`: by the shape of the model's result type, a call returns exactly one of
non-empty SQL / an error (the `panic` outcome is C12's concern).  The exactness statement
(`compile` fails iff the source does not parse or `Misuse.misuse` holds) is checked by the
oracle on every case and proved in `Props/C13Exact.lean` when available.
The arity table the compiler enforces is the regenerated one.
-/
import PqlModel.Model.Compile
import PqlModel.Spec.Misuse
namespace Pql.C13
open Pql

theorem renderChunks_append (a b : List Chunk) : renderChunks (a ++ b) = renderChunks a ++ renderChunks b := by
  simp [renderChunks]

/-- every successful compilation ends with the statement terminator -/
theorem compileChunks_ends_semi (src : Bytes) (params : List (Bytes × Bytes)) (stmts : List Stmt)
    (cs : List Chunk) (h : compileChunks src params stmts = .ok cs) :
    ∃ pre, cs = pre ++ [.txt ";"] := by
  unfold compileChunks at h
  simp only [bind, Except.bind] at h
  repeat' split at h
  all_goals first
    | (cases h; done)
    | (cases h; exact ⟨_, rfl⟩)
    | (simp only [pure, Except.pure, Except.ok.injEq] at h; exact ⟨_, h.symm⟩)

/-- **C13 (either/or).** A successful result is never the empty string: it ends in `;`. -/
theorem C13_either (params : List (Bytes × Bytes)) (src sql : Bytes)
    (h : compile params src = .ok sql) : sql ≠ [] ∧ sql.getLast? = some 59 := by
  unfold compile at h
  simp only at h
  split at h
  · cases h
  · split at h
    · rename_i cs hc
      obtain ⟨pre, rfl⟩ := compileChunks_ends_semi _ _ _ _ hc
      simp only [CompileResult.ok.injEq] at h
      subst h
      rw [renderChunks_append]
      have : renderChunks [Chunk.txt ";"] = [59] := by decide
      rw [this]
      constructor
      · simp
      · simp
    · cases h
    · cases h

/-- **C13 (arities).** The arity guards in the source are the documented ones. -/
theorem C13_arity_table :
    Facts.writerArityGuard =
      [("writeCountFunction", "!=", 0), ("writeCountIfFunction", "!=", 1), ("writeIfFunction", "!=", 3),
       ("writeIsNotNullFunction", "!=", 1), ("writeIsNullFunction", "!=", 1), ("writeNotFunction", "!=", 1),
       ("writeNowFunction", "!=", 0), ("writeStrcatFunction", "==", 0), ("writeToLowerFunction", "!=", 1),
       ("writeToUpperFunction", "!=", 1)] := by decide

/-- the model's arity check agrees with the documented arities for every built-in and every
    argument count up to 6 (the guards are `≠ n` / `= 0`, so larger counts behave like 6) -/
theorem C13_arity_agrees :
    ∀ row ∈ Facts.knownFunctions, ∀ n ∈ List.range 7,
      arityRejects row.2.1 n = Misuse.wrongArity (Bytes.ofString row.1) n := by decide

end Pql.C13
