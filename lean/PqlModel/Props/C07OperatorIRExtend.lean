/-
Property C07, tie by translation: `(*parser).extendColumn`, `(*parser).summarizeColumn` (the model's
`pNamedColumn`) and `(*parser).extendOperator` (with the column loop `pExtendCols`) are the interpretation
of their regenerated bodies (`C07_extendColumn_ir`, `C07_summarizeColumn_ir`, `C07_extendOperator_ir`).
-/
import PqlModel.Props.C07OperatorIRSort
namespace Pql.OpIR
open Pql
set_option linter.unusedSimpArgs false

/-- the interpretation of a function `func (p *parser) f() (*Node, error)` -/
def runP {α : Type} (conv : List Rec → Val → Option α) (nodeVar : String) (c : PCtx) (body : List IStmt) (fuel : Nat)
    (ts : List Token) : M (PRes α) :=
  result conv nodeVar none (run (envAt c) body fuel [("p", .parser ts none)])

theorem newRec_extendColumn : newRec "ExtendColumn" =
    some ⟨"ExtendColumn", [("Name", .ident none), ("Assign", .span .zero), ("X", .expr .nil)]⟩ := by rfl
theorem newRec_summarizeColumn : newRec "SummarizeColumn" =
    some ⟨"SummarizeColumn", [("Name", .ident none), ("Assign", .span .zero), ("X", .expr .nil)]⟩ := by rfl
theorem kind_assign : TokKind.ofGoName "TokenAssign" = some .assign := by decide

theorem mkOpaque_notNF (es : Errs) : isNF (mkOpaque es) = false := by
  induction es with
  | nil => rfl
  | cons e es ih => simp [isNF, mkOpaque]

theorem extendColumn_run (c : PCtx) (fuel : Nat) (ts : List Token) :
    runP toColumn "col" c extendColumnBody fuel ts =
      .ok ⟨(pNamedColumn c fuel ts).val, (pNamedColumn c fuel ts).errs, (pNamedColumn c fuel ts).rest⟩ := by
  unfold extendColumnBody pNamedColumn pIdent runP
  rcases ts with _ | ⟨t, rest⟩
  · ir_simp [newRec_extendColumn, toColumn, pIdent, nfAt, isNF]
  · by_cases hk : t.kind = .ident ∨ t.kind = .qident
    · rcases rest with _ | ⟨a, rest2⟩
      · ir_simp [newRec_extendColumn, toColumn, pIdent, hk, kind_assign, eofTok]
      · by_cases ha : a.kind = .assign
        · ir_simp [newRec_extendColumn, toColumn, pIdent, hk, kind_assign, ha, Token.span]
        · ir_simp [newRec_extendColumn, toColumn, pIdent, hk, kind_assign, ha]
    · ir_simp [newRec_extendColumn, toColumn, pIdent, hk, nfAt, isNF]

theorem summarizeColumn_run (c : PCtx) (fuel : Nat) (ts : List Token) :
    runP toColumn "col" c summarizeColumnBody fuel ts =
      .ok ⟨(pNamedColumn c fuel ts).val, (pNamedColumn c fuel ts).errs, (pNamedColumn c fuel ts).rest⟩ := by
  unfold summarizeColumnBody pNamedColumn pIdent runP
  rcases ts with _ | ⟨t, rest⟩
  · ir_simp [newRec_summarizeColumn, toColumn, pIdent, nfAt, isNF]
  · by_cases hk : t.kind = .ident ∨ t.kind = .qident
    · rcases rest with _ | ⟨a, rest2⟩
      · ir_simp [newRec_summarizeColumn, toColumn, pIdent, hk, kind_assign, eofTok]
      · by_cases ha : a.kind = .assign
        · ir_simp [newRec_summarizeColumn, toColumn, pIdent, hk, kind_assign, ha, Token.span]
        · ir_simp [newRec_summarizeColumn, toColumn, pIdent, hk, kind_assign, ha]
    · ir_simp [newRec_summarizeColumn, toColumn, pIdent, hk, nfAt, isNF]

/-- **extendColumn**: the model's `pNamedColumn` is the interpretation of the regenerated body -/
theorem C07_extendColumn_ir (c : PCtx) (fuel : Nat) (ts : List Token) :
    runP toColumn "col" c (bodyOf "extendColumn") fuel ts = .ok (pNamedColumn c fuel ts) := by
  simp only [bodyOf, extendColumn_ir, Option.map_some, Option.getD_some, extendColumn_run]

/-- **summarizeColumn**: likewise -/
theorem C07_summarizeColumn_ir (c : PCtx) (fuel : Nat) (ts : List Token) :
    runP toColumn "col" c (bodyOf "summarizeColumn") fuel ts = .ok (pNamedColumn c fuel ts) := by
  simp only [bodyOf, summarizeColumn_ir, Option.map_some, Option.getD_some, summarizeColumn_run]

/-! ### extendOperator -/

theorem newRec_extend : newRec "ExtendOperator" =
    some ⟨"ExtendOperator", [("Pipe", .span .zero), ("Keyword", .span .zero), ("Cols", .list [])]⟩ := by rfl

def colVals (acc : List Column) : List Val := acc.map fun x => .col x

theorem toColumns_vals (h : List Rec) : ∀ acc : List Column, toColumns h (colVals acc) = some acc
  | [] => rfl
  | x :: r => by
    have := toColumns_vals h r
    simp only [colVals] at this
    simp [colVals, toColumns, toColumn, this]

theorem colVals_snoc (acc : List Column) (x : Column) : colVals acc ++ [.col x] = colVals (acc ++ [x]) := by
  simp [colVals]

/-- the state in the column loop -/
def extendSt (pipe kws : Span) (kw pt : Token) (acc : List Column) (ts : List Token) (u : Option (List Token)) : St :=
  ⟨[("op", .ref 0), ("keyword", .tok kw), ("pipe", .tok pt), ("p", .parser ts u)],
   [⟨"ExtendOperator", [("Pipe", .span pipe), ("Keyword", .span kws), ("Cols", .list (colVals acc))]⟩]⟩

theorem extend_loop (c : PCtx) (fuel : Nat) (pipe kws : Span) (kw pt : Token) :
    ∀ (n : Nat) (acc : List Column) (ts : List Token) (u : Option (List Token)),
      result toOp "op" none
          (runLoop false (execBlock (envAt c) (lastLoop extendOperatorBody)) n fuel (extendSt pipe kws kw pt acc ts u)) =
        .ok ⟨.extend pipe kws (pExtendCols c fuel n acc ts).val, (pExtendCols c fuel n acc ts).errs,
          (pExtendCols c fuel n acc ts).rest⟩
  | 0, acc, ts, u => by
    simp [runLoop, result_fuel, extendSt, pExtendCols, St.parser, St.get, toOp, recToOp, listOf, toColumns_vals, optM,
      bind, Except.bind, pure, Except.pure]
  | n + 1, acc, ts, u => by
    have ih := extend_loop c fuel pipe kws kw pt n
    simp only [lastLoop, extendOperatorBody, List.getLast?_cons_cons, List.getLast?_singleton, extendSt, envAt] at ih ⊢
    unfold runLoop pExtendCols
    cases he : (pNamedColumn c fuel ts).errs <;> rcases hr : (pNamedColumn c fuel ts).rest with _ | ⟨t, rest⟩
    all_goals first
      | (by_cases hk : t.kind = .comma <;> ir_simp [he, hr, hk, kind_comma, eofTok, colVals_snoc, ih, toColumns_vals])
      | ir_simp [he, hr, kind_comma, eofTok, colVals_snoc, ih, toColumns_vals]

theorem pOperator_extend (c : PCtx) (fuel : Nat) (pipe : Span) (kw : Token) (ts : List Token) :
    pOperator c (fuel + 1) pipe (kwTok "extend" kw) ts =
      some ⟨.extend pipe kw.span (pExtendCols c fuel (ts.length + 1) [] ts).val, (pExtendCols c fuel (ts.length + 1) [] ts).errs,
        (pExtendCols c fuel (ts.length + 1) [] ts).rest⟩ := by
  dispatch_simp

theorem extendOperator_run (c : PCtx) (fuel : Nat) (pipe kw : Token) (ts : List Token) :
    runOp c extendOperatorBody fuel pipe kw ts =
      .ok ⟨.extend pipe.span kw.span (pExtendCols c fuel (ts.length + 1) [] ts).val,
        (pExtendCols c fuel (ts.length + 1) [] ts).errs, (pExtendCols c fuel (ts.length + 1) [] ts).rest⟩ := by
  have hsplit : extendOperatorBody = extendOperatorBody.dropLast ++ [.loop (lastLoop extendOperatorBody)] := rfl
  unfold runOp run
  rw [hsplit, execBlock_append]
  simp only [execBlock_single]
  have hpre : execBlock (envAt c) extendOperatorBody.dropLast fuel (entry (opParams ts pipe kw)) =
      .ok (.next, extendSt pipe.span kw.span kw pipe [] ts none) := by
    ir_simp [extendOperatorBody, newRec_extend, extendSt, colVals]
  rw [hpre]
  simp only [bind, Except.bind, exec, extendSt, St.parser, St.get, List.find?, envAt]
  simp
  exact extend_loop c fuel pipe.span kw.span kw pipe (ts.length + 1) [] ts none

/-- **extendOperator**: the model's production is the interpretation of the regenerated body -/
theorem C07_extendOperator_ir (c : PCtx) (fuel : Nat) (pipe kw : Token) (ts : List Token) :
    (runOp c (bodyOf "extendOperator") fuel pipe kw ts).map some =
      .ok (pOperator c (fuel + 1) pipe.span (kwTok "extend" kw) ts) := by
  simp only [bodyOf, extendOperator_ir, Option.map_some, Option.getD_some, extendOperator_run, pOperator_extend]
  rfl

end Pql.OpIR
