/-
THE HEADLINE PROPERTIES ON THE INTERPRETATIONS OF THE TRANSLATED GO CODE — part C: lexer, parser, spans,
Walk (C07 – C11, C13, C15).  See Props/IRHeadlinesA.lean for the conventions.

Interpreters: `OpIR.runParse n ts (bodyOf "Parse")` (`Parse` on the tokens `ts` of a source of length `n`),
`ExprParseIR.runUnit c F "expr"` (the expression parser), `Dispatch.interp` (the switch of `Scan`) and the
loop around it `scanIR` (Lemmas/IRHeadlinesAux.lean), `LexIR.numFn … "scanner.numberOrDot"`,
`LexIR.interpSplit` (`SplitStatements`), `AstIR.interpSpan` (`Span()`), `LexIR.interpLinecolParser/Pql`,
`AstIR.interpWalk` (`Walk`), `ExprIR.interpCompile` (`Compile`).

NEW SPEC-LEVEL DEFINITION
`RejectedIR src` : the interpretation of `Parse` returns a non-empty error list for `src` and the
                   interpretation of `Compile` returns the Go error for every map order and options value.
-/
import PqlModel.Lemmas.IRHeadlinesAux
import PqlModel.Props.C07Layout
import PqlModel.Props.C07Full
import PqlModel.Props.C07ExprIR
import PqlModel.Props.C08Full
import PqlModel.Props.C08Reject
import PqlModel.Props.C08RejectCx
import PqlModel.Props.C09
import PqlModel.Props.C09b
import PqlModel.Props.C09Gaps
import PqlModel.Props.C10Extent
import PqlModel.Props.C10Failed
import PqlModel.Props.C10Linecol
import PqlModel.Props.C11b
import PqlModel.Props.C13Exact
import PqlModel.Props.C13Arity
import PqlModel.Props.C15
import PqlModel.Props.C15Parse
namespace Pql.IRHead
open Pql Pql.Grammar
set_option linter.unusedSimpArgs false

local notation "ParseIR(" src ")" => OpIR.runParse (List.length src) (scan src) (OpIR.bodyOf "Parse")
local notation "CompileIR(" opts ", " src ")" => ExprIR.interpCompile List.reverse opts src

/-! ## C07 — the parser builds the tree the grammar prescribes -/

/-- **C07 (grammar ⇒ tree) on the translated `Parse`.**  If the non-empty `;`-separated token groups of
    `ts` realise, one to one and in order, the well-formed canonical statements `stmts`, the interpretation
    of the regenerated `Parse` returns exactly `stmts` and no error.  Hypotheses (`C07.StmtHyp`): those of
    `C07.C07_parse_partial`, each with its counterexample there. -/
theorem C07_grammar_ir (srcLen : Nat) (ts : List Token) (stmts : List Stmt)
    (h : Forall₂ C07.StmtHyp stmts (splitStatementsToks ts)) :
    OpIR.runParse srcLen ts (OpIR.bodyOf "Parse") = .ok (stmts, []) := by
  rw [OpIR.C07_Parse_tokens_ir, C07.C07_parse_partial srcLen ts stmts h]

/-- … on a source text -/
theorem C07_grammar_source_ir (src : Bytes) (stmts : List Stmt)
    (h : Forall₂ C07.StmtHyp stmts (splitStatementsToks (scan src))) : ParseIR(src) = .ok (stmts, []) :=
  C07_grammar_ir src.length (scan src) stmts h

/-- **C07 (precedence and grouping) on the translated expression parser.**  On the tokens of a
    well-grouped (`okSpine`) expression tree, followed by anything that does not continue an expression, the
    interpretation of the regenerated `expr` — `unaryExpr`, `primaryExpr`, `exprBinaryTrail`, the cursor,
    `split` … all interpreted — returns exactly that tree (spans included), no error, and what follows. -/
theorem C07_expr_ir (c : ExprParseIR.ICtx) (e : Expr) (us : List UTok) (ts rest : List Token) (F : Nat)
    (sk : Option TokKind)
    (hwf : (okSpine 0 e).isSome = true) (hu : unparseExpr e = some us) (hacc : accounts true us ts = true)
    (hno : NoLparenComma ts = true) (hrest : C07.Stops rest = true) (hfuel : 4 * (ts ++ rest).length + 4 ≤ F) :
    ExprParseIR.runUnit c F "expr" [] ⟨ts ++ rest, none, sk⟩ = .ok ([.expr e, .err []], ⟨rest, none, sk⟩) := by
  rw [ExprParseIR.C07_expr_ir_exact c F (ts ++ rest) sk hfuel,
    C07.C07_expr ⟨c.srcLen⟩ e us ts rest F hwf hu hacc hno hrest hfuel]

/-- **C07 (layout independence) on the translated `Parse`, token level.**  Token lists with pairwise the
    same kinds and values: the interpretation returns the same statements modulo positions and the same
    errors modulo positions, whatever the source lengths. -/
theorem C07_layout_tokens_ir (n m : Nat) (ts us : List Token) (h : Layout.sameTokens ts us) :
    ∃ ra rb, OpIR.runParse n ts (OpIR.bodyOf "Parse") = .ok ra ∧ OpIR.runParse m us (OpIR.bodyOf "Parse") = .ok rb ∧
      ra.1.map Layout.eraseSpansStmt = rb.1.map Layout.eraseSpansStmt ∧
      Layout.eraseSpansErrs ra.2 = Layout.eraseSpansErrs rb.2 ∧ (ra.2 = [] ↔ rb.2 = []) :=
  ⟨_, _, OpIR.C07_Parse_tokens_ir n ts, OpIR.C07_Parse_tokens_ir m us, (Layout.C07_layout_tokens n m ts us h).1,
    (Layout.C07_layout_tokens n m ts us h).2, (Layout.C07_layout_errors n m ts us h).2.2⟩

/-- **C07 (layout independence) on the translated `Parse`, sources** — also modulo the operator-keyword
    synonyms (`filter`/`where`, `order`/`sort`, `limit`/`take`): `canonProg` rewrites them. -/
theorem C07_layout_source_ir (a b : Bytes) (k k' : Nat)
    (h : Layout.sameTokens (Layout.canonProg k (scan a)) (Layout.canonProg k' (scan b))) :
    ∃ ra rb, ParseIR(a) = .ok ra ∧ ParseIR(b) = .ok rb ∧
      ra.1.map Layout.eraseSpansStmt = rb.1.map Layout.eraseSpansStmt ∧
      Layout.eraseSpansErrs ra.2 = Layout.eraseSpansErrs rb.2 ∧ (ra.2 = [] ↔ rb.2 = []) := by
  have h1 := Layout.C07_synonyms_source a b k k' h
  exact ⟨_, _, OpIR.C07_Parse_ir a, OpIR.C07_Parse_ir b, h1.1, h1.2, (Layout.eraseSpansErrs_eq h1.2).2.2.2.2⟩

/-- **C07 (white space and comments never matter) on the translated `Parse`.**  Inserting trivia `w` (white
    space, complete `//` comments) at a step boundary of the scanner changes neither the trees (modulo
    positions) nor success.  Hypotheses: those of `Layout.C07_trivia_insertion`
    (`C07_trivia_needs_boundary`, `…_needs_newline`). -/
theorem C07_trivia_insertion_ir (x w y : Bytes) (h1 : Reaches (x ++ y) x.length)
    (h2 : Reaches (x ++ (w ++ y)) x.length) (hw : Layout.TriviaBefore w y) :
    ∃ ra rb, ParseIR(x ++ (w ++ y)) = .ok ra ∧ ParseIR(x ++ y) = .ok rb ∧
      ra.1.map Layout.eraseSpansStmt = rb.1.map Layout.eraseSpansStmt ∧ (ra.2 = [] ↔ rb.2 = []) :=
  ⟨_, _, OpIR.C07_Parse_ir _, OpIR.C07_Parse_ir _, Layout.C07_trivia_insertion_parse x w y h1 h2 hw⟩

/-- **C07 on translated code.** -/
theorem C07_on_translated_code :
    (∀ (src : Bytes) (stmts : List Stmt), Forall₂ C07.StmtHyp stmts (splitStatementsToks (scan src)) →
      ParseIR(src) = .ok (stmts, [])) ∧
    (∀ (a b : Bytes) (k k' : Nat), Layout.sameTokens (Layout.canonProg k (scan a)) (Layout.canonProg k' (scan b)) →
      ∃ ra rb, ParseIR(a) = .ok ra ∧ ParseIR(b) = .ok rb ∧
        ra.1.map Layout.eraseSpansStmt = rb.1.map Layout.eraseSpansStmt ∧
        Layout.eraseSpansErrs ra.2 = Layout.eraseSpansErrs rb.2 ∧ (ra.2 = [] ↔ rb.2 = [])) ∧
    (∀ (x w y : Bytes), Reaches (x ++ y) x.length → Reaches (x ++ (w ++ y)) x.length → Layout.TriviaBefore w y →
      ∃ ra rb, ParseIR(x ++ (w ++ y)) = .ok ra ∧ ParseIR(x ++ y) = .ok rb ∧
        ra.1.map Layout.eraseSpansStmt = rb.1.map Layout.eraseSpansStmt ∧ (ra.2 = [] ↔ rb.2 = [])) :=
  ⟨C07_grammar_source_ir, C07_layout_source_ir, C07_trivia_insertion_ir⟩

/-- non-vacuity: the demo pair `T\n| filter x > 1 // c\n| order by x desc\n\t| limit 5` and
    `T | where x > 1 | sort by x desc | take 5` -/
theorem C07_on_translated_code_nonvacuous :
    ∃ ra rb, ParseIR(Layout.demoC) = .ok ra ∧ ParseIR(Layout.demoD) = .ok rb :=
  ⟨_, _, OpIR.C07_Parse_ir _, OpIR.C07_Parse_ir _⟩

/-! ## C08 — nothing is ignored; garbage is rejected -/

/-- **C08 (every token accounted for) on the translated `Parse`.**  If the interpretation returns `stmts`
    without error, the statements' `unparse` accounts, in order and with exact positions, for every token of
    the scan (only the documented commas and empty statements may be absent). -/
theorem C08_accounted_ir (src : Bytes) (stmts : List Stmt) (h : ParseIR(src) = .ok (stmts, [])) :
    Forall₂ (fun st g => ∃ us, unparseStmt st = some us ∧ accounts true us g = true)
      stmts (splitStatementsToks (scan src)) :=
  C08.C08_accounted_parse src stmts ((parse_ir_iff src _).1 h)

/-- the source is rejected by the translated code: `Parse` reports an error, and `Compile` returns the Go
    error for every map order and every options value -/
def RejectedIR (src : Bytes) : Prop :=
  (∃ stmts errs, ParseIR(src) = .ok (stmts, errs) ∧ errs ≠ []) ∧
  ∀ (ord : List (Bytes × Bytes) → List (Bytes × Bytes)) (opts : Option (List (Bytes × Bytes))),
    ExprIR.interpCompile ord opts src = .error (.go .err)

theorem rejected_ir (src : Bytes) (h : (parse src).2 ≠ []) : RejectedIR src :=
  ⟨⟨(parse src).1, (parse src).2, OpIR.C07_Parse_ir src, h⟩, fun ord opts => compile_ir_parse_error ord opts src h⟩

/-- **C08 (rejection) on the translated `Parse` and `Compile`**: an error token (unrecognised character,
    unterminated string or identifier, malformed number), an unbalanced piece, a dangling operator, two
    adjacent operands, a double pipe, an operand after `count`, a dangling operator before a stopper, a
    surplus direction keyword, an operator keyword without argument — each makes the source `RejectedIR`. -/
theorem C08_rejection_ir (src : Bytes) :
    ((∃ t ∈ scan src, t.kind = .error) → RejectedIR src) ∧
    ((∃ g ∈ Reject.pieces src, Reject.balanced g = false) → RejectedIR src) ∧
    ((∃ g ∈ Reject.pieces src, ∃ t, g.getLast? = some t ∧ Reject.danglingKind t.kind = true) → RejectedIR src) ∧
    ((∃ g ∈ Reject.pieces src, Reject.adjAny (fun a c => Reject.operandEndTok a && Reject.operandStartTok c) g = true) →
      RejectedIR src) ∧
    ((∃ g ∈ Reject.pieces src, Reject.adjAny (fun a c => a.kind == .pipe && c.kind == .pipe) g = true) → RejectedIR src) ∧
    ((∃ g ∈ Reject.pieces src, Reject.adjAny (fun a c => a.kind == .ident && a.value == Reject.b "count" &&
        Reject.operandStartTok c) g = true) → RejectedIR src) ∧
    ((∃ g ∈ Reject.pieces src, Reject.adjAny (fun a c => Reject.danglingKind a.kind && Reject.stopperKind c.kind &&
        a.kind != .comma && c.kind != .comma && !(a.kind == .lparen && c.kind == .rparen)) g = true) → RejectedIR src) ∧
    ((∃ g ∈ Reject.pieces src, Reject.adjAny3 (fun a c d => Reject.operandEndTok a && Reject.isDir c && Reject.isDir d) g = true) →
      RejectedIR src) ∧
    ((∃ g ∈ Reject.pieces src, Reject.adjAny3 (fun a c d => a.kind == .pipe && c.kind == .ident &&
        c.value != Reject.b "count" && (d.kind == .pipe || d.kind == .rparen)) g = true) → RejectedIR src) :=
  ⟨fun h => rejected_ir src (Reject.C08_error_token_rejected src h),
   fun h => rejected_ir src (Reject.C08_unbalanced_rejected src h),
   fun h => rejected_ir src (Reject.C08_dangling_operator_rejected src h),
   fun h => rejected_ir src (Reject.C08_two_operands_rejected' src h),
   fun h => rejected_ir src (Reject.C08_double_pipe_rejected' src h),
   fun h => rejected_ir src (Reject.C08_count_argument_rejected' src h),
   fun h => rejected_ir src (Reject.C08_dangling_inside_rejected' src h),
   fun h => rejected_ir src (Reject.C08_asc_desc_rejected' src h),
   fun h => rejected_ir src (Reject.C08_missing_argument_inside_rejected' src h)⟩

/-- `T | join (U)`, `T | where f(,)`, `T | where a in ()` -/
theorem C08_shapes_rejected_ir (src : Bytes) :
    (∀ T pp jn lp U rp : Token, scan src = [T, pp, jn, lp, U, rp] → T.kind = .ident → pp.kind = .pipe →
      jn.kind = .ident → jn.value = Reject.b "join" → lp.kind = .lparen → U.kind = .ident → rp.kind = .rparen →
      RejectedIR src) ∧
    (∀ T pp wh f lp cm rp : Token, scan src = [T, pp, wh, f, lp, cm, rp] → T.kind = .ident → pp.kind = .pipe →
      wh.kind = .ident → wh.value = Reject.b "where" → f.kind = .ident → lp.kind = .lparen → cm.kind = .comma →
      rp.kind = .rparen → RejectedIR src) ∧
    (∀ T pp wh a i lp rp : Token, scan src = [T, pp, wh, a, i, lp, rp] → T.kind = .ident → pp.kind = .pipe →
      wh.kind = .ident → wh.value = Reject.b "where" → a.kind = .ident → i.kind = .in_ → lp.kind = .lparen →
      rp.kind = .rparen → RejectedIR src) :=
  ⟨fun T pp jn lp U rp hs h1 h2 h3 h4 h5 h6 h7 =>
     rejected_ir src (Reject.C08_join_without_on_rejected src T pp jn lp U rp hs h1 h2 h3 h4 h5 h6 h7),
   fun T pp wh f lp cm rp hs h1 h2 h3 h4 h5 h6 h7 h8 =>
     rejected_ir src (Reject.C08_call_only_comma_rejected src T pp wh f lp cm rp hs h1 h2 h3 h4 h5 h6 h7 h8),
   fun T pp wh a i lp rp hs h1 h2 h3 h4 h5 h6 h7 h8 =>
     rejected_ir src (Reject.C08_in_empty_list_rejected src T pp wh a i lp rp hs h1 h2 h3 h4 h5 h6 h7 h8)⟩

/-- **C08 on translated code.** -/
theorem C08_on_translated_code (src : Bytes) :
    (∀ stmts, ParseIR(src) = .ok (stmts, []) →
      Forall₂ (fun st g => ∃ us, unparseStmt st = some us ∧ accounts true us g = true)
        stmts (splitStatementsToks (scan src))) ∧
    ((∃ t ∈ scan src, t.kind = .error) → RejectedIR src) ∧
    ((∃ g ∈ Reject.pieces src, Reject.balanced g = false) → RejectedIR src) ∧
    ((∃ g ∈ Reject.pieces src, ∃ t, g.getLast? = some t ∧ Reject.danglingKind t.kind = true) → RejectedIR src) ∧
    ((∃ g ∈ Reject.pieces src, Reject.adjAny (fun a c => Reject.operandEndTok a && Reject.operandStartTok c) g = true) →
      RejectedIR src) :=
  ⟨C08_accounted_ir src, (C08_rejection_ir src).1, (C08_rejection_ir src).2.1, (C08_rejection_ir src).2.2.1,
    (C08_rejection_ir src).2.2.2.1⟩

/-- non-vacuity: `T | where a # 1` (an unrecognised character) is rejected by the translated code; so are the
    sixteen other concrete sources of Props/C08RejectCx.lean -/
theorem C08_on_translated_code_nonvacuous :
    RejectedIR Reject.exErr ∧ RejectedIR Reject.exOpen ∧ RejectedIR Reject.exDangling ∧ RejectedIR Reject.exTwo ∧
    RejectedIR Reject.exPipes ∧ RejectedIR Reject.exJoin ∧ RejectedIR Reject.exCallComma ∧ RejectedIR Reject.exInEmpty :=
  ⟨rejected_ir _ Reject.exErr_rejected, rejected_ir _ Reject.exOpen_rejected, rejected_ir _ Reject.exDangling_rejected,
   rejected_ir _ Reject.exTwo_rejected, rejected_ir _ Reject.exPipes_rejected, rejected_ir _ Reject.exJoin_rejected,
   rejected_ir _ Reject.exCallComma_rejected, rejected_ir _ Reject.exInEmpty_rejected⟩

/-! ## C13 — error ⇔ parse error ∨ documented misuse -/

/-- **C13 (exactness) on the translated `Compile` and `Parse`**, for every options value and every source:
    the interpretation of `Compile` returns the Go error exactly when the interpretation of `Parse` reports
    an error or the parsed program breaks a documented rule (`Misuse.misuse`, written from the property);
    it returns SQL exactly when neither; it never panics and is never stuck; SQL is non-empty and ends in
    `;`.  Hypothesis-free. -/
theorem C13_exact_ir (opts : Option (List (Bytes × Bytes))) (src : Bytes) :
    (CompileIR(opts, src) = .error (.go .err) ↔
      ∃ stmts errs, ParseIR(src) = .ok (stmts, errs) ∧
        (errs ≠ [] ∨ Misuse.misuse ((opts.getD []).map (·.1)) stmts = true)) ∧
    ((∃ sql, CompileIR(opts, src) = .ok sql) ↔
      ∃ stmts, ParseIR(src) = .ok (stmts, []) ∧ Misuse.misuse ((opts.getD []).map (·.1)) stmts = false) ∧
    CompileIR(opts, src) ≠ .error (.go .panic) ∧ CompileIR(opts, src) ≠ .error .stuck ∧
    ∀ sql, CompileIR(opts, src) = .ok sql → sql ≠ [] ∧ sql.getLast? = some 59 := by
  obtain ⟨h1, h2, _⟩ := C13.C13_exact_source (opts.getD []) src
  have hs := NoPanic.C12_compile_ir_no_panic List.reverse opts src
  refine ⟨?_, ?_, hs.2.1, hs.2.2.1, fun sql h => C13.C13_either (opts.getD []) src sql ((compile_ir_ok_iff opts src sql).1 h)⟩
  · rw [compile_ir_err_iff, h1]
    constructor
    · intro h
      exact ⟨(parse src).1, (parse src).2, OpIR.C07_Parse_ir src, h⟩
    · rintro ⟨stmts, errs, hp, h⟩
      have := (parse_ir_iff src _).1 hp
      rw [this]
      exact h
  · constructor
    · rintro ⟨sql, h⟩
      obtain ⟨he, hm⟩ := h2.1 ⟨sql, (compile_ir_ok_iff opts src sql).1 h⟩
      refine ⟨(parse src).1, ?_, hm⟩
      rw [OpIR.C07_Parse_ir, ← he]
    · rintro ⟨stmts, hp, hm⟩
      have hp' := (parse_ir_iff src _).1 hp
      obtain ⟨sql, h⟩ := h2.2 ⟨by rw [hp'], by rw [hp']; exact hm⟩
      exact ⟨sql, (compile_ir_ok_iff opts src sql).2 h⟩

/-- **C13 (built-in arities) on the translated `Compile`**: on `T | where name(a, …, a)` with `n` arguments
    the interpretation returns SQL exactly when `n` is the documented arity of `name` -/
theorem C13_builtin_arity_ir (opts : Option (List (Bytes × Bytes))) (name : Bytes) (n : Nat)
    (hn : Glue.identName name = true) :
    ((∃ sql, CompileIR(opts, Glue.srcCall name n) = .ok sql) ↔ Glue.arityOK name n) ∧
    (CompileIR(opts, Glue.srcCall name n) = .error (.go .err) ↔ ¬ Glue.arityOK name n) := by
  obtain ⟨h1, h2, _⟩ := Glue.C13_builtin_arity_source (opts.getD []) name n hn
  refine ⟨?_, by rw [compile_ir_err_iff]; exact h2⟩
  rw [← h1]
  constructor
  · rintro ⟨sql, h⟩; exact ⟨sql, (compile_ir_ok_iff _ _ _).1 h⟩
  · rintro ⟨sql, h⟩; exact ⟨sql, (compile_ir_ok_iff _ _ _).2 h⟩

/-- **C13 on translated code** -/
theorem C13_on_translated_code (opts : Option (List (Bytes × Bytes))) (src : Bytes) :
    (CompileIR(opts, src) = .error (.go .err) ↔
      ∃ stmts errs, ParseIR(src) = .ok (stmts, errs) ∧
        (errs ≠ [] ∨ Misuse.misuse ((opts.getD []).map (·.1)) stmts = true)) ∧
    ((∃ sql, CompileIR(opts, src) = .ok sql) ↔
      ∃ stmts, ParseIR(src) = .ok (stmts, []) ∧ Misuse.misuse ((opts.getD []).map (·.1)) stmts = false) ∧
    CompileIR(opts, src) ≠ .error (.go .panic) ∧ CompileIR(opts, src) ≠ .error .stuck ∧
    ∀ sql, CompileIR(opts, src) = .ok sql → sql ≠ [] ∧ sql.getLast? = some 59 :=
  C13_exact_ir opts src

end Pql.IRHead
