/-
Property C12 — "for every byte string (valid UTF-8 or not) and every parameter map, Scan, SplitStatements,
Parse, Walk over a successful parse, and Compile return normally: they never panic and never loop
forever" — stated about the INTERPRETATION OF THE TRANSLATED GO CODE.

The interpreters of the regenerated IRs (`Model/*IR.lean`, `Lemmas/Dispatch*.lean`) make Go's failure
modes explicit outcomes: a Go `panic` (nil dereference, index / slice out of range, the `panic` statement,
a method call on the nil interface), `stuck` (IR the interpreter does not understand) and an exhausted loop
budget (`fuel` / `stuck`, depending on the interpreter).  The `…_ir` theorems say "model function =
interpretation"; the totality theorems say the model does not panic.  Here the two are composed, one
theorem per entry point, each for ALL inputs:

  1 `C12_parse_ir_no_panic`    `Parse` on `scan src`: `.ok (parse src)`, no fuel leaf
    `C12_parse_callees_ir_no_panic`  the 16 productions below it, each from its own regenerated body
  2 `C12_split_ir_no_panic`    `SplitStatements`: `.ok`; `numberOrDot` on every suffix `Scan` calls it on: `.ok`;
                               `Scan`'s switch on every suffix: defined (= `scanOne`), consumes ≥ 1 byte
  3 `C12_walk_ir_no_panic`     `Walk` on every statement of an error-free parse, every visitor: normal
                               return, no panic event;  `C12_hasJoinTerms_ir_no_panic` its use in `Compile`
  4 `C12_compile_ir_no_panic`  `Compile`: a value or a Go error, for every map order, options, source;
                               `C12_compile_layers_ir_no_panic` the callees that enter as model functions,
                               each from its own regenerated IR, on the parsed program
    `C12_compile_leaves_ir_no_panic` `quoteIdentifier`, `quoteSQLString`, `subqueryName`, `dataSourceSQL`
  5 `C12_cli_ir_no_panic`      cmd/pql `run` with `Compile` = the interpretation of the translated `Compile`
  also `C12_numberOrDot_ir_no_panic` (2b stated on the positions the switch of `Scan` selects, `select_numberOrDot`),
       `C12_span_ir_no_panic` (`Span()` on every node `Walk` hands to a visitor),
       `C12_linecol_ir_no_panic` (`linecol` on every position a Parse / Compile error message formats)
  `C12_translated_code_never_panics`  the conjunction

WHAT IS A MODEL PRIMITIVE WHERE (not interpreted from a regenerated body):
* in `Parse` (`OpIR.calleeAt`): the expression productions `expr`, `exprList`, `ident`, `rowCount`,
  `sortTerm` are the model's `pExpr`, `pExprList`, `pIdent`, `pRowCount`, `pSortTerm`; `Scan` is `scan`;
  `split` / `splitSemi` / `endSplit` / `next` / `prev` are the model's token-list operations.
  The 16 other productions are called through `calleeAt` with the model's meaning AND have their own
  interpretation theorem (`C12_parse_callees_ir_no_panic`).
* in `SplitStatements` / `numberOrDot` (`LexIR.prims`): `Scan` (hypothesis `lib.scan = scan`), `strconv`,
  `utf8.DecodeRuneInString` (`decodeRune`).  `Scan`'s main loop is not an IR: its switch is the regenerated
  table interpreted by `Dispatch.interp`; `ident`, `string`, `quotedIdent` have table interpretations
  (`C09_ident_interp`, …), not statement IRs.
* in `Walk` (`AstIR.walkSem`): the visitor is the parameter `v`.
* in `Compile`: see Lemmas/NoPanicIR.lean.  `hasJoinTerms` calls the MODEL `walk` (tied to the regenerated
  loop by `C11_walk_ir`, hence statement 3 for it).  `strings.Builder`, `fmt`, map operations are primitives.
* in `run` (`CliIR.Lib`): `SplitStatements`, `Scan`, `Compile` are parameters; `bufio.Scanner` is the list
  of lines.
-/
import PqlModel.Lemmas.NoPanicIR
import PqlModel.Props.C07OperatorIRParse
import PqlModel.Props.C07OperatorIRTabular
import PqlModel.Props.C12Fuel
import PqlModel.Props.C12
import PqlModel.Props.C15SplitIR
import PqlModel.Props.C09NumberIR
import PqlModel.Props.C09Dispatch
import PqlModel.Props.C16RunIR
import PqlModel.Lemmas.CliSemRun
import PqlModel.Props.C06Placeholders
import PqlModel.Props.C10LinecolIR
import PqlModel.Props.C10Compile
import PqlModel.Props.C10SpanIRNodes
namespace Pql.NoPanic
open Pql
set_option linter.unusedSimpArgs false

/-! ## 1. Parse -/

/-- **C12 (Parse, translated code).**  For every byte string, the interpretation of the regenerated body
    of `Parse` — `Scan` yielding the model's tokens, the statement loop with `firstParse` interpreted, every
    production called on a statement's sub-parser with the budget `fuelFor` — returns normally with the
    model's statements and errors: no Go panic, not stuck; and no loop budget is exhausted (no error leaf
    is the out-of-fuel leaf). -/
theorem C12_parse_ir_no_panic (src : Bytes) :
    OpIR.runParse src.length (scan src) (OpIR.bodyOf "Parse") = .ok (parse src) ∧
    ∀ e ∈ (parse src).2, e.fuel = false :=
  ⟨OpIR.C07_Parse_ir src, C12.parse_fuel_sufficient_src src⟩

theorem ok_of_map_some {α : Type} {r : OpIR.M α} {x : Option α} (h : r.map some = .ok x) : ∃ a, r = .ok a := by
  cases r with
  | ok a => exact ⟨a, rfl⟩
  | error e => cases h

/-- **C12 (the productions below `Parse`, translated code).**  `Parse` calls `letStatement` and
    `tabularExpr` with `fuelFor n` for a statement of `n` tokens.  With that budget — for every context and
    every token list — each of them, interpreted from its own regenerated body, returns normally, the
    operator loop of `tabularExpr` not running out; and for every budget, pipe and keyword token each of
    the 12 operator methods and 3 element productions returns normally. -/
theorem C12_parse_callees_ir_no_panic (c : PCtx) (ts : List Token) :
    OpIR.runP OpIR.toLet "stmt" c (OpIR.bodyOf "letStatement") (fuelFor ts.length) ts =
        .ok (pLet c (fuelFor ts.length) ts) ∧
    OpIR.runTab c (OpIR.bodyOf "tabularExpr") (fuelFor ts.length - 1) ts = .ok (pTabular c (fuelFor ts.length) ts) ∧
    NoFuel (pLet c (fuelFor ts.length) ts).errs ∧ NoFuel (pTabular c (fuelFor ts.length) ts).errs ∧
    (∀ (fuel : Nat) (pipe kw : Token) (m : String),
      m ∈ ["countOperator", "whereOperator", "takeOperator", "asOperator", "topOperator", "sortOperator",
           "projectOperator", "extendOperator", "summarizeOperator", "renderOperator", "joinOperator"] →
      ∃ r, OpIR.runOp c (OpIR.bodyOf m) fuel pipe kw ts = .ok r) ∧
    (∀ fuel : Nat,
      OpIR.runP OpIR.toColumn "col" c (OpIR.bodyOf "extendColumn") fuel ts = .ok (pNamedColumn c fuel ts) ∧
      OpIR.runP OpIR.toColumn "col" c (OpIR.bodyOf "summarizeColumn") fuel ts = .ok (pNamedColumn c fuel ts) ∧
      OpIR.runP OpIR.toProp "prop" c (OpIR.bodyOf "renderProperty") fuel ts = .ok (pRenderProp c fuel ts)) := by
  have hf : fuelFor ts.length = (fuelFor ts.length - 1) + 1 := by unfold fuelFor; omega
  have h4 : 4 * ts.length ≤ fuelFor ts.length - 1 := by unfold fuelFor; omega
  have hb := C12.C12_statement_fuel_bound c (fuelFor ts.length) ts (C12.C12_fuelFor_ge _)
  refine ⟨OpIR.C07_letStatement_ir c _ ts, ?_, hb.1, hb.2, ?_, fun fuel =>
    ⟨OpIR.C07_extendColumn_ir c fuel ts, OpIR.C07_summarizeColumn_ir c fuel ts, OpIR.C07_renderProperty_ir c fuel ts⟩⟩
  · have := OpIR.C07_tabularExpr_ir_fueled c (fuelFor ts.length - 1) ts h4
    rw [← hf] at this
    exact this
  · intro fuel pipe kw m hm
    simp only [List.mem_cons, List.not_mem_nil, or_false] at hm
    rcases hm with rfl | rfl | rfl | rfl | rfl | rfl | rfl | rfl | rfl | rfl | rfl
    · exact ok_of_map_some (OpIR.C07_countOperator_ir c fuel pipe kw ts)
    · exact ok_of_map_some (OpIR.C07_whereOperator_ir c fuel pipe kw ts)
    · exact ok_of_map_some (OpIR.C07_takeOperator_ir c fuel pipe kw ts)
    · exact ok_of_map_some (OpIR.C07_asOperator_ir c fuel pipe kw ts)
    · exact ok_of_map_some (OpIR.C07_topOperator_ir c fuel pipe kw ts)
    · exact ok_of_map_some (OpIR.C07_sortOperator_ir c fuel pipe kw ts)
    · exact ok_of_map_some (OpIR.C07_projectOperator_ir c fuel pipe kw ts)
    · exact ok_of_map_some (OpIR.C07_extendOperator_ir c fuel pipe kw ts)
    · exact ok_of_map_some (OpIR.C07_summarizeOperator_ir c fuel pipe kw ts)
    · exact ok_of_map_some (OpIR.C07_renderOperator_ir c fuel pipe kw ts)
    · exact ok_of_map_some (OpIR.C07_joinOperator_ir c fuel pipe kw ts)

/-- non-vacuity: `A | join (B) on $left.x == $right.y` parses to one statement without error -/
theorem C12_parse_ir_nonvacuous :
    OpIR.runParse Glue.joinSrc.length (scan Glue.joinSrc) (OpIR.bodyOf "Parse") = .ok ([Glue.joinStmt], []) := by
  rw [(C12_parse_ir_no_panic Glue.joinSrc).1, Glue.joinSrc_parse]

/-! ## 2. SplitStatements, numberOrDot, the switch of Scan -/

/-- **C12 (lexer, translated code).**  For every byte string `src` (valid UTF-8 or not):
    (a) the regenerated `SplitStatements`, with the model's `scan` for `Scan`, returns normally (every
        `source[start:tok.Span.Start]` in bounds) the model's pieces;
    (b) at every position where the remaining bytes start with a digit or '.' (the positions at which the
        switch of `Scan` selects `numberOrDot`: `Dispatch.C09_dispatch_classes`), the regenerated
        `numberOrDot` — with `numberExponent`, `normalizeNumberValue`, the cursor and span helpers interpreted
        from their own bodies, loop budget `len + 1` — returns normally the model's token and leaves the
        cursor after it;
    (c) at every position the regenerated switch of `Scan` has a meaning (`some`, never an unknown class or
        kind name) and it is the model's step;
    (d) on a non-empty rest that step consumes at least one byte and at most what is left: the loop of `Scan`
        ends after at most `len(src)` iterations. -/
theorem C12_split_ir_no_panic (src : Bytes) :
    (∀ (lib : LexIR.Lib) (h : LexIR.Heap), lib.scan = scan →
      LexIR.interpSplit lib [.str src] h = .ok ([.strs (splitStatements src)], h)) ∧
    (∀ (lib : LexIR.Lib) (pre s : Bytes) (l : Nat), src = pre ++ s →
      (∀ c rest, s = c :: rest → (isDigit c || c == 46) = true) →
      ∃ l' msg, LexIR.numFn lib (s.length + 1) "scanner.numberOrDot" [.scanner] ⟨src, pre.length, l⟩ =
        .ok ([LexIR.lexTok pre.length (scanNumberOrDot s) msg], ⟨src, pre.length + (scanNumberOrDot s).width, l'⟩)) ∧
    (∀ pre s : Bytes, src = pre ++ s → Dispatch.interp s = some (scanOne s)) ∧
    (∀ (pre : Bytes) (c : UInt8) (rest : Bytes), src = pre ++ c :: rest →
      1 ≤ (scanOne (c :: rest)).width ∧ (scanOne (c :: rest)).width ≤ (c :: rest).length) := by
  refine ⟨fun lib h hs => LexIR.C15_split_ir lib hs src h, ?_, fun _ s _ => Dispatch.C09_dispatch_interp s,
    fun _ c rest _ => C12.C12_scan_progress c rest⟩
  intro lib pre s l hsrc hs
  subst hsrc
  exact LexIR.C09_numberOrDot_ir lib (s.length + 1) pre s l (Nat.lt_succ_self _) hs

/-- the positions at which `Scan` calls `numberOrDot`: the regenerated switch selects that case exactly on a
    first byte that is a digit or '.' (bytes ≥ 0x80 decode to runes ≥ 0x80, which reach white space or the
    default) -/
theorem select_numberOrDot (c : UInt8) (rest : Bytes) :
    Dispatch.select Facts.scanCases Facts.scanDefault (decodeRune (c :: rest)).1 = some (.sub "numberOrDot") ↔
      (isDigit c || c == 46) = true := by
  by_cases h : c.toNat < 128
  · rw [Dispatch.decodeRune_ascii' c rest h]
    have := (Dispatch.C09_dispatch_classes c.toNat h).2.2.1
    simp only [UInt8.ofNat_toNat] at this
    exact this
  · have hge : 128 ≤ c.toNat := by omega
    rw [Dispatch.select_nonascii _ (Dispatch.decodeRune_rune_ge c rest hge)]
    constructor
    · intro hs
      split at hs <;> cases hs
    · intro hd
      exfalso
      simp only [Bool.or_eq_true, beq_iff_eq] at hd
      rcases hd with hd | hd
      · simp only [isDigit, inRanges, Facts.isDigitRanges, List.any_cons, List.any_nil, Bool.or_false,
          Bool.and_eq_true, decide_eq_true_eq] at hd
        omega
      · subst hd
        exact absurd hge (by decide)

/-- (b) in terms of the switch: wherever `Scan` hands over to `numberOrDot`, the regenerated
    `numberOrDot` returns normally -/
theorem C12_numberOrDot_ir_no_panic (lib : LexIR.Lib) (pre : Bytes) (c : UInt8) (rest : Bytes) (l : Nat)
    (hsel : Dispatch.select Facts.scanCases Facts.scanDefault (decodeRune (c :: rest)).1 = some (.sub "numberOrDot")) :
    ∃ l' msg, LexIR.numFn lib ((c :: rest).length + 1) "scanner.numberOrDot" [.scanner] ⟨pre ++ c :: rest, pre.length, l⟩ =
      .ok ([LexIR.lexTok pre.length (scanNumberOrDot (c :: rest)) msg],
        ⟨pre ++ c :: rest, pre.length + (scanNumberOrDot (c :: rest)).width, l'⟩) := by
  refine LexIR.C09_numberOrDot_ir lib _ pre (c :: rest) l (Nat.lt_succ_self _) ?_
  intro c' rest' h
  injection h with h1 _
  subst h1
  exact (select_numberOrDot c rest).1 hsel

/-- the hypothesis "starts with a digit or '.'" of (b) is needed for the stated result (on "a" the Go
    function returns an error token and un-reads it, the model's function says "number"):
    `LexIR.C09_numberOrDot_ir_needs_start`.  That outcome is a normal return, not a panic; `Scan` never makes
    the call (`C09_dispatch_classes`).  The hypothesis `lib.scan = scan` of (a) is needed for "no panic":
    with a `Scan` whose spans are out of order `SplitStatements` panics -/
theorem C12_split_ir_needs_scan :
    ∃ (lib : LexIR.Lib) (src : Bytes) (h : LexIR.Heap), LexIR.interpSplit lib [.str src] h = .error .panic := by
  obtain ⟨lib, src, h, hp, _⟩ := LexIR.C15_split_ir_needs_order
  exact ⟨lib, src, h, hp⟩

/-- non-vacuity of (b): the suffix "1F+" of "ab 0x1F+"… and, computed by the interpreter, a hex literal -/
theorem C12_split_ir_nonvacuous :
    (∀ c rest, Bytes.ofString "0x1F+" = c :: rest → (isDigit c || c == 46) = true) ∧
    ∃ l' msg, LexIR.numFn ⟨scan, fun _ _ => 0⟩ 6 "scanner.numberOrDot" [.scanner] ⟨Bytes.ofString "ab 0x1F+", 3, 0⟩ =
      .ok ([LexIR.lexTok 3 (scanNumberOrDot (Bytes.ofString "0x1F+")) msg], ⟨Bytes.ofString "ab 0x1F+", 3 + 4, l'⟩) := by
  have hs : ∀ c rest, Bytes.ofString "0x1F+" = c :: rest → (isDigit c || c == 46) = true := by
    intro c rest h
    have hb : Bytes.ofString "0x1F+" = [48, 120, 49, 70, 43] := by decide
    rw [hb] at h
    have : c = 48 := by injection h with h1 _; exact h1.symm
    subst this
    decide
  refine ⟨hs, ?_⟩
  have := (C12_split_ir_no_panic (Bytes.ofString "ab 0x1F+")).2.1 ⟨scan, fun _ _ => 0⟩ (Bytes.ofString "ab ")
    (Bytes.ofString "0x1F+") 0 (by decide) hs
  exact this

/-! ## 3. Walk -/

/-- the interpreted `Walk` returned normally and recorded no panic -/
theorem walk_ir_ok (v : Nat → Node → Bool) (n : Node) (h : NoPanic n) :
    ∃ r w, AstIR.interpWalk v n = .ok r w ∧ w.events = AstIR.walkV v n ∧ WalkEvent.panic ∉ w.events := by
  have ht := AstIR.C11_walk_ir v n
  have hnp := walkV_noPanic v n h
  cases hi : AstIR.interpWalk v n with
  | ok r w =>
    rw [hi] at ht
    simp only [AstIR.Out.trace, Option.some.injEq] at ht
    exact ⟨r, w, rfl, ht, by rw [ht]; exact hnp⟩
  | panic w =>
    rw [hi] at ht
    simp only [AstIR.Out.trace, Option.some.injEq] at ht
    exact absurd (by rw [← ht]; simp) hnp
  | stuck =>
    rw [hi] at ht
    cases ht

/-- **C12 (Walk, translated code).**  For every source that parses without error, every statement of the
    program and every visitor (its answers may depend on the node and on the number of the call): the
    interpretation of the regenerated loop of `Walk` — pop, type switch, visitor call, pushes, the default
    `panic` — returns normally (not the `panic` statement, no nil dereference, not stuck, the loop budget
    `size + 1` not exhausted), and the trace of events contains no panic event. -/
theorem C12_walk_ir_no_panic (src : Bytes) (stmts : List Stmt) (h : parse src = (stmts, []))
    (s : Stmt) (hs : s ∈ stmts) (v : Nat → Node → Bool) :
    ∃ r w, AstIR.interpWalk v (Node.ofStmt s) = .ok r w ∧
      (AstIR.interpWalk v (Node.ofStmt s)).trace = some w.events ∧ WalkEvent.panic ∉ w.events := by
  have hc : Complete (Node.ofStmt s) := C11.C11_parsed_complete _ _ stmts h s hs
  obtain ⟨r, w, h1, _, h3⟩ := walk_ir_ok v _ hc.noPanic
  exact ⟨r, w, h1, by rw [h1]; rfl, h3⟩

/-- **C12 (`hasJoinTerms`, the use of `Walk` inside `Compile`).**  For every source that parses without
    error, every join operator anywhere in it and every sub-expression `x` of the join condition the
    compiler writes in join mode (these are all the arguments of `hasJoinTerms`): the regenerated
    `hasJoinTerms` returns normally the model's answer, and the interpreted `Walk` on `x` returns normally
    for every visitor. -/
theorem C12_hasJoinTerms_ir_no_panic (src : Bytes) (stmts : List Stmt) (h : parse src = (stmts, []))
    (s : Stmt) (hs : s ∈ stmts) (p k kind ka : Span) (fl : Option Ident) (lp : Span) (right : Tabular)
    (rp on : Span) (conds : ExprList)
    (hj : Node.op (.join p k kind ka fl lp right rp on conds) ∈ allNodes (Node.ofStmt s))
    (x : Expr) (hx : Node.expr x ∈ allNodes (.expr (buildJoinCondition conds))) :
    ExprIR.interpHasJoinTerms x = .ok (hasJoinTerms x) ∧
    ∀ v : Nat → Node → Bool, ∃ r w, AstIR.interpWalk v (.expr x) = .ok r w ∧ WalkEvent.panic ∉ w.events := by
  have hn := (Glue.C11_parsed_join_conditions src stmts h s hs p k kind ka fl lp right rp on conds hj x hx).1
  refine ⟨ExprIR.C01_hasJoinTerms_ir x (good_of_noPanic x hn), fun v => ?_⟩
  obtain ⟨r, w, h1, _, h3⟩ := walk_ir_ok v _ hn
  exact ⟨r, w, h1, h3⟩

/-- the hypothesis "produced by an error-free parse" is needed: on `<nil> == $left.x` (a tree with a nil
    operand, which the parser never builds) the interpreted `Walk` ends in a panic, and so does the
    regenerated `hasJoinTerms` (`C01_hasJoinTerms_ir_needs_good`) -/
theorem C12_walk_ir_needs_parse :
    (AstIR.interpWalk (fun _ _ => true) (.expr Glue.nilEq)).trace = some [.visit "BinaryExpr" ⟨0, 7⟩, .panic] ∧
    ExprIR.interpHasJoinTerms Glue.nilEq = .error (.go .panic) := by
  refine ⟨?_, ExprIR.C01_hasJoinTerms_ir_needs_good.1⟩
  rw [AstIR.C11_walk_ir]
  decide

/-- non-vacuity: the statement of `A | join (B) on $left.x == $right.y`, and the operand `$left.x` -/
theorem C12_walk_ir_nonvacuous :
    parse Glue.joinSrc = ([Glue.joinStmt], []) ∧
    (∃ r w, AstIR.interpWalk (fun _ _ => true) (Node.ofStmt Glue.joinStmt) = .ok r w ∧ w.events.length = 14) ∧
    ExprIR.interpHasJoinTerms Glue.joinL = .ok (true, false) := by
  refine ⟨Glue.joinSrc_parse, ?_, ?_⟩
  · have hc : Complete (Node.ofStmt Glue.joinStmt) :=
      C11.C11_parsed_complete _ _ _ Glue.joinSrc_parse Glue.joinStmt (by simp)
    obtain ⟨r, w, h1, h2, _⟩ := walk_ir_ok (fun _ _ => true) _ hc.noPanic
    refine ⟨r, w, h1, ?_⟩
    rw [h2]
    decide
  · obtain ⟨_, hjn, _, hl, _, hv, _⟩ := Glue.C11_parsed_join_conditions_nonvacuous
    have := (C12_hasJoinTerms_ir_no_panic Glue.joinSrc _ Glue.joinSrc_parse Glue.joinStmt (by simp) _ _ _ _ _ _ _ _ _ _
      hjn Glue.joinL hl).1
    rw [this, hv]

/-- a node other than the nil interface -/
theorem not_nilIface_of_ne {m : Node} (h : m ≠ .expr .nil) : (AstIR.GNode.node m).isNilIface = false := by
  cases m with
  | expr e => cases e <;> first | exact absurd rfl h | rfl
  | op o => cases o <;> rfl
  | column k c => cases k <;> rfl
  | _ => rfl

/-- **C12 (`Span()` on what `Walk` hands to the visitor, translated code).**  For every source that parses
    without error and every node of every statement (every node a visitor can be called with): the
    interpretation of `n.Span()` — dynamic dispatch through the regenerated tables, `nodeSpan`,
    `nodeSliceSpan`, `unionSpans` interpreted — returns normally the model's span, with a recursion budget
    equal to the size of the node. -/
theorem C12_span_ir_no_panic (src : Bytes) (stmts : List Stmt) (h : parse src = (stmts, []))
    (s : Stmt) (hs : s ∈ stmts) (m : Node) (hm : m ∈ allNodes (Node.ofStmt s)) :
    AstIR.interpSpan m.size (.node m) = pure (AstIR.GNode.node m).span := by
  have hc : Complete (Node.ofStmt s) := C11.C11_parsed_complete _ _ stmts h s hs
  have hn : NoPanic m := Glue.noPanic_allNodes hc.noPanic m hm
  exact AstIR.C10_spanOf_ir m.size (.node m) (not_nilIface_of_ne hn.ne_nil) (Nat.le_refl _)

/-- needed: a method call on the nil interface panics (`AstIR.C10_spanOf_ir_nil_iface`) -/
theorem C12_span_ir_needs_parse (fuel : Nat) :
    AstIR.interpSpan (fuel + 1) (.node (.expr .nil)) = AstIR.goPanic := rfl

/-! ## 3b. the positions of error messages -/

/-- **C12 (`linecol`, translated code, on every position an error message formats).**  For every source:
    (a) every error leaf of `Parse` that carries a span: the regenerated `linecol` of parser/parser.go on its
        start returns normally (`source[:pos]` in bounds);
    (b) if the source parses without error: for every statement, the regenerated `linecol` of pql.go on the
        start of the statement's span ("batch queries not supported") and of every join flavour identifier
        ("unhandled join type") returns normally.  (The spans of identifiers and calls below expressions:
        `Glue.C10_compile_error_linecol`, same bound.) -/
theorem C12_linecol_ir_no_panic (lib : LexIR.Lib) (src : Bytes) (h : LexIR.Heap) :
    (∀ e ∈ (parse src).2, ∀ sp, e.span = some sp →
      LexIR.interpLinecolParser lib [.str src, .int sp.start.toNat] h =
        .ok ([.int (linecol src sp.start.toNat).1, .int (linecol src sp.start.toNat).2], h)) ∧
    (∀ stmts, parse src = (stmts, []) → ∀ s ∈ stmts,
      LexIR.interpLinecolPql lib [.str src, .int s.spanOf.start.toNat] h =
        .ok ([.int (linecol src s.spanOf.start.toNat).1, .int (linecol src s.spanOf.start.toNat).2], h) ∧
      ∀ f ∈ Glue.stmtFlavors s,
        LexIR.interpLinecolPql lib [.str src, .int f.span.start.toNat] h =
          .ok ([.int (linecol src f.span.start.toNat).1, .int (linecol src f.span.start.toNat).2], h)) := by
  constructor
  · intro e he sp hsp
    have := C10.C10_error_spans_inside src e he sp hsp
    exact LexIR.C10_linecol_ir lib src _ h (by omega)
  · intro stmts hp s hs
    obtain ⟨h1, h2⟩ := Glue.parsed_stmt_spans src stmts hp s hs
    refine ⟨LexIR.C10_linecol_pql_ir lib src _ h (Glue.errSpanOK_linecol src _ h1).2.1, fun f hf => ?_⟩
    exact LexIR.C10_linecol_pql_ir lib src _ h (Glue.errSpanOK_linecol src _ (h2 f hf)).2.1

/-- needed: a position after the end of the source makes the regenerated `linecol` panic -/
theorem C12_linecol_ir_needs_inside (lib : LexIR.Lib) (h : LexIR.Heap) :
    LexIR.interpLinecolParser lib [.str [], .int 1] h = .error .panic :=
  LexIR.C10_linecol_ir_panics lib [] 1 h (by decide)

/-! ## 4. Compile -/

/-- **C12 (Compile, translated code).**  For every order `ord` in which Go may visit the parameter map,
    every options value (nil, or with any parameter list) and every byte string: the interpretation of the
    regenerated `Compile` — front part with the let-mode expression writers interpreted down to
    `writeExpression`, `hasJoinTerms` and the `write*Function`s, then the regenerated statement assembly —
    returns SQL or a Go ERROR; it never reaches a Go panic and is never stuck.  With the list order it is
    exactly the model's result. -/
theorem C12_compile_ir_no_panic (ord : List (Bytes × Bytes) → List (Bytes × Bytes))
    (opts : Option (List (Bytes × Bytes))) (src : Bytes) :
    ((∃ sql, ExprIR.interpCompile ord opts src = .ok sql) ∨ ExprIR.interpCompile ord opts src = .error (.go .err)) ∧
    ExprIR.interpCompile ord opts src ≠ .error (.go .panic) ∧
    ExprIR.interpCompile ord opts src ≠ .error .stuck ∧
    ExprIR.interpCompile List.reverse opts src = ExprIR.resultM (compile (opts.getD []) src) ∧
    compile (opts.getD []) src ≠ .panic :=
  have h := interpCompile_safe ord opts src
  ⟨h, h.ne_panic, h.ne_stuck, ExprIR.C06_compile_ir opts src, (C13.C13_exact_source _ src).2.2⟩

/-- **C12 (the callees of `Compile` that enter `interpCompile` as model functions, from their own IRs).**
    For every source that parses without error, every initial scope, and the query `t` and scope the
    statement loop leaves:
    (a) `splitQueries` / `chainSubquery`: the regenerated IR on the empty heap returns normally, and its
        result read through the heap is the model's, which is what `interpCompile` was given;
    (b) for the subqueries it returns: the regenerated `(*subquery).write` returns normally on each and is
        the model function the assembly was given; the regenerated assembly returns normally;
    (c) `writeExpression`, given to `(*subquery).write` as the model's `writeExpr`, is outside join mode
        the interpretation of its own regenerated body on EVERY expression;
    (d) for every join operator anywhere in the program: `buildJoinCondition` interpreted returns the
        model's condition, and `writeExpression` interpreted in join mode on it is the `writeExpr`
        primitive of the split interpreter. -/
theorem C12_compile_layers_ir_no_panic (src : Bytes) (stmts : List Stmt) (hp : parse src = (stmts, []))
    (scope0 scope : List (Bytes × List Chunk)) (t : Tabular)
    (hc : compileStmts src stmts scope0 none = .ok (scope, some t)) :
    (SafeS (SplitIR.interpSplit src scope #[] [] t) ∧
      (SplitIR.interpSplit src scope #[] [] t).map (fun r => SplitImp.abs r.1 r.2) =
        SplitIR.liftW (splitQueries src scope [] t) ∧
      ExprIR.splitModel src scope t = WriteIR.liftW (splitQueries src scope [] t)) ∧
    (∀ subs, splitQueries src scope [] t = .ok subs →
      (∀ sub ∈ subs,
        WriteIR.interpWrite WriteIR.modelSem ⟨src, scope, .default⟩ sub =
          WriteIR.liftW (WriteIR.modelSem.subWrite ⟨src, scope, .default⟩ sub) ∧
        SafeW (WriteIR.interpWrite WriteIR.modelSem ⟨src, scope, .default⟩ sub)) ∧
      SafeW (WriteIR.interpAssembly WriteIR.modelSem src scope subs)) ∧
    (∀ (c : Ctx) (e : Expr), c.mode ≠ .join →
      ExprIR.interpWriteExpression c e = WriteIR.liftW (WriteIR.modelSem.writeExpression c e)) ∧
    (∀ (s : Stmt), s ∈ stmts → ∀ (p k kind ka : Span) (fl : Option Ident) (lp : Span) (right : Tabular)
      (rp on : Span) (conds : ExprList),
      Node.op (.join p k kind ka fl lp right rp on conds) ∈ allNodes (Node.ofStmt s) →
      ∀ sc : List (Bytes × List Chunk),
        JoinCondIR.interpBuild conds = .ok (buildJoinCondition conds) ∧
        ExprIR.interpWriteExpression ⟨src, sc, .join⟩ (buildJoinCondition conds) =
          WriteIR.liftW (writeExpr ⟨src, sc, .join⟩ (buildJoinCondition conds))) := by
  have hm := query_mem src stmts scope0 scope t hc
  obtain ⟨h1, h2, h3, _⟩ := split_ir_safe src stmts hp t hm scope
  refine ⟨⟨h1, h2, h3⟩, fun subs hsq => ⟨write_ir_safe src stmts hp scope0 scope t hc subs hsq,
    (assembly_ir_safe src stmts hp scope0 scope t hc subs hsq).2⟩,
    fun c e hm => ExprIR.C01_writeExpression_ir_nonjoin c e hm,
    fun s hs p k kind ka fl lp right rp on conds hj sc =>
      join_condition_ir src stmts hp s hs p k kind ka fl lp right rp on conds hj sc⟩

theorem ok_of_map_ok {α β : Type} {r : WriteIR.M α} {f : α → β} {y : β} (h : r.map f = .ok y) :
    ∃ a, r = .ok a ∧ f a = y := by
  cases r with
  | ok a => exact ⟨a, rfl, by injection h⟩
  | error e => cases h

/-- every pipeline of a parsed program — the query and the right-hand side of every join, at any depth — has
    its source table -/
theorem parsed_source_some (src : Bytes) (stmts : List Stmt) (hp : parse src = (stmts, []))
    (s : Stmt) (hs : s ∈ stmts) (source : Option Ident) (ops : OpList)
    (hm : Node.tabular (.mk source ops) ∈ allNodes (Node.ofStmt s)) : source.isSome = true := by
  have hc : Complete (Node.ofStmt s) := C11.C11_parsed_complete _ _ stmts hp s hs
  obtain ⟨_, kids, hkc, hkk⟩ := (complete_iff _).1 (Glue.complete_allNodes hc _ hm)
  simp only [Node.children, Option.some.injEq] at hkc
  subst hkc
  obtain ⟨_, kids2, hkc2, hkk2⟩ := (complete_iff _).1 (hkk (.tableRef source) (by simp))
  simp only [Node.children, Option.some.injEq] at hkc2
  subst hkc2
  obtain ⟨hl, _⟩ := (complete_iff _).1 (hkk2 (.ident source) (by simp))
  cases source with
  | none => exact absurd rfl hl
  | some i => rfl

/-- **C12 (the leaf functions of the writer layer, translated code)** — primitives of the split and write
    interpreters, each from its own regenerated body: `quoteIdentifier` and `quoteSQLString` on every
    string, `subqueryName` on every index return normally the model's bytes; `dataSourceSQL` returns
    normally on the source of every pipeline of a parsed program (`C05_dataSource_needs_table`: on a
    `*TableRef` without table, which the parser never builds, it panics). -/
theorem C12_compile_leaves_ir_no_panic :
    (∀ name : Bytes, ∃ cs, WriteIR.interpQuote "quoteIdentifier" "name" name = .ok cs ∧
      renderChunks cs = quoteIdentifier name) ∧
    (∀ str : Bytes, ∃ cs, WriteIR.interpQuote "quoteSQLString" "s" str = .ok cs ∧
      renderChunks cs = quoteSQLString str) ∧
    (∀ i : Nat, ∃ cs, WriteIR.interpSubqueryName i = .ok cs ∧ renderChunks cs = subqueryName i) ∧
    (∀ (src : Bytes) (stmts : List Stmt), parse src = (stmts, []) → ∀ s ∈ stmts, ∀ (source : Option Ident) (ops : OpList),
      Node.tabular (.mk source ops) ∈ allNodes (Node.ofStmt s) →
      WriteIR.interpDataSource source = .ok [.qid (identName source)]) ∧
    WriteIR.interpDataSource none = .error (.go .panic) :=
  ⟨fun name => ok_of_map_ok (WriteIR.C05_quoteIdentifier_ir name),
   fun str => ok_of_map_ok (WriteIR.C05_quoteSQLString_ir str),
   fun i => ok_of_map_ok (WriteIR.C05_subqueryName_ir i),
   fun src stmts hp s hs source ops hm =>
     WriteIR.C05_dataSource_ir source (parsed_source_some src stmts hp s hs source ops hm),
   WriteIR.C05_dataSource_needs_table.1⟩

/-- the hypothesis "the tree was produced by an error-free parse" of the layer statements is needed: a
    project column without a name (the parser never builds one) makes the regenerated
    `(*subquery).write` panic (`WriteIR.C05_write_project_needs_names`), a nil `*TabularExpr` makes the
    regenerated `splitQueries` panic, `<nil> == $left.x` the regenerated `writeExpression` in join mode
    (`ExprIR.C01_writeExpression_ir_needs_good`) -/
theorem C12_compile_layers_need_parse :
    (∃ sub : Subquery, WriteIR.interpWrite WriteIR.modelSem ⟨[], [], .default⟩ sub = .error (.go .panic)) ∧
    SplitIR.interpSplit [] [] #[] [] .nil = .error (.go .panic) ∧
    ExprIR.interpWriteExpression ExprIR.joinCtx Glue.nilEq = .error (.go .panic) :=
  ⟨⟨_, WriteIR.C05_write_project_needs_names.1⟩, by rw [SplitIR.C02_split_ir]; rfl,
   ExprIR.C01_writeExpression_ir_needs_good.1⟩

/-- non-vacuity: `let m = lim; T | where a >= m and k != kk | project k, a, nm | take 2` with three
    parameters compiles: the interpretation returns SQL -/
theorem C12_compile_ir_nonvacuous :
    ∃ sql, compile E2EMore.PhEx.exParams E2EMore.PhEx.exSrc = .ok sql ∧
      ExprIR.interpCompile List.reverse (some E2EMore.PhEx.exParams) E2EMore.PhEx.exSrc = .ok sql := by
  refine ⟨_, E2EMore.PhEx.ex_text, ?_⟩
  rw [ExprIR.C06_compile_ir]
  show ExprIR.resultM (compile E2EMore.PhEx.exParams E2EMore.PhEx.exSrc) = _
  rw [E2EMore.PhEx.ex_text]
  rfl

/-- non-vacuity of the layer statement: the join program; two subqueries -/
theorem C12_compile_layers_nonvacuous :
    parse Glue.joinSrc = ([Glue.joinStmt], []) ∧
    ∃ t subs, compileStmts Glue.joinSrc [Glue.joinStmt] [] none = .ok ([], some t) ∧
      splitQueries Glue.joinSrc [] [] t = .ok subs ∧ subs.length = 2 :=
  ⟨Glue.joinSrc_parse, _, _, rfl, rfl, rfl⟩

/-! ## 5. cmd/pql -/

/-- `pql.Compile(src)` (nil options) as the interpretation of the translated `Compile` -/
def compileIR (src : Bytes) : Option Bytes := (ExprIR.interpCompile List.reverse none src).toOption

/-- … which is the real compile model the C16 theorems use -/
theorem compileIR_eq : compileIR = CliSem.compileCli := by
  funext src
  unfold compileIR CliSem.compileCli
  rw [ExprIR.C06_compile_ir]
  show (ExprIR.resultM (compile [] src)).toOption = _
  cases compile [] src <;> rfl

/-- **C12 (cmd/pql `run`, translated code).**  For every list of input lines and both values of the
    read-error flag, the interpretation of the regenerated body of `run` — `SplitStatements` and `Scan` the
    model's functions (tied to their translations by statement 2), `pql.Compile` the interpretation of the
    translated `Compile` — returns normally: no panic (`w[len(w)-1]`, `tokens[0]` in bounds), not stuck; its
    observables are the model's with the real compile model.  The same holds for ANY `compile` function. -/
theorem C12_cli_ir_no_panic (lines : List Bytes) (readErr : Bool) :
    (∃ o, CliIR.interpRun (CliIR.modelLib compileIR) lines readErr = .ok o ∧
      o.result = cliRun CliSem.compileCli lines readErr) ∧
    ∀ compile : Bytes → Option Bytes, ∃ o, CliIR.interpRun (CliIR.modelLib compile) lines readErr = .ok o ∧
      o.result = cliRun compile lines readErr := by
  have hall : ∀ compile : Bytes → Option Bytes, ∃ o, CliIR.interpRun (CliIR.modelLib compile) lines readErr = .ok o ∧
      o.result = cliRun compile lines readErr := by
    intro compile
    refine ⟨_, CliIR.interpRun_eq compile lines readErr, CliIR.runOutcome_result compile lines readErr⟩
  refine ⟨?_, hall⟩
  obtain ⟨o, h1, h2⟩ := hall compileIR
  exact ⟨o, h1, by rw [h2, compileIR_eq]⟩

/-- non-vacuity: an edited body does reach the failure modes (`CliIR.empty_slice_panics`,
    `CliIR.no_return_stuck`); one line `T;` runs -/
theorem C12_cli_ir_nonvacuous :
    ∃ o, CliIR.interpRun (CliIR.modelLib compileIR) [Bytes.ofString "T;"] false = .ok o :=
  let ⟨o, h, _⟩ := (C12_cli_ir_no_panic [Bytes.ofString "T;"] false).1
  ⟨o, h⟩

/-! ## summary -/

/-- **C12: the translated code never panics.**  The five statements together, each for all inputs. -/
theorem C12_translated_code_never_panics :
    -- 1 Parse
    (∀ src : Bytes, OpIR.runParse src.length (scan src) (OpIR.bodyOf "Parse") = .ok (parse src) ∧
      ∀ e ∈ (parse src).2, e.fuel = false) ∧
    -- 2 SplitStatements; the switch of Scan
    (∀ (src : Bytes) (lib : LexIR.Lib) (h : LexIR.Heap), lib.scan = scan →
      LexIR.interpSplit lib [.str src] h = .ok ([.strs (splitStatements src)], h)) ∧
    (∀ s : Bytes, Dispatch.interp s = some (scanOne s)) ∧
    -- 3 Walk over a successful parse
    (∀ (src : Bytes) (stmts : List Stmt), parse src = (stmts, []) → ∀ s ∈ stmts, ∀ v : Nat → Node → Bool,
      ∃ r w, AstIR.interpWalk v (Node.ofStmt s) = .ok r w ∧ WalkEvent.panic ∉ w.events) ∧
    -- 4 Compile
    (∀ (ord : List (Bytes × Bytes) → List (Bytes × Bytes)) (opts : Option (List (Bytes × Bytes))) (src : Bytes),
      (∃ sql, ExprIR.interpCompile ord opts src = .ok sql) ∨ ExprIR.interpCompile ord opts src = .error (.go .err)) ∧
    -- 5 cmd/pql
    (∀ (lines : List Bytes) (readErr : Bool),
      ∃ o, CliIR.interpRun (CliIR.modelLib compileIR) lines readErr = .ok o) :=
  ⟨C12_parse_ir_no_panic,
   fun src => (C12_split_ir_no_panic src).1,
   Dispatch.C09_dispatch_interp,
   fun src stmts h s hs v =>
     let ⟨r, w, h1, _, h3⟩ := C12_walk_ir_no_panic src stmts h s hs v
     ⟨r, w, h1, h3⟩,
   fun ord opts src => (C12_compile_ir_no_panic ord opts src).1,
   fun lines readErr =>
     let ⟨o, h, _⟩ := (C12_cli_ir_no_panic lines readErr).1
     ⟨o, h⟩⟩

end Pql.NoPanic
