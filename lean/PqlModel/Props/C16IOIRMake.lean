/-
Property C16, tie by translation: `makeInput`, `makeOutput`, `isTerminal` of cmd/pql/main.go
(`harness/extract_cliio.go`, `Facts.cliIOIR`, `Model/CliIOIR.lean`; trees pinned in Props/C16IOIRTrees.lean).

  `makeInput_run`      step A: the interpretation of the regenerated body = `miSpec` (a function on reader values:
                       `os.Open` allocates objects 1, 2, … in the heap whose object 0 is `os.Stdin`; on the first
                       failure the files opened so far are closed), for every argument list;
  `miLoop_model`       step B: that function is the hand-written `CliIO.makeInput.go` under the reading `den` of reader
                       values as scripts (convention A3 for a repeated `-`);
  `C16_makeInput_ir`   the headline: `makeInput` = the model's `makeInput` for every argument list, and on failure
                       every opened file is closed again, in order;
  `C16_makeOutput_ir`, `C16_isTerminal_ir`.
-/
import PqlModel.Props.C16IOIR
namespace Pql.CliIOIR
open Pql Pql.CliIO
set_option linter.unusedSimpArgs false

/-! ### `makeInput` on the level of reader values -/

/-- `for _, c := range readers { c.Close() }` -/
def closeEach : List (Option RC) → State → M State
  | [], st => .ok st
  | none :: _, _ => goPanic
  | some ⟨_, true⟩ :: l, st => closeEach l st
  | some ⟨h, false⟩ :: l, st => closeEach l { st with closed := st.closed ++ [h] }

theorem closeEach_spec : ∀ (l : List (Option RC)) (st : State), none ∉ l →
    closeEach l st = .ok { st with closed := st.closed ++ fileHandles l }
  | [], st, _ => by simp [closeEach, fileHandles]
  | none :: l, st, h => by simp at h
  | some ⟨h, true⟩ :: l, st, hn => by
    rw [closeEach, closeEach_spec l st (by simpa using hn)]; simp [fileHandles]
  | some ⟨h, false⟩ :: l, st, hn => by
    rw [closeEach, closeEach_spec l _ (by simpa using hn)]; simp [fileHandles, List.append_assoc]

theorem fileHandles_append_nop : ∀ (l : List (Option RC)) (h : Nat), fileHandles (l ++ [some ⟨h, true⟩]) = fileHandles l
  | [], h => rfl
  | none :: l, h => by simp [fileHandles, fileHandles_append_nop l h]
  | some ⟨_, true⟩ :: l, h => by simp [fileHandles, fileHandles_append_nop l h]
  | some ⟨_, false⟩ :: l, h => by simp [fileHandles, fileHandles_append_nop l h]

theorem fileHandles_append_file : ∀ (l : List (Option RC)) (h : Nat), fileHandles (l ++ [some ⟨h, false⟩]) = fileHandles l ++ [h]
  | [], h => rfl
  | none :: l, h => by simp [fileHandles, fileHandles_append_file l h]
  | some ⟨_, true⟩ :: l, h => by simp [fileHandles, fileHandles_append_file l h]
  | some ⟨_, false⟩ :: l, h => by simp [fileHandles, fileHandles_append_file l h]

/-- the loop of `makeInput` over the remaining arguments: (did every `os.Open` succeed, `readers`, the world);
    on the first failure the files opened so far are closed, in order -/
def miLoop (env : Env) : List String → List (Option RC) → State → Bool × List (Option RC) × State
  | [], acc, st => (true, acc, st)
  | p :: ps, acc, st =>
    if p = "-" then miLoop env ps (acc ++ [some ⟨0, true⟩]) st
    else
      match env.openFile p with
      | none => (false, acc, { st with closed := st.closed ++ fileHandles acc })
      | some f => miLoop env ps (acc ++ [some ⟨st.objs.length, false⟩]) { st with objs := st.objs ++ [f] }

theorem close_each_loop (env : Env) (fuel : Nat) : ∀ (l : List (Option RC)) (st : State),
    rangeLoop "c" (execBlock env [] fuel [.close .blank (.var "c")]) (l.map .rc) st =
      (closeEach l st).map fun st' => (.next, st')
  | [], st => by simp [rangeLoop, closeEach, Except.map]
  | none :: l, st => by
    simp [rangeLoop, closeEach]
    io_simp
  | some ⟨h, nop⟩ :: l, st => by
    obtain ⟨vars, objs, readers, closed, created, data⟩ := st
    have ih := fun cl => close_each_loop env fuel l ⟨vars, objs, readers, cl, created, data⟩
    simp only [List.map, rangeLoop]
    generalize rangeLoop "c" (execBlock env [] fuel [.close .blank (.var "c")]) (List.map Val.rc l) = L at ih ⊢
    cases nop <;> (simp [closeEach]; io_simp)

/-- the state inside the argument loop of `makeInput` -/
def miSt (args : List String) (acc : List (Option RC)) (w : State) : State :=
  ⟨[("readers", .rcs acc), ("args", .strs args)], w.objs, w.readers, w.closed, w.created, w.data⟩

def closeRange : Stmt := .range "c" (.var "readers") [.close .blank (.var "c")]

def miLoopBody : List Stmt :=
  match makeInputBody with
  | [_, _, _, .range _ _ b, _] => b
  | _ => []

theorem miLoopBody_eq : miLoopBody =
    [.ite (.eq (.var "path") (.str "-")) [.assign (.set "readers") (.append (.var "readers") .nopR), .continue_] [],
     .open_ (.def_ "f") (.def_ "err") (.var "path"),
     .ite (.ne (.var "err") .nil) [closeRange, .ret [.nil, .var "err"]] [],
     .assign (.set "readers") (.append (.var "readers") (.var "f"))] := rfl

theorem exec_closeRange (env : Env) (fuel : Nat) (e f p a : Val) (acc : List (Option RC)) (hn : none ∉ acc)
    (objs : List Reader) (readers : List (Option RC)) (closed : List Nat) (created : List String) (data : Bytes) :
    exec env [] fuel closeRange
        ⟨[("err", e), ("f", f), ("path", p), ("readers", .rcs acc), ("args", a)], objs, readers, closed, created, data⟩ =
      .ok (.next, ⟨[("err", e), ("f", f), ("path", p), ("readers", .rcs acc), ("args", a)], objs, readers,
        closed ++ fileHandles acc, created, data⟩) := by
  simp (config := { decide := true }) [closeRange, exec, eval, State.get, elemsOf, bind, Except.bind, pure, Except.pure,
    close_each_loop, closeEach_spec _ _ hn, Except.map]

theorem mi_loop (env : Env) (fuel : Nat) (args : List String) : ∀ (ps : List String) (acc : List (Option RC)) (w : State),
    none ∉ acc →
    rangeLoop "path" (execBlock env [] fuel miLoopBody) (ps.map .str) (miSt args acc w) =
      .ok (if (miLoop env ps acc w).1 then Flow.next else .ret [.nil, .err .other],
        miSt args (miLoop env ps acc w).2.1 (miLoop env ps acc w).2.2)
  | [], acc, w, _ => by simp [rangeLoop, miLoop]
  | p :: ps, acc, w, hn => by
    obtain ⟨vars, objs, readers, closed, created, data⟩ := w
    have ih := fun a o (ha : none ∉ a) => mi_loop env fuel args ps a ⟨vars, o, readers, closed, created, data⟩ ha
    simp only [miSt] at ih
    simp only [List.map, rangeLoop]
    generalize rangeLoop "path" (execBlock env [] fuel miLoopBody) (List.map Val.str ps) = L at ih ⊢
    by_cases hp : p = "-"
    · subst hp
      have ih := ih (acc ++ [some ⟨0, true⟩]) objs (by simpa using hn)
      simp [miLoop, miLoopBody_eq, miSt]
      io_simp
    · cases ho : env.openFile p with
      | some f =>
        have ih := ih (acc ++ [some ⟨objs.length, false⟩]) (objs ++ [f]) (by simpa using hn)
        simp [miLoop, miLoopBody_eq, miSt, hp, ho]
        io_simp
      | none =>
        simp [miLoop, miLoopBody_eq, miSt, hp, ho]
        io_simp
        simp (config := { decide := true }) [exec_closeRange _ _ _ _ _ _ _ hn]

/-- `makeInput` on the level of reader values -/
def miSpec (env : Env) (args : List String) (w : State) : List Val × State :=
  match args with
  | [] => ([.rc (some ⟨0, true⟩), .err .nil], w)
  | [p] =>
    if p = "-" then ([.rc (some ⟨0, true⟩), .err .nil], w)
    else ([(openPath env w p).1, (openPath env w p).2.1], (openPath env w p).2.2)
  | _ =>
    let r := miLoop env args [] w
    if r.1 then ([.mrcNew r.2.1, .err .nil], r.2.2) else ([.rc none, .err .other], r.2.2)

/-- **`makeInput`, step A**: the interpretation of the regenerated body is `miSpec`, for every argument list -/
theorem makeInput_run (env : Env) (fuel : Nat) (args : List String) (w : State) :
    (runFn env fuel makeInputFn [.strs args] w).map (fun r => (r.1, r.2.world)) =
      .ok ((miSpec env args w).1, (miSpec env args w).2.world) := by
  obtain ⟨vars, objs, readers, closed, created, data⟩ := w
  simp only [runFn, makeInputFn, bindParams, resultVars, Option.map_some]
  simp (config := { decide := true }) only [List.map, List.filter, List.reverse_cons, List.reverse_nil, List.nil_append, List.cons_append,
    List.append_nil, bne_iff_ne, ne_eq, not_false_eq_true, String.reduceEq, decide_true, ↓reduceIte, String.reduceBNe,
    not_true_eq_false, decide_false]
  rcases args with _ | ⟨p, _ | ⟨q, rest⟩⟩
  · simp [makeInputBody, miSpec, Except.map]; io_simp
  · by_cases hp : p = "-"
    · subst hp
      simp [makeInputBody, miSpec, Except.map]; io_simp
    · cases ho : env.openFile p <;>
        (simp [makeInputBody, miSpec, Except.map, hp]; io_simp; try simp [nilAs])
  · have h := mi_loop env fuel (p :: q :: rest) (p :: q :: rest) [] ⟨vars, objs, readers, closed, created, data⟩ (by simp)
    simp only [miSt] at h
    have h0 : ¬ ((rest.length : Int) + 1 + 1 = 0) := by omega
    have h1 : ¬ ((rest.length : Int) + 1 + 1 = 1) := by omega
    rw [show makeInputBody = [
      .ite (.or (.eq (.len (.var "args")) (.int 0)) (.and (.eq (.len (.var "args")) (.int 1)) (.eq (.idx 0 (.var "args")) (.str "-"))))
        [.ret [.nopR, .nil]] [],
      .ite (.eq (.len (.var "args")) (.int 1)) [.retCall "open" (.idx 0 (.var "args"))] [],
      .assign (.def_ "readers") (.emptySlice "io.ReadCloser"),
      .range "path" (.var "args") miLoopBody,
      .ret [.newMulti (.var "readers"), .nil]] from rfl]
    generalize hm : miLoop env (p :: q :: rest) [] ⟨vars, objs, readers, closed, created, data⟩ = m at h
    obtain ⟨ok, acc, st'⟩ := m
    cases ok <;>
      (simp [miSpec, Except.map, hm] at h ⊢; io_simp; try simp [nilAs])

/-! ### step B: `makeInput` on reader values is the hand-written `CliIO.makeInput` -/

/-- the scripts a list of reader values denotes, standard input under the convention A3 of the hand-written model
    (Lemmas/CliIOModel.lean): every `nopReadCloser{os.Stdin}` is the ONE object `os.Stdin`; by the time a second
    occurrence is read the first has been read to its end, and what a second drain of standard input yields is left
    to the operating system — the model says: nothing.  `used`: has standard input occurred before. -/
def den (objs : List Reader) : Bool → List (Option RC) → List Reader
  | _, [] => []
  | used, some ⟨h, true⟩ :: l => (if used then [] else objs[h]?.getD []) :: den objs true l
  | used, some ⟨h, false⟩ :: l => objs[h]?.getD [] :: den objs used l
  | used, none :: l => [] :: den objs used l

/-- without a `nopReadCloser` among them, `den` is the plain heap lookup of C16IOIR.lean -/
theorem den_eq_denote (objs : List Reader) (used : Bool) : ∀ (l : List (Option RC)) (rs : List Reader),
    denote objs l = some rs → (∀ x ∈ l, ∀ rc, x = some rc → rc.nop = false) → den objs used l = rs
  | [], rs, h, _ => by simp [denote] at h; simp [den, ← h]
  | none :: l, rs, h, _ => by simp [denote] at h
  | some ⟨hd, nop⟩ :: l, rs, h, hf => by
    have hnop : nop = false := by simpa using hf (some ⟨hd, nop⟩) (by simp) ⟨hd, nop⟩ rfl
    subst hnop
    simp only [denote] at h
    cases ho : objs[hd]? with
    | none => simp [ho] at h
    | some r =>
      cases hl : denote objs l with
      | none => simp [ho, hl] at h
      | some rs' =>
        simp only [ho, hl, Option.some.injEq] at h
        subst h
        simp [den, ho, den_eq_denote objs used l rs' hl (fun x hx => hf x (by simp [hx]))]

theorem miLoop_model (env : Env) (stdin : Reader) : ∀ (ps : List String) (acc : List (Option RC)) (st : State) (used : Bool),
    st.objs[0]? = some stdin →
    ∃ t fs, (miLoop env ps acc st).2.2.objs = st.objs ++ fs ∧ (miLoop env ps acc st).2.2.created = st.created ∧
      ((miLoop env ps acc st).1 = true →
        (miLoop env ps acc st).2.1 = acc ++ t ∧
        makeInput.go stdin env.openFile ps used = some (den (miLoop env ps acc st).2.2.objs used t) ∧
        (miLoop env ps acc st).2.2.closed = st.closed) ∧
      ((miLoop env ps acc st).1 = false →
        makeInput.go stdin env.openFile ps used = none ∧
        (miLoop env ps acc st).2.2.closed = st.closed ++ fileHandles acc ++ List.range' st.objs.length fs.length)
  | [], acc, st, used, _ => ⟨[], [], by simp [miLoop, makeInput.go, den]⟩
  | p :: ps, acc, st, used, h0 => by
    by_cases hp : p = "-"
    · subst hp
      obtain ⟨t, fs, h1, h1c, h2, h3⟩ := miLoop_model env stdin ps (acc ++ [some ⟨0, true⟩]) st true h0
      refine ⟨some ⟨0, true⟩ :: t, fs, by simpa [miLoop] using h1, by simpa [miLoop] using h1c, ?_, ?_⟩
      · intro hs
        have hs' : (miLoop env ps (acc ++ [some ⟨0, true⟩]) st).1 = true := by simpa [miLoop] using hs
        obtain ⟨a, b, c⟩ := h2 hs'
        have hz : (miLoop env ps (acc ++ [some ⟨0, true⟩]) st).2.2.objs[0]? = some stdin := by
          rw [h1, List.getElem?_append_left (by
            rcases hl : st.objs with _ | ⟨x, xs⟩
            · simp [hl] at h0
            · simp)]
          exact h0
        simp [miLoop, makeInput.go, a, b, c, den, hz]
      · intro hs
        have hs' : (miLoop env ps (acc ++ [some ⟨0, true⟩]) st).1 = false := by simpa [miLoop] using hs
        obtain ⟨a, b⟩ := h3 hs'
        simp [miLoop, makeInput.go, a, b, fileHandles_append_nop]
    · cases ho : env.openFile p with
      | none =>
        exact ⟨[], [], by simp [miLoop, hp, ho, makeInput.go]⟩
      | some f =>
        obtain ⟨t, fs, h1, h1c, h2, h3⟩ := miLoop_model env stdin ps (acc ++ [some ⟨st.objs.length, false⟩])
          { st with objs := st.objs ++ [f] } used (by
            rcases hl : st.objs with _ | ⟨x, xs⟩
            · simp [hl] at h0
            · simpa [hl] using h0)
        refine ⟨some ⟨st.objs.length, false⟩ :: t, f :: fs, by simpa [miLoop, hp, ho] using h1,
          by simpa [miLoop, hp, ho] using h1c, ?_, ?_⟩
        · intro hs
          have hs' : (miLoop env ps (acc ++ [some ⟨st.objs.length, false⟩]) { st with objs := st.objs ++ [f] }).1 = true := by
            simpa [miLoop, hp, ho] using hs
          obtain ⟨a, b, c⟩ := h2 hs'
          have hz : (miLoop env ps (acc ++ [some ⟨st.objs.length, false⟩]) { st with objs := st.objs ++ [f] }).2.2.objs[st.objs.length]?
              = some f := by
            rw [h1]; simp
          simp [miLoop, hp, ho, makeInput.go, a, b, c, den, hz]
        · intro hs
          have hs' : (miLoop env ps (acc ++ [some ⟨st.objs.length, false⟩]) { st with objs := st.objs ++ [f] }).1 = false := by
            simpa [miLoop, hp, ho] using hs
          obtain ⟨a, b⟩ := h3 hs'
          simp [miLoop, hp, ho, makeInput.go, a, b, fileHandles_append_file, List.range'_succ, List.append_assoc]

/-! ### `makeInput`: the headline theorem -/

/-- the world at the start of the program: the one reader object is `os.Stdin`, nothing is open -/
def world0 (stdin : Reader) : State := ⟨[], [stdin], [], [], [], []⟩

/-- what `RunE` gets from `makeInput`, as the hand-written model represents it: `none` = an error was returned; a
    single reader `r` is `[r]`; a `*multiReadCloser` is the list of its readers -/
def inputOf : List Val → State → Option (List Reader)
  | [.rc (some rc), .err .nil], st => some (den st.objs false [some rc])
  | [.mrcNew l, .err .nil], st => some (den st.objs false l)
  | _, _ => none

/-- **C16 (`makeInput` is the model's `makeInput`).**  For every argument list (none, `-`, one path, several paths with
    `-` anywhere and any number of times, any `os.Open` failing), every standard input and every file system: the
    regenerated body of `makeInput` returns what `CliIO.makeInput` says — an error exactly when the model has `none`,
    else readers denoting the model's scripts in the model's order.  Moreover, when it fails every file it had opened
    (objects 1, 2, …) has been closed, in the order of opening, and when it succeeds nothing has been closed; nothing is
    created.  (`for … range` only: no loop fuel is needed.) -/
theorem C16_makeInput_ir (env : Env) (fuel : Nat) (args : List String) (stdin : Reader) :
    ∃ vs st', runUnit env fuel "makeInput" [.strs args] (world0 stdin) = .ok (vs, st') ∧
      inputOf vs st' = CliIO.makeInput args stdin env.openFile ∧
      st'.closed = (if (CliIO.makeInput args stdin env.openFile).isSome then [] else List.range' 1 (st'.objs.length - 1)) ∧
      st'.created = [] := by
  have hA := makeInput_run env fuel args (world0 stdin)
  obtain ⟨st2, hr, hw⟩ := map_world_ok _ _ _ hA
  simp only [State.world, Prod.mk.injEq] at hw
  obtain ⟨ho, _, hc, hcr, _⟩ := hw
  refine ⟨_, st2, by simp only [runUnit, makeInput_ir]; exact hr, ?_⟩
  rw [hc, hcr]
  rcases args with _ | ⟨p, _ | ⟨q, rest⟩⟩
  · simp [miSpec, inputOf, den, ho, world0, CliIO.makeInput]
  · by_cases hp : p = "-"
    · subst hp
      simp [miSpec, inputOf, den, ho, world0, CliIO.makeInput]
    · cases hof : env.openFile p <;>
        simp [miSpec, inputOf, den, ho, world0, CliIO.makeInput, hp, openPath, hof, makeInput.go]
  · obtain ⟨t, fs, h1, h1c, h2, h3⟩ := miLoop_model env stdin (p :: q :: rest) [] (world0 stdin) false (by simp [world0])
    simp only [miSpec] at ho ⊢
    generalize miLoop env (p :: q :: rest) [] (world0 stdin) = m at *
    obtain ⟨ok, acc, st'⟩ := m
    cases ok with
    | true =>
      obtain ⟨a, b, c⟩ := h2 rfl
      simp only at a b c h1 h1c ho
      simp [inputOf, ho, CliIO.makeInput, a, b, c, h1c, world0]
    | false =>
      obtain ⟨a, b⟩ := h3 rfl
      simp only at a b h1 h1c ho
      simp [inputOf, ho, CliIO.makeInput, a, b, h1, h1c, world0, fileHandles]

/-- three files, the second cannot be opened: the first is closed again, the third is never opened -/
example :
    (runUnit { openFile := fun p => if p = "b" then none else some [(Bytes.ofString p, .eof)] } 0 "makeInput" [.strs ["a", "b", "c"]]
        (world0 [])).toOption.map (fun r => (r.1, r.2.closed, r.2.objs.length)) =
      some ([.rc none, .err .other], [1], 2) := by decide

/-! ### `makeOutput` -/

/-- **C16 (`makeOutput`).**  No argument value or `-`: standard output behind a `nopWriteCloser` (closing it does
    nothing), nothing is created; anything else: `os.Create` of exactly that path, its file or its error returned. -/
theorem C16_makeOutput_ir (env : Env) (fuel : Nat) (arg : String) (w : State) :
    (runUnit env fuel "makeOutput" [.str arg] w).map (fun r => (r.1, r.2.world)) =
      .ok (if arg = "" ∨ arg = "-" then ([.wc (some .stdoutNop), .err .nil], w.world)
        else if env.createFails arg then ([.wc none, .err .other], w.world)
        else ([.wc (some (.file arg)), .err .nil], ({ w with created := w.created ++ [arg] } : State).world)) := by
  obtain ⟨vars, objs, readers, closed, created, data⟩ := w
  simp only [runUnit, makeOutput_ir, runFn, makeOutputFn, bindParams, resultVars, Option.map_some]
  by_cases h1 : arg = ""
  · subst h1
    simp (config := { decide := true }) [makeOutputBody, Except.map]; io_simp; try simp [nilAs]
  · by_cases h2 : arg = "-"
    · subst h2
      simp (config := { decide := true }) [makeOutputBody, Except.map]; io_simp; try simp [nilAs]
    · cases hc : env.createFails arg <;>
        (simp (config := { decide := true }) [makeOutputBody, Except.map, h1, h2]; io_simp; try simp [nilAs, hc])

/-! ### `isTerminal` -/

def itBody : List Stmt :=
  match isTerminalBody with
  | [.forever b] => b
  | _ => []

def itSt (x : Val) (w : State) : State := ⟨[("r", x)], w.objs, w.readers, w.closed, w.created, w.data⟩

theorem it_body_file (env : Env) (fuel h : Nat) (w : State) :
    execBlock env [] fuel itBody (itSt (.rc (some ⟨h, false⟩)) w) =
      .ok (.ret [.bool (env.isTTY h)], itSt (.rc (some ⟨h, false⟩)) w) := by
  simp (config := { decide := true }) [itBody, isTerminalBody, itSt]; io_simp

theorem it_body_nop (env : Env) (fuel h : Nat) (w : State) :
    execBlock env [] fuel itBody (itSt (.rc (some ⟨h, true⟩)) w) = .ok (.next, itSt (.rc (some ⟨h, false⟩)) w) := by
  simp (config := { decide := true }) [itBody, isTerminalBody, itSt]; io_simp

theorem it_body_other (env : Env) (fuel : Nat) (x : Val) (w : State) (hx : ∀ rc, x ≠ .rc (some rc)) :
    execBlock env [] fuel itBody (itSt x w) = .ok (.ret [.bool false], itSt x w) := by
  cases x with
  | rc r =>
    cases r with
    | some rc => exact absurd rfl (hx rc)
    | none => simp (config := { decide := true }) [itBody, isTerminalBody, itSt]; io_simp
  | _ => simp (config := { decide := true }) [itBody, isTerminalBody, itSt]; io_simp

/-- **C16 (`isTerminal`).**  A file: what `term.IsTerminal` says of its descriptor; a `nopReadCloser` (standard input):
    what it says of the wrapped file, found in the second iteration; anything else (nil, a `*multiReadCloser`): false.
    Two iterations of the `for` loop suffice. -/
theorem C16_isTerminal_ir (env : Env) (fuel : Nat) (hf : 2 ≤ fuel) (x : Val) (w : State) :
    (runUnit env fuel "isTerminal" [x] w).map (·.1) =
      .ok [.bool (match x with | .rc (some rc) => env.isTTY rc.h | _ => false)] := by
  obtain ⟨k, rfl⟩ : ∃ k, fuel = (k + 1) + 1 := ⟨fuel - 2, by omega⟩
  have hb : isTerminalBody = [.forever itBody] := rfl
  have hst : ({ w with vars := [("r", x)] } : State) = itSt x w := rfl
  simp only [runUnit, isTerminal_ir, runFn, isTerminalFn, bindParams, resultVars, Option.map_some, hb]
  simp (config := { decide := true }) only [List.append_nil, List.map, List.filter, List.reverse_cons, List.reverse_nil,
    List.nil_append, hst, execBlock, exec, loopN, bind, Except.bind, ↓reduceIte, beq_self_eq_true, bne_self_eq_false]
  by_cases hx : ∀ rc, x ≠ .rc (some rc)
  · rw [it_body_other env _ x w hx]
    cases x with
    | rc r =>
      cases r with
      | some rc => exact absurd rfl (hx rc)
      | none => simp [Except.map, pure, Except.pure, nilAs]
    | _ => simp [Except.map, pure, Except.pure, nilAs]
  · obtain ⟨⟨h, nop⟩, rfl⟩ : ∃ rc, x = .rc (some rc) :=
      Classical.byContradiction fun hc => hx fun rc he => hc ⟨rc, he⟩
    cases nop
    · rw [it_body_file]
      simp [Except.map, pure, Except.pure, nilAs]
    · rw [it_body_nop]
      have hl : (itSt (.rc (some ⟨h, false⟩)) w).leave (itSt (.rc (some ⟨h, true⟩)) w) = itSt (.rc (some ⟨h, false⟩)) w := by
        simp [State.leave, itSt]
      simp only [hl, it_body_file]
      simp [Except.map, pure, Except.pure, nilAs]

end Pql.CliIOIR
