/-
Property C10, tie by translation: `Span()` of every node type.

`spanMethod` (Model/AstIR.lean) is the reading of a `Span()` method from the regenerated tables: the
nil-receiver guard and the argument list of `Facts.spanUnion`, the form of the return of
`Facts.astSpanReturns` ("union": `return unionSpans(…)`, "direct": the only argument as it is); the
arguments call the regenerated `nodeSpan` / `nodeSliceSpan` / `unionSpans` / `nullSpan` bodies, and
`x.F.Span()` dispatches dynamically to `interpSpan` again.  This file proves

  `C10_spanOf_ir`   interpSpan fuel g = pure g.span   for every node g (not the nil interface) of every
                    type, every tree below it, and every fuel ≥ the size of the tree

where `g.span` is the model's `spanOf` of that node type.
-/
import PqlModel.Props.C10SpanIR
namespace Pql.AstIR
open Pql
set_option linter.unusedSimpArgs false

/-! ### the arguments of a union -/

theorem method_span (rec : GNode → M Span) (c : GNode) :
    (semAt rec callDepth).method "Span" (.node c) >>= asSpan = rec c := by
  simp [semAt, callDepth, bind_assoc', pure_bind, asSpan, bind_pure']

/-- the only nil interface is the nil expression, whose model span is the null span -/
theorem span_of_nilIface {c : GNode} (h : c.isNilIface = true) : c.span = .null := by
  match c, h with
  | .node (.expr .nil), _ => rfl
  | .node (.expr (.qident ..)), h | .node (.expr (.lit ..)), h | .node (.expr (.unary ..)), h
  | .node (.expr (.binary ..)), h | .node (.expr (.inE ..)), h | .node (.expr (.paren ..)), h
  | .node (.expr (.call ..)), h | .node (.expr (.index ..)), h => simp [GNode.isNilIface, GNode.goType] at h
  | .prop _, h | .node (.ident _), h | .node (.tabular _), h | .node (.tableRef _), h | .node (.sortTerm _), h
  | .node (.letStmt ..), h => simp [GNode.isNilIface, GNode.goType] at h
  | .node (.op o), h => cases o <;> simp [GNode.isNilIface, GNode.goType] at h
  | .node (.column k _), h => cases k <;> simp [GNode.isNilIface, GNode.goType] at h

theorem nodeSpan_arg (rec : GNode → M Span) (c : GNode) (hc : c.isNilIface = false → rec c = pure c.span) :
    runUnit (semAt rec callDepth) "nodeSpan" [.node c] >>= asSpan = pure c.span := by
  rw [show callDepth = 3 + 1 from rfl, C10_nodeSpan_ir (semAt_spanSem rec 3)]
  cases hn : c.isNilIface
  · have := method_span rec c
    rw [show callDepth = 3 + 1 from rfl] at this
    simp only [Bool.false_eq_true, if_false, this, hc hn]
  · simp [pure_bind, asSpan, span_of_nilIface hn]

theorem call_nodeSpan (rec : GNode → M Span) (d : Nat) (c : GNode) (hc : c.isNilIface = false → rec c = pure c.span) :
    (semAt rec (d + 3)).call "nodeSpan" [.node c] = pure (.span c.span) := by
  show runUnit (semAt rec (d + 1 + 1)) "nodeSpan" [.node c] = _
  rw [C10_nodeSpan_ir (semAt_spanSem rec (d + 1))]
  cases hn : c.isNilIface
  · simp [semAt, hc hn, pure_bind]
  · simp [span_of_nilIface hn]

theorem slice_arg (rec : GNode → M Span) (cs : List GNode)
    (hc : ∀ c ∈ cs, c.isNilIface = false → rec c = pure c.span) :
    runUnit (semAt rec callDepth) "nodeSliceSpan" [.nodes cs] >>= asSpan = pure (sliceSpan (cs.map GNode.span)) := by
  rw [show callDepth = 3 + 1 from rfl,
    C10_nodeSliceSpan_ir (semAt_spanSem rec 3) GNode.span cs (fun g hg => call_nodeSpan rec 1 g (hc g hg))
      (fun l => C10_unionSpans_ir (semAt_spanSem rec 2) l)]
  rfl

theorem union_top (rec : GNode → M Span) (l : List Span) :
    runUnit (semAt rec callDepth) "unionSpans" [.spans l] >>= asSpan = pure (Span.unions l) := by
  rw [show callDepth = 3 + 1 from rfl, C10_unionSpans_ir (semAt_spanSem rec 3)]; rfl

theorem null_top (rec : GNode → M Span) : runUnit (semAt rec callDepth) "nullSpan" [] >>= asSpan = pure Span.null := rfl

/-! ### sizes -/

theorem exprSize_pos (e : Expr) : 0 < e.size := by cases e <;> simp [Expr.size]
theorem tabularSize_pos (t : Tabular) : 0 < t.size := by cases t <;> simp [Tabular.size]

theorem mem_exprs_size : ∀ {es : ExprList} {e : Expr}, e ∈ es.toList → e.size ≤ es.size
  | .nil, _, h => by simp [ExprList.toList] at h
  | .cons a es, e, h => by
    simp only [ExprList.toList, List.mem_cons] at h
    simp only [ExprList.size]
    rcases h with rfl | h
    · omega
    · have := mem_exprs_size h; omega

theorem mem_ops_size : ∀ {os : OpList} {o : Op}, o ∈ os.toList → o.size ≤ os.size
  | .nil, _, h => by simp [OpList.toList] at h
  | .cons a os, o, h => by
    simp only [OpList.toList, List.mem_cons] at h
    simp only [OpList.size]
    rcases h with rfl | h
    · omega
    · have := mem_ops_size h; omega

theorem mem_sum_le {α : Type} (f : α → Nat) : ∀ {l : List α} {a : α}, a ∈ l → f a ≤ (l.map f).sum
  | [], _, h => by cases h
  | b :: l, a, h => by
    simp only [List.map_cons, List.sum_cons]
    rcases List.mem_cons.1 h with rfl | h
    · omega
    · have := mem_sum_le f h; omega

theorem exprs_spansOf : ∀ es : ExprList, es.spansOf = es.toList.map Expr.spanOf
  | .nil => rfl
  | .cons e es => by simp [ExprList.spansOf, ExprList.toList, exprs_spansOf es]

theorem ops_spansOf : ∀ os : OpList, os.spansOf = os.toList.map Op.spanOf
  | .nil => rfl
  | .cons o os => by simp [OpList.spansOf, OpList.toList, ops_spansOf os]

/-! ### children -/

/-- `rec` is right on every node smaller than `n` -/
def Kids (rec : GNode → M Span) (n : Nat) : Prop :=
  ∀ c : GNode, c.size < n → c.isNilIface = false → rec c = pure c.span

section kids
variable {rec : GNode → M Span} {n : Nat} (hk : Kids rec n)
include hk

theorem kidE (e : Expr) (h : e.size < n) :
    runUnit (semAt rec callDepth) "nodeSpan" [.node (.node (.expr e))] >>= asSpan = pure e.spanOf :=
  nodeSpan_arg rec _ (hk _ h)

theorem kidI (i : Option Ident) (h : 1 < n) :
    (semAt rec callDepth).method "Span" (.node (.node (.ident i))) >>= asSpan = pure (Ident.spanOf i) := by
  rw [method_span]; exact hk _ h rfl

theorem kidTab (t : Tabular) (h : t.size < n) :
    (semAt rec callDepth).method "Span" (.node (.node (.tabular t))) >>= asSpan = pure t.spanOf := by
  rw [method_span]; exact hk _ h rfl

theorem kidRef (src : Option Ident) (h : 2 < n) :
    (semAt rec callDepth).method "Span" (.node (.node (.tableRef src))) >>= asSpan = pure (Ident.spanOf src) := by
  rw [method_span]; exact hk _ h rfl

theorem kidTerm (c : Option SortTerm) (h : (Node.sortTerm c).size < n) :
    runUnit (semAt rec callDepth) "nodeSpan" [.node (.node (.sortTerm c))] >>= asSpan =
      pure (match c with | some t => t.spanOf | none => .null) := by
  rw [nodeSpan_arg rec (.node (.sortTerm c)) (hk _ h)]; cases c <;> rfl

theorem kidEs (es : ExprList) (h : es.size < n) :
    runUnit (semAt rec callDepth) "nodeSliceSpan" [.nodes (es.toList.map fun e => .node (.expr e))] >>= asSpan =
      pure (sliceSpan es.spansOf) := by
  rw [slice_arg rec _ (fun c hc => ?_), exprs_spansOf, List.map_map]; rfl
  obtain ⟨e, he, rfl⟩ := List.mem_map.1 hc
  exact hk _ (Nat.lt_of_le_of_lt (mem_exprs_size he) h)

theorem kidOps (os : OpList) (h : os.size < n) :
    runUnit (semAt rec callDepth) "nodeSliceSpan" [.nodes (os.toList.map fun o => .node (.op o))] >>= asSpan =
      pure (sliceSpan os.spansOf) := by
  rw [slice_arg rec _ (fun c hc => ?_), ops_spansOf, List.map_map]; rfl
  obtain ⟨o, ho, rfl⟩ := List.mem_map.1 hc
  exact hk _ (Nat.lt_of_le_of_lt (mem_ops_size ho) h)

theorem kidCols (k : ColKind) (cs : List Column) (h : (cs.map Column.size).sum < n) :
    runUnit (semAt rec callDepth) "nodeSliceSpan" [.nodes (cs.map fun c => .node (.column k c))] >>= asSpan =
      pure (sliceSpan (cs.map Column.spanOf)) := by
  rw [slice_arg rec _ (fun c hc => ?_), List.map_map]; rfl
  obtain ⟨o, ho, rfl⟩ := List.mem_map.1 hc
  exact hk _ (Nat.lt_of_le_of_lt (mem_sum_le Column.size ho) h)

theorem kidTerms (ts : List SortTerm) (h : (ts.map SortTerm.size).sum < n) :
    runUnit (semAt rec callDepth) "nodeSliceSpan" [.nodes (ts.map fun t => .node (.sortTerm (some t)))] >>= asSpan =
      pure (sliceSpan (ts.map SortTerm.spanOf)) := by
  rw [slice_arg rec _ (fun c hc => ?_), List.map_map]; rfl
  obtain ⟨o, ho, rfl⟩ := List.mem_map.1 hc
  exact hk _ (Nat.lt_of_le_of_lt (mem_sum_le SortTerm.size ho) h)

theorem kidProps (ps : List RenderProp) (h : (ps.map fun p => p.value.size + 1).sum < n) :
    runUnit (semAt rec callDepth) "nodeSliceSpan" [.nodes (ps.map .prop)] >>= asSpan =
      pure (sliceSpan (ps.map RenderProp.spanOf)) := by
  rw [slice_arg rec _ (fun c hc => ?_), List.map_map]; rfl
  obtain ⟨o, ho, rfl⟩ := List.mem_map.1 hc
  exact hk (.prop o) (Nat.lt_of_le_of_lt (mem_sum_le (fun p => p.value.size + 1) ho) h)

theorem kidParts (parts : List Ident) (h : parts.length < n) :
    runUnit (semAt rec callDepth) "nodeSliceSpan" [.nodes (parts.map fun i => .node (.ident (some i)))] >>= asSpan =
      pure (sliceSpan (parts.map fun i => i.span)) := by
  rw [slice_arg rec _ (fun c hc => ?_), List.map_map]; rfl
  obtain ⟨o, ho, rfl⟩ := List.mem_map.1 hc
  have := List.length_pos_of_mem ho
  exact hk (.node (.ident (some o))) (by show 1 < n; omega)

end kids

/-! ### every node type -/

syntax "span_case" (" [" Lean.Parser.Tactic.simpLemma,* "]")? : tactic
macro_rules
  | `(tactic| span_case) => `(tactic| span_case [])
  | `(tactic| span_case [$ls,*]) =>
    `(tactic| simp [spanMethod, GNode.goType, GNode.fields, Facts.spanUnion, Facts.astSpanReturns, List.find?, mapArgs,
        argSpan, lookupField, vExpr, vIdent, vExprs, vCols, union_top, null_top, GNode.span, Expr.spanOf, Op.spanOf,
        Tabular.spanOf, Stmt.spanOf, SortTerm.spanOf, Column.spanOf, RenderProp.spanOf, Ident.spanOf, pure_bind, $ls,*])

/-- one level: if `rec` is right below `g`, the table reading of `g`'s `Span()` is the model's span -/
theorem spanMethod_eq (rec : GNode → M Span) :
    (g : GNode) → g.isNilIface = false → Kids rec g.size → spanMethod rec g = pure g.span
  | .prop p, _, hk => by
    simp only [GNode.size] at hk
    have := exprSize_pos p.value
    span_case [kidI hk p.name (by omega), kidE hk p.value (by omega)]
  | .node (.ident none), _, _ => by span_case
  | .node (.ident (some i)), _, _ => by span_case
  | .node (.expr .nil), h, _ => by simp [GNode.isNilIface, GNode.goType] at h
  | .node (.expr (.qident parts)), _, hk => by
    simp only [GNode.size, Node.size, Expr.size] at hk
    span_case [kidParts hk parts (by omega)]
  | .node (.expr (.lit ..)), _, _ => by span_case
  | .node (.expr (.unary os op x)), _, hk => by
    simp only [GNode.size, Node.size, Expr.size] at hk
    span_case [kidE hk x (by omega)]
  | .node (.expr (.binary x os op y)), _, hk => by
    simp only [GNode.size, Node.size, Expr.size] at hk
    span_case [kidE hk x (by omega), kidE hk y (by omega)]
  | .node (.expr (.inE x i lp vals rp)), _, hk => by
    simp only [GNode.size, Node.size, Expr.size] at hk
    span_case [kidE hk x (by omega), kidEs hk vals (by omega)]
  | .node (.expr (.paren lp x rp)), _, hk => by
    simp only [GNode.size, Node.size, Expr.size] at hk
    span_case [kidE hk x (by omega)]
  | .node (.expr (.call fn lp args rp)), _, hk => by
    simp only [GNode.size, Node.size, Expr.size] at hk
    span_case [kidI hk (some fn) (by omega), kidEs hk args (by omega)]
  | .node (.expr (.index x lb idx rb)), _, hk => by
    simp only [GNode.size, Node.size, Expr.size] at hk
    span_case [kidE hk x (by omega), kidE hk idx (by omega)]
  | .node (.tabular .nil), _, _ => by span_case
  | .node (.tabular (.mk src ops)), _, hk => by
    simp only [GNode.size, Node.size, Tabular.size] at hk
    span_case [kidRef hk src (by omega), kidOps hk ops (by omega)]
  | .node (.tableRef t), _, hk => by
    simp only [GNode.size, Node.size] at hk
    span_case [kidI hk t (by omega)]
  | .node (.op (.count p k)), _, _ => by span_case
  | .node (.op (.where_ p k e)), _, hk => by
    simp only [GNode.size, Node.size, Op.size] at hk
    span_case [kidE hk e (by omega)]
  | .node (.op (.sort p k ts)), _, hk => by
    simp only [GNode.size, Node.size, Op.size] at hk
    span_case [kidTerms hk ts (by omega)]
  | .node (.op (.take p k e)), _, hk => by
    simp only [GNode.size, Node.size, Op.size] at hk
    span_case [kidE hk e (by omega)]
  | .node (.op (.top p k e b none)), _, hk => by
    simp only [GNode.size, Node.size, Op.size] at hk
    span_case [kidE hk e (by omega), kidTerm hk none (by simp only [Node.size]; omega)]
  | .node (.op (.top p k e b (some t))), _, hk => by
    simp only [GNode.size, Node.size, Op.size] at hk
    span_case [kidE hk e (by omega), kidTerm hk (some t) (by simp only [Node.size]; omega)]
  | .node (.op (.project p k cs)), _, hk => by
    simp only [GNode.size, Node.size, Op.size] at hk
    span_case [kidCols hk .project cs (by omega)]
  | .node (.op (.extend p k cs)), _, hk => by
    simp only [GNode.size, Node.size, Op.size] at hk
    span_case [kidCols hk .extend cs (by omega)]
  | .node (.op (.summarize p k cs b gs)), _, hk => by
    simp only [GNode.size, Node.size, Op.size] at hk
    span_case [kidCols hk .summarize cs (by omega), kidCols hk .summarize gs (by omega)]
  | .node (.op (.join p k kind ka fl lp right rp on conds)), _, hk => by
    simp only [GNode.size, Node.size, Op.size] at hk
    have := tabularSize_pos right
    span_case [kidI hk fl (by omega), kidTab hk right (by omega), kidEs hk conds (by omega)]
  | .node (.op (.as_ p k n)), _, hk => by
    simp only [GNode.size, Node.size, Op.size] at hk
    span_case [kidI hk n (by omega)]
  | .node (.op (.render p k ch w lp props rp)), _, hk => by
    simp only [GNode.size, Node.size, Op.size] at hk
    span_case [kidI hk ch (by omega), kidProps hk props (by omega)]
  | .node (.sortTerm none), _, _ => by span_case
  | .node (.sortTerm (some t)), _, hk => by
    simp only [GNode.size, Node.size, SortTerm.size] at hk
    span_case [kidE hk t.x (by omega)]
  | .node (.column .project c), _, hk => by
    simp only [GNode.size, Node.size, Column.size] at hk
    span_case [kidI hk c.name (by omega), kidE hk c.x (by omega)]
  | .node (.column .extend c), _, hk => by
    simp only [GNode.size, Node.size, Column.size] at hk
    span_case [kidI hk c.name (by omega), kidE hk c.x (by omega)]
  | .node (.column .summarize c), _, hk => by
    simp only [GNode.size, Node.size, Column.size] at hk
    span_case [kidI hk c.name (by omega), kidE hk c.x (by omega)]
  | .node (.letStmt kw n a x), _, hk => by
    simp only [GNode.size, Node.size] at hk
    span_case [kidI hk n (by omega), kidE hk x (by omega)]

theorem gsize_pos : ∀ g : GNode, 0 < g.size
  | .prop _ => by simp [GNode.size]
  | .node (.ident _) | .node (.tableRef _) | .node (.sortTerm none) | .node (.sortTerm (some _))
  | .node (.column ..) | .node (.letStmt ..) => by simp [GNode.size, Node.size, SortTerm.size, Column.size]
  | .node (.expr e) => exprSize_pos e
  | .node (.tabular t) => tabularSize_pos t
  | .node (.op o) => by cases o <;> simp [GNode.size, Node.size, Op.size]

/-- **`Span()` of every node type is the table reading.**  For every node `g` that is not the nil
    interface — of every type, with every tree below it — and every fuel that is at least the size of
    the tree, dynamic dispatch through the regenerated tables (nil-receiver guard, then `unionSpans` of
    the listed arguments or the only argument as it is, with `nodeSpan` / `nodeSliceSpan` /
    `unionSpans` / `nullSpan` interpreted from their regenerated bodies) returns the model's `spanOf`. -/
theorem C10_spanOf_ir : ∀ (fuel : Nat) (g : GNode), g.isNilIface = false → g.size ≤ fuel →
    interpSpan fuel g = pure g.span
  | 0, g, _, h => by
    have := gsize_pos g
    omega
  | fuel + 1, g, hn, h =>
    spanMethod_eq (interpSpan fuel) g hn fun c hc hcn => C10_spanOf_ir fuel c hcn (by omega)

/-! ### the hypotheses are needed, and the statement is not vacuous -/

/-- without "not the nil interface": a method call on the nil interface panics in Go, while the model's
    `Expr.nil.spanOf` is the null span (which is what `nodeSpan` returns WITHOUT calling `Span()`:
    `C10_nodeSpan_ir`) -/
theorem C10_spanOf_ir_nil_iface (fuel : Nat) : interpSpan (fuel + 1) (.node (.expr .nil)) = goPanic := rfl

/-- without "fuel ≥ size": the dispatch runs out of depth -/
theorem C10_spanOf_ir_no_fuel :
    interpSpan 1 (.node (.expr (.unary ⟨0, 1⟩ .minus (.lit ⟨1, 2⟩ .number [49])))) = stuck := rfl

/-- a non-trivial instance, computed by the interpreter itself: `-1` at [0,2) -/
example : interpSpan 2 (.node (.expr (.unary ⟨0, 1⟩ .minus (.lit ⟨1, 2⟩ .number [49])))) = pure ⟨0, 2⟩ := rfl

/-- … and the same through the theorem -/
example : interpSpan 2 (.node (.expr (.unary ⟨0, 1⟩ .minus (.lit ⟨1, 2⟩ .number [49])))) = pure ⟨0, 2⟩ :=
  C10_spanOf_ir 2 _ rfl (by decide)

/-! ### the field lists the interpreter reads are the regenerated struct declarations -/

def Val.kind : Val → String
  | .span _ => "span"
  | .scalar => "scalar"
  | .node _ => "node"
  | .nodes _ => "nodes"
  | _ => "?"

/-- the slice types of parser/ast.go -/
def sliceTypes : List String :=
  ["[]*Ident", "[]TabularOperator", "[]*SortTerm", "[]*ProjectColumn", "[]*ExtendColumn", "[]*SummarizeColumn", "[]Expr",
   "[]*RenderProperty"]

def typeKind (ty : String) : String :=
  if ty == "Span" then "span"
  else if ty == "string" || ty == "bool" || ty == "TokenKind" then "scalar"
  else if sliceTypes.contains ty then "nodes"
  else "node"

def shapeOK (ty : String) (fs : List (String × Val)) : Bool :=
  (Facts.structFields.find? (·.1 == ty)).map (fun x => x.2.map fun f => (f.1, typeKind f.2)) ==
    some (fs.map fun f => (f.1, f.2.kind))

/-- `GNode.fields` lists, for every node type, exactly the fields of the regenerated struct declaration
    (`Facts.structFields`), in declaration order, each with a value of the right kind -/
theorem C10_fields_match_structs (g : GNode) (ty : String) (fs : List (String × Val)) (h1 : g.goType = some ty)
    (h2 : g.fields = some fs) : shapeOK ty fs = true := by
  rcases g with n | p
  · rcases n with i | e | t | r | o | s | ⟨k, c⟩ | ⟨kw, nm, a, x⟩
    · cases i <;> first | (cases h2; done) | (cases h1; cases h2; rfl)
    · cases e <;> first | (cases h1; done) | (cases h1; cases h2; rfl)
    · cases t <;> first | (cases h2; done) | (cases h1; cases h2; rfl)
    · cases h1; cases h2; rfl
    · cases o <;> (cases h1; cases h2; rfl)
    · cases s <;> first | (cases h2; done) | (cases h1; cases h2; rfl)
    · cases k <;> (cases h1; cases h2; rfl)
    · cases h1; cases h2; rfl
  · cases h1; cases h2; rfl

end Pql.AstIR
