/-
Property C05 (and C02), tie by translation, part 1: `(*subquery).write`.

The cases of the type switch of `(*subquery).write` and the ORDER BY / LIMIT suffix after it are
regenerated from pql.go on every run as an IR (`Facts.writeIR`, `Facts.writeSwitches`; translator
`harness/extract_write.go`, interpreter `Model/WriteIR.lean`).  This file proves that the
hand-written model `Subquery.write` IS the interpretation of the regenerated IR, for every
subquery: every operator, every column / property / sort-term list (by induction over the lists),
every sort and row-count attachment.  A changed literal, a moved separator, a swapped branch, a
different loop order … changes the regenerated IR and breaks `…_ir` (the decoded unit is not the
expected one) or the case theorem.

Where the model maps nil pointers differently from the Go code (it never meets them on trees an
error-free parse returns), the case theorem has a hypothesis, a counterexample theorem shows the
statement false without it, and a non-vacuity example is given:
  project   every column has a name            (Go: nil dereference; model: the empty name)
  extend    every column has an expression     (Go writes the name twice; model once)
  render    the chart type and every property name are present, no value is an empty
            qualified identifier               (Go: nil dereference / index out of range; model: "")
The default case of the switch (`SELECT NULL /* unsupported operator %T */`) is never reached
from `splitQueries`; the model drops the `%T` rendering, see `C05_write_default`.
-/
import PqlModel.Model.WriteIR
import PqlModel.Lemmas.ExactWrite
namespace Pql.WriteIR
open Pql
set_option linter.unusedSimpArgs false

/-- the model's `writeExpression` and `(*subquery).write` as the callees of the IR -/
def modelSem : Sem := ⟨writeExpr, fun ctx s => s.write ctx⟩

/-! ### the monad, loops -/

theorem bind_ok {α β : Type} (a : α) (f : α → M β) : (Except.ok a : M α) >>= f = f a := rfl
theorem bind_error {α β : Type} (e : IErr) (f : α → M β) : (Except.error e : M α) >>= f = .error e := rfl

theorem liftW_bind {α β : Type} (x : Except WErr α) (f : α → Except WErr β) :
    liftW (x >>= f) = liftW x >>= fun a => liftW (f a) := by
  cases x <;> rfl

theorem liftW_pure {α : Type} (a : α) : liftW (pure a : Except WErr α) = .ok a := rfl

theorem leave_push (c c' : Option Ctx) (extra vars : List (String × Val)) :
    (State.mk c (extra ++ vars)).leave ⟨c', vars⟩ = ⟨c, vars⟩ := by
  simp [State.leave]

/-- what a loop writes when iteration `i` on `x` writes `f i x` -/
def collect {α : Type} (f : Nat → α → M (List Chunk)) : Nat → List α → M (List Chunk)
  | _, [] => .ok []
  | i, x :: xs => f i x >>= fun o => collect f (i + 1) xs >>= fun r => .ok (o ++ r)

/-- a loop whose body, from the state with the loop variables bound, writes `f i x` and leaves
    (after its own declarations go out of scope) the state it found -/
theorem forEach_collect {α : Type} (inj : α → Val) (idx elem : String) (body : State → M (List Chunk × State))
    (c : Option Ctx) (vars : List (String × Val)) (f : Nat → α → M (List Chunk)) :
    ∀ (xs : List α) (i : Nat),
      (∀ j, ∀ x ∈ xs, (body ⟨c, (elem, inj x) :: (idx, .nat j) :: vars⟩ >>= fun r => .ok (r.1, r.2.leave ⟨c, vars⟩)) =
        (f j x >>= fun o => .ok (o, ⟨c, vars⟩))) →
      forEach idx elem body i (xs.map inj) ⟨c, vars⟩ = (collect f i xs >>= fun o => .ok (o, ⟨c, vars⟩))
  | [], i, _ => rfl
  | x :: xs, i, hbody => by
    have ih := forEach_collect inj idx elem body c vars f xs (i + 1)
      (fun j y hy => hbody j y (List.mem_cons_of_mem _ hy))
    have hb := hbody i x List.mem_cons_self
    simp only [List.map_cons, forEach, collect]
    cases hr : body ⟨c, (elem, inj x) :: (idx, .nat i) :: vars⟩ with
    | error e =>
      rw [hr] at hb
      cases hf : f i x with
      | error e' => rw [hf] at hb; simp only [bind_error] at hb ⊢; exact hb
      | ok o => rw [hf] at hb; simp [bind_error, bind_ok] at hb
    | ok r =>
      rw [hr] at hb
      cases hf : f i x with
      | error e' => rw [hf] at hb; simp [bind_error, bind_ok] at hb
      | ok o =>
        rw [hf] at hb
        simp only [bind_ok, Except.ok.injEq, Prod.mk.injEq] at hb
        obtain ⟨h1, h2⟩ := hb
        simp only [bind_ok]
        rw [h2, ih, ← h1]
        cases collect f (i + 1) xs <;> rfl

/-- a body that cannot fail -/
theorem collect_pure {α : Type} (h : α → List Chunk) :
    ∀ (xs : List α) (i : Nat), collect (fun _ x => .ok (h x)) i xs = .ok (xs.flatMap h)
  | [], _ => rfl
  | x :: xs, i => by simp [collect, collect_pure h xs (i + 1), bind_ok]

/-! ### separators -/

theorem sepChunks_cons (sep : String) (x : List Chunk) (xs : List (List Chunk)) :
    sepChunks sep (x :: xs) = x ++ xs.flatMap fun c => .txt sep :: c := by
  induction xs generalizing x with
  | nil => simp [sepChunks]
  | cons y ys ih => simp [sepChunks, ih]

/-- a separator before every element -/
theorem collect_flat {α : Type} (g : α → W) (sep : String) (b : Nat → Bool) :
    ∀ (xs : List α) (i : Nat), (∀ j, i ≤ j → b j = true) →
      collect (fun j x => liftW (g x) >>= fun o => .ok ((if b j then [.txt sep] else []) ++ o)) i xs =
        (liftW (xs.mapM g) >>= fun os => .ok (os.flatMap fun c => .txt sep :: c))
  | [], i, _ => rfl
  | x :: xs, i, h => by
    have ih := collect_flat g sep b xs (i + 1) (fun j hj => h j (by omega))
    simp only [collect, List.mapM_cons, ih, h i (Nat.le_refl i)]
    cases g x with
    | error e => rfl
    | ok o =>
      cases xs.mapM g with
      | error e => rfl
      | ok os => simp [liftW, bind_ok, bind, Except.bind, pure, Except.pure]

/-- a separator before every element but the first -/
theorem collect_sep {α : Type} (g : α → W) (sep : String) (b : Nat → Bool) (xs : List α) (i : Nat)
    (h0 : b i = false) (h : ∀ j, i < j → b j = true) :
    collect (fun j x => liftW (g x) >>= fun o => .ok ((if b j then [.txt sep] else []) ++ o)) i xs =
      (liftW (xs.mapM g) >>= fun os => .ok (sepChunks sep os)) := by
  cases xs with
  | nil => rfl
  | cons x xs =>
    have ih := collect_flat g sep b xs (i + 1) (fun j hj => h j (by omega))
    simp only [collect, List.mapM_cons, ih, h0]
    cases g x with
    | error e => rfl
    | ok o =>
      cases xs.mapM g with
      | error e => rfl
      | ok os => simp [liftW, bind_ok, bind, Except.bind, pure, Except.pure, sepChunks_cons]

/-- a separator after every element but the last (`n` is the length of the whole slice) -/
theorem collect_notLast {α : Type} (g : α → W) (sep : String) :
    ∀ (xs : List α) (i n : Nat), n = i + xs.length →
      collect (fun j x => liftW (g x) >>= fun o => .ok (o ++ if j + 1 < n then [.txt sep] else [])) i xs =
        (liftW (xs.mapM g) >>= fun os => .ok (sepChunks sep os))
  | [], i, n, _ => rfl
  | [x], i, n, h => by
    have : ¬ (i + 1 < n) := by simp at h; omega
    simp only [collect, List.mapM_cons, List.mapM_nil, this]
    cases g x <;> simp [liftW, bind_ok, bind_error, bind, Except.bind, pure, Except.pure, sepChunks]
  | x :: y :: xs, i, n, h => by
    have ih := collect_notLast g sep (y :: xs) (i + 1) n (by simp at h ⊢; omega)
    have : i + 1 < n := by simp at h; omega
    rw [collect, ih]
    simp only [List.mapM_cons, this]
    cases g x with
    | error e => rfl
    | ok o =>
      cases g y with
      | error e => rfl
      | ok o' =>
        cases xs.mapM g with
        | error e => rfl
        | ok os => simp [liftW, bind_ok, bind, Except.bind, pure, Except.pure, sepChunks]

/-! ### evaluating a unit -/

theorem modelSem_we : modelSem.writeExpression = writeExpr := rfl
theorem modelSem_sw : modelSem.subWrite = fun ctx s => s.write ctx := rfl

theorem len_sub1 (n : Nat) : n + 1 - n = 1 := by omega
theorem len_sub2 (n : Nat) : n + 1 + 1 - n = 2 := by omega
theorem len_sub3 (n : Nat) : n + 1 + 1 + 1 - n = 3 := by omega
theorem len_sub4 (n : Nat) : n + 1 + 1 + 1 + 1 - n = 4 := by omega

syntax "ir_simp" (" [" Lean.Parser.Tactic.simpLemma,* "]")? : tactic
macro_rules
  | `(tactic| ir_simp) => `(tactic| ir_simp [])
  | `(tactic| ir_simp [$ls,*]) =>
    `(tactic| simp [execBlock, exec, evalCond, State.get, State.declare, State.leave, exprAt, strAt, chunksAt, listAt,
        nilAt, flagAt, natOf, nameOf, someOrPanic, assignIn, len_sub1, len_sub2, len_sub3, len_sub4, modelSem_we, modelSem_sw, liftW, goPanic, stuck, bind, Except.bind, pure,
        Except.pure, Except.map, $ls,*])

/-! ### the suffix: ORDER BY and LIMIT -/

def termBody : List Stmt :=
  [.expr ⟨"term", "X"⟩,
   .ite (.flag ⟨"term", "Asc"⟩) [.lit " ASC"] [.lit " DESC"],
   .ite (.flag ⟨"term", "NullsFirst"⟩) [.lit " NULLS FIRST"] [.lit " NULLS LAST"],
   .ite (.notLast "i" ⟨"sub", "sort.Terms"⟩) [.lit ", "] []]

def suffixIR : List Stmt :=
  [.ite (.notNil ⟨"sub", "sort"⟩) [.lit " ORDER BY ", .for_ "i" "term" ⟨"sub", "sort.Terms"⟩ termBody] [],
   .ite (.notNil ⟨"sub", "take"⟩) [.lit " LIMIT ", .expr ⟨"sub", "take.RowCount"⟩] [],
   .ret]

theorem suffix_ir : decode (irOf "write:suffix") = some suffixIR := by rfl

/-- one sort term, as the model writes it -/
def termW (ctx : Ctx) (t : SortTerm) : W :=
  writeExpr ctx t.x >>= fun x =>
    pure (x ++ [.txt (if t.asc then " ASC" else " DESC"), .txt (if t.nullsFirst then " NULLS FIRST" else " NULLS LAST")])

theorem writeSortTerms_eq (ctx : Ctx) : ∀ ts, writeSortTerms ctx ts = ts.mapM (termW ctx)
  | [] => rfl
  | t :: ts => by
    rw [writeSortTerms, List.mapM_cons, writeSortTerms_eq ctx ts, termW]
    cases writeExpr ctx t.x <;> rfl

theorem term_body (ctx : Ctx) (sub : Subquery) (ts : List SortTerm) (h : sub.sort = some ts) (i : Nat) (t : SortTerm) :
    (execBlock modelSem termBody ⟨some ctx, [("term", .term t), ("i", .nat i), ("sub", .sub sub)]⟩ >>= fun r =>
        .ok (r.1, r.2.leave ⟨some ctx, [("sub", .sub sub)]⟩)) =
      ((liftW (termW ctx t) >>= fun o => .ok (o ++ if i + 1 < ts.length then [.txt ", "] else [])) >>= fun o =>
        .ok (o, ⟨some ctx, [("sub", .sub sub)]⟩)) := by
  cases hx : writeExpr ctx t.x with
  | error e => ir_simp [termBody, termW, hx]
  | ok x =>
    cases ha : t.asc <;> cases hn : t.nullsFirst <;> by_cases hl : i + 1 < ts.length <;>
      ir_simp [termBody, termW, hx, ha, hn, hl, h]

theorem sort_loop (ctx : Ctx) (sub : Subquery) (ts : List SortTerm) (h : sub.sort = some ts) :
    forEach "i" "term" (execBlock modelSem termBody) 0 (ts.map .term) ⟨some ctx, [("sub", .sub sub)]⟩ =
      (liftW (writeSortTerms ctx ts) >>= fun xs => .ok (sepChunks ", " xs, ⟨some ctx, [("sub", .sub sub)]⟩)) := by
  rw [forEach_collect Val.term "i" "term" _ (some ctx) [("sub", .sub sub)] _ ts 0 (fun j t _ => term_body ctx sub ts h j t),
    collect_notLast (termW ctx) ", " ts 0 ts.length (by simp), writeSortTerms_eq]
  cases ts.mapM (termW ctx) <;> rfl

theorem suffix_exec (ctx : Ctx) (sub : Subquery) :
    execBlock modelSem suffixIR ⟨some ctx, [("sub", .sub sub)]⟩ =
      (liftW (Exact.sortW ctx sub.sort >>= fun s => Exact.takeW ctx sub.take >>= fun t => pure (s ++ t)) >>= fun o =>
        .ok (o, ⟨some ctx, [("sub", .sub sub)]⟩)) := by
  cases hs : sub.sort with
  | none =>
    cases ht : sub.take with
    | none => ir_simp [suffixIR, hs, ht, Exact.sortW, Exact.takeW]
    | some n => cases hx : writeExpr ctx n <;> ir_simp [suffixIR, hs, ht, hx, Exact.sortW, Exact.takeW]
  | some ts =>
    have hl := sort_loop ctx sub ts hs
    cases hw : writeSortTerms ctx ts with
    | error e => rw [hw] at hl; ir_simp [suffixIR, hs, hl, hw, Exact.sortW, Exact.takeW]
    | ok xs =>
      rw [hw] at hl
      cases ht : sub.take with
      | none => ir_simp [suffixIR, hs, ht, hl, hw, Exact.sortW, Exact.takeW]
      | some n => cases hx : writeExpr ctx n <;> ir_simp [suffixIR, hs, ht, hx, hl, hw, Exact.sortW, Exact.takeW]

/-! ### a case of the switch followed by the suffix -/

theorem interpWrite_of (ctx : Ctx) (sub : Subquery) (key : String) (body : List Stmt) (R : W)
    (hkey : caseKey "write" (opTypeKey sub.op) = some key)
    (hir : decode (irOf key) = some body)
    (hret : returns body = false)
    (hbody : execBlock modelSem body ⟨some ctx, opVars sub⟩ = (liftW R >>= fun o => .ok (o, ⟨some ctx, opVars sub⟩)))
    (hmodel : Exact.bodyW ctx sub = R >>= fun b => pure (some b)) :
    interpWrite modelSem ctx sub = liftW (sub.write ctx) := by
  unfold interpWrite
  simp only [hkey, hir, suffix_ir]
  rw [hbody, Exact.write_eq, hmodel, hret]
  cases R with
  | error e => rfl
  | ok b =>
    simp only [liftW, bind_ok, opVars, leave_push, suffix_exec]
    simp only [bind, Except.bind, pure, Except.pure, Exact.tailW]
    cases Exact.sortW ctx sub.sort with
    | error e => rfl
    | ok s =>
      cases Exact.takeW ctx sub.take with
      | error e => rfl
      | ok t => simp [liftW]

/-! ### no operator / as, count, where -/

def plainIR : List Stmt := [.lit "SELECT * FROM ", .str ⟨"sub", "sourceSQL"⟩]
theorem plain_ir : decode (irOf "write:nil,AsOperator") = some plainIR := by rfl

def countIR : List Stmt := [.lit "SELECT COUNT(*) AS \"count()\" FROM ", .str ⟨"sub", "sourceSQL"⟩]
theorem count_ir : decode (irOf "write:CountOperator") = some countIR := by rfl

def whereIR : List Stmt :=
  [.lit "SELECT * FROM ", .str ⟨"sub", "sourceSQL"⟩, .lit " WHERE ", .expr ⟨"op", "Predicate"⟩]
theorem where_ir : decode (irOf "write:WhereOperator") = some whereIR := by rfl

/-- **no operator** (a bare source, or the subquery a sort / take opens) -/
theorem C05_write_none (ctx : Ctx) (sub : Subquery) (h : sub.op = none) :
    interpWrite modelSem ctx sub = liftW (sub.write ctx) := by
  apply interpWrite_of ctx sub "write:nil,AsOperator" plainIR (pure (.txt "SELECT * FROM " :: sub.source))
  · rw [h]; decide
  · exact plain_ir
  · rfl
  · ir_simp [plainIR, opVars, h]
  · simp [Exact.bodyW, h]

/-- **as** -/
theorem C05_write_as (ctx : Ctx) (sub : Subquery) (p k : Span) (n : Option Ident) (h : sub.op = some (.as_ p k n)) :
    interpWrite modelSem ctx sub = liftW (sub.write ctx) := by
  apply interpWrite_of ctx sub "write:nil,AsOperator" plainIR (pure (.txt "SELECT * FROM " :: sub.source))
  · rw [h]; show caseKey "write" "AsOperator" = _; decide
  · exact plain_ir
  · rfl
  · ir_simp [plainIR, opVars, h]
  · simp [Exact.bodyW, h]

/-- **count** -/
theorem C05_write_count (ctx : Ctx) (sub : Subquery) (p k : Span) (h : sub.op = some (.count p k)) :
    interpWrite modelSem ctx sub = liftW (sub.write ctx) := by
  apply interpWrite_of ctx sub "write:CountOperator" countIR
    (pure (.txt "SELECT COUNT(*) AS \"count()\" FROM " :: sub.source))
  · rw [h]; show caseKey "write" "CountOperator" = _; decide
  · exact count_ir
  · rfl
  · ir_simp [countIR, opVars, h]
  · simp [Exact.bodyW, h]

/-- **where** -/
theorem C05_write_where (ctx : Ctx) (sub : Subquery) (p k : Span) (pred : Expr) (h : sub.op = some (.where_ p k pred)) :
    interpWrite modelSem ctx sub = liftW (sub.write ctx) := by
  apply interpWrite_of ctx sub "write:WhereOperator" whereIR
    (writeExpr ctx pred >>= fun x => pure (.txt "SELECT * FROM " :: sub.source ++ .txt " WHERE " :: x))
  · rw [h]; show caseKey "write" "WhereOperator" = _; decide
  · exact where_ir
  · rfl
  · cases hx : writeExpr ctx pred <;> ir_simp [whereIR, opVars, h, hx]
  · cases hx : writeExpr ctx pred <;> simp [Exact.bodyW, h, hx, bind, Except.bind, pure, Except.pure]

end Pql.WriteIR
