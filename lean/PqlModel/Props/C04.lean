/-
Property C04 — literals and names are transmitted as data, never as SQL syntax.

`quoteSQLString` / `quoteIdentifier` followed by the SQL lexer's quoted-token reader is the
identity on *every* byte string (quotes of all kinds, comment markers, semicolons, NUL, invalid
UTF-8 …): the content can neither close the quote nor leak into the following text.
Under ClickHouse's backslash rules the same holds for contents without a backslash; contents
with a backslash are the recorded finding K1.
-/
import PqlModel.Model.Compile
import PqlModel.Spec.Sql.Lex
namespace Pql.C04
open Pql Sql

def dbl (q : UInt8) (v : Bytes) : Bytes := v.flatMap fun b => if b == q then [q, q] else [b]

theorem quoteWith_eq (q : UInt8) (v : Bytes) : quoteWith q v = q :: (dbl q v ++ [q]) := rfl

/-- reading the doubled body back, in either mode, as long as no backslash interferes -/
theorem lexQuoted_dbl (mode : QuoteMode) (q : UInt8) (v rest : Bytes)
    (hrest : rest.head? ≠ some q)
    (hbs : mode = .clickhouse → (92 : UInt8) ∉ v ∧ q ≠ 92) :
    lexQuoted mode q (dbl q v ++ q :: rest) = some (v, rest) := by
  induction v with
  | nil =>
    simp only [dbl, List.flatMap_nil, List.nil_append]
    unfold lexQuoted
    cases rest with
    | nil => simp
    | cons d rest' =>
      have : d ≠ q := by intro h; apply hrest; simp [h]
      simp [this]
  | cons b v ih =>
    have ih' := ih (fun hm => by
      have := hbs hm
      exact ⟨fun h => this.1 (List.mem_cons_of_mem _ h), this.2⟩)
    by_cases hb : b = q
    · subst hb
      have : dbl b (b :: v) = b :: b :: dbl b v := by simp [dbl]
      rw [this]
      simp only [List.cons_append]
      unfold lexQuoted
      simp only [beq_self_eq_true, ↓reduceIte]
      rw [show dbl b v ++ b :: rest = dbl b v ++ b :: rest from rfl, ih']
      simp
    · have hd : dbl q (b :: v) = b :: dbl q v := by simp [dbl, hb]
      rw [hd]
      simp only [List.cons_append]
      unfold lexQuoted
      have hne : (b == q) = false := by simp [hb]
      simp only [hne, Bool.false_eq_true, ↓reduceIte]
      by_cases hm : mode = .clickhouse
      · have h92 := (hbs hm).1
        have : b ≠ 92 := by intro h; apply h92; simp [h]
        simp [this, ih']
      · have : (mode == QuoteMode.clickhouse) = false := by
          cases mode <;> simp_all
        simp [this, ih']

/-- **C04 (strings decode, standard SQL).** For every byte string `v` and every following text
    that does not start with a quote, the SQL lexer reads `quoteSQLString v` back as exactly
    `v` and continues exactly after it. -/
theorem C04_decode_string (v rest : Bytes) (hrest : rest.head? ≠ some 39) :
    lexQuoted .standard 39 ((quoteSQLString v).tail ++ rest) = some (v, rest) := by
  simp only [quoteSQLString, quoteWith_eq, List.tail_cons, List.append_assoc, List.singleton_append]
  exact lexQuoted_dbl .standard 39 v rest hrest (by intro h; cases h)

/-- **C04 (names decode, standard SQL).** -/
theorem C04_decode_identifier (v rest : Bytes) (hrest : rest.head? ≠ some 34) :
    lexQuoted .standard 34 ((quoteIdentifier v).tail ++ rest) = some (v, rest) := by
  simp only [quoteIdentifier, quoteWith_eq, List.tail_cons, List.append_assoc, List.singleton_append]
  exact lexQuoted_dbl .standard 34 v rest hrest (by intro h; cases h)

/-- **C04 (ClickHouse rules, partial).** Under backslash-escape rules the same holds for every
    content without a backslash.  Contents with a backslash are finding K1 (see below). -/
theorem C04_decode_string_clickhouse_partial (v rest : Bytes) (hrest : rest.head? ≠ some 39)
    (hv : (92 : UInt8) ∉ v) :
    lexQuoted .clickhouse 39 ((quoteSQLString v).tail ++ rest) = some (v, rest) := by
  simp only [quoteSQLString, quoteWith_eq, List.tail_cons, List.append_assoc, List.singleton_append]
  exact lexQuoted_dbl .clickhouse 39 v rest hrest (fun _ => ⟨hv, by decide⟩)

theorem C04_decode_identifier_clickhouse_partial (v rest : Bytes) (hrest : rest.head? ≠ some 34)
    (hv : (92 : UInt8) ∉ v) :
    lexQuoted .clickhouse 34 ((quoteIdentifier v).tail ++ rest) = some (v, rest) := by
  simp only [quoteIdentifier, quoteWith_eq, List.tail_cons, List.append_assoc, List.singleton_append]
  exact lexQuoted_dbl .clickhouse 34 v rest hrest (fun _ => ⟨hv, by decide⟩)

/-- **K1, witnessed.** The full ClickHouse statement is false: the string `a\` is quoted as
    `'a\'`, whose closing quote ClickHouse reads as escaped — the literal does not terminate. -/
theorem K1_backslash_witness :
    lexQuoted .clickhouse 39 ((quoteSQLString [97, 92]).tail ++ [59]) ≠ some ([97, 92], [59]) := by decide

/-- the hypotheses of the decode theorems are satisfiable: `it's` followed by `;` -/
example : lexQuoted .standard 39 ((quoteSQLString [105, 116, 39, 115]).tail ++ [59]) = some ([105, 116, 39, 115], [59]) :=
  C04_decode_string _ _ (by decide)

end Pql.C04
