/-
Property C03 (and C01), tie by translation: `buildJoinCondition` and `rewriteSimpleJoinCondition`.

`harness/extract_joincond.go` regenerates an IR of the two expression-building functions from the
go/ast of pql.go on every run (`Facts.joinCondIR`); `Model/JoinCondIR.lean` interprets it.  This file
proves that the hand-written model functions ARE the interpretation of the regenerated IR:

  `C03_rewriteSimpleJoinCondition_ir`   for every expression `c` (nil included)
  `C03_buildJoinCondition_ir`           for every condition list (any length)

Together with `SplitIR.C02_split_ir` (whose `tryexprjoin` primitive is `writeExpr` on the model's
`buildJoinCondition`) the whole join case of `splitQueries` down to `writeExpression` is translated
code.  The Go map lookup `builtinIdentifiers[name] != ""` is `(builtinIdent name).isSome` in the
model; they agree because no entry of the regenerated table has an empty value (`builtin_all`).
-/
import PqlModel.Model.JoinCondIR
namespace Pql.JoinCondIR
open Pql
set_option linter.unusedSimpArgs false

/-! ### the regenerated units, decoded -/

def rewriteGuard : Cond :=
  .or (.or (.or (.notOk "ok") (.lenNe1 "id" "Parts")) (.flag "id" "Parts[0].Quoted"))
    (.mapNonEmpty "builtinIdentifiers" "id" "Parts[0].Name")

def rewriteResult : List String :=
  ["node", "BinaryExpr",
     "X", "node", "QualifiedIdent", "Parts", "list", "node", "Ident", "Name", "const", "leftJoinTableAlias", "end",
       "path", "id", "Parts[0]", "end", "end",
     "Op", "tok", "TokenEq",
     "Y", "node", "QualifiedIdent", "Parts", "list", "node", "Ident", "Name", "const", "rightJoinTableAlias", "end",
       "path", "id", "Parts[0]", "end", "end",
   "end"]

def rewriteIR : List Stmt :=
  [.assert "id" "ok" "c" "QualifiedIdent",
   .ite rewriteGuard [.ret ["var", "c"]],
   .ret rewriteResult]

def andTerm : List String :=
  ["node", "BinaryExpr", "X", "var", "x", "Op", "tok", "TokenAnd", "Y", "call", "rewriteSimpleJoinCondition", "var", "y",
   "end"]

def buildIR : List Stmt :=
  [.ite (.lenEq0 "conds") [.ret ["asq", "node", "Ident", "Name", "str", "true", "end"]],
   .def_ "x" ["call", "rewriteSimpleJoinCondition", "index", "conds", "0"],
   .forRange "y" "conds" "1" [.set "x" andTerm],
   .ret ["var", "x"]]

theorem rewrite_ir :
    (irOf "rewriteSimpleJoinCondition").map (fun x => (x.1, decode x.2)) = some (["c"], some rewriteIR) := by rfl

theorem build_ir : (irOf "buildJoinCondition").map (fun x => (x.1, decode x.2)) = some (["conds"], some buildIR) := by
  rfl

def finish : Option Val × Env → IM Val
  | (some x, _) => .ok x
  | (none, _) => stuck

theorem interpFn_rewrite (sem : Sem) (arg : Val) :
    interpFn sem "rewriteSimpleJoinCondition" arg = execBlock sem rewriteIR [("c", arg)] >>= finish := by
  rfl

theorem interpFn_build (sem : Sem) (arg : Val) :
    interpFn sem "buildJoinCondition" arg = execBlock sem buildIR [("conds", arg)] >>= finish := by
  rfl

/-! ### `rewriteSimpleJoinCondition` -/

theorem bind_ok {ε α β : Type} (a : α) (f : α → Except ε β) : (Except.ok a : Except ε α) >>= f = f a := rfl
theorem pure_ok {ε α : Type} (a : α) : (pure a : Except ε α) = .ok a := rfl

/-- no built-in identifier is rewritten to the empty string: `m[k] != ""` is `k ∈ m` -/
theorem builtin_all : Facts.builtinIdentifiers.all (fun kv => kv.2 != "") = true := by decide

theorem builtin_nonempty (name : Bytes) (s : String) (h : builtinIdent name = some s) : (s != "") = true := by
  unfold builtinIdent at h
  cases hf : Facts.builtinIdentifiers.find? (fun kv => Bytes.ofString kv.1 == name) with
  | none => rw [hf] at h; simp at h
  | some kv =>
    rw [hf] at h
    simp only [Option.map_some, Option.some.injEq] at h
    subst h
    exact (List.all_eq_true.mp builtin_all) kv (List.mem_of_find?_eq_some hf)

/-- the value the function builds for a single unquoted part -/
theorem result_eval (sem : Sem) (p : Ident) (c : Expr) :
    evalWhole sem [("ok", .bool true), ("id", .expr (.qident [p])), ("c", .expr c)] rewriteResult =
      .ok (.expr (.binary (.qident [⟨leftAlias, .zero, false⟩, p]) .zero .eq (.qident [⟨rightAlias, .zero, false⟩, p]))) := by
  rfl

theorem var_c_eval (sem : Sem) (a b : String × Val) (v : Val) (h1 : (a.1 == "c") = false) (h2 : (b.1 == "c") = false) :
    evalWhole sem [a, b, ("c", v)] ["var", "c"] = .ok v := by
  simp [evalWhole, evalTerm, get, List.find?, h1, h2, bind_ok, pure_ok, Except.map, bind, Except.bind, pure, Except.pure]

syntax "jc_simp" (" [" Lean.Parser.Tactic.simpLemma,* "]")? : tactic
macro_rules
  | `(tactic| jc_simp) => `(tactic| jc_simp [])
  | `(tactic| jc_simp [$ls,*]) =>
    `(tactic| simp [execBlock, exec, evalCond, get, partsOf, headOrPanic, assignIn, finish, bind_ok, pure_ok, exprTypeName,
        goPanic, stuck, Except.map, bind, Except.bind, pure, Except.pure, $ls,*])

theorem rewrite_eq (sem : Sem) (c : Expr) :
    interpFn sem "rewriteSimpleJoinCondition" (.expr c) = .ok (.expr (rewriteSimpleJoinCondition c)) := by
  rw [interpFn_rewrite]
  cases c with
  | qident parts =>
    match parts with
    | [] => rfl
    | [p] =>
      cases hq : p.quoted with
      | true => jc_simp [rewriteIR, rewriteGuard, rewriteSimpleJoinCondition, var_c_eval, hq]
      | false =>
        cases hb : builtinIdent p.name with
        | some s =>
          have hs := builtin_nonempty p.name s hb
          jc_simp [rewriteIR, rewriteGuard, rewriteSimpleJoinCondition, var_c_eval, hq, hb, hs]
        | none => jc_simp [rewriteIR, rewriteGuard, rewriteSimpleJoinCondition, result_eval, hq, hb]
    | p :: q :: r => jc_simp [rewriteIR, rewriteGuard, rewriteSimpleJoinCondition, var_c_eval]
  | _ => rfl

/-- **`rewriteSimpleJoinCondition` is translated code**: for every expression (the nil interface
    included) the interpretation of the regenerated body returns what the model function returns -/
theorem C03_rewriteSimpleJoinCondition_ir (c : Expr) : interpRewrite c = .ok (rewriteSimpleJoinCondition c) := by
  unfold interpRewrite
  rw [rewrite_eq]
  rfl

/-! ### `buildJoinCondition` -/

theorem buildSem_call (c : Expr) :
    buildSem.call "rewriteSimpleJoinCondition" (.expr c) = .ok (.expr (rewriteSimpleJoinCondition c)) := by
  simp [buildSem, C03_rewriteSimpleJoinCondition_ir, Except.map]

/-- `x = &parser.BinaryExpr{X: x, Op: parser.TokenAnd, Y: rewriteSimpleJoinCondition(y)}` -/
theorem and_eval (x y : Expr) (v : Val) :
    evalWhole buildSem [("y", .expr y), ("x", .expr x), ("conds", v)] andTerm =
      .ok (.expr (.binary x .zero .and_ (rewriteSimpleJoinCondition y))) := by
  simp [evalWhole, andTerm, evalTerm, evalFields, get, List.find?, mkNode, field, tokOf, TokKind.goName, buildSem_call,
    bind_ok, pure_ok, Except.map, bind, Except.bind, pure, Except.pure]

theorem first_eval (c : Expr) (l : List Expr) :
    evalWhole buildSem [("conds", .exprs (c :: l))] ["call", "rewriteSimpleJoinCondition", "index", "conds", "0"] =
      .ok (.expr (rewriteSimpleJoinCondition c)) := by
  simp [evalWhole, evalTerm, get, List.find?, headOrPanic, buildSem_call, bind_ok, pure_ok, Except.map, bind,
    Except.bind, pure, Except.pure]

/-- the loop `for _, y := range conds[1:] { x = … }` is the model's `go` -/
theorem loop_eq (v : Val) : ∀ (rest : ExprList) (x : Expr),
    forEach "y" (execBlock buildSem [.set "x" andTerm]) rest.toList [("x", .expr x), ("conds", v)] =
      .ok (none, [("x", .expr (buildJoinCondition.go x rest)), ("conds", v)])
  | .nil, x => rfl
  | .cons y ys, x => by
    have ih := loop_eq v ys (.binary x .zero .and_ (rewriteSimpleJoinCondition y))
    simp only [ExprList.toList, forEach, buildJoinCondition.go]
    jc_simp [and_eval]
    exact ih

theorem var_x_eval (sem : Sem) (x v : Val) : evalWhole sem [("x", x), ("conds", v)] ["var", "x"] = .ok x := by
  rfl

/-- the four statements of `buildJoinCondition` on a non-empty slice -/
theorem st1_eval (c : Expr) (l : List Expr) :
    exec buildSem (.ite (.lenEq0 "conds") [.ret ["asq", "node", "Ident", "Name", "str", "true", "end"]])
        [("conds", .exprs (c :: l))] = .ok (none, [("conds", .exprs (c :: l))]) := by
  jc_simp

theorem st2_eval (c : Expr) (l : List Expr) :
    exec buildSem (.def_ "x" ["call", "rewriteSimpleJoinCondition", "index", "conds", "0"]) [("conds", .exprs (c :: l))] =
      .ok (none, [("x", .expr (rewriteSimpleJoinCondition c)), ("conds", .exprs (c :: l))]) := by
  jc_simp [first_eval]

theorem st3_eval (c x : Expr) (rest : ExprList) :
    exec buildSem (.forRange "y" "conds" "1" [.set "x" andTerm])
        [("x", .expr x), ("conds", .exprs (c :: rest.toList))] =
      .ok (none, [("x", .expr (buildJoinCondition.go x rest)), ("conds", .exprs (c :: rest.toList))]) := by
  simp only [exec, get, List.find?, bind_ok]
  simp only [bind, Except.bind]
  exact loop_eq _ rest x

theorem st4_eval (x v : Val) :
    exec buildSem (.ret ["var", "x"]) [("x", x), ("conds", v)] = .ok (some x, [("x", x), ("conds", v)]) := by
  jc_simp [var_x_eval]

/-- **`buildJoinCondition` is translated code**: for every list of conditions (any length) the
    interpretation of the regenerated body — with `rewriteSimpleJoinCondition` interpreted from its own
    regenerated body — returns what the model function returns -/
theorem C03_buildJoinCondition_ir (conds : ExprList) : interpBuild conds = .ok (buildJoinCondition conds) := by
  unfold interpBuild
  rw [interpFn_build]
  cases conds with
  | nil => rfl
  | cons c rest =>
    simp only [buildIR, ExprList.toList, execBlock, st1_eval, st2_eval, st3_eval, st4_eval, bind_ok, pure_ok, finish, exprOf,
      buildJoinCondition]

end Pql.JoinCondIR
