/-
Property C12 — scanning, parsing and compiling are total: no panic, no hang.

In the model, termination is by construction (structural / well-founded recursion accepted
by Lean's kernel); what has content is (a) progress of the scanner — at least one byte per
step, hence at most `n` steps — and (b) that the fuel supplied at the parser's entry points
is never exhausted (`parse_fuel_sufficient`, in `Props/C12Fuel.lean` when proved).
Wall-clock bounds and stack depth belong to the Go runtime: the correspondence run executes
every case under `recover` and a watchdog.
-/
import PqlModel.Lemmas.LexBasic
import PqlModel.Lemmas.SplitBasic
namespace Pql.C12
open Pql

/-- **C12 (scanner progress).** Every step of `Scan` on a non-empty suffix consumes at least one
    byte and never more than there are. -/
theorem C12_scan_progress (c : UInt8) (rest : Bytes) :
    1 ≤ (scanOne (c :: rest)).width ∧ (scanOne (c :: rest)).width ≤ (c :: rest).length :=
  ⟨scanOne_width_pos c rest, scanOne_width_le (c :: rest)⟩

/-- **C12 (scanner cost).** `Scan` returns at most one token per source byte. -/
theorem C12_scan_length_le (s : Bytes) (off : Nat) : (scanFrom s off).length ≤ s.length := by
  fun_induction scanFrom s off with
  | case1 => simp
  | case2 off c rest st tl k v hk ih =>
    have hpos : 1 ≤ st.width := scanOne_width_pos c rest
    have ih' : tl.length ≤ ((c :: rest).drop st.width).length := ih
    simp only [List.length_drop, List.length_cons] at ih' ⊢
    omega
  | case3 off c rest st tl hk ih =>
    have hpos : 1 ≤ st.width := scanOne_width_pos c rest
    have ih' : tl.length ≤ ((c :: rest).drop st.width).length := ih
    simp only [List.length_drop, List.length_cons] at ih' ⊢
    omega

/-- **C12 (split terminates with a shorter range).** the sub-range a sub-parser receives is no
    longer than what its caller had -/
theorem C12_split_shorter (k : TokKind) (ts : List Token) : (split k ts).1.length ≤ ts.length := by
  have h := congrArg List.length (split_append k ts)
  simp only [List.length_append] at h
  omega

end Pql.C12
