/-
Property C04, parametricity half — non-vacuity examples and the necessity of every clause of the
side condition `NameInert` / `keyName` (each a concrete renaming that changes the structure).
-/
import PqlModel.Props.C04ShapeQuery
namespace Pql.C04
open Pql

def bx : Bytes := [120]                       -- x
def by_ : Bytes := [121]                      -- y
def bT : Bytes := [84]                        -- T
def bTrue : Bytes := Bytes.ofString "true"
def idn (n : Bytes) (q : Bool := false) : Ident := ⟨n, .zero, q⟩

/-! ### names: non-vacuity -/

/-- `a.b == "c d" + x`, the second operand quoted -/
def exName : Expr :=
  .binary (.qident [idn [97], idn [98]]) .zero .eq
    (.binary (.qident [idn [99, 32, 100] true]) .zero .plus (.qident [idn bx]))

def addUnderscore : Bytes → Bytes := fun n => n ++ [95]

example : NameInert ⟨[], [], .default⟩ exName addUnderscore = true := by decide

example :
    writeExpr ⟨[], [], .default⟩ (mapName addUnderscore exName) =
      (writeExpr ⟨[], [], .default⟩ exName).map (List.map (Chunk.mapName addUnderscore)) :=
  C04_name_parametric _ rfl _ _ (by decide)

example :
    writeExpr ⟨[], [], .default⟩ (mapName addUnderscore exName) =
      .ok [.txt "coalesce(", .qid [97, 95], .txt ".", .qid [98, 95], .txt " = ", .txt "(", .qid [99, 32, 100, 95],
        .txt " ", .txt "+", .txt " ", .qid [120, 95], .txt ")", .txt ", FALSE)"] := rfl

/-! ### names: every clause of `keyName` is necessary -/

/-- renaming `x` to the built-in constant `true`: an identifier chunk becomes the keyword `TRUE` -/
theorem C04_name_cx_to_builtin :
    NameInert ⟨[], [], .default⟩ (.qident [idn bx]) (fun _ => bTrue) = false ∧
    writeExpr ⟨[], [], .default⟩ (mapName (fun _ => bTrue) (.qident [idn bx])) = .ok [.txt "TRUE"] ∧
    (writeExpr ⟨[], [], .default⟩ (.qident [idn bx])).map (List.map (Chunk.mapName fun _ => bTrue)) =
      .ok [.qid bTrue] :=
  ⟨by decide, rfl, rfl⟩

/-- renaming the built-in constant `true` away: the keyword becomes an identifier -/
theorem C04_name_cx_from_builtin :
    NameInert ⟨[], [], .default⟩ (.qident [idn bTrue]) (fun _ => bx) = false ∧
    writeExpr ⟨[], [], .default⟩ (mapName (fun _ => bx) (.qident [idn bTrue])) = .ok [.qid bx] ∧
    (writeExpr ⟨[], [], .default⟩ (.qident [idn bTrue])).map (List.map (Chunk.mapName fun _ => bx)) =
      .ok [.txt "TRUE"] :=
  ⟨by decide, rfl, rfl⟩

/-- … whereas the quoted name `"true"` is data: any renaming of it is inert -/
example : NameInert ⟨[], [], .default⟩ (.qident [idn bTrue true]) (fun _ => bx) = true := by decide

/-- renaming `x` to `$left` outside a join: the expression no longer compiles -/
theorem C04_name_cx_to_alias :
    NameInert ⟨[], [], .default⟩ (.qident [idn bx]) (fun _ => leftAlias) = false ∧
    writeExpr ⟨[], [], .default⟩ (mapName (fun _ => leftAlias) (.qident [idn bx])) = .error .err ∧
    (writeExpr ⟨[], [], .default⟩ (.qident [idn bx])).map (List.map (Chunk.mapName fun _ => leftAlias)) =
      .ok [.qid leftAlias] :=
  ⟨by decide, rfl, rfl⟩

/-- `"$left".x == $right.x` in a join condition: `hasJoinTerms` compares names without looking at
    the quoting, so even the *quoted* name `"$left"` is structural there -/
def exJoin : Expr :=
  .binary (.qident [idn leftAlias true, idn bx]) .zero .eq (.qident [idn rightAlias, idn bx])

def unLeft : Bytes → Bytes := fun n => if n == leftAlias then [108] else n

theorem C04_name_cx_join_quoted :
    NameInert ⟨[], [], .join⟩ exJoin unLeft = false ∧
    writeExpr ⟨[], [], .join⟩ exJoin =
      .ok [.qid leftAlias, .txt ".", .qid bx, .txt " = ", .qid rightAlias, .txt ".", .qid bx] ∧
    writeExpr ⟨[], [], .join⟩ (mapName unLeft exJoin) =
      .ok [.txt "coalesce(", .qid [108], .txt ".", .qid bx, .txt " = ", .qid rightAlias, .txt ".", .qid bx,
        .txt ", FALSE)"] :=
  ⟨by decide, rfl, rfl⟩

/-- outside a join condition the same renaming is inert -/
example : NameInert ⟨[], [], .default⟩ (.qident [idn leftAlias true, idn bx]) unLeft = true := by decide

/-- renaming `x` to a name in scope (a parameter `y`): the identifier becomes the parameter's text -/
theorem C04_name_cx_scope :
    NameInert ⟨[], [(by_, [.raw [49]])], .default⟩ (.qident [idn bx]) (fun _ => by_) = false ∧
    writeExpr ⟨[], [(by_, [.raw [49]])], .default⟩ (mapName (fun _ => by_) (.qident [idn bx])) = .ok [.raw [49]] ∧
    (writeExpr ⟨[], [(by_, [.raw [49]])], .default⟩ (.qident [idn bx])).map
      (List.map (Chunk.mapName fun _ => by_)) = .ok [.qid by_] :=
  ⟨by decide, rfl, rfl⟩

/-- all of these concern a *single-part* name: as a qualified part, `true` is data -/
example : NameInert ⟨[], [], .default⟩ (.qident [idn bx, idn bTrue]) (fun _ => bx) = true := by decide

/-! ### programs: the source text and the positions change too

`T | extend 'ab'` becomes `T | extend 'xyz'`: the literal's value changes, its position grows by
one, and the unnamed column's alias — a slice of the source — changes from `'ab'` to `'xyz'`:
exactly one `.qstr` and one `.qid` chunk differ. -/

def exSrc : Bytes := Bytes.ofString "T | extend 'ab'"
def exSrc' : Bytes := Bytes.ofString "T | extend 'xyz'"

def exProg : List Stmt :=
  [.tabular (.mk (some ⟨bT, ⟨0, 1⟩, false⟩)
    (.cons (.extend ⟨2, 3⟩ ⟨4, 10⟩ [⟨none, .zero, .lit ⟨11, 15⟩ .string [97, 98]⟩]) .nil))]

def exMap : CMap :=
  ⟨fun _ => [120, 121, 122], id, id, fun sp => if sp.stop ≥ 15 then ⟨sp.start, sp.stop + 1⟩ else sp⟩

example :
    compileChunks exSrc [] exProg =
      .ok [.txt "SELECT *", .txt ", ", .qstr [97, 98], .txt " AS ", .qid [39, 97, 98, 39], .txt " FROM ", .qid bT,
        .txt ";"] ∧
    compileChunks exSrc' [] (exProg.map (mapStmt exMap)) =
      .ok [.txt "SELECT *", .txt ", ", .qstr [120, 121, 122], .txt " AS ", .qid [39, 120, 121, 122, 39], .txt " FROM ",
        .qid bT, .txt ";"] :=
  ⟨rfl, rfl⟩

/-- the hypotheses of `C04_compile_shape` hold for it -/
example :
    (compileChunks exSrc' [] (exProg.map (mapStmt exMap))).map (List.map Chunk.shape) =
      (compileChunks exSrc [] exProg).map (List.map Chunk.shape) :=
  C04_compile_shape exMap exSrc exSrc' [] exProg (by decide) (fun t ht => by
    cases ht with
    | head => decide
    | tail _ h => cases h)

/-- the slice condition is necessary: against a source that is too short the unnamed column's
    alias cannot be cut and the compilation panics -/
theorem C04_slice_cx :
    TabAll (sliceOp exMap exSrc []) (.mk (some ⟨bT, ⟨0, 1⟩, false⟩)
      (.cons (.extend ⟨2, 3⟩ ⟨4, 10⟩ [⟨none, .zero, .lit ⟨11, 15⟩ .string [97, 98]⟩]) .nil)) = false ∧
    compileChunks [] [] (exProg.map (mapStmt exMap)) = .error .panic :=
  ⟨by decide, rfl⟩

/-- exact statement (named column): `T | extend c = strcat('a', x) | where c == 'b' | take 5` -/
def exProg2 : List Stmt :=
  [.tabular (.mk (some (idn bT))
    (.cons (.extend .zero .zero [⟨some (idn [99]), .zero,
        .call (idn (Bytes.ofString "strcat")) .zero (.cons (.lit .zero .string [97]) (.cons (.qident [idn bx]) .nil)) .zero⟩])
    (.cons (.where_ .zero .zero (.binary (.qident [idn [99]]) .zero .eq (.lit .zero .string [98])))
    (.cons (.take .zero .zero (.lit .zero .number [53])) .nil))))]

example :
    compileChunks [] [] (exProg2.map (mapStrStmt fun v => v ++ v)) =
      (compileChunks [] [] exProg2).map (List.map (Chunk.mapStr fun v => v ++ v)) :=
  C04_compile_string_parametric_partial _ [] [] [] exProg2 (fun t ht => by
    cases ht with
    | head => decide
    | tail _ h => cases h)

example :
    compileChunks [] [] (exProg2.map (mapStrStmt fun v => v ++ v)) =
      .ok [.txt "WITH ", .qid (subqueryName 0), .txt " AS (", .txt "SELECT *", .txt ", ", .qstr [97, 97],
        .txt " || ", .qid bx, .txt " AS ", .qid [99], .txt " FROM ", .qid bT, .txt ")", .txt "\n",
        .txt "SELECT * FROM ", .qid (subqueryName 0), .txt " WHERE ", .txt "coalesce(", .qid [99], .txt " = ",
        .qstr [98, 98], .txt ", FALSE)", .txt " LIMIT ", .num [53], .txt ";"] :=
  rfl

/-- `render` is why the exact statement is partial: the chart type is an identifier of the PQL
    text but a *string* token of the SQL, so a string map does not act on the tree the way it
    acts on the chunks (the shape statement is unaffected) -/
def exRender : Subquery :=
  { name := [], source := [.qid bT], op := some (.render .zero .zero (some (idn [112])) .zero .zero [] .zero) }

theorem C04_render_cx :
    Subquery.write ⟨[], [], .default⟩ (mapSub (.ofStr fun _ => [113]) exRender) =
      .ok [.txt "SELECT *,\n", .txt "    ", .qstr [112], .txt " as \"render_type\"", .txt "\nFROM ", .qid bT] ∧
    (Subquery.write ⟨[], [], .default⟩ exRender).map (List.map (Chunk.mapStr fun _ => [113])) =
      .ok [.txt "SELECT *,\n", .txt "    ", .qstr [113], .txt " as \"render_type\"", .txt "\nFROM ", .qid bT] :=
  ⟨rfl, rfl⟩

end Pql.C04
