/-
Property C08, second sentence — "Consequently a source containing any unrecognised character,
unterminated string or identifier, malformed number, unbalanced bracket, dangling operator, missing
or surplus argument or trailing garbage is rejected with an error rather than compiled with the
offending part ignored."

The first sentence is `C08_accounted_parse` (Props/C08Full.lean): an error-free parse accounts for
every token.  Here the "consequently" is made explicit, for ALL sources, on the parser model:

* `accepted_piece` (Lemmas/RejectTok.lean) : every `;`-piece of an accepted source is the `unparse`
  of ONE statement of the result (C08), and — by structural induction over the AST
  (`stmt_good`, Lemmas/RejectExpr.lean, RejectOps.lean) — the token classes of that `unparse` are
  bracket-balanced (`unparse_balanced`), end in an operand end or one of the keywords
  `count asc desc first last` (`unparse_last_token`) and have only allowed neighbours (`okPair`).
* `C08_error_token_rejected`, `C08_unbalanced_rejected`, `C08_dangling_operator_rejected`,
  `C08_adjacent_rejected` (+ corollaries: two operands in a row, `||`, `count x`, `asc desc`,
  operator followed by a closer), `C08_missing_argument_rejected`.
* "rejected" is `(parse src).2 ≠ []`; `rejected_not_compiled`: then `compile params src = .error`
  for every `params` (`C13_exact_source`).

Specification-level definitions used in the statements (token kinds and keyword spellings only):
`pieces`, `balanced` (`run`, `brK`), `danglingKind`, `isNameTok`, `operandEndTok`,
`operandStartTok`, `stopperKind`, `Cl`/`compat`/`okPair` (Lemmas/RejectCl.lean, RejectTok.lean).
-/
import PqlModel.Lemmas.RejectTok
import PqlModel.Props.C08
import PqlModel.Props.C13Exact
namespace Pql.Reject
open Pql Pql.Grammar

/-- a rejected source is not compiled, whatever the parameters -/
theorem rejected_not_compiled (src : Bytes) (h : (parse src).2 ≠ []) (params : List (Bytes × Bytes)) :
    compile params src = .error :=
  ((C13.C13_exact_source params src).1).2 (Or.inl h)

/-! ### the structural facts about `unparse` (for every tree an error-free parse returns) -/

/-- **`unparse` is bracket-balanced.** -/
theorem unparse_balanced (s : Stmt) (us : List UTok) (ha : StmtAll EOK LOK s)
    (h : unparseStmt s = some us) : ∀ stk, run stk ((us.map cl).map Cl.br) = some stk :=
  (stmt_good s us ha h).bal

/-- **the last token of the `unparse` of a complete statement** is a name, a literal, `)`, `]`, or
    one of the keywords `count`, `asc`, `desc`, `first`, `last` — never an operator, a sign, `|`,
    `,`, `=`, `.`, `(`, `[`, `by`, `in`, nor any other keyword (`where`, `on`, `kind`, `with`, …). -/
theorem unparse_last_token (s : Stmt) (us : List UTok) (ha : StmtAll EOK LOK s)
    (h : unparseStmt s = some us) : ∃ u, us.getLast? = some u ∧ cl u ∈ LO := by
  obtain ⟨a, hl, haL⟩ := (stmt_good s us ha h).lin.last
  rw [List.getLast?_map] at hl
  cases hu : us.getLast? with
  | none => rw [hu] at hl; cases hl
  | some u =>
    rw [hu] at hl
    simp only [Option.map_some, Option.some.injEq] at hl
    exact ⟨u, rfl, hl ▸ haL⟩

/-- the hypothesis of the two theorems holds for every statement of an error-free parse -/
theorem parsed_stmtAll (src : Bytes) (h : (parse src).2 = []) : ∀ s ∈ (parse src).1, StmtAll EOK LOK s := by
  have hp : parse src = ((parse src).1, []) := by rw [← h]
  exact parseTokens_all (E := EOK) (EL := LOK) (fun _ _ _ he => ParsedOK.pExpr_sOK he)
    (fun _ _ _ he => ParsedOK.pExprList_sOK he) (srcLen := src.length) (ts := scan src) hp

/-! ### 1. error tokens -/

/-- **C08 (error tokens).**  A source whose scan contains an error token (unrecognised character,
    unterminated string or quoted identifier, malformed number, lone `!`) is rejected. -/
theorem C08_error_token_rejected (src : Bytes) (h : ∃ t ∈ scan src, t.kind = .error) :
    (parse src).2 ≠ [] := by
  intro hok
  obtain ⟨t, ht, hk⟩ := h
  obtain ⟨g, hg, htg⟩ := mem_pieces ht (by rw [hk]; decide)
  obtain ⟨st, _, us, _, ha, _, hgood⟩ := accepted_piece src hok g hg
  have hus : ∀ u ∈ us, u.kind ≠ .error := by
    intro u hu hke
    have hn := good_not_never hgood u hu
    have hc : cl u = .s .error := by simp [cl, hke, plainCl]
    rw [hc] at hn; cases hn
  exact C08.C08_accounts_no_error_token true us g hus ha t htg hk

theorem C08_error_token_not_compiled (src : Bytes) (h : ∃ t ∈ scan src, t.kind = .error)
    (params : List (Bytes × Bytes)) : compile params src = .error :=
  rejected_not_compiled src (C08_error_token_rejected src h) params

/-! ### 2. brackets -/

/-- **C08 (brackets).**  If some statement piece is not bracket-balanced — an unclosed `(` or `[`,
    a surplus `)` or `]`, or `(`…`]` — the source is rejected. -/
theorem C08_unbalanced_rejected (src : Bytes) (h : ∃ g ∈ pieces src, balanced g = false) :
    (parse src).2 ≠ [] := by
  intro hok
  obtain ⟨g, hg, hb⟩ := h
  obtain ⟨st, _, us, _, _, hacc, hgood⟩ := accepted_piece src hok g hg
  have : balanced g = true := by
    unfold balanced
    rw [hacc.run_eq [], hgood.bal []]; rfl
  rw [this] at hb; cases hb

/-! ### 3. dangling operators -/

/-- kinds that cannot end a statement: every symbol and word operator
    (`and or | . , + - * / % = == != < <= > >= =~ !~ ( [ in by`) -/
def danglingKind (k : TokKind) : Bool :=
  !(k == .ident || k == .qident || k == .number || k == .string || k == .rparen || k == .rbracket)

theorem compat_LO {c : Cl} {t : Token} (hc : c ∈ LO) (h : compat c t = true) : danglingKind t.kind = false := by
  simp only [LO, List.mem_cons, List.not_mem_nil, or_false] at hc
  rcases hc with rfl | rfl | rfl | rfl | rfl | rfl | rfl <;>
    simp only [compat, Bool.or_eq_true, Bool.and_eq_true, beq_iff_eq] at h
  · rcases h with h | h <;> simp [danglingKind, h]
  · rcases h with h | h <;> simp [danglingKind, h]
  all_goals first
    | (simp [danglingKind, h])
    | (simp [danglingKind, h.1])

/-- the last token of an accepted piece is matched by the last token of its statement's `unparse` -/
theorem accepted_last (src : Bytes) (hok : (parse src).2 = []) : ∀ g ∈ pieces src, ∀ t, g.getLast? = some t →
    ∃ st ∈ (parse src).1, ∃ us u, unparseStmt st = some us ∧ us.getLast? = some u ∧
      tokMatches u t = true ∧ cl u ∈ LO := by
  intro g hg t ht
  obtain ⟨st, hst, us, hus, _, hacc, _⟩ := accepted_piece src hok g hg
  obtain ⟨u, hu, hm⟩ := hacc.last t ht
  obtain ⟨u', hu', hL⟩ := unparse_last_token st us (parsed_stmtAll src hok st hst) hus
  rw [hu] at hu'
  cases hu'
  exact ⟨st, hst, us, u, hus, hu, hm, hL⟩

/-- **C08 (dangling operator).**  A piece whose last token is a binary operator, a sign, `|`, `,`,
    `.`, `=`, `(`, `[`, `by` or `in` is rejected. -/
theorem C08_dangling_operator_rejected (src : Bytes)
    (h : ∃ g ∈ pieces src, ∃ t, g.getLast? = some t ∧ danglingKind t.kind = true) : (parse src).2 ≠ [] := by
  intro hok
  obtain ⟨g, hg, t, ht, hd⟩ := h
  obtain ⟨_, _, _, u, _, _, hm, hL⟩ := accepted_last src hok g hg t ht
  rw [compat_LO hL (tokMatches_compat hm)] at hd
  cases hd

/-- **C08 (dangling keyword).**  If an accepted piece ends in an identifier token that is not spelled
    `count`, `asc`, `desc`, `first`, `last`, that token is a *name* in the tree (class `nm`), never a
    keyword: `on`, `kind`, `with`, `nulls`, `where`, … at the end of a piece are read as names or rejected. -/
theorem C08_last_keyword_is_name (src : Bytes) (hok : (parse src).2 = []) (g : List Token) (hg : g ∈ pieces src)
    (t : Token) (ht : g.getLast? = some t) (hk : t.kind = .ident)
    (hv : t.value ∉ [b "count", b "asc", b "desc", b "first", b "last"]) :
    ∃ st ∈ (parse src).1, ∃ us u, unparseStmt st = some us ∧ us.getLast? = some u ∧ cl u = .nm := by
  obtain ⟨st, hst, us, u, hus, hu, hm, hL⟩ := accepted_last src hok g hg t ht
  refine ⟨st, hst, us, u, hus, hu, ?_⟩
  have hc := tokMatches_compat hm
  simp only [List.mem_cons, List.not_mem_nil, or_false, not_or] at hv
  simp only [LO, List.mem_cons, List.not_mem_nil, or_false] at hL
  rcases hL with h | h | h | h | h | h | h <;> rw [h] at hc <;>
    simp only [compat, Bool.or_eq_true, Bool.and_eq_true, beq_iff_eq, hk] at hc
  · exact h
  · rcases hc with hc | hc <;> cases hc
  · cases hc
  · cases hc
  · exact absurd hc.2 hv.1
  · rcases hc.2 with hc | hc
    · exact absurd hc hv.2.1
    · exact absurd hc hv.2.2.1
  · rcases hc.2 with hc | hc
    · exact absurd hc hv.2.2.2.1
    · exact absurd hc hv.2.2.2.2

/-! ### 4. trailing garbage, surplus arguments: forbidden neighbours -/

/-- **C08 (one statement per piece).**  If the source is accepted, every non-empty piece — the whole
    of it, whatever was appended to a valid statement — is accounted for, token by token, by the
    `unparse` of ONE statement of the result. -/
theorem C08_whole_piece_is_one_statement (src : Bytes) (hok : (parse src).2 = []) : ∀ g ∈ pieces src,
    ∃ st ∈ (parse src).1, ∃ us, unparseStmt st = some us ∧ accounts true us g = true := by
  intro g hg
  obtain ⟨st, hst, us, hus, ha, _⟩ := accepted_piece src hok g hg
  exact ⟨st, hst, us, hus, ha⟩

theorem forall₂_two {α β : Type} {R : α → β → Prop} {v : List α} {t1 t2 : β} (h : Forall₂ R v [t1, t2]) :
    ∃ u1 u2, v = [u1, u2] ∧ R u1 t1 ∧ R u2 t2 := by
  cases h with
  | cons h1 h' =>
    cases h' with
    | cons h2 h'' => cases h''; exact ⟨_, _, rfl, h1, h2⟩

theorem forall₂_three {α β : Type} {R : α → β → Prop} {v : List α} {t0 t1 t2 : β}
    (h : Forall₂ R v [t0, t1, t2]) : ∃ u0 u1 u2, v = [u0, u1, u2] ∧ R u0 t0 ∧ R u1 t1 ∧ R u2 t2 := by
  cases h with
  | cons h0 h' =>
    obtain ⟨u1, u2, rfl, h1, h2⟩ := forall₂_two h'
    exact ⟨_, u1, u2, rfl, h0, h1, h2⟩

/-- **C08 (forbidden neighbours).**  If a piece contains two adjacent tokens (neither a comma) such
    that no pair of classes they can stand for is allowed (`okPair`), the source is rejected. -/
theorem C08_adjacent_rejected (src : Bytes) (g : List Token) (hg : g ∈ pieces src)
    (pre post : List Token) (t1 t2 : Token) (hsh : g = pre ++ t1 :: t2 :: post)
    (h1 : t1.kind ≠ .comma) (h2 : t2.kind ≠ .comma)
    (hbad : ∀ c1 c2, compat c1 t1 = true → never c1 = false → compat c2 t2 = true → never c2 = false →
      okPair c1 c2 = false) : (parse src).2 ≠ [] := by
  intro hok
  obtain ⟨st, _, us, _, _, hacc, hgood⟩ := accepted_piece src hok g hg
  obtain ⟨_, v, _, _, _, hf, hadj⟩ := window_classes hacc hgood pre [t1, t2] post (by simp [hsh])
    (by intro t ht; simp only [List.mem_cons, List.not_mem_nil, or_false] at ht; rcases ht with rfl | rfl <;> assumption)
  obtain ⟨u1, u2, rfl, ⟨hc1, hn1⟩, ⟨hc2, hn2⟩⟩ := forall₂_two hf
  simp only [List.map_cons, List.map_nil, adjOK, Bool.and_true] at hadj
  rw [hbad _ _ hc1 hn1 hc2 hn2] at hadj
  cases hadj

theorem operandEnd_not_comma {t : Token} (h : operandEndTok t = true) : t.kind ≠ .comma := by
  intro hk; simp [operandEndTok, isNameTok, hk] at h
theorem operandStart_not_comma {t : Token} (h : operandStartTok t = true) : t.kind ≠ .comma := by
  intro hk; simp [operandStartTok, isNameTok, hk] at h

/-- **C08 (two operands in a row).**  A literal, `)`, `]` or name directly followed by a literal or
    a name: `where a == 1 2`, `take 5 6`, `where f(x) y`, `project a b`, `as x y`. -/
theorem C08_two_operands_rejected (src : Bytes) (g : List Token) (hg : g ∈ pieces src)
    (pre post : List Token) (t1 t2 : Token) (hsh : g = pre ++ t1 :: t2 :: post)
    (h1 : operandEndTok t1 = true) (h2 : operandStartTok t2 = true) : (parse src).2 ≠ [] :=
  C08_adjacent_rejected src g hg pre post t1 t2 hsh (operandEnd_not_comma h1) (operandStart_not_comma h2)
    (fun _ _ hc1 hn1 hc2 hn2 => okPair_juxt (compat_end hc1 hn1 h1) (compat_start hc2 hn2 h2))

/-- **C08 (a pipe needs an operator).**  A `|` directly followed by anything but an identifier spelled
    like an operator (or other) keyword: `||`, `| )`, `| 5`, `| foo`. -/
theorem C08_pipe_needs_operator (src : Bytes) (g : List Token) (hg : g ∈ pieces src)
    (pre post : List Token) (t1 t2 : Token) (hsh : g = pre ++ t1 :: t2 :: post)
    (h1 : t1.kind = .pipe) (h2 : t2.kind ≠ .comma)
    (hno : ¬ (t2.kind = .ident ∧ (otherSpellings.contains t2.value = true ∨ t2.value = b "count"))) :
    (parse src).2 ≠ [] := by
  refine C08_adjacent_rejected src g hg pre post t1 t2 hsh (by rw [h1]; decide) h2 ?_
  intro c1 c2 hc1 hn1 hc2 _
  have : c1 = .s .pipe := by
    have := compat_sym hc1 hn1 (by rw [h1]; decide)
    rwa [h1] at this
  subst this
  cases c2 <;> first
    | rfl
    | (exfalso; apply hno; simp only [compat, Bool.and_eq_true, beq_iff_eq] at hc2
       first | exact ⟨hc2.1, Or.inl hc2.2⟩ | exact ⟨hc2.1, Or.inr hc2.2⟩)
    | (rename_i k; cases k <;> rfl)

/-- **C08 (two pipes).** -/
theorem C08_double_pipe_rejected (src : Bytes) (g : List Token) (hg : g ∈ pieces src)
    (pre post : List Token) (t1 t2 : Token) (hsh : g = pre ++ t1 :: t2 :: post)
    (h1 : t1.kind = .pipe) (h2 : t2.kind = .pipe) : (parse src).2 ≠ [] :=
  C08_pipe_needs_operator src g hg pre post t1 t2 hsh h1 (by rw [h2]; decide) (by rw [h2]; simp)

/-- **C08 (surplus argument after `count`).**  The identifier `count` directly followed by a literal or
    a name (`T | count x`, `T | count 5`): neither the operator `count` nor a column named `count`
    can be followed by an operand. -/
theorem C08_count_argument_rejected (src : Bytes) (g : List Token) (hg : g ∈ pieces src)
    (pre post : List Token) (t1 t2 : Token) (hsh : g = pre ++ t1 :: t2 :: post)
    (h1 : t1.kind = .ident ∧ t1.value = b "count") (h2 : operandStartTok t2 = true) : (parse src).2 ≠ [] := by
  refine C08_adjacent_rejected src g hg pre post t1 t2 hsh (by rw [h1.1]; decide) (operandStart_not_comma h2) ?_
  intro c1 c2 hc1 hn1 hc2 hn2
  have hs := compat_start hc2 hn2 h2
  cases c1 with
  | nm => exact okPair_juxt rfl hs
  | lit => exact okPair_juxt rfl hs
  | kCount => cases c2 <;> first | rfl | cases hs
  | bad => cases hn1
  | kDir => simp only [compat, h1.1, h1.2] at hc1; exact absurd hc1 (by decide)
  | kNF => simp only [compat, h1.1, h1.2] at hc1; exact absurd hc1 (by decide)
  | kw => simp only [compat, h1.1, h1.2] at hc1; exact absurd hc1 (by decide)
  | s k =>
    simp only [compat, beq_iff_eq] at hc1
    rw [← hc1, h1.1] at hn1; cases hn1

/-- **C08 (surplus direction keyword).**  After an operand end, `asc`/`desc` followed by `asc`/`desc`:
    `sort by a asc desc`, `top 3 by f(x) desc desc`. -/
theorem C08_asc_desc_rejected (src : Bytes) (g : List Token) (hg : g ∈ pieces src)
    (pre post : List Token) (t0 t1 t2 : Token) (hsh : g = pre ++ t0 :: t1 :: t2 :: post)
    (h0 : operandEndTok t0 = true)
    (h1 : t1.kind = .ident ∧ (t1.value = b "asc" ∨ t1.value = b "desc"))
    (h2 : t2.kind = .ident ∧ (t2.value = b "asc" ∨ t2.value = b "desc")) : (parse src).2 ≠ [] := by
  intro hok
  obtain ⟨st, _, us, _, _, hacc, hgood⟩ := accepted_piece src hok g hg
  obtain ⟨_, v, _, _, _, hf, hadj⟩ := window_classes hacc hgood pre [t0, t1, t2] post (by simp [hsh])
    (by
      intro t ht; simp only [List.mem_cons, List.not_mem_nil, or_false] at ht
      rcases ht with rfl | rfl | rfl
      · exact operandEnd_not_comma h0
      · rw [h1.1]; decide
      · rw [h2.1]; decide)
  obtain ⟨u0, u1, u2, rfl, ⟨hc0, hn0⟩, ⟨hc1, hn1⟩, ⟨hc2, hn2⟩⟩ := forall₂_three hf
  simp only [List.map_cons, List.map_nil, adjOK, Bool.and_true, Bool.and_eq_true] at hadj
  have he := compat_end hc0 hn0 h0
  have hv1 : otherSpellings.contains t1.value = false := by rcases h1.2 with h | h <;> (rw [h]; decide)
  have hv2 : otherSpellings.contains t2.value = false := by rcases h2.2 with h | h <;> (rw [h]; decide)
  have hx1 : t1.value ≠ b "count" ∧ t1.value ≠ b "first" ∧ t1.value ≠ b "last" := by
    rcases h1.2 with h | h <;> (rw [h]; decide)
  have hx2 : t2.value ≠ b "count" ∧ t2.value ≠ b "first" ∧ t2.value ≠ b "last" := by
    rcases h2.2 with h | h <;> (rw [h]; decide)
  -- the class of `t1` is a name or the direction keyword; likewise `t2`
  have cls : ∀ (c : Cl) (t : Token), compat c t = true → never c = false → t.kind = .ident →
      otherSpellings.contains t.value = false →
      (t.value ≠ b "count" ∧ t.value ≠ b "first" ∧ t.value ≠ b "last") → c = .nm ∨ c = .kDir := by
    intro c t hc hn hk ho hx
    cases c with
    | nm => exact Or.inl rfl
    | kDir => exact Or.inr rfl
    | lit => simp [compat, hk] at hc
    | kCount => simp only [compat, Bool.and_eq_true, beq_iff_eq] at hc; exact absurd hc.2 hx.1
    | kNF =>
      simp only [compat, Bool.and_eq_true, Bool.or_eq_true, beq_iff_eq] at hc
      rcases hc.2 with h | h
      · exact absurd h hx.2.1
      · exact absurd h hx.2.2
    | kw => simp only [compat, Bool.and_eq_true, ho] at hc; exact absurd hc.2 (by decide)
    | bad => cases hn
    | s k => simp only [compat, beq_iff_eq] at hc; rw [← hc, hk] at hn; cases hn
  rcases cls _ _ hc1 hn1 h1.1 hv1 hx1 with e1 | e1
  · rw [e1, okPair_juxt he rfl] at hadj; exact absurd hadj.1 (by decide)
  · rcases cls _ _ hc2 hn2 h2.1 hv2 hx2 with e2 | e2 <;> rw [e1, e2] at hadj <;>
      exact absurd hadj.2 (by decide)

/-- symbol kinds that cannot follow an operator-like token: every symbol (closers included) except
    `(`, `+`, `-` -/
def stopperKind (k : TokKind) : Bool :=
  !(k == .ident || k == .qident || k == .number || k == .string || k == .lparen || k == .plus || k == .minus)

theorem mem_all (k : TokKind) : k ∈ TokKind.all := by cases k <;> decide

theorem okPair_stopper (k1 k2 : TokKind) (h1 : danglingKind k1 = true) (h2 : stopperKind k2 = true)
    (hex : ¬ (k1 = .lparen ∧ k2 = .rparen)) : okPair (.s k1) (.s k2) = false := by
  have key : ∀ a ∈ TokKind.all, ∀ c ∈ TokKind.all, danglingKind a = true → stopperKind c = true →
      ¬ (a = .lparen ∧ c = .rparen) → okPair (.s a) (.s c) = false := by decide
  exact key k1 (mem_all k1) k2 (mem_all k2) h1 h2 hex

theorem dangling_sym {k : TokKind} (h : danglingKind k = true) :
    k ≠ .ident ∧ k ≠ .qident ∧ k ≠ .number ∧ k ≠ .string := by
  cases k <;> simp [danglingKind] at h <;> decide

theorem stopper_sym {k : TokKind} (h : stopperKind k = true) :
    k ≠ .ident ∧ k ≠ .qident ∧ k ≠ .number ∧ k ≠ .string := by
  cases k <;> simp [stopperKind] at h <;> decide

/-- **C08 (dangling operator inside a piece).**  An operator, sign, `|`, `.`, `=`, `(`, `[`, `by`, `in`
    directly followed by a closer, another operator, `|`, `=`, `by`, … : `a + )`, `(a and )`,
    `a[ ]`, `where a == | count`, `x = = 1`.  (Exceptions: `(` `)` — a call without arguments; and a
    comma on either side, see `comma_before_closer_accepted`.) -/
theorem C08_dangling_inside_rejected (src : Bytes) (g : List Token) (hg : g ∈ pieces src)
    (pre post : List Token) (t1 t2 : Token) (hsh : g = pre ++ t1 :: t2 :: post)
    (h1 : danglingKind t1.kind = true) (h2 : stopperKind t2.kind = true)
    (hc1 : t1.kind ≠ .comma) (hc2 : t2.kind ≠ .comma)
    (hex : ¬ (t1.kind = .lparen ∧ t2.kind = .rparen)) : (parse src).2 ≠ [] := by
  refine C08_adjacent_rejected src g hg pre post t1 t2 hsh hc1 hc2 ?_
  intro c1 c2 hm1 hn1 hm2 hn2
  rw [compat_sym hm1 hn1 (dangling_sym h1), compat_sym hm2 hn2 (stopper_sym h2)]
  exact okPair_stopper _ _ h1 h2 hex

/-! ### 5. missing arguments -/

/-- **C08 (missing argument).**  A piece that ends in `| x` where `x` is not the identifier `count` —
    every operator keyword with nothing after it (`T | where`, `T | project`, `T | join`, …), and
    every unknown operator — is rejected. -/
theorem C08_missing_argument_rejected (src : Bytes) (g : List Token) (hg : g ∈ pieces src)
    (pre : List Token) (t1 t2 : Token) (hsh : g = pre ++ [t1, t2])
    (h1 : t1.kind = .pipe) (h2 : ¬ (t2.kind = .ident ∧ t2.value = b "count")) : (parse src).2 ≠ [] := by
  intro hok
  by_cases hcm : t2.kind = .comma
  · exact C08_dangling_operator_rejected src ⟨g, hg, t2, by simp [hsh], by rw [hcm]; decide⟩ hok
  obtain ⟨st, _, us, _, _, hacc, hgood⟩ := accepted_piece src hok g hg
  obtain ⟨pre', v, post', hv, hp, hf, hadj⟩ := window_classes hacc hgood pre [t1, t2] [] (by simp [hsh])
    (by
      intro t ht; simp only [List.mem_cons, List.not_mem_nil, or_false] at ht
      rcases ht with rfl | rfl
      · rw [h1]; decide
      · exact hcm)
  obtain ⟨u1, u2, rfl, ⟨hc1, hn1⟩, ⟨hc2, hn2⟩⟩ := forall₂_two hf
  have hpn := hp.nil_right
  subst hpn
  simp only [List.map_cons, List.map_nil, adjOK, Bool.and_true] at hadj
  have e1 : cl u1 = .s .pipe := by
    have := compat_sym hc1 hn1 (by rw [h1]; decide)
    rwa [h1] at this
  rw [e1] at hadj
  obtain ⟨a, hl, haL⟩ := hgood.lin.last
  rw [hv] at hl
  simp only [List.append_nil, List.map_append, List.map_cons, List.map_nil] at hl
  rw [List.getLast?_append] at hl
  simp only [List.getLast?_cons_cons, List.getLast?_singleton, Option.some_or, Option.some.injEq] at hl
  subst hl
  generalize cl u2 = c2 at hadj haL hc2
  simp only [LO, List.mem_cons, List.not_mem_nil, or_false] at haL
  rcases haL with rfl | rfl | rfl | rfl | rfl | rfl | rfl <;> first
    | (exact absurd hadj (by decide))
    | (simp only [compat, Bool.and_eq_true, beq_iff_eq] at hc2; exact h2 hc2)

/-- the instance for the operator keywords of the Go source (`Facts.operatorKeywords`) -/
theorem C08_operator_keyword_alone_rejected (src : Bytes) (g : List Token) (hg : g ∈ pieces src)
    (pre : List Token) (t1 t2 : Token) (hsh : g = pre ++ [t1, t2]) (h1 : t1.kind = .pipe)
    (kw : String) (hkw : kw ∈ Facts.operatorKeywords.map (·.1)) (hnc : kw ≠ "count")
    (h2 : t2.value = b kw) : (parse src).2 ≠ [] := by
  refine C08_missing_argument_rejected src g hg pre t1 t2 hsh h1 ?_
  rintro ⟨_, hv⟩
  rw [h2] at hv
  have key : ∀ k ∈ Facts.operatorKeywords.map (·.1), k ≠ "count" → b k ≠ b "count" := by decide
  exact key kw hkw hnc hv

/-- **C08 (missing argument inside a pipeline).**  `| x |` and `| x )` where `x` is an identifier other than
    `count`: `T | where | count`, `T | join (U | take) on a`. -/
theorem C08_missing_argument_inside_rejected (src : Bytes) (g : List Token) (hg : g ∈ pieces src)
    (pre post : List Token) (t1 t2 t3 : Token) (hsh : g = pre ++ t1 :: t2 :: t3 :: post)
    (h1 : t1.kind = .pipe) (h2 : t2.kind = .ident ∧ t2.value ≠ b "count")
    (h3 : t3.kind = .pipe ∨ t3.kind = .rparen) : (parse src).2 ≠ [] := by
  intro hok
  have h3c : t3.kind ≠ .comma := by rcases h3 with h | h <;> (rw [h]; decide)
  have hcm : t2.kind ≠ .comma := by rw [h2.1]; decide
  obtain ⟨st, _, us, _, _, hacc, hgood⟩ := accepted_piece src hok g hg
  obtain ⟨_, v, _, _, _, hf, hadj⟩ := window_classes hacc hgood pre [t1, t2, t3] post (by simp [hsh])
    (by
      intro t ht; simp only [List.mem_cons, List.not_mem_nil, or_false] at ht
      rcases ht with rfl | rfl | rfl
      · rw [h1]; decide
      · exact hcm
      · exact h3c)
  obtain ⟨u1, u2, u3, rfl, ⟨hc1, hn1⟩, ⟨hc2, hn2⟩, ⟨hc3, hn3⟩⟩ := forall₂_three hf
  simp only [List.map_cons, List.map_nil, adjOK, Bool.and_true, Bool.and_eq_true] at hadj
  have e1 : cl u1 = .s .pipe := by
    have := compat_sym hc1 hn1 (by rw [h1]; decide)
    rwa [h1] at this
  have e3 : cl u3 = .s t3.kind := compat_sym hc3 hn3 (by rcases h3 with h | h <;> (rw [h]; decide))
  rw [e1, e3] at hadj
  generalize cl u2 = c2 at hadj hc2
  cases c2 with
  | kCount => simp only [compat, Bool.and_eq_true, beq_iff_eq] at hc2; exact h2.2 hc2.2
  | kw => rcases h3 with h | h <;> (rw [h] at hadj; exact absurd hadj.2 (by decide))
  | nm => exact absurd hadj.1 (by decide)
  | lit => exact absurd hadj.1 (by decide)
  | kDir => exact absurd hadj.1 (by decide)
  | kNF => exact absurd hadj.1 (by decide)
  | bad => exact absurd hadj.1 (by decide)
  | s k => exact absurd hadj.1 (by cases k <;> decide)

end Pql.Reject
