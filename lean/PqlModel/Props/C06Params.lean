/-
Property C06 / C14 — what parameters DO (positive statements; the counterexamples are
`C06_param_regrouped`, `C06_param_comment` of Props/C06Operand.lean).

1. `C06_params_verbatim`  parametricity in the parameter texts: the compiler never looks inside a
   parameter's text — the same chunks at the same places, only the raw texts differ; success and the kind
   of failure are independent of the texts.  General form `C06_params_substitute` (any chunk list in
   place of a parameter), corollaries `C06_params_are_holes` and `C06_compile_params_verbatim` (bytes).
2. `C06_param_occurrences`  every `.raw v` chunk of the output is the text of a parameter (none without
   parameters); `C06_param_reference`: an unquoted single-part name bound to a parameter and not
   shadowed by a let is written as exactly `[.raw v]`.
3. Props/C06ParamsAtomic.lean.
-/
import PqlModel.Lemmas.ParamsBindTop
namespace Pql.Params
open Pql

/-! ### 1. parametricity -/

/-- **C06 (parameters are inserted verbatim: parametricity).**  Applying any function `f` to the
    parameter texts changes the result of the compilation by applying `f` to the texts of the `.raw`
    chunks and nothing else: same success / same kind of failure, same chunks at the same places. -/
theorem C06_params_verbatim (src : Bytes) (params : List (Bytes × Bytes)) (f : Bytes → Bytes) (stmts : List Stmt) :
    compileChunks src (params.map fun kv => (kv.1, f kv.2)) stmts =
      (compileChunks src params stmts).map (List.map (Chunk.mapRaw f)) := by
  rw [compileChunks_eq_from, compileChunks_eq_from, paramScope_map, compileFrom_bindScope]
  cases compileFrom src (paramScope params) stmts with
  | error e => rfl
  | ok cs => simp only [exmap_ok, bindRaw_mapRaw]

/-- the same with the pattern-matching lambda of the task statement -/
theorem C06_params_verbatim' (src : Bytes) (params : List (Bytes × Bytes)) (f : Bytes → Bytes) (stmts : List Stmt) :
    compileChunks src (params.map fun (k, v) => (k, f v)) stmts =
      (compileChunks src params stmts).map (List.map (Chunk.mapRaw f)) :=
  C06_params_verbatim src params f stmts

/-- **C06 (general form).** Compiling from the initial scope in which every parameter `k ↦ v` is bound
    to an arbitrary chunk list `σ v` is compiling with the parameters and then replacing every `.raw v`
    chunk by `σ v`. -/
theorem C06_params_substitute (src : Bytes) (params : List (Bytes × Bytes)) (σ : Bytes → List Chunk)
    (stmts : List Stmt) :
    compileFrom src (params.map fun kv => (kv.1, σ kv.2)) stmts =
      (compileChunks src params stmts).map (bindRaw σ) := by
  rw [compileChunks_eq_from, ← paramScope_bind, compileFrom_bindScope]

/-- success and the kind of failure do not depend on the parameter texts -/
theorem C06_params_failure_independent (src : Bytes) (params : List (Bytes × Bytes)) (f : Bytes → Bytes)
    (stmts : List Stmt) (e : WErr) :
    compileChunks src (params.map fun kv => (kv.1, f kv.2)) stmts = .error e ↔
      compileChunks src params stmts = .error e := by
  rw [C06_params_verbatim]
  cases compileChunks src params stmts with
  | error e' => simp [exmap_error]
  | ok cs => simp [exmap_ok]

/-- the value a (distinct-keys) parameter list gives to a key -/
def paramValue (params : List (Bytes × Bytes)) (k : Bytes) : Bytes :=
  ((params.find? (·.1 == k)).map (·.2)).getD k

theorem paramValue_mem {params : List (Bytes × Bytes)} (hnd : (params.map (·.1)).Nodup) {kv : Bytes × Bytes}
    (h : kv ∈ params) : paramValue params kv.1 = kv.2 := by
  induction params with
  | nil => cases h
  | cons a rest ih =>
    simp only [List.map_cons, List.nodup_cons] at hnd
    rcases List.mem_cons.1 h with rfl | h'
    · simp [paramValue]
    · have hne : (a.1 == kv.1) = false := by
        simp only [beq_eq_false_iff_ne, ne_eq]
        intro he
        exact hnd.1 (he ▸ List.mem_map_of_mem h')
      have := ih hnd.2 h'
      simp only [paramValue, List.find?_cons, hne] at this ⊢
      exact this

/-- **C06 (parameters are holes).**  Compiling with parameters (distinct keys: it is a Go map) is
    compiling with every parameter bound to a distinct placeholder — its own key — and then filling
    the placeholders: `.raw k ↦ .raw (value of k)`. -/
theorem C06_params_are_holes (src : Bytes) (params : List (Bytes × Bytes)) (hnd : (params.map (·.1)).Nodup)
    (stmts : List Stmt) :
    compileChunks src params stmts =
      (compileChunks src (params.map fun kv => (kv.1, kv.1)) stmts).map
        (List.map (Chunk.mapRaw (paramValue params))) := by
  rw [← C06_params_verbatim, List.map_map]
  congr 1
  have : ∀ kv ∈ params, ((fun kv : Bytes × Bytes => (kv.1, paramValue params kv.2)) ∘
      fun kv : Bytes × Bytes => (kv.1, kv.1)) kv = kv := by
    intro kv hkv
    simp only [Function.comp, paramValue_mem hnd hkv]
  rw [List.map_congr_left this, List.map_id']

/-! bytes -/

/-- the bytes of a chunk list whose parameter texts are passed through `f` -/
def renderWith (f : Bytes → Bytes) (cs : List Chunk) : Bytes :=
  cs.flatMap fun c => match c with | .raw v => f v | c => c.bytes

theorem renderChunks_mapRaw (f : Bytes → Bytes) (cs : List Chunk) :
    renderChunks (cs.map (Chunk.mapRaw f)) = renderWith f cs := by
  induction cs with
  | nil => rfl
  | cons c cs ih =>
    simp only [renderChunks, renderWith, List.map_cons, List.flatMap_cons] at ih ⊢
    rw [ih]
    cases c <;> rfl

theorem renderWith_id (cs : List Chunk) : renderWith id cs = renderChunks cs := by
  induction cs with
  | nil => rfl
  | cons c cs ih =>
    simp only [renderChunks, renderWith, List.flatMap_cons] at ih ⊢
    rw [ih]
    cases c <;> rfl

/-- **C06 / C14 (bytes).** `Compile` on source text: the result with the texts passed through `f` is
    an error / a panic exactly when the result with the original texts is; and when it is SQL text,
    both are renderings of ONE chunk list, the parameter texts being the only difference. -/
theorem C06_compile_params_verbatim (params : List (Bytes × Bytes)) (f : Bytes → Bytes) (src : Bytes) :
    (compile params src = .error ↔ compile (params.map fun kv => (kv.1, f kv.2)) src = .error) ∧
    (compile params src = .panic ↔ compile (params.map fun kv => (kv.1, f kv.2)) src = .panic) ∧
    ∀ sql, compile params src = .ok sql →
      ∃ cs, compileChunks src params (parse src).1 = .ok cs ∧ sql = renderWith id cs ∧
        compile (params.map fun kv => (kv.1, f kv.2)) src = .ok (renderWith f cs) := by
  unfold compile
  simp only [C06_params_verbatim]
  cases (parse src).2.isEmpty
  · simp
  · cases compileChunks src params (parse src).1 with
    | error e => cases e <;> simp [exmap_error]
    | ok cs => simp [exmap_ok, renderChunks_mapRaw, renderWith_id]

/-! ### 2. where parameter texts occur -/

theorem mem_bindRaw {σ : Bytes → List Chunk} {cs : List Chunk} {c : Chunk} (h : c ∈ bindRaw σ cs) :
    (c ∈ cs ∧ ∀ v, c ≠ .raw v) ∨ ∃ v, .raw v ∈ cs ∧ c ∈ σ v := by
  simp only [bindRaw, List.mem_flatMap] at h
  obtain ⟨d, hd, hc⟩ := h
  cases d with
  | raw v => exact Or.inr ⟨v, hd, hc⟩
  | _ =>
    simp only [bindC, List.mem_singleton] at hc
    subst hc
    exact Or.inl ⟨hd, fun v hv => by cases hv⟩

/-- the raw texts stored in a scope -/
def scopeRaws (sc : Scope) : List Bytes := sc.flatMap fun kv => kv.2.filterMap fun c => match c with | .raw v => some v | _ => none

theorem bindScope_keep (sc : Scope) :
    bindScope (fun v => if v ∈ scopeRaws sc then [Chunk.raw v] else []) sc = sc := by
  have key : ∀ (l : List Bytes) (cs : List Chunk), (∀ v, Chunk.raw v ∈ cs → v ∈ l) →
      bindRaw (fun v => if v ∈ l then [Chunk.raw v] else []) cs = cs := by
    intro l cs
    induction cs with
    | nil => intro _; rfl
    | cons c cs ih =>
      intro h
      have ih' := ih (fun v hv => h v (List.mem_cons_of_mem _ hv))
      cases c with
      | raw v =>
        have : v ∈ l := h v List.mem_cons_self
        simp only [bindRaw_raw, this, if_true, ih']
        rfl
      | _ => simp [ih']
  unfold bindScope
  have : ∀ kv ∈ sc, (fun kv : Bytes × List Chunk =>
      (kv.1, bindRaw (fun v => if v ∈ scopeRaws sc then [Chunk.raw v] else []) kv.2)) kv = kv := by
    intro kv hkv
    simp only
    rw [key]
    intro v hv
    simp only [scopeRaws, List.mem_flatMap, List.mem_filterMap]
    exact ⟨kv, hkv, .raw v, hv, rfl⟩
  rw [List.map_congr_left this, List.map_id']

/-- every raw chunk the compilation from a scope emits is a raw chunk stored in that scope -/
theorem raw_from_scope (src : Bytes) (sc : Scope) (stmts : List Stmt) (cs : List Chunk)
    (h : compileFrom src sc stmts = .ok cs) (v : Bytes) (hv : Chunk.raw v ∈ cs) : v ∈ scopeRaws sc := by
  have hb := compileFrom_bindScope (fun v => if v ∈ scopeRaws sc then [Chunk.raw v] else []) src sc stmts
  rw [bindScope_keep, h, exmap_ok] at hb
  have hcs : cs = bindRaw (fun v => if v ∈ scopeRaws sc then [Chunk.raw v] else []) cs := by
    injection hb
  rw [hcs] at hv
  rcases mem_bindRaw hv with ⟨_, hne⟩ | ⟨w, _, hw⟩
  · exact absurd rfl (hne v)
  · by_cases hmem : w ∈ scopeRaws sc
    · simp only [hmem, if_true, List.mem_singleton] at hw
      cases hw
      exact hmem
    · simp only [hmem, if_false] at hw
      cases hw

theorem scopeRaws_paramScope (params : List (Bytes × Bytes)) : scopeRaws (paramScope params) = params.map (·.2) := by
  induction params with
  | nil => rfl
  | cons kv rest ih =>
    simp only [scopeRaws, paramScope, List.map_cons, List.flatMap_cons] at ih ⊢
    rw [ih]
    rfl

/-- **C06 (parameter texts occur only as parameters).**  Every `.raw v` chunk of the compiled output is
    the text of some parameter. -/
theorem C06_param_occurrences (src : Bytes) (params : List (Bytes × Bytes)) (stmts : List Stmt) (cs : List Chunk)
    (h : compileChunks src params stmts = .ok cs) :
    ∀ c ∈ cs, ∀ v, c = .raw v → ∃ k, (k, v) ∈ params := by
  intro c hc v hcv
  subst hcv
  rw [compileChunks_eq_from] at h
  have := raw_from_scope src _ stmts cs h v hc
  rw [scopeRaws_paramScope, List.mem_map] at this
  obtain ⟨kv, hkv, rfl⟩ := this
  exact ⟨kv.1, hkv⟩

/-- without parameters there is no raw chunk -/
theorem C06_no_params_no_raw (src : Bytes) (stmts : List Stmt) (cs : List Chunk)
    (h : compileChunks src [] stmts = .ok cs) (v : Bytes) : Chunk.raw v ∉ cs := by
  intro hv
  obtain ⟨k, hk⟩ := C06_param_occurrences src [] stmts cs h _ hv v rfl
  cases hk

/-! the converse: a reference to a parameter is written as its text -/

/-- no let statement of the program binds `p` -/
def NoLetBinds (p : Bytes) (stmts : List Stmt) : Prop :=
  ∀ st ∈ stmts, ∀ kw n a x, st = Stmt.let_ kw (some n) a x → n.name ≠ p

theorem compileStmts_lookup_other (src : Bytes) (p : Bytes) : (stmts : List Stmt) → (sc : Scope) →
    (q : Option Tabular) → (sc' : Scope) → (q' : Option Tabular) → NoLetBinds p stmts →
    compileStmts src stmts sc q = .ok (sc', q') → lookupScope sc' p = lookupScope sc p
  | [], sc, q, sc', q', _, h => by
    simp only [compileStmts, Except.ok.injEq, Prod.mk.injEq] at h
    rw [h.1]
  | .tabular t :: rest, sc, q, sc', q', hn, h => by
    cases q with
    | some _ => simp [compileStmts] at h
    | none =>
      simp only [compileStmts] at h
      exact compileStmts_lookup_other src p rest sc _ sc' q' (fun st hst => hn st (List.mem_cons_of_mem _ hst)) h
  | .let_ kw name a x :: rest, sc, q, sc', q', hn, h => by
    have hrest : NoLetBinds p rest := fun st hst => hn st (List.mem_cons_of_mem _ hst)
    cases q with
    | some _ =>
      simp only [compileStmts] at h
      exact compileStmts_lookup_other src p rest sc _ sc' q' hrest h
    | none =>
      simp only [compileStmts] at h
      cases hw : (writeExpr ⟨src, sc, .let_⟩ x).map (wrapTight x) with
      | error e => rw [hw] at h; cases h
      | ok sql =>
        rw [hw] at h
        cases name with
        | none => cases h
        | some n =>
          have h' := compileStmts_lookup_other src p rest _ none sc' q' hrest h
          rw [h', lookupScope_cons]
          have hne : n.name ≠ p := hn _ List.mem_cons_self kw n a x rfl
          have : (n.name == p) = false := by simpa using hne
          simp only [this, Bool.false_eq_true, if_false]

/-- **C06 (a reference to a parameter is its text).**  After the statement loop — started from the
    parameters, no let of the program binding `p` — an unquoted single-part identifier `p` naming the
    parameter `p ↦ v` is written as exactly `[.raw v]`, in every mode. -/
theorem C06_param_reference (src : Bytes) (params : List (Bytes × Bytes)) (stmts : List Stmt)
    (scope : Scope) (q : Option Tabular) (p v : Bytes) (sp : Span) (m : Mode)
    (hrun : compileStmts src stmts (paramScope params) none = .ok (scope, q))
    (hfind : params.find? (·.1 == p) = some (p, v))
    (hlets : NoLetBinds p stmts) :
    writeExpr ⟨src, scope, m⟩ (.qident [⟨p, sp, false⟩]) = .ok [.raw v] := by
  have hl : lookupScope scope p = some [.raw v] := by
    rw [compileStmts_lookup_other src p stmts _ none scope q hlets hrun, lookupScope_paramScope, hfind]
    rfl
  simp only [writeExpr, hl, Bool.not_false, if_true]

/-- expression level, as in the task statement -/
theorem C06_param_reference_expr (ctx : Ctx) (p v : Bytes) (sp : Span)
    (h : lookupScope ctx.scope p = some [.raw v]) :
    writeExpr ctx (.qident [⟨p, sp, false⟩]) = .ok [.raw v] := by
  simp only [writeExpr, h, Bool.not_false, if_true]

end Pql.Params
