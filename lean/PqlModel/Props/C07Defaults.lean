/-
Property C07 (operator defaults) / C02 (what `sort`, `top`, `take` mean), tie by translation: the flag
assignments of `(*parser).sortTerm`, the literal test of `(*parser).rowCount` and the optional
`kind = flavor` clause of `(*parser).joinOperator` are regenerated from parser/parser.go on every run
(`Facts.sortTermInit/First/NullsKeyword/Nulls`, `Facts.rowCountCheck`, `Facts.joinInit/KindKeyword/
KindSets`; translator `harness/extract_lex.go`).  `sortFlags` interprets the sortTerm tables on the
tokens that follow the sort expression; the parser model's `pSortTerm` is proved to produce exactly
those flags for every token list.  A changed default (e.g. `asc` no longer implying nulls first)
changes the tables and breaks these theorems.
-/
import PqlModel.Model.Parse
namespace Pql.Dispatch
open Pql
set_option linter.unusedSimpArgs false

/-! ## sortTerm -/

def applyFlags (f : Bool × Bool) (a n : Option Bool) : Bool × Bool := (a.getD f.1, n.getD f.2)

/-- (Asc, NullsFirst) as the regenerated tables of `sortTerm` assign them, given the tokens that
    follow the sort expression.  An unknown `then` tag gives `none`. -/
def sortFlags (ts : List Token) : Option (Bool × Bool) :=
  let init := Facts.sortTermInit
  match ts with
  | [] => some init
  | t :: rest =>
    match Facts.sortTermFirst.find? (fun row => isIdentNamed t row.1) with
    | none => some init                       -- not a listed keyword: token given back, term ends
    | some row =>
      let f1 := applyFlags init row.2.1 row.2.2.1
      let ts2 : Option (List Token) :=
        if row.2.2.2 = "next" then some rest else if row.2.2.2 = "unread" then some ts else none
      match ts2 with
      | none => none
      | some [] => some f1
      | some (u :: rest2) =>
        if isIdentNamed u Facts.sortTermNullsKeyword then
          match rest2 with
          | [] => some f1                     -- error: flags as they are
          | v :: _ =>
            match Facts.sortTermNulls.find? (fun row => isIdentNamed v row.1) with
            | some r2 => some (applyFlags f1 r2.2.1 r2.2.2)
            | none => some f1                 -- error: flags as they are
        else some f1

/-- the tables as the documentation states them -/
theorem C07_sortTerm_tables :
    Facts.sortTermInit = (false, false) ∧
    Facts.sortTermFirst = [("asc", some true, some true, "next"), ("desc", some false, some false, "next"),
      ("nulls", none, none, "unread")] ∧
    Facts.sortTermNullsKeyword = "nulls" ∧
    Facts.sortTermNulls = [("first", none, some true), ("last", none, some false)] := by decide

/-- in the table, a direction keyword sets NullsFirst to the value it gives Asc
    (asc ⇒ nulls first, desc ⇒ nulls last); the nulls clause never touches Asc -/
theorem C07_sortTerm_nulls_follow_direction :
    (∀ row ∈ Facts.sortTermFirst, row.2.2.2 = "next" → row.2.1.isSome = true ∧ row.2.2.1 = row.2.1) ∧
    (∀ row ∈ Facts.sortTermNulls, row.2.1 = none ∧ row.2.2.isSome = true) := by decide

/-- **C07/C02 (sort-term defaults are the translated Go assignments).**  Whenever the sort expression
    parses without error, `pSortTerm` returns a term whose flags are exactly those the regenerated
    tables assign for the tokens that follow the expression — for every token list, every fuel. -/
theorem C07_sortTerm_flags (c : PCtx) (fuel : Nat) (ts : List Token)
    (h : (pExpr c fuel ts).errs = []) :
    ∃ term, (pSortTerm c fuel ts).val = some term ∧
      sortFlags (pExpr c fuel ts).rest = some (term.asc, term.nullsFirst) := by
  unfold pSortTerm
  simp only [h, ne_eq, not_true_eq_false, ↓reduceIte]
  generalize (pExpr c fuel ts).rest = rs
  generalize (pExpr c fuel ts).val = x
  have hnk : Facts.sortTermNullsKeyword = "nulls" := rfl
  cases rs with
  | nil => exact ⟨_, rfl, rfl⟩
  | cons t rest =>
    simp only [sortFlags, Facts.sortTermFirst, Facts.sortTermInit, Facts.sortTermNulls, List.find?_cons,
      List.find?_nil, hnk]
    by_cases h1 : isIdentNamed t "asc" = true
    · simp only [h1, ↓reduceIte, applyFlags, Option.getD_some]
      cases rest with
      | nil => exact ⟨_, rfl, rfl⟩
      | cons u rest2 =>
        by_cases h2 : isIdentNamed u "nulls" = true
        · simp only [h2, ↓reduceIte, Bool.not_true, Bool.false_eq_true]
          cases rest2 with
          | nil => exact ⟨_, rfl, rfl⟩
          | cons v rest3 =>
            by_cases h3 : isIdentNamed v "first" = true
            · simp only [h3, ↓reduceIte]; exact ⟨_, rfl, rfl⟩
            · by_cases h4 : isIdentNamed v "last" = true
              · simp only [h3, h4, ↓reduceIte, Bool.false_eq_true]; exact ⟨_, rfl, rfl⟩
              · simp only [h3, h4, ↓reduceIte, Bool.false_eq_true]; exact ⟨_, rfl, rfl⟩
        · simp only [h2, ↓reduceIte, Bool.not_true, Bool.false_eq_true]; exact ⟨_, rfl, rfl⟩
    · simp only [h1, ↓reduceIte, Bool.false_eq_true]
      by_cases h1' : isIdentNamed t "desc" = true
      · simp only [h1', ↓reduceIte, applyFlags, Option.getD_some]
        cases rest with
        | nil => exact ⟨_, rfl, rfl⟩
        | cons u rest2 =>
          by_cases h2 : isIdentNamed u "nulls" = true
          · simp only [h2, ↓reduceIte, Bool.not_true, Bool.false_eq_true]
            cases rest2 with
            | nil => exact ⟨_, rfl, rfl⟩
            | cons v rest3 =>
              by_cases h3 : isIdentNamed v "first" = true
              · simp only [h3, ↓reduceIte]; exact ⟨_, rfl, rfl⟩
              · by_cases h4 : isIdentNamed v "last" = true
                · simp only [h3, h4, ↓reduceIte, Bool.false_eq_true]; exact ⟨_, rfl, rfl⟩
                · simp only [h3, h4, ↓reduceIte, Bool.false_eq_true]; exact ⟨_, rfl, rfl⟩
          · simp only [h2, ↓reduceIte, Bool.not_true, Bool.false_eq_true]; exact ⟨_, rfl, rfl⟩
      · simp only [h1', ↓reduceIte, Bool.false_eq_true]
        by_cases h2 : isIdentNamed t "nulls" = true
        · simp (config := { decide := true }) only [h2, ↓reduceIte, applyFlags, Option.getD_none, Bool.not_true, Bool.false_eq_true]
          cases rest with
          | nil => exact ⟨_, rfl, rfl⟩
          | cons v rest3 =>
            by_cases h3 : isIdentNamed v "first" = true
            · simp only [h3, ↓reduceIte]; exact ⟨_, rfl, rfl⟩
            · by_cases h4 : isIdentNamed v "last" = true
              · simp only [h3, h4, ↓reduceIte, Bool.false_eq_true]; exact ⟨_, rfl, rfl⟩
              · simp only [h3, h4, ↓reduceIte, Bool.false_eq_true]; exact ⟨_, rfl, rfl⟩
        · simp only [h2, ↓reduceIte, Bool.false_eq_true, Bool.not_false]; exact ⟨_, rfl, rfl⟩

/-- without the hypothesis the statement is false: a failed expression gives no term at all -/
theorem C07_sortTerm_flags_needs_expr :
    ∃ c fuel ts, (pExpr c fuel ts).errs ≠ [] ∧ (pSortTerm c fuel ts).val = none :=
  ⟨⟨0⟩, 0, [], by decide, by decide⟩

def kwTok (s : String) : Token := ⟨.ident, 0, 0, Bytes.ofString s⟩

/-- the nine keyword sequences and their flags (Asc, NullsFirst): nothing = descending, nulls last -/
theorem C07_sortTerm_flag_table :
    [[], ["asc"], ["desc"], ["nulls", "first"], ["nulls", "last"], ["asc", "nulls", "first"],
     ["asc", "nulls", "last"], ["desc", "nulls", "first"], ["desc", "nulls", "last"]].map
       (fun kws => sortFlags (kws.map kwTok)) =
    [some (false, false), some (true, true), some (false, false), some (false, true), some (false, false),
     some (true, true), some (true, false), some (false, true), some (false, false)] := by decide

/-! ## rowCount -/

theorem C07_rowCount_table : Facts.rowCountCheck = ("BasicLit", "IsInteger") := by decide

/-- the node-type test and the method of the regenerated check, read on the model's trees -/
def rowCountPasses (e : Expr) : Option Bool :=
  if Facts.rowCountCheck = ("BasicLit", "IsInteger") then
    some (match e with | .lit _ k v => litIsInteger k v | _ => true)
  else none

/-- **rowCount's literal check is the translated Go test**: after an error-free `p.expr()`, the row
    count is rejected (with a position-less error, node and rest kept) iff it is a literal that is not
    an integer; every non-literal passes -/
theorem C07_rowCount_check (c : PCtx) (fuel : Nat) (ts : List Token) (h : (pExpr c fuel ts).errs = []) :
    (pRowCount c fuel ts).val = (pExpr c fuel ts).val ∧ (pRowCount c fuel ts).rest = (pExpr c fuel ts).rest ∧
    rowCountPasses (pExpr c fuel ts).val = some ((pRowCount c fuel ts).errs == []) ∧
    ((pRowCount c fuel ts).errs = [] ∨ (pRowCount c fuel ts).errs = errNoPos) := by
  unfold pRowCount rowCountPasses
  simp only [h, ne_eq, not_true_eq_false, ↓reduceIte, C07_rowCount_table]
  split
  · rename_i k v hv
    by_cases hi : litIsInteger k v = true
    · simp [hi, h, hv]
    · simp [hi, hv, errNoPos]
  · rename_i hv
    refine ⟨rfl, rfl, ?_, Or.inl h⟩
    simp only [h, beq_self_eq_true, Option.some.injEq]

/-! ## joinOperator -/

theorem C07_join_tables :
    Facts.joinInit = [("Pipe", "pipe.Span"), ("Keyword", "keyword.Span"), ("Kind", "nullSpan()"),
      ("KindAssign", "nullSpan()"), ("Lparen", "nullSpan()"), ("Rparen", "nullSpan()"), ("On", "nullSpan()")] ∧
    Facts.joinKindKeyword = "kind" ∧ Facts.joinKindSets = ["Kind", "KindAssign", "Flavor"] ∧
    Facts.joinUnknownFlavorContinues = true := by decide

/-- **join without a `kind` clause**: whatever follows, the fields the optional clause would set
    (`Facts.joinKindSets`) keep their initial values: Kind and KindAssign the null span
    (`Facts.joinInit`), Flavor nil (not in the literal) -/
theorem C07_join_no_kind (c : PCtx) (fuel : Nat) (pipe kw : Span) (t0 : Token) (rest0 : List Token)
    (h : isIdentNamed t0 Facts.joinKindKeyword = false) :
    ∃ lp right rp on cs,
      (pJoin c (fuel + 1) pipe kw (t0 :: rest0)).val = .join pipe kw .null .null none lp right rp on cs := by
  have hk : Facts.joinKindKeyword = "kind" := rfl
  rw [hk] at h
  unfold pJoin
  simp only [h, Bool.false_eq_true, ↓reduceIte]
  repeat' split
  all_goals exact ⟨_, _, _, _, _, rfl⟩

/-- … and with the clause they are set: Kind and KindAssign to the two tokens' spans, Flavor to the
    identifier, known join type or not (an unknown flavor is recorded and the parse goes on) -/
theorem C07_join_kind (c : PCtx) (fuel : Nat) (pipe kw : Span) (t0 asg fl : Token) (rest : List Token)
    (h : isIdentNamed t0 Facts.joinKindKeyword = true) (ha : asg.kind = .assign) (hf : fl.kind = .ident) :
    ∃ lp right rp on cs,
      (pJoin c (fuel + 1) pipe kw (t0 :: asg :: fl :: rest)).val =
        .join pipe kw t0.span asg.span (some ⟨fl.value, fl.span, false⟩) lp right rp on cs := by
  have hk : Facts.joinKindKeyword = "kind" := rfl
  rw [hk] at h
  unfold pJoin
  simp only [h, ↓reduceIte, ha, hf, ne_eq, not_true_eq_false]
  repeat' split
  all_goals exact ⟨_, _, _, _, _, rfl⟩

/-! ## instances -/

/-- the hypothesis of `C07_sortTerm_flags` / `C07_rowCount_check` is satisfiable, and the flags come
    out as the table says: `x asc nulls last`, `x`, `x nulls first` -/
theorem C07_sortTerm_demo :
    (pExpr ⟨0⟩ 10 [kwTok "x", kwTok "asc", kwTok "nulls", kwTok "last"]).errs = [] ∧
    [[kwTok "x", kwTok "asc", kwTok "nulls", kwTok "last"], [kwTok "x"], [kwTok "x", kwTok "nulls", kwTok "first"],
     [kwTok "x", kwTok "asc", ⟨.comma, 0, 0, []⟩]].map
      (fun ts => (pSortTerm ⟨0⟩ 10 ts).val.map (fun t => (t.asc, t.nullsFirst))) =
    [some (true, false), some (false, false), some (false, true), some (true, true)] := by decide

/-- `C07_join_no_kind` without its hypothesis: with a `kind` clause Kind is the keyword's span -/
theorem C07_join_no_kind_needs_hyp :
    ∃ t0 : Token, isIdentNamed t0 Facts.joinKindKeyword = true ∧
      ∀ lp right rp on cs, (pJoin ⟨9⟩ 1 .null .null [{ t0 with start := 5, stop := 9 }]).val ≠
        .join .null .null .null .null none lp right rp on cs := by
  refine ⟨kwTok "kind", by decide, ?_⟩
  intro lp right rp on cs h
  simp (config := { decide := true }) [pJoin, kwTok, isIdentNamed, Token.span] at h

end Pql.Dispatch
