/-
C05 support: the model's `splitQueries` (sources = already written SQL chunks) refines the
intended structured splitting `Intended.splitA` (sources = `SrcA`).

  C05_split_refines_rel        success of the model ⇒ `splitA` succeeds with pointwise related links
  C05_split_refines_conv   `splitA` succeeds and every join condition is writable ⇒ the model succeeds
  C05_split_fails_iff      the model fails ⇔ `splitA` is `none` or some join condition is not writable
  C05_split_names / C05_split_length
  C05_reads_earlier        a link of `splitA [] t` reads only EARLIER links or source tables of `t`
  C05_splitA_block_structure   who reads whom exactly (`BlockA`), any nesting of joins
  C05_splitA_names_by_index, C05_splitA_generated_names_distinct, C05_splitA_chain_reads_previous

The relation (`SrcRel`, `SubRel`, `ListRel`) is in Lemmas/SplitABasic.lean, the simulation
(`sim_tab` / `sim_ops`, mutual over `Tabular` / `OpList`) in Lemmas/SplitASim.lean, the direct
invariants of `splitA` in Lemmas/SplitAReads.lean.
-/
import PqlModel.Lemmas.SplitAReads
import PqlModel.Lemmas.SplitABlock
namespace Pql.C05
open Pql SplitQ Intended

/-! ### 1–2. refinement, both directions, and the failure characterisation -/

/-- **The model refines the structured splitting.**  Started on related lists, a successful
    `splitQueries` is matched by a successful `splitA` with related results. -/
theorem C05_split_refines_rel (src : Bytes) (scope : List (Bytes × List Chunk)) (t : Tabular)
    (dstA : List SubA) (dst out : List Subquery)
    (hrel : Forall₂ (SubRel src scope) dstA dst)
    (h : splitQueries src scope dst t = .ok out) :
    ∃ outA, splitA dstA t = some outA ∧ Forall₂ (SubRel src scope) outA out := by
  have := sim_tab src scope t dstA dst hrel
  rw [h] at this
  exact this.2

/-- a successful `splitQueries` has written every join condition of the pipeline -/
theorem C05_split_ok_writable (src : Bytes) (scope : List (Bytes × List Chunk)) (t : Tabular)
    (dst out : List Subquery) (dstA : List SubA) (hrel : Forall₂ (SubRel src scope) dstA dst)
    (h : splitQueries src scope dst t = .ok out) : tabWritable src scope t = true := by
  have := sim_tab src scope t dstA dst hrel
  rw [h] at this
  exact this.1

/-- **Converse, for success.**  If `splitA` succeeds and every join condition in `t` (right-hand
    pipelines included) is writable in join mode, `splitQueries` succeeds, with related results. -/
theorem C05_split_refines_conv (src : Bytes) (scope : List (Bytes × List Chunk)) (t : Tabular)
    (dstA outA : List SubA) (dst : List Subquery)
    (hrel : Forall₂ (SubRel src scope) dstA dst)
    (h : splitA dstA t = some outA) (hw : tabWritable src scope t = true) :
    ∃ out, splitQueries src scope dst t = .ok out ∧ Forall₂ (SubRel src scope) outA out := by
  have := sim_tab src scope t dstA dst hrel
  cases hq : splitQueries src scope dst t with
  | error e =>
    rw [hq] at this
    rcases this with h' | h'
    · rw [h] at h'; cases h'
    · rw [hw] at h'; cases h'
  | ok out =>
    rw [hq] at this
    obtain ⟨_, outA', hA, hr⟩ := this
    rw [h] at hA; cases hA
    exact ⟨out, rfl, hr⟩

/-- **Failure characterisation.**  `splitQueries` fails iff `splitA` gives `none` (a `top`
    without column, an unknown join kind, a missing pipeline) or some join condition is not
    writable. -/
theorem C05_split_fails_iff (src : Bytes) (scope : List (Bytes × List Chunk)) (t : Tabular)
    (dstA : List SubA) (dst : List Subquery) (hrel : Forall₂ (SubRel src scope) dstA dst) :
    (∃ e, splitQueries src scope dst t = .error e) ↔
      (splitA dstA t = none ∨ tabWritable src scope t = false) := by
  have := sim_tab src scope t dstA dst hrel
  constructor
  · rintro ⟨e, he⟩
    rw [he] at this
    exact this
  · intro hf
    cases hq : splitQueries src scope dst t with
    | error e => exact ⟨e, rfl⟩
    | ok out =>
      rw [hq] at this
      obtain ⟨hw, outA, hA, _⟩ := this
      rcases hf with hf | hf
      · rw [hf] at hA; cases hA
      · rw [hf] at hw; cases hw

/-- the same, from the empty list (the whole statement) -/
theorem C05_split_fails_iff_top (src : Bytes) (scope : List (Bytes × List Chunk)) (t : Tabular) :
    (∃ e, splitQueries src scope [] t = .error e) ↔
      (splitA [] t = none ∨ tabWritable src scope t = false) :=
  C05_split_fails_iff src scope t [] [] .nil

/-! non-vacuity: `T | join kind=leftouter (U | count) on k | take 1` -/

def exJoin : Tabular :=
  .mk (some ⟨[84], .zero, false⟩)
    (.cons (.join .zero .zero .zero .zero (some ⟨Bytes.ofString "leftouter", .zero, false⟩) .zero
        (.mk (some ⟨[85], .zero, false⟩) (.cons (.count .zero .zero) .nil)) .zero .zero
        (.cons (.qident [⟨[107], .zero, false⟩]) .nil))
      (.cons (.take .zero .zero (.lit .zero .number [49])) .nil))

/-- the same with an unwritable join condition: `on not()` (wrong arity) -/
def exJoinBad : Tabular :=
  .mk (some ⟨[84], .zero, false⟩)
    (.cons (.join .zero .zero .zero .zero none .zero
        (.mk (some ⟨[85], .zero, false⟩) .nil) .zero .zero
        (.cons (.call ⟨Bytes.ofString "not", .zero, false⟩ .zero .nil .zero) .nil)) .nil)

theorem exists_of_isOk {ε α : Type} {x : Except ε α} (h : isOk x = true) : ∃ a, x = .ok a := by
  cases x with
  | error e => cases h
  | ok a => exact ⟨a, rfl⟩

theorem exists_of_isSome {α : Type} {x : Option α} (h : x.isSome = true) : ∃ a, x = some a := by
  cases x with
  | none => cases h
  | some a => exact ⟨a, rfl⟩

example : isOk (splitQueries [] [] [] exJoin) = true := by decide
example : (match splitQueries [] [] [] exJoin with | .ok out => out.length == 2 | .error _ => false) = true := by
  decide
example : (splitA [] exJoin).isSome = true ∧ tabWritable [] [] exJoin = true := by decide
example : ∃ out outA, splitQueries [] [] [] exJoin = .ok out ∧ splitA [] exJoin = some outA ∧
    Forall₂ (SubRel [] []) outA out := by
  obtain ⟨out, h⟩ := exists_of_isOk (x := splitQueries [] [] [] exJoin) (by decide)
  obtain ⟨outA, hA, hr⟩ := C05_split_refines_rel [] [] exJoin [] [] out .nil h
  exact ⟨out, outA, h, hA, hr⟩
/-- non-vacuity of the converse and of the failure characterisation -/
example : ∃ out outA, splitA [] exJoin = some outA ∧ splitQueries [] [] [] exJoin = .ok out ∧
    Forall₂ (SubRel [] []) outA out := by
  obtain ⟨outA, hA⟩ := exists_of_isSome (x := splitA [] exJoin) (by decide)
  obtain ⟨out, h, hr⟩ := C05_split_refines_conv [] [] exJoin [] outA [] .nil hA (by decide)
  exact ⟨out, outA, hA, h, hr⟩
example : ∃ e, splitQueries [] [] [] exJoinBad = .error e :=
  (C05_split_fails_iff_top [] [] exJoinBad).mpr (.inr (by decide))
/-- the writability hypothesis of the converse is needed: `splitA` succeeds, the model fails -/
theorem C05_conv_needs_writable :
    (splitA [] exJoinBad).isSome = true ∧ tabWritable [] [] exJoinBad = false ∧
      isOk (splitQueries [] [] [] exJoinBad) = false := by decide

/-! ### 3. corollaries -/

/-- related lists have the same names in the same order -/
theorem ListRel.names {src : Bytes} {scope : List (Bytes × List Chunk)} {outA : List SubA}
    {out : List Subquery} (h : Forall₂ (SubRel src scope) outA out) :
    outA.map (·.name) = out.map (·.name) := h.map_eq fun _ _ hab => hab.name

/-- **Same names, same order.** -/
theorem C05_split_names (src : Bytes) (scope : List (Bytes × List Chunk)) (t : Tabular)
    (dstA : List SubA) (dst out : List Subquery) (hrel : Forall₂ (SubRel src scope) dstA dst)
    (h : splitQueries src scope dst t = .ok out) :
    ∃ outA, splitA dstA t = some outA ∧ outA.map (·.name) = out.map (·.name) := by
  obtain ⟨outA, hA, hr⟩ := C05_split_refines_rel src scope t dstA dst out hrel h
  exact ⟨outA, hA, ListRel.names hr⟩

/-- **Same length**; and operator, sort, take agree index by index. -/
theorem C05_split_length (src : Bytes) (scope : List (Bytes × List Chunk)) (t : Tabular)
    (dstA : List SubA) (dst out : List Subquery) (hrel : Forall₂ (SubRel src scope) dstA dst)
    (h : splitQueries src scope dst t = .ok out) :
    ∃ outA, splitA dstA t = some outA ∧ outA.length = out.length ∧
      ∀ (i : Nat) (h₁ : i < outA.length) (h₂ : i < out.length),
        outA[i].name = out[i].name ∧ outA[i].op = out[i].op ∧ outA[i].sort = out[i].sort ∧
          outA[i].take = out[i].take ∧ SrcRel src scope outA[i].source out[i].source := by
  obtain ⟨outA, hA, hr⟩ := C05_split_refines_rel src scope t dstA dst out hrel h
  refine ⟨outA, hA, hr.length_eq, fun i h₁ h₂ => ?_⟩
  have := hr.getElem i h₁ h₂
  exact ⟨this.name, this.op, this.sort, this.take, this.source⟩

example : ∃ out outA, splitQueries [] [] [] exJoin = .ok out ∧ splitA [] exJoin = some outA ∧
    outA.map (·.name) = out.map (·.name) ∧ outA.length = out.length := by
  obtain ⟨out, h⟩ := exists_of_isOk (x := splitQueries [] [] [] exJoin) (by decide)
  obtain ⟨outA, hA, hlen, _⟩ := C05_split_length [] [] exJoin [] [] out .nil h
  obtain ⟨outA', hA', hn⟩ := C05_split_names [] [] exJoin [] [] out .nil h
  rw [hA] at hA'; cases hA'
  exact ⟨out, outA, h, hA, hn, hlen⟩

/-! #### who reads whom -/

/-- **A link reads only earlier links or source tables** (any nesting of joins): every name in the
    source of the link at index `i` of `splitA [] t` — the table of a plain link, the left and
    the right side of a join link — is the name of a link at a smaller index, or the name of a
    source table of `t` (`tablesOf`: the sources of `t` and of all right-hand pipelines). -/
theorem C05_reads_earlier (t : Tabular) (outA : List SubA) (h : splitA [] t = some outA) :
    ∀ (i : Nat) (hi : i < outA.length), ∀ n ∈ srcNames outA[i].source,
      (∃ (j : Nat) (hj : j < i), (outA[j]'(Nat.lt_trans hj hi)).name = n) ∨ n ∈ tablesOf t := by
  intro i hi n hn
  have inv := (inv_tab t (tablesOf t) [] outA h (InvA.nil _) (fun _ hm => hm)).1
  rcases inv.reads i hi n hn with hm | hm
  · left
    obtain ⟨s, hs, rfl⟩ := List.mem_map.mp hm
    obtain ⟨j, hj, hjs⟩ := List.getElem_of_mem hs
    have hji : j < i := by simp at hj; omega
    refine ⟨j, hji, ?_⟩
    rw [List.getElem_take] at hjs
    rw [hjs]
  · right; exact hm

/-- with `CompileOracle.tabularTables`, for pipelines all of whose (sub)pipelines have a source
    table — what the PQL parser produces for every pipeline it accepts -/
theorem C05_reads_earlier_partial (t : Tabular) (outA : List SubA) (h : splitA [] t = some outA)
    (hs : hasSources t = true) :
    ∀ (i : Nat) (hi : i < outA.length), ∀ n ∈ srcNames outA[i].source,
      (∃ (j : Nat) (hj : j < i), (outA[j]'(Nat.lt_trans hj hi)).name = n) ∨
        n ∈ CompileOracle.tabularTables t := by
  rw [← tablesOf_eq_tabularTables t hs]
  exact C05_reads_earlier t outA h

/-- the side condition is needed: the pipeline without source table (`Tabular.mk none .nil`)
    reads the table named `""`, which `tabularTables` does not list -/
theorem C05_reads_earlier_counterexample :
    ∃ outA, splitA [] (.mk none .nil) = some outA ∧ ∃ (hi : 0 < outA.length),
      ∃ n ∈ srcNames outA[0].source,
        ¬ ((∃ (j : Nat) (hj : j < 0), (outA[j]'(Nat.lt_trans hj hi)).name = n) ∨
            n ∈ CompileOracle.tabularTables (.mk none .nil)) := by
  refine ⟨[{ name := subqueryName 0, source := .table [] }], by rfl, by decide, [], by decide, ?_⟩
  rintro (⟨j, hj, _⟩ | hm)
  · omega
  · revert hm; decide

example : hasSources exJoin = true ∧ (splitA [] exJoin).isSome = true := by decide
example : ∃ outA, splitA [] exJoin = some outA ∧
    ∀ (i : Nat) (hi : i < outA.length), ∀ n ∈ srcNames outA[i].source,
      (∃ (j : Nat) (hj : j < i), (outA[j]'(Nat.lt_trans hj hi)).name = n) ∨
        n ∈ CompileOracle.tabularTables exJoin := by
  obtain ⟨outA, hA⟩ := exists_of_isSome (x := splitA [] exJoin) (by decide)
  exact ⟨outA, hA, C05_reads_earlier_partial exJoin outA hA (by decide)⟩
example : ((splitA [] exJoin).map fun outA => outA.map fun s => srcNames s.source) =
    some [[[85]], [[84], subqueryName 0]] := by decide

/-- the same for the model's subqueries, through the refinement: a plain subquery's source is one
    quoted name, a join subquery's source is the `joinSourceOf` text of two names; all of them
    names of earlier subqueries or source tables -/
theorem C05_reads_earlier_model (src : Bytes) (scope : List (Bytes × List Chunk)) (t : Tabular)
    (out : List Subquery) (h : splitQueries src scope [] t = .ok out) :
    ∀ (i : Nat) (hi : i < out.length),
      let earlier (n : Bytes) : Prop :=
        (∃ (j : Nat) (hj : j < i), (out[j]'(Nat.lt_trans hj hi)).name = n) ∨ n ∈ tablesOf t
      (∃ n, out[i].source = [.qid n] ∧ earlier n) ∨
      (∃ u kw l r c, out[i].source = joinSourceOf u kw [.qid l] r c ∧ earlier l ∧ earlier r) := by
  intro i hi earlier
  obtain ⟨outA, hA, hr⟩ := C05_split_refines_rel src scope t [] [] out .nil h
  have hiA : i < outA.length := by rw [hr.length_eq]; exact hi
  have key := C05_reads_earlier t outA hA i hiA
  have hearlier : ∀ n, ((∃ (j : Nat) (hj : j < i), (outA[j]'(Nat.lt_trans hj hiA)).name = n) ∨ n ∈ tablesOf t) →
      earlier n := by
    rintro n (⟨j, hj, hn⟩ | hn)
    · left; refine ⟨j, hj, ?_⟩
      rw [← (hr.getElem j (Nat.lt_trans hj hiA) (Nat.lt_trans hj hi)).name]; exact hn
    · right; exact hn
  have hs := (hr.getElem i hiA hi).source
  cases hsrc : outA[i].source with
  | table n =>
    rw [hsrc] at hs key
    left; exact ⟨n, hs, hearlier n (key n (by simp [srcNames]))⟩
  | join u l ln rn cond =>
    rw [hsrc] at hs key
    obtain ⟨c, _, hc⟩ := hs
    right
    exact ⟨u, joinKwOf l, ln, rn, c, hc, hearlier ln (key ln (by simp [srcNames])),
      hearlier rn (key rn (by simp [srcNames]))⟩

/-- **Who reads whom, exactly** (counterpart of `C05_block_structure` for `splitA`, any nesting,
    no writability hypothesis).  The result of `splitA` on `source | ops` is a block (`BlockA`):
    every non-join link reads the previous link of ITS pipeline's block (the first one the source
    table of its pipeline); a join link is preceded by the complete block of its right-hand
    pipeline, its left side is the link in front of that block (or the source table when there is
    none) and its right side is the last link of that block. -/
theorem C05_splitA_block_structure (t : Tabular) (outA : List SubA) (h : splitA [] t = some outA) :
    ∃ source ops, t = .mk source ops ∧ BlockA source outA ∧ outA ≠ [] := by
  obtain ⟨source, ops, rblk, r, ht, hout, hb, hlast⟩ := blk_tab t [] outA h
  simp only [List.nil_append] at hout
  subst hout
  refine ⟨source, ops, ht, hb, ?_⟩
  intro hnil; rw [hnil] at hlast; cases hlast

example : ∃ outA source ops, splitA [] exJoin = some outA ∧ exJoin = .mk source ops ∧ BlockA source outA := by
  obtain ⟨outA, hA⟩ := exists_of_isSome (x := splitA [] exJoin) (by decide)
  obtain ⟨source, ops, ht, hb, _⟩ := C05_splitA_block_structure exJoin outA hA
  exact ⟨outA, source, ops, hA, ht, hb⟩

/-! #### names by index, for `splitA` -/

/-- **Names by index** (the counterpart of `C05_names_by_index`, for `splitA`, without any
    writability hypothesis): the link at index `i` is named `__subquery{i}` unless it is an
    `as` link, which carries the user's name. -/
theorem C05_splitA_names_by_index (t : Tabular) (outA : List SubA) (h : splitA [] t = some outA) :
    ∀ (i : Nat) (hi : i < outA.length),
      outA[i].name = subqueryName i ∨
        ∃ p k n, outA[i].op = some (.as_ p k n) ∧ outA[i].name = identName n :=
  (inv_tab t (tablesOf t) [] outA h (InvA.nil _) (fun _ hm => hm)).1.names

/-- **Generated names are pairwise distinct** (counterpart of `C05_generated_names_distinct`). -/
theorem C05_splitA_generated_names_distinct (t : Tabular) (outA : List SubA) (h : splitA [] t = some outA)
    (i j : Nat) (hi : i < outA.length) (hj : j < outA.length)
    (hni : ∀ p k n, outA[i].op ≠ some (.as_ p k n)) (hnj : ∀ p k n, outA[j].op ≠ some (.as_ p k n))
    (hname : outA[i].name = outA[j].name) : i = j := by
  have hn := C05_splitA_names_by_index t outA h
  rcases hn i hi with h1 | ⟨p, k, n, ho, _⟩
  · rcases hn j hj with h2 | ⟨p, k, n, ho, _⟩
    · exact C05_subqueryName_injective i j (h1.symm.trans (hname.trans h2))
    · exact absurd ho (hnj p k n)
  · exact absurd ho (hni p k n)

/-- a join-free operator list has no join condition to write -/
theorem opsWritable_of_joinFree (src : Bytes) (scope : List (Bytes × List Chunk)) :
    ∀ (ops : OpList), joinFree ops = true → opsWritable src scope ops = true
  | .nil, _ => by unfold opsWritable; rfl
  | .cons o os, h => by
    cases o with
    | join p kw kind ka flavor lp right rp on conds => unfold joinFree at h; cases h
    | _ =>
      unfold joinFree at h
      unfold opsWritable
      exact opsWritable_of_joinFree src scope os h

/-- **Join-free pipelines, index by index** (`C05_chain_reads_previous` transported to `splitA`
    through the converse refinement — a join-free pipeline has nothing unwritable): the first
    link reads the base table, the link at index `i + 1` reads exactly the link at index `i`. -/
theorem C05_splitA_chain_reads_previous (source : Option Ident) (ops : OpList) (outA : List SubA)
    (hjf : joinFree ops = true) (h : splitA [] (.mk source ops) = some outA) :
    (∀ h0 : 0 < outA.length, outA[0].source = .table (identName source)) ∧
    (∀ (i : Nat) (hi : i + 1 < outA.length), outA[i + 1].source = .table outA[i].name) := by
  have hw : tabWritable [] [] (.mk source ops) = true := by
    unfold tabWritable; exact opsWritable_of_joinFree [] [] ops hjf
  obtain ⟨out, hq, hr⟩ := C05_split_refines_conv [] [] (.mk source ops) [] outA [] .nil h hw
  obtain ⟨h0, hstep⟩ := C05_chain_reads_previous [] [] source ops out hjf hq
  have hlen := hr.length_eq
  constructor
  · intro hA0
    have hs := (hr.getElem 0 hA0 (hlen ▸ hA0)).source
    rw [h0 (hlen ▸ hA0)] at hs
    exact hs.of_qid
  · intro i hi
    have hs := (hr.getElem (i + 1) hi (hlen ▸ hi)).source
    rw [hstep i (hlen ▸ hi)] at hs
    rw [hs.of_qid, (hr.getElem i (Nat.lt_of_succ_lt hi) (hlen ▸ Nat.lt_of_succ_lt hi)).name]

/-- non-vacuity: `T | count | take 1 | where x` -/
def exChain : Tabular :=
  .mk (some ⟨[84], .zero, false⟩)
    (.cons (.count .zero .zero) (.cons (.take .zero .zero (.lit .zero .number [49]))
      (.cons (.where_ .zero .zero (.qident [⟨[120], .zero, false⟩])) .nil)))

example : (splitA [] exChain).map (·.length) = some 2 := by decide
example : ∃ outA, splitA [] exChain = some outA ∧
    (∀ h0 : 0 < outA.length, outA[0].source = .table [84]) ∧
    (∀ (i : Nat) (hi : i + 1 < outA.length), outA[i + 1].source = .table outA[i].name) := by
  obtain ⟨outA, h⟩ := exists_of_isSome (x := splitA [] exChain) (by decide)
  exact ⟨outA, h, C05_splitA_chain_reads_previous _ _ outA (by decide) h⟩

end Pql.C05
