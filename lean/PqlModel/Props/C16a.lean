/-
Property C16 — the command-line tool compiles exactly the statements it is given.

This file: the per-statement simulation between the tool's loop state and the whole-input
specification, and properties of the line reader model.  The refinement theorem
(`C16_refines`: the line loop equals the whole-input specification for every `compile` and
every line layout) is in `Props/C16.lean`.
Partial by nature: `bufio`, file opening, partial writes and terminal detection are OS
plumbing, modelled only as described in Model/Cli.lean and exercised through the real binary.
-/
import PqlModel.Spec.CliSpec
namespace Pql.C16
open Pql

/-- loop state and specification accumulator describe the same history -/
def Rel (st : CliState) (a : CliSpec.Acc) : Prop :=
  st.lets = a.lets ∧ st.out = a.out ∧ st.nErrors = a.nErrors ∧ st.failed = decide (a.nErrors > 0)

/-- **C16 (one statement).** Processing one terminated statement keeps the tool's state and the
    specification in step, whatever `compile` does: a failed statement is counted and skipped
    without touching prelude or output; a failed `let` is not added to the scope. -/
theorem C16_statement_sim (compile : Bytes → Option Bytes) (st : CliState) (a : CliSpec.Acc) (stmt : Bytes)
    (h : Rel st a) : Rel (cliStatement compile st stmt) (CliSpec.statement compile a stmt) := by
  obtain ⟨h1, h2, h3, h4⟩ := h
  unfold cliStatement CliSpec.statement Rel
  rw [h1]
  by_cases hl : isLetStatement stmt = true
  · simp only [hl, ↓reduceIte]
    cases compile (a.lets ++ stmt ++ Bytes.ofString ";X") with
    | some _ => simp [h2, h3, h4]
    | none => simp [h2, h3]
  · simp only [hl]
    cases compile (a.lets ++ stmt) with
    | some _ => simp [h2, h3, h4]
    | none => simp [h2, h3]

theorem C16_statements_sim (compile : Bytes → Option Bytes) (stmts : List Bytes) (st : CliState) (a : CliSpec.Acc)
    (h : Rel st a) : Rel (stmts.foldl (cliStatement compile) st) (stmts.foldl (CliSpec.statement compile) a) := by
  induction stmts generalizing st a with
  | nil => exact h
  | cons s ss ih => exact ih _ _ (C16_statement_sim compile st a s h)

/-- a failing statement never changes what was already written -/
theorem C16_output_monotone (compile : Bytes → Option Bytes) (st : CliState) (stmt : Bytes) :
    ∃ more, (cliStatement compile st stmt).out = st.out ++ more := by
  unfold cliStatement
  by_cases hl : isLetStatement stmt = true
  · simp only [hl, ↓reduceIte]
    cases compile (st.lets ++ stmt ++ Bytes.ofString ";X") <;> exact ⟨[], by simp⟩
  · simp only [hl]
    cases compile (st.lets ++ stmt) with
    | none => exact ⟨[], by simp⟩
    | some sql => exact ⟨sql ++ [10, 10], by simp [List.append_assoc]⟩

end Pql.C16
