/-
Property C08 (and C07, C10): the parser's error algebra — what the invariant of the built values
(`Props/C08ErrIRAlgebra.lean`: `wf`) buys, and why each clause is there.

  `leaves_eq_nil_iff`   clause J (joins are non-empty): `leaves e = [] ↔ e = nil` — both parser interpreters read
                        `err != nil` as "the list of leaves is not empty" (`join_empty_cx`: false for `join []`)
  `leaves_spans`        clause P (the `err` of a `parseError` is a message): the spans of the leaves are ALL the spans
                        in the value, in order — no position is lost by flattening (`perr_nested_cx`)
  `bareNF_cx`           clause N: `isNotFound` and the leaves disagree on a bare `notFoundError`
  `opaque_unwrap_cx`    the method table: if `opaqueError` had an `Unwrap`, `makeErrorOpaque` would hide nothing
  `nested_join_kept`, `wrap_inside_cx`   the remaining parts of J and clause W are facts about the construction:
                        `joinErrors` flattens ONE level and does not look under `%w`
-/
import PqlModel.Props.C08ErrIRAlgebra
namespace Pql.ErrIR
open Pql
set_option linter.unusedSimpArgs false

/-! ### nil-ness -/

mutual
theorem flat_ne_nil (m : Methods) : ∀ (e : GoErr) (o : Bool), allNodes joinNode e = true → flat m o e ≠ []
  | .plain, _, _ => by simp [flat]
  | .perr _ _, _, _ => by simp [flat]
  | .nf i, o, h => by
    cases hm : m.nfUnwrap with
    | true =>
      simp only [flat, hm, if_true]
      exact flat_ne_nil m i o (by simp only [allNodes, Bool.and_eq_true] at h; exact h.2)
    | false => simp [flat, hm]
  | .opaque i, _, h => by
    simp only [flat]
    exact flat_ne_nil m i true (by simp only [allNodes, Bool.and_eq_true] at h; exact h.2)
  | .wrapW i, o, h => by
    simp only [flat]
    exact flat_ne_nil m i o (by simp only [allNodes, Bool.and_eq_true] at h; exact h.2)
  | .join es, o, h => by
    simp only [allNodes, joinNode, Bool.and_eq_true, Bool.not_eq_true'] at h
    simp only [flat]
    exact flatList_ne_nil m es o (by simpa using h.1.1) h.2
theorem flatList_ne_nil (m : Methods) :
    ∀ (es : List GoErr) (o : Bool), es ≠ [] → allNodesList joinNode es = true → flatList m o es ≠ []
  | [], _, h, _ => absurd rfl h
  | e :: es, o, _, h => by
    simp only [allNodesList, Bool.and_eq_true] at h
    simp only [flatList, ne_eq, List.append_eq_nil_iff, not_and]
    intro h0
    exact absurd h0 (flat_ne_nil m e o h.1)
end

/-- **`err != nil` is "some leaf"**: a value whose joins are non-empty is nil iff it has no leaves -/
theorem leaves_eq_nil_iff (m : Methods) (e : Option GoErr) (h : allNodesO joinNode e = true) :
    leaves m e = [] ↔ e = none := by
  cases e with
  | none => simp [leaves]
  | some e => simp [leaves, flat_ne_nil m e false h]

theorem wf_joinsOK (e : Option GoErr) (h : wfO e = true) : allNodesO joinNode e = true := ((wfO_iff e).mp h).2.1

/-- without clause J: `errors.Join` never returns it, but an empty join would be a non-nil error without leaves -/
theorem join_empty_cx (m : Methods) : leaves m (some (.join [])) = [] ∧ allNodes joinNode (.join []) = false := by
  constructor <;> rfl

/-! ### no span is lost -/

mutual
/-- the spans of all `parseError`s of a value, in order -/
def allSpans : GoErr → List Span
  | .plain => []
  | .perr s i => s :: allSpans i
  | .nf i => allSpans i
  | .opaque i => allSpans i
  | .join es => allSpansList es
  | .wrapW i => allSpans i
def allSpansList : List GoErr → List Span
  | [] => []
  | e :: es => allSpans e ++ allSpansList es
end

theorem isMsg_allSpans : ∀ i : GoErr, isMsg i = true → allSpans i = []
  | .plain, _ => rfl
  | .nf .plain, _ => rfl
  | .opaque i, h => by simp only [allSpans]; exact isMsg_allSpans i (by simpa [isMsg] using h)
  | .perr _ _, h => by simp [isMsg] at h
  | .join _, h => by simp [isMsg] at h
  | .wrapW _, h => by simp [isMsg] at h
  | .nf (.perr _ _), h => by simp [isMsg] at h
  | .nf (.nf _), h => by simp [isMsg] at h
  | .nf (.opaque _), h => by simp [isMsg] at h
  | .nf (.join _), h => by simp [isMsg] at h
  | .nf (.wrapW _), h => by simp [isMsg] at h

def spansOf (es : Errs) : List Span := es.filterMap (·.span)

theorem spansOf_append (a b : Errs) : spansOf (a ++ b) = spansOf a ++ spansOf b := by simp [spansOf]

mutual
theorem flat_spans (m : Methods) (hm : m.nfUnwrap = true) :
    ∀ (e : GoErr) (o : Bool), allNodes perrNode e = true → spansOf (flat m o e) = allSpans e
  | .plain, _, _ => by simp [flat, spansOf, allSpans]
  | .perr s i, _, h => by
    simp only [allNodes, perrNode, Bool.and_eq_true] at h
    simp [flat, spansOf, allSpans, isMsg_allSpans i h.1]
  | .nf i, o, h => by
    simp only [flat, hm, if_true, allSpans]
    exact flat_spans m hm i o (by simp only [allNodes, Bool.and_eq_true] at h; exact h.2)
  | .opaque i, _, h => by
    simp only [flat, allSpans]
    exact flat_spans m hm i true (by simp only [allNodes, Bool.and_eq_true] at h; exact h.2)
  | .wrapW i, o, h => by
    simp only [flat, allSpans]
    exact flat_spans m hm i o (by simp only [allNodes, Bool.and_eq_true] at h; exact h.2)
  | .join es, o, h => by
    simp only [flat, allSpans]
    exact flatList_spans m hm es o (by simp only [allNodes, Bool.and_eq_true] at h; exact h.2)
theorem flatList_spans (m : Methods) (hm : m.nfUnwrap = true) :
    ∀ (es : List GoErr) (o : Bool), allNodesList perrNode es = true → spansOf (flatList m o es) = allSpansList es
  | [], _, _ => rfl
  | e :: es, o, h => by
    simp only [allNodesList, Bool.and_eq_true] at h
    simp only [flatList, allSpansList, spansOf_append, flat_spans m hm e o h.1, flatList_spans m hm es o h.2]
end

/-- **flattening loses no position**: the spans of the leaves are the spans of all `parseError`s of the value -/
theorem leaves_spans (m : Methods) (hm : m.nfUnwrap = true) (e : GoErr) (h : allNodes perrNode e = true) :
    spansOf (leaves m (some e)) = allSpans e := flat_spans m hm e false h

/-- without clause P: a `parseError` inside a `parseError` is not reported — the hook (and `Error()`) see
    the outer position only -/
theorem perr_nested_cx (m : Methods) (s t : Span) :
    spansOf (leaves m (some (.perr s (.perr t .plain)))) = [s] ∧ allSpans (.perr s (.perr t .plain)) = [s, t] ∧
      allNodes perrNode (.perr s (.perr t .plain)) = false := by
  refine ⟨?_, rfl, rfl⟩
  simp [leaves, flat, spansOf]

/-! ### clause N and the method table -/

/-- without clause N: a bare `notFoundError` IS not-found for `isNotFound`, but the hook reports a leaf
    without the flag (it looks through the `Unwrap`) — no parser production builds one -/
theorem bareNF_cx :
    errorsAsI ⟨true, true, false⟩ nfType (some (.nf .plain)) = true ∧
      isNF (leaves ⟨true, true, false⟩ (some (.nf .plain))) = false ∧ bareNF (.nf .plain) = true := by
  refine ⟨by decide, by decide, rfl⟩

/-- if `opaqueError` had an `Unwrap() error`, `makeErrorOpaque` would not hide a not-found error: the
    hypothesis `m.opaqueUnwrap = false` of `leaves_goOpaque` / `errorsAs_leaves` is needed -/
theorem opaque_unwrap_cx (s : Span) :
    errorsAsI ⟨true, true, true⟩ nfType (goOpaque (some (.perr s (.nf .plain)))) = true ∧
      leaves ⟨true, true, true⟩ (goOpaque (some (.perr s (.nf .plain)))) ≠
        mkOpaque (leaves ⟨true, true, true⟩ (some (.perr s (.nf .plain)))) := by
  refine ⟨by simp [goOpaque, errorsAsI, errorsAs, dynType, nfType], ?_⟩
  simp [goOpaque, leaves, flat, errorsAs, dynType, nfType, mkOpaque]

/-- dropping `notFoundError.Unwrap` changes neither `isNotFound` on any value … -/
theorem nf_unwrap_irrelevant_as (a b c : Bool) :
    ∀ e : GoErr, errorsAs ⟨a, b, c⟩ nfType e = errorsAs ⟨a, !b, c⟩ nfType e := by
  intro e
  induction e using GoErr.rec (motive_2 := fun es => errorsAsList ⟨a, b, c⟩ nfType es = errorsAsList ⟨a, !b, c⟩ nfType es) with
  | plain => rfl
  | perr s i ih => simp [errorsAs, ih]
  | nf i _ => simp [errorsAs, dynType, nfType]
  | «opaque» i ih => simp [errorsAs, ih]
  | join es ih => simp [errorsAs, ih]
  | wrapW i ih => simp [errorsAs, ih]
  | nil => rfl
  | cons e es ih1 ih2 => simp [errorsAsList, ih1, ih2]

/-! ### `joinErrors` flattens one level -/

/-- a join inside a join is KEPT by `joinErrors` (only the arguments themselves are flattened): that the built
    values have none is an invariant of the construction, not a normalisation — and the leaves do not care -/
theorem nested_join_kept (m : Methods) :
    goJoin [some (.join [.join [.plain]])] = some (.join [.join [.plain]]) ∧
      allNodes joinNode (.join [.join [.plain]]) = false ∧
      leaves m (goJoin [some (.join [.join [.plain]])]) = leaves m (some (.join [.join [.plain]])) := by
  refine ⟨rfl, rfl, rfl⟩

/-- `joinErrors` does not look under `%w`: the result has a join under an element (clause W excludes it for
    the productions; `Parse` wraps once, at the very end) -/
theorem wrap_inside_cx :
    goJoin [some (.wrapW (.join [.plain, .plain])), some .plain] = some (.join [.wrapW (.join [.plain, .plain]), .plain]) ∧
      allNodes wrapNode (.join [.wrapW (.join [.plain, .plain]), .plain]) = false := ⟨rfl, rfl⟩

end Pql.ErrIR
