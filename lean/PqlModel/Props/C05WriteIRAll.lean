/-
Property C05 (and C02), tie by translation, part 3: the render and default cases of
`(*subquery).write`, the theorem for all cases (`C05_write_ir`), the counterexamples showing that
its side condition is needed and a non-vacuity example (see Props/C05WriteIR.lean for the set-up).
-/
import PqlModel.Props.C05WriteIROps
namespace Pql.WriteIR
open Pql
set_option linter.unusedSimpArgs false

/-! ### render -/

def propBody : List Stmt :=
  [.lit ",\n    ", .declStr "value" "",
   .ite (.typeIs "lit" "BasicLit" ⟨"prop", "Value"⟩) [.set "value" ⟨"lit", "Value"⟩]
     [.ite (.typeIs "id" "QualifiedIdent" ⟨"prop", "Value"⟩) [.set "value" ⟨"id", "Parts[0].Name"⟩] []],
   .qstr ⟨"value", ""⟩, .lit " as ", .qidCat "render_prop_" ⟨"prop", "Name.Name"⟩]

def renderIR : List Stmt :=
  [.lit "SELECT *,\n", .lit "    ", .qstr ⟨"op", "ChartType.Name"⟩, .lit " as \"render_type\"",
   .for_ "_" "prop" ⟨"op", "Props"⟩ propBody, .lit "\nFROM ", .str ⟨"sub", "sourceSQL"⟩]

theorem render_ir : decode (irOf "write:RenderOperator") = some renderIR := by rfl

def emptyQident : Expr → Bool
  | .qident [] => true
  | _ => false

/-- a render property the Go code can write without a run-time panic -/
def propOK (p : RenderProp) : Bool := p.name.isSome && !emptyQident p.value

/-- one render property, as the model writes it -/
def propW (p : RenderProp) : List Chunk :=
  [.txt ",\n    ", .qstr (renderPropValue p.value), .txt " as ", .qid (Bytes.ofString "render_prop_" ++ identName p.name)]

theorem ofString_empty : Bytes.ofString "" = [] := by rfl

theorem prop_body (ctx : Ctx) (vars : List (String × Val)) (i : Nat) (p : RenderProp) (hp : propOK p = true) :
    (execBlock modelSem propBody ⟨some ctx, ("prop", .prop p) :: ("_", .nat i) :: vars⟩ >>= fun r =>
        .ok (r.1, r.2.leave ⟨some ctx, vars⟩)) =
      ((fun (_ : Nat) (p : RenderProp) => (Except.ok (propW p) : M (List Chunk))) i p >>= fun o =>
        .ok (o, ⟨some ctx, vars⟩)) := by
  simp only [propOK, Bool.and_eq_true, Bool.not_eq_true'] at hp
  obtain ⟨hn, hv⟩ := hp
  cases hname : p.name with
  | none => simp [hname] at hn
  | some n =>
    cases hval : p.value with
    | qident parts =>
      cases parts with
      | nil => simp [hval, emptyQident] at hv
      | cons q qs => ir_simp [propBody, propW, exprTypeName, renderPropValue, hname, hval, identName, ofString_empty]
    | _ => ir_simp [propBody, propW, exprTypeName, renderPropValue, hname, hval, identName, ofString_empty]

theorem prop_loop (ctx : Ctx) (vars : List (String × Val)) (props : List RenderProp)
    (hp : ∀ p ∈ props, propOK p = true) :
    forEach "_" "prop" (execBlock modelSem propBody) 0 (props.map .prop) ⟨some ctx, vars⟩ =
      .ok (props.flatMap propW, ⟨some ctx, vars⟩) := by
  rw [forEach_collect Val.prop "_" "prop" _ (some ctx) vars _ props 0 (fun j p h => prop_body ctx vars j p (hp p h)),
    collect_pure]
  rfl

/-- **render**, when the chart type and every property name are present and no property value is
    a qualified identifier without parts -/
theorem C05_write_render (ctx : Ctx) (sub : Subquery) (p k w lp rp : Span) (chart : Option Ident)
    (props : List RenderProp) (h : sub.op = some (.render p k chart w lp props rp))
    (hc : chart.isSome = true) (hp : ∀ q ∈ props, propOK q = true) :
    interpWrite modelSem ctx sub = liftW (sub.write ctx) := by
  apply interpWrite_of ctx sub "write:RenderOperator" renderIR
    (pure ([.txt "SELECT *,\n", .txt "    ", .qstr (identName chart), .txt " as \"render_type\""] ++
      props.flatMap propW ++ .txt "\nFROM " :: sub.source))
  · rw [h]; show caseKey "write" "RenderOperator" = _; decide
  · exact render_ir
  · rfl
  · have hl := prop_loop ctx (opVars sub) props hp
    simp only [opVars, h, List.cons_append, List.nil_append] at hl ⊢
    cases chart with
    | none => simp at hc
    | some c => ir_simp [renderIR, hl, identName]
  · simp only [Exact.bodyW, h]
    rfl

/-! ### the default case -/

def defaultIR : List Stmt := [.fprintfT "SELECT NULL /* unsupported operator " " */" "op", .ret]
theorem default_ir : decode (irOf "write:default") = some defaultIR := by rfl

/-- **default** (`sort`, `take`, `top`, `join` stored as a subquery's operator, which `splitQueries`
    never does): both sides write one placeholder and return before the ORDER BY / LIMIT suffix, but
    the Go code renders the operator's type with `%T` and the model leaves it out.  (So on these
    unreachable inputs the model's bytes differ from the implementation's.) -/
theorem C05_write_default (ctx : Ctx) (sub : Subquery) (o : Op) (h : sub.op = some o)
    (hd : Exact.storedOp o = false) :
    interpWrite modelSem ctx sub =
        .ok [.txt ("SELECT NULL /* unsupported operator " ++ "*parser." ++ opTypeName o ++ " */")] ∧
      sub.write ctx = .ok [.txt "SELECT NULL /* unsupported operator */"] := by
  have hk : caseKey "write" (opTypeKey sub.op) = some "write:default" := by
    rw [h]
    cases o <;> simp [Exact.storedOp] at hd <;> (simp only [opTypeKey, opTypeName]; decide)
  constructor
  · unfold interpWrite
    simp only [hk, default_ir, suffix_ir]
    simp only [opVars, h, List.cons_append, List.nil_append]
    ir_simp [defaultIR, returns]
  · rw [Exact.write_eq]
    cases o <;> simp [Exact.storedOp] at hd <;> simp [Exact.bodyW, h, bind, Except.bind, pure, Except.pure]

/-! ### all cases -/

/-- the side condition under which the model and the Go code agree on a subquery: what the stored
    operator must satisfy (nothing for no operator, `as`, `where`, `count`, `summarize`) -/
def irOK (sub : Subquery) : Bool :=
  match sub.op with
  | none => true
  | some (.project _ _ cols) => cols.all fun c => c.name.isSome
  | some (.extend _ _ cols) => cols.all fun c => !isNilExpr c.x
  | some (.render _ _ chart _ _ props _) => chart.isSome && props.all propOK
  | some o => Exact.storedOp o

/-- **C05 / C02 (`(*subquery).write` is the translated Go code).**  For every subquery satisfying
    `irOK` — every operator `splitQueries` stores, every list of columns, properties and sort
    terms, with or without sort and row count — the model's `Subquery.write` is the interpretation
    of the IR regenerated from the type switch of `(*subquery).write` and the statements after it. -/
theorem C05_write_ir (ctx : Ctx) (sub : Subquery) (hok : irOK sub = true) :
    interpWrite modelSem ctx sub = liftW (sub.write ctx) := by
  cases h : sub.op with
  | none => exact C05_write_none ctx sub h
  | some o =>
    cases o with
    | as_ p k n => exact C05_write_as ctx sub p k n h
    | count p k => exact C05_write_count ctx sub p k h
    | where_ p k e => exact C05_write_where ctx sub p k e h
    | summarize p k cols b gs => exact C05_write_summarize ctx sub p k b cols gs h
    | project p k cols =>
      refine C05_write_project ctx sub p k cols h fun c hc => ?_
      simp only [irOK, h, List.all_eq_true] at hok
      exact hok c hc
    | extend p k cols =>
      refine C05_write_extend ctx sub p k cols h fun c hc => ?_
      simp only [irOK, h, List.all_eq_true] at hok
      simpa using hok c hc
    | render p k chart w lp props rp =>
      simp only [irOK, h, Bool.and_eq_true, List.all_eq_true] at hok
      exact C05_write_render ctx sub p k w lp rp chart props h hok.1 hok.2
    | sort _ _ _ => simp [irOK, h, Exact.storedOp] at hok
    | take _ _ _ => simp [irOK, h, Exact.storedOp] at hok
    | top _ _ _ _ _ => simp [irOK, h, Exact.storedOp] at hok
    | join _ _ _ _ _ _ _ _ _ _ => simp [irOK, h, Exact.storedOp] at hok

/-! ### the hypotheses are needed, and are satisfiable -/

/-- project without a column name: Go dereferences the nil `Name`, the model writes the empty name -/
theorem C05_write_project_needs_names :
    let sub : Subquery := { name := [], source := [], op := some (.project .zero .zero [⟨none, .zero, .lit .zero .number [49]⟩]) }
    let ctx : Ctx := ⟨[], [], .default⟩
    interpWrite modelSem ctx sub = .error (.go .panic) ∧
    sub.write ctx = .ok [.txt "SELECT ", .num [49], .txt " AS ", .qid [], .txt " FROM "] := by
  constructor <;> rfl

/-- extend with a nil expression (only a failed parse leaves one): Go writes the placeholder and
    then the name as an expression, the model only the placeholder -/
theorem C05_write_extend_needs_expr :
    let sub : Subquery := { name := [], source := [], op := some (.extend .zero .zero [⟨some ⟨[120], .zero, false⟩, .zero, .nil⟩]) }
    let ctx : Ctx := ⟨[], [], .default⟩
    interpWrite modelSem ctx sub =
      .ok [.txt "SELECT *", .txt ", ", .txt "NULL /* unhandled <nil> expression */", .qid [120], .txt " AS ", .qid [120],
           .txt " FROM "] ∧
    sub.write ctx =
      .ok [.txt "SELECT *", .txt ", ", .txt "NULL /* unhandled <nil> expression */", .txt " AS ", .qid [120],
           .txt " FROM "] := by
  constructor <;> rfl

def cexCtx : Ctx := ⟨[], [], .default⟩
def cexNoChart : Subquery :=
  { name := [], source := [], op := some (.render .zero .zero none .zero .zero [] .zero) }
def cexNoName : Subquery :=
  { name := [], source := [],
    op := some (.render .zero .zero (some ⟨[99], .zero, false⟩) .zero .zero [⟨none, .zero, .lit .zero .number [49]⟩] .zero) }
def cexNoParts : Subquery :=
  { name := [], source := [],
    op := some (.render .zero .zero (some ⟨[99], .zero, false⟩) .zero .zero
      [⟨some ⟨[116], .zero, false⟩, .zero, .qident []⟩] .zero) }

/-- render without a chart type / with a nameless property / with a qualified identifier without
    parts as a value: Go panics, the model writes empty strings -/
theorem C05_write_render_needs_ok :
    (interpWrite modelSem cexCtx cexNoChart = .error (.go .panic) ∧ (cexNoChart.write cexCtx).toBool = true) ∧
    (interpWrite modelSem cexCtx cexNoName = .error (.go .panic) ∧ (cexNoName.write cexCtx).toBool = true) ∧
    (interpWrite modelSem cexCtx cexNoParts = .error (.go .panic) ∧ (cexNoParts.write cexCtx).toBool = true) := by
  refine ⟨⟨?_, ?_⟩, ⟨?_, ?_⟩, ⟨?_, ?_⟩⟩ <;> rfl

/-- non-vacuity: a project with a computed and a bare column, an extend with an unnamed column, a
    render with both kinds of property values, each with sort and row count attached -/
example :
    irOK { name := [], source := [.qid [84]], sort := some [⟨.qident [⟨[97], .zero, false⟩], true, .zero, false, .zero⟩],
           take := some (.lit .zero .number [53]),
           op := some (.project .zero .zero
             [⟨some ⟨[97], .zero, false⟩, .zero, .nil⟩, ⟨some ⟨[98], .zero, false⟩, .zero, .lit .zero .number [49]⟩]) } = true ∧
    irOK { name := [], source := [.qid [84]], op := some (.extend .zero .zero [⟨none, .zero, .lit ⟨0, 1⟩ .number [49]⟩]) } = true ∧
    irOK { name := [], source := [.qid [84]],
           op := some (.render .zero .zero (some ⟨[99], .zero, false⟩) .zero .zero
             [⟨some ⟨[116], .zero, false⟩, .zero, .lit .zero .string [120]⟩,
              ⟨some ⟨[117], .zero, false⟩, .zero, .qident [⟨[121], .zero, false⟩]⟩] .zero) } = true := by
  decide

end Pql.WriteIR
