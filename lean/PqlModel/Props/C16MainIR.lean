/-
Property C16, tie by translation: `func main` of cmd/pql — the LAST hand-written piece.

`Lemmas/CliStreamIRMain.lean` chains the interpreted `makeInput`, `makeOutput`, `Read`, `Close` and `run` through a
HAND-WRITTEN transcription `runE` of the closure `RunE` (main.go lines 33-52); `C16_main_pipeline_ir` is about that
transcription.  Here the closure itself, the `logError` literal and the body of `main` are regenerated from the Go source
(`harness/extract_climain.go`, `Facts.cliMainIR` / `cliMainCommand` / `cliMainFlags`) and interpreted
(`Model/CliMainIR.lean`); the callees are the interpretations of their own regenerated bodies.

1. `runE_ir`, `logError_ir`, `main_ir`, `command_ir`, `flags_ir` (Lemmas/CliMainIRRun.lean): what is regenerated decodes to
   the trees the theorems are about; `SilenceErrors` / `SilenceUsage` are true; the only flag is `output` / `o`, default "".
2. `C16_RunE_ir`  the interpretation of the regenerated closure, observed as `runE` reports (`viewRunE`), EQUALS the hand-written
   `runE` — result and world — for every system, argument list, `-o` value and standard input, when `output.Close()` succeeds.
   `C16_RunE_ir_general`: without that hypothesis, the interpretation is `runE` followed by the bookkeeping `afterRunE`
   (`output.Close()` and its error, the destination of the output, one `pql:` line per `logError` call).
3. `C16_main_ir`  the whole of `main`, under exactly the hypotheses of `C16_main_pipeline_ir`: `run` is reached iff every
   input opens and the output can be created, what it writes is `expected` (what `CliSpec.run` prints on the concatenated
   input), every input file opened is closed exactly once, standard input never, the created output file is closed once.
4. `C16_exit_status_ir`  the exit status is 1 or 0; non-zero ⇔ `makeInput` failed ∨ `makeOutput` failed ∨ `run` returned an
   error ∨ `output.Close()` failed; the `pql:` lines on standard error are the errors `run` logged, plus one iff the status is
   non-zero.  `C16_exit_status_ir_close_ok`: with `output.Close()` succeeding the last disjunct goes.
5. a counterexample for every hypothesis, and examples (two files and `-`; a failing `os.Open`; `-o` with a failing
   `os.Create`; a failing `output.Close()`; an undefined flag).

New specification-level definitions: `viewRunE`, `closeFails`, `logged` (here); `destOf`, `closeErrOf`, `closedOf`, `afterRunE`,
`outArgOf`, `mainBase`, `mainEnd`, `failed` (Lemmas/CliMainIRRun.lean).
-/
import PqlModel.Lemmas.CliMainIRRun
import PqlModel.Props.C16StreamIR
namespace Pql.MainIR
open Pql Pql.CliIO Pql.CliMainIR
open Pql.CliIOIR (Val GoErr RC WC State Env M IErr runUnit world0)
open Pql.StreamIR (expected streamBound clean nOpened createdBy outputFails)
set_option linter.unusedSimpArgs false

/-! ## the closure `RunE` -/

/-- an interpreted `RunE`, observed as the hand-written `runE` reports: `none` if `run` was not called, else what `run` wrote
    to its output, the number of `pql:` lines, and whether the closure returned an error; and the world of readers -/
def viewRunE (r : Option (List MVal) × MState) : Option CliResult × State :=
  (r.2.outDest.map fun _ => ⟨r.2.out, r.2.stderr, decide (r.1 ≠ some [.io (.err .nil)])⟩, r.2.io)

/-- **C16 (`RunE` as translated code), general form.**  For every system — `compile`, file system, `Close` failures of inputs
    and of the output, loop fuel, scanner bound —, every argument list, `-o` value and standard-input script: the
    interpretation of the regenerated closure `RunE` is the hand-written `runE` followed by `afterRunE`; when `runE` panics,
    is stuck or runs out of fuel, so does the interpretation, in the same way. -/
theorem C16_RunE_ir_general (sys : Sys) (outArg : String) (stdin : Reader) :
    interpRunE sys outArg (initial stdin) =
      (StreamIR.runE sys.compile sys.env sys.fuel sys.k sys.args outArg stdin).map (afterRunE sys outArg (initial stdin)) :=
  interpRunE_eq sys outArg stdin (initial stdin) rfl

/-- **C16 (`RunE` as translated code).**  When `output.Close()` succeeds, the interpretation of the regenerated closure
    `RunE`, observed as `runE` reports, IS the hand-written `runE` of Lemmas/CliStreamIRMain.lean: the same result, the same
    world (heap of readers, files closed, files created), the same failure if any — for every system, argument list, `-o`
    value and standard-input script (the hypotheses `hf`, `hk`, `hs` of `C16_main_pipeline_ir` are not needed for this). -/
theorem C16_RunE_ir (sys : Sys) (outArg : String) (stdin : Reader) (hc : sys.outCloseFails outArg = false) :
    (interpRunE sys outArg (initial stdin)).map viewRunE =
      StreamIR.runE sys.compile sys.env sys.fuel sys.k sys.args outArg stdin := by
  rw [C16_RunE_ir_general]
  rcases StreamIR.runE sys.compile sys.env sys.fuel sys.k sys.args outArg stdin with e | ⟨res, w⟩
  · rfl
  · have hce : closeErrOf sys (destOf outArg) = .nil := by
      unfold destOf; split <;> simp [closeErrOf, hc]
    rcases res with _ | ⟨out, n, x⟩
    · simp [Except.map, afterRunE, viewRunE, initial]
    · cases x <;> simp [Except.map, afterRunE, viewRunE, initial, hce]

/-! ## `main` -/

/-- does `output.Close()` fail: the output is a created file whose `Close` reports an error -/
def closeFails (sys : Sys) (outArg : String) : Bool := closeErrOf sys (destOf outArg) != .nil

/-- the errors `run` logs -/
def logged (r : Option CliResult) : Nat := (r.map (·.nErrors)).getD 0

theorem closedOf_dest (env : Env) (outArg : String) (h : outputFails env outArg = false) :
    closedOf (destOf outArg) = createdBy env outArg := by
  unfold destOf createdBy
  by_cases h1 : outArg = "" ∨ outArg = "-"
  · simp [h1, closedOf]
  · have : env.createFails outArg = false := by simpa [outputFails, h1] using h
    simp [h1, closedOf, this]

/-- `main` under the hypotheses of `C16_main_pipeline_ir`: the world it ends in, field by field -/
theorem main_fields (sys : Sys) (stdin : Reader) (outArg : String) (hfl : outArgOf sys.setFlags = some outArg)
    (hf : sys.args.length < sys.fuel) (hk : streamBound sys.args stdin sys.env.openFile ≤ sys.k)
    (hs : sys.args.count "-" ≤ 1 ∨ clean stdin = true) :
    ∃ W, interpMain sys stdin = .ok W ∧
      W.out = ((expected sys.compile sys.env sys.args outArg stdin).map (·.out)).getD [] ∧
      W.outDest = (expected sys.compile sys.env sys.args outArg stdin).map (fun _ => destOf outArg) ∧
      W.stderr = logged (expected sys.compile sys.env sys.args outArg stdin) +
        (if failed sys outArg (expected sys.compile sys.env sys.args outArg stdin) then 1 else 0) ∧
      W.exit = (if failed sys outArg (expected sys.compile sys.env sys.args outArg stdin) then some 1 else none) ∧
      W.io.objs.length = 1 + nOpened sys.args sys.env.openFile ∧
      W.io.closed = List.range' 1 (nOpened sys.args sys.env.openFile) ∧
      W.io.created = (if (CliIO.makeInput sys.args stdin sys.env.openFile).isSome then createdBy sys.env outArg else []) ∧
      W.outClosed = W.io.created := by
  obtain ⟨w, hr, h1, h2, h3⟩ := StreamIR.C16_main_pipeline_ir sys.compile sys.env sys.fuel sys.k sys.args outArg stdin hf hk hs
  obtain ⟨g1, g2, g3, g4, g5, g6⟩ := mainEnd_fields sys outArg (mainBase stdin)
    (expected sys.compile sys.env sys.args outArg stdin) w
  refine ⟨_, by rw [interpMain_eq sys stdin outArg hfl, hr]; rfl, ?_, ?_, ?_, ?_, ?_, ?_, ?_, ?_⟩
  · rw [g2]; simp [mainBase, initial]
  · rw [g3]; cases expected sys.compile sys.env sys.args outArg stdin <;> simp [mainBase, initial]
  · rw [g5]; simp [mainBase, initial, logged]
  · rw [g6]; simp [mainBase, initial]
  · rw [g1]; exact h1
  · rw [g1]; exact h2
  · rw [g1]; exact h3
  · rw [g4, g1, h3]
    unfold expected
    cases hm : CliIO.makeInput sys.args stdin sys.env.openFile with
    | none => simp [mainBase, initial]
    | some rs =>
      cases ho : outputFails sys.env outArg with
      | true =>
        have : createdBy sys.env outArg = [] := by
          unfold createdBy; unfold outputFails at ho
          by_cases h1 : outArg = "" ∨ outArg = "-"
          · simp [h1] at ho
          · have : sys.env.createFails outArg = true := by simpa [h1] using ho
            simp [h1, this]
        simp [mainBase, initial, this]
      | false => simp [mainBase, initial, closedOf_dest sys.env outArg ho]

/-- **C16 (`main` as translated code, end to end).**  Under exactly the hypotheses of `C16_main_pipeline_ir` (loop fuel for
    `Read` above the number of arguments; at least `streamBound` calls of `Read` for the scanner; `-` at most once among the
    arguments or a `clean` standard input), for every `compile`, file system, `Close` behaviour, argument list and set of
    flags that cobra accepts (`outArgOf … = some outArg`): the interpretation of the regenerated `main` — the regenerated
    `RunE` called by cobra, the regenerated `makeInput`, `makeOutput`, `Read`, `Close`, `run` and `logError` inside it —
    neither panics nor gets stuck, and

      * `run` is reached (an output destination exists) iff `expected` is `some`: every input opens and the output can be
        created; the destination is standard output for no `-o` / `-o ""` / `-o -`, else the created file;
      * what is written to it is what `expected` says: `CliSpec.run` on the lines of the concatenated inputs;
      * every input file that was opened (objects 1, 2, … in order of opening; `nOpened`) has been closed exactly once, in that
        order; standard input (object 0) never; the only file created is the `-o` file, only if every input opened, and it
        has been closed exactly once (`outClosed = created`). -/
theorem C16_main_ir (sys : Sys) (stdin : Reader) (outArg : String) (hfl : outArgOf sys.setFlags = some outArg)
    (hf : sys.args.length < sys.fuel) (hk : streamBound sys.args stdin sys.env.openFile ≤ sys.k)
    (hs : sys.args.count "-" ≤ 1 ∨ clean stdin = true) :
    ∃ W, interpMain sys stdin = .ok W ∧
      W.outDest = (expected sys.compile sys.env sys.args outArg stdin).map (fun _ => destOf outArg) ∧
      W.out = ((expected sys.compile sys.env sys.args outArg stdin).map (·.out)).getD [] ∧
      W.io.objs.length = 1 + nOpened sys.args sys.env.openFile ∧
      W.io.closed = List.range' 1 (nOpened sys.args sys.env.openFile) ∧
      W.io.created = (if (CliIO.makeInput sys.args stdin sys.env.openFile).isSome then createdBy sys.env outArg else []) ∧
      W.outClosed = W.io.created := by
  obtain ⟨W, h0, h1, h2, -, -, h5, h6, h7, h8⟩ := main_fields sys stdin outArg hfl hf hk hs
  exact ⟨W, h0, h2, h1, h5, h6, h7, h8⟩

/-- `failed`, spelled out: `makeInput` failed ∨ `makeOutput` failed ∨ `run` returned an error ∨ `output.Close()` failed -/
theorem failed_iff (sys : Sys) (outArg : String) (stdin : Reader) :
    failed sys outArg (expected sys.compile sys.env sys.args outArg stdin) = true ↔
      CliIO.makeInput sys.args stdin sys.env.openFile = none ∨
      ((CliIO.makeInput sys.args stdin sys.env.openFile).isSome ∧ outputFails sys.env outArg = true) ∨
      (∃ r, expected sys.compile sys.env sys.args outArg stdin = some r ∧ r.exitNonZero = true) ∨
      ((expected sys.compile sys.env sys.args outArg stdin).isSome ∧ closeFails sys outArg = true) := by
  unfold expected closeFails
  cases hm : CliIO.makeInput sys.args stdin sys.env.openFile with
  | none => simp [failed]
  | some rs =>
    cases ho : outputFails sys.env outArg with
    | true => simp [failed]
    | false => simp [failed]

/-- **C16 (exit status and standard error of `main` as translated code).**  Under the hypotheses of `C16_main_ir`, with NO
    assumption on `output.Close()`: the process ends with status 0 or 1; the status is non-zero iff `makeInput` failed (an
    input does not open) or `makeOutput` failed (`os.Create` of the `-o` path) or `run` returned an error (a statement did not
    compile, or the input could not be read completely) or `output.Close()` failed; the number of `pql:` lines on standard
    error is the number of errors `run` logged, plus one iff the status is non-zero. -/
theorem C16_exit_status_ir (sys : Sys) (stdin : Reader) (outArg : String) (hfl : outArgOf sys.setFlags = some outArg)
    (hf : sys.args.length < sys.fuel) (hk : streamBound sys.args stdin sys.env.openFile ≤ sys.k)
    (hs : sys.args.count "-" ≤ 1 ∨ clean stdin = true) :
    ∃ W, interpMain sys stdin = .ok W ∧
      (W.status = 0 ∨ W.status = 1) ∧
      (W.status ≠ 0 ↔
        CliIO.makeInput sys.args stdin sys.env.openFile = none ∨
        ((CliIO.makeInput sys.args stdin sys.env.openFile).isSome ∧ outputFails sys.env outArg = true) ∨
        (∃ r, expected sys.compile sys.env sys.args outArg stdin = some r ∧ r.exitNonZero = true) ∨
        ((expected sys.compile sys.env sys.args outArg stdin).isSome ∧ closeFails sys outArg = true)) ∧
      W.stderr = logged (expected sys.compile sys.env sys.args outArg stdin) + (if W.status ≠ 0 then 1 else 0) ∧
      (W.stderr = logged (expected sys.compile sys.env sys.args outArg stdin) + 1 ↔ W.status ≠ 0) := by
  obtain ⟨W, h0, -, -, h3, h4, -⟩ := main_fields sys stdin outArg hfl hf hk hs
  have hst : W.status = if failed sys outArg (expected sys.compile sys.env sys.args outArg stdin) then 1 else 0 := by
    unfold MState.status; rw [h4]; split <;> rfl
  refine ⟨W, h0, ?_, ?_, ?_, ?_⟩
  · rw [hst]; split <;> simp
  · rw [← failed_iff, hst]; split <;> simp [*]
  · rw [h3, hst]; split <;> simp
  · rw [h3, hst]; split <;> simp

/-- … when `output.Close()` succeeds (the case the hand-written `runE` covers): three causes -/
theorem C16_exit_status_ir_close_ok (sys : Sys) (stdin : Reader) (outArg : String) (hfl : outArgOf sys.setFlags = some outArg)
    (hf : sys.args.length < sys.fuel) (hk : streamBound sys.args stdin sys.env.openFile ≤ sys.k)
    (hs : sys.args.count "-" ≤ 1 ∨ clean stdin = true) (hc : sys.outCloseFails outArg = false) :
    ∃ W, interpMain sys stdin = .ok W ∧
      (W.status ≠ 0 ↔
        CliIO.makeInput sys.args stdin sys.env.openFile = none ∨
        ((CliIO.makeInput sys.args stdin sys.env.openFile).isSome ∧ outputFails sys.env outArg = true) ∨
        (∃ r, expected sys.compile sys.env sys.args outArg stdin = some r ∧ r.exitNonZero = true)) := by
  obtain ⟨W, h0, -, h2, -⟩ := C16_exit_status_ir sys stdin outArg hfl hf hk hs
  have hcf : closeFails sys outArg = false := by
    unfold closeFails destOf; split <;> simp [closeErrOf, hc]
  refine ⟨W, h0, ?_⟩
  rw [h2]; simp [hcf]

/-- no `-o` on the command line is `-o ""` (the flag's default, `flags_ir`): standard output -/
theorem outArgOf_default : outArgOf [] = some "" ∧ destOf "" = .stdoutNop ∧
    ∀ v, outArgOf [("output", v)] = some v := ⟨rfl, rfl, fun _ => rfl⟩

/-! ## examples and counterexamples

Kernel evaluations of the INTERPRETED `main` (`decide +kernel`), in the file system `fsEx` / `envEx` of Props/C16StreamIR.lean
(`a` = "let x = 1;\nX" with an empty read, `b` = "Z;", `bad` fails in its second `Read`, `e` is empty, nothing else opens;
standard input "Y;\n"); `stub` stands in for `pql.Compile` (fails on a text with '!', else the text without newlines). -/

open Pql.StreamIR (envEx fsEx stdinEx isFuelErr)
local notation "E" => Bytes.ofString

/-- what is observed of a run of `main`: exit status, `pql:` lines, the output and its destination, input files closed,
    files created, output files closed, number of reader objects -/
structure Obs where
  status : Nat
  stderr : Nat
  out : Bytes
  dest : Option WC
  closed : List Nat
  created : List String
  outClosed : List String
  objs : Nat
  deriving DecidableEq, Repr

def obsMain (r : M MState) : Option Obs :=
  r.toOption.map fun W => ⟨W.status, W.stderr, W.out, W.outDest, W.io.closed, W.io.created, W.outClosed, W.io.objs.length⟩

/-- the systems of the examples satisfy the hypotheses of `C16_main_ir` -/
theorem ex_hyps :
    outArgOf [] = some "" ∧ outArgOf [("output", "out.sql")] = some "out.sql" ∧
    ["a", "-", "b"].length < 4 ∧ streamBound ["a", "-", "b"] stdinEx fsEx ≤ 20 ∧ ["a", "-", "b"].count "-" ≤ 1 ∧
    streamBound ["a", "nope", "b"] stdinEx fsEx ≤ 20 ∧ streamBound ["a", "b"] stdinEx fsEx ≤ 20 ∧
    streamBound ["a", "bad", "b"] stdinEx fsEx ≤ 20 := by decide

/-- **two files and `-`**, no `-o`: the statement `X…Y` runs from file `a` into standard input, the `let` of `a` is in scope in
    `b`; status 0, nothing on standard error, standard output; both files closed once, in order, standard input not -/
theorem ex_two_files_and_stdin :
    obsMain (interpMain { compile := stub, env := envEx, fuel := 4, k := 20, args := ["a", "-", "b"] } stdinEx) =
      some ⟨0, 0, E "let x = 1;XY\n\nlet x = 1;Z\n\n", some .stdoutNop, [1, 2], [], [], 3⟩ := by
  decide +kernel

/-- **`os.Open` fails** in the middle: `RunE` returns before `run`; one `pql:` line, status 1; the file opened before is closed
    again, the one after is never opened, the `-o` file is not created -/
theorem ex_open_fails :
    obsMain (interpMain { compile := stub, env := envEx, fuel := 4, k := 20, args := ["a", "nope", "b"],
                          setFlags := [("output", "out.sql")] } stdinEx) =
      some ⟨1, 1, [], none, [1], [], [], 2⟩ := by
  decide +kernel

/-- **`-o` with a failing `os.Create`**: `input.Close()` on the failure path closes both inputs; one `pql:` line, status 1 -/
theorem ex_create_fails :
    obsMain (interpMain { compile := stub, env := { envEx with createFails := fun p => p == "out.sql" }, fuel := 4, k := 20,
                          args := ["a", "b"], setFlags := [("output", "out.sql")] } stdinEx) =
      some ⟨1, 1, [], none, [1, 2], [], [], 3⟩ := by
  decide +kernel

/-- a read error midway: `run` logs it (one line) and returns an error (one more line, status 1); everything delivered up to
    the failing `Read` is translated into the created file, which is closed; all three inputs are closed -/
theorem ex_read_error :
    obsMain (interpMain { compile := stub, env := envEx, fuel := 4, k := 20, args := ["a", "bad", "b"],
                          setFlags := [("output", "out.sql")] } stdinEx) =
      some ⟨1, 2, E "let x = 1;XQ\n\nlet x = 1;R\n\nlet x = 1;S\n\n", some (.file "out.sql"), [1, 2, 3], ["out.sql"],
        ["out.sql"], 4⟩ := by
  decide +kernel

/-- **`output.Close()` fails** (not in the hand-written `runE`): everything is translated and written, `run` returns nil — and
    the status is 1 with one `pql:` line, because `err == nil` lets `err2` through -/
theorem ex_close_fails :
    obsMain (interpMain { compile := stub, env := envEx, outCloseFails := fun _ => true, fuel := 4, k := 20, args := ["a", "b"],
                          setFlags := [("output", "out.sql")] } stdinEx) =
      some ⟨1, 1, E "let x = 1;XZ\n\n", some (.file "out.sql"), [1, 2], ["out.sql"], ["out.sql"], 3⟩ ∧
    expected stub envEx ["a", "b"] "out.sql" stdinEx = some ⟨E "let x = 1;XZ\n\n", 0, false⟩ := by
  decide +kernel

/-- a compile error in the middle: logged by `run` (one line), the statements around it are translated, status 1 (one more line) -/
theorem ex_compile_error :
    obsMain (interpMain { compile := stub, env := envEx, fuel := 1, k := 20 } [(E "A;B!;C;\n", .eof)]) =
      some ⟨1, 2, E "A\n\nC\n\n", some .stdoutNop, [], [], [], 1⟩ := by
  decide +kernel

/-! ### every hypothesis is needed -/

/-- `hc` of `C16_RunE_ir` (`output.Close()` succeeds): when it fails the closure returns an error although `run` did not —
    the hand-written `runE` reports exit status zero, the interpretation of the regenerated closure non-zero -/
theorem C16_RunE_ir_needs_close :
    let sys : Sys := { compile := stub, env := envEx, outCloseFails := fun _ => true, fuel := 4, k := 20, args := ["a", "b"] }
    ((interpRunE sys "out.sql" (initial stdinEx)).map viewRunE).toOption.map (·.1) =
      some (some ⟨E "let x = 1;XZ\n\n", 0, true⟩) ∧
    (StreamIR.runE stub envEx 4 20 ["a", "b"] "out.sql" stdinEx).toOption.map (·.1) =
      some (some ⟨E "let x = 1;XZ\n\n", 0, false⟩) := by
  decide +kernel

/-- `hfl` (cobra accepts the flags): with a flag `main` did not define `RunE` is not called at all — one `pql:` line, status 1,
    nothing opened, whatever `expected` says for any `-o` value -/
theorem C16_main_ir_needs_flags :
    outArgOf [("verbose", "1")] = none ∧
    obsMain (interpMain { compile := stub, env := envEx, fuel := 4, k := 20, args := ["a", "b"], setFlags := [("verbose", "1")] }
      stdinEx) = some ⟨1, 1, [], none, [], [], [], 1⟩ ∧
    nOpened ["a", "b"] fsEx = 2 := by
  decide +kernel

/-- `hf` (loop fuel above the number of arguments): with two empty files one `Read` needs three iterations; with fuel 2 the
    interpreter runs out, with 3 it does not -/
theorem C16_main_ir_needs_fuel :
    isFuelErr (interpMain { compile := stub, env := envEx, fuel := 2, k := 20, args := ["e", "e"] } stdinEx) = true ∧
    obsMain (interpMain { compile := stub, env := envEx, fuel := 3, k := 20, args := ["e", "e"] } stdinEx) =
      some ⟨0, 0, [], some .stdoutNop, [1, 2], [], [], 3⟩ := by
  decide +kernel

/-- `hk` (`streamBound` calls for the scanner): with one call less the final `0, io.EOF` is not seen, which counts as a read
    error — status 1 and two `pql:` lines where `expected` has no error -/
theorem C16_main_ir_needs_calls :
    streamBound [] [(E "X", .ok)] fsEx = 2 ∧
    obsMain (interpMain { compile := stub, env := envEx, fuel := 1, k := 1 } [(E "X", .ok)]) =
      some ⟨1, 2, E "X\n\n", some .stdoutNop, [], [], [], 1⟩ ∧
    expected stub envEx [] "" [(E "X", .ok)] = some ⟨E "X\n\n", 0, false⟩ := by
  decide +kernel

/-- `hs` (`-` at most once, or a `clean` standard input): a standard input that delivers more after its first `io.EOF` is read
    again by the second `-`, while `expected` (convention A3 of the model) takes the second `-` to be used up -/
theorem C16_main_ir_needs_clean :
    obsMain (interpMain { compile := stub, env := envEx, fuel := 3, k := 20, args := ["-", "-"] } [(E "X;", .eof), (E "Y;", .eof)]) =
      some ⟨0, 0, E "X\n\nY\n\n", some .stdoutNop, [], [], [], 1⟩ ∧
    expected stub envEx ["-", "-"] "" [(E "X;", .eof), (E "Y;", .eof)] = some ⟨E "X\n\n", 0, false⟩ ∧
    clean [(E "X;", .eof), (E "Y;", .eof)] = false := by
  decide +kernel

/-! ### the interpreter's failure modes are real -/

def isPanicM {α : Type} : M α → Bool
  | .error .panic => true
  | _ => false

def isStuckM {α : Type} : M α → Bool
  | .error .stuck => true
  | _ => false

/-- `Close` on a nil `io.WriteCloser` / `io.ReadCloser` panics (what dropping the `err != nil` check after `makeOutput` would
    run into); a format other than "pql: %v\n", or standard output as its destination, is not understood -/
theorem failure_modes (sys : Sys) (st : MState) :
    isPanicM (closeVal sys st (.io (.wc none))) = true ∧ isPanicM (closeVal sys st (.io (.rc none))) = true ∧
    isStuckM (exec sys (callAt sys 0) [] (.fprintf "stdout" "pql: %v\n" .nil) st) = true := by
  refine ⟨rfl, rfl, ?_⟩
  simp [exec, eval, bind, Except.bind, isStuckM, CliIOIR.stuck]

end Pql.MainIR
