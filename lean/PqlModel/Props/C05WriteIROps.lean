/-
Property C05 (and C02), tie by translation, part 2: the cases of `(*subquery).write` with loops —
project, extend, summarize (see Props/C05WriteIR.lean for the set-up and the hypotheses).
-/
import PqlModel.Props.C05WriteIR
namespace Pql.WriteIR
open Pql
set_option linter.unusedSimpArgs false

/-! ### project -/

def projBody : List Stmt :=
  [.ite (.gt0 "i") [.lit ", "] [],
   .ite (.isNil ⟨"col", "X"⟩) [.expr ⟨"col", "Name.AsQualified()"⟩] [.expr ⟨"col", "X"⟩],
   .lit " AS ", .qid ⟨"col", "Name.Name"⟩]

def projectIR : List Stmt :=
  [.lit "SELECT ", .for_ "i" "col" ⟨"op", "Cols"⟩ projBody, .lit " FROM ", .str ⟨"sub", "sourceSQL"⟩]

theorem project_ir : decode (irOf "write:ProjectOperator") = some projectIR := by rfl

theorem projCol_eq (ctx : Ctx) (c : Column) :
    Exact.projCol ctx c =
      (writeExpr ctx (if isNilExpr c.x then .qident (match c.name with | some n => [n] | none => []) else c.x) >>= fun x =>
        pure (x ++ [.txt " AS ", .qid (identName c.name)])) := by
  unfold Exact.projCol
  cases c.x <;> rfl

theorem proj_body (ctx : Ctx) (vars : List (String × Val)) (i : Nat) (c : Column) (hn : c.name.isSome = true) :
    (execBlock modelSem projBody ⟨some ctx, ("col", .col c) :: ("i", .nat i) :: vars⟩ >>= fun r =>
        .ok (r.1, r.2.leave ⟨some ctx, vars⟩)) =
      ((liftW (Exact.projCol ctx c) >>= fun o => .ok ((if decide (i > 0) then [.txt ", "] else []) ++ o)) >>= fun o =>
        .ok (o, ⟨some ctx, vars⟩)) := by
  rw [projCol_eq]
  cases hname : c.name with
  | none => simp [hname] at hn
  | some n =>
    by_cases hi : i > 0 <;> cases hnil : isNilExpr c.x <;> simp only [if_true, if_false, Bool.false_eq_true]
    · cases hx : writeExpr ctx c.x <;> ir_simp [projBody, hx, hi, hnil, hname, identName]
    · cases hx : writeExpr ctx (.qident [n]) <;> ir_simp [projBody, hx, hi, hnil, hname, identName]
    · cases hx : writeExpr ctx c.x <;> ir_simp [projBody, hx, hi, hnil, hname, identName]
    · cases hx : writeExpr ctx (.qident [n]) <;> ir_simp [projBody, hx, hi, hnil, hname, identName]

theorem proj_loop (ctx : Ctx) (vars : List (String × Val)) (cols : List Column)
    (hn : ∀ c ∈ cols, c.name.isSome = true) :
    forEach "i" "col" (execBlock modelSem projBody) 0 (cols.map .col) ⟨some ctx, vars⟩ =
      (liftW (cols.mapM (Exact.projCol ctx)) >>= fun cs => .ok (sepChunks ", " cs, ⟨some ctx, vars⟩)) := by
  rw [forEach_collect Val.col "i" "col" _ (some ctx) vars _ cols 0 (fun j c hc => proj_body ctx vars j c (hn c hc)),
    collect_sep (Exact.projCol ctx) ", " (fun j => decide (j > 0)) cols 0 (by simp) (by intro j hj; simpa using hj)]
  cases cols.mapM (Exact.projCol ctx) <;> rfl

/-- **project**, when every column has a name -/
theorem C05_write_project (ctx : Ctx) (sub : Subquery) (p k : Span) (cols : List Column)
    (h : sub.op = some (.project p k cols)) (hn : ∀ c ∈ cols, c.name.isSome = true) :
    interpWrite modelSem ctx sub = liftW (sub.write ctx) := by
  apply interpWrite_of ctx sub "write:ProjectOperator" projectIR
    (cols.mapM (Exact.projCol ctx) >>= fun cs => pure (.txt "SELECT " :: sepChunks ", " cs ++ .txt " FROM " :: sub.source))
  · rw [h]; show caseKey "write" "ProjectOperator" = _; decide
  · exact project_ir
  · rfl
  · have hl := proj_loop ctx (opVars sub) cols hn
    simp only [opVars, h, List.cons_append, List.nil_append] at hl ⊢
    cases hm : cols.mapM (Exact.projCol ctx) <;> rw [hm] at hl <;> ir_simp [projectIR, hl]
  · cases hm : cols.mapM (Exact.projCol ctx) <;> simp [Exact.bodyW, h, hm, bind, Except.bind, pure, Except.pure]

/-! ### extend -/

/-- `" AS "` has been written: the column's name, or the source text of its expression -/
def aliasIR : Stmt :=
  .ite (.notNil ⟨"col", "Name"⟩) [.qid ⟨"col", "Name.Name"⟩] [.span "span" ⟨"col", "X"⟩, .qidSrc "span"]

def extBody : List Stmt :=
  [.lit ", ", .expr ⟨"col", "X"⟩, .ite (.isNil ⟨"col", "X"⟩) [.expr ⟨"col", "Name.AsQualified()"⟩] [],
   .lit " AS ", aliasIR]

def extendIR : List Stmt :=
  [.lit "SELECT *", .for_ "_" "col" ⟨"op", "Cols"⟩ extBody, .lit " FROM ", .str ⟨"sub", "sourceSQL"⟩]

theorem extend_ir : decode (irOf "write:ExtendOperator") = some extendIR := by rfl

/-- one extend / summarize column, as the model writes it -/
def colW (ctx : Ctx) (c : Column) : W :=
  writeExpr ctx c.x >>= fun x => columnAlias ctx c >>= fun a => pure (x ++ a)

theorem writeColumns_eq (ctx : Ctx) : ∀ cs, writeColumns ctx cs = cs.mapM (colW ctx)
  | [] => rfl
  | c :: cs => by
    rw [writeColumns, List.mapM_cons, writeColumns_eq ctx cs, colW]
    cases writeExpr ctx c.x with
    | error e => rfl
    | ok x => cases columnAlias ctx c <;> rfl

theorem isNilExpr_eq {e : Expr} (h : isNilExpr e = true) : e = .nil := by
  cases e <;> simp [isNilExpr] at h ⊢

theorem sliceSource_null (src : Bytes) : sliceSource src Span.null = .error .panic := by
  simp [sliceSource, Span.null]

theorem ext_body (ctx : Ctx) (vars : List (String × Val)) (i : Nat) (c : Column) (hx : isNilExpr c.x = false) :
    (execBlock modelSem extBody ⟨some ctx, ("col", .col c) :: ("_", .nat i) :: vars⟩ >>= fun r =>
        .ok (r.1, r.2.leave ⟨some ctx, vars⟩)) =
      ((liftW (colW ctx c) >>= fun o => .ok ((if true then [.txt ", "] else []) ++ o)) >>= fun o =>
        .ok (o, ⟨some ctx, vars⟩)) := by
  cases hw : writeExpr ctx c.x with
  | error e => ir_simp [extBody, colW, hw]
  | ok x =>
    cases hname : c.name with
    | some n => ir_simp [extBody, aliasIR, colW, columnAlias, hw, hx, hname]
    | none =>
      cases hs : sliceSource ctx.src c.x.spanOf <;>
        ir_simp [extBody, aliasIR, colW, columnAlias, hw, hx, hname, hs]

theorem ext_loop (ctx : Ctx) (vars : List (String × Val)) (cols : List Column)
    (hx : ∀ c ∈ cols, isNilExpr c.x = false) :
    forEach "_" "col" (execBlock modelSem extBody) 0 (cols.map .col) ⟨some ctx, vars⟩ =
      (liftW (writeColumns ctx cols) >>= fun cs => .ok (cs.flatMap (fun c => .txt ", " :: c), ⟨some ctx, vars⟩)) := by
  rw [forEach_collect Val.col "_" "col" _ (some ctx) vars _ cols 0 (fun j c hc => ext_body ctx vars j c (hx c hc)),
    collect_flat (colW ctx) ", " (fun _ => true) cols 0 (by simp), writeColumns_eq]
  cases cols.mapM (colW ctx) <;> rfl

/-- **extend**, when every column has an expression -/
theorem C05_write_extend (ctx : Ctx) (sub : Subquery) (p k : Span) (cols : List Column)
    (h : sub.op = some (.extend p k cols)) (hx : ∀ c ∈ cols, isNilExpr c.x = false) :
    interpWrite modelSem ctx sub = liftW (sub.write ctx) := by
  apply interpWrite_of ctx sub "write:ExtendOperator" extendIR
    (writeColumns ctx cols >>= fun cs =>
      pure (.txt "SELECT *" :: (cs.flatMap fun c => .txt ", " :: c) ++ .txt " FROM " :: sub.source))
  · rw [h]; show caseKey "write" "ExtendOperator" = _; decide
  · exact extend_ir
  · rfl
  · have hl := ext_loop ctx (opVars sub) cols hx
    simp only [opVars, h, List.cons_append, List.nil_append] at hl ⊢
    cases hm : writeColumns ctx cols <;> rw [hm] at hl <;> ir_simp [extendIR, hl]
  · cases hm : writeColumns ctx cols <;> simp [Exact.bodyW, h, hm, bind, Except.bind, pure, Except.pure]

/-! ### summarize -/

def sumBody (c : Cond) : List Stmt := [.ite c [.lit ", "] [], .expr ⟨"col", "X"⟩, .lit " AS ", aliasIR]
def gbBody : List Stmt := [.ite (.gt0 "i") [.lit ", "] [], .expr ⟨"col", "X"⟩]

def summarizeIR : List Stmt :=
  [.lit "SELECT ",
   .for_ "i" "col" ⟨"op", "GroupBy"⟩ (sumBody (.gt0 "i")),
   .for_ "i" "col" ⟨"op", "Cols"⟩ (sumBody (.or (.gt0 "i") (.nonempty ⟨"op", "GroupBy"⟩))),
   .lit " FROM ", .str ⟨"sub", "sourceSQL"⟩,
   .ite (.nonempty ⟨"op", "GroupBy"⟩) [.lit " GROUP BY ", .for_ "i" "col" ⟨"op", "GroupBy"⟩ gbBody] []]

theorem summarize_ir : decode (irOf "write:SummarizeOperator") = some summarizeIR := by rfl

/-- a summarize column after its separator: no hypothesis — with a nil expression both sides write
    the placeholder and then the name, or both panic for want of a span -/
theorem sum_body (ctx : Ctx) (vars : List (String × Val)) (cond : Cond) (sep : Bool) (i : Nat) (c : Column)
    (hc : evalCond ⟨some ctx, ("col", .col c) :: ("i", .nat i) :: vars⟩ cond = .ok (sep, [])) :
    (execBlock modelSem (sumBody cond) ⟨some ctx, ("col", .col c) :: ("i", .nat i) :: vars⟩ >>= fun r =>
        .ok (r.1, r.2.leave ⟨some ctx, vars⟩)) =
      ((liftW (colW ctx c) >>= fun o => .ok ((if sep then [.txt ", "] else []) ++ o)) >>= fun o =>
        .ok (o, ⟨some ctx, vars⟩)) := by
  cases hw : writeExpr ctx c.x with
  | error e => cases sep <;> ir_simp [sumBody, colW, hw, hc]
  | ok x =>
    cases hname : c.name with
    | some n => cases sep <;> ir_simp [sumBody, aliasIR, colW, columnAlias, hw, hname, hc]
    | none =>
      cases hnil : isNilExpr c.x with
      | false =>
        cases hs : sliceSource ctx.src c.x.spanOf <;> cases sep <;>
          ir_simp [sumBody, aliasIR, colW, columnAlias, hw, hnil, hname, hs, hc]
      | true =>
        have hx := isNilExpr_eq hnil
        have hs : sliceSource ctx.src c.x.spanOf = .error .panic := by rw [hx]; exact sliceSource_null _
        cases sep <;> ir_simp [sumBody, aliasIR, colW, columnAlias, hw, hnil, hname, hs, hc]

theorem gb_body (ctx : Ctx) (vars : List (String × Val)) (i : Nat) (c : Column) :
    (execBlock modelSem gbBody ⟨some ctx, ("col", .col c) :: ("i", .nat i) :: vars⟩ >>= fun r =>
        .ok (r.1, r.2.leave ⟨some ctx, vars⟩)) =
      ((liftW ((fun c : Column => writeExpr ctx c.x) c) >>= fun o =>
          .ok ((if decide (i > 0) then [.txt ", "] else []) ++ o)) >>= fun o =>
        .ok (o, ⟨some ctx, vars⟩)) := by
  by_cases hi : i > 0 <;> cases hw : writeExpr ctx c.x <;> ir_simp [gbBody, hw, hi]

theorem sum_loop1 (ctx : Ctx) (vars : List (String × Val)) (gs : List Column) :
    forEach "i" "col" (execBlock modelSem (sumBody (.gt0 "i"))) 0 (gs.map .col) ⟨some ctx, vars⟩ =
      (liftW (writeColumns ctx gs) >>= fun os => .ok (sepChunks ", " os, ⟨some ctx, vars⟩)) := by
  rw [forEach_collect Val.col "i" "col" _ (some ctx) vars _ gs 0
      (fun j c _ => sum_body ctx vars (.gt0 "i") (decide (j > 0)) j c (by ir_simp)),
    collect_sep (colW ctx) ", " (fun j => decide (j > 0)) gs 0 (by simp) (by intro j hj; simpa using hj),
    writeColumns_eq]
  cases gs.mapM (colW ctx) <;> rfl

theorem gb_loop (ctx : Ctx) (vars : List (String × Val)) (gs : List Column) :
    forEach "i" "col" (execBlock modelSem gbBody) 0 (gs.map .col) ⟨some ctx, vars⟩ =
      (liftW (gs.mapM fun c : Column => writeExpr ctx c.x) >>= fun os => .ok (sepChunks ", " os, ⟨some ctx, vars⟩)) := by
  rw [forEach_collect Val.col "i" "col" _ (some ctx) vars _ gs 0 (fun j c _ => gb_body ctx vars j c),
    collect_sep (fun c : Column => writeExpr ctx c.x) ", " (fun j => decide (j > 0)) gs 0 (by simp)
      (by intro j hj; simpa using hj)]
  cases (gs.mapM fun c : Column => writeExpr ctx c.x) <;> rfl

theorem sum_loop2 (ctx : Ctx) (sub : Subquery) (p k b : Span) (cols gs : List Column) :
    forEach "i" "col" (execBlock modelSem (sumBody (.or (.gt0 "i") (.nonempty ⟨"op", "GroupBy"⟩)))) 0 (cols.map .col)
        ⟨some ctx, [("op", .op (.summarize p k cols b gs)), ("sub", .sub sub)]⟩ =
      (liftW (writeColumns ctx cols) >>= fun os =>
        .ok (if gs.length > 0 then os.flatMap (fun c => .txt ", " :: c) else sepChunks ", " os,
          ⟨some ctx, [("op", .op (.summarize p k cols b gs)), ("sub", .sub sub)]⟩)) := by
  rw [forEach_collect Val.col "i" "col" _ (some ctx) _ _ cols 0
      (fun j c _ => sum_body ctx _ _ (decide (j > 0) || decide (gs.length > 0)) j c (by
        by_cases hj : j > 0 <;> by_cases hg : gs.length > 0 <;> ir_simp [hj, hg]))]
  by_cases hg : gs.length > 0
  · rw [collect_flat (colW ctx) ", " _ cols 0 (by simp [hg]), writeColumns_eq]
    cases cols.mapM (colW ctx) <;> simp [hg, liftW, bind_ok, bind_error]
  · rw [collect_sep (colW ctx) ", " _ cols 0 (by simp [hg]) (by intro j hj; simp [hj]), writeColumns_eq]
    cases cols.mapM (colW ctx) <;> simp [hg, liftW, bind_ok, bind_error]

theorem mapM_ok_length {α β : Type} (g : α → Except WErr β) :
    ∀ (xs : List α) (out : List β), xs.mapM g = .ok out → out.length = xs.length
  | [], out, h => by simp at h; cases h; rfl
  | x :: xs, out, h => by
    rw [List.mapM_cons] at h
    cases hx : g x with
    | error e => rw [hx] at h; cases h
    | ok y =>
      cases hr : xs.mapM g with
      | error e => rw [hx, hr] at h; cases h
      | ok ys =>
        rw [hx, hr] at h
        cases h
        simp [mapM_ok_length g xs ys hr]

theorem sep_append (sep : String) (gs cs : List (List Chunk)) :
    sepChunks sep (gs ++ cs) =
      if gs.length > 0 then sepChunks sep gs ++ cs.flatMap (fun c => .txt sep :: c) else sepChunks sep cs := by
  cases gs with
  | nil => simp
  | cons g gs => simp [sepChunks_cons]

/-- **summarize** (no hypothesis) -/
theorem C05_write_summarize (ctx : Ctx) (sub : Subquery) (p k b : Span) (cols gs : List Column)
    (h : sub.op = some (.summarize p k cols b gs)) :
    interpWrite modelSem ctx sub = liftW (sub.write ctx) := by
  apply interpWrite_of ctx sub "write:SummarizeOperator" summarizeIR
    (writeColumns ctx gs >>= fun g => writeColumns ctx cols >>= fun c =>
      (gs.mapM fun c : Column => writeExpr ctx c.x) >>= fun gb =>
        pure (.txt "SELECT " :: sepChunks ", " (g ++ c) ++ .txt " FROM " :: sub.source ++
          (if gs.isEmpty then [] else .txt " GROUP BY " :: sepChunks ", " gb)))
  · rw [h]; show caseKey "write" "SummarizeOperator" = _; decide
  · exact summarize_ir
  · rfl
  · have h1 := sum_loop1 ctx [("op", .op (.summarize p k cols b gs)), ("sub", .sub sub)] gs
    have h2 := sum_loop2 ctx sub p k b cols gs
    have h3 := gb_loop ctx [("op", .op (.summarize p k cols b gs)), ("sub", .sub sub)] gs
    simp only [opVars, h, List.cons_append, List.nil_append]
    cases hg : writeColumns ctx gs with
    | error e => rw [hg] at h1; ir_simp [summarizeIR, h1]
    | ok g =>
      rw [hg] at h1
      have hlen := mapM_ok_length (colW ctx) gs g (by rw [← writeColumns_eq]; exact hg)
      cases hc : writeColumns ctx cols with
      | error e => rw [hc] at h2; ir_simp [summarizeIR, h1, h2]
      | ok c =>
        rw [hc] at h2
        by_cases hne : gs.length > 0
        · have hemp : gs.isEmpty = false := by cases gs <;> simp at hne ⊢
          cases hb : (gs.mapM fun c : Column => writeExpr ctx c.x) <;> rw [hb] at h3 <;>
            ir_simp [summarizeIR, h1, h2, h3, hne, hemp, sep_append, hlen]
        · have hemp : gs = [] := by cases gs <;> simp at hne ⊢
          subst hemp
          simp at hlen
          subst hlen
          simp only [List.length_nil, Nat.lt_irrefl, if_false] at h2
          ir_simp [summarizeIR, h2, sep_append, forEach]
  · cases hg : writeColumns ctx gs <;> cases hc : writeColumns ctx cols <;>
      cases hb : (gs.mapM fun c : Column => writeExpr ctx c.x) <;>
      simp [Exact.bodyW, h, hg, hc, hb, bind, Except.bind, pure, Except.pure]

end Pql.WriteIR
