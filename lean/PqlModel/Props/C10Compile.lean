/-
Property C10, positions used by the compiler (glue C).

(i)  "implicit column names sliced from the source": `(*subquery).write` names an unnamed
     `extend` / `summarize` column `ctx.source[span.Start:span.End]` with `span = col.X.Span()`
     (model: `columnAlias` / `sliceSource`, Model/Compile.lean).  For every error-free
     `parse src` that slice is exactly the source text from the start of the first token of the
     column expression to the end of its last token; it is a non-empty range inside the source,
     so the slice never panics.
(ii) "line:column prefixes of error messages point into the source", for `Compile` errors.
     The model's `WErr` / `CompileResult.error` do NOT carry the error's span (the Go hook
     `VerifCompileErrorSpan` exposes it).  So the statement is proved for every span a
     `compileError` of pql.go can carry — the span of a statement ("batch queries"), of a join
     flavour identifier, of an identifier part or of a whole qualified identifier (the `let` /
     `$left`-outside-join errors of `writeExpression`), and `Span{x.Lparen.End, x.Rparen.Start}`
     of a call (the ten arity errors): each satisfies `0 ≤ start ≤ end ≤ len(src)`, hence is
     valid, `source[:start]` does not panic, and `linecol` gives a line of the source and a
     column ≥ 1.
-/
import PqlModel.Lemmas.GlueAcc
import PqlModel.Props.C05Parsed
import PqlModel.Props.C10Failed
import PqlModel.Props.C10Linecol
import PqlModel.Lemmas.LexSplit
namespace Pql.Glue
open Pql Grammar ParsedOK

/-! ### a run of tokens of the scan: its extent lies in the source -/

theorem seg_extent_bounds {src : Bytes} {seg : List Token} (hsub : seg.Sublist (scan src))
    (hne : seg ≠ []) :
    (seg.head hne).start < (seg.getLast hne).stop ∧ (seg.getLast hne).stop ≤ src.length := by
  have hb : ∀ t ∈ seg, t.start < t.stop ∧ t.stop ≤ src.length :=
    fun t ht => mem_scan_bounds src t (hsub.subset ht)
  have hok : TokOK seg := (scan_tokOK src).sublist hsub
  refine ⟨?_, (hb _ (List.getLast_mem hne)).2⟩
  cases seg with
  | nil => exact absurd rfl hne
  | cons t rest =>
    simp only [List.head_cons]
    cases rest with
    | nil => simpa using (hb t (by simp)).1
    | cons t2 rest2 =>
      have hl : (t :: t2 :: rest2).getLast hne ∈ t2 :: rest2 := by
        rw [List.getLast_cons (by simp)]; exact List.getLast_mem _
      have h1 := (hb t (by simp)).1
      have h2 := (hb _ (List.getLast_mem hne)).1
      have h3 := (List.pairwise_cons.mp hok.2).1 _ hl
      omega

/-! ### (i) implicit column names -/

/-- the text of the expression `e` in the source `src`: `e` stands for a non-empty run `seg` of
    tokens of `scan src` (its `unparse` accounts for them, kinds, values and positions), its
    `Span()` is the extent of the run, a non-empty range inside the source, and slicing the
    source at that span — what the compiler does for an implicit column name — succeeds with
    exactly the bytes from the first token's start to the last token's end -/
def IsSourceText (src : Bytes) (e : Expr) : Prop :=
  ∃ (us : List UTok) (seg : List Token) (hne : seg ≠ []),
    unparseExpr e = some us ∧ accounts true us seg = true ∧ seg.Sublist (scan src) ∧
    e.spanOf = ⟨(seg.head hne).start, (seg.getLast hne).stop⟩ ∧
    (seg.head hne).start < (seg.getLast hne).stop ∧ (seg.getLast hne).stop ≤ src.length ∧
    sliceSource src e.spanOf = .ok (src.extract (seg.head hne).start (seg.getLast hne).stop)

theorem sliceSource_nat (src : Bytes) (a b : Nat) (hab : a ≤ b) (hb : b ≤ src.length) :
    sliceSource src ⟨a, b⟩ = .ok (src.extract a b) := by
  have h : (0 : Int) ≤ (a : Int) ∧ (a : Int) ≤ (b : Int) ∧ (b : Int) ≤ (src.length : Int) := by omega
  have e : ((b : Int) - (a : Int)).toNat = b - a := by omega
  simp only [sliceSource, h, and_self, if_true, Int.toNat_natCast, e, List.extract]

theorem isSourceText_of_seg (src : Bytes) (e : Expr) (h : ESeg (scan src) e) : IsSourceText src e := by
  obtain ⟨us, hu, seg, hsub, ha⟩ := h
  obtain ⟨hne, hsp⟩ := C10.C10_span_extent_expr e us seg hu ((scan_tokOK src).sublist hsub) ha
  obtain ⟨h1, h2⟩ := seg_extent_bounds hsub hne
  refine ⟨us, seg, hne, hu, ha, hsub, hsp, h1, h2, ?_⟩
  rw [hsp]
  exact sliceSource_nat src _ _ (Nat.le_of_lt h1) h2

/-- **C10 (every expression's span is its source text).**  If `parse src` reports no error,
    every expression position of the program (operator arguments, column expressions, sort
    terms, join conditions at any join depth, `let` values) satisfies `IsSourceText`. -/
theorem C10_expr_span_is_source_text (src : Bytes) (stmts : List Stmt) (h : parse src = (stmts, [])) :
    ∀ s ∈ stmts, StmtAll (IsSourceText src) (fun l => ∀ e ∈ l.toList, IsSourceText src e) s := by
  intro s hs
  refine ParsedOK.StmtAll.imp ?_ ?_ s (parsed_segs src stmts h s hs)
  · exact isSourceText_of_seg src
  · intro l hl e he
    exact isSourceText_of_seg src e (hl.mem e he)

mutual
/-- the columns `(*subquery).write` may have to name: those of `extend` and `summarize`
    operators (aggregates and group-by keys), at any join depth -/
def tabColumns : Tabular → List Column
  | .nil => []
  | .mk _ ops => opsColumns ops
def opColumns : Op → List Column
  | .extend _ _ cs => cs
  | .summarize _ _ cs _ gs => cs ++ gs
  | .join _ _ _ _ _ _ right _ _ _ => tabColumns right
  | _ => []
def opsColumns : OpList → List Column
  | .nil => []
  | .cons o os => opColumns o ++ opsColumns os
end

def stmtColumns : Stmt → List Column
  | .tabular t => tabColumns t
  | .let_ .. => []

section
variable {E : Expr → Prop} {EL : ExprList → Prop}
mutual
theorem tabAll_columns : ∀ t : Tabular, TabAll E EL t → ∀ c ∈ tabColumns t, E c.x
  | .nil, _, c, hc => by simp [tabColumns] at hc
  | .mk _ ops, h, c, hc => by
    simp only [TabAll] at h
    simp only [tabColumns] at hc
    exact opsAll_columns ops h c hc
theorem opAll_columns : ∀ o : Op, OpAll E EL o → ∀ c ∈ opColumns o, E c.x
  | .extend _ _ cs, h, c, hc => by
    simp only [OpAll] at h
    simp only [opColumns] at hc
    exact h c hc
  | .summarize _ _ cs _ gs, h, c, hc => by
    simp only [OpAll] at h
    simp only [opColumns, List.mem_append] at hc
    rcases hc with hc | hc
    · exact h.1 c hc
    · exact h.2 c hc
  | .join _ _ _ _ _ _ right _ _ _, h, c, hc => by
    simp only [OpAll] at h
    simp only [opColumns] at hc
    exact tabAll_columns right h.1 c hc
  | .count .., _, c, hc => by simp [opColumns] at hc
  | .where_ .., _, c, hc => by simp [opColumns] at hc
  | .sort .., _, c, hc => by simp [opColumns] at hc
  | .take .., _, c, hc => by simp [opColumns] at hc
  | .top .., _, c, hc => by simp [opColumns] at hc
  | .project .., _, c, hc => by simp [opColumns] at hc
  | .as_ .., _, c, hc => by simp [opColumns] at hc
  | .render .., _, c, hc => by simp [opColumns] at hc
theorem opsAll_columns : ∀ ops : OpList, OpsAll E EL ops → ∀ c ∈ opsColumns ops, E c.x
  | .nil, _, c, hc => by simp [opsColumns] at hc
  | .cons o os, h, c, hc => by
    simp only [OpsAll] at h
    simp only [opsColumns, List.mem_append] at hc
    rcases hc with hc | hc
    · exact opAll_columns o h.1 c hc
    · exact opsAll_columns os h.2 c hc
end
end

/-- **C10 (implicit column names are source text).**  If `parse src` reports no error, then for
    every column `c` of an `extend` or `summarize` operator (aggregate or group-by key, at any
    join depth) of the program, the expression `c.x` satisfies `IsSourceText`; and when the
    column is unnamed, the alias the compile model writes for it (in every scope and mode) is
    `AS` the quoted identifier whose name is exactly the source text
    `src[start of first token of c.x, end of last token of c.x)` — a non-empty range inside
    the source; in particular the slice does not panic. -/
theorem C10_implicit_name_is_source_text (src : Bytes) (stmts : List Stmt)
    (h : parse src = (stmts, [])) :
    ∀ s ∈ stmts, ∀ c ∈ stmtColumns s, c.name = none →
      ∃ (us : List UTok) (seg : List Token) (hne : seg ≠ []),
        unparseExpr c.x = some us ∧ accounts true us seg = true ∧ seg.Sublist (scan src) ∧
        c.x.spanOf = ⟨(seg.head hne).start, (seg.getLast hne).stop⟩ ∧
        (seg.head hne).start < (seg.getLast hne).stop ∧ (seg.getLast hne).stop ≤ src.length ∧
        ∀ (scope : List (Bytes × List Chunk)) (mode : Mode),
          columnAlias ⟨src, scope, mode⟩ c =
            .ok [.txt " AS ", .qid (src.extract (seg.head hne).start (seg.getLast hne).stop)] := by
  intro s hs c hc hn
  have hall := C10_expr_span_is_source_text src stmts h s hs
  have hx : IsSourceText src c.x := by
    cases s with
    | let_ => simp [stmtColumns] at hc
    | tabular t =>
      simp only [StmtAll] at hall
      simp only [stmtColumns] at hc
      exact tabAll_columns t hall c hc
  obtain ⟨us, seg, hne, h1, h2, h3, h4, h5, h6, h7⟩ := hx
  refine ⟨us, seg, hne, h1, h2, h3, h4, h5, h6, ?_⟩
  intro scope mode
  simp only [columnAlias, hn, h7]
  rfl

/-! ### (ii) the spans of `Compile` errors -/

/-- `0 ≤ start ≤ stop ≤ len(src)` (`C10.Inside`): the span is valid (`IsValid()`), so the message
    gets its `line:col: ` prefix, and `source[:start]` in `linecol` is in range -/
abbrev ErrSpanOK (src : Bytes) (sp : Span) : Prop := C10.Inside src.length sp

theorem errSpanOK_token {src : Bytes} {t : Token} (ht : t ∈ scan src) : ErrSpanOK src t.span := by
  have := mem_scan_bounds src t ht
  simp only [C10.Inside, Token.span]
  omega

/-- the parts of a qualified identifier carry the spans of their tokens -/
theorem idents_acc : ∀ (parts : List Ident) (seg : List Token),
    accounts true (identsDotted parts) seg = true → ∀ p ∈ parts, ∃ t ∈ seg, p.span = t.span
  | [], _, _, p, hp => by cases hp
  | [i], seg, h, p, hp => by
    simp only [List.mem_singleton] at hp
    subst hp
    obtain ⟨t, rfl, hsp⟩ := accounts_span_single (u := identTok p) p.span rfl rfl rfl h
    exact ⟨t, by simp, hsp⟩
  | i :: j :: is, seg, h, p, hp => by
    have e : identsDotted (i :: j :: is) = identTok i :: { kind := .dot } :: identsDotted (j :: is) := rfl
    rw [e] at h
    obtain ⟨t, ts', rfl, hsp, hr⟩ := accounts_span_cons (u := identTok i) i.span rfl rfl rfl h
    obtain ⟨td, ts'', rfl, hr'⟩ := accounts_plain_cons (u := { kind := .dot }) rfl hr
    rcases List.mem_cons.1 hp with rfl | hp
    · exact ⟨t, by simp, hsp⟩
    · obtain ⟨t', ht', h'⟩ := idents_acc (j :: is) ts'' hr' p hp
      exact ⟨t', by simp [ht'], h'⟩

/-- the parentheses of a call are two tokens, the opening one ends before the closing one starts -/
theorem call_acc {fn : Ident} {lp rp : Span} {args : ExprList} {us : List UTok} {seg : List Token}
    (hu : unparseExpr (.call fn lp args rp) = some us) (ha : accounts true us seg = true)
    (hok : TokOK seg) :
    ∃ t1 ∈ seg, ∃ t2 ∈ seg, lp = t1.span ∧ rp = t2.span ∧ t1.stop ≤ t2.start := by
  simp only [unparseExpr, Option.bind_eq_bind, Option.pure_def, Option.bind_eq_some_iff,
    Option.some.injEq] at hu
  obtain ⟨as, _, rfl⟩ := hu
  obtain ⟨tf, r1, rfl, _, h1⟩ := accounts_span_cons (u := identTok fn) fn.span rfl rfl rfl ha
  obtain ⟨tl, r2, rfl, hlp, h2⟩ := accounts_span_cons (u := sym .lparen lp) lp rfl rfl rfl h1
  obtain ⟨sa, sr, rfl, _, h3⟩ := accounts_append_split h2
  obtain ⟨m, tr, r3, rfl, hrp, _⟩ :=
    accounts_span_cons_opt (u := { sym .rparen rp with optComma := true }) rp rfl rfl h3
  refine ⟨tl, by simp, tr, by simp, hlp, hrp, ?_⟩
  have hp := (List.pairwise_cons.mp (List.pairwise_cons.mp hok.2).2).1
  exact hp tr (by simp)

/-- the spans `writeExpression` and the built-in writers attach to their errors below `e`:
    for every qualified identifier at any depth its own span and the span of each part, for
    every call `Span{Lparen.End, Rparen.Start}` -/
def ExprErrSpansOK (src : Bytes) (e : Expr) : Prop :=
  ∀ d, Expr.Sub d e →
    (∀ parts, d = .qident parts → ErrSpanOK src d.spanOf ∧ ∀ p ∈ parts, ErrSpanOK src p.span) ∧
    (∀ fn lp args rp, d = .call fn lp args rp → ErrSpanOK src ⟨lp.stop, rp.start⟩)

theorem exprErrSpansOK_of_seg (src : Bytes) (e : Expr) (h : ESeg (scan src) e) :
    ExprErrSpansOK src e := by
  intro d hd
  have hseg := h.sub hd
  refine ⟨?_, ?_⟩
  · rintro parts rfl
    obtain ⟨_, seg, hne, _, _, _, hsp, h1, h2, _⟩ := isSourceText_of_seg src _ hseg
    refine ⟨?_, ?_⟩
    · rw [hsp]; simp only [C10.Inside]; omega
    · obtain ⟨us, hu, seg', hsub, ha⟩ := hseg
      intro p hp
      simp only [unparseExpr] at hu
      split at hu
      · cases hu
      · simp only [Option.some.injEq] at hu
        subst hu
        obtain ⟨t, ht, hsp'⟩ := idents_acc parts seg' ha p hp
        rw [hsp']
        exact errSpanOK_token (hsub.subset ht)
  · rintro fn lp args rp rfl
    obtain ⟨us, hu, seg, hsub, ha⟩ := hseg
    obtain ⟨t1, ht1, t2, ht2, rfl, rfl, hle⟩ := call_acc hu ha ((scan_tokOK src).sublist hsub)
    have b1 := mem_scan_bounds src t1 (hsub.subset ht1)
    have b2 := mem_scan_bounds src t2 (hsub.subset ht2)
    simp only [C10.Inside, Token.span]
    omega

mutual
/-- the flavour identifiers (`kind = …`) of the join operators, at any join depth -/
def tabFlavors : Tabular → List Ident
  | .nil => []
  | .mk _ ops => opsFlavors ops
def opFlavors : Op → List Ident
  | .join _ _ _ _ fl _ right _ _ _ => fl.toList ++ tabFlavors right
  | _ => []
def opsFlavors : OpList → List Ident
  | .nil => []
  | .cons o os => opFlavors o ++ opsFlavors os
end

def stmtFlavors : Stmt → List Ident
  | .tabular t => tabFlavors t
  | .let_ .. => []

mutual
theorem tab_flavors (ts : List Token) : ∀ (t : Tabular) (us : List UTok), unparseTabular t = some us →
    Inf us ts → ∀ f ∈ tabFlavors t, ∃ tk ∈ ts, f.span = tk.span
  | .nil, _, _, _, f, hf => by simp [tabFlavors] at hf
  | .mk src ops, us, h, hu, f, hf => by
    simp only [unparseTabular, Option.bind_eq_bind, Option.pure_def, Option.bind_eq_some_iff,
      Option.some.injEq] at h
    obtain ⟨s, _, os, ho, rfl⟩ := h
    simp only [tabFlavors] at hf
    exact ops_flavors ts ops os ho hu.tail f hf
theorem ops_flavors (ts : List Token) : ∀ (ops : OpList) (us : List UTok), unparseOps ops = some us →
    Inf us ts → ∀ f ∈ opsFlavors ops, ∃ tk ∈ ts, f.span = tk.span
  | .nil, _, _, _, f, hf => by simp [opsFlavors] at hf
  | .cons o os, us, h, hu, f, hf => by
    simp only [unparseOps, Option.bind_eq_bind, Option.pure_def, Option.bind_eq_some_iff,
      Option.some.injEq] at h
    obtain ⟨a, ha, b, hb, rfl⟩ := h
    simp only [opsFlavors, List.mem_append] at hf
    rcases hf with hf | hf
    · exact op_flavors ts o a ha hu.left f hf
    · exact ops_flavors ts os b hb hu.right f hf
theorem op_flavors (ts : List Token) : ∀ (o : Op) (us : List UTok), unparseOp o = some us →
    Inf us ts → ∀ f ∈ opFlavors o, ∃ tk ∈ ts, f.span = tk.span
  | .join p k kind ka fl lp right rp on conds, us, h, hu, f, hf => by
    simp only [unparseOp, Option.bind_eq_bind, Option.pure_def, Option.bind_eq_some_iff] at h
    obtain ⟨r, hr, cs, hcs, h⟩ := h
    split at h
    · simp at h
    · simp only [opFlavors, List.mem_append] at hf
      rcases hf with hf | hf
      · cases fl with
        | none => simp at hf
        | some f' =>
          simp only [Option.toList_some, List.mem_singleton] at hf
          subst hf
          simp only [Option.bind_some, Option.some.injEq] at h
          subst h
          obtain ⟨seg, hsub, ha⟩ := hu.left.left.tail.tail.tail.tail
          obtain ⟨t, rfl, hsp⟩ := accounts_span_single (u := identTok f) f.span rfl rfl rfl ha
          exact ⟨t, hsub.subset (by simp), hsp⟩
      · have hex : ∃ hdr : List UTok, us = sym TokKind.pipe p :: kwTok ["join"] k :: hdr ++
            sym TokKind.lparen lp :: r ++ sym TokKind.rparen rp :: kwTok ["on"] on :: cs := by
          split at h
          · simp only [Option.bind_some, Option.some.injEq] at h
            exact ⟨_, h.symm⟩
          · split at h
            · simp at h
            · simp only [Option.bind_some, Option.some.injEq] at h
              exact ⟨_, h.symm⟩
        obtain ⟨hdr, rfl⟩ := hex
        exact tab_flavors ts right r hr hu.left.right.tail f hf
  | .count .., _, _, _, f, hf => by simp [opFlavors] at hf
  | .where_ .., _, _, _, f, hf => by simp [opFlavors] at hf
  | .sort .., _, _, _, f, hf => by simp [opFlavors] at hf
  | .take .., _, _, _, f, hf => by simp [opFlavors] at hf
  | .top .., _, _, _, f, hf => by simp [opFlavors] at hf
  | .project .., _, _, _, f, hf => by simp [opFlavors] at hf
  | .extend .., _, _, _, f, hf => by simp [opFlavors] at hf
  | .summarize .., _, _, _, f, hf => by simp [opFlavors] at hf
  | .as_ .., _, _, _, f, hf => by simp [opFlavors] at hf
  | .render .., _, _, _, f, hf => by simp [opFlavors] at hf
end

/-- statements of an error-free parse: the statement's span is the extent of a non-empty run of
    tokens of the scan, and its flavour identifiers are tokens -/
theorem parsed_stmt_spans (src : Bytes) (stmts : List Stmt) (h : parse src = (stmts, [])) :
    ∀ s ∈ stmts, ErrSpanOK src s.spanOf ∧ ∀ f ∈ stmtFlavors s, ErrSpanOK src f.span := by
  have hp : parseTokens src.length (scan src) = (stmts, []) := h
  have hacc := parseTokens_acc src.length (scan src) stmts (scan_tokOK src) hp
  have hext := C10.C10_span_extent src stmts h
  have hsub := splitStatementsToks_sublist (scan src)
  generalize splitStatementsToks (scan src) = gs at hacc hext hsub
  clear h hp
  induction hacc with
  | nil => intro s hs; cases hs
  | @cons st g l₁ l₂ hR _ ih =>
    cases hext with
    | cons he hrest =>
      intro s hs
      rcases List.mem_cons.1 hs with rfl | hs
      · have hg := hsub g (by simp)
        obtain ⟨hne, hsp⟩ := he
        obtain ⟨h1, h2⟩ := seg_extent_bounds hg hne
        refine ⟨?_, ?_⟩
        · rw [hsp]; simp only [C10.Inside]; omega
        · obtain ⟨us, hus, ha⟩ := hR
          intro f hf
          cases s with
          | let_ => simp [stmtFlavors] at hf
          | tabular t =>
            simp only [stmtFlavors] at hf
            simp only [unparseStmt] at hus
            obtain ⟨tk, htk, hsp'⟩ := tab_flavors (scan src) t us hus ⟨g, hg, ha⟩ f hf
            rw [hsp']
            exact errSpanOK_token htk
      · exact ih hrest (fun g hg => hsub g (List.mem_cons_of_mem _ hg)) s hs

/-- what `compileError.Error()` does with an `ErrSpanOK` span: it is valid, `source[:start]` is
    in range, and `linecol` reports a line of the source (1 + number of newline bytes before the
    position, at most the number of lines) and a column ≥ 1 -/
theorem errSpanOK_linecol (src : Bytes) (sp : Span) (h : ErrSpanOK src sp) :
    sp.isValid = true ∧ sp.start.toNat ≤ src.length ∧
    (linecol src sp.start.toNat).1 = 1 + (src.take sp.start.toNat).count 10 ∧
    1 ≤ (linecol src sp.start.toNat).1 ∧ (linecol src sp.start.toNat).1 ≤ 1 + src.count 10 ∧
    1 ≤ (linecol src sp.start.toNat).2 := by
  obtain ⟨h1, h2, h3⟩ := h
  refine ⟨by simp [Span.isValid]; omega, by omega, C10.C10_linecol_line src _,
    (C10.C10_linecol_line_bounds src _).1, (C10.C10_linecol_line_bounds src _).2,
    C10.C10_linecol_col_pos src _⟩

/-- **C10 (`Compile` errors point into the source).**  The compile model does not carry the span
    of a compile error (`WErr.err`, `CompileResult.error`), so this is stated for every span a
    `compileError` of pql.go can carry.  If `parse src` reports no error then, for every
    statement of the program,
    * the statement's span ("batch queries not supported"),
    * the span of every join flavour identifier, at any join depth ("unhandled join type"),
    * below every expression position (operator arguments, columns, sort terms, join conditions,
      `let` values), at any depth: the span of every qualified identifier and of each of its
      parts ("unknown identifier … in let expression", "quoted / qualified identifier not
      permitted in let expression", "$left used in non-join context"), and
      `Span{x.Lparen.End, x.Rparen.Start}` of every call (the arity errors of the built-ins)
    all satisfy `0 ≤ start ≤ end ≤ len(src)`; and (`errSpanOK_linecol`) for such a span the
    message gets a `line:col: ` prefix with `1 ≤ line ≤ number of lines of src`, `col ≥ 1`,
    computed from `src[:start]` without a slice panic. -/
theorem C10_compile_error_linecol (src : Bytes) (stmts : List Stmt) (h : parse src = (stmts, [])) :
    ∀ s ∈ stmts,
      ErrSpanOK src s.spanOf ∧
      (∀ f ∈ stmtFlavors s, ErrSpanOK src f.span) ∧
      StmtAll (ExprErrSpansOK src) (fun l => ∀ e ∈ l.toList, ExprErrSpansOK src e) s := by
  intro s hs
  obtain ⟨h1, h2⟩ := parsed_stmt_spans src stmts h s hs
  refine ⟨h1, h2, ?_⟩
  refine ParsedOK.StmtAll.imp ?_ ?_ s (parsed_segs src stmts h s hs)
  · exact exprErrSpansOK_of_seg src
  · intro l hl e he
    exact exprErrSpansOK_of_seg src e (hl.mem e he)

/-! ### examples, non-vacuity, and why the hypothesis is needed -/

private abbrev B := Bytes.ofString

/-- `T | extend x + 1, y = 2 | summarize count() by  a*2` -/
def exSrc2 : Bytes := B "T | extend x + 1, y = 2 | summarize count() by  a*2"

unseal Pql.scanFrom in
theorem ex2_parses : (parse exSrc2).2 = [] := by decide +kernel

unseal Pql.scanFrom in
/-- the four `extend` / `summarize` columns of the example (summarize: aggregates, then keys) and
    the alias the model writes: the three unnamed ones are named by their source text -/
theorem ex2_names :
    ((parse exSrc2).1.flatMap stmtColumns).map
        (fun c => (c.name.isNone, columnAlias ⟨exSrc2, [], .default⟩ c)) =
      [(true, .ok [.txt " AS ", .qid (B "x + 1")]), (false, .ok [.txt " AS ", .qid (B "y")]),
       (true, .ok [.txt " AS ", .qid (B "count()")]), (true, .ok [.txt " AS ", .qid (B "a*2")])] := by
  with_unfolding_all rfl

/-- the theorem applies to the example (non-vacuity of the hypothesis) -/
theorem ex2_applies : ∀ s ∈ (parse exSrc2).1, ∀ c ∈ stmtColumns s, c.name = none →
    IsSourceText exSrc2 c.x := by
  intro s hs c hc hn
  have hp : parse exSrc2 = ((parse exSrc2).1, []) := by rw [← ex2_parses]
  obtain ⟨us, seg, hne, h1, h2, h3, h4, h5, h6, h7⟩ :=
    C10_implicit_name_is_source_text exSrc2 _ hp s hs c hc hn
  refine ⟨us, seg, hne, h1, h2, h3, h4, h5, h6, ?_⟩
  rw [h4]
  exact sliceSource_nat _ _ _ (Nat.le_of_lt h5) h6

/-- **the hypothesis "`stmts` is the error-free parse of `src`" is needed** in (i): for a tree
    that was not parsed from the source handed to the compiler the slice can be out of range
    (the Go code panics) -/
theorem C10_implicit_name_needs_parse :
    let c : Column := ⟨none, .null, .lit ⟨5, 20⟩ .number (B "1")⟩
    let stmts : List Stmt := [.tabular (.mk (some ⟨B "T", ⟨0, 1⟩, false⟩) (.cons (.extend .null .null [c]) .nil))]
    c ∈ stmts.flatMap stmtColumns ∧ c.name = none ∧
      columnAlias ⟨B "T | extend 1", [], .default⟩ c = .error .panic := by
  refine ⟨by simp [stmtColumns, tabColumns, opsColumns, opColumns], rfl, ?_⟩
  with_unfolding_all rfl

/-- the predicate of the first `where` operator of a one-statement program -/
def firstWhere : List Stmt → Option Expr
  | [.tabular (.mk _ (.cons (.where_ _ _ e) _))] => some e
  | _ => none

unseal Pql.scanFrom in
/-- **"error-free" is needed** in (ii): `T | where f(a` is parsed (with one error) to a call whose
    `Rparen` is the null span, so `Span{Lparen.End, Rparen.Start}` is `12:-1` — invalid (Go
    would print the message without `line:col`; `Compile` never gets there, it returns the parse
    error) -/
theorem C10_compile_error_needs_error_free :
    firstWhere (parse (B "T | where f(a")).1 =
      some (.call ⟨B "f", ⟨10, 11⟩, false⟩ ⟨11, 12⟩ (.cons (.qident [⟨B "a", ⟨12, 13⟩, false⟩]) .nil) .null) ∧
    (parse (B "T | where f(a")).2 ≠ [] ∧
    ¬ ErrSpanOK (B "T | where f(a") ⟨(⟨11, 12⟩ : Span).stop, Span.null.start⟩ := by
  refine ⟨by with_unfolding_all rfl, by decide +kernel, ?_⟩
  simp [C10.Inside, Span.null]

/-- `A | join kind=inner (B) on $left.x == $right.y | where f(a, b) > 1` -/
def exSrc3 : Bytes := B "A | join kind=inner (B) on $left.x == $right.y | where f(a, b) > 1"

unseal Pql.scanFrom in
theorem ex3_parses : (parse exSrc3).2 = [] := by decide +kernel

unseal Pql.scanFrom in
/-- non-vacuity of (ii): the example has a join flavour (`inner` at 14:19) and, in its `where`,
    a call `f(a, b)` whose arity-error span would be 57:61 = `a, b` -/
theorem ex3_spans :
    ((parse exSrc3).1.flatMap stmtFlavors).map (·.span) = [⟨14, 19⟩] ∧
    (parse exSrc3).1.map (·.spanOf) = [⟨0, 66⟩] := by
  constructor <;> with_unfolding_all rfl

theorem ex3_applies : ∀ s ∈ (parse exSrc3).1,
    ErrSpanOK exSrc3 s.spanOf ∧ (∀ f ∈ stmtFlavors s, ErrSpanOK exSrc3 f.span) ∧
    StmtAll (ExprErrSpansOK exSrc3) (fun l => ∀ e ∈ l.toList, ExprErrSpansOK exSrc3 e) s :=
  C10_compile_error_linecol exSrc3 _ (by rw [← ex3_parses])

end Pql.Glue
