/-
Property C07 (also C06), tie by translation: `(*parser).letStatement` — the model's `pLet` is the
interpretation of the regenerated body (`C07_letStatement_ir`).
-/
import PqlModel.Props.C07OperatorIRTreesB
import PqlModel.Props.C07OperatorIRExtend
namespace Pql.OpIR
open Pql
set_option linter.unusedSimpArgs false

theorem newRec_let : newRec "LetStatement" =
    some ⟨"LetStatement", [("Keyword", .span .zero), ("Name", .ident none), ("Assign", .span .zero), ("X", .expr .nil)]⟩ := by rfl
theorem kind_ident : TokKind.ofGoName "TokenIdentifier" = some .ident := by decide

theorem letStatement_run (c : PCtx) (fuel : Nat) (ts : List Token) :
    runP toLet "stmt" c letStatementBody fuel ts = .ok ⟨(pLet c fuel ts).val, (pLet c fuel ts).errs, (pLet c fuel ts).rest⟩ := by
  unfold letStatementBody pLet runP
  rcases ts with _ | ⟨k, rest⟩
  · ir_simp [kind_ident, eofTok, toLet, PCtx.eof, Span.index, nfAt, Token.span]
  · by_cases hk : k.kind = .ident
    · by_cases hv : k.value = Bytes.ofString "let"
      · rcases rest with _ | ⟨t, rest1⟩
        · ir_simp [kind_ident, eofTok, toLet, hk, hv, isIdentNamed, newRec_let, pIdent, Token.span, nfAt, mkOpaque]
        · by_cases ht : t.kind = .ident ∨ t.kind = .qident
          · rcases rest1 with _ | ⟨a, rest2⟩
            · ir_simp [kind_ident, eofTok, toLet, hk, hv, isIdentNamed, newRec_let, pIdent, Token.span, ht, kind_assign,
                PCtx.eof, Span.index, errAt]
            · by_cases ha : a.kind = .assign
              · cases he : (pExpr c fuel rest2).errs <;>
                  ir_simp [kind_ident, eofTok, toLet, hk, hv, isIdentNamed, newRec_let, pIdent, Token.span, ht, kind_assign, ha,
                    he, mkOpaque_nil]
              · ir_simp [kind_ident, eofTok, toLet, hk, hv, isIdentNamed, newRec_let, pIdent, Token.span, ht, kind_assign, ha]
          · ir_simp [kind_ident, eofTok, toLet, hk, hv, isIdentNamed, newRec_let, pIdent, Token.span, ht, nfAt, mkOpaque]
      · ir_simp [kind_ident, eofTok, toLet, hk, hv, isIdentNamed, Token.span, nfAt]
    · ir_simp [kind_ident, eofTok, toLet, hk, isIdentNamed, Token.span, nfAt]

/-- **letStatement**: the model's `pLet` is the interpretation of the regenerated body -/
theorem C07_letStatement_ir (c : PCtx) (fuel : Nat) (ts : List Token) :
    runP toLet "stmt" c (bodyOf "letStatement") fuel ts = .ok (pLet c fuel ts) := by
  simp only [bodyOf, letStatement_ir, Option.map_some, Option.getD_some, letStatement_run]

end Pql.OpIR
