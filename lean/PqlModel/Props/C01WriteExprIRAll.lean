/-
Property C01 (and C13), tie by translation, part 3: `writeExpression` is translated code.

  `C01_writeExpression_step`   one unfolding: if the callee agrees with the model on every smaller expression,
                               the interpretation of the regenerated body agrees with the model
  `C01_writeExpression_ir`     `interpWriteExpression c e = liftW (writeExpr c e)` for every context and every
                               expression (in join mode: without nil sub-expressions, as `Walk` panics on those —
                               `C01_writeExpression_ir_needs_good`), all callees interpreted from their own
                               regenerated bodies (`writeExpressionMaybeParen`, `…Tight`, `hasJoinTerms`, the
                               `write*Function` rewrites), errors and their order included
  `C01_writeMaybeParen_ir`, `C01_writeTight_ir`   the two wrappers composed with it
-/
import PqlModel.Props.C01WriteExprIRCases
namespace Pql.ExprIR
open Pql
open Pql.WriteIR (M IErr liftW goPanic stuck Path)
set_option linter.unusedSimpArgs false
set_option linter.unusedVariables false

/-- the callees of the body of `writeExpression` at one level of unfolding -/
def stepSem (we : Ctx → Expr → M (List Chunk)) : Sem := { innerSem we with known := interpKnown we }

theorem stepSem_plain (we) : (stepSem we).plain = we := rfl
theorem stepSem_maybe (we) : (stepSem we).maybe = interpMaybe we := rfl
theorem stepSem_tight (we) : (stepSem we).tight = interpTight we := rfl
theorem stepSem_hasJoin (we) : (stepSem we).hasJoin = interpHasJoinTerms := rfl
theorem stepSem_known (we) : (stepSem we).known = interpKnown we := rfl
theorem innerSem_plain (we) : (innerSem we).plain = we := rfl

/-- the instantiated template is the same term on both sides: split on its outcome -/
macro "tmpl_done" : tactic =>
  `(tactic| try (generalize Tmpl.interp _ _ = r; cases r <;> simp [bind, Except.bind, pure, Except.pure, liftW]))

/-- the state after the unwrapping loop -/
def st0 (c : Ctx) (u : Expr) : State := ⟨[("x", .expr u), ("ctx", .ctx c none)], []⟩

/-- the callee agrees with the model below `u` -/
def Agrees (we : Ctx → Expr → M (List Chunk)) (c : Ctx) (n : Nat) : Prop :=
  ∀ x : Expr, x.size < n → (c.mode = .join → x.Good) → we c x = liftW (writeExpr c x)

theorem good_unparen : (e : Expr) → e.Good → (unparen e).Good
  | .paren _ x _, h => by rw [unparen]; exact good_unparen x h
  | .nil, h => h
  | .qident _, h => h
  | .lit .., h => h
  | .unary .., h => h
  | .binary .., h => h
  | .inE .., h => h
  | .call .., h => h
  | .index .., h => h

theorem size_unparen : (e : Expr) → (unparen e).size ≤ e.size
  | .paren _ x _ => by rw [unparen]; have := size_unparen x; simp [Expr.size]; omega
  | .nil => Nat.le_refl _
  | .qident _ => Nat.le_refl _
  | .lit .. => Nat.le_refl _
  | .unary .. => Nat.le_refl _
  | .binary .. => Nat.le_refl _
  | .inE .. => Nat.le_refl _
  | .call .. => Nat.le_refl _
  | .index .. => Nat.le_refl _

/-! ### token kinds -/

theorem tok_number (k : TokKind) : (k.goName == "TokenNumber") = decide (k = .number) := by cases k <;> rfl
theorem tok_string (k : TokKind) : (k.goName == "TokenString") = decide (k = .string) := by cases k <;> rfl
theorem tok_plus (k : TokKind) : (k.goName == "TokenPlus") = decide (k = .plus) := by cases k <;> rfl
theorem tok_minus (k : TokKind) : (k.goName == "TokenMinus") = decide (k = .minus) := by cases k <;> rfl
theorem tok_eq (k : TokKind) : (k.goName == "TokenEq") = decide (k = .eq) := by cases k <;> rfl
theorem tok_ne (k : TokKind) : (k.goName == "TokenNE") = decide (k = .ne) := by cases k <;> rfl
theorem tok_cieq (k : TokKind) : (k.goName == "TokenCaseInsensitiveEq") = decide (k = .cieq) := by cases k <;> rfl
theorem tok_cine (k : TokKind) : (k.goName == "TokenCaseInsensitiveNE") = decide (k = .cine) := by cases k <;> rfl

/-! ### nil, literals -/

theorem core_nil (we : Ctx → Expr → M (List Chunk)) (c : Ctx) :
    execBlock (stepSem we) weIR.tail (st0 c .nil) >>= finish = liftW (writeExpr c .nil) := by
  xe_simp [weIR, X, st0, defaultCase, finish, goTypeOf, writeExpr]

theorem core_lit (we : Ctx → Expr → M (List Chunk)) (c : Ctx) (sp : Span) (k : TokKind) (v : Bytes) :
    execBlock (stepSem we) weIR.tail (st0 c (.lit sp k v)) >>= finish = liftW (writeExpr c (.lit sp k v)) := by
  by_cases h1 : k = .number
  · xe_simp [weIR, X, st0, litCase, finish, writeExpr, tok_number, tok_string, h1]
  · by_cases h2 : k = .string
    · xe_simp [weIR, X, st0, litCase, finish, writeExpr, tok_number, tok_string, h1, h2]
    · xe_simp [weIR, X, st0, litCase, finish, writeExpr, tok_number, tok_string, h1, h2]

/-! ### qualified identifiers -/

/-- the part of the model's `.qident` case before the loop -/
def earlyOf (ctx : Ctx) (parts : List Ident) : Option W :=
  match parts with
  | [part] =>
    if !part.quoted then
      match lookupScope ctx.scope part.name with
      | some sql => some (.ok sql)
      | none =>
        match builtinIdent part.name with
        | some sql => some (.ok [.txt sql])
        | none => if ctx.mode = .let_ then some (.error .err) else none
    else if ctx.mode = .let_ then some (.error .err) else none
  | _ => if ctx.mode = .let_ then some (.error .err) else none

theorem writeExpr_qident (c : Ctx) (ps : List Ident) :
    writeExpr c (.qident ps) =
      match earlyOf c ps with
      | some r => r
      | none => if ps.any (badPart c) then .error .err else .ok (sepChunks "." (ps.map fun p => [.qid p.name])) := by
  cases ps with
  | nil => rw [writeExpr] <;> first | rfl | (intro _ h; cases h)
  | cons p qs => cases qs <;> rw [writeExpr] <;> first | rfl | (intro _ h; cases h)

def qV (c : Ctx) (ps : List Ident) : List (String × Val) :=
  [("x", .expr (.qident ps)), ("x", .expr (.qident ps)), ("ctx", .ctx c none)]

theorem qident_pre (sem : Sem) (c : Ctx) (ps : List Ident) :
    exec sem qidentPre ⟨qV c ps, []⟩ =
      match earlyOf c ps with
      | some (.ok cs) => .ok (.ret, ⟨qV c ps, cs⟩)
      | some (.error e) => .error (.go e)
      | none => .ok (.next, ⟨qV c ps, []⟩) := by
  match ps with
  | [] => cases hm : c.mode <;> xe_simp [qidentPre, qV, CtxMode, Part, earlyOf, hm]
  | [p] =>
    cases hq : p.quoted <;> cases hm : c.mode <;> cases hs : lookupScope c.scope p.name <;>
      cases hb : builtinIdent p.name <;>
      xe_simp [qidentPre, qV, CtxMode, Part, earlyOf, mapLookup, hq, hm, hs, hb]
  | p :: q :: r => cases hm : c.mode <;> xe_simp [qidentPre, qV, CtxMode, Part, earlyOf, hm]

theorem qident_loop (sem : Sem) (c : Ctx) (ps : List Ident) :
    exec sem (.for_ "i" "part" ⟨"x", "Parts"⟩ partBody) ⟨qV c ps, []⟩ =
      if ps.any (badPart c) then .error (.go .err)
      else .ok (.next, ⟨qV c ps, sepChunks "." (ps.map fun p => [.qid p.name])⟩) := by
  have h := parts_loop sem c (.expr (.qident ps)) (.expr (.qident ps)) ps 0 []
  rw [partsFrom_zero] at h
  simp only [List.nil_append] at h
  rw [exec]
  simp only [qV, State.get, List.find?, bind_ok, listAt]
  xe_simp [h]

theorem core_qident (we : Ctx → Expr → M (List Chunk)) (c : Ctx) (ps : List Ident) :
    execBlock (stepSem we) weIR.tail (st0 c (.qident ps)) >>= finish = liftW (writeExpr c (.qident ps)) := by
  have hq : qidentCase = [qidentPre, .for_ "i" "part" ⟨"x", "Parts"⟩ partBody] := rfl
  have h1 := qident_pre (stepSem we) c ps
  have h2 := qident_loop (stepSem we) c ps
  have hrun : execBlock (stepSem we) qidentCase ⟨qV c ps, []⟩ =
      match writeExpr c (.qident ps) with
      | .error e => .error (.go e)
      | .ok cs => (match earlyOf c ps with
          | some _ => .ok (.ret, ⟨qV c ps, cs⟩)
          | none => .ok (.next, ⟨qV c ps, cs⟩)) := by
    rw [hq, execBlock, h1, writeExpr_qident]
    cases he : earlyOf c ps with
    | some r => cases r <;> simp [bind, Except.bind, pure, Except.pure]
    | none =>
      simp only [bind_ok, execBlock, h2]
      by_cases hb : ps.any (badPart c) = true <;> simp [hb, bind, Except.bind]
  have hw : weIR.tail = [.ite (.typeIs "x" "QualifiedIdent" X) qidentCase
     [.ite (.typeIs "x" "BasicLit" X) litCase
        [.ite (.typeIs "x" "UnaryExpr" X) unaryCase
           [.ite (.typeIs "x" "BinaryExpr" X) binaryCase
              [.ite (.typeIs "x" "InExpr" X) [.template "InExpr"]
                 [.ite (.typeIs "x" "IndexExpr" X) [.template "IndexExpr"]
                    [.ite (.typeIs "x" "CallExpr" X) callCase defaultCase]]]]]], .ret] := rfl
  rw [hw, execBlock, exec]
  simp only [evalCond, X, st0, State.get, List.find?, valAt, assertType, exprTypeName, bind_ok, pure_ok, beq_self_eq_true,
    ↓reduceIte, List.cons_append, List.nil_append]
  simp only [qV] at hrun
  simp only [show (("x" : String) == "_") = false by decide, Bool.false_eq_true, ↓reduceIte, List.cons_append,
    List.nil_append]
  rw [hrun]
  cases hwe : writeExpr c (.qident ps) with
  | error e => simp [bind, Except.bind, liftW]
  | ok cs => cases he : earlyOf c ps <;> xe_simp [qV, finish]

/-! ### signs -/

theorem core_unary (we : Ctx → Expr → M (List Chunk)) (c : Ctx) (sp : Span) (op : TokKind) (x : Expr)
    (H : Agrees we c (Expr.unary sp op x).size) (hg : c.mode = .join → (Expr.unary sp op x).Good) :
    execBlock (stepSem we) weIR.tail (st0 c (.unary sp op x)) >>= finish = liftW (writeExpr c (.unary sp op x)) := by
  have hx : we c (unparen x) = liftW (writeExpr c x) := by
    rw [H (unparen x) (by have := size_unparen x; simp [Expr.size]; omega) (fun h => good_unparen x (hg h)),
      writeExpr_unparen]
  by_cases h1 : op = .plus
  · cases hw : writeExpr c x <;>
      xe_simp [weIR, X, st0, unaryCase, finish, writeExpr, tok_plus, tok_minus, h1, stepSem_tight, C01_tight_ir, hx, hw]
  · by_cases h2 : op = .minus
    · cases hw : writeExpr c x <;>
        xe_simp [weIR, X, st0, unaryCase, finish, writeExpr, tok_plus, tok_minus, h1, h2, stepSem_tight, C01_tight_ir, hx, hw]
    · cases hw : writeExpr c x <;>
        xe_simp [weIR, X, st0, unaryCase, finish, writeExpr, tok_plus, tok_minus, h1, h2, stepSem_tight, C01_tight_ir, hx, hw]

/-! ### binary operators, `in`, indexing: template ranges -/

theorem core_binary (we : Ctx → Expr → M (List Chunk)) (c : Ctx) (x : Expr) (sp : Span) (op : TokKind) (y : Expr)
    (H : Agrees we c (Expr.binary x sp op y).size) (hg : c.mode = .join → (Expr.binary x sp op y).Good) :
    execBlock (stepSem we) weIR.tail (st0 c (.binary x sp op y)) >>= finish =
      liftW (writeExpr c (.binary x sp op y)) := by
  have hx : we c x = liftW (writeExpr c x) := H x (by simp [Expr.size]; omega) (fun h => (hg h).1)
  have hy : we c y = liftW (writeExpr c y) := H y (by simp [Expr.size]; omega) (fun h => (hg h).2)
  by_cases h1 : op = .eq
  · subst h1
    rw [C01T.C01_eq_template]
    by_cases hm : c.mode = .join
    · have hjx := C01_hasJoinTerms_ir x (hg hm).1
      have hjy := C01_hasJoinTerms_ir y (hg hm).2
      cases hxt : hasJoinTerms x with
      | mk xl xr =>
        cases hyt : hasJoinTerms y with
        | mk yl yr =>
          rw [hxt] at hjx
          rw [hyt] at hjy
          cases xl <;> cases yl <;> cases xr <;> cases yr <;> cases hwx : writeExpr c x <;> cases hwy : writeExpr c y <;>
            xe_simp [weIR, X, st0, binaryCase, CtxMode, finish, tok_eq, hm, stepSem_hasJoin, stepSem_plain, hjx, hjy,
              runTemplate, hx, hy, hwx, hwy] <;> tmpl_done
    · cases hmm : c.mode <;> simp [hmm] at hm <;> cases hwx : writeExpr c x <;> cases hwy : writeExpr c y <;>
        xe_simp [weIR, X, st0, binaryCase, CtxMode, finish, tok_eq, hmm, stepSem_plain, runTemplate, hx, hy, hwx, hwy] <;> tmpl_done
  · by_cases h2 : op = .ne
    · subst h2
      rw [C01T.C01_ne_template]
      cases hwx : writeExpr c x <;> cases hwy : writeExpr c y <;>
        xe_simp [weIR, X, st0, binaryCase, finish, tok_eq, tok_ne, stepSem_plain, runTemplate, hx, hy, hwx, hwy] <;> tmpl_done
    · by_cases h3 : op = .cieq
      · subst h3
        rw [C01T.C01_cieq_template]
        cases hwx : writeExpr c x <;> cases hwy : writeExpr c y <;>
          xe_simp [weIR, X, st0, binaryCase, finish, tok_eq, tok_ne, tok_cieq, stepSem_plain, runTemplate, hx, hy, hwx, hwy] <;> tmpl_done
      · by_cases h4 : op = .cine
        · subst h4
          rw [C01T.C01_cine_template]
          cases hwx : writeExpr c x <;> cases hwy : writeExpr c y <;>
            xe_simp [weIR, X, st0, binaryCase, finish, tok_eq, tok_ne, tok_cieq, tok_cine, stepSem_plain, runTemplate, hx, hy,
              hwx, hwy] <;> tmpl_done
        · cases hop : binaryOpText op with
          | some sql =>
            rw [C01T.C01_plain_op_template c x y sp op sql h1 h2 h3 h4 hop]
            cases hwx : writeExpr c x <;> cases hwy : writeExpr c y <;>
              xe_simp [weIR, X, st0, binaryCase, finish, tok_eq, tok_ne, tok_cieq, tok_cine, h1, h2, h3, h4, mapLookup, hop,
                stepSem_plain, runTemplate, hx, hy, hwx, hwy] <;> tmpl_done
          | none =>
            xe_simp [weIR, X, st0, binaryCase, finish, tok_eq, tok_ne, tok_cieq, tok_cine, h1, h2, h3, h4, mapLookup, hop,
              writeExpr]

theorem core_index (we : Ctx → Expr → M (List Chunk)) (c : Ctx) (x : Expr) (a : Span) (idx : Expr) (b : Span)
    (H : Agrees we c (Expr.index x a idx b).size) (hg : c.mode = .join → (Expr.index x a idx b).Good) :
    execBlock (stepSem we) weIR.tail (st0 c (.index x a idx b)) >>= finish =
      liftW (writeExpr c (.index x a idx b)) := by
  have hx : we c x = liftW (writeExpr c x) := H x (by simp [Expr.size]; omega) (fun h => (hg h).1)
  have hy : we c idx = liftW (writeExpr c idx) := H idx (by simp [Expr.size]; omega) (fun h => (hg h).2)
  rw [C01T.C01_index_template]
  cases hwx : writeExpr c x <;> cases hwy : writeExpr c idx <;>
    xe_simp [weIR, X, st0, finish, stepSem_plain, runTemplate, hx, hy, hwx, hwy] <;> tmpl_done

theorem core_in (we : Ctx → Expr → M (List Chunk)) (c : Ctx) (x : Expr) (a b : Span) (vals : ExprList) (d : Span)
    (H : Agrees we c (Expr.inE x a b vals d).size) (hg : c.mode = .join → (Expr.inE x a b vals d).Good) :
    execBlock (stepSem we) weIR.tail (st0 c (.inE x a b vals d)) >>= finish =
      liftW (writeExpr c (.inE x a b vals d)) := by
  have hx : we c x = liftW (writeExpr c x) := H x (by simp [Expr.size]; omega) (fun h => (hg h).1)
  have hv : plainAll (stepSem we) c vals = liftW (writeList c vals) :=
    plainAll_eq (stepSem we) c vals (fun z hz hgz => H z (by simp [Expr.size]; omega) hgz) (fun h => (hg h).2)
  rw [C01T.C01_in_template]
  cases hwx : writeExpr c x <;> cases hwv : writeList c vals <;>
    xe_simp [weIR, X, st0, finish, stepSem_plain, runTemplate, hx, hv, hwx, hwv] <;> tmpl_done

/-! ### calls: the `write*Function` rewrites and the pass-through -/

/-- a writer's body: arity guard, then its template on the arguments -/
theorem writer_run (we : Ctx → Expr → M (List Chunk)) (c : Ctx) (fn : Ident) (lp : Span) (args : ExprList) (rp : Span)
    (guard : Cond) (msg w : String) (rej : Bool)
    (hguard : evalCond (st0 c (.call fn lp args rp)) guard = .ok (rej, []))
    (hne : (w == "CallExpr:default") = false)
    (hp : plainAll (innerSem we) c args = liftW (writeList c args)) :
    execBlock (innerSem we) (writerIR guard msg w) (st0 c (.call fn lp args rp)) >>= finish =
      liftW (if rej then .error .err
             else writeList c args >>= fun as => Tmpl.interp (Tmpl.argsEnv (args.toList.zip as)) (Tmpl.templateOf w)) := by
  unfold writerIR
  rw [execBlock, exec, hguard]
  cases rej
  · cases hw : writeList c args <;>
      xe_simp [st0, finish, runTemplate, hp, hw, hne] <;> tmpl_done
  · xe_simp [st0, finish]

theorem known_names (name : Bytes) (w : String) (np : Bool) (hk : knownFunction name = some (w, np)) :
    Facts.knownFunctions.any (fun r => r.2.1 == w) = true := by
  unfold knownFunction at hk
  cases hf : Facts.knownFunctions.find? (fun r => Bytes.ofString r.1 == name) with
  | none => rw [hf] at hk; simp at hk
  | some r =>
    rw [hf] at hk
    simp only [Option.map_some, Option.some.injEq] at hk
    exact List.any_eq_true.2 ⟨r, List.mem_of_find?_eq_some hf, by rw [hk]; simp⟩

/-- **the `write*Function` rewrites are translated code**: for every writer named in the regenerated
    `initKnownFunctions` table, the interpretation of its regenerated body (arity guard, then the statements that
    are its template) is the model's guard from the regenerated table followed by the template -/
theorem known_eq (we : Ctx → Expr → M (List Chunk)) (c : Ctx) (fn : Ident) (lp : Span) (args : ExprList) (rp : Span)
    (w : String) (hw : Facts.knownFunctions.any (fun r => r.2.1 == w) = true)
    (hp : plainAll (innerSem we) c args = liftW (writeList c args)) :
    interpKnown we w c (.call fn lp args rp) =
      liftW (if arityRejects w args.length then .error .err
             else writeList c args >>= fun as => Tmpl.interp (Tmpl.argsEnv (args.toList.zip as)) (Tmpl.templateOf w)) := by
  have hn : w = "writeCountFunction" ∨ w = "writeCountIfFunction" ∨ w = "writeIfFunction" ∨
      w = "writeIsNotNullFunction" ∨ w = "writeIsNullFunction" ∨ w = "writeNotFunction" ∨
      w = "writeNowFunction" ∨ w = "writeStrcatFunction" ∨ w = "writeToLowerFunction" ∨
      w = "writeToUpperFunction" := by
    simp only [Facts.knownFunctions, List.any_cons, List.any_nil, Bool.or_false, Bool.or_eq_true, beq_iff_eq] at hw
    rcases hw with h | h | h | h | h | h | h | h | h | h | h <;> simp [← h]
  have g0 : evalCond (st0 c (.call fn lp args rp)) (.lenNe Args 0) = .ok (args.length != 0, []) := by
    xe_simp [Args, st0]
  have g1 : evalCond (st0 c (.call fn lp args rp)) (.lenNe Args 1) = .ok (args.length != 1, []) := by
    xe_simp [Args, st0]
  have g3 : evalCond (st0 c (.call fn lp args rp)) (.lenNe Args 3) = .ok (args.length != 3, []) := by
    xe_simp [Args, st0]
  have ge : evalCond (st0 c (.call fn lp args rp)) (.lenEq Args 0) = .ok (args.length == 0, []) := by
    xe_simp [Args, st0]
  unfold interpKnown
  rcases hn with h | h | h | h | h | h | h | h | h | h <;> subst h
  · rw [show "writer:" ++ "writeCountFunction" = "writer:writeCountFunction" by decide,
      runWriter_eq _ _ _ _ _ writer_ir_count, ← st0, writer_run we c fn lp args rp _ _ _ _ g0 (by decide) hp]; rfl
  · rw [show "writer:" ++ "writeCountIfFunction" = "writer:writeCountIfFunction" by decide,
      runWriter_eq _ _ _ _ _ writer_ir_countif, ← st0, writer_run we c fn lp args rp _ _ _ _ g1 (by decide) hp]; rfl
  · rw [show "writer:" ++ "writeIfFunction" = "writer:writeIfFunction" by decide,
      runWriter_eq _ _ _ _ _ writer_ir_if, ← st0, writer_run we c fn lp args rp _ _ _ _ g3 (by decide) hp]; rfl
  · rw [show "writer:" ++ "writeIsNotNullFunction" = "writer:writeIsNotNullFunction" by decide,
      runWriter_eq _ _ _ _ _ writer_ir_isnotnull, ← st0, writer_run we c fn lp args rp _ _ _ _ g1 (by decide) hp]; rfl
  · rw [show "writer:" ++ "writeIsNullFunction" = "writer:writeIsNullFunction" by decide,
      runWriter_eq _ _ _ _ _ writer_ir_isnull, ← st0, writer_run we c fn lp args rp _ _ _ _ g1 (by decide) hp]; rfl
  · rw [show "writer:" ++ "writeNotFunction" = "writer:writeNotFunction" by decide,
      runWriter_eq _ _ _ _ _ writer_ir_not, ← st0, writer_run we c fn lp args rp _ _ _ _ g1 (by decide) hp]; rfl
  · rw [show "writer:" ++ "writeNowFunction" = "writer:writeNowFunction" by decide,
      runWriter_eq _ _ _ _ _ writer_ir_now, ← st0, writer_run we c fn lp args rp _ _ _ _ g0 (by decide) hp]; rfl
  · rw [show "writer:" ++ "writeStrcatFunction" = "writer:writeStrcatFunction" by decide,
      runWriter_eq _ _ _ _ _ writer_ir_strcat, ← st0, writer_run we c fn lp args rp _ _ _ _ ge (by decide) hp]; rfl
  · rw [show "writer:" ++ "writeToLowerFunction" = "writer:writeToLowerFunction" by decide,
      runWriter_eq _ _ _ _ _ writer_ir_tolower, ← st0, writer_run we c fn lp args rp _ _ _ _ g1 (by decide) hp]; rfl
  · rw [show "writer:" ++ "writeToUpperFunction" = "writer:writeToUpperFunction" by decide,
      runWriter_eq _ _ _ _ _ writer_ir_toupper, ← st0, writer_run we c fn lp args rp _ _ _ _ g1 (by decide) hp]; rfl

theorem core_call (we : Ctx → Expr → M (List Chunk)) (c : Ctx) (fn : Ident) (lp : Span) (args : ExprList) (rp : Span)
    (H : Agrees we c (Expr.call fn lp args rp).size) (hg : c.mode = .join → (Expr.call fn lp args rp).Good) :
    execBlock (stepSem we) weIR.tail (st0 c (.call fn lp args rp)) >>= finish =
      liftW (writeExpr c (.call fn lp args rp)) := by
  have hp1 : plainAll (stepSem we) c args = liftW (writeList c args) :=
    plainAll_eq (stepSem we) c args (fun z hz hgz => H z (by simp [Expr.size]; omega) hgz) hg
  have hp2 : plainAll (innerSem we) c args = liftW (writeList c args) :=
    plainAll_eq (innerSem we) c args (fun z hz hgz => H z (by simp [Expr.size]; omega) hgz) hg
  cases hk : knownFunction fn.name with
  | none =>
    rw [C01T.C01_call_default_template c fn args lp rp hk]
    cases hw : writeList c args <;>
      xe_simp [weIR, X, st0, callCase, finish, hk, runTemplate, hp1, hw] <;> tmpl_done
  | some wn =>
    obtain ⟨w, np⟩ := wn
    have hw := known_names fn.name w np hk
    rw [C01T.C01_call_known_template c fn args lp rp w np hk hw]
    have hke := known_eq we c fn lp args rp w hw hp2
    generalize (if arityRejects w args.length = true then (Except.error WErr.err : W)
      else writeList c args >>= fun as => Tmpl.interp (Tmpl.argsEnv (args.toList.zip as)) (Tmpl.templateOf w)) = r at hke ⊢
    cases r <;> xe_simp [weIR, X, st0, callCase, finish, hk, stepSem_known, hke]

/-! ### all cases; the recursion -/

/-- **one unfolding of `writeExpression`**: if the callee `we` agrees with the model on every expression
    smaller than `e`, then the interpretation of the regenerated body of `writeExpression` — the unwrapping
    loop, the type switch, every case; with the interpretations of `writeExpressionMaybeParen`,
    `writeExpressionTight`, `hasJoinTerms` and the `write*Function` rewrites as callees — agrees with the
    model on `e`: same chunks, same error, never stuck -/
theorem C01_writeExpression_step (we : Ctx → Expr → M (List Chunk)) (c : Ctx) (e : Expr)
    (H : Agrees we c e.size) (hg : c.mode = .join → e.Good) :
    interpWriteStep we c e = liftW (writeExpr c e) := by
  change runWriter (stepSem we) "writeExpression" c e = _
  rw [runWriter_eq _ _ weIR _ _ we_ir]
  have h : weIR = .unparen "x" "p" "ok" "ParenExpr" "X" :: weIR.tail := rfl
  rw [h, exec_unparen_x, ← writeExpr_unparen]
  have hsz := size_unparen e
  have H' : Agrees we c (unparen e).size := fun x hx hgx => H x (by omega) hgx
  have hg' : c.mode = .join → (unparen e).Good := fun h => good_unparen e (hg h)
  have hnp := unparen_notParen e
  show execBlock (stepSem we) weIR.tail (st0 c (unparen e)) >>= finish = _
  generalize unparen e = u at H' hg' hnp
  cases u with
  | paren => simp [notParen] at hnp
  | nil => exact core_nil we c
  | qident ps => exact core_qident we c ps
  | lit sp k v => exact core_lit we c sp k v
  | unary sp op x => exact core_unary we c sp op x H' hg'
  | binary x sp op y => exact core_binary we c x sp op y H' hg'
  | inE x a b vals d => exact core_in we c x a b vals d H' hg'
  | call fn lp args rp => exact core_call we c fn lp args rp H' hg'
  | index x a idx b => exact core_index we c x a idx b H' hg'

theorem fuel_eq : ∀ (n : Nat) (c : Ctx) (e : Expr), e.size < n → (c.mode = .join → e.Good) →
    interpWriteFuel n c e = liftW (writeExpr c e)
  | 0, _, _, h, _ => absurd h (Nat.not_lt_zero _)
  | n + 1, c, e, h, hg => by
    rw [interpWriteFuel]
    exact C01_writeExpression_step _ c e (fun x hx hgx => fuel_eq n c x (by omega) hgx) hg

/-- **C01 / C13 (`writeExpression` is translated code).**  For every context (any scope, any of the three
    modes) and every expression of any depth — outside join mode also with nil sub-expressions — the
    interpretation of the IR regenerated from `writeExpression` and everything it calls is the model's
    `writeExpr`: the same chunks, or the same failure (error / panic), first failure first; never `stuck`.
    In join mode `hasJoinTerms` walks the operands of `==`, and `Walk` panics on a nil sub-expression
    where the model does not (`C01_writeExpression_ir_needs_good`), hence the side condition there. -/
theorem C01_writeExpression_ir (c : Ctx) (e : Expr) (hg : c.mode = .join → e.Good) :
    interpWriteExpression c e = liftW (writeExpr c e) :=
  fuel_eq (e.size + 1) c e (Nat.lt_succ_self _) hg

theorem liftW_map {α β : Type} (r : Except WErr α) (f : α → β) : (liftW r).map f = liftW (r.map f) := by
  cases r <;> rfl

/-- `writeExpressionMaybeParen`, with `writeExpression` and its callees interpreted, is `wrapMaybe` after `writeExpr` -/
theorem C01_writeMaybeParen_ir (c : Ctx) (e : Expr) (hg : c.mode = .join → e.Good) :
    interpWriteMaybeParen c e = liftW ((writeExpr c e).map (wrapMaybe e)) := by
  unfold interpWriteMaybeParen
  rw [C01_maybeParen_ir, fuel_eq _ c (unparen e) (by have := size_unparen e; omega) (fun h => good_unparen e (hg h)),
    writeExpr_unparen, liftW_map]

/-- `writeExpressionTight`, likewise, is `wrapTight` after `writeExpr` -/
theorem C01_writeTight_ir (c : Ctx) (e : Expr) (hg : c.mode = .join → e.Good) :
    interpWriteTight c e = liftW ((writeExpr c e).map (wrapTight e)) := by
  unfold interpWriteTight
  rw [C01_tight_ir, fuel_eq _ c (unparen e) (by have := size_unparen e; omega) (fun h => good_unparen e (hg h)),
    writeExpr_unparen, liftW_map]

/-- outside join mode there is no side condition -/
theorem C01_writeExpression_ir_nonjoin (c : Ctx) (e : Expr) (hm : c.mode ≠ .join) :
    interpWriteExpression c e = liftW (writeExpr c e) :=
  C01_writeExpression_ir c e (fun h => absurd h hm)

/-! ### the side condition is needed, and is satisfiable -/

def joinCtx : Ctx := ⟨[], [], .join⟩

/-- `<nil> == $left.x` in join mode: Go's `hasJoinTerms` panics in `Walk`, the model writes the comparison -/
theorem C01_writeExpression_ir_needs_good :
    interpWriteExpression joinCtx Glue.nilEq = .error (.go .panic) ∧ (writeExpr joinCtx Glue.nilEq).toBool = true := by
  constructor
  · have hj : interpHasJoinTerms .nil = .error (.go .panic) := by
      unfold interpHasJoinTerms
      rw [hasJoin_ir]
      have hp : WalkEvent.panic ∈ Pql.walk (fun _ => true) (.expr .nil) := by decide
      xe_simp [hasJoinIR, X, hp]
    show interpWriteStep _ joinCtx Glue.nilEq = _
    change runWriter (stepSem _) "writeExpression" joinCtx Glue.nilEq = _
    rw [runWriter_eq _ _ weIR _ _ we_ir]
    have h : weIR = .unparen "x" "p" "ok" "ParenExpr" "X" :: weIR.tail := rfl
    rw [h, exec_unparen_x]
    xe_simp [weIR, X, binaryCase, CtxMode, Glue.nilEq, unparen, joinCtx, tok_eq, stepSem_hasJoin, hj]
  · decide

/-- non-vacuity: `f($left.x, -(y)) == $right.x` in join mode satisfies the side condition; both sides write
    the plain comparison -/
theorem C01_writeExpression_ir_nonvacuous :
    (joinCtx.mode = .join → Glue.sample.Good) ∧
    interpWriteExpression joinCtx Glue.sample = liftW (writeExpr joinCtx Glue.sample) ∧
    (writeExpr joinCtx Glue.sample).toBool = true :=
  ⟨fun _ => Glue.sample_good, C01_writeExpression_ir _ _ (fun _ => Glue.sample_good), by decide⟩

end Pql.ExprIR
