/-
Property C13, exactness: the compiler model fails with a compile error exactly when the
misuse specification (`Spec/Misuse.lean`) holds, and never panics.

* `C13_exact_expr`, `C13_exact_conds`, `C13_exact_tabular`: the stages (expressions, join
  conditions, one query);
* `C13_exact`: `compileChunks` on well-formed statements;
* `C13_parsed_wf`, `C13_parsed_spans`: both hypotheses of `C13_exact` hold for every
  error-free parse;
* `C13_exact_source`: `compile` on source text, without hypothesis.

Well-formedness (`Exact.wfStmt`, decidable) is *not* implied by `Stmt.Good` (see the three
witnesses at the end, none of which an error-free parse produces):
* every binary operator is one the compiler translates (`opsKnown`);
* a tabular expression is not nil, `top` has its column, a `let` has its name;
* a join flavour is absent or one of `inner`, `innerunique`, `leftouter`;
* extend / summarize columns have an expression.
`Exact.SpansInside src stmts` (decidable): the expression span of every unnamed extend /
summarize column lies inside the source, so that the implicit column name can be sliced.
-/
import PqlModel.Lemmas.ExactStmts
import PqlModel.Lemmas.ExactParse
import PqlModel.Lemmas.ExactSpanOps
namespace Pql.C13
open Pql Pql.Exact

/-- **C13 exactness, expressions.**  In every mode (`default ↦ plain`, `join ↦ join`,
    `let_ ↦ letValue`) and for every scope, `writeExpression` succeeds exactly when the expression
    breaks no documented rule, fails with a compile error exactly when it does, and never panics.
    `opsKnown e`: every binary operator in `e` is one of those the compiler translates (all the
    parser produces). -/
theorem C13_exact_expr (src : Bytes) (scope : List (Bytes × List Chunk)) (mode : Mode) (e : Expr)
    (hops : opsKnown e = true) :
    ((∃ cs, writeExpr ⟨src, scope, mode⟩ e = .ok cs) ↔
        Misuse.badExpr (posOf mode) (scope.map (·.1)) e = false) ∧
    (writeExpr ⟨src, scope, mode⟩ e = .error .err ↔
        Misuse.badExpr (posOf mode) (scope.map (·.1)) e = true) ∧
    writeExpr ⟨src, scope, mode⟩ e ≠ .error .panic :=
  have h := writeExpr_agrees ⟨src, scope, mode⟩ e hops
  ⟨h.ok_iff, h.err_iff, h.ne_panic⟩

/-- **C13 exactness, join conditions.**  The condition built from the `on` list translates (in
    join mode) exactly when no condition other than a bare key breaks a rule. -/
theorem C13_exact_conds (src : Bytes) (scope : List (Bytes × List Chunk)) (conds : ExprList)
    (hops : opsKnownList conds = true) :
    ((∃ cs, writeExpr ⟨src, scope, .join⟩ (buildJoinCondition conds) = .ok cs) ↔
        Misuse.badConds (scope.map (·.1)) conds = false) ∧
    writeExpr ⟨src, scope, .join⟩ (buildJoinCondition conds) ≠ .error .panic :=
  have h := buildJoin_agrees src scope conds hops
  ⟨h.ok_iff, h.ne_panic⟩

/-- **C13 exactness, one query.**  Splitting a well-formed tabular expression into subqueries and
    writing them (with the final scope, as `Compile` does after the statement loop) succeeds
    exactly when `Misuse.badTabular` is false, and never panics. -/
theorem C13_exact_tabular (src : Bytes) (scope : List (Bytes × List Chunk)) (t : Tabular)
    (hwf : wfTabular t = true) (hspans : spansTabular src t = true) :
    ((∃ cs, finishW src (scope, some t) = .ok cs) ↔ Misuse.badTabular (scope.map (·.1)) t = false) ∧
    finishW src (scope, some t) ≠ .error .panic :=
  have h := finish_agrees src scope t hwf hspans
  ⟨h.ok_iff, h.ne_panic⟩

/-- **C13 exactness.**  For well-formed statements whose implicit column names can be sliced
    from the source, the compiler model succeeds exactly when the program breaks no documented
    rule, fails with a compile error exactly when it breaks one, and never panics. -/
theorem C13_exact (src : Bytes) (params : List (Bytes × Bytes)) (stmts : List Stmt)
    (hwf : ∀ s ∈ stmts, wfStmt s = true) (hspans : SpansInside src stmts = true) :
    ((∃ cs, compileChunks src params stmts = .ok cs) ↔
        Misuse.misuse (params.map (·.1)) stmts = false) ∧
    (compileChunks src params stmts = .error .err ↔
        Misuse.misuse (params.map (·.1)) stmts = true) ∧
    compileChunks src params stmts ≠ .error .panic :=
  have h := compileChunks_agrees src params stmts hwf hspans
  ⟨h.ok_iff, h.err_iff, h.ne_panic⟩

/-- **C13 exactness, `Compile`.**  When the parsed statements are well-formed (as an error-free
    parse makes them), `Compile` fails exactly when the source does not parse or breaks a
    documented rule, and does not panic. -/
theorem C13_exact_compile (params : List (Bytes × Bytes)) (src : Bytes)
    (hwf : ∀ s ∈ (parse src).1, wfStmt s = true) (hspans : SpansInside src (parse src).1 = true) :
    (compile params src = .error ↔
        ((parse src).2 ≠ [] ∨ Misuse.misuse (params.map (·.1)) (parse src).1 = true)) ∧
    compile params src ≠ .panic := by
  have h := compileChunks_agrees src params (parse src).1 hwf hspans
  unfold compile
  simp only []
  cases he : (parse src).2 with
  | cons e es =>
    simp only [List.isEmpty_cons, Bool.not_false, if_true, ne_eq, reduceCtorEq, not_false_eq_true, true_or,
      and_self]
  | nil =>
    simp only [List.isEmpty_nil, Bool.not_true, Bool.false_eq_true, if_false, ne_eq, not_true_eq_false,
      false_or]
    cases hr : compileChunks src params (parse src).1 with
    | ok cs =>
      rw [hr] at h
      have hb : Misuse.misuse (params.map (·.1)) (parse src).1 = false := h
      simp only [hb, reduceCtorEq, Bool.false_eq_true, not_false_eq_true, and_self]
    | error e =>
      rw [hr] at h
      cases e with
      | err =>
        have hb : Misuse.misuse (params.map (·.1)) (parse src).1 = true := h
        simp only [hb, reduceCtorEq, not_false_eq_true, and_self]
      | panic => exact absurd h id

/-- **The well-formedness hypothesis holds for every error-free parse.** -/
theorem C13_parsed_wf (srcLen : Nat) (ts : List Token) (stmts : List Stmt)
    (h : parseTokens srcLen ts = (stmts, [])) : ∀ s ∈ stmts, wfStmt s = true :=
  parseTokens_wf h

/-- **The span hypothesis holds for every error-free parse.** -/
theorem C13_parsed_spans (src : Bytes) (stmts : List Stmt) (h : parse src = (stmts, [])) :
    SpansInside src stmts = true :=
  parse_spansInside h

/-- **C13 exactness for `Compile` on source text** (no hypothesis).  `Compile` fails exactly when
    the source does not parse or the parsed program breaks a documented rule; otherwise it
    returns SQL; it never panics. -/
theorem C13_exact_source (params : List (Bytes × Bytes)) (src : Bytes) :
    (compile params src = .error ↔
        ((parse src).2 ≠ [] ∨ Misuse.misuse (params.map (·.1)) (parse src).1 = true)) ∧
    ((∃ sql, compile params src = .ok sql) ↔
        ((parse src).2 = [] ∧ Misuse.misuse (params.map (·.1)) (parse src).1 = false)) ∧
    compile params src ≠ .panic := by
  cases he : (parse src).2 with
  | nil =>
    have hp : parse src = ((parse src).1, []) := by rw [← he]
    have hp' : parseTokens src.length (scan src) = ((parse src).1, []) := hp
    have h := compileChunks_agrees src params (parse src).1 (parseTokens_wf hp') (parse_spansInside hp)
    unfold compile
    simp only [he, List.isEmpty_nil, Bool.not_true, Bool.false_eq_true, if_false, ne_eq, not_true_eq_false,
      false_or, true_and]
    cases hr : compileChunks src params (parse src).1 with
    | ok cs =>
      rw [hr] at h
      have hb : Misuse.misuse (params.map (·.1)) (parse src).1 = false := h
      simp only [hb, reduceCtorEq, Bool.false_eq_true, not_false_eq_true, and_true,
        CompileResult.ok.injEq, exists_eq']
    | error e =>
      rw [hr] at h
      cases e with
      | err =>
        have hb : Misuse.misuse (params.map (·.1)) (parse src).1 = true := h
        simp only [hb, reduceCtorEq, not_false_eq_true, and_true, Bool.true_eq_false, exists_false]
      | panic => exact absurd h id
  | cons e es =>
    unfold compile
    simp only [he, List.isEmpty_cons, Bool.not_false, if_true, ne_eq, reduceCtorEq, not_false_eq_true,
      true_or, false_and, exists_false, and_self]

/-! ### `Stmt.Good` alone is not enough: three trees (none of them the result of an error-free parse)

On each of them every statement is `Good`, the spans are irrelevant (no unnamed column), and the
model and the specification disagree.  They are excluded by `wfStmt`. -/

def wIdent (s : String) : Ident := ⟨Bytes.ofString s, .zero, false⟩

/-- (a) `T | where $left . 1` with `.` as a *binary operator*: the compiler writes
    `NULL /* unhandled … */` without looking at the operands, the specification sees `$left` -/
def witnessOp : List Stmt :=
  [.tabular (.mk (some (wIdent "T")) (.cons (.where_ .zero .zero
    (.binary (.qident [wIdent "$left"]) .zero .dot (.lit .zero .number (Bytes.ofString "1")))) .nil))]

/-- (b) `T | join kind=fullouter (U) on k`: the compiler rejects the flavour (the parser reports
    it first), the specification has no such rule -/
def witnessFlavor : List Stmt :=
  [.tabular (.mk (some (wIdent "T")) (.cons (.join .zero .zero .zero .zero (some (wIdent "fullouter")) .zero
    (.mk (some (wIdent "U")) .nil) .zero .zero (.cons (.qident [wIdent "k"]) .nil)) .nil))]

/-- (c) `T | extend $left` as a column *without expression* (only `project` has those): the
    compiler writes `NULL /* unhandled <nil> expression */`, the specification reads the name as
    the expression -/
def witnessExtend : List Stmt :=
  [.tabular (.mk (some (wIdent "T")) (.cons (.extend .zero .zero [⟨some (wIdent "$left"), .zero, .nil⟩]) .nil))]

theorem witnessOp_good : ∀ s ∈ witnessOp, Stmt.Good s := by
  intro s hs
  simp only [witnessOp, List.mem_singleton] at hs
  subst hs
  simp [Stmt.Good, Tabular.Good, OpList.Good, Op.Good, Expr.Good]

theorem witnessFlavor_good : ∀ s ∈ witnessFlavor, Stmt.Good s := by
  intro s hs
  simp only [witnessFlavor, List.mem_singleton] at hs
  subst hs
  simp [Stmt.Good, Tabular.Good, OpList.Good, Op.Good, Expr.Good, ExprList.Good]

theorem witnessExtend_good : ∀ s ∈ witnessExtend, Stmt.Good s := by
  intro s hs
  simp only [witnessExtend, List.mem_singleton] at hs
  subst hs
  simp [Stmt.Good, Tabular.Good, OpList.Good, Op.Good, Expr.OptGood]

theorem witnessOp_disagrees :
    (∃ cs, compileChunks [] [] witnessOp = .ok cs) ∧ Misuse.misuse [] witnessOp = true :=
  ⟨⟨_, rfl⟩, by decide⟩

theorem witnessFlavor_disagrees :
    compileChunks [] [] witnessFlavor = .error .err ∧ Misuse.misuse [] witnessFlavor = false :=
  ⟨rfl, by decide⟩

theorem witnessExtend_disagrees :
    (∃ cs, compileChunks [] [] witnessExtend = .ok cs) ∧ Misuse.misuse [] witnessExtend = true :=
  ⟨⟨_, rfl⟩, by decide⟩

end Pql.C13
