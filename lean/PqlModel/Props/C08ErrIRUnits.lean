/-
Property C08 (and C07, C10), tie by translation: the parser's error algebra, level 1 — the regenerated
bodies of `joinErrors`, `makeErrorOpaque`, `isNotFound` (`Facts.errIR`, translator `harness/extract_err.go`),
interpreted on Go error VALUES (`Model/ErrIR.lean`), compute the three value-level functions

  `goJoin`     flatten the `Unwrap() []error` arguments one level, drop nil, `errors.Join` (nil if nothing is left)
  `goOpaque`   nil ↦ nil; `*parseError` ↦ a copy whose `err` is wrapped in `opaqueError`; a `multiUnwrapper` ↦
               `errors.Join` of its elements, each wrapped; anything else ↦ wrapped
  `errorsAsI m "notFoundError"`

for EVERY argument and whatever the package's types unwrap (`m : Methods`): never a panic, never `stuck`.
`Props/C08ErrIRAlgebra.lean` relates these functions to the model's `++` / `mkOpaque` / `isNF`.
-/
import PqlModel.Model.ErrIR
namespace Pql.ErrIR
open Pql
set_option linter.unusedSimpArgs false

/-! ### the regenerated units, decoded -/

def joinBody : List Stmt :=
  [.ite (.isNil (.var "err")) [.continue_] [],
   .assert "unwrapper" "ok" "err" "multiUnwrapper",
   .ite (.truth "ok")
     [.set "errorList" (.appendAll (.var "errorList") (.munwrap (.var "unwrapper")))]
     [.set "errorList" (.append1 (.var "errorList") (.var "err"))]]

def joinErrorsIR : List Stmt :=
  [.varDecl "errorList" "[]error",
   .range "_" "err" "args" joinBody,
   .ite (.lenEq0 "errorList") [.ret .nil] [],
   .ret (.errorsJoin (.var "errorList"))]

def opaqueLoopBody : List Stmt := [.setIdx "errorList" "i" (.opaque (.var "err"))]

def opaquePerrCase : List Stmt :=
  [.def_ "e" (.var "err"),
   .def_ "err2" (.new "parseError"),
   .copy "err2" "e",
   .fset "err2" "err" (.opaque (.fld "e" "err")),
   .ret (.var "err2")]

def opaqueMultiCase : List Stmt :=
  [.def_ "e" (.var "err"),
   .def_ "errorList" (.clone (.munwrap (.var "e"))),
   .range "i" "err" "errorList" opaqueLoopBody,
   .ret (.errorsJoin (.var "errorList"))]

def opaqueDefaultCase : List Stmt := [.def_ "e" (.var "err"), .ret (.opaque (.var "err"))]

def makeErrorOpaqueIR : List Stmt :=
  [.ite (.isNil (.var "err")) [.ret .nil]
     [.ite (.dyn "err" "*parseError") opaquePerrCase
        [.ite (.impl "err" "multiUnwrapper") opaqueMultiCase opaqueDefaultCase]]]

def isNotFoundIR : List Stmt := [.ret (.errorsAs "notFoundError" (.var "err"))]

/-- `joinErrors` as it is in parser.go now -/
theorem joinErrors_ir :
    (irOf "joinErrors").map (fun x => (x.1, x.2.1, decode x.2.2)) =
      some (["args"], "func(...error)error", some joinErrorsIR) := by rfl

/-- `makeErrorOpaque` as it is in parser.go now (the type switch as the if-else chain of its cases, in
    source order: nil, `*parseError`, `multiUnwrapper`, default) -/
theorem makeErrorOpaque_ir :
    (irOf "makeErrorOpaque").map (fun x => (x.1, x.2.1, decode x.2.2)) =
      some (["err"], "func(error)error", some makeErrorOpaqueIR) := by rfl

/-- `isNotFound` as it is in parser.go now -/
theorem isNotFound_ir :
    (irOf "isNotFound").map (fun x => (x.1, x.2.1, decode x.2.2)) =
      some (["err"], "func(error)bool", some isNotFoundIR) := by rfl

/-- the error types of package parser as they are now: `*parseError` and `notFoundError` unwrap to their `err`
    field, `opaqueError` (an embedded `error`, no method of its own) does not unwrap, `multiUnwrapper` is
    `interface { Unwrap() []error }`; no `As`, no `Is` -/
theorem errTypes_ir : decodeTypes Facts.errTypes = some ⟨true, true, false⟩ := by rfl

theorem goMethods_eq : goMethods = ⟨true, true, false⟩ := by rfl

def finish : Sig × Env → IM Val
  | (.ret x, _) => .ok x
  | _ => stuck

theorem interpFn_join (m : Methods) (arg : Val) :
    interpFn m "joinErrors" arg = execBlock m joinErrorsIR [("args", arg)] >>= finish := by rfl

theorem interpFn_opaque (m : Methods) (arg : Val) :
    interpFn m "makeErrorOpaque" arg = execBlock m makeErrorOpaqueIR [("err", arg)] >>= finish := by rfl

theorem interpFn_isNotFound (m : Methods) (arg : Val) :
    interpFn m "isNotFound" arg = execBlock m isNotFoundIR [("err", arg)] >>= finish := by rfl

/-! ### the value-level functions -/

/-- what one argument of `joinErrors` contributes to `errorList` -/
def piece : Option GoErr → List (Option GoErr)
  | none => []
  | some (.join es) => es.map some
  | some e => [some e]

/-- `joinErrors(args...)` on values -/
def goJoin (args : List (Option GoErr)) : Option GoErr := errorsJoin (args.flatMap piece)

/-- `makeErrorOpaque(err)` on values -/
def goOpaque : Option GoErr → Option GoErr
  | none => none
  | some (.perr s i) => some (.perr s (.opaque i))
  | some (.join es) => errorsJoin (es.map fun e => some (.opaque e))
  | some e => some (.opaque e)

/-! ### interpretation -/

theorem bind_ok {ε α β : Type} (a : α) (f : α → Except ε β) : (Except.ok a : Except ε α) >>= f = f a := rfl
theorem pure_ok {ε α : Type} (a : α) : (pure a : Except ε α) = .ok a := rfl

syntax "ei_simp" (" [" Lean.Parser.Tactic.simpLemma,* "]")? : tactic
macro_rules
  | `(tactic| ei_simp) => `(tactic| ei_simp [])
  | `(tactic| ei_simp [$ls,*]) =>
    `(tactic| simp [execBlock, exec, evalTm, evalCond, get, assign, assignIn, leave, asErr, asErrs, toIface, derefPerr,
        isMulti, dynType, finish, List.find?, bind_ok, pure_ok, goPanic, stuck, Except.map, bind, Except.bind, pure,
        Except.pure, $ls,*])

def Sig.isRet : Sig → Bool
  | .ret _ => true
  | _ => false

/-- one iteration of a `range` loop whose body does not return -/
theorem rangeLoop_step (body : Env → IM (Sig × Env)) (i x xs : String) (todo k : Nat) (env env1 : Env)
    (l : List (Option GoErr)) (e : Option GoErr) (sg : Sig)
    (hl : get env xs = .ok (.errs l)) (he : l[k]? = some e) (hs : sg.isRet = false)
    (hb : (body ((x, .err e) :: (i, .idx k) :: env)).map (leave env) = .ok (sg, env1)) :
    rangeLoop body i x xs (todo + 1) k env = rangeLoop body i x xs todo (k + 1) env1 := by
  cases hr : body ((x, .err e) :: (i, .idx k) :: env) with
  | error err => rw [hr] at hb; simp [Except.map] at hb
  | ok r =>
    rw [hr] at hb
    simp only [Except.map, Except.ok.injEq] at hb
    simp only [rangeLoop, hl, bind_ok, asErrs, he, hr, hb]
    cases sg with
    | ret v => simp [Sig.isRet] at hs
    | next => rfl
    | cont => rfl

/-! #### `joinErrors` -/

def joinEnv (acc args : List (Option GoErr)) : Env := [("errorList", .errs acc), ("args", .errs args)]

/-- the loop body: `continue` on nil, else append the elements of a `multiUnwrapper` or the error itself -/
theorem joinBody_step (m : Methods) (e : Option GoErr) (k : Nat) (acc args : List (Option GoErr)) :
    ∃ sg, sg.isRet = false ∧
      (execBlock m joinBody (("err", .err e) :: ("_", .idx k) :: joinEnv acc args)).map (leave (joinEnv acc args)) =
        .ok (sg, joinEnv (acc ++ piece e) args) := by
  cases e with
  | none => exact ⟨.cont, rfl, by ei_simp [joinBody, piece, joinEnv]⟩
  | some e => cases e <;> exact ⟨.next, rfl, by ei_simp [joinBody, piece, joinEnv]⟩

theorem join_loop (m : Methods) (args : List (Option GoErr)) :
    ∀ (todo k : Nat) (acc : List (Option GoErr)), k + todo = args.length →
      rangeLoop (execBlock m joinBody) "_" "err" "args" todo k (joinEnv acc args) =
        .ok (.next, joinEnv (acc ++ (args.drop k).flatMap piece) args)
  | 0, k, acc, h => by
    have : args.drop k = [] := List.drop_eq_nil_of_le (by omega)
    rw [this, List.flatMap_nil, List.append_nil]
    rfl
  | todo + 1, k, acc, h => by
    have hk : k < args.length := by omega
    obtain ⟨sg, hs, hb⟩ := joinBody_step m args[k] k acc args
    rw [rangeLoop_step _ _ _ _ todo k _ _ args args[k] sg (by simp [joinEnv, get, List.find?]) (by simp [hk]) hs hb,
      join_loop m args todo (k + 1) _ (by omega)]
    have hd : args.drop k = args[k] :: args.drop (k + 1) := (List.getElem_cons_drop hk).symm
    rw [hd, List.flatMap_cons, List.append_assoc]

theorem errorsJoin_nil_of_isEmpty (l : List (Option GoErr)) (h : l.isEmpty = true) : errorsJoin l = none := by
  cases l with
  | nil => rfl
  | cons _ _ => simp at h

theorem join_st1 (m : Methods) (args : List (Option GoErr)) :
    exec m (.varDecl "errorList" "[]error") [("args", .errs args)] = .ok (.next, joinEnv [] args) := by
  ei_simp [joinEnv]

theorem join_st2 (m : Methods) (args : List (Option GoErr)) :
    exec m (.range "_" "err" "args" joinBody) (joinEnv [] args) = .ok (.next, joinEnv (args.flatMap piece) args) := by
  have hloop := join_loop m args args.length 0 [] (by omega)
  simp only [List.drop_zero, List.nil_append] at hloop
  ei_simp [joinEnv]
  simpa [joinEnv] using hloop

theorem join_st34 (m : Methods) (acc args : List (Option GoErr)) :
    execBlock m [.ite (.lenEq0 "errorList") [.ret .nil] [], .ret (.errorsJoin (.var "errorList"))] (joinEnv acc args)
      >>= finish = .ok (.err (errorsJoin acc)) := by
  cases he : acc.isEmpty with
  | true => ei_simp [joinEnv, he, errorsJoin_nil_of_isEmpty _ he]
  | false => ei_simp [joinEnv, he]

theorem execBlock_cons_next (m : Methods) (s : Stmt) (r : List Stmt) (env env1 : Env)
    (h : exec m s env = .ok (.next, env1)) : execBlock m (s :: r) env = execBlock m r env1 := by
  simp only [execBlock, h, bind_ok]

theorem interpFn_join_eq (m : Methods) (args : List (Option GoErr)) :
    interpFn m "joinErrors" (.errs args) = .ok (.err (goJoin args)) := by
  rw [interpFn_join, joinErrorsIR, execBlock_cons_next _ _ _ _ _ (join_st1 m args),
    execBlock_cons_next _ _ _ _ _ (join_st2 m args), join_st34]
  rfl

/-- **`joinErrors` is translated code**: for every argument list (nil entries, joins, anything) and every
    method table the interpretation of the regenerated body returns `goJoin args` -/
theorem joinErrors_interp (m : Methods) (args : List (Option GoErr)) :
    interpJoinErrors m args = .ok (goJoin args) := by
  simp only [interpJoinErrors, interpFn_join_eq, bind_ok, toIface]

/-! #### `makeErrorOpaque` -/

def so (e : GoErr) : Option GoErr := some (.opaque e)

def oEnv (l : List (Option GoErr)) (tail : Env) : Env := ("errorList", .errs l) :: tail

theorem opaque_list_get (pre : List GoErr) (r : GoErr) (rs : List GoErr) :
    (pre.map so ++ (r :: rs).map some)[pre.length]? = some (some r) := by
  simp [List.getElem?_append_right]

theorem opaque_list_set (pre : List GoErr) (r : GoErr) (rs : List GoErr) :
    (pre.map so ++ (r :: rs).map some).set pre.length (so r) = (pre ++ [r]).map so ++ rs.map some := by
  simp [List.set_append_right]

/-- the loop body `errorList[i] = opaqueError{err}` -/
theorem opaqueBody_step (m : Methods) (pre : List GoErr) (r : GoErr) (rs : List GoErr) (tail : Env) :
    (execBlock m opaqueLoopBody
        (("err", .err (some r)) :: ("i", .idx pre.length) :: oEnv (pre.map so ++ (r :: rs).map some) tail)).map
        (leave (oEnv (pre.map so ++ (r :: rs).map some) tail)) =
      .ok (.next, oEnv ((pre ++ [r]).map so ++ rs.map some) tail) := by
  have hs := opaque_list_set pre r rs
  simp only [so] at hs
  ei_simp [opaqueLoopBody, oEnv, so, hs]

theorem opaque_loop (m : Methods) (tail : Env) :
    ∀ (rest pre : List GoErr),
      rangeLoop (execBlock m opaqueLoopBody) "i" "err" "errorList" rest.length pre.length
          (oEnv (pre.map so ++ rest.map some) tail) =
        .ok (.next, oEnv ((pre ++ rest).map so) tail)
  | [], pre => by simp [rangeLoop]
  | r :: rs, pre => by
    have ih := opaque_loop m tail rs (pre ++ [r])
    simp only [List.length_append, List.length_cons, List.length_nil, Nat.zero_add, List.append_assoc,
      List.cons_append, List.nil_append] at ih
    rw [List.length_cons, rangeLoop_step _ _ _ _ rs.length pre.length _ _ _ (some r) .next
      (by simp [oEnv, get, List.find?]) (opaque_list_get pre r rs) rfl (opaqueBody_step m pre r rs tail)]
    exact ih

theorem interpFn_opaque_eq (m : Methods) (e : Option GoErr) :
    interpFn m "makeErrorOpaque" (.err e) >>= toIface = .ok (goOpaque e) := by
  rw [interpFn_opaque]
  cases e with
  | none => ei_simp [makeErrorOpaqueIR, goOpaque]
  | some e =>
    cases e with
    | perr s i => ei_simp [makeErrorOpaqueIR, opaquePerrCase, goOpaque]
    | join es =>
      have hloop := opaque_loop m [("e", .err (some (.join es))), ("err", .err (some (.join es)))] es []
      simp only [List.map_nil, List.nil_append, List.length_nil] at hloop
      ei_simp [makeErrorOpaqueIR, opaqueMultiCase, goOpaque]
      simp only [oEnv] at hloop
      simp [hloop]
      rfl
    | plain => ei_simp [makeErrorOpaqueIR, opaqueDefaultCase, goOpaque]
    | nf i => ei_simp [makeErrorOpaqueIR, opaqueDefaultCase, goOpaque]
    | «opaque» i => ei_simp [makeErrorOpaqueIR, opaqueDefaultCase, goOpaque]
    | wrapW i => ei_simp [makeErrorOpaqueIR, opaqueDefaultCase, goOpaque]

/-- **`makeErrorOpaque` is translated code**: for every error value (nil included) and every method table
    the interpretation of the regenerated body returns `goOpaque e` -/
theorem makeErrorOpaque_interp (m : Methods) (e : Option GoErr) :
    interpMakeErrorOpaque m e = .ok (goOpaque e) := by
  simp only [interpMakeErrorOpaque, interpFn_opaque_eq]

/-! #### `isNotFound` -/

/-- **`isNotFound` is translated code**: `errors.As(err, new(notFoundError))` -/
theorem isNotFound_interp (m : Methods) (e : Option GoErr) :
    interpIsNotFound m e = .ok (errorsAsI m nfType e) := by
  simp only [interpIsNotFound, interpFn_isNotFound]
  cases e <;> ei_simp [isNotFoundIR, nfType]

end Pql.ErrIR
