/-
Property C16, tie by translation: the WHOLE input path of cmd/pql, from the argument list to what is printed.

Props/C16IOIR*.lean prove ONE call of the regenerated `(*multiReadCloser).Read` to be `CliIO.multiRead`, `makeInput` to be
`CliIO.makeInput`, Props/C16RunIR.lean the regenerated `run` to be `cliRun` on the lines it is given.  Here they are
iterated and composed:

1. `C16_Read_ir_iterated`  calling the interpreted `Read` until it reports `io.EOF` or an error (`drainIR`) = the model's
   drain `CliIO.inputStream` = (`C16_multi_concat`) the concatenation of the readers' data up to and including the first
   failing reader, for every heap / reader list satisfying the hypotheses of `C16_Read_ir_heap`, every chunking; the readers
   before the first failing one have been dropped, exactly the files among them closed, once each, in order; an object
   behind a `nopReadCloser` (standard input) is never closed.  `C16_Read_ir_iterated_steps`: the same for ANY number of
   calls (`CliIO.drain multiRead k`).  `C16_Read_ir_iterated_then_Close`: the interpreted `Close` afterwards closes the
   rest, so in total every file exactly once, in list order.
2. `C16_main_pipeline_ir`  `runE` — the closure `RunE` of `main` with the regenerated `makeInput`, `makeOutput`, `Read`,
   `Close`, `run` interpreted — prints, for every argument list, file system, standard-input script and chunking, what the
   specification `CliSpec.run` says on the lines of the concatenated bytes; `C16_main_pipeline_ir_closed` in the closed form
   of `C16_main_spec_bytes`, `C16_main_pipeline_ir_semantics` with the library's `Compile` (`C16_cli_semantics`).
3. examples (two files and `-`; `os.Open` failing in the middle; a read error midway) and a counterexample for every
   hypothesis.

WHAT IS STILL A MODEL FUNCTION, not interpreted IR (Lemmas/CliStreamIRMain.lean, Lemmas/CliStreamIR.lean):
  * `runE` / `runRest`: the closure `RunE` (cmd/pql/main.go lines 33-52) is transcribed by hand (its statements are calls of
    the interpreted units); `bindInput`, `readInput`, `closeInput`: Go's dynamic dispatch of `input.Read` / `input.Close`
    to `*multiReadCloser` (regenerated bodies) or to a plain `*os.File` / `nopReadCloser` (the heap object itself);
  * `drainM` + `bufioLines`: `bufio.Scanner` — it calls `input.Read` until `io.EOF` or an error and keeps every byte
    (`drainM`), then cuts lines (`Model/Cli.lean`); here ALL of the input is read before the first line is processed and
    the scanner's 100-empty-reads limit is not modelled (as in `CliIO.drain`);
  * inside `run`: `parser.SplitStatements`, `parser.Scan` are the model's functions, `pql.Compile` is the parameter
    `compile` (`CliIR.modelLib`); `output.Close()` is taken to succeed; `isTerminal(input)` only prints a nudge.
New specification-level definitions: `nConsumed`, `pending` (Lemmas/CliStreamIR.lean), `clean`, `nops`, `Shape`, `RDen`
(Lemmas/CliStreamIRDen.lean), `outputFails`, `createdBy`, `nOpened`, `InputOK` (Lemmas/CliStreamIRMain.lean), `streamBound`,
`inputBytes`, `expected` (here).
-/
import PqlModel.Lemmas.CliStreamIRMain
import PqlModel.Props.C16Semantics
namespace Pql.StreamIR
open Pql Pql.CliIO Pql.CliIOIR
set_option linter.unusedSimpArgs false

/-! ## 1. iterating `Read` -/

theorem handles_mem : ∀ (l : List (Option RC)) (rc : RC), some rc ∈ l → rc.h ∈ handles l
  | none :: l, rc, h => by simpa [handles] using handles_mem l rc (by simpa using h)
  | some x :: l, rc, h => by
    rcases List.mem_cons.mp h with he | hm
    · simp at he; simp [handles, he]
    · simp [handles, handles_mem l rc hm]

theorem fileHandles_subset : ∀ (l : List (Option RC)) (h : Nat), h ∈ fileHandles l → h ∈ handles l
  | none :: l, h, hm => by simpa [handles] using fileHandles_subset l h (by simpa [fileHandles] using hm)
  | some ⟨_, true⟩ :: l, h, hm => by
    simp only [handles, List.mem_cons]; exact Or.inr (fileHandles_subset l h (by simpa [fileHandles] using hm))
  | some ⟨h', false⟩ :: l, h, hm => by
    simp only [fileHandles, List.mem_cons] at hm
    simp only [handles, List.mem_cons]
    exact hm.imp id (fileHandles_subset l h)

theorem fileHandles_nodup : ∀ (l : List (Option RC)), (handles l).Nodup → (fileHandles l).Nodup
  | [], _ => by simp [fileHandles]
  | none :: l, h => by simpa [fileHandles] using fileHandles_nodup l (by simpa [handles] using h)
  | some ⟨_, true⟩ :: l, h => by
    simp only [handles, List.nodup_cons] at h
    simpa [fileHandles] using fileHandles_nodup l h.2
  | some ⟨h', false⟩ :: l, h => by
    simp only [handles, List.nodup_cons] at h
    simp only [fileHandles, List.nodup_cons]
    exact ⟨fun hm => h.1 (fileHandles_subset l h' hm), fileHandles_nodup l h.2⟩

/-- with no object twice in the list, the object behind a `nopReadCloser` is not among the files that get closed -/
theorem nop_not_closed : ∀ (l : List (Option RC)), (handles l).Nodup → ∀ h, some ⟨h, true⟩ ∈ l → h ∉ fileHandles l
  | none :: l, hn, h, hm => by
    simpa [fileHandles] using nop_not_closed l (by simpa [handles] using hn) h (by simpa using hm)
  | some ⟨h', true⟩ :: l, hn, h, hm => by
    simp only [handles, List.nodup_cons] at hn
    simp only [fileHandles]
    rcases List.mem_cons.mp hm with he | hm
    · simp at he; subst he
      exact fun hf => hn.1 (fileHandles_subset l h hf)
    · exact nop_not_closed l hn.2 h hm
  | some ⟨h', false⟩ :: l, hn, h, hm => by
    simp only [handles, List.nodup_cons] at hn
    have hm' : some ⟨h, true⟩ ∈ l := by simpa using hm
    simp only [fileHandles, List.mem_cons, not_or]
    refine ⟨fun he => hn.1 (he ▸ handles_mem l ⟨h, true⟩ hm'), nop_not_closed l hn.2 h hm'⟩

theorem nConsumed_noFail : ∀ (rs : List Reader), (concatContents rs).2 = false → nConsumed rs = rs.length
  | [], _ => rfl
  | r :: rs, h => by
    simp only [concatContents] at h
    cases hf : (Reader.content r).2 with
    | true => simp [hf] at h
    | false =>
      simp only [hf, Bool.false_eq_true, if_false] at h
      have ih := nConsumed_noFail rs h
      simp only [nConsumed] at ih ⊢
      simp [List.takeWhile, hf, ih]

/-- **C16 (`Read` iterated), any number of calls.**  Under the hypotheses of `C16_Read_ir_heap` (the reader values denote
    the scripts `rs`: no nil entry, no dangling handle, no object twice; loop fuel above the number of readers), `k`
    successive calls of the regenerated `Read` — stopping at the first `io.EOF` or error — deliver what `k` calls of the
    model's `multiRead` deliver (`CliIO.drain`): the same bytes, the same ending; the world afterwards again satisfies the
    hypotheses, for what the model's drain leaves; the reader values dropped are a prefix `d` of the list and exactly the
    files among them have been closed, in order. -/
theorem C16_Read_ir_iterated_steps (env : Env) (fuel k : Nat) (w : State) (rs : List Reader)
    (hd : denote w.objs w.readers = some rs) (hn : (handles w.readers).Nodup) (hf : w.readers.length < fuel) :
    ∃ w' d, drainIR env fuel k w = .ok ((drain multiRead k rs).1, (drain multiRead k rs).2, w') ∧
      denote w'.objs w'.readers = some (drainSt multiRead k rs).2.2 ∧ (handles w'.readers).Nodup ∧
      w.readers = d ++ w'.readers ∧ w'.closed = w.closed ++ fileHandles d ∧ w'.created = w.created := by
  obtain ⟨w', d, h1, h2, h3, h4, h5, _⟩ := drainIR_of_inv inv_denote env fuel k w rs ⟨hd, hn⟩ hf
  have hdr := drainSt_drain multiRead k rs
  refine ⟨w', d, ?_, h2.1, h2.2, h3, h4, h5⟩
  rw [h1, ← hdr]

/-- **C16 (`Read` iterated to the end = the concatenation).**  Under the hypotheses of `C16_Read_ir_heap`, with at least
    `totalResults rs + 1` calls allowed: calling the regenerated `Read` until it reports `io.EOF` or an error collects
    exactly the bytes of the model's drain `CliIO.inputStream rs`, which are (`C16_multi_concat`) the contents of the
    readers, in order, up to and including the first reader that fails, with the ending `io.EOF` iff none fails — for
    every chunking of the readers' data.  Afterwards the `nConsumed rs` readers before the first failing one have been
    dropped from `mrc.readers`, exactly the files among them have been closed (`Close` reached the file: `State.closed`),
    in list order; no file is closed twice (`fileHandles w.readers` has no repetition and `closed` grows by a prefix of
    it); the object behind a `nopReadCloser` — standard input — is not closed; nothing is created.  If no reader fails,
    every reader has been dropped and every file of the list closed. -/
theorem C16_Read_ir_iterated (env : Env) (fuel k : Nat) (w : State) (rs : List Reader)
    (hd : denote w.objs w.readers = some rs) (hn : (handles w.readers).Nodup) (hf : w.readers.length < fuel)
    (hk : totalResults rs + 1 ≤ k) :
    ∃ w', drainIR env fuel k w = .ok ((inputStream rs).1, (inputStream rs).2, w') ∧
      inputStream rs = ((concatContents rs).1, if (concatContents rs).2 then .err else .eof) ∧
      w'.readers = w.readers.drop (nConsumed rs) ∧
      w'.closed = w.closed ++ fileHandles (w.readers.take (nConsumed rs)) ∧
      (fileHandles w.readers).Nodup ∧ (∀ h, some ⟨h, true⟩ ∈ w.readers → h ∉ fileHandles w.readers) ∧
      w'.created = w.created ∧ (handles w'.readers).Nodup ∧
      ((concatContents rs).2 = false → w'.readers = [] ∧ w'.closed = w.closed ++ fileHandles w.readers) := by
  obtain ⟨w', h1, h2, h3, h4, h5, _⟩ := drainIR_full inv_denote env fuel k w rs ⟨hd, hn⟩ hf hk
  have hst : inputStream rs = ((concatContents rs).1, if (concatContents rs).2 then .err else .eof) := by
    rw [C16_multi_concat, ← toEnding_fst, ← toEnding_snd]
  refine ⟨w', by rw [hst]; exact h1, hst, h3, h4, fileHandles_nodup _ hn, nop_not_closed _ hn, h5, h2.2, ?_⟩
  intro hno
  have hlen : nConsumed rs = w.readers.length := by rw [nConsumed_noFail rs hno, denote_length _ _ _ hd]
  rw [h3, h4, hlen]
  simp

/-- … and `input.Close()` afterwards (the regenerated `Close`) closes the files that are left: in total EVERY file of the
    list has been closed exactly once, in list order, whether or not a reader failed; `mrc.readers` is nil. -/
theorem C16_Read_ir_iterated_then_Close (env : Env) (fuel k : Nat) (w : State) (rs : List Reader)
    (hd : denote w.objs w.readers = some rs) (hn : (handles w.readers).Nodup) (hf : w.readers.length < fuel)
    (hk : totalResults rs + 1 ≤ k) :
    ∃ w1 w2, drainIR env fuel k w = .ok ((inputStream rs).1, (inputStream rs).2, w1) ∧
      runUnit env fuel "multiReadCloser.Close" [.mrcRef] w1 = .ok ([.err (firstFail env w1.readers)], w2) ∧
      w2.closed = w.closed ++ fileHandles w.readers ∧ (fileHandles w.readers).Nodup ∧ w2.readers = [] ∧
      w2.created = w.created := by
  obtain ⟨w1, w2, h1, h2, h3, h4, h5, _⟩ := drain_then_close inv_denote env fuel k w rs ⟨hd, hn⟩ hf hk
  refine ⟨w1, w2, ?_, h2, h3, fileHandles_nodup _ hn, h4, h5⟩
  rw [C16_multi_concat, toEnding_fst, toEnding_snd]; exact h1

/-! ## 2. the pipeline -/

/-- the number of `Read` calls that suffices for the scanner: one more than the results scripted for the inputs -/
def streamBound (args : List String) (stdin : Reader) (openFile : String → Option Reader) : Nat :=
  match CliIO.makeInput args stdin openFile with
  | some rs => totalResults rs + 1
  | none => 0

/-- SPECIFICATION: the bytes the tool works on — the contents of the inputs named by the arguments, concatenated, up to and
    including the first one that cannot be read to its end — and whether one could not -/
def inputBytes (rs : List Reader) : Bytes × Bool := concatContents rs

/-- SPECIFICATION of `RunE`: nothing (`none`: an error is returned before `run` is called, nothing is printed, exit
    status 1) if an input cannot be opened or the output file cannot be created; else `CliSpec.run` — the whole-input
    specification of Spec/CliSpec.lean — on the lines of the concatenated bytes, the read-error flag set iff a line is
    over-long or an input failed. -/
def expected (compile : Bytes → Option Bytes) (env : Env) (args : List String) (outArg : String) (stdin : Reader) :
    Option CliResult :=
  match CliIO.makeInput args stdin env.openFile with
  | none => none
  | some rs =>
    if outputFails env outArg then none
    else some (CliSpec.run compile (bufioLines (inputBytes rs).1).1 ((bufioLines (inputBytes rs).1).2 || (inputBytes rs).2))

theorem cliFiles_spec (compile : Bytes → Option Bytes) (rs : List Reader) :
    cliFiles compile rs =
      CliSpec.run compile (bufioLines (inputBytes rs).1).1 ((bufioLines (inputBytes rs).1).2 || (inputBytes rs).2) := by
  rw [C16_files_general, C16.C16_refines_all]; rfl

/-- **C16 (the command line, end to end).**  For every `compile`, every argument list (none, `-`, one path, several paths
    with `-` among them), every file system (`env.openFile`: which paths open, and the script — data and chunking — of each
    file), every script of standard input, every `-o` argument: the closure `RunE` run with the regenerated `makeInput`,
    `makeOutput`, `(*multiReadCloser).Read`, `.Close` and `run` interpreted (`runE`) neither panics nor gets stuck, and

      * returns before `run` (`none`) iff an input cannot be opened or the output file cannot be created — then nothing is
        compiled or printed;
      * otherwise what `run` printed, how often it called `logError` and whether it returned an error are what the
        SPECIFICATION `CliSpec.run` yields on the lines of the CONCATENATED contents of the inputs (up to and including the
        first one that fails; the read-error flag set iff a line is over-long or an input failed);
      * in every case each file that was opened (`nOpened`: the paths before the first that does not open; objects 1, 2, …
        of the heap, in order of opening) has been closed exactly once, in that order, and standard input (object 0) never; the only file created is the `-o` file, and only if every
        input could be opened.

    Hypotheses: loop fuel for `Read` above the number of arguments; `k` calls of `Read` allowed for the scanner, at least
    `streamBound`; `-` at most once among the arguments, or a `clean` script for standard input (once it has reported
    `io.EOF` nothing more is scripted) — the model's convention A3 for a repeated `-`. -/
theorem C16_main_pipeline_ir (compile : Bytes → Option Bytes) (env : Env) (fuel k : Nat) (args : List String)
    (outArg : String) (stdin : Reader)
    (hf : args.length < fuel) (hk : streamBound args stdin env.openFile ≤ k)
    (hs : args.count "-" ≤ 1 ∨ clean stdin = true) :
    ∃ w, runE compile env fuel k args outArg stdin = .ok (expected compile env args outArg stdin, w) ∧
      w.objs.length = 1 + nOpened args env.openFile ∧ w.closed = List.range' 1 (nOpened args env.openFile) ∧
      w.created = (if (CliIO.makeInput args stdin env.openFile).isSome then createdBy env outArg else []) := by
  obtain ⟨st1, hrun, hw, hin, hcl, hcr⟩ := makeInput_phase env fuel args stdin
  simp only [State.world, Prod.mk.injEq] at hw
  obtain ⟨hwo, _, _, _, _⟩ := hw
  obtain ⟨hz, hshape⟩ := miSpec_shape env args stdin
  have hlen0 := miSpec_objs env args stdin
  rw [← hwo] at hz hshape hlen0
  have hsub : st1.objs.length - 1 = nOpened args env.openFile := by omega
  unfold expected streamBound at *
  rcases hshape with ⟨l, hv, hsh, hnops, hfiles, hlen⟩ | ⟨rc, hv, hsh, hfiles⟩ | hv
  · -- a `*multiReadCloser`
    rw [hv] at hrun hin
    simp only [inputOf] at hin
    rw [← hin] at hk hcl ⊢
    simp only [Option.isSome_some, if_true] at hcl ⊢
    have hok : InputOK fuel .mrcRef ({ st1 with readers := l } : State) l (den st1.objs false l) :=
      Or.inl ⟨rfl, rfl, ⟨rfl, hsh, by
        rcases hs with hs | hs
        · left; omega
        · right; simpa [hz] using hs⟩, by omega⟩
    obtain ⟨w, g1, g2, g3, g4⟩ := runRest_eq compile env fuel k outArg .mrcRef _ l _ hok hk
    refine ⟨w, ?_, by rw [g4]; exact hlen0, ?_, by simpa [hcr] using g3⟩
    · simp only [runE, hrun, bindInput, g1, bind, Except.bind, cliFiles_spec]
    · rw [g2]; simp only [hcl, List.nil_append, hfiles, hsub]
  · -- one plain reader
    rw [hv] at hrun hin
    simp only [inputOf] at hin
    rw [← hin] at hk hcl ⊢
    simp only [Option.isSome_some, if_true] at hcl ⊢
    obtain ⟨h, nop⟩ := rc
    have hlt : h < st1.objs.length := hsh.head_lt
    have hden : den st1.objs false [some ⟨h, nop⟩] = [st1.objs[h]] := by
      cases nop <;> simp [den, List.getElem?_eq_getElem hlt]
    rw [hden] at hk ⊢
    have hok : InputOK fuel (.rc (some ⟨h, nop⟩)) st1 [some ⟨h, nop⟩] [st1.objs[h]] :=
      Or.inr ⟨⟨h, nop⟩, _, rfl, rfl, List.getElem?_eq_getElem hlt, rfl⟩
    obtain ⟨w, g1, g2, g3, g4⟩ := runRest_eq compile env fuel k outArg _ st1 _ _ hok hk
    refine ⟨w, ?_, by rw [g4]; exact hlen0, ?_, by simpa [hcr] using g3⟩
    · simp only [runE, hrun, bindInput, g1, bind, Except.bind, cliFiles_spec]
    · rw [g2]; simp only [hcl, List.nil_append, hfiles, hsub]
  · -- `makeInput` failed
    rw [hv] at hrun hin
    simp only [inputOf] at hin
    rw [← hin] at hcl ⊢
    exact ⟨st1, by simp only [runE, hrun, bind, Except.bind, pure, Except.pure], hlen0, by simpa [hsub] using hcl,
      by simpa using hcr⟩

/-- when every input is read to its end, the specification's answer is the model's `cliMain` on the concatenated bytes -/
theorem expected_noErr (compile : Bytes → Option Bytes) (env : Env) (args : List String) (outArg : String) (stdin : Reader)
    (rs : List Reader) (hm : CliIO.makeInput args stdin env.openFile = some rs) (ho : outputFails env outArg = false)
    (hr : (inputBytes rs).2 = false) :
    expected compile env args outArg stdin = some (cliMain compile (inputBytes rs).1) := by
  unfold expected cliMain
  simp only [hm, ho, hr, Bool.or_false, Bool.false_eq_true, if_false, C16.C16_refines_all]

/-- **… in closed form** (`C16_main_spec_bytes`): every input opens and is read to its end, no line of the concatenation
    is over-long: the tool's result is `runPieces` on the statement pieces of the concatenated bytes themselves (final
    newline supplied, `\r\n` → `\n`), read-error flag off. -/
theorem C16_main_pipeline_ir_closed (compile : Bytes → Option Bytes) (env : Env) (fuel k : Nat) (args : List String)
    (outArg : String) (stdin : Reader) (rs : List Reader)
    (hf : args.length < fuel) (hk : totalResults rs + 1 ≤ k) (hs : args.count "-" ≤ 1 ∨ clean stdin = true)
    (hm : CliIO.makeInput args stdin env.openFile = some rs) (ho : outputFails env outArg = false)
    (hr : (inputBytes rs).2 = false) (hl : (bufioLines (inputBytes rs).1).2 = false) :
    ∃ w, runE compile env fuel k args outArg stdin =
        .ok (some (runPieces compile (splitStatements (crlfToLf (ensureNL (inputBytes rs).1))) false), w) ∧
      w.closed = List.range' 1 (nOpened args env.openFile) ∧ w.created = createdBy env outArg := by
  obtain ⟨w, h1, _, h3, h4⟩ := C16_main_pipeline_ir compile env fuel k args outArg stdin hf (by simpa [streamBound, hm] using hk) hs
  rw [expected_noErr compile env args outArg stdin rs hm ho hr, C16_main_spec_bytes compile _ hl] at h1
  exact ⟨w, h1, h3, by simpa [hm] using h4⟩

/-- **… with the library's `Compile`** (`C16_cli_semantics`): standard output is, in order, the library's SQL of every
    non-let piece of the concatenated input under the scope of the lets accepted before it (`semAll`). -/
theorem C16_main_pipeline_ir_semantics (env : Env) (fuel k : Nat) (args : List String)
    (outArg : String) (stdin : Reader) (rs : List Reader)
    (hf : args.length < fuel) (hk : totalResults rs + 1 ≤ k) (hs : args.count "-" ≤ 1 ∨ clean stdin = true)
    (hm : CliIO.makeInput args stdin env.openFile = some rs) (ho : outputFails env outArg = false)
    (hr : (inputBytes rs).2 = false) :
    ∃ w, runE CliSem.compileCli env fuel k args outArg stdin =
        .ok (some (let pieces := splitStatements (CliSpec.normalise (bufioLines (inputBytes rs).1).1)
                   let n := nFailed (CliSem.semAll pieces) + (if (bufioLines (inputBytes rs).1).2 then 1 else 0)
                   ⟨sqlText (CliSem.semAll pieces), n, decide (n > 0)⟩), w) := by
  obtain ⟨w, h1, _⟩ := C16_main_pipeline_ir CliSem.compileCli env fuel k args outArg stdin hf
    (by simpa [streamBound, hm] using hk) hs
  rw [expected_noErr _ env args outArg stdin rs hm ho hr, CliSem.C16_cli_semantics] at h1
  exact ⟨w, h1⟩

theorem inputBytes_chunking : ∀ (rs rs' : List Reader), rs.map Reader.content = rs'.map Reader.content →
    inputBytes rs = inputBytes rs'
  | [], [], _ => rfl
  | [], _ :: _, h => by simp at h
  | _ :: _, [], h => by simp at h
  | r :: rs, r' :: rs', h => by
    simp only [List.map_cons, List.cons.injEq] at h
    simp only [inputBytes, concatContents, h.1]
    have := inputBytes_chunking rs rs' h.2
    simp only [inputBytes] at this
    rw [this]

/-- **the chunking is irrelevant**: two worlds (file systems, standard inputs) in which the same paths open and every input
    has the same content — however it is cut into `Read` results, with or without empty reads, data with or before the
    `io.EOF` — have the same specified result (hence, by `C16_main_pipeline_ir`, the same interpreted result). -/
theorem C16_main_pipeline_ir_chunking (compile : Bytes → Option Bytes) (env env' : Env) (args : List String) (outArg : String)
    (stdin stdin' : Reader) (rs rs' : List Reader)
    (hm : CliIO.makeInput args stdin env.openFile = some rs) (hm' : CliIO.makeInput args stdin' env'.openFile = some rs')
    (hc : rs.map Reader.content = rs'.map Reader.content) (ho : outputFails env outArg = outputFails env' outArg) :
    expected compile env args outArg stdin = expected compile env' args outArg stdin' := by
  unfold expected
  simp only [hm, hm', ho, inputBytes_chunking rs rs' hc]

/-! ## 3. examples and counterexamples

Everything below is a kernel evaluation of the INTERPRETED pipeline (`decide +kernel`; `stub` of
Lemmas/CliIOExamples.lean stands in for `pql.Compile`: it fails on a text with '!', else returns the text without its
newlines, so the prelude is visible). -/

local notation "E" => Bytes.ofString

/-- the file system of the examples: `a` ends in the middle of a statement and has an empty read before its `0, io.EOF`;
    `b` delivers its last byte together with `io.EOF`; `bad` fails in its second `Read` (which still delivers data);
    `e` is empty; nothing else opens -/
def fsEx : String → Option Reader := fun p =>
  if p = "a" then some [(E "let x = 1;\nX", .ok), ([], .ok), ([], .eof)]
  else if p = "b" then some [(E "Z", .ok), (E ";", .eof)]
  else if p = "bad" then some [(E "Q;\nR", .ok), (E ";S;", .err), (E "T;", .ok)]
  else if p = "e" then some []
  else none

def envEx : Env := { openFile := fsEx }
def stdinEx : Reader := [(E "Y;\n", .ok)]

/-- what is observed of a run: the result, the files closed, the number of objects, the files created -/
def obs (r : M (Option CliResult × State)) : Option (Option CliResult × List Nat × Nat × List String) :=
  r.toOption.map fun x => (x.1, x.2.closed, x.2.objs.length, x.2.created)

/-- the examples satisfy the hypotheses of `C16_main_pipeline_ir` -/
theorem ex_hyps :
    (["a", "-", "b"].length < 4 ∧ streamBound ["a", "-", "b"] stdinEx fsEx ≤ 20 ∧ ["a", "-", "b"].count "-" ≤ 1) ∧
    streamBound ["a", "nope", "b"] stdinEx fsEx ≤ 20 ∧ streamBound ["a", "bad", "b"] stdinEx fsEx ≤ 20 := by decide

/-- **two files and `-`**: the statement `X…Y` runs from file `a` into standard input, the accepted `let` of `a` is in
    scope in `b`; both files closed once, in order; standard input not closed -/
theorem ex_two_files_and_stdin :
    obs (runE stub envEx 4 20 ["a", "-", "b"] "" stdinEx) =
      some (some ⟨E "let x = 1;XY\n\nlet x = 1;Z\n\n", 0, false⟩, [1, 2], 3, []) ∧
    expected stub envEx ["a", "-", "b"] "" stdinEx = some ⟨E "let x = 1;XY\n\nlet x = 1;Z\n\n", 0, false⟩ := by
  decide +kernel

/-- **`os.Open` fails in the middle**: nothing is compiled, the file opened before is closed again, the one after is never
    opened, no output file is created -/
theorem ex_open_fails :
    obs (runE stub envEx 4 20 ["a", "nope", "b"] "out.sql" stdinEx) = some (none, [1], 2, []) ∧
    expected stub envEx ["a", "nope", "b"] "out.sql" stdinEx = none ∧ nOpened ["a", "nope", "b"] fsEx = 1 := by
  decide +kernel

/-- **a read error midway**: the bytes delivered up to and with the error are processed (`R;S;` is cut across the failing
    `Read`), nothing after it (`T;`, file `b`); one error is logged, the exit status is non-zero; all three files are closed
    (`b` by `input.Close()` without having been read); the output file is created -/
theorem ex_read_error :
    obs (runE stub envEx 4 20 ["a", "bad", "b"] "out.sql" stdinEx) =
      some (some ⟨E "let x = 1;XQ\n\nlet x = 1;R\n\nlet x = 1;S\n\n", 1, true⟩, [1, 2, 3], 4, ["out.sql"]) ∧
    expected stub envEx ["a", "bad", "b"] "out.sql" stdinEx =
      some ⟨E "let x = 1;XQ\n\nlet x = 1;R\n\nlet x = 1;S\n\n", 1, true⟩ := by
  decide +kernel

/-- `Read` iterated on that list, on the level of item 1: the hypotheses of `C16_Read_ir_iterated` hold in the world
    `worldOf`, the drain stops at the failing reader, only the file before it has been closed -/
theorem ex_iterated :
    let rs : List Reader := [(fsEx "a").getD [], (fsEx "bad").getD [], (fsEx "b").getD []]
    denote (worldOf rs).objs (worldOf rs).readers = some rs ∧ (handles (worldOf rs).readers).Nodup ∧
    (worldOf rs).readers.length < 4 ∧ totalResults rs + 1 ≤ 20 ∧
    (drainIR envEx 4 20 (worldOf rs)).toOption.map (fun r => (r.1, r.2.1, r.2.2.closed, r.2.2.readers.length)) =
      some (E "let x = 1;\nXQ;\nR;S;", .err, [0], 2) ∧ nConsumed rs = 1 := by
  decide +kernel

/-! ### every hypothesis is needed -/

def isFuelErr {α : Type} : M α → Bool
  | .error .fuel => true
  | _ => false

/-- `hf` (loop fuel above the number of arguments / readers): with two empty files ONE `Read` call needs three
    iterations — two readers to drop and the final check —; with fuel 2 the interpreter runs out, with 3 it does not -/
theorem C16_main_pipeline_ir_needs_fuel :
    isFuelErr (runE stub envEx 2 20 ["e", "e"] "" stdinEx) = true ∧
    obs (runE stub envEx 3 20 ["e", "e"] "" stdinEx) = some (some ⟨[], 0, false⟩, [1, 2], 3, []) := by
  decide +kernel

/-- `hk` (`streamBound` calls for the scanner): with one call less the final `0, io.EOF` is not seen, the drain ends
    `outOfFuel`, which counts as a read error -/
theorem C16_main_pipeline_ir_needs_calls :
    streamBound [] [(E "X", .ok)] fsEx = 2 ∧
    obs (runE stub envEx 1 1 [] "" [(E "X", .ok)]) = some (some ⟨E "X\n\n", 1, true⟩, [], 1, []) ∧
    expected stub envEx [] "" [(E "X", .ok)] = some ⟨E "X\n\n", 0, false⟩ := by
  decide +kernel

/-- `hs` (`-` at most once, or a `clean` standard input): a standard input that delivers more after its first `io.EOF`
    (a terminal after ^D) is read AGAIN by the second `-`, while `CliIO.makeInput` (convention A3) takes the second `-` to
    be used up; with a clean script both agree -/
theorem C16_main_pipeline_ir_needs_clean :
    obs (runE stub envEx 3 20 ["-", "-"] "" [(E "X;", .eof), (E "Y;", .eof)]) =
      some (some ⟨E "X\n\nY\n\n", 0, false⟩, [], 1, []) ∧
    expected stub envEx ["-", "-"] "" [(E "X;", .eof), (E "Y;", .eof)] = some ⟨E "X\n\n", 0, false⟩ ∧
    clean [(E "X;", .eof), (E "Y;", .eof)] = false ∧
    obs (runE stub envEx 3 20 ["-", "-"] "" [(E "X;", .eof)]) = some (expected stub envEx ["-", "-"] "" [(E "X;", .eof)], [], 1, []) := by
  decide +kernel

/-- `hn` of `C16_Read_ir_iterated` (no object twice): the same file object twice in `mrc.readers` — `denote` reads it as two
    copies of the script, the heap delivers it once, and the file is closed twice -/
theorem C16_Read_ir_iterated_needs_nodup :
    let w : State := ⟨[], [[([1], .eof)]], [some ⟨0, false⟩, some ⟨0, false⟩], [], [], []⟩
    denote w.objs w.readers = some [[([1], .eof)], [([1], .eof)]] ∧
    inputStream [[([1], .eof)], [([1], Status.eof)]] = ([1, 1], .eof) ∧
    (drainIR envEx 3 20 w).toOption.map (fun r => (r.1, r.2.1, r.2.2.closed)) = some ([1], .eof, [0, 0]) := by
  decide +kernel

/-- `hd` (no nil entry, no dangling handle): a nil reader is a Go panic, a dangling handle is not Go (stuck) -/
theorem C16_Read_ir_iterated_needs_denote :
    isPanic (drainIR envEx 3 20 ⟨[], [[]], [some ⟨0, false⟩, none], [], [], []⟩) = true ∧
    (drainIR envEx 3 20 ⟨[], [[]], [some ⟨7, false⟩], [], [], []⟩).toOption.isNone = true := by
  decide +kernel

/-- `hf`, `hk` of `C16_Read_ir_iterated`: fuel = number of readers / `totalResults` calls are too few -/
theorem C16_Read_ir_iterated_needs_fuel :
    isFuelErr (drainIR envEx 2 20 (worldOf [[], []])) = true ∧
    (drainIR envEx 3 1 (worldOf [[([1], .ok)]])).toOption.map (fun r => (r.1, r.2.1)) = some ([1], .outOfFuel) ∧
    totalResults [[([1], Status.ok)]] = 1 := by
  decide +kernel

end Pql.StreamIR
