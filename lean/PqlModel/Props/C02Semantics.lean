/-
Property C02, semantic form: the intended SQL of a join-free pipeline computes what the pipeline
means.

Stage 1 (this file, `C02_sel_*`): one SELECT of the chain (`Intended.selOf`) evaluated by the
reference SQL evaluator computes the link's clauses in order — operator body, then ORDER BY, then
LIMIT — with the specification interpreter's meaning of each (`Rel.interpOp`, `Rel.sortTable`,
`Rel.takeTable`).  Stage 2 is Props/C02Statement.lean, the counterexamples for the side
conditions and concrete instances are in Props/C02SemanticsCex.lean.
-/
import PqlModel.Lemmas.SelSemOps4
namespace Pql.C02
open Pql Sql CompileOracle Intended SplitQ SelSem

/-- ORDER BY only on a SELECT whose operator `canAttachSort` accepts (`splitA` guarantees that,
    and the same for LIMIT, which is harmless) -/
def sortOkA (a : SubA) : Bool := a.sort.isNone || canAttachSort a.op

/-- the aggregate / non-aggregate side conditions: `project` / `extend` without aggregate calls,
    `summarize` with a key or an aggregate -/
def opOk : Op → Bool
  | .project _ _ cols => cols.all fun c => !Rel.isAggExpr c.x
  | .extend _ _ cols => cols.all fun c => !Rel.isAggExpr c.x
  | .summarize _ _ cols _ keys => !keys.isEmpty || cols.any fun c => Rel.isAggExpr c.x
  | _ => true

theorem sortOkA_false {a : SubA} (h : sortOkA a = true) (hc : canAttachSort a.op = false) :
    a.sort = none := by
  simp only [sortOkA, hc, Bool.or_false, Option.isNone_iff_eq_none] at h
  exact h

/-- **C02 (a link without operator: `SELECT * FROM n [ORDER BY …] [LIMIT …]`).** -/
theorem C02_sel_none (src : Bytes) (db : DB) (ctes : List (Bytes × Table)) (a : SubA) (n : Bytes) (sel : Select)
    (hsrc : a.source = .table n) (hop : a.op = none) (hsel : selOf src a = some sel) :
    evalSelect db ctes sel = subEvalA src db (lookupTable db ctes n) a := by
  obtain ⟨items, w, gb, obs, lim, hp, ho, hl, rfl⟩ := selOf_parts src a n sel hsrc hsel
  rw [hop] at hp
  simp only [partsOf, pure, Option.some.injEq, Prod.mk.injEq] at hp
  obtain ⟨rfl, rfl, rfl⟩ := hp
  exact sel_star src db ctes a n obs lim ho hl (by simp [opPartA, hop])

/-- **C02 (`as`): the data unchanged** (ORDER BY / LIMIT would be harmless, `splitA` never attaches them). -/
theorem C02_sel_as (src : Bytes) (db : DB) (ctes : List (Bytes × Table)) (a : SubA) (n : Bytes) (sel : Select)
    (p k : Span) (name : Option Ident)
    (hsrc : a.source = .table n) (hop : a.op = some (.as_ p k name)) (hsel : selOf src a = some sel) :
    evalSelect db ctes sel = subEvalA src db (lookupTable db ctes n) a := by
  obtain ⟨items, w, gb, obs, lim, hp, ho, hl, rfl⟩ := selOf_parts src a n sel hsrc hsel
  rw [hop] at hp
  simp only [partsOf, pure, Option.some.injEq, Prod.mk.injEq] at hp
  obtain ⟨rfl, rfl, rfl⟩ := hp
  exact sel_star src db ctes a n obs lim ho hl (by simp [opPartA, hop, interpClause, Rel.interpOp])

/-- **C02 (`where`)**, also with ORDER BY and / or LIMIT attached. -/
theorem C02_sel_where (src : Bytes) (db : DB) (ctes : List (Bytes × Table)) (a : SubA) (n : Bytes) (sel : Select)
    (p k : Span) (pred : Expr)
    (hsrc : a.source = .table n) (hop : a.op = some (.where_ p k pred)) (hsel : selOf src a = some sel) :
    evalSelect db ctes sel = subEvalA src db (lookupTable db ctes n) a := by
  obtain ⟨items, w, gb, obs, lim, hp, ho, hl, rfl⟩ := selOf_parts src a n sel hsrc hsel
  rw [hop] at hp
  simp only [partsOf, bind, Option.bind, pure] at hp
  cases htr : tr false pred with
  | none => simp [htr] at hp
  | some e =>
    simp only [htr, Option.some.injEq, Prod.mk.injEq] at hp
    obtain ⟨rfl, rfl, rfl⟩ := hp
    exact sel_where src db ctes a n p k pred e htr obs lim ho hl hop

/-- **C02 (`count`)**, also with ORDER BY and / or LIMIT attached (one row: nothing to sort). -/
theorem C02_sel_count (src : Bytes) (db : DB) (ctes : List (Bytes × Table)) (a : SubA) (n : Bytes) (sel : Select)
    (p k : Span)
    (hsrc : a.source = .table n) (hop : a.op = some (.count p k)) (hsel : selOf src a = some sel) :
    evalSelect db ctes sel = subEvalA src db (lookupTable db ctes n) a := by
  obtain ⟨items, w, gb, obs, lim, hp, ho, hl, rfl⟩ := selOf_parts src a n sel hsrc hsel
  rw [hop] at hp
  simp only [partsOf, pure, Option.some.injEq, Prod.mk.injEq] at hp
  obtain ⟨rfl, rfl, rfl⟩ := hp
  exact sel_count src db ctes a n p k obs lim ho hl hop

/-- **C02 (`render`)**: the data plus the constant render columns. -/
theorem C02_sel_render (src : Bytes) (db : DB) (ctes : List (Bytes × Table)) (a : SubA) (n : Bytes) (sel : Select)
    (p k : Span) (chart : Option Ident) (w lp : Span) (props : List RenderProp) (rp : Span)
    (hsrc : a.source = .table n) (hop : a.op = some (.render p k chart w lp props rp))
    (hsel : selOf src a = some sel) :
    evalSelect db ctes sel = subEvalA src db (lookupTable db ctes n) a := by
  obtain ⟨items, w', gb, obs, lim, hp, ho, hl, rfl⟩ := selOf_parts src a n sel hsrc hsel
  rw [hop] at hp
  simp only [partsOf, pure, Option.some.injEq, Prod.mk.injEq] at hp
  obtain ⟨rfl, rfl, rfl⟩ := hp
  exact sel_render src db ctes a n p k chart w lp props rp obs lim ho hl hop

/-- **C02 (`extend`)**, also with ORDER BY and / or LIMIT attached; the new columns are not
    aggregate calls (`Cex.C02_extend_agg_differs`). -/
theorem C02_sel_extend (src : Bytes) (db : DB) (ctes : List (Bytes × Table)) (a : SubA) (n : Bytes) (sel : Select)
    (p k : Span) (cols : List Column)
    (hsrc : a.source = .table n) (hop : a.op = some (.extend p k cols)) (hsel : selOf src a = some sel)
    (hna : opOk (.extend p k cols) = true) :
    evalSelect db ctes sel = subEvalA src db (lookupTable db ctes n) a := by
  obtain ⟨items, w, gb, obs, lim, hp, ho, hl, rfl⟩ := selOf_parts src a n sel hsrc hsel
  rw [hop] at hp
  simp only [partsOf, bind, Option.bind, pure] at hp
  cases hits : cols.mapM (itemOf src) with
  | none => simp [hits] at hp
  | some its =>
    simp only [hits, Option.some.injEq, Prod.mk.injEq] at hp
    obtain ⟨rfl, rfl, rfl⟩ := hp
    refine sel_extend src db ctes a n p k cols its hits ?_ obs lim ho hl hop
    intro c hc
    simp only [opOk, List.all_eq_true, Bool.not_eq_true'] at hna
    exact hna c hc

/-- **C02 (`project`)**, also with LIMIT attached: no ORDER BY on this SELECT (`sortOkA`; needed, see
    `Cex.C02_project_sort_differs`), the columns are not aggregate calls (`Cex.C02_project_agg_differs`). -/
theorem C02_sel_project (src : Bytes) (db : DB) (ctes : List (Bytes × Table)) (a : SubA) (n : Bytes) (sel : Select)
    (p k : Span) (cols : List Column)
    (hsrc : a.source = .table n) (hop : a.op = some (.project p k cols)) (hsel : selOf src a = some sel)
    (hsort : sortOkA a = true) (hna : opOk (.project p k cols) = true) :
    evalSelect db ctes sel = subEvalA src db (lookupTable db ctes n) a := by
  have hs := sortOkA_false hsort (by rw [hop]; rfl)
  obtain ⟨items, w, gb, obs, lim, hp, ho, hl, rfl⟩ := selOf_parts src a n sel hsrc hsel
  rw [hop] at hp
  simp only [partsOf, bind, Option.bind, pure] at hp
  cases hits : cols.mapM projectItem with
  | none => simp [hits] at hp
  | some its =>
    simp only [hits, Option.some.injEq, Prod.mk.injEq] at hp
    obtain ⟨rfl, rfl, rfl⟩ := hp
    refine sel_project src db ctes a n p k cols its hits ?_ obs lim ho hl hop hs
    intro c hc
    simp only [opOk, List.all_eq_true, Bool.not_eq_true'] at hna
    exact hna c hc

/-- **C02 (`summarize`)**, also with LIMIT attached: no ORDER BY on this SELECT
    (`Cex.C02_summarize_sort_differs`), and there is a key or an aggregate
    (`Cex.C02_summarize_plain_differs`). -/
theorem C02_sel_summarize (src : Bytes) (db : DB) (ctes : List (Bytes × Table)) (a : SubA) (n : Bytes) (sel : Select)
    (p k : Span) (cols : List Column) (b : Span) (keys : List Column)
    (hsrc : a.source = .table n) (hop : a.op = some (.summarize p k cols b keys)) (hsel : selOf src a = some sel)
    (hsort : sortOkA a = true) (hagg : opOk (.summarize p k cols b keys) = true) :
    evalSelect db ctes sel = subEvalA src db (lookupTable db ctes n) a := by
  have hs := sortOkA_false hsort (by rw [hop]; rfl)
  obtain ⟨items, w, gb, obs, lim, hp, ho, hl, rfl⟩ := selOf_parts src a n sel hsrc hsel
  rw [hop] at hp
  simp only [partsOf, bind, Option.bind, pure] at hp
  cases hgs : keys.mapM (itemOf src) with
  | none => simp [hgs] at hp
  | some gs =>
    cases hcs : cols.mapM (itemOf src) with
    | none => simp [hgs, hcs] at hp
    | some cs =>
      cases hgb : keys.mapM (fun c => tr false c.x) with
      | none => simp [hgs, hcs, hgb] at hp
      | some gb' =>
        simp only [hgs, hcs, hgb, Option.some.injEq, Prod.mk.injEq] at hp
        obtain ⟨rfl, rfl, rfl⟩ := hp
        exact sel_summarize src db ctes a n p k cols b keys gs cs gb' hgs hcs hgb hagg obs lim ho hl hop hs

/-- **C02, Stage 1 (any operator).** The SELECT of a link reading the table `n` computes the
    link's clauses in order from the table `n` denotes. -/
theorem C02_sel (src : Bytes) (db : DB) (ctes : List (Bytes × Table)) (a : SubA) (n : Bytes) (sel : Select)
    (hsrc : a.source = .table n) (hsel : selOf src a = some sel)
    (hsort : sortOkA a = true) (hok : ∀ o, a.op = some o → opOk o = true) :
    evalSelect db ctes sel = subEvalA src db (lookupTable db ctes n) a := by
  cases hop : a.op with
  | none => exact C02_sel_none src db ctes a n sel hsrc hop hsel
  | some o =>
    cases o with
    | count p k => exact C02_sel_count src db ctes a n sel p k hsrc hop hsel
    | where_ p k e => exact C02_sel_where src db ctes a n sel p k e hsrc hop hsel
    | project p k cs => exact C02_sel_project src db ctes a n sel p k cs hsrc hop hsel hsort (hok _ hop)
    | extend p k cs => exact C02_sel_extend src db ctes a n sel p k cs hsrc hop hsel (hok _ hop)
    | summarize p k cs b gs => exact C02_sel_summarize src db ctes a n sel p k cs b gs hsrc hop hsel hsort (hok _ hop)
    | as_ p k name => exact C02_sel_as src db ctes a n sel p k name hsrc hop hsel
    | render p k ch w lp props rp => exact C02_sel_render src db ctes a n sel p k ch w lp props rp hsrc hop hsel
    | sort p k ts =>
      rw [selOf_table_eq src a n hsrc, hop] at hsel; simp [partsOf] at hsel
    | take p k e =>
      rw [selOf_table_eq src a n hsrc, hop] at hsel; simp [partsOf] at hsel
    | top p k e b c =>
      rw [selOf_table_eq src a n hsrc, hop] at hsel; simp [partsOf] at hsel
    | join p k kd ka fl lp r rp on cs =>
      rw [selOf_table_eq src a n hsrc, hop] at hsel; simp [partsOf] at hsel

end Pql.C02
