/-
Property C09 — the lexer partitions the source into the documented tokens.
Property theorems only; helper lemmas live in PqlModel/Lemmas.
-/
import PqlModel.Lemmas.LexReach
namespace Pql.C09
open Pql

/-- Tokens lie between `lo` and `hi`, are non-empty, in source order and do not overlap. -/
def Ordered (lo hi : Nat) : List Token → Prop
  | [] => lo ≤ hi
  | t :: ts => lo ≤ t.start ∧ t.start < t.stop ∧ Ordered t.stop hi ts

theorem Ordered.weaken {lo lo' hi : Nat} {ts : List Token} (h : Ordered lo hi ts) (hl : lo' ≤ lo) :
    Ordered lo' hi ts := by
  cases ts with
  | nil => simp only [Ordered] at *; omega
  | cons t ts => simp only [Ordered] at *; exact ⟨by omega, h.2.1, h.2.2⟩

theorem scanFrom_ordered (s : Bytes) (off : Nat) : Ordered off (off + s.length) (scanFrom s off) := by
  fun_induction scanFrom s off with
  | case1 off => simp [Ordered]
  | case2 off c rest st tl k v hk ih =>
    have hpos : 1 ≤ st.width := scanOne_width_pos c rest
    have hle : st.width ≤ (c :: rest).length := scanOne_width_le (c :: rest)
    simp only [List.length_drop, List.length_cons] at ih hle ⊢
    refine ⟨Nat.le_refl _, by simp; omega, ?_⟩
    have : off + st.width + (rest.length + 1 - st.width) = off + (rest.length + 1) := by omega
    rw [this] at ih
    exact ih
  | case3 off c rest st tl hk ih =>
    have hpos : 1 ≤ st.width := scanOne_width_pos c rest
    have hle : st.width ≤ (c :: rest).length := scanOne_width_le (c :: rest)
    simp only [List.length_drop, List.length_cons] at ih hle ⊢
    have : off + st.width + (rest.length + 1 - st.width) = off + (rest.length + 1) := by omega
    rw [this] at ih
    exact ih.weaken (by omega)

/-- **C09 (partition).** For every byte string, valid UTF-8 or not, the tokens `Scan` returns
    are non-empty, lie inside the source, come in source order and do not overlap. -/
theorem C09_partition (src : Bytes) : Ordered 0 src.length (scan src) := by
  have := scanFrom_ordered src 0
  simpa [scan] using this

/-- **C09 (rescan, all kinds).** The text of any token of `Scan`, scanned on its own, is one
    token with the same kind and value that covers the whole text.  This also holds for error
    tokens. -/
theorem C09_rescan_any (src : Bytes) :
    ∀ t ∈ scan src,
      scan ((src.drop t.start).take (t.stop - t.start)) =
        [⟨t.kind, 0, t.stop - t.start, t.value⟩] := by
  intro t ht
  have := scanFrom_rescan src 0 t ht
  simpa using this

/-- **C09 (rescan).** The text of a non-error token, scanned on its own, gives the same token. -/
theorem C09_rescan (src : Bytes) :
    ∀ t ∈ scan src, t.kind ≠ .error →
      scan ((src.drop t.start).take (t.stop - t.start)) =
        [⟨t.kind, 0, t.stop - t.start, t.value⟩] :=
  fun t ht _ => C09_rescan_any src t ht

-- sanity test (evaluated, not a theorem): `a == 1` has three tokens
#guard (scan [97, 32, 61, 61, 32, 49]).length = 3

end Pql.C09
