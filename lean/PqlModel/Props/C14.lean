/-
Property C14 — compilation is a pure, deterministic, thread-safe function.

* Logic: in the model `compile` *is* a function of (source, parameters) — there is no other
  input — and the harness compares every call of every history with that function value.
* Shared state: the regenerated write-site facts show that the only package-level variable
  ever written outside its declaration is `knownFunctions`, inside the `sync.Once` body, and
  that the caller's parameter map is never assigned through, deleted from or aliased; the
  abstract `Once` protocol (Model/Shared.lean) is safe for every schedule.
* Partial by nature: real goroutine schedules, the Go memory model and the race detector are
  runtime; the `-race` runs of the correspondence are supporting evidence only.
-/
import PqlModel.Model.Shared
import PqlModel.Generated.Facts
namespace Pql.C14
open Pql Shared

/-- **C14 (write sites).** Every write to a package-level variable of `parser` and `pql`
    outside its declaration happens inside a `sync.Once.Do` body, and it is `knownFunctions`. -/
theorem C14_no_conflicting_access :
    Facts.pkgVarWrites.all (fun w => w.2.2 && w.1 == "pql.knownFunctions") = true := by decide

/-- **C14 (caller's map).** `pql.go` never assigns through, deletes from or aliases
    `opts.Parameters`; it only ranges over it. -/
theorem C14_parameter_map_read_only : Facts.parameterMapWrites = [] := by decide

/-- the package-level variables are exactly the known read-only tables plus the guarded one -/
theorem C14_package_vars :
    Facts.pkgVars = ["parser._TokenKind_index_1", "parser.joinTypes", "parser.keywords", "pql.binaryOps",
      "pql.builtinIdentifiers", "pql.knownFunctions"] := by decide

theorem mem_set_phase {ps : List Phase} {t : Nat} {p q : Phase} (h : q ∈ setPhase ps t p) : q = p ∨ q ∈ ps := by
  unfold setPhase at h
  rcases List.mem_or_eq_of_mem_set h with h | h
  · exact Or.inr h
  · exact Or.inl h

/-- the invariant that makes every read of the table safe -/
def Safe (s : State) : Prop :=
  s.badRead = false ∧ (s.finished = true → s.table = true) ∧ (∀ p ∈ s.phases, p = .reading → s.finished = true)

theorem safe_init (n : Nat) : Safe (Shared.init n) := by
  refine ⟨rfl, by simp [Shared.init], ?_⟩
  intro p hp h
  simp only [Shared.init, List.mem_replicate] at hp
  rw [hp.2] at h
  cases h

theorem safe_step (s : State) (t : Nat) (h : Safe s) : Safe (step s t) := by
  obtain ⟨hb, hf, hr⟩ := h
  unfold step
  split
  · -- callDo
    split
    · rename_i hfin
      refine ⟨hb, hf, ?_⟩
      intro p hp hpr
      exact hfin
    · split
      · refine ⟨hb, hf, ?_⟩
        intro p hp hpr
        rcases mem_set_phase hp with h1 | h1
        · rw [h1] at hpr; cases hpr
        · exact hr p h1 hpr
      · refine ⟨hb, hf, ?_⟩
        intro p hp hpr
        rcases mem_set_phase hp with h1 | h1
        · rw [h1] at hpr; cases hpr
        · exact hr p h1 hpr
  · -- initialising: assigns the table and finishes
    exact ⟨hb, fun _ => rfl, fun _ _ _ => rfl⟩
  · -- waiting
    split
    · rename_i hfin
      exact ⟨hb, hf, fun _ _ _ => hfin⟩
    · exact ⟨hb, hf, hr⟩
  · -- reading: the table is there
    rename_i hph
    have hmem : Phase.reading ∈ s.phases := List.mem_of_getElem? hph
    have hfin := hr _ hmem rfl
    have htab := hf hfin
    refine ⟨by simp [hb, htab], hf, ?_⟩
    intro p hp hpr
    rcases mem_set_phase hp with h1 | h1
    · rw [h1] at hpr; cases hpr
    · exact hr p h1 hpr
  · exact ⟨hb, hf, hr⟩

/-- **C14 (once-only initialisation is safe under every schedule).** For any number of threads
    and any interleaving of their steps — including all threads racing for the first call —
    no thread ever reads the function table before the unique initialisation has completed. -/
theorem C14_once_safe (n : Nat) (schedule : List Nat) : (run (Shared.init n) schedule).badRead = false := by
  suffices h : ∀ s, Safe s → Safe (run s schedule) from (h _ (safe_init n)).1
  induction schedule with
  | nil => intro s hs; exact hs
  | cons t ts ih => intro s hs; exact ih _ (safe_step s t hs)

/-- non-vacuity: with 3 threads and a schedule in which they interleave, all of them get to
    read, and nobody reads early -/
example : (run (Shared.init 3) [0, 1, 2, 1, 0, 2, 1, 0, 2, 0, 1, 2]).phases = [.done, .done, .done] ∧
    (run (Shared.init 3) [0, 1, 2, 1, 0, 2, 1, 0, 2, 0, 1, 2]).badRead = false := by decide

end Pql.C14
