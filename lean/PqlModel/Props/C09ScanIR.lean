/-
Property C09 (and C12, C15), tie by translation: the REST of parser/lex.go.

`Scan` (the `for` loop, the whole switch with its nested switches, the `//` comment loop and its
`continue`s), `(*scanner).ident`, `(*scanner).quotedIdent`, `(*scanner).string`, `isAlpha`, `isDigit`,
`isHexDigit`, `errorToken` are regenerated from the Go source on every run as an IR (`Facts.lexScanIR`,
translator `harness/extract_lexscan.go`; interpreter `Model/LexScanIR.lean`: Go's block scoping, the
`pos` / `last` cursor by RUNES, `break` / `continue` / `return`, `for { }` loops with fuel, the
`strings.Builder` objects behind `*strings.Builder` pointers, panics explicit).  They call the span
helpers and the cursor `next` / `prev`, which are the units of `Facts.lexNumberIR` (interpreted here by
the same interpreter), and `numberOrDot`, which is the model's function (tied to ITS translation by
`LexIR.C09_numberOrDot_ir`, restated here as `C09_numberOrDot_prim_tied`).

  trees (`Lemmas/LexScanIRDecls.lean`)   `isAlpha_ir`, `isDigit_ir`, `isHexDigit_ir`, `errorToken_ir`, `ident_ir`,
      `quotedIdent_ir`, `string_ir`, `Scan_ir` (and `newSpan_ir` … `prev_ir` for the six units of lexNumberIR):
      `decodeFn (irOf <regenerated table> key) = some <expected tree> := by rfl`
  `C09_ident_ir`, `C09_quotedIdent_ir`, `C09_string_ir` — for every byte string and every cursor position
      at which `Scan` calls the function (the byte there is an identifier start / a back-quote / a quote), with
      enough fuel for the loops, the interpretation ends without panic and returns exactly the model's token
      (`scanIdent` / `scanQuotedIdent` / `scanString`: kind, span, value) and leaves the cursor after it
  `C09_scan_step_ir` — one pass through the body of `Scan`'s loop at any cursor position inside the source
      = one step `scanOne` of the model at that suffix: tokens appended, cursor advanced, flow next/continue
  `C09_Scan_ir` — HEADLINE, hypothesis-free: `∀ src, interpScan (src.length + 1) src = .ok (scan src)`
      (`C09_Scan_ir_fuel`: any fuel above `src.length` will do; `C09_Scan_ir_needs_fuel`: with `src.length` the
      outcome is `fuel`); `C12_Scan_ir_no_panic`: never `panic` / `stuck` / `fuel`
  `C09_ident_ir_needs_start`, `C09_quotedIdent_ir_needs_backquote`, `C09_string_ir_needs_quote`,
      `C09_ident_ir_needs_fuel` — the hypotheses of the sub-scanner theorems are needed
  `C15_split_scan_ir` — `SplitStatements` (translated, `LexIR.C15_split_ir`) run with what the translated
      `Scan` returns is the model's `splitStatements`.

The byte-wise model against the rune-wise Go code: `next` decodes a rune; every test of the lexer except
`unicode.IsSpace` and the default of the main switch is on an ASCII value; a byte ≥ 0x80 starts a rune
≥ 0x80, which fails every such test, and the bytes after it in the same rune are ≥ 0x80 too
(`decodeRune_tail_ge`), so the loops of strings, quoted identifiers and comments pass over whole runes
where the model passes over bytes (`stringLoop_skip`, `qidentLoop_skip`, `commentLen_skip`).
-/
import PqlModel.Lemmas.LexScanIRScanLoop
import PqlModel.Props.C09NumberIR
import PqlModel.Props.C15SplitIR
namespace Pql.ScanIR
open Pql
open Pql.LexIR (IErr M BinOp goPanic stuck irOf)
set_option linter.unusedSimpArgs false
set_option linter.unusedVariables false

/-! ### the environments -/

/-- the base environment and the first `keys` of `Facts.lexScanIR` -/
def upEnv (fuel : Nat) (keys : List String) : Env := layer Facts.lexScanIR fuel keys (baseEnv fuel)

def keysClass : List String := ["isAlpha", "isDigit", "isHexDigit", "errorToken"]

theorem scanEnv_eq (fuel : Nat) : scanEnv fuel = upEnv fuel keysScan := rfl

theorem base_prim (fuel : Nat) (p : String) (h : p ∉ keysBase) : baseEnv fuel p = prims p := layer_other _ _ _ _ _ h

theorem up_base (fuel : Nat) (keys : List String) (p : String) (h : p ∉ keys) : upEnv fuel keys p = baseEnv fuel p :=
  layer_other _ _ _ _ _ h

theorem up_prim (fuel : Nat) (keys : List String) (p : String) (h1 : p ∉ keys) (h2 : p ∉ keysBase) :
    HasPrim (upEnv fuel keys) p := by
  unfold HasPrim
  rw [up_base fuel keys p h1, base_prim fuel p h2]

theorem base_newSpan (fuel : Nat) : ∃ f, baseEnv fuel "newSpan" = some f ∧ SpecNewSpan f :=
  ⟨_, layer_at _ fuel [] "newSpan" _ _ (by decide), by rw [fnOf_eq newSpan_ir]; exact newSpan_spec _ _⟩

theorem base_indexSpan (fuel : Nat) : ∃ f, baseEnv fuel "indexSpan" = some f ∧ SpecIndexSpan f :=
  ⟨_, layer_at _ fuel ["newSpan"] "indexSpan" _ _ (by decide), by rw [fnOf_eq indexSpan_ir]; exact indexSpan_spec _ _⟩

theorem base_spanString (fuel : Nat) : ∃ f, baseEnv fuel "spanString" = some f ∧ SpecSpanString f := by
  refine ⟨_, layer_at _ fuel ["newSpan", "indexSpan", "Span.IsValid"] "spanString" _ _ (by decide), ?_⟩
  rw [fnOf_eq spanString_ir]
  refine spanString_spec _ fuel _ (layer_at _ fuel ["newSpan", "indexSpan"] "Span.IsValid" [] _ (by simp)) ?_
  rw [fnOf_eq spanIsValid_ir]
  exact spanIsValid_spec _ _

theorem base_next (fuel : Nat) : ∃ f, baseEnv fuel "scanner.next" = some f ∧ SpecNext f := by
  refine ⟨_, layer_at _ fuel ["newSpan", "indexSpan", "Span.IsValid", "spanString"] "scanner.next" _ _ (by decide), ?_⟩
  rw [fnOf_eq next_ir]
  exact next_spec _ fuel (layer_other _ _ _ _ _ (by decide))

theorem base_prev (fuel : Nat) : ∃ f, baseEnv fuel "scanner.prev" = some f ∧ SpecPrev f :=
  ⟨_, layer_at _ fuel ["newSpan", "indexSpan", "Span.IsValid", "spanString", "scanner.next"] "scanner.prev" [] _ (by simp),
    by rw [fnOf_eq prev_ir]; exact prev_spec _ _⟩

theorem up_isAlpha (fuel : Nat) (post : List String) (h : "isAlpha" ∉ post) :
    ∃ f, upEnv fuel ("isAlpha" :: post) "isAlpha" = some f ∧ SpecIsAlpha f :=
  ⟨_, layer_at _ fuel [] "isAlpha" post _ h, by rw [fnOf_eq isAlpha_ir]; exact isAlpha_spec _ _⟩

theorem up_isDigit (fuel : Nat) (post : List String) (h : "isDigit" ∉ post) :
    ∃ f, upEnv fuel ("isAlpha" :: "isDigit" :: post) "isDigit" = some f ∧ SpecIsDigit f :=
  ⟨_, layer_at _ fuel ["isAlpha"] "isDigit" post _ h, by rw [fnOf_eq isDigit_ir]; exact isDigit_spec _ _⟩

theorem up_isHexDigit (fuel : Nat) (post : List String) (h : "isHexDigit" ∉ post) :
    ∃ f, upEnv fuel ("isAlpha" :: "isDigit" :: "isHexDigit" :: post) "isHexDigit" = some f ∧ SpecIsHexDigit f := by
  refine ⟨_, layer_at _ fuel ["isAlpha", "isDigit"] "isHexDigit" post _ h, ?_⟩
  rw [fnOf_eq isHexDigit_ir]
  obtain ⟨f, hf, sf⟩ := up_isDigit fuel [] (by simp)
  exact isHexDigit_spec _ fuel f hf sf

theorem up_errorToken (fuel : Nat) (post : List String) (h : "errorToken" ∉ post) :
    ∃ f, upEnv fuel (keysClass ++ post) "errorToken" = some f ∧ SpecErrorToken f := by
  refine ⟨_, layer_at _ fuel ["isAlpha", "isDigit", "isHexDigit"] "errorToken" post _ h, ?_⟩
  rw [fnOf_eq errorToken_ir]
  exact errorToken_spec _ fuel (up_prim fuel _ _ (by decide) (by decide))

/-- everything the cursor-level code calls, in an environment that has the rune classes and `errorToken`
    and then `post` -/
theorem up_cursor (fuel : Nat) (post : List String)
    (hpost : ∀ n ∈ ["newSpan", "indexSpan", "spanString", "scanner.next", "scanner.prev", "isAlpha", "isDigit", "errorToken"],
      n ∉ post) : CursorEnv (upEnv fuel (keysClass ++ post)) where
  next := by
    obtain ⟨f, hf, sf⟩ := base_next fuel
    exact ⟨f, by rw [up_base fuel _ _ (by simp [keysClass, hpost]), hf], sf⟩
  prev := by
    obtain ⟨f, hf, sf⟩ := base_prev fuel
    exact ⟨f, by rw [up_base fuel _ _ (by simp [keysClass, hpost]), hf], sf⟩
  newSpan := by
    obtain ⟨f, hf, sf⟩ := base_newSpan fuel
    exact ⟨f, by rw [up_base fuel _ _ (by simp [keysClass, hpost]), hf], sf⟩
  indexSpan := by
    obtain ⟨f, hf, sf⟩ := base_indexSpan fuel
    exact ⟨f, by rw [up_base fuel _ _ (by simp [keysClass, hpost]), hf], sf⟩
  spanString := by
    obtain ⟨f, hf, sf⟩ := base_spanString fuel
    exact ⟨f, by rw [up_base fuel _ _ (by simp [keysClass, hpost]), hf], sf⟩
  isAlpha := up_isAlpha fuel _ (by simp [hpost])
  isDigit := up_isDigit fuel _ (by simp [hpost])
  errorToken := up_errorToken fuel post (hpost _ (by simp))

theorem up_strEnv (fuel : Nat) (post : List String)
    (hpost : ∀ n ∈ ["newSpan", "indexSpan", "spanString", "scanner.next", "scanner.prev", "isAlpha", "isDigit", "errorToken"],
      n ∉ post)
    (h1 : "strings.Builder.WriteString" ∉ post) (h2 : "strings.Builder.WriteRune" ∉ post)
    (h3 : "strings.Builder.String" ∉ post) : StrEnv (upEnv fuel (keysClass ++ post)) where
  cur := up_cursor fuel post hpost
  write := up_prim fuel _ _ (by simp [keysClass, h1]) (by decide)
  rune := up_prim fuel _ _ (by simp [keysClass, h2]) (by decide)
  str := up_prim fuel _ _ (by simp [keysClass, h3]) (by decide)

theorem up_ident (fuel : Nat) (post : List String) (h : "scanner.ident" ∉ post) :
    ∃ f, upEnv fuel (keysClass ++ "scanner.ident" :: post) "scanner.ident" = some f ∧ SpecIdent fuel f := by
  refine ⟨_, layer_at _ fuel keysClass "scanner.ident" post _ h, ?_⟩
  rw [fnOf_eq ident_ir]
  have := up_cursor fuel [] (by simp)
  rw [List.append_nil] at this
  exact ident_spec _ fuel this

theorem up_quotedIdent (fuel : Nat) (post : List String) (h : "scanner.quotedIdent" ∉ post) :
    ∃ f, upEnv fuel (keysClass ++ "scanner.ident" :: "scanner.quotedIdent" :: post) "scanner.quotedIdent" = some f ∧
      SpecQuotedIdent fuel f := by
  refine ⟨_, layer_at _ fuel (keysClass ++ ["scanner.ident"]) "scanner.quotedIdent" post _ h, ?_⟩
  rw [fnOf_eq quotedIdent_ir]
  exact quotedIdent_spec _ fuel (up_cursor fuel ["scanner.ident"] (by simp)) (up_prim fuel _ _ (by decide) (by decide))

theorem up_string (fuel : Nat) (post : List String) (h : "scanner.string" ∉ post) :
    ∃ f, upEnv fuel (keysClass ++ "scanner.ident" :: "scanner.quotedIdent" :: "scanner.string" :: post) "scanner.string" = some f ∧
      SpecString fuel f := by
  refine ⟨_, layer_at _ fuel (keysClass ++ ["scanner.ident", "scanner.quotedIdent"]) "scanner.string" post _ h, ?_⟩
  rw [fnOf_eq string_ir]
  exact string_spec _ fuel (up_strEnv fuel ["scanner.ident", "scanner.quotedIdent"] (by simp) (by simp) (by simp) (by simp))

/-- the environment in which `Scan` is interpreted has everything `Scan` calls -/
theorem scanEnv_before_Scan (fuel : Nat) :
    ScanEnv fuel (upEnv fuel (keysClass ++ ["scanner.ident", "scanner.quotedIdent", "scanner.string"])) where
  cur := up_cursor fuel _ (by simp)
  isSpace := up_prim fuel _ _ (by decide) (by decide)
  append := up_prim fuel _ _ (by decide) (by decide)
  number := up_prim fuel _ _ (by decide) (by decide)
  ident := up_ident fuel _ (by simp)
  qident := up_quotedIdent fuel _ (by simp)
  string := up_string fuel [] (by simp)

theorem scanFn_of (fuel : Nat) (key : String) (f : Fn) (h : scanEnv fuel key = some f) : scanFn fuel key = f := by
  funext args s
  simp only [scanFn, h]

theorem scanFn_Scan (fuel : Nat) :
    scanFn fuel "Scan" = interpFn (upEnv fuel (keysClass ++ ["scanner.ident", "scanner.quotedIdent", "scanner.string"])) fuel scanDecl := by
  rw [scanFn_of fuel "Scan" _ (layer_at _ fuel (keysClass ++ ["scanner.ident", "scanner.quotedIdent", "scanner.string"]) "Scan" [] _ (by simp)),
    fnOf_eq Scan_ir]
  rfl

/-! ### the sub-scanners -/

/-- **C09 (`ident` is the interpretation of its translation).**  On every source `pre ++ s` whose suffix
    `s` begins with an identifier-start byte (where `Scan` calls it), cursor at `s`: the regenerated `ident`
    returns without panic the token of the model's `scanIdent s` (kind — a keyword kind from the regenerated
    `keywords` — span, value) and leaves the cursor after it. -/
theorem C09_ident_ir (fuel : Nat) (pre s : Bytes) (l : Nat) (bs : List (Nat × Bytes)) (c : UInt8) (rest : Bytes)
    (hs : s = c :: rest) (hc : isIdentStart c = true) (hf : s.length < fuel) :
    ∃ l', scanFn fuel "scanner.ident" [.scanner] ⟨pre ++ s, pre.length, l, bs⟩ =
      .ok ([.tok (scanIdent s).kind pre.length (pre.length + (scanIdent s).width) (scanIdent s).value],
        ⟨pre ++ s, pre.length + (scanIdent s).width, l', bs⟩) := by
  obtain ⟨f, hf1, hf2⟩ := up_ident fuel ["scanner.quotedIdent", "scanner.string", "Scan"] (by simp)
  rw [scanFn_of fuel _ f hf1]
  obtain ⟨l', e⟩ := hf2 pre s l bs c rest hs hc hf
  exact ⟨l', by simpa [hp, tokAt] using e⟩

/-- **C09 (`quotedIdent`).**  On every suffix that begins with a back-quote: the token of the model's
    `scanQuotedIdent` (an error token at the end of the input or of the line; else the value is
    `strings.ReplaceAll` of the content) and the cursor after it. -/
theorem C09_quotedIdent_ir (fuel : Nat) (pre s : Bytes) (l : Nat) (bs : List (Nat × Bytes)) (rest : Bytes)
    (hs : s = 96 :: rest) (hf : s.length < fuel) :
    ∃ l', scanFn fuel "scanner.quotedIdent" [.scanner] ⟨pre ++ s, pre.length, l, bs⟩ =
      .ok ([.tok (scanQuotedIdent s).kind pre.length (pre.length + (scanQuotedIdent s).width) (scanQuotedIdent s).value],
        ⟨pre ++ s, pre.length + (scanQuotedIdent s).width, l', bs⟩) := by
  obtain ⟨f, hf1, hf2⟩ := up_quotedIdent fuel ["scanner.string", "Scan"] (by simp)
  rw [scanFn_of fuel _ f hf1]
  obtain ⟨l', e⟩ := hf2 pre s l bs rest hs hf
  exact ⟨l', by simpa [hp, tokAt] using e⟩

/-- **C09 (`string`).**  On every suffix that begins with a quote character: the token of the model's
    `scanString` (escapes evaluated; an error token for an unterminated string) and the cursor after it;
    the store may have one more `strings.Builder`. -/
theorem C09_string_ir (fuel : Nat) (pre s : Bytes) (l : Nat) (bs : List (Nat × Bytes)) (q : UInt8) (rest : Bytes)
    (hs : s = q :: rest) (hq : q = 34 ∨ q = 39) (hf : s.length < fuel) :
    ∃ l' bs', scanFn fuel "scanner.string" [.scanner] ⟨pre ++ s, pre.length, l, bs⟩ =
      .ok ([.tok (scanString s).kind pre.length (pre.length + (scanString s).width) (scanString s).value],
        ⟨pre ++ s, pre.length + (scanString s).width, l', bs'⟩) := by
  obtain ⟨f, hf1, hf2⟩ := up_string fuel ["Scan"] (by simp)
  rw [scanFn_of fuel _ f hf1]
  obtain ⟨l', bs', e⟩ := hf2 pre s l bs q rest hs hq hf
  exact ⟨l', bs', by simpa [hp, tokAt] using e⟩

/-! ### `Scan` -/

/-- **C09 (one pass through the loop of `Scan` = one step of the model).**  At every cursor position `k`
    inside the source, with any tokens `acc` collected so far: the body of the loop — `start := s.pos`,
    `s.next()`, the whole switch — appends the token (if any) of `scanOne` at the suffix, advances the cursor
    by its width and ends normally or with `continue`. -/
theorem C09_scan_step_ir (fuel : Nat) (src : Bytes) (acc : List Token) (k l : Nat) (bs : List (Nat × Bytes))
    (hk : k < src.length) (hf : src.length < fuel) :
    ∃ f c' ok' l' bs', (f = .next ∨ f = .cont) ∧
      execBlock (upEnv fuel (keysClass ++ ["scanner.ident", "scanner.quotedIdent", "scanner.string"])) fuel scanLoopBody
          ⟨[("tokens", .toks acc), ("s", .scanner), ("query", .str src)], ⟨src, k, l, bs⟩⟩ =
        .ok (f, ⟨[("ok", .bool ok'), ("c", .int c'), ("start", .int k),
            ("tokens", .toks (acc ++ (scanOne (src.drop k)).toks k)), ("s", .scanner), ("query", .str src)],
          ⟨src, k + (scanOne (src.drop k)).width, l', bs'⟩⟩) := by
  cases hd : src.drop k with
  | nil => have := List.drop_eq_nil_iff.mp hd; omega
  | cons c rest =>
    obtain ⟨f, c', ok', l', bs', h1, h2⟩ := scan_body _ fuel (scanEnv_before_Scan fuel) src acc k l bs c rest hd hf
    exact ⟨f, c', ok', l', bs', h1, h2⟩

/-- **C09 (`Scan` is the interpretation of its translation), any sufficient fuel.** -/
theorem C09_Scan_ir_fuel (fuel : Nat) (src : Bytes) (hf : src.length < fuel) : interpScan fuel src = .ok (scan src) := by
  obtain ⟨h1, e⟩ := scan_spec _ fuel (scanEnv_before_Scan fuel) src hf ⟨[], 0, 0, []⟩
  unfold interpScan
  rw [scanFn_Scan, e]

/-- **C09 HEADLINE (`Scan` is the interpretation of its translation).**  For every byte string — valid
    UTF-8 or not — interpreting the regenerated body of `Scan` (with the regenerated `ident`, `quotedIdent`,
    `string`, `isAlpha`, `isDigit`, `errorToken`, `next`, `prev`, `newSpan`, `spanString` …) with
    `src.length + 1` as the budget of every `for { }` loop ends without a panic, without getting stuck and
    without running out of fuel, and returns exactly the tokens of the model's `scan`. -/
theorem C09_Scan_ir (src : Bytes) : interpScan (src.length + 1) src = .ok (scan src) :=
  C09_Scan_ir_fuel _ src (Nat.lt_succ_self _)

def errOf {α : Type} : M α → Option IErr
  | .ok _ => none
  | .error e => some e

set_option maxRecDepth 1000000 in
/-- the budget matters: with `src.length` passes the loop of `Scan` does not reach its `break`: the outcome is
    `fuel` (and with `src.length + 1` it is not) -/
theorem C09_Scan_ir_needs_fuel :
    errOf (interpScan 3 [97, 32, 98]) = some .fuel ∧ errOf (interpScan 4 [97, 32, 98]) = none := by decide +kernel

/-- **C12 (the translated `Scan` never panics).**  For every byte string the interpretation of the regenerated
    `Scan` (and of everything it calls) with the budget `src.length + 1` is none of `panic` (a slice out of
    range, a nil `*strings.Builder`), `stuck`, `fuel`. -/
theorem C12_Scan_ir_no_panic (src : Bytes) :
    ∃ toks, interpScan (src.length + 1) src = .ok toks ∧ errOf (interpScan (src.length + 1) src) = none :=
  ⟨scan src, C09_Scan_ir src, by rw [C09_Scan_ir]; rfl⟩

/-! ### the hypotheses of the sub-scanner theorems are needed -/

set_option maxRecDepth 1000000 in
/-- `ident` on a suffix that does not begin with an identifier-start byte: on "é" (2 bytes) the Go function
    takes the whole first rune (2 bytes), the model's byte loop 1 byte -/
theorem C09_ident_ir_needs_start :
    (scanFn 3 "scanner.ident" [.scanner] ⟨[0xC3, 0xA9], 0, 0, []⟩).toOption.map (·.1) = some [.tok .ident 0 2 [0xC3, 0xA9]] ∧
    (scanIdent [0xC3, 0xA9]).width = 1 := by decide +kernel

set_option maxRecDepth 1000000 in
/-- `quotedIdent` on a suffix that does not begin with a back-quote: on "ab" the Go function returns an
    error token on the first byte, the model's function goes on to the end of the input -/
theorem C09_quotedIdent_ir_needs_backquote :
    (scanFn 3 "scanner.quotedIdent" [.scanner] ⟨[97, 98], 0, 0, []⟩).toOption.map (·.1) = some [.tok .error 0 1 []] ∧
    (scanQuotedIdent [97, 98]).width = 2 := by decide +kernel

set_option maxRecDepth 1000000 in
/-- `string` on a suffix that does not begin with a quote: on "ab" the Go function returns an error token of
    width 0 (and gives the byte back), the model's function takes 'a' for the quote -/
theorem C09_string_ir_needs_quote :
    (scanFn 3 "scanner.string" [.scanner] ⟨[97, 98], 0, 0, []⟩).toOption = some ([.tok .error 0 0 []], ⟨[97, 98], 0, 0, []⟩) ∧
    (scanString [97, 98]).width = 2 := by decide +kernel

set_option maxRecDepth 1000000 in
/-- … and their loop budget: `ident` on "abc" with 2 passes -/
theorem C09_ident_ir_needs_fuel :
    errOf (scanFn 2 "scanner.ident" [.scanner] ⟨[97, 98, 99], 0, 0, []⟩) = some .fuel ∧
    errOf (scanFn 3 "scanner.ident" [.scanner] ⟨[97, 98, 99], 0, 0, []⟩) = none := by decide +kernel

/-! ### `numberOrDot` -/

/-- the primitive `scanner.numberOrDot` of this interpreter is what the translated `numberOrDot`
    (`Facts.lexNumberIR`, `LexIR.C09_numberOrDot_ir`) returns — token kind, span, value (the message of an error
    token apart), cursor — at every cursor position where `Scan` calls it -/
theorem C09_numberOrDot_prim_tied (lib : LexIR.Lib) (fuel : Nat) (src : Bytes) (k l : Nat) (bs : List (Nat × Bytes))
    (c : UInt8) (rest : Bytes) (hd : src.drop k = c :: rest) (hc : (isDigit c || c == 46) = true) (hf : src.length < fuel) :
    ∃ l' msg, LexIR.numFn lib fuel "scanner.numberOrDot" [.scanner] ⟨src, k, l⟩ =
        .ok ([LexIR.lexTok k (scanNumberOrDot (src.drop k)) msg], ⟨src, k + (scanNumberOrDot (src.drop k)).width, l'⟩) ∧
      numberOrDotPrim ⟨src, k, l, bs⟩ =
        ([.tok (scanNumberOrDot (src.drop k)).kind k (k + (scanNumberOrDot (src.drop k)).width)
            (scanNumberOrDot (src.drop k)).value], ⟨src, k + (scanNumberOrDot (src.drop k)).width, k, bs⟩) := by
  have hk : k ≤ src.length := Nat.le_of_lt (LexIR.lt_of_drop_cons hd)
  obtain ⟨l', msg, e⟩ := LexIR.C09_numberOrDot_ir lib fuel (src.take k) (src.drop k) l (by simp; omega)
    (fun c' rest' h => by rw [hd] at h; cases h; exact hc)
  rw [List.take_append_drop, take_len src k hk] at e
  exact ⟨l', msg, e, rfl⟩

/-! ### `SplitStatements` over the translated `Scan` -/

/-- what the translated `Scan` returns (no tokens if it does not return) -/
def scanOfIR (src : Bytes) : List Token :=
  match interpScan (src.length + 1) src with
  | .ok l => l
  | .error _ => []

theorem scanOfIR_eq : scanOfIR = scan := by
  funext s
  unfold scanOfIR
  rw [C09_Scan_ir]

/-- **C15 (`SplitStatements` over the translated `Scan`).**  The regenerated body of `SplitStatements`, run
    with `Scan` = the interpretation of the regenerated `Scan`, returns the model's `splitStatements`. -/
theorem C15_split_scan_ir (f64 : TokKind → Bytes → Nat) (src : Bytes) (h : LexIR.Heap) :
    LexIR.interpSplit ⟨scanOfIR, f64⟩ [LexIR.Val.str src] h = .ok ([LexIR.Val.strs (splitStatements src)], h) := by
  have hs : (LexIR.Lib.mk scanOfIR f64).scan = scan := by dsimp only; exact scanOfIR_eq
  exact LexIR.C15_split_ir _ hs src h

-- sanity tests (evaluated): the interpretation of the regenerated IR on concrete sources
#guard (interpScan 40 (Bytes.ofString "ab `x``y` 'a\\nb' 0x1F <= // c\n ;")).toOption = some (scan (Bytes.ofString "ab `x``y` 'a\\nb' 0x1F <= // c\n ;"))
#guard (interpScan 20 (Bytes.ofString "'é\\éx' é !~")).toOption = some (scan (Bytes.ofString "'é\\éx' é !~"))
#guard (interpScan 3 (Bytes.ofString "abcdef")).toOption.isNone

end Pql.ScanIR
