/-
Property C14 — map-iteration order cannot leak.

In Go the initial scope is filled by a `for k, v := range opts.Parameters` loop, i.e. in an
arbitrary order of the (distinct) keys.  The model takes the parameters as a list; here we
prove that the result of `compileChunks` is the same for every ordering of that list.

Route: the scope is consulted only through `lookupScope`.  Two scopes that answer every lookup
alike (`ScopeEq`) are indistinguishable for `writeExpr` / `writeList` / `writeListMaybeParen'`,
`splitQueries` / `splitOps`, `Subquery.write` and `writeCtes` (Lemmas/ScopeEq, ScopeCompile);
the statement loop conses the same pair on both sides at every `let`, so it preserves
`ScopeEq`; and a permutation of a list with distinct keys gives `ScopeEq` initial scopes.
-/
import PqlModel.Lemmas.ScopeCompile
import PqlModel.Lemmas.ScopeUnused
namespace Pql.C14
open Pql

/-- what `compileChunks` does after the statement loop -/
def finishChunks (src : Bytes) (scope : Scope) (q : Option Tabular) : W :=
  match q with
  | none => .error .err
  | some t => do
    let subs ← splitQueries src scope [] t
    let ctx : Ctx := ⟨src, scope, .default⟩
    match subs.reverse with
    | [] => .error .panic
    | query :: ctesRev =>
      let ctes := ctesRev.reverse
      let withPart ← if ctes.isEmpty then pure [] else do
        let c ← writeCtes ctx ctes
        pure (.txt "WITH " :: c)
      let body ← query.write ctx
      pure (withPart ++ body ++ [.txt ";"])

theorem compileChunks_eq (src : Bytes) (params : List (Bytes × Bytes)) (stmts : List Stmt) :
    compileChunks src params stmts =
      (compileStmts src stmts (paramScope params) none >>= fun r => finishChunks src r.1 r.2) := by
  unfold compileChunks finishChunks paramScope
  rfl

/-- everything after the statement loop uses the scope only through `lookupScope` -/
theorem finishChunks_scopeEq (src : Bytes) {s s' : Scope} (h : ScopeEq s s') (q : Option Tabular) :
    finishChunks src s q = finishChunks src s' q := by
  cases q with
  | none => rfl
  | some t =>
    simp only [finishChunks, splitQueries_scopeEq h, writeCtes_scopeEq h, Subquery_write_scopeEq h]

/-- compilation from two equivalent initial scopes gives the same result -/
theorem compile_from_scopeEq (src : Bytes) (stmts : List Stmt) {s s' : Scope} (h : ScopeEq s s') :
    (compileStmts src stmts s none >>= fun r => finishChunks src r.1 r.2) =
      (compileStmts src stmts s' none >>= fun r => finishChunks src r.1 r.2) := by
  have hres := compileStmts_scopeEq src stmts s s' none h
  cases h₁ : compileStmts src stmts s none with
  | error e =>
    cases h₂ : compileStmts src stmts s' none with
    | error e' =>
      rw [h₁, h₂] at hres
      simp only [StmtsResEq] at hres
      rw [hres]
    | ok r' => rw [h₁, h₂] at hres; cases r'; exact hres.elim
  | ok r =>
    cases h₂ : compileStmts src stmts s' none with
    | error e' => rw [h₁, h₂] at hres; cases r; exact hres.elim
    | ok r' =>
      rw [h₁, h₂] at hres
      obtain ⟨sc, q⟩ := r
      obtain ⟨sc', q'⟩ := r'
      simp only [StmtsResEq] at hres
      obtain ⟨hs, rfl⟩ := hres
      show finishChunks src sc q = finishChunks src sc' q
      exact finishChunks_scopeEq src hs q

/-- **C14 (map-iteration order cannot leak).** The compiled chunks — hence the SQL text, and
    also the kind of failure — do not depend on the order in which the parameters are listed. -/
theorem C14_param_order_irrelevant (src : Bytes) (params params' : List (Bytes × Bytes)) (stmts : List Stmt)
    (hperm : params.Perm params') (hnodup : (params.map (·.1)).Nodup) :
    compileChunks src params stmts = compileChunks src params' stmts := by
  rw [compileChunks_eq, compileChunks_eq]
  exact compile_from_scopeEq src stmts (paramScope_perm hperm hnodup)

/-- the same for `compile` on source text -/
theorem C14_compile_param_order_irrelevant (src : Bytes) (params params' : List (Bytes × Bytes))
    (hperm : params.Perm params') (hnodup : (params.map (·.1)).Nodup) :
    compile params src = compile params' src := by
  unfold compile
  simp only [C14_param_order_irrelevant src params params' _ hperm hnodup]

/-! ### unused bindings do not change the output (also part of C06) -/

/-- after the statement loop: scopes that differ at a name the query does not mention -/
theorem finishChunks_off (src : Bytes) {k : Bytes} {s s' : Scope} (h : ScopeEqOff k s s') (t : Tabular)
    (hm : ∀ e ∈ tabularExprs t, exprMentions k e = false) :
    finishChunks src s (some t) = finishChunks src s' (some t) := by
  unfold finishChunks
  dsimp only
  rw [splitQueries_off h t hm []]
  cases hsq : splitQueries src s' [] t with
  | error e => rfl
  | ok subs =>
    have hall : SubsAll (fun e => exprMentions k e = false) subs :=
      splitQueries_all t hm [] subs (SubsAll.nil _) hsq
    have hw : ∀ sub ∈ subs, sub.write ⟨src, s, .default⟩ = sub.write ⟨src, s', .default⟩ :=
      fun sub hsub => Subquery_write_agree sub fun e he => writeExpr_off h e (hall sub hsub e he)
    rw [ex_bind_ok, ex_bind_ok]
    cases hrev : subs.reverse with
    | nil => rfl
    | cons query ctesRev =>
      have hsubs : subs = (query :: ctesRev).reverse := by rw [← hrev, List.reverse_reverse]
      have hq : query.write ⟨src, s, .default⟩ = query.write ⟨src, s', .default⟩ :=
        hw query (by rw [hsubs]; simp)
      have hc : writeCtes ⟨src, s, .default⟩ ctesRev.reverse = writeCtes ⟨src, s', .default⟩ ctesRev.reverse :=
        writeCtes_agree _ fun sub hsub => hw sub (by
          rw [hsubs]
          simp only [List.mem_reverse, List.mem_cons] at hsub ⊢
          exact Or.inr hsub)
      simp only [hq, hc]

/-- compilation from two initial scopes that differ at a name the program does not mention -/
theorem compile_from_scopeEqOff (src : Bytes) (stmts : List Stmt) {k : Bytes} {s s' : Scope}
    (h : ScopeEqOff k s s') (hm : ∀ e ∈ stmtsExprs stmts false, exprMentions k e = false) :
    (compileStmts src stmts s none >>= fun r => finishChunks src r.1 r.2) =
      (compileStmts src stmts s' none >>= fun r => finishChunks src r.1 r.2) := by
  have hres := compileStmts_off k src stmts s s' none h hm
  cases h₁ : compileStmts src stmts s none with
  | error e =>
    cases h₂ : compileStmts src stmts s' none with
    | error e' =>
      rw [h₁, h₂] at hres
      simp only [StmtsResEqOff] at hres
      rw [hres]
    | ok r' => rw [h₁, h₂] at hres; cases r'; exact hres.elim
  | ok r =>
    cases h₂ : compileStmts src stmts s' none with
    | error e' => rw [h₁, h₂] at hres; cases r; exact hres.elim
    | ok r' =>
      rw [h₁, h₂] at hres
      obtain ⟨sc, q⟩ := r
      obtain ⟨sc', q'⟩ := r'
      simp only [StmtsResEqOff] at hres
      obtain ⟨hs, rfl⟩ := hres
      show finishChunks src sc q = finishChunks src sc' q
      cases q with
      | none => rfl
      | some t =>
        refine finishChunks_off src hs t fun e he => ?_
        rcases stmtsExprs_query_mem stmts s none sc t h₁ e he with h0 | h0
        · cases h0
        · exact hm e h0

/-- **C14 / C06 (unused bindings do not change the output).** A parameter whose name occurs
    nowhere in the program as an unquoted single-part identifier — not in a let value before
    the query, not in an expression of the query (`project name` counts as `name`; a join
    without conditions counts as `true`) — can be added without changing the result. -/
theorem C14_unused_param_irrelevant (src : Bytes) (params : List (Bytes × Bytes)) (k val : Bytes)
    (stmts : List Stmt) (hunused : ∀ e ∈ stmtsExprs stmts false, exprMentions k e = false) :
    compileChunks src ((k, val) :: params) stmts = compileChunks src params stmts := by
  rw [compileChunks_eq, compileChunks_eq]
  exact compile_from_scopeEqOff src stmts (ScopeEqOff.extra k [Chunk.raw val] (paramScope params)) hunused

/-- … wherever the map iteration happens to produce it -/
theorem C14_unused_param_irrelevant_anywhere (src : Bytes) (params params' : List (Bytes × Bytes)) (k val : Bytes)
    (stmts : List Stmt) (hperm : params'.Perm ((k, val) :: params)) (hnodup : (params'.map (·.1)).Nodup)
    (hunused : ∀ e ∈ stmtsExprs stmts false, exprMentions k e = false) :
    compileChunks src params' stmts = compileChunks src params stmts := by
  rw [C14_param_order_irrelevant src params' _ stmts hperm hnodup]
  exact C14_unused_param_irrelevant src params k val stmts hunused

/-- why a join without conditions counts as a mention of `true`: the condition the compiler
    makes up is the unquoted name `true`, and names are looked up in the scope before the
    built-in constants — a binding called `true` replaces it -/
theorem C14_condition_less_join_reads_true :
    writeExpr ⟨[], [(Bytes.ofString "true", [.raw [48]])], .join⟩ (buildJoinCondition .nil) = .ok [.raw [48]] ∧
      writeExpr ⟨[], [], .join⟩ (buildJoinCondition .nil) = .ok [.txt "TRUE"] := by
  constructor <;> rfl

end Pql.C14
