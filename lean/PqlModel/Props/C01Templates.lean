/-
Property C01, tie by translation: the straight-line writer code of pql.go — the ten
`write*Function` rewrites and the BinaryExpr (==, !=, =~, !~, the eleven passed-through operators,
the join-mode equality), InExpr, IndexExpr and pass-through CallExpr cases of `writeExpression` — is
regenerated from the Go source on every run as templates (`Facts.writeTemplates`, translator
`harness/extract_tmpl.go`), and the hand-written model is proved to BE the interpretation of those
templates, for all operands.  A changed literal, a swapped operand, `writeExpression` in place of
`writeExpressionMaybeParen`, a dropped separator … changes the regenerated table and breaks one of
these theorems.
-/
import PqlModel.Model.Tmpl
namespace Pql.C01T
open Pql Tmpl

/-- every template the translator is expected to deliver is there, and nothing else -/
theorem C01_template_keys :
    Facts.writeTemplates.map (·.1) =
      ["BinaryExpr:TokenCaseInsensitiveEq", "BinaryExpr:TokenCaseInsensitiveNE", "BinaryExpr:TokenEq",
       "BinaryExpr:TokenEq:join", "BinaryExpr:TokenNE", "BinaryExpr:default", "CallExpr:default", "InExpr",
       "IndexExpr", "writeCountFunction", "writeCountIfFunction", "writeIfFunction", "writeIsNotNullFunction",
       "writeIsNullFunction", "writeNotFunction", "writeNowFunction", "writeStrcatFunction",
       "writeToLowerFunction", "writeToUpperFunction"] := by decide

/-- every writer named in `initKnownFunctions` has a template -/
theorem C01_writers_have_templates :
    Facts.knownFunctions.all (fun r => Facts.writeTemplates.any (·.1 == r.2.1)) = true := by decide

/-! ### the built-in rewrites -/

theorem wrapAs_maybe_fun : wrapAs "maybe" = fun a : Arg => wrapMaybe a.1 a.2 := by
  funext a; simp [wrapAs]

theorem wrapAs_plain_fun : wrapAs "plain" = fun a : Arg => a.2 := by
  funext a; simp [wrapAs]

theorem zip_map_snd {α β : Type} : ∀ (xs : List α) (ys : List β), ys.length = xs.length →
    (xs.zip ys).map (·.2) = ys
  | [], [], _ => rfl
  | [], _ :: _, h => by simp at h
  | _ :: _, [], h => by simp at h
  | x :: xs, y :: ys, h => by
    simp only [List.zip_cons_cons, List.map_cons]
    rw [zip_map_snd xs ys (by simpa using h)]

theorem toList_length : ∀ es : ExprList, es.toList.length = es.length
  | .nil => rfl
  | .cons _ es => by simp [ExprList.toList, ExprList.length, toList_length es]

theorem writeList_length (ctx : Ctx) : ∀ (es : ExprList) (as : List (List Chunk)),
    writeList ctx es = .ok as → as.length = es.length
  | .nil, as, h => by
    rw [writeList] at h
    cases h; rfl
  | .cons e es, as, h => by
    rw [writeList] at h
    cases hx : writeExpr ctx e with
    | error e' => rw [hx] at h; cases h
    | ok x =>
      cases hxs : writeList ctx es with
      | error e' => rw [hx, hxs] at h; cases h
      | ok xs =>
        rw [hx, hxs] at h
        cases h
        simp only [List.length_cons, ExprList.length]
        rw [writeList_length ctx es xs hxs]

theorem sep_eq_loop1 (sep : String) (f : Arg → List Chunk) :
    ∀ (a : Arg) (rest : List Arg),
      sepChunks sep ((a :: rest).map f) = f a ++ rest.flatMap fun x => .txt sep :: f x
  | a, [] => by simp [sepChunks]
  | a, b :: rest => by
    have ih := sep_eq_loop1 sep f b rest
    simp only [List.map_cons] at ih ⊢
    simp [sepChunks, ih]

theorem C01_not_template (args : List Arg) :
    assembleKnown "writeNotFunction" args = interp (argsEnv args) (templateOf "writeNotFunction") := by
  have ht : templateOf "writeNotFunction" = [("lit", "NOT ", ""), ("maybe", "0", "")] := by decide
  rw [ht]
  cases args <;> simp [assembleKnown, interp, item, argsEnv, wrapAs]

theorem C01_now_template (args : List Arg) :
    assembleKnown "writeNowFunction" args = interp (argsEnv args) (templateOf "writeNowFunction") := by
  have ht : templateOf "writeNowFunction" = [("lit", "CURRENT_TIMESTAMP", "")] := by decide
  rw [ht]
  simp [assembleKnown, interp, item]

theorem C01_isnull_template (args : List Arg) :
    assembleKnown "writeIsNullFunction" args = interp (argsEnv args) (templateOf "writeIsNullFunction") := by
  have ht : templateOf "writeIsNullFunction" = [("maybe", "0", ""), ("lit", " IS NULL", "")] := by decide
  rw [ht]
  cases args <;> simp [assembleKnown, interp, item, argsEnv, wrapAs]

theorem C01_isnotnull_template (args : List Arg) :
    assembleKnown "writeIsNotNullFunction" args = interp (argsEnv args) (templateOf "writeIsNotNullFunction") := by
  have ht : templateOf "writeIsNotNullFunction" = [("maybe", "0", ""), ("lit", " IS NOT NULL", "")] := by decide
  rw [ht]
  cases args <;> simp [assembleKnown, interp, item, argsEnv, wrapAs]

theorem C01_strcat_template (args : List Arg) :
    assembleKnown "writeStrcatFunction" args = interp (argsEnv args) (templateOf "writeStrcatFunction") := by
  have ht : templateOf "writeStrcatFunction" = [("maybe", "0", ""), ("loop1", " || ", "maybe:Args")] := by decide
  rw [ht]
  cases args with
  | nil => simp [assembleKnown, interp, item, argsEnv]
  | cons a rest =>
    have h := sep_eq_loop1 " || " (fun a : Arg => wrapMaybe a.1 a.2) a rest
    simp only [List.map_cons] at h
    simp [assembleKnown, interp, item, argsEnv, wrapAs_maybe_fun, wrapAs, loopKind, h]

theorem C01_count_template (args : List Arg) :
    assembleKnown "writeCountFunction" args = interp (argsEnv args) (templateOf "writeCountFunction") := by
  have ht : templateOf "writeCountFunction" = [("lit", "count()", "")] := by decide
  rw [ht]
  simp [assembleKnown, interp, item]

theorem C01_countif_template (args : List Arg) :
    assembleKnown "writeCountIfFunction" args = interp (argsEnv args) (templateOf "writeCountIfFunction") := by
  have ht : templateOf "writeCountIfFunction" =
      [("lit", "count() FILTER (WHERE ", ""), ("plain", "0", ""), ("lit", ")", "")] := by decide
  rw [ht]
  cases args <;> simp [assembleKnown, interp, item, argsEnv, wrapAs]

theorem C01_if_template (args : List Arg) :
    assembleKnown "writeIfFunction" args = interp (argsEnv args) (templateOf "writeIfFunction") := by
  have ht : templateOf "writeIfFunction" =
      [("lit", "CASE WHEN coalesce(", ""), ("plain", "0", ""), ("lit", ", FALSE) THEN ", ""), ("plain", "1", ""),
       ("lit", " ELSE ", ""), ("plain", "2", ""), ("lit", " END", "")] := by decide
  rw [ht]
  rcases args with _ | ⟨a, _ | ⟨b, _ | ⟨c, rest⟩⟩⟩ <;> simp [assembleKnown, interp, item, argsEnv, wrapAs]

theorem C01_tolower_template (args : List Arg) :
    assembleKnown "writeToLowerFunction" args = interp (argsEnv args) (templateOf "writeToLowerFunction") := by
  have ht : templateOf "writeToLowerFunction" = [("lit", "LOWER(", ""), ("plain", "0", ""), ("lit", ")", "")] := by decide
  rw [ht]
  cases args <;> simp [assembleKnown, interp, item, argsEnv, wrapAs]

theorem C01_toupper_template (args : List Arg) :
    assembleKnown "writeToUpperFunction" args = interp (argsEnv args) (templateOf "writeToUpperFunction") := by
  have ht : templateOf "writeToUpperFunction" = [("lit", "UPPER(", ""), ("plain", "0", ""), ("lit", ")", "")] := by decide
  rw [ht]
  cases args <;> simp [assembleKnown, interp, item, argsEnv, wrapAs]

/-- **C01 (built-ins are the translated Go code).**  For every writer named in the regenerated
    `initKnownFunctions` table and every argument list, the model's rewrite is the interpretation
    of the template translated from that writer's Go body. -/
theorem C01_builtin_templates (writer : String) (args : List Arg)
    (h : Facts.knownFunctions.any (fun r => r.2.1 == writer) = true) :
    assembleKnown writer args = interp (argsEnv args) (templateOf writer) := by
  have hw : writer = "writeCountFunction" ∨ writer = "writeCountIfFunction" ∨ writer = "writeIfFunction" ∨
      writer = "writeIsNotNullFunction" ∨ writer = "writeIsNullFunction" ∨ writer = "writeNotFunction" ∨
      writer = "writeNowFunction" ∨ writer = "writeStrcatFunction" ∨ writer = "writeToLowerFunction" ∨
      writer = "writeToUpperFunction" := by
    simp only [Facts.knownFunctions, List.any_cons, List.any_nil, Bool.or_false, Bool.or_eq_true, beq_iff_eq] at h
    rcases h with h | h | h | h | h | h | h | h | h | h | h <;> simp [← h]
  rcases hw with h | h | h | h | h | h | h | h | h | h <;> subst h
  · exact C01_count_template args
  · exact C01_countif_template args
  · exact C01_if_template args
  · exact C01_isnotnull_template args
  · exact C01_isnull_template args
  · exact C01_not_template args
  · exact C01_now_template args
  · exact C01_strcat_template args
  · exact C01_tolower_template args
  · exact C01_toupper_template args

/-! ### the cases of `writeExpression` -/

/-- `!=` -/
theorem C01_ne_template (ctx : Ctx) (x y : Expr) (sp : Span) :
    writeExpr ctx (.binary x sp .ne y) =
      (do let xs ← writeExpr ctx x
          let ys ← writeExpr ctx y
          interp (binEnv (x, xs) (y, ys) "") (templateOf "BinaryExpr:TokenNE")) := by
  have ht : templateOf "BinaryExpr:TokenNE" =
      [("lit", "coalesce(", ""), ("maybe", "X", ""), ("lit", " <> ", ""), ("maybe", "Y", ""), ("lit", ", FALSE)", "")] := by
    decide
  rw [ht, writeExpr]
  cases writeExpr ctx x <;> cases writeExpr ctx y <;>
    simp [interp, item, binEnv, wrapAs, Except.map, bind, Except.bind, pure, Except.pure]

/-- `=~` -/
theorem C01_cieq_template (ctx : Ctx) (x y : Expr) (sp : Span) :
    writeExpr ctx (.binary x sp .cieq y) =
      (do let xs ← writeExpr ctx x
          let ys ← writeExpr ctx y
          interp (binEnv (x, xs) (y, ys) "") (templateOf "BinaryExpr:TokenCaseInsensitiveEq")) := by
  have ht : templateOf "BinaryExpr:TokenCaseInsensitiveEq" =
      [("lit", "lower(", ""), ("plain", "X", ""), ("lit", ") = lower(", ""), ("plain", "Y", ""), ("lit", ")", "")] := by
    decide
  rw [ht, writeExpr]
  cases writeExpr ctx x <;> cases writeExpr ctx y <;>
    simp [interp, item, binEnv, wrapAs, Except.map, bind, Except.bind, pure, Except.pure]

/-- `!~` -/
theorem C01_cine_template (ctx : Ctx) (x y : Expr) (sp : Span) :
    writeExpr ctx (.binary x sp .cine y) =
      (do let xs ← writeExpr ctx x
          let ys ← writeExpr ctx y
          interp (binEnv (x, xs) (y, ys) "") (templateOf "BinaryExpr:TokenCaseInsensitiveNE")) := by
  have ht : templateOf "BinaryExpr:TokenCaseInsensitiveNE" =
      [("lit", "lower(", ""), ("plain", "X", ""), ("lit", ") <> lower(", ""), ("plain", "Y", ""), ("lit", ")", "")] := by
    decide
  rw [ht, writeExpr]
  cases writeExpr ctx x <;> cases writeExpr ctx y <;>
    simp [interp, item, binEnv, wrapAs, Except.map, bind, Except.bind, pure, Except.pure]

/-- `==`: the join-mode plain equality when both sides of the join are mentioned, the null-safe
    `coalesce(… = …, FALSE)` otherwise -/
theorem C01_eq_template (ctx : Ctx) (x y : Expr) (sp : Span) :
    writeExpr ctx (.binary x sp .eq y) =
      (do let xs ← writeExpr ctx x
          let ys ← writeExpr ctx y
          interp (binEnv (x, xs) (y, ys) "")
            (templateOf (if ctx.mode = .join ∧ ((hasJoinTerms x).1 || (hasJoinTerms y).1) ∧
                ((hasJoinTerms x).2 || (hasJoinTerms y).2) then "BinaryExpr:TokenEq:join" else "BinaryExpr:TokenEq"))) := by
  have ht1 : templateOf "BinaryExpr:TokenEq:join" = [("maybe", "X", ""), ("lit", " = ", ""), ("maybe", "Y", "")] := by
    decide
  have ht2 : templateOf "BinaryExpr:TokenEq" =
      [("lit", "coalesce(", ""), ("maybe", "X", ""), ("lit", " = ", ""), ("maybe", "Y", ""), ("lit", ", FALSE)", "")] := by
    decide
  rw [writeExpr]
  simp only [↓reduceIte]
  split
  · rw [ht1]
    cases writeExpr ctx x <;> cases writeExpr ctx y <;>
      simp [interp, item, binEnv, wrapAs, Except.map, bind, Except.bind, pure, Except.pure]
  · rw [ht2]
    cases writeExpr ctx x <;> cases writeExpr ctx y <;>
      simp [interp, item, binEnv, wrapAs, Except.map, bind, Except.bind, pure, Except.pure]

/-- the operators of `binaryOps` -/
theorem C01_plain_op_template (ctx : Ctx) (x y : Expr) (sp : Span) (op : TokKind) (sql : String)
    (h1 : op ≠ .eq) (h2 : op ≠ .ne) (h3 : op ≠ .cieq) (h4 : op ≠ .cine) (hop : binaryOpText op = some sql) :
    writeExpr ctx (.binary x sp op y) =
      (do let xs ← writeExpr ctx x
          let ys ← writeExpr ctx y
          interp (binEnv (x, xs) (y, ys) sql) (templateOf "BinaryExpr:default")) := by
  have ht : templateOf "BinaryExpr:default" =
      [("maybe", "X", ""), ("lit", " ", ""), ("var", "sqlOp", ""), ("lit", " ", ""), ("maybe", "Y", "")] := by decide
  rw [ht, writeExpr]
  simp only [h1, h2, h3, h4, ↓reduceIte, hop]
  cases writeExpr ctx x <;> cases writeExpr ctx y <;>
    simp [interp, item, binEnv, wrapAs, Except.map, bind, Except.bind, pure, Except.pure]

/-- indexing -/
theorem C01_index_template (ctx : Ctx) (x idx : Expr) (a b : Span) :
    writeExpr ctx (.index x a idx b) =
      (do let xs ← writeExpr ctx x
          let is ← writeExpr ctx idx
          interp (indexEnv (x, xs) (idx, is)) (templateOf "IndexExpr")) := by
  have ht : templateOf "IndexExpr" = [("tight", "X", ""), ("lit", "[", ""), ("plain", "Index", ""), ("lit", "]", "")] := by
    decide
  rw [ht, writeExpr]
  cases writeExpr ctx x <;> cases writeExpr ctx idx <;>
    simp [interp, item, indexEnv, wrapAs, Except.map, bind, Except.bind, pure, Except.pure]

/-- the list writers in terms of `writeList` -/
theorem writeListMaybeParen_eq (ctx : Ctx) : ∀ (es : ExprList),
    writeListMaybeParen' ctx es =
      (writeList ctx es).map (fun as => (es.toList.zip as).map fun a : Arg => wrapMaybe a.1 a.2)
  | .nil => by simp [writeListMaybeParen', writeList, Except.map, ExprList.toList]
  | .cons e es => by
    rw [writeListMaybeParen', writeList, writeListMaybeParen_eq ctx es]
    cases writeExpr ctx e <;> cases writeList ctx es <;>
      simp [Except.map, bind, Except.bind, pure, Except.pure, ExprList.toList]

/-- `x in (…)` -/
theorem C01_in_template (ctx : Ctx) (x : Expr) (vals : ExprList) (a b c : Span) :
    writeExpr ctx (.inE x a b vals c) =
      (do let xs ← writeExpr ctx x
          let vs ← writeList ctx vals
          interp (inEnv (x, xs) (vals.toList.zip vs)) (templateOf "InExpr")) := by
  have ht : templateOf "InExpr" =
      [("maybe", "X", ""), ("lit", " IN (", ""), ("loop", ", ", "maybe:Vals"), ("lit", ")", "")] := by decide
  rw [ht, writeExpr, writeListMaybeParen_eq]
  cases writeExpr ctx x <;> cases writeList ctx vals <;>
    simp [interp, item, inEnv, wrapAs_maybe_fun, wrapAs, loopKind, Except.map, bind, Except.bind, pure, Except.pure]

/-- a function that is not a built-in is passed through by name with its arguments -/
theorem C01_call_default_template (ctx : Ctx) (fn : Ident) (args : ExprList) (a b : Span)
    (h : knownFunction fn.name = none) :
    writeExpr ctx (.call fn a args b) =
      (do let as ← writeList ctx args
          interp (callEnv fn.name (args.toList.zip as)) (templateOf "CallExpr:default")) := by
  have ht : templateOf "CallExpr:default" =
      [("var", "x.Func.Name", ""), ("lit", "(", ""), ("loop", ", ", "plain:Args"), ("lit", ")", "")] := by decide
  rw [ht, writeExpr]
  simp only [h]
  cases hw : writeList ctx args with
  | error e => simp [bind, Except.bind]
  | ok as =>
    have hl := writeList_length ctx args as hw
    have hz : (args.toList.zip as).map (fun a : Arg => a.2) = as :=
      zip_map_snd _ _ (by rw [hl, toList_length])
    simp [interp, item, callEnv, wrapAs_plain_fun, loopKind, bind, Except.bind, pure, Except.pure, hz]

/-- a built-in: arity guard from the regenerated table, then the translated body -/
theorem C01_call_known_template (ctx : Ctx) (fn : Ident) (args : ExprList) (a b : Span) (writer : String) (np : Bool)
    (h : knownFunction fn.name = some (writer, np))
    (hw : Facts.knownFunctions.any (fun r => r.2.1 == writer) = true) :
    writeExpr ctx (.call fn a args b) =
      (if arityRejects writer args.length then .error .err
       else (writeList ctx args) >>= fun as => interp (argsEnv (args.toList.zip as)) (templateOf writer)) := by
  rw [writeExpr]
  simp only [h]
  split
  · rfl
  · cases writeList ctx args with
    | error e => simp [bind, Except.bind]
    | ok as => simp [bind, Except.bind, C01_builtin_templates writer _ hw]

end Pql.C01T
