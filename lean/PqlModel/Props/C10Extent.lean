/-
Property C10 — a node's overall span is the extent from its first to its last token, contains
the spans of all its parts and precedes those of its right siblings.

For every syntax tree whose `unparse` accounts, with positions, for a token list as `scan`
produces it (`TokOK`: tokens have `start ≤ stop` and are in source order) — which is what
`C08_accounted_parse` establishes for every tree `Parse` returns without error — the model of the
node's `Span()` method (`spanOf`, PqlModel/Model/Ast.lean) equals

    ⟨(first token).start, (last token).stop⟩

for trees of any depth: expressions, expression lists, sort terms, columns, render properties,
operators (from the pipe token), tabular expressions, statements; `C10_span_extent` is the
end-to-end statement for `parse`.

One hypothesis beyond `accounts` is needed from operators upwards: `tidy` (a `render` operator
without `with (…)` has neither `Lparen` nor `Rparen` set).  `unparse` does not mention those two
fields in that case, so `accounts` cannot constrain them, while `Span()` unions them;
`C10_span_extent_untidy_false` is the counterexample.  The parser only builds tidy trees
(`C10_parse_tidy`, whatever errors it reports), so the end-to-end theorem has no such hypothesis.
No source text was found (and, by `C10_span_extent`, none exists) for which a successfully
parsed tree violates the property.
-/
import PqlModel.Props.C08Full
import PqlModel.Lemmas.SpanExtentTop
import PqlModel.Lemmas.SpanExtentParts
namespace Pql.C10
open Pql Grammar

/-- from `ext` to the explicit first / last token form -/
theorem extent_form {s : Span} {us : List UTok} {ts : List Token} (hus : us ≠ [])
    (ha : accounts true us ts = true) (h : s = ext ts) :
    ∃ hne : ts ≠ [], s = ⟨(ts.head hne).start, (ts.getLast hne).stop⟩ :=
  ⟨accounts_ne_nil hus ha, by rw [h, ext_eq_head_getLast]⟩

/-! ### the span of a node is the extent of its tokens -/

/-- **C10 (expressions).** The span of an expression, of any depth, is the extent of its tokens:
    from the start of the first to the end of the last one. -/
theorem C10_span_extent_expr (e : Expr) (us : List UTok) (ts : List Token)
    (hu : unparseExpr e = some us) (hok : TokOK ts) (ha : accounts true us ts = true) :
    ∃ hne : ts ≠ [], e.spanOf = ⟨(ts.head hne).start, (ts.getLast hne).stop⟩ :=
  extent_form (unparseExpr_ne_nil hu) ha (expr_ext e us ts hu hok ha)

/-- expression lists (`in (…)` values, call arguments, join conditions): the union of the
    elements' spans (`nodeSliceSpan`) is the extent of the list's tokens -/
theorem C10_span_extent_exprList (e : Expr) (es : ExprList) (us : List UTok) (ts : List Token)
    (hu : unparseExprList (.cons e es) = some us) (hok : TokOK ts) (ha : accounts true us ts = true) :
    ∃ hne : ts ≠ [], sliceSpan (ExprList.cons e es).spansOf = ⟨(ts.head hne).start, (ts.getLast hne).stop⟩ :=
  extent_form (unparseExprList_ne_nil hu) ha (exprList_ext _ us ts hu hok ha)

/-- sort terms `x [asc|desc] [nulls first|last]` -/
theorem C10_span_extent_sortTerm (t : SortTerm) (us : List UTok) (ts : List Token)
    (hu : unparseSortTerm t = some us) (hok : TokOK ts) (ha : accounts true us ts = true) :
    ∃ hne : ts ≠ [], t.spanOf = ⟨(ts.head hne).start, (ts.getLast hne).stop⟩ :=
  extent_form (sortTerm_extSpec t us hu).1 ha ((sortTerm_extSpec t us hu).2 ts hok ha)

/-- project / extend / summarize columns `[name =] x`, `name` -/
theorem C10_span_extent_column (project : Bool) (c : Column) (us : List UTok) (ts : List Token)
    (hu : unparseColumn project c = some us) (hok : TokOK ts) (ha : accounts true us ts = true) :
    ∃ hne : ts ≠ [], c.spanOf = ⟨(ts.head hne).start, (ts.getLast hne).stop⟩ :=
  extent_form (column_extSpec project c us hu).1 ha ((column_extSpec project c us hu).2 ts hok ha)

/-- render properties `name = value` -/
theorem C10_span_extent_renderProp (p : RenderProp) (us : List UTok) (ts : List Token)
    (hu : unparseProp p = some us) (hok : TokOK ts) (ha : accounts true us ts = true) :
    ∃ hne : ts ≠ [], p.spanOf = ⟨(ts.head hne).start, (ts.getLast hne).stop⟩ :=
  extent_form (prop_extSpec p us hu).1 ha ((prop_extSpec p us hu).2 ts hok ha)

/-- **C10 (operators).** The span of an operator is the extent of its tokens, starting at the
    pipe token (all eleven operators; `join` contains a whole tabular expression). -/
theorem C10_span_extent_op (o : Op) (us : List UTok) (ts : List Token) (htidy : o.tidy = true)
    (hu : unparseOp o = some us) (hok : TokOK ts) (ha : accounts true us ts = true) :
    ∃ hne : ts ≠ [], o.spanOf = ⟨(ts.head hne).start, (ts.getLast hne).stop⟩ :=
  extent_form (unparseOp_head hu) ha (op_ext o us ts htidy hu hok ha)

theorem unparseTabular_ne_nil {t : Tabular} {us : List UTok} (h : unparseTabular t = some us) : us ≠ [] := by
  intro hn
  subst hn
  cases t <;>
    simp only [unparseTabular, Option.bind_eq_bind, Option.pure_def, Option.bind_eq_some_iff, Option.some.injEq] at h
  · simp at h
  · obtain ⟨_, _, _, _, h⟩ := h; simp at h

/-- **C10 (tabular expressions)** `source | op | op …` -/
theorem C10_span_extent_tabular (t : Tabular) (us : List UTok) (ts : List Token) (htidy : t.tidy = true)
    (hu : unparseTabular t = some us) (hok : TokOK ts) (ha : accounts true us ts = true) :
    ∃ hne : ts ≠ [], t.spanOf = ⟨(ts.head hne).start, (ts.getLast hne).stop⟩ :=
  extent_form (unparseTabular_ne_nil hu) ha (tabular_ext t us ts htidy hu hok ha)

theorem unparseStmt_ne_nil {s : Stmt} {us : List UTok} (h : unparseStmt s = some us) : us ≠ [] := by
  cases s with
  | tabular t => exact unparseTabular_ne_nil h
  | let_ kw name asg x =>
    intro hn
    subst hn
    simp only [unparseStmt, Option.bind_eq_bind, Option.pure_def, Option.bind_eq_some_iff, Option.some.injEq] at h
    obtain ⟨_, _, _, _, h⟩ := h; simp at h

/-- **C10 (statements).** -/
theorem C10_span_extent_stmt (s : Stmt) (us : List UTok) (ts : List Token) (htidy : s.tidy = true)
    (hu : unparseStmt s = some us) (hok : TokOK ts) (ha : accounts true us ts = true) :
    ∃ hne : ts ≠ [], s.spanOf = ⟨(ts.head hne).start, (ts.getLast hne).stop⟩ :=
  extent_form (unparseStmt_ne_nil hu) ha (stmt_ext s us ts htidy hu hok ha)

/-! ### end to end -/

/-- The parser only builds tidy trees — on any `TokOK` token list, whatever errors it reports. -/
theorem C10_parse_tidy (srcLen : Nat) (ts : List Token) (hok : TokOK ts) :
    ∀ s ∈ (parseTokens srcLen ts).1, s.tidy = true :=
  parseTokens_tidy srcLen ts hok

/-- **C10 (`_partial`: restricted to well-formed token lists).** If `parseTokens` succeeds without
    any error on a token list as a scanner produces it, each statement's `Span()` is the extent of
    its group of tokens. -/
theorem C10_span_extent_partial (srcLen : Nat) (ts : List Token) (stmts : List Stmt) (hok : TokOK ts)
    (h : parseTokens srcLen ts = (stmts, [])) :
    Forall₂ (fun st g => ∃ hne : g ≠ [], st.spanOf = ⟨(g.head hne).start, (g.getLast hne).stop⟩)
      stmts (splitStatementsToks ts) := by
  have hacc := C08.C08_accounted_partial srcLen ts stmts hok h
  have htidy := C10_parse_tidy srcLen ts hok
  rw [h] at htidy
  refine hacc.imp_mem ?_
  intro st hst g hg ⟨us, hus, ha⟩
  exact C10_span_extent_stmt st us g (htidy st hst) hus (splitStatementsToks_tokOK hok g hg) ha

/-- **C10 for `Parse`.** If `parse src` succeeds without any error, every statement's `Span()`
    is the extent — first token's start to last token's end — of its group of tokens of
    `scan src`; by the theorems above the same holds for every node inside, of any depth. -/
theorem C10_span_extent (src : Bytes) (stmts : List Stmt) (h : parse src = (stmts, [])) :
    Forall₂ (fun st g => ∃ hne : g ≠ [], st.spanOf = ⟨(g.head hne).start, (g.getLast hne).stop⟩)
      stmts (splitStatementsToks (scan src)) :=
  C10_span_extent_partial src.length (scan src) stmts (scan_tokOK src) h

/-- the same as equal lengths and a pointwise statement on `zip` -/
theorem C10_span_extent_zip (src : Bytes) (stmts : List Stmt) (h : parse src = (stmts, [])) :
    stmts.length = (splitStatementsToks (scan src)).length ∧
    ∀ p ∈ stmts.zip (splitStatementsToks (scan src)),
      ∃ hne : p.2 ≠ [], p.1.spanOf = ⟨(p.2.head hne).start, (p.2.getLast hne).stop⟩ :=
  ⟨(C10_span_extent src stmts h).length_eq, (C10_span_extent src stmts h).zip⟩

/-! ### a node's span contains the spans of its parts, which are in order -/

/-- **C10 (a node's span contains its parts).** Every direct sub-expression has a valid span that
    lies within the span of its parent. -/
theorem C10_span_contains_parts (e : Expr) (us : List UTok) (ts : List Token)
    (hu : unparseExpr e = some us) (hok : TokOK ts) (ha : accounts true us ts = true) :
    ∀ c ∈ e.children, c.spanOf.isValid = true ∧ Span.within c.spanOf e.spanOf := by
  rw [expr_ext e us ts hu hok ha]
  exact (expr_placed e us ts hu ha).within expr_extSpec hok

/-- **C10 (a part's span precedes those of its right siblings).** The spans of the direct
    sub-expressions — operands, `in` values, call arguments, index — are in source order:
    each ends before every later one starts. -/
theorem C10_span_precedes_sibling (e : Expr) (us : List UTok) (ts : List Token)
    (hu : unparseExpr e = some us) (hok : TokOK ts) (ha : accounts true us ts = true) :
    (e.children.map Expr.spanOf).Pairwise (fun a b => a.stop ≤ b.start) :=
  (expr_placed e us ts hu ha).pairwise expr_extSpec hok

/-- `x op y`: the left operand ends before the operator, which ends before the right operand -/
theorem C10_span_precedes_sibling_binary (x y : Expr) (os : Span) (op : TokKind) (us : List UTok)
    (ts : List Token) (hu : unparseExpr (.binary x os op y) = some us) (hok : TokOK ts)
    (ha : accounts true us ts = true) :
    x.spanOf.stop ≤ os.start ∧ os.stop ≤ y.spanOf.start ∧ x.spanOf.stop ≤ y.spanOf.start := by
  have h := binary_order hu hok ha
  have hv : os.start ≤ os.stop := by
    obtain ⟨xs, ys, _, _, rfl⟩ := unparse_binary_inv hu
    obtain ⟨tx, r, rfl, _, har⟩ := accounts_append_split ha
    obtain ⟨t, ty, rfl, hsp, _⟩ := accounts_span_cons (u := sym op os) os rfl rfl rfl har
    have := hok.right.head.le
    rw [hsp]; simp only [Token.span]; omega
  exact ⟨h.1, h.2, by omega⟩

/-- argument / value / condition lists: every element's span is valid and lies within the list's
    span, and the elements are in source order -/
theorem C10_span_list_ordered (l : ExprList) (us : List UTok) (ts : List Token)
    (hu : unparseExprList l = some us) (hok : TokOK ts) (ha : accounts true us ts = true) :
    (∀ s ∈ l.spansOf, s.isValid = true ∧ Span.within s (sliceSpan l.spansOf)) ∧
    l.spansOf.Pairwise (fun a b => a.stop ≤ b.start) := by
  have hp := exprList_placed l us ts hu ha
  rw [exprList_ext l us ts hu hok ha, spansOf_eq_map]
  refine ⟨?_, hp.pairwise expr_extSpec hok⟩
  intro s hs
  obtain ⟨c, hc, rfl⟩ := List.mem_map.mp hs
  exact hp.within expr_extSpec hok c hc

/-- **C10 (any depth).** Every sub-expression `d` of an accounted expression `e`, at any depth,
    stands for a contiguous segment `seg` of `e`'s tokens, its span is that segment's extent, and
    it lies within the span of `e`. -/
theorem C10_span_extent_deep (e d : Expr) (us : List UTok) (ts : List Token) (hs : Expr.Sub d e)
    (hu : unparseExpr e = some us) (hok : TokOK ts) (ha : accounts true us ts = true) :
    ∃ p seg q, ts = p ++ seg ++ q ∧
      (∃ hne : seg ≠ [], d.spanOf = ⟨(seg.head hne).start, (seg.getLast hne).stop⟩) ∧
      d.spanOf.isValid = true ∧ Span.within d.spanOf e.spanOf := by
  obtain ⟨p, seg, q, us', rfl, hu', ha'⟩ := expr_sub_acc hs us ts hu ha
  have hoks : TokOK seg := hok.left.right
  have hne : seg ≠ [] := accounts_ne_nil (unparseExpr_ne_nil hu') ha'
  refine ⟨p, seg, q, rfl, C10_span_extent_expr d us' seg hu' hoks ha', ?_, ?_⟩
  · rw [expr_ext d us' seg hu' hoks ha']; exact ext_valid hoks hne
  · rw [expr_ext d us' seg hu' hoks ha', expr_ext e us _ hu hok ha]
    exact ext_within_infix hok hne

/-- comma-separated items (sort terms, columns, render properties — `f` / `sp` any of
    `unparseSortTerm` / `SortTerm.spanOf`, `unparseColumn b` / `Column.spanOf`, `unparseProp` /
    `RenderProp.spanOf`, see the instances below): every item's span is valid and lies within the
    list's span; the items are in source order -/
theorem C10_span_items_ordered {α : Type} {f : α → Option (List UTok)} {sp : α → Span} (hf : ExtSpec f sp)
    (cs : List α) (css : List (List UTok)) (ts : List Token) (hl : listM f cs = some css)
    (hok : TokOK ts) (ha : accounts true (sepBy commaTok css) ts = true) :
    (∀ c ∈ cs, (sp c).isValid = true ∧ Span.within (sp c) (sliceSpan (cs.map sp))) ∧
    (cs.map sp).Pairwise (fun a b => a.stop ≤ b.start) := by
  have hp := sepBy_placed cs css ts hl ha
  rw [sepBy_ext hf cs css ts hl hok ha]
  exact ⟨hp.within hf hok, hp.pairwise hf hok⟩

theorem C10_span_sortTerms_ordered (cs : List SortTerm) (css : List (List UTok)) (ts : List Token)
    (hl : listM unparseSortTerm cs = some css) (hok : TokOK ts)
    (ha : accounts true (sepBy commaTok css) ts = true) :
    (∀ c ∈ cs, c.spanOf.isValid = true ∧ Span.within c.spanOf (sliceSpan (cs.map SortTerm.spanOf))) ∧
    (cs.map SortTerm.spanOf).Pairwise (fun a b => a.stop ≤ b.start) :=
  C10_span_items_ordered sortTerm_extSpec cs css ts hl hok ha

theorem C10_span_columns_ordered (project : Bool) (cs : List Column) (css : List (List UTok)) (ts : List Token)
    (hl : listM (unparseColumn project) cs = some css) (hok : TokOK ts)
    (ha : accounts true (sepBy commaTok css) ts = true) :
    (∀ c ∈ cs, c.spanOf.isValid = true ∧ Span.within c.spanOf (sliceSpan (cs.map Column.spanOf))) ∧
    (cs.map Column.spanOf).Pairwise (fun a b => a.stop ≤ b.start) :=
  C10_span_items_ordered (column_extSpec project) cs css ts hl hok ha

theorem C10_span_renderProps_ordered (cs : List RenderProp) (css : List (List UTok)) (ts : List Token)
    (hl : listM unparseProp cs = some css) (hok : TokOK ts)
    (ha : accounts true (sepBy commaTok css) ts = true) :
    (∀ c ∈ cs, c.spanOf.isValid = true ∧ Span.within c.spanOf (sliceSpan (cs.map RenderProp.spanOf))) ∧
    (cs.map RenderProp.spanOf).Pairwise (fun a b => a.stop ≤ b.start) :=
  C10_span_items_ordered prop_extSpec cs css ts hl hok ha

/-- the operators of a tabular expression `source | op | op …`: every operator's span is valid and
    lies within the span of the tabular expression, starts after the source name, and the
    operators are in source order -/
theorem C10_span_tabular_ops (src : Ident) (ops : OpList) (us : List UTok) (ts : List Token)
    (htidy : (Tabular.mk (some src) ops).tidy = true)
    (hu : unparseTabular (.mk (some src) ops) = some us) (hok : TokOK ts)
    (ha : accounts true us ts = true) :
    (∀ o ∈ ops.toList, o.spanOf.isValid = true ∧ Span.within o.spanOf (Tabular.mk (some src) ops).spanOf ∧
      src.span.stop ≤ o.spanOf.start) ∧
    (ops.toList.map Op.spanOf).Pairwise (fun a b => a.stop ≤ b.start) := by
  have hts := tabular_ext _ us ts htidy hu hok ha
  cases ho : unparseOps ops with
  | none => simp [unparseTabular, ho] at hu
  | some os =>
    rw [unparseTabular_mk ho, Option.some.injEq] at hu
    subst hu
    obtain ⟨tn, tos, rfl, hn, h1⟩ := accounts_span_cons (u := identTok src) src.span rfl rfl rfl ha
    have hto : ops.tidy = true := by simpa [Tabular.tidy] using htidy
    have hp := ops_placed ops os tos hto ho h1
    have hp' := hp.prepend [tn]
    rw [hts]
    refine ⟨?_, hp'.pairwise op_extSpec hok⟩
    intro o ho'
    obtain ⟨hv, hw⟩ := hp'.within op_extSpec hok o ho'
    refine ⟨hv, hw, ?_⟩
    obtain ⟨p, seg, q, rfl, hne, hsp⟩ := hp.infix op_extSpec hok.tail o ho'
    rw [hsp, hn, ← ext_single]
    have hok' : TokOK ([tn] ++ p ++ seg) := by
      have h2 : TokOK (([tn] ++ p ++ seg) ++ q) := by simpa using hok
      exact h2.left
    exact ext_stop_le_start hok' (by simp) hne

/-! ### why `tidy` is needed above the expression level -/

/-- `T | render pie` as the parser would *not* build it: `Lparen` set although there is no `with` -/
def untidyOp : Op :=
  .render ⟨2, 3⟩ ⟨4, 10⟩ (some ⟨Bytes.ofString "pie", ⟨11, 14⟩, false⟩) .null ⟨0, 0⟩ [] .null

def untidyToks : List Token :=
  [⟨.pipe, 2, 3, []⟩, ⟨.ident, 4, 10, Bytes.ofString "render"⟩, ⟨.ident, 11, 14, Bytes.ofString "pie"⟩]

/-- **finding (specification, not parser).** `unparseOp` of a `render` without `with` does not
    mention `Lparen` / `Rparen`, `Span()` unions them: for an untidy tree `accounts` holds and the
    span (`0:14`) is not the extent of the tokens (`2:14`). -/
theorem C10_span_extent_untidy_false :
    ∃ us, unparseOp untidyOp = some us ∧ accounts true us untidyToks = true ∧
      untidyOp.spanOf = ⟨0, 14⟩ ∧ ext untidyToks = ⟨2, 14⟩ ∧ untidyOp.tidy = false := by
  refine ⟨_, rfl, by decide, by decide, by decide, by decide⟩

#print axioms C10_span_extent_expr
#print axioms C10_span_extent_exprList
#print axioms C10_span_extent_sortTerm
#print axioms C10_span_extent_column
#print axioms C10_span_extent_renderProp
#print axioms C10_span_extent_op
#print axioms C10_span_extent_tabular
#print axioms C10_span_extent_stmt
#print axioms C10_parse_tidy
#print axioms C10_span_extent_partial
#print axioms C10_span_extent
#print axioms C10_span_extent_zip
#print axioms C10_span_contains_parts
#print axioms C10_span_precedes_sibling
#print axioms C10_span_precedes_sibling_binary
#print axioms C10_span_list_ordered
#print axioms C10_span_extent_deep
#print axioms C10_span_items_ordered
#print axioms C10_span_sortTerms_ordered
#print axioms C10_span_columns_ordered
#print axioms C10_span_renderProps_ordered
#print axioms C10_span_tabular_ops
#print axioms C10_span_extent_untidy_false

end Pql.C10
