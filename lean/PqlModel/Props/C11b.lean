/-
Property C11 — tree traversal reaches every node exactly once and never fails
(theorems about the `walkLoop` model, for all trees of any depth).

`Walk` is specified as a recursive pre-order with pruning (`preNode` / `preList`, in
`PqlModel/Lemmas/WalkLemmas.lean`); the explicit-stack loop is shown to compute it, and the
clauses of the property are read off the recursive description.
-/
import PqlModel.Lemmas.WalkLemmas
import PqlModel.Lemmas.ParseGood
namespace Pql.C11
open Pql

/-- termination measure: the children a case pushes are strictly smaller than the node -/
theorem C11_children_size (n : Node) (kids : List Node) (h : n.children = some kids) :
    (kids.map Node.size).sum < n.size :=
  children_size n kids h

/-- The loop computes the recursive pre-order: every stack of well-formed nodes, any visitor,
    any starting call index, any fuel above the total size of the stack. -/
theorem walk_eq_preorder (decide : Nat → Bool) (fuel i : Nat) (stack : List Node)
    (hs : ∀ n ∈ stack, NoPanic n) (hf : (stack.map Node.size).sum < fuel) :
    walkLoop decide fuel i stack = (preList decide i stack).1 :=
  walkLoop_eq_preList decide fuel i stack hs hf

/-- `Walk(n, visit)` is the recursive pre-order of `n` (the fuel `n.size + 1` of the model
    is enough). -/
theorem walk_eq_preNode (decide : Nat → Bool) (n : Node) (h : NoPanic n) :
    walk decide n = (preNode decide 0 n).1 := by
  unfold walk
  rw [walkLoop_eq_preList decide (n.size + 1) 0 [n] (by simpa using h) (by simp),
    preList_singleton]

/-- The recursive description, one level unfolded: the root's event first; if the visitor
    answers true, the pre-orders of the children, in order; if it answers false, nothing else. -/
theorem C11_walk_unfold (decide : Nat → Bool) (n : Node) (kids : List Node) (h : NoPanic n)
    (hc : n.children = some kids) :
    walk decide n = eventOf n :: (if decide 0 then (preList decide 1 kids).1 else []) := by
  rw [walk_eq_preNode decide n h, preNode_eq hc]
  cases decide 0 <;> simp

/-- never panics -/
theorem C11_no_panic (decide : Nat → Bool) (n : Node) (h : NoPanic n) :
    WalkEvent.panic ∉ walk decide n := by
  rw [walk_eq_preNode decide n h]
  intro hp
  have := (preNode_sublist decide h 0).subset hp
  obtain ⟨m, _, hm⟩ := List.mem_map.1 this
  exact eventOf_ne_panic m hm

/-- A visitor that always answers true is called exactly once for every node of the tree, in
    pre-order (parents before their children, children in order). -/
theorem C11_visits_all (n : Node) (h : NoPanic n) :
    walk (fun _ => true) n = (allNodes n).map eventOf := by
  rw [walk_eq_preNode _ n h, preNode_all h]

/-- Whatever the visitor answers, what it sees is a sub-sequence of the full pre-order: no node
    twice, none out of order, nothing that is not a node of the tree. -/
theorem C11_visits_sublist (decide : Nat → Bool) (n : Node) (h : NoPanic n) :
    (walk decide n).Sublist ((allNodes n).map eventOf) := by
  rw [walk_eq_preNode decide n h]
  exact preNode_sublist decide h 0

/-- The visitor's calls are numbered like the events: after the walk it has been called
    exactly once per event (`decide j` is the answer given for the `j`-th event). -/
theorem C11_call_index (decide : Nat → Bool) (n : Node) (h : NoPanic n) :
    (preNode decide 0 n).2 = (walk decide n).length := by
  rw [walk_eq_preNode decide n h, preNode_index decide h 0]
  omega

/-- returning false at the root skips all its descendants -/
theorem C11_prune (decide : Nat → Bool) (n : Node) (h : NoPanic n) (hd : decide 0 = false) :
    walk decide n = [eventOf n] := by
  rw [walk_eq_preNode decide n h, preNode_false n hd]

/-- Returning false at any node skips exactly that node's descendants: the node contributes
    its own event only, and the traversal goes on with what was below it on the stack, the
    visitor's next call being call `i + 1`. -/
theorem C11_prune_inner (decide : Nat → Bool) (fuel i : Nat) (n : Node) (rest : List Node)
    (hs : ∀ m ∈ n :: rest, NoPanic m) (hf : ((n :: rest).map Node.size).sum < fuel)
    (hd : decide i = false) :
    walkLoop decide fuel i (n :: rest) = eventOf n :: (preList decide (i + 1) rest).1 := by
  rw [walkLoop_eq_preList decide fuel i (n :: rest) hs hf, preList_cons, preNode_false n hd]
  rfl

/-- … while returning true descends: the node's event, then its children's pre-orders, then
    the rest of the stack. -/
theorem C11_descend_inner (decide : Nat → Bool) (fuel i : Nat) (n : Node) (kids rest : List Node)
    (hs : ∀ m ∈ n :: rest, NoPanic m) (hf : ((n :: rest).map Node.size).sum < fuel)
    (hc : n.children = some kids) (hd : decide i = true) :
    walkLoop decide fuel i (n :: rest) =
      eventOf n :: ((preList decide (i + 1) kids).1 ++
        (preList decide (preList decide (i + 1) kids).2 rest).1) := by
  rw [walkLoop_eq_preList decide fuel i (n :: rest) hs hf, preList_cons, preNode_true hd hc]
  rfl

/-- never calls the visitor with a nil node -/
theorem C11_no_nil (decide : Nat → Bool) (n : Node) (h : Complete n) :
    WalkEvent.visitNil ∉ walk decide n := by
  rw [walk_eq_preNode decide n h.noPanic]
  intro hp
  have := (preNode_sublist decide h.noPanic 0).subset hp
  obtain ⟨m, hm, he⟩ := List.mem_map.1 this
  exact h.allNodes_label m hm (eventOf_eq_visitNil.1 he)

/-! ### successfully parsed trees are `Complete`

`Good` (WalkLemmas) is the structural reading of `Complete` on the AST types: no nil in a
required position.  The parser model returns `Good` trees whenever it reports no error
(ParseGood), so all of the above applies to every successfully parsed program. -/

/-- an expression parsed without error has no nil sub-expression: `Walk` is total on it -/
theorem C11_parsed_expr_complete (c : PCtx) (fuel : Nat) (ts rest : List Token) (e : Expr)
    (h : pExpr c fuel ts = ⟨e, [], rest⟩) : Complete (.expr e) := by
  have := pExpr_good (c := c) (fuel := fuel) (ts := ts) (by rw [h])
  rw [h] at this
  exact Expr.Good.complete e this

/-- every statement of a program that parses without error is `Complete` -/
theorem C11_parsed_complete (srcLen : Nat) (ts : List Token) (stmts : List Stmt)
    (h : parseTokens srcLen ts = (stmts, [])) : ∀ s ∈ stmts, Complete (Node.ofStmt s) :=
  fun s hs => Stmt.Good.complete s (parseTokens_good h s hs)

/-- C11 for parsed programs: on every statement of a successfully parsed program, `Walk` never
    panics, never calls the visitor with a nil node, and (with a visitor that always answers
    true) calls it exactly once per node, in pre-order. -/
theorem C11_parsed_walk (src : Bytes) (stmts : List Stmt) (h : parse src = (stmts, []))
    (s : Stmt) (hs : s ∈ stmts) :
    (∀ decide, WalkEvent.panic ∉ walk decide (Node.ofStmt s)) ∧
    (∀ decide, WalkEvent.visitNil ∉ walk decide (Node.ofStmt s)) ∧
    walk (fun _ => true) (Node.ofStmt s) = (allNodes (Node.ofStmt s)).map eventOf := by
  have hc : Complete (Node.ofStmt s) := C11_parsed_complete _ _ stmts h s hs
  exact ⟨fun d => C11_no_panic d _ hc.noPanic, fun d => C11_no_nil d _ hc,
    C11_visits_all _ hc.noPanic⟩

end Pql.C11
