/-
Property C02 (and C03, C05), tie by translation: `splitQueries` and `chainSubquery`.

`harness/extract_split.go` regenerates on every run, from the go/ast of pql.go, an IR of the two
functions (`Facts.splitIR`: local variables, pointers into a heap of `subquery` objects,
`&subquery{…}`, field reads and writes through a pointer, `append`, slice indexing, the operator loop
with its type switch, early `return nil, err`, the recursive call, calls of `chainSubquery`,
`canAttachSort`, `subqueryName`, `quoteIdentifier`, `dataSourceSQL`, `writeExpression`;
`Facts.splitLoop`, `Facts.splitCases`, `Facts.splitParams`).  `Model/SplitIR.lean` interprets the IR
over the same heap the hand-written imperative machine of Lemmas/SplitImpMachine.lean uses.

This file proves that the hand-written machine IS the interpretation of the regenerated IR:

  `C02_chain_ir`        `chainSubquery`: interpretation = `SplitImp.chainSubqueryI`
  `C02_split_ir`        `splitQueries`:  interpretation = `SplitImp.splitQueriesI` — for every source,
                        scope, heap, slice `dst` and tabular expression (any length, joins nested to
                        any depth): the same resulting heap and slice, or the same error / panic;
                        never `stuck`
  `C02_split_ir_fuel`   the recursion fuel of the interpreter never runs out: every fuel above the
                        join nesting depth gives the same result (and `C02_split_ir_fuel_needed`:
                        with less, the interpreter reports `stuck`, so the bound is not vacuous)
  `C02_split_ir_refines_model`  composed with `SplitImp.C02_splitQueries_refines`: the FUNCTIONAL model
                        `splitQueries` of Model/Compile.lean (the one every C02/C03/C05 theorem is
                        about) is what the translated Go code computes, read through the final heap.

A changed Go statement changes a regenerated unit, and one of the `…_ir` facts of
Lemmas/SplitIRBasic.lean (decoded unit = expected unit) stops being true; a new statement shape makes
the translator refuse.
-/
import PqlModel.Lemmas.SplitIRJoin
import PqlModel.Props.C02SplitImperative
namespace Pql.SplitIR
open Pql
set_option linter.unusedSimpArgs false

/-! ### the units the type switch selects -/

theorem key_as (p kw : Span) (name : Option Ident) :
    ((caseKey (opTypeName (.as_ p kw name))).bind fun k => decode (irOf k)) = some asIR := by rfl
theorem key_sort (p kw : Span) (terms : List SortTerm) :
    ((caseKey (opTypeName (.sort p kw terms))).bind fun k => decode (irOf k)) = some sortIR := by rfl
theorem key_take (p kw : Span) (n : Expr) :
    ((caseKey (opTypeName (.take p kw n))).bind fun k => decode (irOf k)) = some takeIR := by rfl
theorem key_top (p kw : Span) (n : Expr) (by_ : Span) (col : Option SortTerm) :
    ((caseKey (opTypeName (.top p kw n by_ col))).bind fun k => decode (irOf k)) = some topIR := by rfl
theorem key_count (p kw : Span) :
    ((caseKey (opTypeName (.count p kw))).bind fun k => decode (irOf k)) = some defaultIR := by rfl
theorem key_where (p kw : Span) (e : Expr) :
    ((caseKey (opTypeName (.where_ p kw e))).bind fun k => decode (irOf k)) = some defaultIR := by rfl
theorem key_project (p kw : Span) (cols : List Column) :
    ((caseKey (opTypeName (.project p kw cols))).bind fun k => decode (irOf k)) = some defaultIR := by rfl
theorem key_extend (p kw : Span) (cols : List Column) :
    ((caseKey (opTypeName (.extend p kw cols))).bind fun k => decode (irOf k)) = some defaultIR := by rfl
theorem key_summarize (p kw : Span) (cols : List Column) (by_ : Span) (g : List Column) :
    ((caseKey (opTypeName (.summarize p kw cols by_ g))).bind fun k => decode (irOf k)) = some defaultIR := by rfl
theorem key_render (p kw : Span) (chart : Option Ident) (w lp : Span) (props : List RenderProp) (rp : Span) :
    ((caseKey (opTypeName (.render p kw chart w lp props rp))).bind fun k => decode (irOf k)) = some defaultIR := by
  rfl
set_option maxRecDepth 4000 in
theorem key_join (p kw kind ka : Span) (flavor : Option Ident) (lp : Span) (right : Tabular) (rp on : Span)
    (conds : ExprList) :
    ((caseKey (opTypeName (.join p kw kind ka flavor lp right rp on conds))).bind fun k => decode (irOf k)) =
      some (joinHeadIR ++ joinTailIR) := by rfl

/-- the loop variable and the slice the loop runs over -/
theorem loop_header : Facts.splitLoop = ["op", "expr", "Operators"] := rfl

/-! ### one iteration -/

section
variable (self : SplitImp.Heap → List Val → IM (SplitImp.Heap × Val)) (src : Bytes)
  (scope : List (Bytes × List Chunk)) (source : Option Ident) (ops : OpList) (k : Nat)

theorem leave_case (o : Op) (st' st : SplitImp.St) :
    (caseState src scope source ops k o st').leave (frameState src scope source ops k st) =
      frameState src scope source ops k st' := by
  simp [State.leave, caseState, frameState, frameVars]

/-- "the loop of the interpreter, started on the frame of `st`, is the machine's loop" -/
def LoopOk (os : OpList) : Prop :=
  ∀ st : SplitImp.St,
    loop (callWith self) "op" os (frameState src scope source ops k st) =
      liftW (SplitImp.loopI src scope source k st os) >>= fun st' => .ok (frameState src scope source ops k st')

/-- an iteration on an operator that is not a join -/
theorem loop_step (o : Op) (os : OpList) (body : List Stmt) (hj : SplitImp.isJoin o = false)
    (hk : ((caseKey (opTypeName o)).bind fun k => decode (irOf k)) = some body)
    (hs : StepOk self src scope source ops k body o) (ih : LoopOk self src scope source ops k os) :
    LoopOk self src scope source ops k (.cons o os) := by
  intro st
  rw [loop, hk, SplitImp.loopI_cons src scope source k st o os hj]
  show (execBlock (callWith self) body (caseState src scope source ops k o st) >>= fun st1 =>
    loop (callWith self) "op" os (st1.leave (frameState src scope source ops k st))) = _
  rw [hs st]
  cases SplitImp.stepI source k o st with
  | error e => rfl
  | ok st1 =>
    simp only [liftW_ok, bind_ok, leave_case]
    exact ih st1

/-- an iteration on a join, given that the callee behaves like the machine on the right-hand side -/
theorem loop_join (p kw kind ka : Span) (flavor : Option Ident) (lp : Span) (right : Tabular) (rp on : Span)
    (conds : ExprList) (os : OpList)
    (hself : ∀ h d, self h [.slice d, .str src, .scope scope, .tab right] =
      liftW (SplitImp.splitQueriesI src scope h d right) >>= fun r => .ok (r.1, Val.slice r.2))
    (ih : LoopOk self src scope source ops k os) :
    LoopOk self src scope source ops k (.cons (.join p kw kind ka flavor lp right rp on conds) os) := by
  intro st
  rw [loop, key_join, SplitImp.loopI_join]
  show (execBlock (callWith self) (joinHeadIR ++ joinTailIR)
      (caseState src scope source ops k (.join p kw kind ka flavor lp right rp on conds) st) >>= fun st1 =>
    loop (callWith self) "op" os (st1.leave (frameState src scope source ops k st))) = _
  rw [execBlock_append, exec_joinHead self src scope source ops k p kw kind ka flavor lp right rp on conds hself st]
  cases SplitImp.splitQueriesI src scope st.heap st.dst right with
  | error e => rfl
  | ok r =>
    simp only [liftW_ok, bind_ok]
    have ht := exec_joinTail self src scope source ops k p kw kind ka flavor lp right rp on conds
      ((st.dst.length : Int) - 1) { st with heap := r.1, dst := r.2 } st
    cases hx : execBlock (callWith self) joinTailIR
        (joinState src scope source ops k (.join p kw kind ka flavor lp right rp on conds)
          ((st.dst.length : Int) - 1) { st with heap := r.1, dst := r.2 }) with
    | error e =>
      rw [hx] at ht
      cases hm : SplitImp.joinTailI src scope source k ((st.dst.length : Int) - 1) flavor conds ⟨r.1, r.2, st.last⟩ with
      | error e' =>
        rw [hm] at ht
        simp only [bind_error, liftW_error] at ht ⊢
        exact ht
      | ok st2 => rw [hm] at ht; simp [bind_error, bind_ok, liftW_ok] at ht
    | ok s =>
      rw [hx] at ht
      cases hm : SplitImp.joinTailI src scope source k ((st.dst.length : Int) - 1) flavor conds ⟨r.1, r.2, st.last⟩ with
      | error e' => rw [hm] at ht; simp [bind_error, bind_ok, liftW_error] at ht
      | ok st2 =>
        rw [hm] at ht
        simp only [bind_ok, liftW_ok, Except.ok.injEq] at ht ⊢
        rw [ht]
        exact ih st2

/-! ### before and after the loop -/

theorem exec_pre (h : SplitImp.Heap) (dst : List SplitImp.Addr) :
    execBlock (callWith self) preIR
        ⟨h, [("dst", .slice dst), ("source", .str src), ("scope", .scope scope), ("expr", .tab (.mk source ops))]⟩ =
      .ok (frameState src scope source ops dst.length ⟨h, dst, none⟩) := by
  ir_simp [preIR, frameState, frameVars]

theorem exec_post (st : SplitImp.St) :
    (execBlock (callWith self) postIR (frameState src scope source ops k st) >>= fun s =>
      s.get "return" >>= fun r => .ok (s.heap, r)) =
      liftW (SplitImp.finishI source k st) >>= fun r => .ok (r.1, Val.slice r.2) := by
  by_cases hk : st.dst.length = k
  · step_simp [postIR, SplitImp.finishI, hk]
  · have hk' : ¬ ((st.dst.length : Int) = (k : Int)) := by omega
    step_simp [postIR, SplitImp.finishI, hk, hk']

end

/-! ### the whole function, for every nesting depth -/

mutual
theorem run_tab (src : Bytes) (scope : List (Bytes × List Chunk)) :
    ∀ (t : Tabular) (n : Nat), tabDepth t < n → ∀ (h : SplitImp.Heap) (dst : List SplitImp.Addr),
      runSplit n h [.slice dst, .str src, .scope scope, .tab t] =
        liftW (SplitImp.splitQueriesI src scope h dst t) >>= fun r => .ok (r.1, Val.slice r.2)
  | .nil, n, hn, h, dst => by
    cases n with
    | zero => omega
    | succ m =>
      have hb : bindParams "splitQueries" [.slice dst, .str src, .scope scope, .tab .nil] =
          .ok [("dst", .slice dst), ("source", .str src), ("scope", .scope scope), ("expr", .tab .nil)] := rfl
      unfold runSplit interpSplitBody SplitImp.splitQueriesI
      rw [hb, pre_ir, post_ir, loop_header]
      ir_simp [preIR, opsAt]
  | .mk source ops, n, hn, h, dst => by
    cases n with
    | zero => omega
    | succ m =>
      have hb : bindParams "splitQueries" [.slice dst, .str src, .scope scope, .tab (.mk source ops)] =
          .ok [("dst", .slice dst), ("source", .str src), ("scope", .scope scope), ("expr", .tab (.mk source ops))] :=
        rfl
      have hl := run_ops src scope ops m (by simp only [tabDepth] at hn; omega) source ops dst.length
      unfold runSplit interpSplitBody SplitImp.splitQueriesI
      rw [hb, pre_ir, post_ir, loop_header]
      simp only [bind_ok, exec_pre]
      have hget : (frameState src scope source ops dst.length ⟨h, dst, none⟩).get "expr" >>= (opsAt · "Operators") =
          .ok ops := by
        simp [frameState, frameVars, State.get, opsAt, bind_ok]
      rw [hget, bind_ok, hl ⟨h, dst, none⟩, liftW_bind]
      cases SplitImp.loopI src scope source dst.length ⟨h, dst, none⟩ ops with
      | error e => rfl
      | ok st1 =>
        simp only [liftW_ok, bind_ok]
        exact exec_post (runSplit m) src scope source ops dst.length st1

theorem run_ops (src : Bytes) (scope : List (Bytes × List Chunk)) :
    ∀ (os : OpList) (n : Nat), opsDepth os ≤ n → ∀ (source : Option Ident) (ops : OpList) (k : Nat),
      LoopOk (runSplit n) src scope source ops k os
  | .nil, n, _, source, ops, k => by
    intro st
    rw [loop, SplitImp.loopI]
    rfl
  | .cons (.join p kw kind ka flavor lp right rp on conds) os, n, hn, source, ops, k => by
    simp only [opsDepth] at hn
    exact loop_join (runSplit n) src scope source ops k p kw kind ka flavor lp right rp on conds os
      (run_tab src scope right n (by omega)) (run_ops src scope os n (by omega) source ops k)
  | .cons (.as_ p kw name) os, n, hn, source, ops, k =>
    loop_step _ src scope source ops k _ os _ rfl (key_as p kw name) (exec_as _ src scope source ops k p kw name)
      (run_ops src scope os n (by simpa only [opsDepth] using hn) source ops k)
  | .cons (.sort p kw terms) os, n, hn, source, ops, k =>
    loop_step _ src scope source ops k _ os _ rfl (key_sort p kw terms) (exec_sort _ src scope source ops k p kw terms)
      (run_ops src scope os n (by simpa only [opsDepth] using hn) source ops k)
  | .cons (.take p kw c) os, n, hn, source, ops, k =>
    loop_step _ src scope source ops k _ os _ rfl (key_take p kw c) (exec_take _ src scope source ops k p kw c)
      (run_ops src scope os n (by simpa only [opsDepth] using hn) source ops k)
  | .cons (.top p kw c by_ col) os, n, hn, source, ops, k =>
    loop_step _ src scope source ops k _ os _ rfl (key_top p kw c by_ col)
      (exec_top _ src scope source ops k p kw c by_ col)
      (run_ops src scope os n (by simpa only [opsDepth] using hn) source ops k)
  | .cons (.count p kw) os, n, hn, source, ops, k =>
    loop_step _ src scope source ops k _ os _ rfl (key_count p kw) (exec_count _ src scope source ops k p kw)
      (run_ops src scope os n (by simpa only [opsDepth] using hn) source ops k)
  | .cons (.where_ p kw e) os, n, hn, source, ops, k =>
    loop_step _ src scope source ops k _ os _ rfl (key_where p kw e) (exec_where _ src scope source ops k p kw e)
      (run_ops src scope os n (by simpa only [opsDepth] using hn) source ops k)
  | .cons (.project p kw cols) os, n, hn, source, ops, k =>
    loop_step _ src scope source ops k _ os _ rfl (key_project p kw cols)
      (exec_project _ src scope source ops k p kw cols)
      (run_ops src scope os n (by simpa only [opsDepth] using hn) source ops k)
  | .cons (.extend p kw cols) os, n, hn, source, ops, k =>
    loop_step _ src scope source ops k _ os _ rfl (key_extend p kw cols)
      (exec_extend _ src scope source ops k p kw cols)
      (run_ops src scope os n (by simpa only [opsDepth] using hn) source ops k)
  | .cons (.summarize p kw cols by_ g) os, n, hn, source, ops, k =>
    loop_step _ src scope source ops k _ os _ rfl (key_summarize p kw cols by_ g)
      (exec_summarize _ src scope source ops k p kw cols by_ g)
      (run_ops src scope os n (by simpa only [opsDepth] using hn) source ops k)
  | .cons (.render p kw chart w lp props rp) os, n, hn, source, ops, k =>
    loop_step _ src scope source ops k _ os _ rfl (key_render p kw chart w lp props rp)
      (exec_render _ src scope source ops k p kw chart w lp props rp)
      (run_ops src scope os n (by simpa only [opsDepth] using hn) source ops k)
end

/-! ### headline theorems -/

/-- **`chainSubquery` is translated code.**  For every heap, slice, `dstStart` and data source:
    interpreting the regenerated body of `chainSubquery` on a fresh frame gives the heap and the
    pointer the machine's `chainSubqueryI` gives, or the same panic. -/
theorem C02_chain_ir (h : SplitImp.Heap) (dst : List SplitImp.Addr) (dstStart : Nat) (s : Option Ident) :
    interpChain h [.slice dst, .int dstStart, .src s] =
      liftW (SplitImp.chainSubqueryI h dst dstStart s) >>= fun r => .ok (r.1, Val.ptr (some r.2)) :=
  interpChain_eq h dst dstStart s

theorem sliceResult_lift (x : Except WErr (SplitImp.Heap × List SplitImp.Addr)) :
    (liftW x >>= fun r => (.ok (r.1, Val.slice r.2) : IM (SplitImp.Heap × Val))) >>= sliceResult = liftW x := by
  cases x with
  | error e => rfl
  | ok r => cases r; rfl

/-- every fuel above the join nesting depth of the expression gives the machine's result: the
    interpreter's recursion fuel never runs out -/
theorem C02_split_ir_fuel (src : Bytes) (scope : List (Bytes × List Chunk)) (h : SplitImp.Heap)
    (dst : List SplitImp.Addr) (t : Tabular) (fuel : Nat) (hf : tabDepth t < fuel) :
    interpSplitFuel fuel src scope h dst t = liftW (SplitImp.splitQueriesI src scope h dst t) := by
  unfold interpSplitFuel
  rw [run_tab src scope t fuel hf h dst, sliceResult_lift]

/-- **The hand-written imperative machine is the interpretation of the regenerated IR.**  For every
    source text, scope, heap, slice `dst` and tabular expression (any number of operators, joins
    nested to any depth): interpreting the IR that `harness/extract_split.go` regenerates from the
    go/ast of `splitQueries` and `chainSubquery` yields exactly the heap and the slice of addresses
    `SplitImp.splitQueriesI` yields, and when one fails the other fails in the same way (error return
    or panic); the interpreter is never `stuck`. -/
theorem C02_split_ir (src : Bytes) (scope : List (Bytes × List Chunk)) (h : SplitImp.Heap)
    (dst : List SplitImp.Addr) (t : Tabular) :
    interpSplit src scope h dst t = liftW (SplitImp.splitQueriesI src scope h dst t) :=
  C02_split_ir_fuel src scope h dst t (tabDepth t + 1) (Nat.lt_succ_self _)

/-- `liftW` never produces `stuck` -/
theorem liftW_ne_stuck {α : Type} (x : Except WErr α) : liftW x ≠ (stuck : IM α) := by
  cases x <;> simp [liftW, stuck]

theorem C02_split_ir_not_stuck (src : Bytes) (scope : List (Bytes × List Chunk)) (h : SplitImp.Heap)
    (dst : List SplitImp.Addr) (t : Tabular) : interpSplit src scope h dst t ≠ stuck := by
  rw [C02_split_ir]
  exact liftW_ne_stuck _

theorem map_liftW {α β : Type} (f : α → β) (x : Except WErr α) : (liftW x).map f = liftW (x.map f) := by
  cases x <;> rfl

/-- **The functional model is a theorem about translated Go code.**  `C02_split_ir` composed with
    the refinement `SplitImp.C02_splitQueries_refines`: for every heap and slice without dangling
    pointers and every expression whose dereferenced positions are not nil (`skeletonOk`; both
    hypotheses are necessary, `SplitImp.C02_refines_needs_valid/_source/_as_name`, and hold for every
    tree an error-free parse returns, `SplitImp.skeletonOk_of_parsed`), interpreting the regenerated
    IR and reading the returned slice through the final heap gives exactly what the functional
    `splitQueries` of Model/Compile.lean computes on the list the initial slice denotes. -/
theorem C02_split_ir_refines_model (src : Bytes) (scope : List (Bytes × List Chunk)) (t : Tabular)
    (h : SplitImp.Heap) (dst : List SplitImp.Addr) (hv : SplitImp.validDst h dst = true)
    (hg : SplitImp.skeletonOk t = true) :
    (interpSplit src scope h dst t).map (fun r => SplitImp.abs r.1 r.2) =
      liftW (splitQueries src scope (SplitImp.abs h dst) t) := by
  rw [C02_split_ir, map_liftW, SplitImp.C02_splitQueries_refines src scope t h dst hv hg]

/-- `splitQueries(nil, source, scope, expr)`, the call in `Compile` -/
theorem C02_split_ir_refines_model_top (src : Bytes) (scope : List (Bytes × List Chunk)) (t : Tabular)
    (hg : SplitImp.skeletonOk t = true) :
    (interpSplit src scope #[] [] t).map (fun r => SplitImp.abs r.1 r.2) = liftW (splitQueries src scope [] t) :=
  C02_split_ir_refines_model src scope t #[] [] rfl hg

/-! ### the fuel bound is not vacuous; a worked instance -/

def isStuck {α : Type} : IM α → Bool
  | .error .stuck => true
  | _ => false

/-- `T | join (U) on a` -/
def exJoin : Tabular :=
  .mk (some ⟨Bytes.ofString "T", .zero, false⟩)
    (.cons (.join .zero .zero .zero .zero none .zero (.mk (some ⟨Bytes.ofString "U", .zero, false⟩) .nil) .zero .zero
      (.cons (.qident [⟨Bytes.ofString "a", .zero, false⟩]) .nil)) .nil)

/-- with fuel equal to the nesting depth the interpreter runs out of fuel at the recursive call and
    says so (`stuck`), while the machine succeeds: the hypothesis of `C02_split_ir_fuel` is needed -/
theorem C02_split_ir_fuel_needed :
    tabDepth exJoin = 1 ∧ isStuck (interpSplitFuel 1 [] [] #[] [] exJoin) = true ∧
      (SplitImp.splitQueriesI [] [] #[] [] exJoin).toBool = true := by
  refine ⟨rfl, ?_, ?_⟩
  · rfl
  · rfl

/-- a worked instance of the corollary: the pipeline of Props/C02SplitImperative.lean -/
example : (interpSplit [] [] #[] [] SplitImp.exPipeline).map (fun r => SplitImp.abs r.1 r.2) =
    liftW (splitQueries [] [] [] SplitImp.exPipeline) :=
  C02_split_ir_refines_model_top [] [] SplitImp.exPipeline (by decide)

end Pql.SplitIR
