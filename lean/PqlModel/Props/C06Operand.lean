/-
Property C06 / C01 — "the substituted value always acts as one operand, whatever operators surround
the reference": the lexical and the syntactic round trip of the expression writer, for every scope
the statement loop builds from let statements (the earlier theorems `C01_lexRender`,
`C01_parse_roundtrip_partial`, `C01_operand_is_unit` are the case `ctx.scope = []`).

* `ScopeLetsEnv src scope env` / `ScopeLets src scope` (Lemmas/ScopeRTLets.lean): `scope` consists of
  entries `(n, wrapTight x cs)` with `x.lexOK`, `shapeOK x` and
  `writeExpr ⟨src, scope', .let_⟩ x = .ok cs` for the scope `scope'` preceding the entry; `env` is the
  environment of the oracle's `resolveLets` for the same lets: `(n, substExpr env' x)`.
* `C06_compileStmts_scope`: the scope `compileStmts` returns, started from `[]`, is such a scope, with
  the environment `letsEnv stmts []`.
* `C06_let_value_is_operand`: every stored chunk list is read by the SQL reader as ONE ATOM (hence
  as one operand of any sign, subscript or infix operator) whose tree is the translation of the
  resolved let value; lexically it is self-contained (adjacent before every separator) and does not
  start with `-`.  (Named `…_is_operand`: Props/C06Subst.lean already has a `C06_let_value_is_unit`.)
* `C06_lexRender_scoped`: `C01_lexRender` with `ScopeLets ctx.src ctx.scope` in place of `ctx.scope = []`.
* `C06_parse_roundtrip_scoped` (modes other than join: no side condition on the lets),
  `C06_parse_roundtrip_scoped_partial` (any mode, side condition `envJoinSafe env` in join mode),
  `C06_parse_roundtrip_scoped_names` (any mode, side condition on the let NAMES only, for translatable
  values), `C06_operand_is_unit_scoped[_partial]`, `C06_tight_operand_is_atom_scoped_partial`: the C01
  theorems with `ScopeLetsEnv ctx.src ctx.scope env` in place of `ctx.scope = []`; the intended
  translation is `tr (substExpr env e)`.

Side condition (join conditions only): `envJoinSafe env` — no let is called `$left` / `$right` and no
resolved value mentions an identifier so called.  It is needed: `C06_join_name_counterexample`
(`let $left = 1; … | join (…) on $left == $right.b`).
The hypothesis `ScopeLets` itself is needed: a *parameter* is entered into the scope as raw text and is
not one operand (`C06_param_regrouped`, `C06_param_comment`).
-/
import PqlModel.Lemmas.ScopeRTAlias
import PqlModel.Props.C01Syntactic
namespace Pql.C06
open Pql Sql CompileOracle Pql.RT

/-! ### 1. the statement loop builds such scopes -/

/-- **C06 (the scope of the statement loop).** -/
theorem C06_compileStmts_scope (src : Bytes) (stmts : List Stmt) (scope : Scope) (q : Option Tabular)
    (hv : LetValuesOK stmts)
    (h : compileStmts src stmts [] none = .ok (scope, q)) :
    ScopeLetsEnv src scope (letsEnv stmts []) :=
  compileStmts_scopeLets src stmts [] [] .nil hv scope q h

theorem C06_compileStmts_scopeLets (src : Bytes) (stmts : List Stmt) (scope : Scope) (q : Option Tabular)
    (hv : LetValuesOK stmts) (h : compileStmts src stmts [] none = .ok (scope, q)) : ScopeLets src scope :=
  ⟨_, C06_compileStmts_scope src stmts scope q hv h⟩

/-- started from any scope of this kind (several batches of lets) -/
theorem C06_compileStmts_scope_from (src : Bytes) (stmts : List Stmt) (scope0 scope : Scope)
    (env0 : List (Bytes × Expr)) (q : Option Tabular) (h0 : ScopeLetsEnv src scope0 env0) (hv : LetValuesOK stmts)
    (h : compileStmts src stmts scope0 none = .ok (scope, q)) :
    ScopeLetsEnv src scope (letsEnv stmts env0) :=
  compileStmts_scopeLets src stmts scope0 env0 h0 hv scope q h

/-! ### 2. a stored value is one operand -/

/-- **C06 (a let value is one operand).** For every entry `(n, v)` of a scope built from lets there is
    the entry `(n, x')` of the environment (`x'` the let's value with the earlier lets resolved), and
    whenever `x'` has a translation `want`:
    the tokens of `v` are read by `pAtomS` as one atom `want` whatever follows that cannot continue an
    atom (`AtomP`: not `.`, `(`, `FILTER`), hence by `pUnaryS` as one operand whatever follows that is
    not additionally `[` (`UnitP`).  Signed values too: the statement loop stores them in parentheses.
    Lexically: `v` is adjacent before every separator (`AdjC`), and its text does not start with `-`. -/
theorem C06_let_value_is_operand {src : Bytes} {scope : Scope} {env : List (Bytes × Expr)}
    (h : ScopeLetsEnv src scope env) (n : Bytes) (v : List Chunk) (hm : (n, v) ∈ scope) :
    ∃ x', (n, x') ∈ env ∧
      (∀ want, tr false x' = some want → AtomP (toksOf v) want ∧ UnitP (toksOf v) want) ∧
      (∀ rest : Bytes, LexRender.sepHead rest.head? = true → LexRender.AdjC rest v = true) ∧
      (∀ rest : Bytes, rest.head? ≠ some 45 → (renderChunks v ++ rest).head? ≠ some 45) := by
  induction h with
  | nil => cases hm
  | @cons scope env n' x cs hsc hok hshape hw ih =>
    rcases List.mem_cons.mp hm with heq | hm'
    · cases heq
      have g : GoodS ⟨src, scope, .let_⟩ env x :=
        goodS_all ⟨src, scope, .let_⟩ env (scopeRT_of_lets hsc) (joinOK_let src scope env) x hshape hok
      have inv := LexRender.writeExpr_goodS ⟨src, scope, .let_⟩ (scopeAdj_of_lets hsc) x hok cs hw
      refine ⟨substExpr env x, List.mem_cons_self, ?_, LexRender.good_wrapTight x inv.1, LexRender.head_wrapTight x inv.2⟩
      intro want hwant
      have ha : AtomP (toksOf (wrapTight x cs)) want := g.tight hw hwant
      exact ⟨ha, ha.toUnit⟩
    · obtain ⟨x', hx', rest⟩ := ih hm'
      exact ⟨x', List.mem_cons_of_mem _ hx', rest⟩

/-- the same spelled out for the reader's unary level, as in `C01_operand_is_unit` -/
theorem C06_let_value_is_operand_pUnary {src : Bytes} {scope : Scope} {env : List (Bytes × Expr)}
    (h : ScopeLetsEnv src scope env) (n : Bytes) (v : List Chunk) (hm : (n, v) ∈ scope) :
    ∃ x', (n, x') ∈ env ∧ ∀ want, tr false x' = some want → ∀ rest, Ends unaryEndTok rest →
      ∃ s, normS s = normS want ∧
        ∃ fuel, ∀ fuel', fuel ≤ fuel' → Sql.pUnaryS fuel' (toksOf v ++ rest) = some (s, rest) := by
  obtain ⟨x', hx', hp, _⟩ := C06_let_value_is_operand h n v hm
  exact ⟨x', hx', fun want hw rest hr => (hp want hw).2 rest hr⟩

/-- what a *reference* writes is the stored chunk list of the newest binding of that name -/
theorem C06_reference_writes_stored (ctx : Ctx) (p : Ident) (hq : p.quoted = false) (sql : List Chunk)
    (hl : lookupScope ctx.scope p.name = some sql) : writeExpr ctx (.qident [p]) = .ok sql := by
  simp only [writeExpr, hq, hl, Bool.not_false, if_true]

/-! ### 3. LexRender under a scope -/

theorem C06_writeExpr_adj_before (ctx : Ctx) (e : Expr) (cs : List Chunk) (hsc : ScopeLets ctx.src ctx.scope)
    (hok : e.lexOK = true) (h : writeExpr ctx e = .ok cs) (rest : Bytes)
    (hrest : LexRender.sepHead rest.head? = true) : LexRender.AdjC rest cs = true := by
  obtain ⟨env, hsc⟩ := hsc
  exact (LexRender.writeExpr_goodS ctx (scopeAdj_of_lets hsc) e hok cs h).1 rest hrest

theorem C06_writeExpr_adj (ctx : Ctx) (e : Expr) (cs : List Chunk) (hsc : ScopeLets ctx.src ctx.scope)
    (hok : e.lexOK = true) (h : writeExpr ctx e = .ok cs) : LexRender.Adj cs = true :=
  C06_writeExpr_adj_before ctx e cs hsc hok h [] rfl

/-- **C06 / C01 (LexRender under a scope).** Lexing the bytes the expression writer emits, with
    let-bound names replaced by their stored text, yields exactly the chunk tokens. -/
theorem C06_lexRender_scoped (ctx : Ctx) (e : Expr) (cs : List Chunk)
    (hsc : ScopeLets ctx.src ctx.scope)
    (hok : e.lexOK = true)
    (h : writeExpr ctx e = .ok cs) :
    Sql.lex .standard (renderChunks cs) = some (toksOf cs) :=
  LexRender.lexRender_of_adj_top cs (C06_writeExpr_adj ctx e cs hsc hok h)

/-- in context, as `C01_lexRender_before` -/
theorem C06_lexRender_scoped_before (ctx : Ctx) (e : Expr) (cs : List Chunk)
    (hsc : ScopeLets ctx.src ctx.scope) (hok : e.lexOK = true) (h : writeExpr ctx e = .ok cs)
    (rest : Bytes) (hrest : LexRender.sepHead rest.head? = true) (fuel : Nat) :
    (lexAux .standard (fuel + LexRender.steps cs) (renderChunks cs ++ rest)).map (·.filter (· != .comment)) =
      (lexAux .standard fuel rest).map (fun ts => toksOf cs ++ ts.filter (· != .comment)) :=
  LexRender.lexRender_of_adj cs rest fuel (C06_writeExpr_adj_before ctx e cs hsc hok h rest hrest)

/-! ### 4. ParseRoundtrip under a scope -/

/-- the invariant of the structural induction, for a scope built from lets -/
theorem goodS_of_lets (ctx : Ctx) (env : List (Bytes × Expr)) (hsc : ScopeLetsEnv ctx.src ctx.scope env)
    (hjoin : ctx.mode = .join → envJoinSafe env = true) (e : Expr) (hok : e.lexOK = true)
    (hshape : shapeOK e = true) : GoodS ctx env e :=
  goodS_all ctx env
    (scopeRT_join (scopeRT_of_lets hsc) (ctx.mode == .join) (fun hj => hjoin (by simpa using hj)))
    (joinOK_of_safe hjoin) e hshape hok

/-- **C06 / C01 (ParseRoundtrip under a scope).** `ctx.scope` has been built by the statement loop from
    lets with resolved values `env`.  If the writer succeeds on `e` with chunks `cs`, and `want` is the
    intended translation of `e` *with the let-bound names replaced by their values*, then the SQL
    reader run at minimum precedence 0 on the tokens of `cs`, followed by any `rest` that cannot
    continue an expression, returns a tree equal to `want` up to `normS` and leaves exactly `rest`. -/
theorem C06_parse_roundtrip_scoped_partial (ctx : Ctx) (env : List (Bytes × Expr)) (e : Expr) (cs : List Chunk)
    (want : SExpr) (rest : List STok)
    (hsc : ScopeLetsEnv ctx.src ctx.scope env)
    (hjoin : ctx.mode = .join → envJoinSafe env = true)
    (hok : e.lexOK = true)
    (hshape : shapeOK e = true)
    (hw : writeExpr ctx e = .ok cs)
    (ht : CompileOracle.tr (ctx.mode == .join) (substExpr env e) = some want)
    (hrest : C01.Stops rest) :
    ∃ s, normS s = normS want ∧
      ∃ fuel, ∀ fuel', fuel ≤ fuel' → Sql.pExprS fuel' 0 (toksOf cs ++ rest) = some (s, rest) :=
  (goodS_of_lets ctx env hsc hjoin e hok hshape).expr hw ht rest hrest

theorem C06_parse_roundtrip_scoped_whole_partial (ctx : Ctx) (env : List (Bytes × Expr)) (e : Expr) (cs : List Chunk)
    (want : SExpr) (hsc : ScopeLetsEnv ctx.src ctx.scope env)
    (hjoin : ctx.mode = .join → envJoinSafe env = true) (hok : e.lexOK = true) (hshape : shapeOK e = true)
    (hw : writeExpr ctx e = .ok cs) (ht : CompileOracle.tr (ctx.mode == .join) (substExpr env e) = some want) :
    ∃ s, normS s = normS want ∧ ∃ fuel, ∀ fuel', fuel ≤ fuel' → Sql.pExprS fuel' 0 (toksOf cs) = some (s, []) := by
  simpa using C06_parse_roundtrip_scoped_partial ctx env e cs want [] hsc hjoin hok hshape hw ht C01.Stops.nil

/-- at every fuel at which the reader returns at all -/
theorem C06_parse_roundtrip_scoped_anyfuel_partial (ctx : Ctx) (env : List (Bytes × Expr)) (e : Expr) (cs : List Chunk)
    (want : SExpr) (rest : List STok) (hsc : ScopeLetsEnv ctx.src ctx.scope env)
    (hjoin : ctx.mode = .join → envJoinSafe env = true) (hok : e.lexOK = true) (hshape : shapeOK e = true)
    (hw : writeExpr ctx e = .ok cs) (ht : CompileOracle.tr (ctx.mode == .join) (substExpr env e) = some want)
    (hrest : C01.Stops rest) (fuel : Nat) (s : SExpr) (r : List STok)
    (hp : Sql.pExprS fuel 0 (toksOf cs ++ rest) = some (s, r)) : normS s = normS want ∧ r = rest := by
  obtain ⟨s', hs', N, hN⟩ := C06_parse_roundtrip_scoped_partial ctx env e cs want rest hsc hjoin hok hshape hw ht hrest
  have h1 := pExprS_mono (Nat.le_max_left fuel N) hp
  have h2 := hN (max fuel N) (Nat.le_max_right fuel N)
  rw [h1] at h2
  simp only [Option.some.injEq, Prod.mk.injEq] at h2
  exact ⟨h2.1 ▸ hs', h2.2⟩

/-- **C06 / C01 (operands are units, under a scope).** An operand written by
    `writeExpressionMaybeParen` — in particular a bare reference to a let — is read by the reader's
    unary level as one operand, whatever operator follows. -/
theorem C06_operand_is_unit_scoped_partial (ctx : Ctx) (env : List (Bytes × Expr)) (x : Expr) (body : List Chunk)
    (want : SExpr) (rest : List STok)
    (hsc : ScopeLetsEnv ctx.src ctx.scope env) (hjoin : ctx.mode = .join → envJoinSafe env = true)
    (hok : x.lexOK = true) (hshape : shapeOK x = true)
    (hw : writeExpr ctx x = .ok body) (ht : CompileOracle.tr (ctx.mode == .join) (substExpr env x) = some want)
    (hrest : Ends unaryEndTok rest) :
    ∃ s, normS s = normS want ∧
      ∃ fuel, ∀ fuel', fuel ≤ fuel' → Sql.pUnaryS fuel' (toksOf (wrapMaybe x body) ++ rest) = some (s, rest) :=
  (goodS_of_lets ctx env hsc hjoin x hok hshape).unit hw ht rest hrest

/-- the operand of a sign and the base of a subscript (`writeExpressionTight`) are atoms -/
theorem C06_tight_operand_is_atom_scoped_partial (ctx : Ctx) (env : List (Bytes × Expr)) (x : Expr) (body : List Chunk)
    (want : SExpr) (rest : List STok)
    (hsc : ScopeLetsEnv ctx.src ctx.scope env) (hjoin : ctx.mode = .join → envJoinSafe env = true)
    (hok : x.lexOK = true) (hshape : shapeOK x = true)
    (hw : writeExpr ctx x = .ok body) (ht : CompileOracle.tr (ctx.mode == .join) (substExpr env x) = some want)
    (hrest : Ends atomEndTok rest) :
    ∃ s, normS s = normS want ∧
      ∃ fuel, ∀ fuel', fuel ≤ fuel' → Sql.pAtomS fuel' (toksOf (wrapTight x body) ++ rest) = some (s, rest) :=
  (goodS_of_lets ctx env hsc hjoin x hok hshape).tight hw ht rest hrest

/-! ### outside join conditions there is no side condition on the lets -/

/-- **C06 / C01 (ParseRoundtrip under a scope, `where` / `extend` / `project` / … expressions).** -/
theorem C06_parse_roundtrip_scoped (ctx : Ctx) (env : List (Bytes × Expr)) (e : Expr) (cs : List Chunk)
    (want : SExpr) (rest : List STok)
    (hsc : ScopeLetsEnv ctx.src ctx.scope env)
    (hmode : ctx.mode ≠ .join)
    (hok : e.lexOK = true)
    (hshape : shapeOK e = true)
    (hw : writeExpr ctx e = .ok cs)
    (ht : CompileOracle.tr false (substExpr env e) = some want)
    (hrest : C01.Stops rest) :
    ∃ s, normS s = normS want ∧
      ∃ fuel, ∀ fuel', fuel ≤ fuel' → Sql.pExprS fuel' 0 (toksOf cs ++ rest) = some (s, rest) := by
  have hm : (ctx.mode == Mode.join) = false := by simpa using hmode
  exact C06_parse_roundtrip_scoped_partial ctx env e cs want rest hsc (fun h => absurd h hmode) hok hshape hw
    (by rw [hm]; exact ht) hrest

theorem C06_operand_is_unit_scoped (ctx : Ctx) (env : List (Bytes × Expr)) (x : Expr) (body : List Chunk)
    (want : SExpr) (rest : List STok)
    (hsc : ScopeLetsEnv ctx.src ctx.scope env) (hmode : ctx.mode ≠ .join)
    (hok : x.lexOK = true) (hshape : shapeOK x = true)
    (hw : writeExpr ctx x = .ok body) (ht : CompileOracle.tr false (substExpr env x) = some want)
    (hrest : Ends unaryEndTok rest) :
    ∃ s, normS s = normS want ∧
      ∃ fuel, ∀ fuel', fuel ≤ fuel' → Sql.pUnaryS fuel' (toksOf (wrapMaybe x body) ++ rest) = some (s, rest) := by
  have hm : (ctx.mode == Mode.join) = false := by simpa using hmode
  exact C06_operand_is_unit_scoped_partial ctx env x body want rest hsc (fun h => absurd h hmode) hok hshape hw
    (by rw [hm]; exact ht) hrest

/-! ### join conditions: the names decide -/

/-- **C06 / C01 (ParseRoundtrip under a scope, any mode, condition on the names only).**  If no let is
    called `$left` / `$right` (`scopeNamesSafe`, decidable) and every let value has a translation, the
    round trip holds in join conditions as well (`envJoinSafe_of_names`: the resolved values cannot
    mention the aliases, because let mode rejects every identifier that is not a bound name or a
    constant). -/
theorem C06_parse_roundtrip_scoped_names (ctx : Ctx) (env : List (Bytes × Expr)) (e : Expr) (cs : List Chunk)
    (want : SExpr) (rest : List STok)
    (hsc : ScopeLetsEnv ctx.src ctx.scope env)
    (hnames : ctx.mode = .join → scopeNamesSafe ctx.scope = true)
    (hvals : ∀ kv ∈ env, (CompileOracle.tr false kv.2).isSome = true)
    (hok : e.lexOK = true) (hshape : shapeOK e = true)
    (hw : writeExpr ctx e = .ok cs)
    (ht : CompileOracle.tr (ctx.mode == .join) (substExpr env e) = some want)
    (hrest : C01.Stops rest) :
    ∃ s, normS s = normS want ∧
      ∃ fuel, ∀ fuel', fuel ≤ fuel' → Sql.pExprS fuel' 0 (toksOf cs ++ rest) = some (s, rest) :=
  C06_parse_roundtrip_scoped_partial ctx env e cs want rest hsc
    (fun hm => envJoinSafe_of_names hsc (hnames hm) hvals) hok hshape hw ht hrest

/-! ### non-vacuity: `let n = -5;` and `-n * n[1] > 0` -/

namespace Ex
def n : Ident := ⟨[110], .zero, false⟩
def minus5 : Expr := .unary .zero .minus (.lit .zero .number [53])
def lets : List Stmt := [.let_ .zero (some n) .zero minus5]
/-- `n ↦ (-5)` -/
def scope : Scope := [([110], [.txt "(", .txt "-", .num [53], .txt ")"])]
def env : List (Bytes × Expr) := [([110], minus5)]
/-- `-n * n[1] > 0` -/
def e : Expr :=
  .binary (.binary (.unary .zero .minus (.qident [n])) .zero .star
    (.index (.qident [n]) .zero (.lit .zero .number [49]) .zero)) .zero .gt (.lit .zero .number [48])
/-- `(-(-5) * ((-5)[1])) > 0` -/
def out : List Chunk :=
  [.txt "(", .txt "-", .txt "(", .txt "-", .num [53], .txt ")", .txt " ", .txt "*", .txt " ", .txt "(", .txt "(",
   .txt "-", .num [53], .txt ")", .txt "[", .num [49], .txt "]", .txt ")", .txt ")", .txt " ", .txt ">", .txt " ",
   .num [48]]
def want : SExpr :=
  .bin ">" (.bin "*" (.neg (.neg (.num [53]))) (.index (.neg (.num [53])) (.num [49]))) (.num [48])

theorem lets_ok : LetValuesOK lets := by
  intro st hst kw nm a x hx
  simp only [lets, List.mem_singleton] at hst
  rw [hst] at hx
  cases hx
  exact ⟨by decide, by decide⟩

theorem run : compileStmts [] lets [] none = .ok (scope, none) := by rfl

theorem isScope : ScopeLetsEnv [] scope env := C06_compileStmts_scope [] lets scope none lets_ok run
end Ex

example : ScopeLets [] Ex.scope := C06_compileStmts_scopeLets [] Ex.lets Ex.scope none Ex.lets_ok Ex.run

example : ∃ x', ([110], x') ∈ Ex.env ∧ ∀ want, tr false x' = some want → ∀ rest, Ends unaryEndTok rest →
    ∃ s, normS s = normS want ∧
      ∃ fuel, ∀ fuel', fuel ≤ fuel' →
        Sql.pUnaryS fuel' (toksOf [.txt "(", .txt "-", .num [53], .txt ")"] ++ rest) = some (s, rest) :=
  C06_let_value_is_operand_pUnary Ex.isScope [110] _ List.mem_cons_self

example : Sql.lex .standard (renderChunks Ex.out) = some (toksOf Ex.out) :=
  C06_lexRender_scoped ⟨[], Ex.scope, .default⟩ Ex.e Ex.out ⟨_, Ex.isScope⟩ (by decide) (by rfl)

example : ∃ s, normS s = normS Ex.want ∧
    ∃ fuel, ∀ fuel', fuel ≤ fuel' → Sql.pExprS fuel' 0 (toksOf Ex.out) = some (s, []) :=
  C06_parse_roundtrip_scoped_whole_partial ⟨[], Ex.scope, .default⟩ Ex.env Ex.e Ex.out Ex.want Ex.isScope
    (fun h => by cases h) (by decide) (by decide) (by rfl) (by rfl)

example : ∃ s, normS s = normS Ex.want ∧
    ∃ fuel, ∀ fuel', fuel ≤ fuel' → Sql.pExprS fuel' 0 (toksOf Ex.out ++ [S ")"]) = some (s, [S ")"]) :=
  C06_parse_roundtrip_scoped ⟨[], Ex.scope, .default⟩ Ex.env Ex.e Ex.out Ex.want [S ")"] Ex.isScope
    (by decide) (by decide) (by decide) (by rfl) (by rfl) (C01.Stops.sym (by simp) [])

/-- non-vacuity of the join-mode hypothesis: the join condition `$left.a == $right.b + n` under
    `let n = -5;` is written `"$left"."a" = ("$right"."b" + (-5))`, a plain join equality -/
example :
    let e : Expr := .binary (.qident [⟨leftAlias, .zero, false⟩, ⟨[97], .zero, false⟩]) .zero .eq
      (.binary (.qident [⟨rightAlias, .zero, false⟩, ⟨[98], .zero, false⟩]) .zero .plus (.qident [Ex.n]))
    let out : List Chunk := [.qid leftAlias, .txt ".", .qid [97], .txt " = ", .txt "(", .qid rightAlias, .txt ".",
      .qid [98], .txt " ", .txt "+", .txt " ", .txt "(", .txt "-", .num [53], .txt ")", .txt ")"]
    let want : SExpr := .bin "=" (.col [leftAlias, [97]]) (.bin "+" (.col [rightAlias, [98]]) (.neg (.num [53])))
    ∃ s, normS s = normS want ∧ ∃ fuel, ∀ fuel', fuel ≤ fuel' → Sql.pExprS fuel' 0 (toksOf out) = some (s, []) := by
  intro e out want
  exact C06_parse_roundtrip_scoped_whole_partial ⟨[], Ex.scope, .join⟩ Ex.env e out want Ex.isScope
    (fun _ => by decide) (by decide) (by decide) (by rfl) (by rfl)

example :
    let e : Expr := .binary (.qident [⟨leftAlias, .zero, false⟩, ⟨[97], .zero, false⟩]) .zero .eq (.qident [Ex.n])
    ∃ cs want, writeExpr ⟨[], Ex.scope, .join⟩ e = .ok cs ∧ tr true (substExpr Ex.env e) = some want ∧
      ∃ s, normS s = normS want ∧ ∃ fuel, ∀ fuel', fuel ≤ fuel' → Sql.pExprS fuel' 0 (toksOf cs ++ []) = some (s, []) := by
  intro e
  refine ⟨_, _, rfl, rfl, ?_⟩
  refine C06_parse_roundtrip_scoped_names ⟨[], Ex.scope, .join⟩ Ex.env e _ _ [] Ex.isScope (fun _ => by decide) ?_
    (by decide) (by decide) rfl rfl C01.Stops.nil
  intro kv hkv
  simp only [Ex.env, List.mem_singleton] at hkv
  subst hkv
  rfl

/-! ### the side condition of join mode is needed: a let called `$left` -/

namespace Cex
def l : Ident := ⟨leftAlias, .zero, false⟩
def one : Expr := .lit .zero .number [49]
/-- after `let $left = 1;` -/
def scope : Scope := [(leftAlias, [.num [49]])]
def env : List (Bytes × Expr) := [(leftAlias, one)]
def ctx : Ctx := ⟨[], scope, .join⟩
/-- the join condition `$left == $right.b` -/
def e : Expr := .binary (.qident [l]) .zero .eq (.qident [⟨rightAlias, .zero, false⟩, ⟨[98], .zero, false⟩])
/-- written `1 = "$right"."b"`: the writer sees the *name* `$left` and takes the equality for a join
    equality -/
def out : List Chunk := [.num [49], .txt " = ", .qid rightAlias, .txt ".", .qid [98]]
/-- the substituted program `(1) == $right.b` means `coalesce(1 = "$right"."b", FALSE)` -/
def want : SExpr := coalesceFalse (.bin "=" (.num [49]) (.col [rightAlias, [98]]))

theorem isScope : ScopeLetsEnv [] scope env :=
  ScopeLetsEnv.cons leftAlias one [.num [49]] .nil (by decide) (by decide) (by rfl)
theorem not_safe : envJoinSafe env = false := by decide
theorem names_not_safe : scopeNamesSafe scope = false := by decide
theorem write : writeExpr ctx e = .ok out := by rfl
theorem tr_subst : tr (ctx.mode == .join) (substExpr env e) = some want := by rfl
theorem toks : toksOf out = [.num [49], S "=", .qid rightAlias, S ".", .qid [98]] := by simp [out]
theorem read : Sql.pExprS 10 0 (toksOf out) = some (.bin "=" (.num [49]) (.col [rightAlias, [98]]), []) := by
  rw [toks]; rfl
end Cex

/-- **Without `envJoinSafe` the scoped round trip is false in join mode**: after `let $left = 1;` the join
    condition `$left == $right.b` satisfies every other hypothesis of `C06_parse_roundtrip_scoped_partial`, and
    no fuel makes the SQL reader return the translation of the substituted condition (the emitted
    text lacks the `coalesce(…, FALSE)`).  Same cause as `C06_join_counterexample` of C06Subst, here
    with a *let* (not a parameter) named after a join alias. -/
theorem C06_join_name_counterexample :
    ScopeLetsEnv Cex.ctx.src Cex.ctx.scope Cex.env ∧ Cex.e.lexOK = true ∧ shapeOK Cex.e = true ∧
    writeExpr Cex.ctx Cex.e = .ok Cex.out ∧
    CompileOracle.tr (Cex.ctx.mode == .join) (substExpr Cex.env Cex.e) = some Cex.want ∧ C01.Stops [] ∧
    ¬ ∃ s, normS s = normS Cex.want ∧
      ∃ fuel, ∀ fuel', fuel ≤ fuel' → Sql.pExprS fuel' 0 (toksOf Cex.out ++ []) = some (s, []) := by
  refine ⟨Cex.isScope, by decide, by decide, Cex.write, Cex.tr_subst, C01.Stops.nil, ?_⟩
  rintro ⟨s, hs, N, hN⟩
  rw [List.append_nil] at hN
  have h1 := pExprS_mono (Nat.le_max_left 10 N) Cex.read
  have h2 := hN (max 10 N) (Nat.le_max_right 10 N)
  rw [h1] at h2
  simp only [Option.some.injEq, Prod.mk.injEq, and_true] at h2
  subst h2
  simp [normS, Cex.want, coalesceFalse, fnCall] at hs

/-! ### `ScopeLets` cannot be replaced by an arbitrary scope: parameters are pasted verbatim -/

namespace ParamCex
def p : Ident := ⟨[112], .zero, false⟩
/-- the scope of `Compile` with the parameter `p ↦ "1 + 2"` -/
def scope : Scope := [([112], [.raw [49, 32, 43, 32, 50]])]
/-- `p * 3` -/
def e : Expr := .binary (.qident [p]) .zero .star (.lit .zero .number [51])
/-- written `1 + 2 * 3` -/
def out : List Chunk := [.raw [49, 32, 43, 32, 50], .txt " ", .txt "*", .txt " ", .num [51]]
/-- the parameter `p ↦ "-5"` and `-p`, written `--5` -/
def scope2 : Scope := [([112], [.raw [45, 53]])]
def e2 : Expr := .unary .zero .minus (.qident [p])
def out2 : List Chunk := [.txt "-", .raw [45, 53]]
end ParamCex

/-- A parameter (entered into the scope as its raw text, `compileChunks`) is NOT one operand: with
    `p ↦ "1 + 2"`, `p * 3` is written `1 + 2 * 3`, which SQL reads as `1 + (2 * 3)`. -/
theorem C06_param_regrouped :
    writeExpr ⟨[], ParamCex.scope, .default⟩ ParamCex.e = .ok ParamCex.out ∧
    toksOf ParamCex.out = [.num [49], S "+", .num [50], S "*", .num [51]] ∧
    Sql.pExprS 10 0 [.num [49], S "+", .num [50], S "*", .num [51]] =
      some (.bin "+" (.num [49]) (.bin "*" (.num [50]) (.num [51])), []) :=
  ⟨by rfl, by decide, by rfl⟩

/-- … and not lexically self-contained either: with `p ↦ "-5"`, `-p` is written `--5`, an SQL comment:
    the text lexes to no token at all. -/
theorem C06_param_comment :
    writeExpr ⟨[], ParamCex.scope2, .default⟩ ParamCex.e2 = .ok ParamCex.out2 ∧
    Sql.lex .standard (renderChunks ParamCex.out2) = some [] ∧
    Sql.lex .standard (renderChunks ParamCex.out2) ≠ some (toksOf ParamCex.out2) :=
  ⟨by rfl, by decide, by decide⟩

end Pql.C06
