/-
Property C02, semantic form: counterexamples showing that each side condition of
`C02_sel_*` / `C02_statement_semantics` is needed, and concrete instances of the theorems
(non-vacuity).  Everything here is evaluated by `decide` on a table `T(a)` with the rows 1, 2.
-/
import PqlModel.Props.C02Statement
namespace Pql.C02.Cex
open Pql Sql CompileOracle Intended SplitQ SelSem C02

def tT : Table := ⟨[[97]], [[.int 1], [.int 2]]⟩          -- T(a) = {1, 2}
def db : DB := [([84], tT)]
def idT : Ident := ⟨[84], .zero, false⟩
def mkId (name : Bytes) : Ident := ⟨name, .zero, false⟩
def eCount : Expr := .call (mkId (Bytes.ofString "count")) .zero .nil .zero      -- count()
def eA : Expr := .qident [mkId [97]]                                              -- a
def eNum (n : Bytes) : Expr := .lit .zero .number n
def col (name : Bytes) (e : Expr) : Column := ⟨some (mkId name), .zero, e⟩        -- name = e
def link (op : Op) : SubA := { name := [113], source := .table [84], op := some op }
def aDesc : SortTerm := ⟨eA, false, .zero, false, .zero⟩                          -- a desc
def dummySel : Select := mkSel [] [] none [] [] none
def eGt (x y : Expr) : Expr := .binary x .zero .gt y

/-! ### Stage 1: the side conditions are needed -/

/-- `T | project c = count()`: the SQL `SELECT count() AS c FROM T` aggregates (one row: 2), the
    pipeline reading evaluates `count()` row by row over an empty group (two rows: 0, 0). -/
theorem C02_project_agg_differs :
    let a := link (.project .zero .zero [col [99] eCount])
    sortOkA a = true ∧ opOk (.project .zero .zero [col [99] eCount]) = false ∧
    (selOf [] a).map (evalSelect db []) = some ⟨[[99]], [[.int 2]]⟩ ∧
    subEvalA [] db (lookupTable db [] [84]) a = ⟨[[99]], [[.int 0], [.int 0]]⟩ := by decide

/-- `T | extend c = count()`: `SELECT *, count() AS c FROM T` is one row (first row, 2), the
    pipeline reading keeps both rows with `c = 0`. -/
theorem C02_extend_agg_differs :
    let a := link (.extend .zero .zero [col [99] eCount])
    sortOkA a = true ∧ opOk (.extend .zero .zero [col [99] eCount]) = false ∧
    (selOf [] a).map (evalSelect db []) = some ⟨[[97], [99]], [[.int 1, .int 2]]⟩ ∧
    subEvalA [] db (lookupTable db [] [84]) a = ⟨[[97], [99]], [[.int 1, .int 0], [.int 2, .int 0]]⟩ := by decide

/-- `T | summarize x = a` (no key, no aggregate): `SELECT a AS x FROM T` is not an aggregating
    query (two rows), `summarize` without keys is one row. -/
theorem C02_summarize_plain_differs :
    let a := link (.summarize .zero .zero [col [120] eA] .zero [])
    sortOkA a = true ∧ opOk (.summarize .zero .zero [col [120] eA] .zero []) = false ∧
    (selOf [] a).map (evalSelect db []) = some ⟨[[120]], [[.int 1], [.int 2]]⟩ ∧
    subEvalA [] db (lookupTable db [] [84]) a = ⟨[[120]], [[.int 1]]⟩ := by decide

/-- ORDER BY attached to a `project` SELECT (which `splitA` never does): `SELECT a AS b FROM T ORDER BY a DESC`
    sorts by the *source* column `a`; after `project b = a` there is no column `a` to sort by. -/
theorem C02_project_sort_differs :
    let a := { link (.project .zero .zero [col [98] eA]) with sort := some [aDesc] }
    sortOkA a = false ∧ opOk (.project .zero .zero [col [98] eA]) = true ∧
    (selOf [] a).map (evalSelect db []) = some ⟨[[98]], [[.int 2], [.int 1]]⟩ ∧
    subEvalA [] db (lookupTable db [] [84]) a = ⟨[[98]], [[.int 1], [.int 2]]⟩ := by decide

/-- the same for `summarize n = count() by k = a` with `ORDER BY a DESC` attached -/
theorem C02_summarize_sort_differs :
    let o := Op.summarize .zero .zero [col [110] eCount] .zero [col [107] eA]
    let a := { link o with sort := some [aDesc] }
    sortOkA a = false ∧ opOk o = true ∧
    (selOf [] a).map (evalSelect db []) = some ⟨[[107], [110]], [[.int 2, .int 1], [.int 1, .int 1]]⟩ ∧
    subEvalA [] db (lookupTable db [] [84]) a = ⟨[[107], [110]], [[.int 1, .int 1], [.int 2, .int 1]]⟩ := by decide

/-! ### Stage 2: distinct CTE names are needed (known finding: duplicate CTE names through `as`) -/

/-- `T | as X | count | as X | count` -/
def dupOps : OpList := .cons (.as_ .zero .zero (some (mkId [88]))) (.cons (.count .zero .zero)
  (.cons (.as_ .zero .zero (some (mkId [88]))) (.cons (.count .zero .zero) .nil)))

/-- The chain is `X, __subquery1, X, __subquery3`; the last SELECT reads `X` and finds the FIRST
    CTE of that name (the table `T`, 2 rows) instead of the third link (the one-row count):
    the statement returns 2, the pipeline means 1.  All other hypotheses of
    `C02_statement_semantics` hold. -/
theorem C02_duplicate_names_differ :
    joinFree dupOps = true ∧ opsOk dupOps = true ∧
    ((splitA [] (.mk (some idT) dupOps)).map fun subs => subs.map (·.name)) =
      some [[88], subqueryName 1, [88], subqueryName 3] ∧
    ((splitA [] (.mk (some idT) dupOps)).bind (stmtOf [])).map (evalStatement db) =
      some ⟨[Bytes.ofString "count()"], [[.int 2]]⟩ ∧
    Rel.interpOps [] db (lookupTable db [] idT.name) dupOps = ⟨[Bytes.ofString "count()"], [[.int 1]]⟩ := by
  decide

/-! ### instances (non-vacuity) -/

/-- `where a > 1` with ORDER BY and LIMIT attached -/
def lWhere : SubA := { link (.where_ .zero .zero (eGt eA (eNum [48]))) with sort := some [aDesc], take := some (eNum [49]) }
def selWhere : Select := (selOf [] lWhere).getD dummySel

example : evalSelect db [] selWhere = subEvalA [] db (lookupTable db [] [84]) lWhere :=
  C02_sel_where [] db [] lWhere [84] selWhere .zero .zero _ rfl rfl (by rfl)
example : subEvalA [] db (lookupTable db [] [84]) lWhere = ⟨[[97]], [[.int 2]]⟩ := by decide

def lNone : SubA := { name := [113], source := .table [84], sort := some [aDesc] }
example : evalSelect db [] ((selOf [] lNone).getD dummySel) = subEvalA [] db (lookupTable db [] [84]) lNone :=
  C02_sel_none [] db [] lNone [84] _ rfl rfl (by rfl)

def lAs : SubA := link (.as_ .zero .zero (some (mkId [88])))
example : evalSelect db [] ((selOf [] lAs).getD dummySel) = subEvalA [] db (lookupTable db [] [84]) lAs :=
  C02_sel_as [] db [] lAs [84] _ .zero .zero _ rfl rfl (by rfl)

def lCount : SubA := { link (.count .zero .zero) with take := some (eNum [49]) }
example : evalSelect db [] ((selOf [] lCount).getD dummySel) = subEvalA [] db (lookupTable db [] [84]) lCount :=
  C02_sel_count [] db [] lCount [84] _ .zero .zero rfl rfl (by rfl)

def lRender : SubA := link (.render .zero .zero (some (mkId [112])) .zero .zero [⟨some (mkId [116]), .zero, eA⟩] .zero)
example : evalSelect db [] ((selOf [] lRender).getD dummySel) = subEvalA [] db (lookupTable db [] [84]) lRender :=
  C02_sel_render [] db [] lRender [84] _ .zero .zero _ .zero .zero _ .zero rfl rfl (by rfl)

/-- `extend b = a + a` with `ORDER BY b DESC`-like sort on the source column attached -/
def lExtend : SubA :=
  { link (.extend .zero .zero [col [98] (.binary eA .zero .plus eA)]) with sort := some [aDesc] }
example : evalSelect db [] ((selOf [] lExtend).getD dummySel) = subEvalA [] db (lookupTable db [] [84]) lExtend :=
  C02_sel_extend [] db [] lExtend [84] _ .zero .zero _ rfl rfl (by rfl) (by decide)
example : subEvalA [] db (lookupTable db [] [84]) lExtend = ⟨[[97], [98]], [[.int 2, .int 4], [.int 1, .int 2]]⟩ := by
  decide

def lProject : SubA := link (.project .zero .zero [col [98] eA, ⟨some (mkId [97]), .zero, .nil⟩])
example : evalSelect db [] ((selOf [] lProject).getD dummySel) = subEvalA [] db (lookupTable db [] [84]) lProject :=
  C02_sel_project [] db [] lProject [84] _ .zero .zero _ rfl rfl (by rfl) (by decide) (by decide)

def lSummarize : SubA := link (.summarize .zero .zero [col [110] eCount] .zero [col [107] eA])
example : evalSelect db [] ((selOf [] lSummarize).getD dummySel) = subEvalA [] db (lookupTable db [] [84]) lSummarize :=
  C02_sel_summarize [] db [] lSummarize [84] _ .zero .zero _ .zero _ rfl rfl (by rfl) (by decide) (by decide)

/-- `T | where a > 0 | sort by a desc | take 1 | project b = a | as R | summarize n = count() by b | top 1 by b desc` -/
def okOps : OpList :=
  .cons (.where_ .zero .zero (eGt eA (eNum [48]))) (.cons (.sort .zero .zero [aDesc]) (.cons (.take .zero .zero (eNum [49]))
  (.cons (.project .zero .zero [col [98] eA]) (.cons (.as_ .zero .zero (some (mkId [82])))
  (.cons (.summarize .zero .zero [col [110] eCount] .zero [⟨none, .zero, .qident [mkId [98]]⟩])
  (.cons (.top .zero .zero (eNum [49]) .zero (some ⟨.qident [mkId [98]], false, .zero, false, .zero⟩)) .nil))))))
def okSubs : List SubA := (splitA [] (.mk (some idT) okOps)).getD []
def okSt : Statement := (stmtOf [] okSubs).getD ⟨[], dummySel⟩

example : okSubs.length = 5 ∧ okSt.ctes.length = 4 := by decide

example : evalStatement db okSt = Rel.interp [] db (.mk (some idT) okOps) :=
  C02_statement_interp [] db idT okOps okSubs okSt (by decide) (by rfl) (by rfl) (by decide) (by decide)

example : evalStatement db okSt = Rel.interpOps [] db (lookupTable db [] idT.name) okOps :=
  C02_statement_semantics_ctes [] db idT okOps okSubs okSt (by decide) (by rfl) (by rfl) (by decide) (by decide)

example : Rel.interp [] db (.mk (some idT) okOps) = ⟨[[], [110]], [[.int 2, .int 1]]⟩ := by decide

end Pql.C02.Cex

namespace Pql.C02.Cex
open Pql Sql CompileOracle Intended SplitQ SelSem C02

/-- the program-level theorem on the same pipeline (it has one `as`, named `R`) -/
example : evalStatement db ((intended [] [.tabular (.mk (some idT) okOps)]).getD ⟨[], dummySel⟩) =
    Rel.interp [] db (.mk (some idT) okOps) :=
  C02_intended_semantics [] db idT okOps _ (by decide) (by rfl) (by decide) (by decide)

/-- the duplicate-`as` pipeline violates `asNamesOk` -/
example : asNamesOk dupOps = false := by decide

end Pql.C02.Cex
