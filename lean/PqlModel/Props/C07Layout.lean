/-
Property C07, last sentence — "The tree does not depend on layout: spaces, tabs, newlines and //
comments between tokens, and the keyword synonyms (where/filter, sort/order, take/limit), never
change it."

* `C07_layout_tokens`   : `parseTokens` on two token lists with the same kinds and values gives the same
                          statements modulo `eraseSpansStmt` and the same errors modulo positions
                          (`C07_layout_tokens_strong`: even *which* spans are absent agrees);
* `C07_layout_source`   : the same for `parse` on two sources;
* `C07_trivia_insertion`: inserting trivia at a step boundary of the scanner keeps kinds and values;
                          counterexamples for every hypothesis;
* `C07_layout_demo`     : a concrete instance (newlines, a tab, a comment).

* `C07_synonyms_operator`, `C07_synonyms`, `C07_synonyms_source`: the keyword synonyms.

Definitions (`eraseSpansStmt`, `sameTokens`, …) are in
`Lemmas/LayoutDefs.lean`, `TriviaBefore` in `Lemmas/LayoutLex.lean`.
-/
import PqlModel.Lemmas.LayoutTop
import PqlModel.Lemmas.LayoutLex
import PqlModel.Lemmas.LayoutSyn
set_option linter.unusedSimpArgs false
namespace Pql.Layout
open Pql Pql.C09

/-! ### 1. tokens -/

/-- **C07 (layout, tokens) — strong form.**  With the same kinds and values, the statements agree up to
    `keepNull` (every present span ↦ `Span.zero`, every absent span stays `Span.null`), and so do the
    errors; `n`, `m` (the EOF positions) are arbitrary. -/
theorem C07_layout_tokens_strong (n m : Nat) (ts us : List Token) (h : sameTokens ts us) :
    (parseTokens n ts).1.map (mapStmt keepNull) = (parseTokens m us).1.map (mapStmt keepNull) ∧
    mapErrs keepNull (parseTokens n ts).2 = mapErrs keepNull (parseTokens m us).2 := by
  have h1 := parseTokens_np n ts
  have h2 := parseTokens_np m us
  rw [(sameTokens_iff_map_np ts us).1 h, h2] at h1
  exact ⟨(congrArg Prod.fst h1).symm, (congrArg Prod.snd h1).symm⟩

theorem map_eraseSpansStmt_keepNull (l : List Stmt) :
    (l.map (mapStmt keepNull)).map eraseSpansStmt = l.map eraseSpansStmt := by
  rw [List.map_map]
  exact List.map_congr_left fun s _ => eraseSpansStmt_keepNull s

/-- **C07 (layout, tokens).**  If two token lists have the same length and pairwise the same kind and
    value, `parseTokens` yields the same statement list modulo `eraseSpansStmt` and the same error list
    modulo positions (`eraseSpansErrs` keeps, per error, whether it has a position, the `notFound` flag and
    the `fuel` flag) — whatever the source lengths `n`, `m`. -/
theorem C07_layout_tokens (n m : Nat) (ts us : List Token) (h : sameTokens ts us) :
    (parseTokens n ts).1.map eraseSpansStmt = (parseTokens m us).1.map eraseSpansStmt ∧
    eraseSpansErrs (parseTokens n ts).2 = eraseSpansErrs (parseTokens m us).2 := by
  obtain ⟨h1, h2⟩ := C07_layout_tokens_strong n m ts us h
  constructor
  · rw [← map_eraseSpansStmt_keepNull, h1, map_eraseSpansStmt_keepNull]
  · rw [← eraseSpansErrs_keepNull, h2, eraseSpansErrs_keepNull]

/-- what `eraseSpansErrs` keeps: the number of errors, the `notFound` flags, success/failure -/
theorem eraseSpansErrs_eq {a b : Errs} (h : eraseSpansErrs a = eraseSpansErrs b) :
    a.length = b.length ∧ a.map (·.notFound) = b.map (·.notFound) ∧ a.map (·.fuel) = b.map (·.fuel) ∧
    a.map (·.span.isSome) = b.map (·.span.isSome) ∧ (a = [] ↔ b = []) := by
  have hl : a.length = b.length := by
    have := congrArg List.length h
    simpa only [eraseSpansErrs, mapErrs_length] using this
  have key : ∀ (g : PErr → Bool), (∀ e, g (mapErr toZero e) = g e) → a.map g = b.map g := by
    intro g hg
    have := congrArg (List.map g) h
    simp only [eraseSpansErrs, mapErrs, List.map_map] at this
    have e : g ∘ mapErr toZero = g := funext hg
    rwa [e] at this
  refine ⟨hl, key _ (fun _ => rfl), key _ (fun _ => rfl), key _ (fun e => ?_), ?_⟩
  · cases e with | mk sp nf fu => cases sp <;> rfl
  · rw [← List.length_eq_zero_iff, ← List.length_eq_zero_iff, hl]

/-- **C07 (layout, errors).** same number of errors, same `notFound` flags, same success/failure -/
theorem C07_layout_errors (n m : Nat) (ts us : List Token) (h : sameTokens ts us) :
    (parseTokens n ts).2.length = (parseTokens m us).2.length ∧
    (parseTokens n ts).2.map (·.notFound) = (parseTokens m us).2.map (·.notFound) ∧
    ((parseTokens n ts).2 = [] ↔ (parseTokens m us).2 = []) :=
  have h := eraseSpansErrs_eq (C07_layout_tokens n m ts us h).2
  ⟨h.1, h.2.1, h.2.2.2.2⟩

/-! ### 2. sources -/

/-- **C07 (layout, sources).**  Two sources whose scans have the same kinds and values parse to the same
    tree modulo positions, and one parses without error iff the other does. -/
theorem C07_layout_source (a b : Bytes) (h : sameTokens (scan a) (scan b)) :
    (parse a).1.map eraseSpansStmt = (parse b).1.map eraseSpansStmt ∧
    ((parse a).2 = [] ↔ (parse b).2 = []) :=
  ⟨(C07_layout_tokens a.length b.length _ _ h).1, (C07_layout_errors a.length b.length _ _ h).2.2⟩

/-- … and the full error information modulo positions -/
theorem C07_layout_source_errors (a b : Bytes) (h : sameTokens (scan a) (scan b)) :
    eraseSpansErrs (parse a).2 = eraseSpansErrs (parse b).2 :=
  (C07_layout_tokens a.length b.length _ _ h).2

/-! ### 3. inserting trivia -/

/-- **C07 (trivia insertion).**  Let `x.length` be a step boundary of the scanner in `x ++ y` (no token or
    comment straddles it: `Reaches`, Lemmas/LexReach) *and* in `x ++ w ++ y`, and let `w` be trivia before
    `y` (white-space runes and `//` comments, each comment with its newline — or, if `y = []` and it is the
    last piece, running to the end of the input).  Then the tokens of `x ++ w ++ y` and of `x ++ y` have the
    same kinds and values. -/
theorem C07_trivia_insertion (x w y : Bytes) (h1 : Reaches (x ++ y) x.length)
    (h2 : Reaches (x ++ (w ++ y)) x.length) (hw : TriviaBefore w y) :
    sameTokens (scan (x ++ (w ++ y))) (scan (x ++ y)) :=
  sameTokens_insert x w y h1 h2 hw

/-- consequently the trees agree -/
theorem C07_trivia_insertion_parse (x w y : Bytes) (h1 : Reaches (x ++ y) x.length)
    (h2 : Reaches (x ++ (w ++ y)) x.length) (hw : TriviaBefore w y) :
    (parse (x ++ (w ++ y))).1.map eraseSpansStmt = (parse (x ++ y)).1.map eraseSpansStmt ∧
    ((parse (x ++ (w ++ y))).2 = [] ↔ (parse (x ++ y)).2 = []) :=
  C07_layout_source _ _ (C07_trivia_insertion x w y h1 h2 hw)

/-- trivia at the very beginning or the very end of a source never matters (no side condition) -/
theorem C07_trivia_leading (w y : Bytes) (hw : TriviaBefore w y) : sameTokens (scan (w ++ y)) (scan y) := by
  have := C07_trivia_insertion [] w y (Reaches.here _) (Reaches.here _) hw
  simpa using this

/-! #### building `TriviaBefore` -/

theorem TriviaBefore.space (c : UInt8) (hc : isAsciiSpace c = true) {w y : Bytes} (h : TriviaBefore w y) :
    TriviaBefore (c :: w) y := by
  have hlt : c.toNat < 0x80 := by
    simp only [isAsciiSpace, Bool.or_eq_true, beq_iff_eq] at hc
    rcases hc with ((((h | h) | h) | h) | h) | h <;> subst h <;> decide
  refine TriviaBefore.step [c] w y (Or.inl ⟨by simp, ?_, ?_⟩) h
  · simp [decodeRune_cons, hlt]
  · simp only [decodeRune_cons, hlt, if_true]
    exact isSpaceRune_of_isAsciiSpace c hc

theorem TriviaBefore.comment (body : Bytes) (hb : ∀ b ∈ body, b ≠ 10) {w y : Bytes} (h : TriviaBefore w y) :
    TriviaBefore (47 :: 47 :: (body ++ 10 :: w)) y := by
  have := TriviaBefore.step (47 :: 47 :: (body ++ [10])) w y (Or.inr ⟨body, hb, Or.inl rfl⟩) h
  simpa using this

/-- a final comment without newline is trivia only at the end of the input -/
theorem TriviaBefore.commentEof (body : Bytes) (hb : ∀ b ∈ body, b ≠ 10) :
    TriviaBefore (47 :: 47 :: body) [] := by
  have := TriviaBefore.step (47 :: 47 :: body) [] [] (Or.inr ⟨body, hb, Or.inr ⟨rfl, rfl⟩⟩) (TriviaBefore.nil [])
  simpa using this

/-! #### counterexamples -/

def B (s : String) : Bytes := Bytes.ofString s

/-- without the boundary in `x ++ y` (hypothesis `h1`) the statement is false, although the two other
    hypotheses hold: `a b`/`ab`, `/ /` vs `//`, `1 .5` vs `1.5`, `< =` vs `<=` -/
theorem C07_trivia_needs_boundary :
    (TriviaBefore (B " ") (B "b") ∧ Reaches (B "a" ++ (B " " ++ B "b")) (B "a").length ∧
      ¬ sameTokens (scan (B "a" ++ (B " " ++ B "b"))) (scan (B "a" ++ B "b"))) ∧
    (TriviaBefore (B " ") (B "/") ∧ Reaches (B "/" ++ (B " " ++ B "/")) (B "/").length ∧
      ¬ sameTokens (scan (B "/" ++ (B " " ++ B "/"))) (scan (B "/" ++ B "/"))) ∧
    (TriviaBefore (B " ") (B ".5") ∧ Reaches (B "1" ++ (B " " ++ B ".5")) (B "1").length ∧
      ¬ sameTokens (scan (B "1" ++ (B " " ++ B ".5"))) (scan (B "1" ++ B ".5"))) ∧
    (TriviaBefore (B " ") (B "=") ∧ Reaches (B "<" ++ (B " " ++ B "=")) (B "<").length ∧
      ¬ sameTokens (scan (B "<" ++ (B " " ++ B "="))) (scan (B "<" ++ B "="))) := by
  have sp : ∀ y, TriviaBefore (B " ") y := fun y => TriviaBefore.space 32 (by decide) (TriviaBefore.nil y)
  refine ⟨⟨sp _, reaches_of_fuel 8 _ _ (by decide), ?_⟩, ⟨sp _, reaches_of_fuel 8 _ _ (by decide), ?_⟩,
    ⟨sp _, reaches_of_fuel 8 _ _ (by decide), ?_⟩, ⟨sp _, reaches_of_fuel 8 _ _ (by decide), ?_⟩⟩ <;>
  · rw [scan_eq_scanFuel, scan_eq_scanFuel]; decide

/-- without the boundary in `x ++ w ++ y` (hypothesis `h2`) the statement is false: a `/` token followed by
    an inserted comment becomes part of the comment (`a /` + `//c⏎` + `b`), and an unterminated string is
    closed by a quote inside an inserted comment (`'abc` + `//'⏎` + `⏎`) -/
theorem C07_trivia_needs_boundary_after :
    (Reaches (B "a /" ++ B "b") (B "a /").length ∧ TriviaBefore (B "//c\n") (B "b") ∧
      ¬ sameTokens (scan (B "a /" ++ (B "//c\n" ++ B "b"))) (scan (B "a /" ++ B "b"))) ∧
    (Reaches (B "'abc" ++ B "\n") (B "'abc").length ∧ TriviaBefore (B "//'\n") (B "\n") ∧
      ¬ sameTokens (scan (B "'abc" ++ (B "//'\n" ++ B "\n"))) (scan (B "'abc" ++ B "\n"))) := by
  refine ⟨⟨reaches_of_fuel 8 _ _ (by decide),
      TriviaBefore.comment (B "c") (by decide) (TriviaBefore.nil _), ?_⟩,
    ⟨reaches_of_fuel 8 _ _ (by decide),
      TriviaBefore.comment (B "'") (by decide) (TriviaBefore.nil _), ?_⟩⟩ <;>
  · rw [scan_eq_scanFuel, scan_eq_scanFuel]; decide

/-- a comment must bring its newline unless nothing follows: `a ` + `//c` + `b` loses the token `b`,
    although both boundaries are there and `//c` on its own is trivia in the sense of C09 (`AllTrivia`) -/
theorem C07_trivia_needs_newline :
    Reaches (B "a " ++ B "b") (B "a ").length ∧ Reaches (B "a " ++ (B "//c" ++ B "b")) (B "a ").length ∧
    AllTrivia (B "//c") ∧
    ¬ sameTokens (scan (B "a " ++ (B "//c" ++ B "b"))) (scan (B "a " ++ B "b")) := by
  refine ⟨reaches_of_fuel 8 _ _ (by decide), reaches_of_fuel 8 _ _ (by decide), ?_, ?_⟩
  · have := AllTrivia.step (B "//c") [] (Or.inr ⟨B "c", by decide, Or.inr ⟨rfl, rfl⟩⟩) AllTrivia.nil
    simpa using this
  · rw [scan_eq_scanFuel, scan_eq_scanFuel]; decide

/-! ### 5. a concrete instance -/

-- decidable equality of trees, for checking concrete instances by evaluation
deriving instance DecidableEq for Expr, ExprList
deriving instance DecidableEq for SortTerm
deriving instance DecidableEq for Column
deriving instance DecidableEq for RenderProp
deriving instance DecidableEq for Tabular, Op, OpList
deriving instance DecidableEq for Stmt

def demoA : Bytes := B "T | where x > 1 | take 5"
def demoB : Bytes := B "T\n\t| where x > 1 // big ones\n  | take 5\n"

theorem demo_sameTokens : sameTokens (scan demoA) (scan demoB) := by
  rw [scan_eq_scanFuel, scan_eq_scanFuel]; decide

/-- the theorem applies … -/
theorem C07_layout_demo :
    (parse demoA).1.map eraseSpansStmt = (parse demoB).1.map eraseSpansStmt ∧
    ((parse demoA).2 = [] ↔ (parse demoB).2 = []) :=
  C07_layout_source demoA demoB demo_sameTokens

/-- … to sources that parse without error, to one statement with two operators, at different positions -/
theorem C07_layout_demo_nontrivial :
    (parse demoA).2 = [] ∧ (parse demoA).1.length = 1 ∧ scan demoA ≠ scan demoB := by
  simp only [parse, scan_eq_scanFuel]
  decide

/-- the trivia-insertion theorem on the same kind of input: `T ` + `// c⏎⇥` + `| count` -/
theorem C07_trivia_demo :
    sameTokens (scan (B "T " ++ (B "// c\n\t" ++ B "| count"))) (scan (B "T " ++ B "| count")) :=
  C07_trivia_insertion _ _ _ (reaches_of_fuel 8 _ _ (by decide)) (reaches_of_fuel 8 _ _ (by decide))
    (TriviaBefore.comment (B " c") (by decide) (TriviaBefore.space 9 (by decide) (TriviaBefore.nil _)))

/-! ### 4. keyword synonyms -/

/-- **C07 (synonyms, operator).**  For every context, fuel, pipe span, keyword token and argument tokens:
    `pOperator` returns the *same* result (operator with all its fields and spans, errors, remaining
    tokens) for the keyword and for its canonical spelling (`filter ↦ where`, `order ↦ sort`,
    `limit ↦ take`).  In particular a pipeline operator introduced by `filter` is the `Op.where_` that
    `where` yields, etc. -/
theorem C07_synonyms_operator (c : PCtx) (fuel : Nat) (pipe : Span) (name : Token) (ts : List Token) :
    pOperator c fuel pipe (canonTok name) ts = pOperator c fuel pipe name ts :=
  pOperator_canon c fuel pipe name ts

/-- the three pairs, spelled out -/
theorem C07_synonyms_pairs (c : PCtx) (fuel : Nat) (pipe : Span) (a b : Nat) (ts : List Token) :
    pOperator c fuel pipe ⟨.ident, a, b, B "filter"⟩ ts = pOperator c fuel pipe ⟨.ident, a, b, B "where"⟩ ts ∧
    pOperator c fuel pipe ⟨.ident, a, b, B "order"⟩ ts = pOperator c fuel pipe ⟨.ident, a, b, B "sort"⟩ ts ∧
    pOperator c fuel pipe ⟨.ident, a, b, B "limit"⟩ ts = pOperator c fuel pipe ⟨.ident, a, b, B "take"⟩ ts :=
  ⟨(pOperator_canon c fuel pipe ⟨.ident, a, b, B "filter"⟩ ts).symm,
   (pOperator_canon c fuel pipe ⟨.ident, a, b, B "order"⟩ ts).symm,
   (pOperator_canon c fuel pipe ⟨.ident, a, b, B "limit"⟩ ts).symm⟩

/-- **C07 (synonyms, program).**  `canonProg` rewrites, in every `;`-separated statement that is not a
    `let` statement, the identifier directly after each `|` of the statement's pipeline (bracket depth 0,
    cut with the parser's `split`) to its canonical spelling.  `Parse` returns exactly the same statements
    and errors. -/
theorem C07_synonyms (n k : Nat) (ts : List Token) : parseTokens n (canonProg k ts) = parseTokens n ts :=
  parseTokens_canon n k ts

/-- **C07 (layout and synonyms, sources).**  Two sources whose scans agree in kinds and values after
    canonicalising the operator keywords parse to the same tree modulo positions. -/
theorem C07_synonyms_source (a b : Bytes) (k k' : Nat)
    (h : sameTokens (canonProg k (scan a)) (canonProg k' (scan b))) :
    (parse a).1.map eraseSpansStmt = (parse b).1.map eraseSpansStmt ∧
    eraseSpansErrs (parse a).2 = eraseSpansErrs (parse b).2 := by
  have := C07_layout_tokens a.length b.length _ _ h
  rwa [C07_synonyms, C07_synonyms] at this

/-- the pipeline-level statement, for any token list (also the one a `join ( … )` sub-parser receives) -/
theorem C07_synonyms_pipeline (c : PCtx) (fuel n : Nat) (ops : OpList) (acc : Errs) (ts : List Token) :
    (pOps c fuel ops acc (canonPipes n ts)).val = (pOps c fuel ops acc ts).val ∧
    (pOps c fuel ops acc (canonPipes n ts)).errs = (pOps c fuel ops acc ts).errs := by
  obtain ⟨k, h⟩ := pOps_canon c fuel n ops acc ts
  rw [h]
  exact ⟨rfl, rfl⟩

def demoC : Bytes := B "T\n| filter x > 1 // c\n| order by x desc\n\t| limit 5"
def demoD : Bytes := B "T | where x > 1 | sort by x desc | take 5"

theorem demo_syn_sameTokens : sameTokens (canonProg 20 (scan demoC)) (canonProg 20 (scan demoD)) := by
  rw [scan_eq_scanFuel, scan_eq_scanFuel]; decide

/-- non-vacuity: different layout *and* different synonyms; the canonicalisation really rewrites three
    tokens, the sources parse without error, and the theorem gives the same tree -/
theorem C07_synonyms_demo :
    (parse demoC).1.map eraseSpansStmt = (parse demoD).1.map eraseSpansStmt ∧
    (parse demoC).2 = [] ∧ (parse demoD).2 = [] ∧
    ¬ sameTokens (scan demoC) (scan demoD) ∧ canonProg 20 (scan demoC) ≠ scan demoC := by
  refine ⟨(C07_synonyms_source demoC demoD 20 20 demo_syn_sameTokens).1, ?_, ?_, ?_, ?_⟩
  · simp only [parse, scan_eq_scanFuel]; decide
  · simp only [parse, scan_eq_scanFuel]; decide
  · rw [scan_eq_scanFuel, scan_eq_scanFuel]; decide
  · rw [scan_eq_scanFuel]; decide

/-- independent check by evaluation (no theorem of this file involved): the two erased trees are equal -/
theorem C07_synonyms_demo_check :
    (parse demoC).1.map eraseSpansStmt = (parse demoD).1.map eraseSpansStmt := by
  simp only [parse, scan_eq_scanFuel]
  decide +kernel

theorem C07_layout_demo_check :
    (parse demoA).1.map eraseSpansStmt = (parse demoB).1.map eraseSpansStmt := by
  simp only [parse, scan_eq_scanFuel]
  decide +kernel

/-- why the synonyms are *not* a property of token values: replacing the identifier `filter` by `where`
    where it is a column name changes the tree (`T | project filter` vs `T | project where`) -/
theorem C07_synonyms_not_tokenwise :
    (parse (B "T | project filter")).1.map eraseSpansStmt ≠
      (parse (B "T | project where")).1.map eraseSpansStmt := by
  simp only [parse, scan_eq_scanFuel]
  decide +kernel

end Pql.Layout
