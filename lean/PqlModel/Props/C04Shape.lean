/-
Property C04, parametricity half — expressions.

The chunk list `writeExpr` emits is a function of the *structure* of the expression with the
contents (string literal values, names, number texts) plugged in: replacing contents replaces
exactly the corresponding `.qstr` / `.qid` / `.num` chunks, nothing else, and errors are
preserved.  (What each such chunk decodes to is `C04_decode_string` / `C04_decode_identifier`.)
-/
import PqlModel.Lemmas.ShapeJoin
namespace Pql.C04
open Pql

/-! ### string literals -/

mutual
/-- replace the value of every string literal by `f value`; nothing else -/
def mapStr (f : Bytes → Bytes) : Expr → Expr
  | .nil => .nil
  | .qident parts => .qident parts
  | .lit sp k v => if k = .string then .lit sp k (f v) else .lit sp k v
  | .unary os op x => .unary os op (mapStr f x)
  | .binary x os op y => .binary (mapStr f x) os op (mapStr f y)
  | .inE x i lp vals rp => .inE (mapStr f x) i lp (mapStrL f vals) rp
  | .paren lp x rp => .paren lp (mapStr f x) rp
  | .call fn lp args rp => .call fn lp (mapStrL f args) rp
  | .index x lb idx rb => .index (mapStr f x) lb (mapStr f idx) rb
def mapStrL (f : Bytes → Bytes) : ExprList → ExprList
  | .nil => .nil
  | .cons e es => .cons (mapStr f e) (mapStrL f es)
end

end Pql.C04

namespace Pql
/-- `.qstr v ↦ .qstr (f v)`, other chunks unchanged -/
def Chunk.mapStr (f : Bytes → Bytes) : Chunk → Chunk
  | .qstr v => .qstr (f v)
  | c => c
def Chunk.mapName (f : Bytes → Bytes) : Chunk → Chunk
  | .qid v => .qid (f v)
  | c => c
def Chunk.mapNum (f : Bytes → Bytes) : Chunk → Chunk
  | .num v => .num (f v)
  | c => c
end Pql

namespace Pql.C04

theorem ident_id (φ : CMap) (hn : ∀ n, φ.fn n = n) (hsp : ∀ sp, φ.fsp sp = sp) (p : Ident) : φ.ident p = p := by
  cases p
  simp only [CMap.ident, hn, hsp]

theorem map_ident_id (φ : CMap) (hn : ∀ n, φ.fn n = n) (hsp : ∀ sp, φ.fsp sp = sp) (ps : List Ident) :
    ps.map φ.ident = ps := by
  induction ps with
  | nil => rfl
  | cons p ps ih => rw [List.map_cons, ih, ident_id φ hn hsp]

mutual
theorem mapStr_eq (f : Bytes → Bytes) : (e : Expr) → mapStr f e = mapE (.ofStr f) e
  | .nil => by simp only [mapStr, mapE]
  | .qident parts => by
    simp only [mapStr, mapE]
    rw [map_ident_id _ (fun _ => rfl) (fun _ => rfl)]
  | .lit sp k v => by
    simp only [mapStr, mapE, CMap.lit, CMap.ofStr, id]
    split <;> (try split) <;> rfl
  | .unary os op x => by simp only [mapStr, mapE, mapStr_eq f x]; rfl
  | .binary x os op y => by simp only [mapStr, mapE, mapStr_eq f x, mapStr_eq f y]; rfl
  | .inE x i lp vals rp => by simp only [mapStr, mapE, mapStr_eq f x, mapStrL_eq f vals]; rfl
  | .paren lp x rp => by simp only [mapStr, mapE, mapStr_eq f x]; rfl
  | .call fn lp args rp => by simp only [mapStr, mapE, mapStrL_eq f args]; rfl
  | .index x lb idx rb => by simp only [mapStr, mapE, mapStr_eq f x, mapStr_eq f idx]; rfl
theorem mapStrL_eq (f : Bytes → Bytes) : (es : ExprList) → mapStrL f es = mapL (.ofStr f) es
  | .nil => by simp only [mapStrL, mapL]
  | .cons e es => by simp only [mapStrL, mapL, mapStr_eq f e, mapStrL_eq f es]
end

theorem Chunk.mapStr_eq (f : Bytes → Bytes) : Chunk.mapStr f = Chunk.mapC (.ofStr f) := by
  funext c
  cases c <;> rfl

theorem Chunk.mapName_eq (f : Bytes → Bytes) : Chunk.mapName f = Chunk.mapC (.ofName f) := by
  funext c
  cases c <;> rfl

theorem Chunk.mapNum_eq (f : Bytes → Bytes) : Chunk.mapNum f = Chunk.mapC (.ofNum f) := by
  funext c
  cases c <;> rfl

/-- the scope of the mapped program: same names, mapped texts -/
def mapScope (φ : CMap) (s : Scope) : Scope := s.map fun kv => (kv.1, kv.2.map (Chunk.mapC φ))

/-- the general exact statement, for any content map, any scope (mapped alike) and any two sources -/
theorem C04_content_parametric (φ : CMap) (src src' : Bytes) (s : Scope) (m : Mode) (e : Expr)
    (hi : inertE s m φ e = true) :
    writeExpr ⟨src', mapScope φ s, m⟩ (mapE φ e) = (writeExpr ⟨src, s, m⟩ e).map (List.map (Chunk.mapC φ)) :=
  (mapE_rel (MapsTo.cong φ) (ScopeRel.map (MapsTo.cong φ) s) e hi).mapsTo_eq

/-- **C04 (string contents are data).** Replacing the values of the string literals of an
    expression replaces exactly the `.qstr` chunks of its SQL, in place; every other chunk, the
    order, the parentheses and — when the expression does not compile — the error are the same. -/
theorem C04_string_parametric (ctx : Ctx) (hs : ctx.scope = []) (f : Bytes → Bytes) (e : Expr) :
    writeExpr ctx (mapStr f e) = (writeExpr ctx e).map (List.map (Chunk.mapStr f)) := by
  obtain ⟨src, s, m⟩ := ctx
  subst hs
  rw [mapStr_eq, Chunk.mapStr_eq]
  exact C04_content_parametric (.ofStr f) src src [] m e (inertE_of_fn_id (fun _ => rfl) _ _ e)

/-- with let-bound names and parameters in scope: the bound texts are mapped alike -/
theorem C04_string_parametric_scope (ctx : Ctx) (f : Bytes → Bytes) (e : Expr) :
    writeExpr ⟨ctx.src, mapScope (.ofStr f) ctx.scope, ctx.mode⟩ (mapStr f e) =
      (writeExpr ctx e).map (List.map (Chunk.mapStr f)) := by
  rw [mapStr_eq, Chunk.mapStr_eq]
  exact C04_content_parametric (.ofStr f) ctx.src ctx.src ctx.scope ctx.mode e (inertE_of_fn_id (fun _ => rfl) _ _ e)

theorem sameShape_refl_scope (s : Scope) : ScopeRel SameShape s s := by
  intro n
  cases lookupScope s n with
  | none => exact .none
  | some v => exact .some rfl

/-- **C04 (shape).** The shapes of the chunks (constructor only for `.qstr` / `.qid` / `.num`,
    full text for the fixed pieces) do not depend on the string contents — in any scope. -/
theorem C04_string_shape (ctx : Ctx) (f : Bytes → Bytes) (e : Expr) :
    (writeExpr ctx (mapStr f e)).map (List.map Chunk.shape) = (writeExpr ctx e).map (List.map Chunk.shape) := by
  rw [mapStr_eq]
  exact (mapE_rel (SameShape.cong (.ofStr f)) (sameShape_refl_scope ctx.scope) e
    (inertE_of_fn_id (fun _ => rfl) _ _ e)).sameShape_eq.symm

/-- `strcat('a', x) == 'it''s'` -/
def exStr : Expr :=
  .binary (.call ⟨Bytes.ofString "strcat", .zero, false⟩ .zero
      (.cons (.lit .zero .string [97]) (.cons (.qident [⟨[120], .zero, false⟩]) .nil)) .zero)
    .zero .eq (.lit .zero .string [105, 116, 39, 115])

/-- non-vacuity: every literal of `exStr` doubled -/
example :
    writeExpr ⟨[], [], .default⟩ exStr =
      .ok [.txt "coalesce(", .txt "(", .qstr [97], .txt " || ", .qid [120], .txt ")", .txt " = ",
           .qstr [105, 116, 39, 115], .txt ", FALSE)"] ∧
    writeExpr ⟨[], [], .default⟩ (mapStr (fun v => v ++ v) exStr) =
      .ok [.txt "coalesce(", .txt "(", .qstr [97, 97], .txt " || ", .qid [120], .txt ")", .txt " = ",
           .qstr [105, 116, 39, 115, 105, 116, 39, 115], .txt ", FALSE)"] :=
  ⟨rfl, rfl⟩

/-! ### number literals -/

mutual
def mapNum (f : Bytes → Bytes) : Expr → Expr
  | .nil => .nil
  | .qident parts => .qident parts
  | .lit sp k v => if k = .number then .lit sp k (f v) else .lit sp k v
  | .unary os op x => .unary os op (mapNum f x)
  | .binary x os op y => .binary (mapNum f x) os op (mapNum f y)
  | .inE x i lp vals rp => .inE (mapNum f x) i lp (mapNumL f vals) rp
  | .paren lp x rp => .paren lp (mapNum f x) rp
  | .call fn lp args rp => .call fn lp (mapNumL f args) rp
  | .index x lb idx rb => .index (mapNum f x) lb (mapNum f idx) rb
def mapNumL (f : Bytes → Bytes) : ExprList → ExprList
  | .nil => .nil
  | .cons e es => .cons (mapNum f e) (mapNumL f es)
end

mutual
theorem mapNum_eq (f : Bytes → Bytes) : (e : Expr) → mapNum f e = mapE (.ofNum f) e
  | .nil => by simp only [mapNum, mapE]
  | .qident parts => by
    simp only [mapNum, mapE]
    rw [map_ident_id _ (fun _ => rfl) (fun _ => rfl)]
  | .lit sp k v => by
    simp only [mapNum, mapE, CMap.lit, CMap.ofNum, id]
    by_cases h1 : k = .string
    · subst h1
      simp only [show ¬(TokKind.string = TokKind.number) by decide, if_false, if_true]
    · by_cases h2 : k = .number
      · subst h2
        simp only [h1, if_false, if_true]
      · simp only [h1, h2, if_false]
  | .unary os op x => by simp only [mapNum, mapE, mapNum_eq f x]; rfl
  | .binary x os op y => by simp only [mapNum, mapE, mapNum_eq f x, mapNum_eq f y]; rfl
  | .inE x i lp vals rp => by simp only [mapNum, mapE, mapNum_eq f x, mapNumL_eq f vals]; rfl
  | .paren lp x rp => by simp only [mapNum, mapE, mapNum_eq f x]; rfl
  | .call fn lp args rp => by simp only [mapNum, mapE, mapNumL_eq f args]; rfl
  | .index x lb idx rb => by simp only [mapNum, mapE, mapNum_eq f x, mapNum_eq f idx]; rfl
theorem mapNumL_eq (f : Bytes → Bytes) : (es : ExprList) → mapNumL f es = mapL (.ofNum f) es
  | .nil => by simp only [mapNumL, mapL]
  | .cons e es => by simp only [mapNumL, mapL, mapNum_eq f e, mapNumL_eq f es]
end

/-- **C04 (number texts are data).** A number literal's text never influences the structure
    (in particular not the parenthesisation: `wrapTight` / `isSigned` look at the tree only). -/
theorem C04_number_parametric (ctx : Ctx) (hs : ctx.scope = []) (f : Bytes → Bytes) (e : Expr) :
    writeExpr ctx (mapNum f e) = (writeExpr ctx e).map (List.map (Chunk.mapNum f)) := by
  obtain ⟨src, s, m⟩ := ctx
  subst hs
  rw [mapNum_eq, Chunk.mapNum_eq]
  exact C04_content_parametric (.ofNum f) src src [] m e (inertE_of_fn_id (fun _ => rfl) _ _ e)

theorem C04_number_shape (ctx : Ctx) (f : Bytes → Bytes) (e : Expr) :
    (writeExpr ctx (mapNum f e)).map (List.map Chunk.shape) = (writeExpr ctx e).map (List.map Chunk.shape) := by
  rw [mapNum_eq]
  exact (mapE_rel (SameShape.cong (.ofNum f)) (sameShape_refl_scope ctx.scope) e
    (inertE_of_fn_id (fun _ => rfl) _ _ e)).sameShape_eq.symm

/-- `-(1) - -(-2)` -/
def exNum : Expr :=
  .binary (.unary .zero .minus (.paren .zero (.lit .zero .number [49]) .zero)) .zero .minus
    (.unary .zero .minus (.unary .zero .minus (.lit .zero .number [50])))

/-- non-vacuity: the numbers of `exNum` get a `0` appended; the parentheses stay -/
example :
    writeExpr ⟨[], [], .default⟩ (mapNum (fun v => v ++ [48]) exNum) =
      .ok [.txt "-", .num [49, 48], .txt " ", .txt "-", .txt " ", .txt "-", .txt "(", .txt "-", .num [50, 48],
        .txt ")"] :=
  rfl

/-! ### names -/

mutual
/-- rename every identifier part (quoted or not) — function names are not names in this sense:
    they select the rewrite, or are passed through as `.fname` -/
def mapName (f : Bytes → Bytes) : Expr → Expr
  | .nil => .nil
  | .qident parts => .qident (parts.map fun p => { p with name := f p.name })
  | .lit sp k v => .lit sp k v
  | .unary os op x => .unary os op (mapName f x)
  | .binary x os op y => .binary (mapName f x) os op (mapName f y)
  | .inE x i lp vals rp => .inE (mapName f x) i lp (mapNameL f vals) rp
  | .paren lp x rp => .paren lp (mapName f x) rp
  | .call fn lp args rp => .call fn lp (mapNameL f args) rp
  | .index x lb idx rb => .index (mapName f x) lb (mapName f idx) rb
def mapNameL (f : Bytes → Bytes) : ExprList → ExprList
  | .nil => .nil
  | .cons e es => .cons (mapName f e) (mapNameL f es)
end

mutual
theorem mapName_eq (f : Bytes → Bytes) : (e : Expr) → mapName f e = mapE (.ofName f) e
  | .nil => by simp only [mapName, mapE]
  | .qident parts => by
    simp only [mapName, mapE]
    rfl
  | .lit sp k v => by
    simp only [mapName, mapE, CMap.lit, CMap.ofName, id]
    split <;> (try split) <;> rfl
  | .unary os op x => by simp only [mapName, mapE, mapName_eq f x]; rfl
  | .binary x os op y => by simp only [mapName, mapE, mapName_eq f x, mapName_eq f y]; rfl
  | .inE x i lp vals rp => by simp only [mapName, mapE, mapName_eq f x, mapNameL_eq f vals]; rfl
  | .paren lp x rp => by simp only [mapName, mapE, mapName_eq f x]; rfl
  | .call fn lp args rp => by simp only [mapName, mapE, mapNameL_eq f args]; rfl
  | .index x lb idx rb => by simp only [mapName, mapE, mapName_eq f x, mapName_eq f idx]; rfl
theorem mapNameL_eq (f : Bytes → Bytes) : (es : ExprList) → mapNameL f es = mapL (.ofName f) es
  | .nil => by simp only [mapNameL, mapL]
  | .cons e es => by simp only [mapNameL, mapL, mapName_eq f e, mapNameL_eq f es]
end

/-- the renaming `f` is inert on `e` in `ctx`: it fixes the names `writeExpr` looks at (`keyName`:
    unquoted `$left` / `$right`, and these two in any form inside a join condition; for an unquoted
    single-part name also the names in scope and `true` / `false` / `null`) and maps no other name
    of `e` to such a name.  Decidable. -/
def NameInert (ctx : Ctx) (e : Expr) (f : Bytes → Bytes) : Bool := inertE ctx.scope ctx.mode (.ofName f) e

/-- **C04 (names are data).** An inert renaming replaces exactly the `.qid` chunks. -/
theorem C04_name_parametric (ctx : Ctx) (hs : ctx.scope = []) (f : Bytes → Bytes) (e : Expr)
    (hi : NameInert ctx e f = true) :
    writeExpr ctx (mapName f e) = (writeExpr ctx e).map (List.map (Chunk.mapName f)) := by
  obtain ⟨src, s, m⟩ := ctx
  subst hs
  rw [mapName_eq, Chunk.mapName_eq]
  exact C04_content_parametric (.ofName f) src src [] m e hi

/-- with names in scope: the bound names are key names (fixed by an inert `f`), the `.qid` chunks
    inside the bound texts are renamed alike -/
theorem C04_name_parametric_scope (ctx : Ctx) (f : Bytes → Bytes) (e : Expr) (hi : NameInert ctx e f = true) :
    writeExpr ⟨ctx.src, mapScope (.ofName f) ctx.scope, ctx.mode⟩ (mapName f e) =
      (writeExpr ctx e).map (List.map (Chunk.mapName f)) := by
  rw [mapName_eq, Chunk.mapName_eq]
  exact C04_content_parametric (.ofName f) ctx.src ctx.src ctx.scope ctx.mode e hi

theorem C04_name_shape (ctx : Ctx) (f : Bytes → Bytes) (e : Expr) (hi : NameInert ctx e f = true) :
    (writeExpr ctx (mapName f e)).map (List.map Chunk.shape) = (writeExpr ctx e).map (List.map Chunk.shape) := by
  rw [mapName_eq]
  exact (mapE_rel (SameShape.cong (.ofName f)) (sameShape_refl_scope ctx.scope) e hi).sameShape_eq.symm

end Pql.C04
