/-
Property C04, parametricity half — operators, pipelines, programs.

`mapOp` / `mapT` / `mapStmt` apply a content map to operators, pipelines and statements (string
literal values, names, number texts; positions by `φ.fsp`).  The SQL chunks of
`(*subquery).write`, the split into subqueries and the chunks of the whole compiled statement
keep their *shape* (`Chunk.shape`: constructor only for `.qstr` / `.qid` / `.num`, full text for
the fixed pieces): contents never open a clause, change the split, or move a parenthesis.
Exact statements (`… = (…).map (List.map (Chunk.mapC φ))`) hold where every content chunk comes
from one content of the tree: all extend / summarize columns named, no `render` (`_partial`).
-/
import PqlModel.Props.C04Shape
import PqlModel.Lemmas.ShapeSpan
namespace Pql.C04
open Pql

/-- the image of a subquery -/
def mapSub (φ : CMap) (sub : Subquery) : Subquery :=
  { name := sub.name, source := sub.source.map (Chunk.mapC φ), op := sub.op.map (mapOp φ),
    sort := sub.sort.map (List.map (mapSortTerm φ)), take := sub.take.map (mapE φ) }

theorem mapSub_shapeRel (φ : CMap) (sub : Subquery) : MSubRel φ SameShape sub (mapSub φ sub) :=
  ⟨rfl, (SameShape.cong φ).map _, rfl, rfl, rfl⟩

/-! ### one subquery -/

/-- **C04 (operators, shape).** Writing the image of a subquery — in any scope, from any other
    source text — gives chunks of the same shape, or the same error; provided the renaming is
    inert (vacuous for string / number maps) and, for every *unnamed* extend / summarize
    column, its text can be cut from the new source iff it can from the old (`sliceOp`). -/
theorem C04_write_shape (φ : CMap) (src src' : Bytes) (s : Scope) (m : Mode) (sub : Subquery)
    (hi : inertSub s m φ sub = true)
    (hsl : (match sub.op with | some o => sliceOp φ src src' o | none => true) = true) :
    (Subquery.write ⟨src', s, m⟩ (mapSub φ sub)).map (List.map Chunk.shape) =
      (Subquery.write ⟨src, s, m⟩ sub).map (List.map Chunk.shape) := by
  refine (Subquery.write_mrel (SameShape.cong φ) (sameShape_refl_scope s) (mapSub_shapeRel φ sub) hi ?_).sameShape_eq.symm
  unfold SubOK
  cases h : sub.op with
  | none => trivial
  | some o =>
    rw [h] at hsl
    exact opOK_shape o hsl

/-- **C04 (operators, exact, partial).** With all extend / summarize columns named and no
    `render`, a content map that renames nothing (string / number maps) maps the chunks exactly. -/
theorem C04_write_parametric_partial (φ : CMap) (hn : ∀ n, φ.fn n = n) (src src' : Bytes) (s : Scope) (m : Mode)
    (sub : Subquery) (hex : (match sub.op with | some o => exactOp o | none => true) = true) :
    Subquery.write ⟨src', mapScope φ s, m⟩ (mapSub φ sub) =
      (Subquery.write ⟨src, s, m⟩ sub).map (List.map (Chunk.mapC φ)) := by
  have hsub : MSubRel φ (MapsTo φ) sub (mapSub φ sub) :=
    ⟨by show [Chunk.qid sub.name] = [Chunk.qid (φ.fn sub.name)]; rw [hn], rfl, rfl, rfl, rfl⟩
  have hi : inertSub s m φ sub = true := by
    simp only [inertSub, Bool.and_eq_true]
    refine ⟨⟨?_, ?_⟩, ?_⟩
    · cases sub.op with
      | none => rfl
      | some o => exact inertOp_of_fn_id hn s m o
    · cases sub.sort with
      | none => rfl
      | some ts => exact inertTerms_of_fn_id hn s m ts
    · cases sub.take with
      | none => rfl
      | some n => exact Pql.inertE_of_fn_id hn s m n
  refine (Subquery.write_mrel (MapsTo.cong φ) (ScopeRel.map (MapsTo.cong φ) s) hsub hi ?_).mapsTo_eq
  unfold SubOK
  cases h : sub.op with
  | none => trivial
  | some o =>
    rw [h] at hex
    exact opOK_exact (hn []) o hex

/-! ### the split -/

/-- what the splitter decides: per subquery, the shape of its FROM clause, the type of its
    operator, whether a sort / a limit is attached -/
def subShape (sub : Subquery) : List ChunkShape × Option String × Bool × Bool :=
  (sub.source.map Chunk.shape, sub.op.map opTypeName, sub.sort.isSome, sub.take.isSome)

theorem subShape_of_rel {φ : CMap} {src src' : Bytes} {s : Scope} {a b : Subquery}
    (h : WSubRel φ SameShape src src' s a b) : subShape a = subShape b := by
  have hs : a.source.map Chunk.shape = b.source.map Chunk.shape := h.source
  simp only [subShape, hs, h.op, h.sort, h.take, Option.map_map, Option.isSome_map]
  congr 2
  cases a.op with
  | none => rfl
  | some o => simp only [Option.map_some, Function.comp, opTypeName_mapOp]

theorem map_subShape_of_rel {φ : CMap} {src src' : Bytes} {s : Scope} {as bs : List Subquery}
    (h : ListRel (WSubRel φ SameShape src src' s) as bs) : as.map subShape = bs.map subShape := by
  induction h with
  | nil => rfl
  | cons hab _ ih => rw [List.map_cons, List.map_cons, subShape_of_rel hab, ih]

/-- **C04 (split).** Contents never influence how the pipeline is split into subqueries. -/
theorem C04_split_shape (φ : CMap) (src src' : Bytes) (s : Scope) (t : Tabular)
    (hi : inertT s φ t = true) (hsl : TabAll (sliceOp φ src src') t = true) :
    (splitQueries src' s [] (mapT φ t)).map (List.map subShape) =
      (splitQueries src s [] t).map (List.map subShape) := by
  have h := msplitQueries_rel (SameShape.splitCong φ) (sameShape_refl_scope s) t hi
    (TabOK_of_all (fun o ho => opOK_shape o ho) t hsl) [] [] .nil
  rcases h.cases_on with ⟨a, b, ha, hb, hab⟩ | ⟨e, ha, hb⟩
  · rw [ha, hb]
    exact congrArg Except.ok (map_subShape_of_rel hab).symm
  · rw [ha, hb]

/-! ### whole programs -/

/-- **C04 (programs, shape).** The chunks of the compiled statement keep their shape under any
    inert content map, whatever happens to the source text and the positions, as long as the text
    of every unnamed column can still be cut (from the new source at the new positions). -/
theorem C04_compile_shape (φ : CMap) (src src' : Bytes) (params : List (Bytes × Bytes)) (stmts : List Stmt)
    (hi : inertProg src φ stmts (params.map fun kv => (kv.1, [Chunk.raw kv.2])) none = true)
    (hsl : ∀ t, Stmt.tabular t ∈ stmts → TabAll (sliceOp φ src src') t = true) :
    (compileChunks src' params (stmts.map (mapStmt φ))).map (List.map Chunk.shape) =
      (compileChunks src params stmts).map (List.map Chunk.shape) :=
  (compileChunks_mrel (SameShape.splitCong φ) params stmts hi
    fun t ht => TabOK_of_all (fun o ho => opOK_shape o ho) t (hsl t ht)).sameShape_eq.symm

/-- **C04 (programs, exact, partial).** For a content map that renames nothing, with all
    extend / summarize columns named and no `render`: the chunks are mapped exactly. -/
theorem C04_compile_parametric_partial (φ : CMap) (hn : ∀ n, φ.fn n = n) (src src' : Bytes)
    (params : List (Bytes × Bytes)) (stmts : List Stmt)
    (hex : ∀ t, Stmt.tabular t ∈ stmts → TabAll exactOp t = true) :
    compileChunks src' params (stmts.map (mapStmt φ)) =
      (compileChunks src params stmts).map (List.map (Chunk.mapC φ)) :=
  (compileChunks_mrel (MapsTo.splitCong φ (fun _ => hn _) (hn _)) params stmts (inertProg_of_fn_id hn src stmts _ _)
    fun t ht => TabOK_of_all (fun o ho => opOK_exact (hn []) o ho) t (hex t ht)).mapsTo_eq

/-- the same for renamings: inert on the program, fixing the generated subquery names and the
    empty name -/
theorem C04_compile_name_parametric_partial (φ : CMap) (hgen : ∀ i, φ.fn (subqueryName i) = subqueryName i)
    (hnil : φ.fn [] = []) (src src' : Bytes) (params : List (Bytes × Bytes)) (stmts : List Stmt)
    (hi : inertProg src φ stmts (params.map fun kv => (kv.1, [Chunk.raw kv.2])) none = true)
    (hex : ∀ t, Stmt.tabular t ∈ stmts → TabAll exactOp t = true) :
    compileChunks src' params (stmts.map (mapStmt φ)) =
      (compileChunks src params stmts).map (List.map (Chunk.mapC φ)) :=
  (compileChunks_mrel (MapsTo.splitCong φ hgen hnil) params stmts hi
    fun t ht => TabOK_of_all (fun o ho => opOK_exact hnil o ho) t (hex t ht)).mapsTo_eq

/-! ### string literals: the instances without side conditions

Against the *same* source text and with positions kept (the map acts on the tree), the alias of
an unnamed column is unchanged, and no hypothesis is left. -/

def mapStrOp (f : Bytes → Bytes) : Op → Op := mapOp (.ofStr f)
def mapStrT (f : Bytes → Bytes) : Tabular → Tabular := mapT (.ofStr f)
def mapStrStmt (f : Bytes → Bytes) : Stmt → Stmt := mapStmt (.ofStr f)

theorem C04_write_string_shape (f : Bytes → Bytes) (ctx : Ctx) (sub : Subquery) :
    (Subquery.write ctx (mapSub (.ofStr f) sub)).map (List.map Chunk.shape) =
      (Subquery.write ctx sub).map (List.map Chunk.shape) := by
  refine C04_write_shape (.ofStr f) ctx.src ctx.src ctx.scope ctx.mode sub ?_ ?_
  · simp only [inertSub, Bool.and_eq_true]
    refine ⟨⟨?_, ?_⟩, ?_⟩
    · cases sub.op with
      | none => rfl
      | some o => exact inertOp_of_fn_id (fun _ => rfl) _ _ o
    · cases sub.sort with
      | none => rfl
      | some ts => exact inertTerms_of_fn_id (fun _ => rfl) _ _ ts
    · cases sub.take with
      | none => rfl
      | some n => exact Pql.inertE_of_fn_id (fun _ => rfl) _ _ n
  · cases sub.op with
    | none => rfl
    | some o => exact sliceOp_self (fun _ => rfl) _ o

/-- **C04 (split, strings).** String contents never influence how the pipeline is split. -/
theorem C04_split_string_shape (f : Bytes → Bytes) (src : Bytes) (s : Scope) (t : Tabular) :
    (splitQueries src s [] (mapStrT f t)).map (List.map subShape) =
      (splitQueries src s [] t).map (List.map subShape) :=
  C04_split_shape (.ofStr f) src src s t (inertT_of_fn_id (fun _ => rfl) s t)
    (TabAll_of_forall (sliceOp_self (fun _ => rfl) src) t)

/-- **C04 (programs, strings).** -/
theorem C04_compile_string_shape (f : Bytes → Bytes) (src : Bytes) (params : List (Bytes × Bytes))
    (stmts : List Stmt) :
    (compileChunks src params (stmts.map (mapStrStmt f))).map (List.map Chunk.shape) =
      (compileChunks src params stmts).map (List.map Chunk.shape) :=
  C04_compile_shape (.ofStr f) src src params stmts (inertProg_of_fn_id (fun _ => rfl) src stmts _ _)
    fun t _ => TabAll_of_forall (sliceOp_self (fun _ => rfl) src) t

theorem C04_compile_string_parametric_partial (f : Bytes → Bytes) (src src' : Bytes)
    (params : List (Bytes × Bytes)) (stmts : List Stmt)
    (hex : ∀ t, Stmt.tabular t ∈ stmts → TabAll exactOp t = true) :
    compileChunks src' params (stmts.map (mapStrStmt f)) =
      (compileChunks src params stmts).map (List.map (Chunk.mapStr f)) := by
  rw [Chunk.mapStr_eq]
  exact C04_compile_parametric_partial (.ofStr f) (fun _ => rfl) src src' params stmts hex

end Pql.C04
