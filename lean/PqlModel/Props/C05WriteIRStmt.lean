/-
Property C05 (and C02), tie by translation, part 4: the statement assembly at the end of
`(*CompileOptions).Compile`, `quoteIdentifier`, `quoteSQLString`, `subqueryName`, `dataSourceSQL`
against the IR regenerated from pql.go (see Props/C05WriteIR.lean for the set-up).
-/
import PqlModel.Props.C05WriteIRAll
namespace Pql.WriteIR
open Pql
set_option linter.unusedSimpArgs false

/-! ### the statement assembly of `Compile` -/

def cteBody : List Stmt :=
  [.qid ⟨"sub", "name"⟩, .lit " AS (", .callWrite "sub", .lit ")",
   .ite (.notLast "i" ⟨"ctes", ""⟩) [.lit ",\n     "] [.lit "\n"]]

def compileIR : List Stmt :=
  [.init "ctes" "subqueries", .last "query" "subqueries", .ctx "source" "scope" "",
   .ite (.nonempty ⟨"ctes", ""⟩) [.lit "WITH ", .for_ "i" "sub" ⟨"ctes", ""⟩ cteBody] [],
   .callWrite "query", .lit ";", .ret]

theorem compile_ir : decode (irOf "Compile") = some compileIR := by rfl

/-- the tail of the model's `compileChunks`: from the subqueries to the statement -/
def assemble (ctx : Ctx) (subs : List Subquery) : W :=
  match subs.reverse with
  | [] => .error .panic
  | query :: ctesRev =>
    let ctes := ctesRev.reverse
    (if ctes.isEmpty then pure [] else writeCtes ctx ctes >>= fun c => pure (.txt "WITH " :: c)) >>= fun withPart =>
    query.write ctx >>= fun body =>
    pure (withPart ++ body ++ [.txt ";"])

theorem compileChunks_eq (src : Bytes) (params : List (Bytes × Bytes)) (stmts : List Pql.Stmt) :
    compileChunks src params stmts =
      (compileStmts src stmts (params.map fun kv => (kv.1, [Chunk.raw kv.2])) none >>= fun sq =>
        match sq.2 with
        | none => .error .err
        | some t => splitQueries src sq.1 [] t >>= fun subs => assemble ⟨src, sq.1, .default⟩ subs) := by
  unfold compileChunks assemble
  dsimp only
  cases compileStmts src stmts (params.map fun kv => (kv.1, [Chunk.raw kv.2])) none with
  | error e => rfl
  | ok sq =>
    obtain ⟨scope, q⟩ := sq
    cases q with
    | none => rfl
    | some t =>
      simp only [bind, Except.bind]
      cases splitQueries src scope [] t with
      | error e => rfl
      | ok subs =>
        dsimp only
        cases subs.reverse with
        | nil => rfl
        | cons query ctesRev =>
          dsimp only
          cases ctesRev.reverse.isEmpty
          · simp only [Bool.false_eq_true, if_false]
            cases writeCtes ⟨src, scope, .default⟩ ctesRev.reverse <;> rfl
          · rfl

/-- the variables of `Compile` in scope inside the `WITH` loop -/
def asmVars (src : Bytes) (scope : List (Bytes × List Chunk)) (ctes : List Subquery) (q : Subquery) :
    List (String × Val) :=
  [("query", .sub q), ("ctes", .subs ctes), ("subqueries", .subs (ctes ++ [q])), ("source", .str src),
   ("scope", .scope scope)]

/-- one common table expression, as the loop of `Compile` writes it (`n` of them in all) -/
def cteW (ctx : Ctx) (n : Nat) (j : Nat) (s : Subquery) : M (List Chunk) :=
  liftW (s.write ctx) >>= fun b =>
    .ok (.qid s.name :: .txt " AS (" :: (b ++ [.txt ")", .txt (if j + 1 < n then ",\n     " else "\n")]))

theorem cte_body (src : Bytes) (scope : List (Bytes × List Chunk)) (ctes : List Subquery) (q : Subquery) (i : Nat)
    (s : Subquery) :
    (execBlock modelSem cteBody ⟨some ⟨src, scope, .default⟩, ("sub", .sub s) :: ("i", .nat i) :: asmVars src scope ctes q⟩
        >>= fun r => .ok (r.1, r.2.leave ⟨some ⟨src, scope, .default⟩, asmVars src scope ctes q⟩)) =
      (cteW ⟨src, scope, .default⟩ ctes.length i s >>= fun o =>
        .ok (o, ⟨some ⟨src, scope, .default⟩, asmVars src scope ctes q⟩)) := by
  by_cases hl : i + 1 < ctes.length <;> cases hw : s.write ⟨src, scope, .default⟩ <;>
    ir_simp [cteBody, cteW, asmVars, hw, hl]

theorem collect_ctes (ctx : Ctx) (n : Nat) :
    ∀ (rest : List Subquery) (i : Nat), n = i + rest.length → collect (cteW ctx n) i rest = liftW (writeCtes ctx rest)
  | [], _, _ => rfl
  | [s], i, h => by
    have : ¬ (i + 1 < n) := by simp at h; omega
    simp only [collect, cteW, writeCtes, this]
    cases s.write ctx <;> simp [liftW, bind_ok, bind_error, bind, Except.bind, pure, Except.pure]
  | s :: t :: rest, i, h => by
    have ih := collect_ctes ctx n (t :: rest) (i + 1) (by simp at h ⊢; omega)
    have : i + 1 < n := by simp at h; omega
    rw [collect, ih]
    simp only [cteW, writeCtes, this]
    cases s.write ctx with
    | error e => rfl
    | ok b => cases writeCtes ctx (t :: rest) <;> simp [liftW, bind_ok, bind_error, bind, Except.bind, pure, Except.pure]

theorem cte_loop (src : Bytes) (scope : List (Bytes × List Chunk)) (ctes : List Subquery) (q : Subquery) :
    forEach "i" "sub" (execBlock modelSem cteBody) 0 (ctes.map .sub)
        ⟨some ⟨src, scope, .default⟩, asmVars src scope ctes q⟩ =
      (liftW (writeCtes ⟨src, scope, .default⟩ ctes) >>= fun o =>
        .ok (o, ⟨some ⟨src, scope, .default⟩, asmVars src scope ctes q⟩)) := by
  rw [forEach_collect Val.sub "i" "sub" _ _ _ _ ctes 0 (fun j s _ => cte_body src scope ctes q j s),
    collect_ctes _ ctes.length ctes 0 (by simp)]

/-- **C05 / C02 (the statement assembly of `Compile` is the translated Go code).**  For every list
    of subqueries `splitQueries` may return (also the empty one: both sides panic), every source
    and scope: the tail of the model's `compileChunks` — the `WITH name AS (…),\n     …\n` list of
    all subqueries but the last, the last one, `;` — is the interpretation of the IR regenerated
    from the end of `(*CompileOptions).Compile`, with the model's `Subquery.write` as the callee. -/
theorem C05_assembly_ir (src : Bytes) (scope : List (Bytes × List Chunk)) (subs : List Subquery) :
    interpAssembly modelSem src scope subs = liftW (assemble ⟨src, scope, .default⟩ subs) := by
  rcases List.eq_nil_or_concat subs with rfl | ⟨ctes, q, rfl⟩
  · rfl
  · have hl := cte_loop src scope ctes q
    unfold interpAssembly runUnit assemble
    simp only [compile_ir, List.reverse_append, List.reverse_cons, List.reverse_nil, List.nil_append,
      List.singleton_append, List.reverse_reverse]
    by_cases hne : ctes.length > 0
    · have hemp : ctes.isEmpty = false := by cases ctes <;> simp at hne ⊢
      cases hw : writeCtes ⟨src, scope, .default⟩ ctes <;> rw [hw] at hl <;>
        cases hq : q.write ⟨src, scope, .default⟩ <;>
        ir_simp [compileIR, modeOf, asmVars, hl, hne, hemp, hw, hq] <;> simp [asmVars] at hl <;> ir_simp [hl, hq]
    · have hemp : ctes = [] := by cases ctes <;> simp at hne ⊢
      subst hemp
      cases hq : q.write ⟨src, scope, .default⟩ <;> ir_simp [compileIR, modeOf, hq]

/-! ### the quoting functions -/

def quoteBody (esc : Stmt) (q : String) : List Stmt := [.ite (.byteIs "b" q) [esc] [.byte "b"]]

def quoteIdentifierIR : List Stmt :=
  [.declStr "quoteEscape" "\"\"", .grow, .lit "\"",
   .for_ "_" "b" ⟨"name", "[]byte"⟩ (quoteBody (.str ⟨"quoteEscape", ""⟩) "\""), .lit "\""]

def quoteSQLStringIR : List Stmt :=
  [.lit "'", .for_ "_" "b" ⟨"s", "[]byte"⟩ (quoteBody (.lit "''") "'"), .lit "'"]

theorem quoteIdentifier_ir : decode (irOf "quoteIdentifier") = some quoteIdentifierIR := by rfl
theorem quoteSQLString_ir : decode (irOf "quoteSQLString") = some quoteSQLStringIR := by rfl

theorem qid_body (vars : List (String × Val)) (i : Nat) (b : UInt8) :
    (execBlock noSem (quoteBody (.str ⟨"quoteEscape", ""⟩) "\"")
        ⟨none, ("b", .byte b) :: ("_", .nat i) :: ("quoteEscape", .str [34, 34]) :: vars⟩ >>= fun r =>
        .ok (r.1, r.2.leave ⟨none, ("quoteEscape", .str [34, 34]) :: vars⟩)) =
      ((fun (_ : Nat) (b : UInt8) => (Except.ok [Chunk.raw (if b == 34 then [34, 34] else [b])] : M (List Chunk))) i b >>=
        fun o => .ok (o, ⟨none, ("quoteEscape", .str [34, 34]) :: vars⟩)) := by
  have h1 : Bytes.ofString "\"" = [34] := by rfl
  by_cases hb : b = 34 <;> ir_simp [quoteBody, h1, hb]

theorem qstr_body (vars : List (String × Val)) (i : Nat) (b : UInt8) :
    (execBlock noSem (quoteBody (.lit "''") "'") ⟨none, ("b", .byte b) :: ("_", .nat i) :: vars⟩ >>= fun r =>
        .ok (r.1, r.2.leave ⟨none, vars⟩)) =
      ((fun (_ : Nat) (b : UInt8) => (Except.ok [if b == 39 then Chunk.txt "''" else Chunk.raw [b]] : M (List Chunk))) i b >>=
        fun o => .ok (o, ⟨none, vars⟩)) := by
  have h1 : Bytes.ofString "'" = [39] := by rfl
  by_cases hb : b = 39 <;> ir_simp [quoteBody, h1, hb]

theorem render_raw_bytes (q : UInt8) (s : Bytes) :
    renderChunks (s.flatMap fun b => [Chunk.raw (if b == q then [q, q] else [b])]) =
      s.flatMap fun b => if b == q then [q, q] else [b] := by
  induction s with
  | nil => rfl
  | cons b s ih => simp [renderChunks, Chunk.bytes] at ih ⊢; exact ih

/-- **`quoteIdentifier` is the translated Go code**: the bytes the interpretation of its IR writes
    are the model's `quoteIdentifier name`, for every string -/
theorem C05_quoteIdentifier_ir (name : Bytes) :
    (interpQuote "quoteIdentifier" "name" name).map renderChunks = .ok (quoteIdentifier name) := by
  have hl := forEach_collect Val.byte "_" "b" (execBlock noSem (quoteBody (.str ⟨"quoteEscape", ""⟩) "\"")) none
    [("quoteEscape", .str [34, 34]), ("name", .str name)] _ name 0 (fun j b _ => qid_body [("name", .str name)] j b)
  rw [collect_pure, bind_ok] at hl
  have h1 : Bytes.ofString "\"" = [34] := by rfl
  have h2 : Bytes.ofString "\"\"" = [34, 34] := by rfl
  have hr := render_raw_bytes 34 name
  unfold interpQuote runUnit
  simp only [quoteIdentifier_ir]
  ir_simp [quoteIdentifierIR, h2, hl]
  simp [renderChunks, Chunk.bytes, h1, quoteIdentifier, quoteWith] at hr ⊢
  exact hr

theorem render_esc_bytes (s : Bytes) :
    renderChunks (s.flatMap fun b => [if b == 39 then Chunk.txt "''" else Chunk.raw [b]]) =
      s.flatMap fun b => if b == 39 then [39, 39] else [b] := by
  have h2 : Bytes.ofString "''" = [39, 39] := by rfl
  induction s with
  | nil => rfl
  | cons b s ih =>
    by_cases hb : b = 39 <;> simp [renderChunks, Chunk.bytes, hb, h2] at ih ⊢ <;> exact ih

/-- **`quoteSQLString` is the translated Go code** -/
theorem C05_quoteSQLString_ir (s : Bytes) :
    (interpQuote "quoteSQLString" "s" s).map renderChunks = .ok (quoteSQLString s) := by
  have hl := forEach_collect Val.byte "_" "b" (execBlock noSem (quoteBody (.lit "''") "'")) none
    [("s", .str s)] _ s 0 (fun j b _ => qstr_body [("s", .str s)] j b)
  rw [collect_pure, bind_ok] at hl
  have h1 : Bytes.ofString "'" = [39] := by rfl
  have hr := render_esc_bytes s
  unfold interpQuote runUnit
  simp only [quoteSQLString_ir]
  ir_simp [quoteSQLStringIR, hl]
  simp [renderChunks, Chunk.bytes, h1, quoteSQLString, quoteWith] at hr ⊢
  exact hr

/-! ### `subqueryName`, `dataSourceSQL` -/

def subqueryNameIR : List Stmt := [.sprintfD "__subquery" "" "i"]
theorem subqueryName_ir : decode (irOf "subqueryName") = some subqueryNameIR := by rfl

/-- **`subqueryName` is the translated Go code**: `fmt.Sprintf("__subquery%d", i)` -/
theorem C05_subqueryName_ir (i : Nat) :
    (interpSubqueryName i).map renderChunks = .ok (subqueryName i) := by
  have h1 : Bytes.ofString "" = [] := by rfl
  unfold interpSubqueryName runUnit
  simp only [subqueryName_ir]
  ir_simp [subqueryNameIR]
  simp [renderChunks, Chunk.bytes, subqueryName, h1]

def tableRefIR : List Stmt := [.qid ⟨"src", "Table.Name"⟩, .ret]
theorem tableRef_ir : decode (irOf "dataSourceSQL:TableRef") = some tableRefIR := by rfl
theorem dataSource_default_ir : decode (irOf "dataSourceSQL:default") = some [.errorf "unhandled data source %T"] := by rfl

/-- **`dataSourceSQL` is the translated Go code**, for a table reference with a table: what
    `chainSubquery` in the model takes as the source of the first subquery of a pipeline -/
theorem C05_dataSource_ir (src : Option Ident) (h : src.isSome = true) :
    interpDataSource src = .ok [.qid (identName src)] := by
  have hk : caseKey "dataSourceSQL" "TableRef" = some "dataSourceSQL:TableRef" := by decide
  unfold interpDataSource runUnit
  simp only [hk, tableRef_ir]
  cases src with
  | none => simp at h
  | some t => ir_simp [tableRefIR, identName]

/-- without a table (never after an error-free parse) Go dereferences nil, the model has the empty name -/
theorem C05_dataSource_needs_table :
    interpDataSource none = .error (.go .panic) ∧ identName none = [] := by
  constructor <;> rfl

/-! ### the translator delivered exactly the expected units -/

theorem C05_ir_keys :
    Facts.writeIR.map (·.1) =
      ["Compile", "dataSourceSQL:TableRef", "dataSourceSQL:default", "quoteIdentifier", "quoteSQLString", "subqueryName",
       "write:CountOperator", "write:ExtendOperator", "write:ProjectOperator", "write:RenderOperator",
       "write:SummarizeOperator", "write:WhereOperator", "write:default", "write:nil,AsOperator", "write:suffix"] := by
  decide

/-- the type switches: what is switched on, and which dynamic types go to which unit -/
theorem C05_ir_switches :
    Facts.writeSwitches =
      [("dataSourceSQL", ["src", "src", ""],
        [(["TableRef"], "dataSourceSQL:TableRef"), (["default"], "dataSourceSQL:default")]),
       ("write", ["op", "sub", "op"],
        [(["nil", "AsOperator"], "write:nil,AsOperator"), (["ProjectOperator"], "write:ProjectOperator"),
         (["ExtendOperator"], "write:ExtendOperator"), (["SummarizeOperator"], "write:SummarizeOperator"),
         (["WhereOperator"], "write:WhereOperator"), (["CountOperator"], "write:CountOperator"),
         (["RenderOperator"], "write:RenderOperator"), (["default"], "write:default")])] := by
  decide

end Pql.WriteIR
