/-
THE HEADLINE PROPERTIES ON THE INTERPRETATIONS OF THE TRANSLATED GO CODE — part E (C12, C14, C16) and the
the summary theorems `Cnn_on_translated_code` of these three (the other thirteen are in parts A-D; this file does
not import them, so that a broken proof in one part does not stop the checks of the properties of another).

Parts:  Props/IRHeadlinesA.lean  C01 C02 C03      Props/IRHeadlinesB.lean  C04 C05 C06
        Props/IRHeadlinesC.lean  C07 C08 C13      Props/IRHeadlinesD.lean  C09 C15 C10 C11
        Props/IRHeadlinesIO.lean C16 (the multiReadCloser stream)
        this file                C12 C14 C16
Helpers: Lemmas/IRHeadlinesAux.lean.

Every theorem is a statement about what an IR REGENERATED from the Go source on every run computes when
interpreted; each is obtained from the model-level headline theorem by rewriting with the `…_ir` equality.
-/
import PqlModel.Lemmas.IRHeadlinesAux
import PqlModel.Props.IRHeadlinesIO
import PqlModel.Props.C16
import PqlModel.Props.C16IO
import PqlModel.Props.C16Semantics
import PqlModel.Props.C05NoPlaceholderCli
namespace Pql.IRHead
open Pql Pql.CliSpec Pql.CliIO Pql.CliSem
set_option linter.unusedSimpArgs false

local notation "ParseIR(" src ")" => OpIR.runParse (List.length src) (scan src) (OpIR.bodyOf "Parse")
local notation "CompileIR(" opts ", " src ")" => ExprIR.interpCompile List.reverse opts src

/-! ## C12 — never panics -/

/-- the loop around the interpreted switch of `Scan` terminates within its budget for every byte string -/
theorem C12_scan_loop_total (s : Bytes) : ∃ ts, scanIR s = some ts := ⟨_, scanIR_eq s⟩

/-- … and `run` with EVERY library entry the interpretation of translated code (`irLib`) returns normally -/
theorem C12_run_irLib_total (lines : List Bytes) (readErr : Bool) :
    ∃ o, CliIR.interpRun irLib lines readErr = .ok o := by
  rw [irLib_eq]
  exact ⟨_, CliIR.interpRun_eq _ lines readErr⟩

/-- **C12 on translated code**: `NoPanic.C12_translated_code_never_panics` (Props/C12NoPanicIR.lean),
    re-exported: the interpretations of the regenerated `Parse`, `SplitStatements`, the switch of `Scan`,
    `Walk` over a successful parse, `Compile` (every map order, every options value) and cmd/pql `run` return
    normally for every input — never Go's panic, never stuck, never out of loop budget. -/
theorem C12_on_translated_code :
    (∀ src : Bytes, ParseIR(src) = .ok (parse src) ∧ ∀ e ∈ (parse src).2, e.fuel = false) ∧
    (∀ (src : Bytes) (lib : LexIR.Lib) (h : LexIR.Heap), lib.scan = scan →
      LexIR.interpSplit lib [.str src] h = .ok ([.strs (splitStatements src)], h)) ∧
    (∀ s : Bytes, Dispatch.interp s = some (scanOne s)) ∧
    (∀ (src : Bytes) (stmts : List Stmt), ParseIR(src) = .ok (stmts, []) → ∀ s ∈ stmts, ∀ v : Nat → Node → Bool,
      ∃ r w, AstIR.interpWalk v (Node.ofStmt s) = .ok r w ∧ WalkEvent.panic ∉ w.events) ∧
    (∀ (ord : List (Bytes × Bytes) → List (Bytes × Bytes)) (opts : Option (List (Bytes × Bytes))) (src : Bytes),
      (∃ sql, ExprIR.interpCompile ord opts src = .ok sql) ∨ ExprIR.interpCompile ord opts src = .error (.go .err)) ∧
    (∀ (lines : List Bytes) (readErr : Bool), ∃ o, CliIR.interpRun irLib lines readErr = .ok o) := by
  obtain ⟨h1, h2, h3, h4, h5, _⟩ := NoPanic.C12_translated_code_never_panics
  exact ⟨h1, h2, h3, fun src stmts hp => h4 src stmts ((parse_ir_iff src _).1 hp), h5, C12_run_irLib_total⟩

/-! ## C14 — the result depends only on the source text and the parameter map -/

/-- **C14 (Go's unspecified map order is irrelevant) on the translated `Compile`.**  For every function
    `ord` giving the order in which `range opts.Parameters` visits the entries — any permutation of the
    entries of a map (keys distinct) — the interpretation returns exactly what it returns with the list
    order: the same SQL bytes, or the same error. -/
theorem C14_map_order_ir (ord : List (Bytes × Bytes) → List (Bytes × Bytes)) (ps : List (Bytes × Bytes))
    (src : Bytes) (hord : (ord ps).Perm ps) (hd : (ps.map (·.1)).Nodup) :
    ExprIR.interpCompile ord (some ps) src = CompileIR(some ps, src) :=
  compile_ir_any_order ord ps src hord hd

/-- the hypothesis "keys distinct" is needed (a list with a repeated key is not a Go map): the later entry
    wins, so the order matters -/
theorem C14_map_order_ir_needs_nodup :
    ∃ (ps : List (Bytes × Bytes)) (src : Bytes),
      ExprIR.interpCompile id (some ps) src ≠ CompileIR(some ps, src) := by
  refine ⟨[([120], [49]), ([120], [50])], Bytes.ofString "T | where a == x", ?_⟩
  rw [compile_ir_ord, ExprIR.C06_compile_ir, ExprIR.C06_compile_ir]
  decide +kernel

/-- the hypothesis "`ord` enumerates the map" is needed: an order that drops the entry loses the binding -/
theorem C14_map_order_ir_needs_perm :
    ∃ (ord : List (Bytes × Bytes) → List (Bytes × Bytes)) (ps : List (Bytes × Bytes)) (src : Bytes),
      (ps.map (·.1)).Nodup ∧ ExprIR.interpCompile ord (some ps) src ≠ CompileIR(some ps, src) := by
  refine ⟨fun _ => [], [([120], [49])], Bytes.ofString "T | where a == x", by decide, ?_⟩
  rw [compile_ir_ord, ExprIR.C06_compile_ir, ExprIR.C06_compile_ir]
  decide +kernel

/-- **C14 (two parameter lists with the same entries) on the translated `Compile`** -/
theorem C14_param_perm_ir (params params' : List (Bytes × Bytes)) (src : Bytes)
    (hperm : params.Perm params') (hnodup : (params.map (·.1)).Nodup) :
    CompileIR(some params, src) = CompileIR(some params', src) := by
  rw [ExprIR.C06_compile_ir, ExprIR.C06_compile_ir]
  show ExprIR.resultM (compile params src) = ExprIR.resultM (compile params' src)
  rw [C14.C14_compile_param_order_irrelevant src params params' hperm hnodup]

/-- **C14 (nil options = zero value = empty map) on the translated `Compile`**, every map order -/
theorem C14_nil_options_ir (ord : List (Bytes × Bytes) → List (Bytes × Bytes)) (hord : (ord []).Perm [])
    (src : Bytes) :
    ExprIR.interpCompile ord none src = ExprIR.interpCompile ord (some []) src := by
  have h0 : ord [] = [] := List.Perm.eq_nil hord
  rw [compile_ir_ord ord none, compile_ir_ord ord (some []), ExprIR.C06_compile_ir, ExprIR.C06_compile_ir]
  simp [h0]

/-- **C14 (an unused parameter is irrelevant) on the translated `Parse` and `Compile`**: if no expression
    of the program the interpretation of `Parse` returns mentions `k`, adding `k ↦ val` changes nothing -/
theorem C14_unused_param_ir (params : List (Bytes × Bytes)) (k val : Bytes) (src : Bytes) (stmts : List Stmt)
    (errs : Errs) (hp : ParseIR(src) = .ok (stmts, errs))
    (hunused : ∀ e ∈ stmtsExprs stmts false, exprMentions k e = false) :
    CompileIR(some ((k, val) :: params), src) = CompileIR(some params, src) := by
  have hp' := (parse_ir_iff src _).1 hp
  rw [ExprIR.C06_compile_ir, ExprIR.C06_compile_ir]
  show ExprIR.resultM (compile ((k, val) :: params) src) = ExprIR.resultM (compile params src)
  have hs : (parse src).1 = stmts := by rw [hp']
  unfold compile
  simp only [hs, C14.C14_unused_param_irrelevant src params k val stmts hunused]

/-- **C14 on translated code.**  Determinism is by construction (the interpretation is a Lean function of
    the options value and the source; `interpSplit` returns the heap unchanged, `C15_split_headlines_ir`);
    the one source of non-determinism the Go code has, the map iteration order, is irrelevant; nil options,
    and an empty map are equivalent; equal maps given as different lists give equal results.  (The
    `sync.Once` protocol `C14.C14_once_safe` and the regenerated write-site facts
    `C14.C14_parameter_map_read_only` / `C14_package_vars` are not statements about a translated function.) -/
theorem C14_on_translated_code :
    (∀ (ord : List (Bytes × Bytes) → List (Bytes × Bytes)) (ps : List (Bytes × Bytes)) (src : Bytes),
      (ord ps).Perm ps → (ps.map (·.1)).Nodup →
      ExprIR.interpCompile ord (some ps) src = CompileIR(some ps, src)) ∧
    (∀ (params params' : List (Bytes × Bytes)) (src : Bytes), params.Perm params' → (params.map (·.1)).Nodup →
      CompileIR(some params, src) = CompileIR(some params', src)) ∧
    (∀ (ord : List (Bytes × Bytes) → List (Bytes × Bytes)) (src : Bytes), (ord []).Perm [] →
      ExprIR.interpCompile ord none src = ExprIR.interpCompile ord (some []) src) ∧
    (∀ (ord : List (Bytes × Bytes) → List (Bytes × Bytes)) (opts : Option (List (Bytes × Bytes))) (src : Bytes),
      (∃ sql, ExprIR.interpCompile ord opts src = .ok sql) ∨ ExprIR.interpCompile ord opts src = .error (.go .err)) :=
  ⟨C14_map_order_ir, C14_param_perm_ir, fun ord src h => C14_nil_options_ir ord h src,
   fun ord opts src => (NoPanic.C12_compile_ir_no_panic ord opts src).1⟩

/-! ## C16 — the command-line tool -/

/-- **C16 (`run` = the whole-input specification) on the translated `run`, for ANY `pql.Compile`.**  With
    `SplitStatements` the interpretation of its regenerated body and `Scan` the loop around the interpreted
    switch: for every compile function, every list of lines and both values of the read-error flag the
    interpretation of the regenerated body of `run` returns normally, and its observables (standard output,
    number of logged errors, exit status) are exactly `CliSpec.run`. -/
theorem C16_run_spec_any_compile_ir (compile : Bytes → Option Bytes) (lines : List Bytes) (readErr : Bool) :
    ∃ o, CliIR.interpRun ⟨splitIR, scanFn, compile⟩ lines readErr = .ok o ∧
      o.result = CliSpec.run compile lines readErr := by
  rw [splitIR_eq, scanFn_eq]
  refine ⟨_, CliIR.interpRun_eq compile lines readErr, ?_⟩
  rw [CliIR.runOutcome_result, C16.C16_refines_all]

/-- **C16 with the translated `Compile`** (`irLib`: every library entry an interpretation) -/
theorem C16_run_spec_ir (lines : List Bytes) (readErr : Bool) :
    ∃ o, CliIR.interpRun irLib lines readErr = .ok o ∧
      o.result = CliSpec.run NoPanic.compileIR lines readErr :=
  C16_run_spec_any_compile_ir NoPanic.compileIR lines readErr

/-- **C16 (semantics of the tool) on the translated `run`, `SplitStatements`, `Scan`-switch and `Compile`.**
    On the input bytes (`bufio.Scanner` as modelled by `bufioLines`): with `pieces` the statements of the
    normalised input, the observables of the interpreted `run` are given by `semAll pieces` — a piece
    starting with `let` joins the scope iff the library accepts it in the current scope (a failed let is not
    added), any other piece yields the library's SQL for it under the current scope or a failure; standard
    output = the SQL texts in order, each followed by a blank line; the number of logged errors = failures
    (+1 for a read error); exit status ≠ 0 iff there was one. -/
theorem C16_main_semantics_ir (input : Bytes) :
    ∃ o, CliIR.interpRun irLib (bufioLines input).1 (bufioLines input).2 = .ok o ∧
      o.result =
        (let pieces := splitStatements (normalise (bufioLines input).1)
         let n := nFailed (semAll pieces) + (if (bufioLines input).2 then 1 else 0)
         ⟨sqlText (semAll pieces), n, decide (n > 0)⟩) := by
  rw [irLib_eq]
  refine ⟨_, CliIR.interpRun_eq _ _ _, ?_⟩
  rw [CliIR.runOutcome_result]
  exact C16_cli_semantics input

/-- **C16 (a query at the end of input, with or without `;`) on the translated `run`**: hypotheses of
    `C16.C16_last_terminated_or_not` -/
theorem C16_last_terminated_or_not_ir (compile : Bytes → Option Bytes) (lines : List Bytes) (q : Bytes)
    (readErr : Bool) (hnl : ∀ x, compile (x ++ [10]) = compile x) (htok : scan q ≠ [])
    (hsemi : ∀ t ∈ scan q, t.kind ≠ .semi)
    (hb : (⟨.semi, q.length, q.length + 1, []⟩ : Token) ∈ scan (q ++ [59, 10]))
    (hlet : isLetStatement (C16.openStatement lines ++ q) = false) :
    ∃ o o', CliIR.interpRun ⟨splitIR, scanFn, compile⟩ (lines ++ [q ++ [59]]) readErr = .ok o ∧
      CliIR.interpRun ⟨splitIR, scanFn, compile⟩ (lines ++ [q]) readErr = .ok o' ∧ o.result = o'.result := by
  obtain ⟨o, h1, r1⟩ := C16_run_spec_any_compile_ir compile (lines ++ [q ++ [59]]) readErr
  obtain ⟨o', h2, r2⟩ := C16_run_spec_any_compile_ir compile (lines ++ [q]) readErr
  exact ⟨o, o', h1, h2, by rw [r1, r2, C16.C16_last_terminated_or_not compile lines q readErr hnl htok hsemi hb hlet]⟩

/-- **C16 (no internal placeholder on standard output) on the translated `run` and `Compile`** -/
theorem C16_no_placeholder_ir (input : Bytes) :
    ∃ o, CliIR.interpRun irLib (bufioLines input).1 (bufioLines input).2 = .ok o ∧
      ∃ sqls : List Bytes, o.out = sqls.flatMap (· ++ [10, 10]) ∧
        ∀ sql ∈ sqls, ∃ src cs, CompileIR(none, src) = .ok sql ∧ sql = renderChunks cs ∧
          WriteInv.hasPlaceholder cs = false := by
  rw [irLib_eq]
  refine ⟨_, CliIR.interpRun_eq _ _ _, ?_⟩
  obtain ⟨sqls, h1, h2⟩ := WriteInv.C05_cli_no_placeholder input
  refine ⟨sqls, ?_, fun sql hs => ?_⟩
  · have := CliIR.runOutcome_result compileCli (bufioLines input).1 (bufioLines input).2
    have ho : (CliIR.runOutcome compileCli (bufioLines input).1 (bufioLines input).2).out =
        (cliMain compileCli input).out := by
      have := congrArg CliResult.out this
      exact this
    rw [ho, h1]
  · obtain ⟨src, cs, a, b, c, _⟩ := h2 sql hs
    exact ⟨src, cs, (compile_ir_ok_iff none src sql).2 a, b, c⟩

/-- **C16 on translated code.** -/
theorem C16_on_translated_code :
    (∀ (compile : Bytes → Option Bytes) (lines : List Bytes) (readErr : Bool),
      ∃ o, CliIR.interpRun ⟨splitIR, scanFn, compile⟩ lines readErr = .ok o ∧
        o.result = CliSpec.run compile lines readErr) ∧
    (∀ input : Bytes,
      ∃ o, CliIR.interpRun irLib (bufioLines input).1 (bufioLines input).2 = .ok o ∧
        o.result =
          (let pieces := splitStatements (normalise (bufioLines input).1)
           let n := nFailed (semAll pieces) + (if (bufioLines input).2 then 1 else 0)
           ⟨sqlText (semAll pieces), n, decide (n > 0)⟩)) ∧
    (∀ (env : CliIOIR.Env) (rs : List Reader) (fuel : Nat), totalResults rs + 1 ≤ fuel →
      drainIR env fuel (CliIOIR.worldOf rs) = some (toEnding (concatContents rs))) :=
  ⟨C16_run_spec_any_compile_ir, C16_main_semantics_ir, C16_multi_concat_ir⟩

end Pql.IRHead
