/-
Property C09 (and C04: the literal test of `take` / `top`), tie by translation: the number scanner
of parser/lex.go and the numeric accessors of parser/ast.go.

`(*scanner).numberOrDot`, `(*scanner).numberExponent`, `normalizeNumberValue`, the cursor
`next` / `prev` / `setPos`, the span helpers `newSpan`, `indexSpan`, `Span.IsValid`, `spanString`
(`Facts.lexNumberIR`) and `(*BasicLit).IsFloat`, `IsInteger`, `Uint64` (`Facts.litAccessIR`) are
regenerated from the Go source on every run as IRs (translator `harness/extract_lexir.go`,
interpreter `Model/LexIR.lean`: Go's block scoping, the `pos` / `last` cursor by RUNES, the deferred
closure of `numberExponent`, `for { }` loops with fuel, panics explicit).  This file proves that the
hand-written model IS the interpretation of the regenerated IR, every function interpreted in the
environment of the primitives and of the translated functions before it (`envNumber`, `numFn`):

  `C09_numberOrDot_ir` — for every byte string `s` that is empty or begins with a digit or '.', at
  every offset (after any prefix `pre`, valid UTF-8 or not), with enough fuel for the loops
  (`len(s) < fuel`): the regenerated `numberOrDot` ends without a panic, returns the token
  (kind, span, value) of the model's `scanNumberOrDot s` — the value of an error token, its message,
  is the only thing the model does not keep — and leaves the cursor right after the token;
  `C09_numberOrDot_ir_needs_start` — on a source that begins with another byte the Go function
  returns an error token where the model's function says "number": the hypothesis is needed (`Scan`
  calls the function only on a digit or '.', `C09_dispatch_interp`);
  `C09_numberExponent_ir` (= `exponentLen`, cursor restored by the `defer` when there is none),
  `C09_normalizeNumberValue_ir` (= `normalizeNumber`), `C09_next_ir`, `C09_prev_ir`, `C09_setPos_ir`,
  `C09_spanString_ir`;
  `C09_IsFloat_ir`, `C09_IsInteger_ir` (= the model's `litIsFloat`, `litIsInteger`), `C09_Uint64_ir`
  (= `litUint64`, defined here from `litIsFloat` and the reference `C09.parseUint64`), a nil
  receiver panics (`C09_accessors_nil_panic`).  `(*BasicLit).Float64` is NOT translated
  (`strconv.ParseFloat`); `Uint64` reaches it only for float literals, through the parameter
  `Lib.f64ToU64`.

The byte-wise model against the rune-wise Go code: `next` decodes a rune; every test of the number
scanner is on an ASCII value, a byte ≥ 0x80 starts a rune ≥ 0x80 (`Dispatch.decodeRune_rune_ge`),
which fails every test, and is then un-read by `prev` (`rune_facts`).
-/
import PqlModel.Lemmas.LexIRNumber
import PqlModel.Props.C09b
namespace Pql.LexIR
open Pql
set_option linter.unusedSimpArgs false
set_option linter.unusedVariables false

/-! ### the environments -/

theorem layer_append (tbl : List (String × List (List String))) (fuel : Nat) :
    ∀ (a b : List String) (env : Env), layer tbl fuel (a ++ b) env = layer tbl fuel b (layer tbl fuel a env)
  | [], _, _ => rfl
  | k :: ks, b, env => by simp only [List.cons_append, layer, layer_append tbl fuel ks b]

/-- the key `k` of a layered environment is the function `k` of the table interpreted in the
    environment of the keys before it -/
theorem layer_at (tbl : List (String × List (List String))) (fuel : Nat) (pre : List String) (k : String)
    (post : List String) (env : Env) (hk : k ∉ post) :
    layer tbl fuel (pre ++ k :: post) env k = some (fnOf tbl (layer tbl fuel pre env) fuel k) := by
  rw [layer_append, layer, layer_other tbl fuel k post _ hk, extend_self]

def keysSpan : List String := ["newSpan", "indexSpan", "Span.IsValid", "spanString"]
def keysCursor : List String :=
  keysSpan ++ ["scanner.next", "scanner.prev", "scanner.setPos", "normalizeNumberValue"]

/-- the translated functions `keys` of `Facts.lexNumberIR` over the primitives -/
def numEnv (lib : Lib) (fuel : Nat) (keys : List String) : Env := layer Facts.lexNumberIR fuel keys (prims lib)

theorem envCursor_eq (lib : Lib) (fuel : Nat) : envCursor lib fuel = numEnv lib fuel keysCursor := rfl
theorem envExp_eq (lib : Lib) (fuel : Nat) :
    envExp lib fuel = numEnv lib fuel (keysCursor ++ ["scanner.numberExponent"]) := rfl
theorem envNumber_eq' (lib : Lib) (fuel : Nat) :
    envNumber lib fuel = numEnv lib fuel (keysCursor ++ ["scanner.numberExponent", "scanner.numberOrDot"]) := rfl

theorem numEnv_prim (lib : Lib) (fuel : Nat) (keys : List String) (p : String) (h : p ∉ keys) :
    HasPrim lib (numEnv lib fuel keys) p := layer_other _ _ _ _ _ h

/-- the span helpers in an environment that has the keys of parser/span.go first -/
theorem numEnv_newSpan (lib : Lib) (fuel : Nat) (post : List String) (h : "newSpan" ∉ post) :
    ∃ f, numEnv lib fuel ("newSpan" :: post) "newSpan" = some f ∧ SpecNewSpan f :=
  ⟨_, layer_at _ fuel [] "newSpan" post _ h, by rw [fnOf_eq newSpan_ir]; exact newSpan_spec _ _⟩

theorem numEnv_indexSpan (lib : Lib) (fuel : Nat) (post : List String) (h : "indexSpan" ∉ post) :
    ∃ f, numEnv lib fuel ("newSpan" :: "indexSpan" :: post) "indexSpan" = some f ∧ SpecIndexSpan f :=
  ⟨_, layer_at _ fuel ["newSpan"] "indexSpan" post _ h, by rw [fnOf_eq indexSpan_ir]; exact indexSpan_spec _ _⟩

theorem numEnv_spanString (lib : Lib) (fuel : Nat) (post : List String) (h : "spanString" ∉ post) :
    ∃ f, numEnv lib fuel (keysSpan ++ post) "spanString" = some f ∧ SpecSpanString f := by
  refine ⟨_, layer_at _ fuel ["newSpan", "indexSpan", "Span.IsValid"] "spanString" post _ h, ?_⟩
  rw [fnOf_eq spanString_ir]
  refine spanString_spec _ fuel _ (layer_at _ fuel ["newSpan", "indexSpan"] "Span.IsValid" [] _ (by simp)) ?_
  rw [fnOf_eq spanIsValid_ir]
  exact spanIsValid_spec _ _

/-- the cursor functions and the rune classes in an environment that has `keysCursor` first -/
theorem numEnv_cursor (lib : Lib) (fuel : Nat) (post : List String)
    (h1 : "scanner.next" ∉ post) (h2 : "scanner.prev" ∉ post) (h3 : "scanner.setPos" ∉ post)
    (h4 : "isDigit" ∉ post) (h5 : "isHexDigit" ∉ post) :
    CursorEnv lib (numEnv lib fuel (keysCursor ++ post)) where
  next := by
    refine ⟨_, layer_at _ fuel keysSpan "scanner.next" (["scanner.prev", "scanner.setPos", "normalizeNumberValue"] ++ post)
      _ (by simp [h1]), ?_⟩
    rw [fnOf_eq next_ir]
    exact next_spec lib _ fuel (numEnv_prim lib fuel keysSpan _ (by decide))
  prev := by
    refine ⟨_, layer_at _ fuel (keysSpan ++ ["scanner.next"]) "scanner.prev" (["scanner.setPos", "normalizeNumberValue"] ++ post)
      _ (by simp [h2]), ?_⟩
    rw [fnOf_eq prev_ir]
    exact prev_spec _ _
  setPos := by
    refine ⟨_, layer_at _ fuel (keysSpan ++ ["scanner.next", "scanner.prev"]) "scanner.setPos" (["normalizeNumberValue"] ++ post)
      _ (by simp [h3]), ?_⟩
    rw [fnOf_eq setPos_ir]
    exact setPos_spec _ _
  isDigit := numEnv_prim lib fuel _ _ (by simp [keysCursor, keysSpan, h4])
  isHexDigit := numEnv_prim lib fuel _ _ (by simp [keysCursor, keysSpan, h5])

theorem numEnv_normalize (lib : Lib) (fuel : Nat) (post : List String) (h : "normalizeNumberValue" ∉ post) :
    ∃ f, numEnv lib fuel (keysCursor ++ post) "normalizeNumberValue" = some f ∧ SpecNormalize f := by
  refine ⟨_, layer_at _ fuel (keysSpan ++ ["scanner.next", "scanner.prev", "scanner.setPos"]) "normalizeNumberValue" post
    _ h, ?_⟩
  rw [fnOf_eq normalize_ir]
  exact normalize_spec lib _ fuel (numEnv_prim lib fuel _ _ (by decide))

theorem numEnv_exponent (lib : Lib) (fuel : Nat) (post : List String) (h : "scanner.numberExponent" ∉ post) :
    ∃ f, numEnv lib fuel (keysCursor ++ "scanner.numberExponent" :: post) "scanner.numberExponent" = some f ∧
      SpecExponent fuel f := by
  refine ⟨_, layer_at _ fuel keysCursor "scanner.numberExponent" post _ h, ?_⟩
  rw [fnOf_eq numberExponent_ir]
  have := numEnv_cursor lib fuel [] (by simp) (by simp) (by simp) (by simp) (by simp)
  rw [List.append_nil] at this
  exact numberExponent_spec lib _ fuel this

/-- the environment in which `numberOrDot` is interpreted has everything the function calls -/
theorem numberEnv_exp (lib : Lib) (fuel : Nat) : NumberEnv lib (envExp lib fuel) fuel := by
  rw [envExp_eq]
  exact {
    cursor := numEnv_cursor lib fuel _ (by simp) (by simp) (by simp) (by simp) (by simp)
    newSpan := numEnv_newSpan lib fuel _ (by decide)
    indexSpan := numEnv_indexSpan lib fuel _ (by decide)
    spanString := numEnv_spanString lib fuel _ (by decide)
    normalize := numEnv_normalize lib fuel _ (by decide)
    exponent := numEnv_exponent lib fuel [] (by simp)
    errorToken := numEnv_prim lib fuel _ _ (by decide)
    parseUint := numEnv_prim lib fuel _ _ (by decide)
    formatUint := numEnv_prim lib fuel _ _ (by decide) }

/-- a translated function of `Facts.lexNumberIR` in the environment of the primitives and of the
    translated functions before it -/
def numFn (lib : Lib) (fuel : Nat) (key : String) : Fn := fun args h =>
  match envNumber lib fuel key with
  | some f => f args h
  | none => stuck

theorem numFn_numberOrDot (lib : Lib) (fuel : Nat) :
    numFn lib fuel "scanner.numberOrDot" = interpFn (envExp lib fuel) fuel numberOrDotDecl := by
  funext args h
  have : envNumber lib fuel "scanner.numberOrDot" = some (fnOf Facts.lexNumberIR (envExp lib fuel) fuel "scanner.numberOrDot") := by
    rw [envNumber_eq', envExp_eq]
    exact layer_at _ fuel (keysCursor ++ ["scanner.numberExponent"]) "scanner.numberOrDot" [] _ (by simp)
  simp only [numFn, this, fnOf_eq numberOrDot_ir]

/-! ### the number scanner -/

/-- **C09 (`numberOrDot` is the interpretation of its translation).** -/
theorem C09_numberOrDot_ir (lib : Lib) (fuel : Nat) (pre s : Bytes) (l : Nat) (hf : s.length < fuel)
    (hs : ∀ c rest, s = c :: rest → (isDigit c || c == 46) = true) :
    ∃ l' msg, numFn lib fuel "scanner.numberOrDot" [.scanner] ⟨pre ++ s, pre.length, l⟩ =
      .ok ([lexTok pre.length (scanNumberOrDot s) msg],
        ⟨pre ++ s, pre.length + (scanNumberOrDot s).width, l'⟩) := by
  rw [numFn_numberOrDot]
  exact numberOrDot_spec lib _ fuel (numberEnv_exp lib fuel) pre s l hf hs

/-- without the hypothesis on the first byte the statement is false: on "a" the Go function returns an
    error token (and leaves the cursor BEFORE it), the model's function says "number" -/
theorem C09_numberOrDot_ir_needs_start (lib : Lib) :
    numFn lib 2 "scanner.numberOrDot" [.scanner] ⟨[97], 0, 0⟩ = .ok ([.tok .error 0 1 []], ⟨[97], 0, 0⟩) ∧
      (scanNumberOrDot [97]).kind = .number := by
  constructor
  · rw [numFn_numberOrDot]
    obtain ⟨fN, hN, sN⟩ := (numberEnv_exp lib 2).cursor.next
    obtain ⟨fP, hP, sP⟩ := (numberEnv_exp lib 2).cursor.prev
    obtain ⟨fA, hA, sA0⟩ := (numberEnv_exp lib 2).newSpan
    have sA : ∀ a b h, fA [.int a, .int b] h = .ok ([.span a b], h) := sA0
    have hD := (numberEnv_exp lib 2).cursor.isDigit
    have hE := (numberEnv_exp lib 2).errorToken
    unfold HasPrim at hD hE
    have nx := next_cons' sN [] [97] 0 0 97 [] 97 1 rfl rfl
    have pv := prev_hp sP [] [97] 0 1
    simp only [hp, List.nil_append, List.length_nil, Nat.zero_add] at nx pv
    unfold numberOrDotDecl firstSwitch otherCase
    lx_simp [hN, hP, hA, sA, nx, pv, hD, hE, prims, Dispatch.inRangesNat, Facts.isDigitRanges]
  · decide

/-- **C09 (`numberExponent`).**  At every offset `k` of every `s`: reports whether the model's
    `exponentLen` finds an exponent there and leaves the cursor after it — where it was, by the
    deferred closure, when there is none. -/
theorem C09_numberExponent_ir (lib : Lib) (fuel : Nat) (pre s : Bytes) (k l : Nat) (hk : k ≤ s.length)
    (hf : s.length < fuel) :
    ∃ l', numFn lib fuel "scanner.numberExponent" [.scanner] ⟨pre ++ s, pre.length + k, l⟩ =
      .ok ([.bool (exponentLen (s.drop k) != 0)], ⟨pre ++ s, pre.length + (k + exponentLen (s.drop k)), l'⟩) := by
  obtain ⟨f, hf1, hf2⟩ := numEnv_exponent lib fuel ["scanner.numberOrDot"] (by simp)
  obtain ⟨l', e⟩ := hf2 pre s k l hk hf
  refine ⟨l', ?_⟩
  have : envNumber lib fuel "scanner.numberExponent" = some f := by rw [envNumber_eq']; exact hf1
  simp only [numFn, this]
  simpa [hp, Nat.add_assoc] using e

/-- **C09 (`normalizeNumberValue`).** -/
theorem C09_normalizeNumberValue_ir (lib : Lib) (fuel : Nat) (s : Bytes) (h : Heap) :
    numFn lib fuel "normalizeNumberValue" [.str s] h = .ok ([.str (normalizeNumber s)], h) := by
  obtain ⟨f, hf1, hf2⟩ := numEnv_normalize lib fuel ["scanner.numberExponent", "scanner.numberOrDot"] (by simp)
  have : envNumber lib fuel "normalizeNumberValue" = some f := by rw [envNumber_eq']; exact hf1
  simp only [numFn, this]
  exact hf2 s h

theorem cursorEnv_number (lib : Lib) (fuel : Nat) : CursorEnv lib (envNumber lib fuel) := by
  rw [envNumber_eq']
  exact numEnv_cursor lib fuel _ (by simp) (by simp) (by simp) (by simp) (by simp)

/-- **C09 (`s.next()`).**  At the end `(0, false)`; else the rune at the cursor (U+FFFD of width 1
    for an invalid byte), the cursor after it, `last` before it. -/
theorem C09_next_ir (lib : Lib) (fuel : Nat) (h : Heap) :
    numFn lib fuel "scanner.next" [.scanner] h =
      .ok (if h.src.length ≤ h.pos then ([.int 0, .bool false], h)
        else ([.int (decodeRune (h.src.drop h.pos)).1, .bool true],
          ⟨h.src, h.pos + (decodeRune (h.src.drop h.pos)).2, h.pos⟩)) := by
  obtain ⟨f, hf1, hf2⟩ := (cursorEnv_number lib fuel).next
  simp only [numFn, hf1]
  exact hf2 h

theorem C09_prev_ir (lib : Lib) (fuel : Nat) (h : Heap) :
    numFn lib fuel "scanner.prev" [.scanner] h = .ok ([], { h with pos := h.last }) := by
  obtain ⟨f, hf1, hf2⟩ := (cursorEnv_number lib fuel).prev
  simp only [numFn, hf1]
  exact hf2 h

theorem C09_setPos_ir (lib : Lib) (fuel : Nat) (n : Nat) (h : Heap) :
    numFn lib fuel "scanner.setPos" [.scanner, .int n] h = .ok ([], { h with pos := n, last := n }) := by
  obtain ⟨f, hf1, hf2⟩ := (cursorEnv_number lib fuel).setPos
  simp only [numFn, hf1]
  exact hf2 n h

/-- **C09 (`spanString`).**  The bytes under a valid span inside the string. -/
theorem C09_spanString_ir (lib : Lib) (fuel : Nat) (s : Bytes) (a b : Nat) (h : Heap) (hab : a ≤ b) (hb : b ≤ s.length) :
    numFn lib fuel "spanString" [.str s, .span a b] h = .ok ([.str ((s.drop a).take (b - a))], h) := by
  obtain ⟨f, hf1, hf2⟩ := numEnv_spanString lib fuel
    ["scanner.next", "scanner.prev", "scanner.setPos", "normalizeNumberValue", "scanner.numberExponent", "scanner.numberOrDot"]
    (by simp)
  have : envNumber lib fuel "spanString" = some f := by rw [envNumber_eq']; exact hf1
  simp only [numFn, this]
  exact hf2 s a b h hab hb

-- sanity tests (evaluated): the interpretation of the regenerated IR on concrete sources
#guard (numFn ⟨scan, fun _ _ => 0⟩ 100 "scanner.numberOrDot" [.scanner] ⟨Bytes.ofString "ab 0x1F+", 3, 0⟩).toOption.map (·.1) =
  some [.tok .number 3 7 (Bytes.ofString "31")]
#guard (numFn ⟨scan, fun _ _ => 0⟩ 100 "scanner.numberOrDot" [.scanner] ⟨Bytes.ofString "00012.50.", 0, 0⟩).toOption.map (·.1) =
  some [lexTok 0 (scanNumberOrDot (Bytes.ofString "00012.50.")) []]
#guard (numFn ⟨scan, fun _ _ => 0⟩ 100 "scanner.numberOrDot" [.scanner] ⟨Bytes.ofString "1e+x", 0, 0⟩).toOption.map (·.1) =
  some [.tok .number 0 1 (Bytes.ofString "1")]
#guard (numFn ⟨scan, fun _ _ => 0⟩ 2 "scanner.numberOrDot" [.scanner] ⟨Bytes.ofString "123456", 0, 0⟩).toOption.isNone

/-! ### the accessors of `BasicLit` -/

/-- a translated accessor in the environment of the accessors listed before it -/
def litFn (lib : Lib) (key : String) : Fn := fun args h =>
  match envLit lib key with
  | some f => f args h
  | none => stuck

/-- `(*BasicLit).Uint64` in terms of the model's `litIsFloat` and the reference `parseUint64` of
    Props/C09b.lean; `f64` stands for `uint64(lit.Float64())` (strconv.ParseFloat: not translated) -/
def litUint64 (f64 : TokKind → Bytes → Nat) (kind : TokKind) (value : Bytes) : Nat :=
  if kind ≠ .number then 0
  else if litIsFloat kind value then f64 kind value
  else match C09.parseUint64 value with
    | some n => n
    | none => 0

def SpecIsFloat (f : Fn) : Prop :=
  ∀ k v h, f [.lit (some (k, v))] h = .ok ([.bool (litIsFloat k v)], h)

theorem any_dotEe (v : Bytes) : (List.any v fun x => decide (x = 46) || (decide (x = 101) || decide (x = 69))) =
    List.any v fun b => b == 46 || b == 101 || b == 69 := by
  congr 1; funext x
  simp only [Bool.or_assoc, beq_dec]

theorem isFloat_spec (lib : Lib) (env : Env) (fuel : Nat) (hd : HasPrim lib env "strings.ContainsAny") :
    SpecIsFloat (interpFn env fuel isFloatDecl) := by
  intro k v h
  unfold isFloatDecl litIsFloat litKindIs
  unfold HasPrim at hd
  by_cases hk : k = .number
  · subst hk
    lx_simp [kind_number, hd, prims, ofString_dotEe, isAsciiSet, any_dotEe]
  · lx_simp [kind_number, hk]

theorem isInteger_spec (env : Env) (fuel : Nat) (ff : Fn) (hf : env "BasicLit.IsFloat" = some ff) (sf : SpecIsFloat ff)
    (k : TokKind) (v : Bytes) (h : Heap) :
    interpFn env fuel isIntegerDecl [.lit (some (k, v))] h = .ok ([.bool (litIsInteger k v)], h) := by
  unfold isIntegerDecl litIsInteger litKindIs
  by_cases hk : k = .number
  · subst hk
    lx_simp [kind_number, hf, sf .number v h]
  · lx_simp [kind_number, hk]

theorem parseUint_dec (v : Bytes) :
    (∀ n, C09.parseUint64 v = some n → parseUint 10 64 v = some (n, false)) ∧
    (C09.parseUint64 v = none → ∃ m, parseUint 10 64 v = some (m, true)) := by
  have hval : decDigitsVal v = C09.natOfDigits v := rfl
  have hall : v.all C09.isDec = v.all isDigit := by
    congr 1; funext c; exact C09.isDec_eq_isDigit c
  unfold parseUint C09.parseUint64 C09.allDigits
  rw [hall, hval]
  by_cases he : v.isEmpty = true
  · simp [he]
  · by_cases ha : v.all isDigit = true
    · by_cases hl : C09.natOfDigits v < 2 ^ 64
      · simp [he, ha, hl]
      · simp [he, ha, hl]
    · simp [he, ha]

theorem uint64_spec (lib : Lib) (env : Env) (fuel : Nat) (ff : Fn) (hf : env "BasicLit.IsFloat" = some ff) (sf : SpecIsFloat ff)
    (h1 : HasPrim lib env "strconv.ParseUint") (h2 : HasPrim lib env "uint64") (h3 : HasPrim lib env "BasicLit.Float64")
    (k : TokKind) (v : Bytes) (h : Heap) :
    interpFn env fuel uint64Decl [.lit (some (k, v))] h = .ok ([.int (litUint64 lib.f64ToU64 k v)], h) := by
  unfold uint64Decl litUint64 litKindIs
  unfold HasPrim at h1 h2 h3
  by_cases hk : k = .number
  · subst hk
    by_cases hfl : litIsFloat .number v = true
    · lx_simp [kind_number, hf, sf .number v h, hfl, h2, h3, prims]
    · cases hp : C09.parseUint64 v with
      | none =>
        obtain ⟨m, hm⟩ := (parseUint_dec v).2 hp
        lx_simp [kind_number, hf, sf .number v h, hfl, h1, prims, hm, hp]
      | some n =>
        have hm := (parseUint_dec v).1 n hp
        lx_simp [kind_number, hf, sf .number v h, hfl, h1, prims, hm, hp]
  · lx_simp [kind_number, hk]


/-! ### the accessors in their environment -/

theorem envLit_isFloat (lib : Lib) :
    ∃ f, envLit lib "BasicLit.IsFloat" = some f ∧ SpecIsFloat f := by
  refine ⟨_, layer_at Facts.litAccessIR 0 [] "BasicLit.IsFloat" ["BasicLit.IsInteger", "BasicLit.Uint64"] _ (by simp), ?_⟩
  rw [fnOf_eq isFloat_ir]
  exact isFloat_spec lib _ 0 (layer_other _ _ _ [] _ (by simp))

/-- **C09 (`IsFloat`).** -/
theorem C09_IsFloat_ir (lib : Lib) (k : TokKind) (v : Bytes) (h : Heap) :
    litFn lib "BasicLit.IsFloat" [.lit (some (k, v))] h = .ok ([.bool (litIsFloat k v)], h) := by
  obtain ⟨f, hf1, hf2⟩ := envLit_isFloat lib
  simp only [litFn, hf1]
  exact hf2 k v h

/-- **C09 (`IsInteger`).** -/
theorem C09_IsInteger_ir (lib : Lib) (k : TokKind) (v : Bytes) (h : Heap) :
    litFn lib "BasicLit.IsInteger" [.lit (some (k, v))] h = .ok ([.bool (litIsInteger k v)], h) := by
  have h1 : envLit lib "BasicLit.IsInteger" = some (fnOf Facts.litAccessIR
      (layer Facts.litAccessIR 0 ["BasicLit.IsFloat"] (prims lib)) 0 "BasicLit.IsInteger") :=
    layer_at Facts.litAccessIR 0 ["BasicLit.IsFloat"] "BasicLit.IsInteger" ["BasicLit.Uint64"] _ (by simp)
  simp only [litFn, h1, fnOf_eq isInteger_ir]
  refine isInteger_spec _ 0 _ (layer_at Facts.litAccessIR 0 [] "BasicLit.IsFloat" [] _ (by simp)) ?_ k v h
  rw [fnOf_eq isFloat_ir]
  exact isFloat_spec lib _ 0 (layer_other _ _ _ [] _ (by simp))

/-- **C09 (`Uint64`).**  0 for a literal that is not a number; `uint64(lit.Float64())` (not
    translated) for a float literal; else `strconv.ParseUint(lit.Value, 10, 64)`, 0 if that fails. -/
theorem C09_Uint64_ir (lib : Lib) (k : TokKind) (v : Bytes) (h : Heap) :
    litFn lib "BasicLit.Uint64" [.lit (some (k, v))] h = .ok ([.int (litUint64 lib.f64ToU64 k v)], h) := by
  have h1 : envLit lib "BasicLit.Uint64" = some (fnOf Facts.litAccessIR
      (layer Facts.litAccessIR 0 ["BasicLit.IsFloat", "BasicLit.IsInteger"] (prims lib)) 0 "BasicLit.Uint64") :=
    layer_at Facts.litAccessIR 0 ["BasicLit.IsFloat", "BasicLit.IsInteger"] "BasicLit.Uint64" [] _ (by simp)
  simp only [litFn, h1, fnOf_eq uint64_ir]
  refine uint64_spec lib _ 0 _ (layer_at Facts.litAccessIR 0 [] "BasicLit.IsFloat" ["BasicLit.IsInteger"] _ (by simp)) ?_
    (layer_other _ _ _ _ _ (by simp)) (layer_other _ _ _ _ _ (by simp)) (layer_other _ _ _ _ _ (by simp)) k v h
  rw [fnOf_eq isFloat_ir]
  exact isFloat_spec lib _ 0 (layer_other _ _ _ [] _ (by simp))

/-- a nil `*BasicLit` makes every accessor panic (nil pointer dereference at `lit.Kind`) -/
theorem C09_accessors_nil_panic (lib : Lib) (h : Heap) :
    litFn lib "BasicLit.IsFloat" [.lit none] h = .error .panic ∧
    litFn lib "BasicLit.IsInteger" [.lit none] h = .error .panic ∧
    litFn lib "BasicLit.Uint64" [.lit none] h = .error .panic := by
  have h0 : envLit lib "BasicLit.IsFloat" = some _ :=
    layer_at Facts.litAccessIR 0 [] "BasicLit.IsFloat" ["BasicLit.IsInteger", "BasicLit.Uint64"] _ (by simp)
  have h1 : envLit lib "BasicLit.IsInteger" = some _ :=
    layer_at Facts.litAccessIR 0 ["BasicLit.IsFloat"] "BasicLit.IsInteger" ["BasicLit.Uint64"] _ (by simp)
  have h2 : envLit lib "BasicLit.Uint64" = some _ :=
    layer_at Facts.litAccessIR 0 ["BasicLit.IsFloat", "BasicLit.IsInteger"] "BasicLit.Uint64" [] _ (by simp)
  refine ⟨?_, ?_, ?_⟩
  · simp only [litFn, h0, fnOf_eq isFloat_ir]
    unfold isFloatDecl litKindIs
    lx_simp
  · simp only [litFn, h1, fnOf_eq isInteger_ir]
    unfold isIntegerDecl litKindIs
    lx_simp
  · simp only [litFn, h2, fnOf_eq uint64_ir]
    unfold uint64Decl litKindIs
    lx_simp

/-- the literal test of `take` / `top` (`rowCount`: `lit.IsInteger()`) on what the number scanner
    produces, composed with `C09_accessors`: the translated `IsInteger` is true on a scanned number
    token exactly when the token value has no '.', 'e', 'E' -/
theorem C04_IsInteger_on_scanned (lib : Lib) (v : Bytes) (h : Heap) :
    litFn lib "BasicLit.IsInteger" [.lit (some (.number, v))] h = .ok ([.bool (!C09.isFloatValue v)], h) := by
  rw [C09_IsInteger_ir]
  simp [litIsInteger, litIsFloat, C09.isFloatValue]

#guard (litFn ⟨scan, fun _ _ => 7⟩ "BasicLit.Uint64" [.lit (some (.number, Bytes.ofString "18446744073709551615"))] ⟨[], 0, 0⟩).toOption.map (·.1) =
  some [.int 18446744073709551615]
#guard (litFn ⟨scan, fun _ _ => 7⟩ "BasicLit.Uint64" [.lit (some (.number, Bytes.ofString "18446744073709551616"))] ⟨[], 0, 0⟩).toOption.map (·.1) =
  some [.int 0]
#guard (litFn ⟨scan, fun _ _ => 7⟩ "BasicLit.Uint64" [.lit (some (.number, Bytes.ofString "1e3"))] ⟨[], 0, 0⟩).toOption.map (·.1) =
  some [.int 7]

end Pql.LexIR
