/-
Property C02 / C03 / C05 composed — END TO END ON SOURCE BYTES, with the tree side conditions discharged.

  `C02_end_to_end_bytes`      for every source text that `parse` reads without error as one query `t`
                              and `compile` (no parameters) turns into the SQL text `sql`: `sql`, read back
                              by the reference reader and evaluated (in normal form) by the reference
                              evaluator, is `Rel.interp src db t` on every rectangular database — under
                              the three decidable conditions `k4Free` (known finding K4), `namesOk`
                              (known finding K3, name capture), `tabOpsOk` (aggregates outside
                              `summarize`: the domain of the relational reading).  NO other condition on
                              the tree: `C05.tabularOK` (lexOK / shapeOK / translatable / non-empty lists)
                              is proved of every parsed tree (Props/C05Parsed.lean).
  `C02_compiled_no_bang`  (T) the token list of every compiled program contains no `!=` symbol
                              (the writers emit `<>`; port of the `;` argument of Lemmas/LexStmtSemi*.lean);
  `C02_parse_noBang`      (P) a statement read by `parseStatement` from a token list without `!=` symbol
                              has no `!=` operator (fuel induction over Spec/Sql/Parse.lean);
  `C02_end_to_end_bytes_raw`  hence the same WITHOUT `normStatement`: the statement read back itself
                              evaluates to `Rel.interp src db t`;
  `C02_end_to_end_tree_raw_full`  the tree-level version (`E2E.C02_end_to_end_tree_raw` with its condition
                              `noBangStatement st` proved).

Programs with `let` statements (`t' = substTabular (letsEnv lets []) t`, the query with the lets resolved):
  `C05_parse_statement_program`  the tokens of the chunks compiled for `lets ++ [query t]` are read by the
                              reference SQL parser as the intended statement of the program, up to `normS`
                              (Lemmas/ParseStmt*.lean redone under a let-built scope: Lemmas/E2EFinalScoped*.lean,
                              with `C06.goodS_of_lets` at the leaves and `splitA_subst`: the documented
                              splitting commutes with the resolution of lets);
  `C02_end_to_end_program`    tree level: the emitted text read back and evaluated AS READ is
                              `Rel.interp src db t'`, which is `Rel.interpProgram` of the program;
  `C02_end_to_end_program_bytes`  the same for source bytes — side conditions: `k4Free`, `envJoinSafe`
                              (no let named `$left` / `$right`, decidable), `tabNamed` (every extend /
                              summarize column is `name = expr`), and `namesOk` / `tabOpsOk` of the resolved
                              query.  (`TrueFree` — no let named `true` — is needed at tree level only: in a
                              parsed program every `on` list is non-empty.)

Empty statements: `parse` drops them, so `;T | take 1;;` satisfies `parse src = ([.tabular t], [])` and is
covered by the same theorems (`Ex.exEmpty`).

Each remaining hypothesis is needed (byte-level counterexamples `Cex.*`); non-vacuity on concrete source
bytes (`Ex.*`, by kernel evaluation).
-/
import PqlModel.Lemmas.E2EFinalCompose
import PqlModel.Lemmas.E2EFinalChecks
namespace Pql.E2EFinal
open Pql Sql CompileOracle Intended JoinFull Pql.ParsedOK Pql.E2E Pql.RT

/-- **C02 (end to end, source bytes).**  No syntactic side condition on the tree except the three
    decidable ones: `k4Free` (finding K4; needed: `Cex.k4Free_needed`, `ParsedOK.k4Free_needed`),
    `namesOk` (finding K3; needed: `Cex.namesOk_needed`, `E2E.Cex.namesOk_needed`,
    `C03.Cex.C03_needs_namesOk_*`), `tabOpsOk` (needed: `Cex.tabOpsOk_needed`, `E2E.Cex.tabOpsOk_needed`). -/
theorem C02_end_to_end_bytes (src sql : Bytes) (t : Tabular)
    (hp : parse src = ([.tabular t], [])) (hc : compile [] src = .ok sql)
    (hk : k4Free [.tabular t] = true) (hnames : namesOk t = true) (hops : tabOpsOk t = true) :
    ∃ st, readSql sql = some st ∧
      ∀ db, RectDB db → evalStatement db (normStatement st) = Rel.interp src db t := by
  obtain ⟨_, st, _, _, _, _, h1, _, _, h2⟩ := end_to_end_bytes_detail src sql t hp hc hk hnames hops
  exact ⟨st, h1, fun db hdb => (h2 db hdb).1⟩

/-- … with the intended statement: what is read back is the intended statement up to `normS`, and the
    intended statement evaluates to the same table. -/
theorem C02_end_to_end_bytes_detail (src sql : Bytes) (t : Tabular)
    (hp : parse src = ([.tabular t], [])) (hc : compile [] src = .ok sql)
    (hk : k4Free [.tabular t] = true) (hnames : namesOk t = true) (hops : tabOpsOk t = true) :
    ∃ st want, readSql sql = some st ∧ intended src [.tabular t] = some want ∧ statementEq st want = true ∧
      ∀ db, RectDB db →
        evalStatement db (normStatement st) = Rel.interp src db t ∧
        evalStatement db want = Rel.interp src db t := by
  obtain ⟨_, st, want, _, _, _, h1, h2, h3, h4⟩ := end_to_end_bytes_detail src sql t hp hc hk hnames hops
  exact ⟨st, want, h1, h2, h3, h4⟩

/-! ### the compiler never writes `!=` -/

/-- **(T)** the tokens of the chunks of a compiled program (no parameters) contain no `!=` symbol.
    `stmtsLexOK` is the side condition under which the emitted text lexes to `toksOf cs`
    (`C05_lexRender_program`); it holds of every K4-free parsed program (`parsed_lexOK_k4`). -/
theorem C02_compiled_no_bang (src : Bytes) (stmts : List Stmt) (cs : List Chunk)
    (hok : stmtsLexOK stmts = true) (hc : compileChunks src [] stmts = .ok cs) :
    STok.sym "!=" ∉ toksOf cs :=
  program_toks_no_bang src stmts cs hok hc

/-- the chunk-level fact behind (T), without any hypothesis on the program: no fixed text of the
    chunks contains the byte `!`, and there is no raw (parameter) chunk -/
theorem C02_compiled_bang_free (src : Bytes) (stmts : List Stmt) (cs : List Chunk)
    (hc : compileChunks src [] stmts = .ok cs) : BF cs = true :=
  program_BF src stmts cs hc

/-- **(P)** the reference SQL reader produces a `!=` operator only from a `!=` symbol token -/
theorem C02_parse_noBang (ts : List STok) (st : Statement) (h : parseStatement ts = some st)
    (hnb : STok.sym "!=" ∉ ts) : noBangStatement st = true :=
  parseStatement_noBang h hnb

/-- (T) + (P): what `readSql` reads from the text of a compiled program has no `!=` operator -/
theorem C02_readSql_noBang (src : Bytes) (stmts : List Stmt) (cs : List Chunk) (st : Statement)
    (hok : stmtsLexOK stmts = true) (hc : compileChunks src [] stmts = .ok cs)
    (hr : readSql (renderChunks cs) = some st) : noBangStatement st = true :=
  readSql_noBang src stmts cs st hok hc hr

/-- **C02 (end to end, tree level), without normalisation.** -/
theorem C02_end_to_end_tree_raw_full (src : Bytes) (t : Tabular) (cs : List Chunk)
    (hc : compileChunks src [] [.tabular t] = .ok cs)
    (hok : C05.tabularOK t = true) (hnames : namesOk t = true) (hops : tabOpsOk t = true) :
    ∃ st, readSql (renderChunks cs) = some st ∧ noBangStatement st = true ∧
      ∀ db, RectDB db → evalStatement db st = Rel.interp src db t :=
  end_to_end_tree_raw src t cs hc hok hnames hops

/-- **C02 (end to end, source bytes), without normalisation.**  The SQL text `Compile` returns, read back
    by the reference reader and evaluated AS READ by the reference evaluator, is the table the
    specification interpreter assigns to the pipeline, on every rectangular database. -/
theorem C02_end_to_end_bytes_raw (src sql : Bytes) (t : Tabular)
    (hp : parse src = ([.tabular t], [])) (hc : compile [] src = .ok sql)
    (hk : k4Free [.tabular t] = true) (hnames : namesOk t = true) (hops : tabOpsOk t = true) :
    ∃ st, readSql sql = some st ∧ ∀ db, RectDB db → evalStatement db st = Rel.interp src db t := by
  obtain ⟨cs, hcs, rfl⟩ := compile_ok_chunks src sql _ hp hc
  have hok := parsed_tabularOK src _ _ hp hc hk t (by simp)
  obtain ⟨st, h1, _, h2⟩ := end_to_end_tree_raw src t cs hcs hok hnames hops
  exact ⟨st, h1, h2⟩

/-! ### as one function on bytes -/

/-- compile the source, read the text back, evaluate what was read (no normalisation) -/
def runBytes (src : Bytes) (db : DB) : Option Table :=
  match compile [] src with
  | .ok sql => (readSql sql).map (evalStatement db)
  | _ => none

/-- the decidable hypotheses of the byte-level theorems, as one Boolean -/
def bytesHyps (src : Bytes) : Bool :=
  match parse src, compile [] src with
  | ([.tabular t], []), .ok _ => k4Free [.tabular t] && namesOk t && tabOpsOk t
  | _, _ => false

theorem bytesHyps_iff (src : Bytes) : bytesHyps src = true ↔
    ∃ sql t, parse src = ([.tabular t], []) ∧ compile [] src = .ok sql ∧
      k4Free [.tabular t] = true ∧ namesOk t = true ∧ tabOpsOk t = true := by
  unfold bytesHyps
  constructor
  · intro h
    split at h
    · rename_i t sql hp hc
      simp only [Bool.and_eq_true] at h
      exact ⟨sql, t, hp, hc, h.1.1, h.1.2, h.2⟩
    · cases h
  · rintro ⟨sql, t, hp, hc, h1, h2, h3⟩
    simp only [hp, hc, h1, h2, h3, Bool.and_self]

/-- **C02 (end to end, source bytes), functional form** -/
theorem C02_end_to_end_run (src : Bytes) (h : bytesHyps src = true) :
    ∃ t, parse src = ([.tabular t], []) ∧ ∀ db, RectDB db → runBytes src db = some (Rel.interp src db t) := by
  obtain ⟨sql, t, hp, hc, h1, h2, h3⟩ := (bytesHyps_iff src).1 h
  obtain ⟨st, hr, hev⟩ := C02_end_to_end_bytes_raw src sql t hp hc h1 h2 h3
  refine ⟨t, hp, fun db hdb => ?_⟩
  simp only [runBytes, hc, hr, Option.map_some, hev db hdb]

/-! ### programs with `let` statements -/

/-- **C05 (ParseStatement), programs with lets.**  Hypotheses: `LetValuesOK` (the let values are `lexOK`
    and `shapeOK`: true of parsed K4-free programs, `parsed_letValues`); `envJoinSafe` (needed:
    `C06.C06_join_name_counterexample`, `Cex.envJoinSafe_needed`); `TrueFree` OR every join has a non-empty
    `on` list (`ParsedOK.TabNE`, true of parsed programs; needed: `Cex.trueFree_needed`); `tabNamed`
    (`Cex.tabNamed_needed`); `tabularOK` of the RESOLVED query (true of parsed programs:
    `parsed_resolved_tabularOK`). -/
theorem C05_parse_statement_program (src : Bytes) (lets : List Stmt) (t : Tabular) (cs : List Chunk)
    (hc : compileChunks src [] (lets ++ [.tabular t]) = .ok cs)
    (hl : IsLets lets) (hv : LetValuesOK lets) (hjs : envJoinSafe (letsEnv lets []) = true)
    (hJ : TrueFree (letsEnv lets []) ∨ TabNE t = true) (hN : tabNamed t)
    (hok : C05.tabularOK (substTabular (letsEnv lets []) t) = true) :
    ∃ st want, parseStatement (toksOf cs) = some st ∧ intended src (lets ++ [.tabular t]) = some want ∧
      statementEq st want = true :=
  (parse_statement_program src lets t cs hc hl hv hjs hJ hN hok).2

/-- **C02 (end to end, programs with lets), tree level** — the statement left open in
    Props/C02EndToEnd.lean (`C02_end_to_end_program_partial`), without `normStatement`. -/
theorem C02_end_to_end_program (src : Bytes) (lets : List Stmt) (t : Tabular) (cs : List Chunk)
    (hc : compileChunks src [] (lets ++ [.tabular t]) = .ok cs)
    (hl : IsLets lets) (hv : LetValuesOK lets) (hjs : envJoinSafe (letsEnv lets []) = true)
    (hJ : TrueFree (letsEnv lets []) ∨ TabNE t = true) (hN : tabNamed t)
    (hlexP : stmtsLexOK (lets ++ [.tabular t]) = true)
    (hok : C05.tabularOK (substTabular (letsEnv lets []) t) = true)
    (hnames : namesOk (substTabular (letsEnv lets []) t) = true)
    (hops : tabOpsOk (substTabular (letsEnv lets []) t) = true) :
    ∃ st, readSql (renderChunks cs) = some st ∧
      ∀ db, RectDB db →
        evalStatement db st = Rel.interp src db (substTabular (letsEnv lets []) t) ∧
        Rel.interpProgram src db (lets ++ [.tabular t]) =
          some (Rel.interp src db (substTabular (letsEnv lets []) t)) := by
  obtain ⟨st, _, h1, _, _, _, h2⟩ := end_to_end_program src lets t cs hc hl hv hjs hJ hN hlexP hok hnames hops
  exact ⟨st, h1, fun db hdb => ⟨(h2 db hdb).1, (h2 db hdb).2.2⟩⟩

/-- **C02 (end to end, source bytes, programs with lets).**  For a source that `parse` reads without
    error as `lets ++ [query t]` and `compile` turns into `sql`: `sql` read back and evaluated as read is
    the meaning of the program on every rectangular database.  No `lexOK` / `shapeOK` / `tabularOK`
    hypothesis. -/
theorem C02_end_to_end_program_bytes (src sql : Bytes) (lets : List Stmt) (t : Tabular)
    (hp : parse src = (lets ++ [.tabular t], [])) (hc : compile [] src = .ok sql)
    (hk : k4Free (lets ++ [.tabular t]) = true)
    (hl : IsLets lets) (hjs : envJoinSafe (letsEnv lets []) = true) (hN : tabNamed t)
    (hnames : namesOk (substTabular (letsEnv lets []) t) = true)
    (hops : tabOpsOk (substTabular (letsEnv lets []) t) = true) :
    ∃ st, readSql sql = some st ∧
      ∀ db, RectDB db →
        evalStatement db st = Rel.interp src db (substTabular (letsEnv lets []) t) ∧
        Rel.interpProgram src db (lets ++ [.tabular t]) =
          some (Rel.interp src db (substTabular (letsEnv lets []) t)) := by
  obtain ⟨st, _, h1, _, _, _, h2⟩ := end_to_end_program_source src sql lets t hp hc hk hl hjs hN hnames hops
  exact ⟨st, h1, fun db hdb => ⟨(h2 db hdb).1, (h2 db hdb).2.2⟩⟩

/-- … with the intended statement -/
theorem C02_end_to_end_program_bytes_detail (src sql : Bytes) (lets : List Stmt) (t : Tabular)
    (hp : parse src = (lets ++ [.tabular t], [])) (hc : compile [] src = .ok sql)
    (hk : k4Free (lets ++ [.tabular t]) = true)
    (hl : IsLets lets) (hjs : envJoinSafe (letsEnv lets []) = true) (hN : tabNamed t)
    (hnames : namesOk (substTabular (letsEnv lets []) t) = true)
    (hops : tabOpsOk (substTabular (letsEnv lets []) t) = true) :
    ∃ st want, readSql sql = some st ∧ noBangStatement st = true ∧
      intended src (lets ++ [.tabular t]) = some want ∧ statementEq st want = true ∧
      ∀ db, RectDB db →
        evalStatement db st = Rel.interp src db (substTabular (letsEnv lets []) t) ∧
        evalStatement db want = Rel.interp src db (substTabular (letsEnv lets []) t) ∧
        Rel.interpProgram src db (lets ++ [.tabular t]) =
          some (Rel.interp src db (substTabular (letsEnv lets []) t)) :=
  end_to_end_program_source src sql lets t hp hc hk hl hjs hN hnames hops

/-- the decidable hypotheses of `C02_end_to_end_program_bytes`, as one Boolean -/
def progHyps (src : Bytes) : Bool :=
  match parse src, compile [] src with
  | (stmts, []), .ok _ =>
    match splitLets stmts with
    | some (lets, t) =>
      k4Free stmts && envJoinSafe (letsEnv lets []) && tabNamedB t &&
        namesOk (substTabular (letsEnv lets []) t) && tabOpsOk (substTabular (letsEnv lets []) t)
    | none => false
  | _, _ => false

/-- **C02 (end to end, source bytes, programs with lets), functional form**: compile, read back,
    evaluate = the meaning of the program -/
theorem C02_end_to_end_program_run (src : Bytes) (h : progHyps src = true) :
    ∀ db, RectDB db → (runBytes src db).isSome = true ∧ runBytes src db = Rel.interpProgram src db (parse src).1 := by
  unfold progHyps at h
  split at h
  · rename_i stmts sql hp hc
    split at h
    · rename_i lets t hs
      obtain ⟨rfl, hl⟩ := splitLets_spec stmts lets t hs
      simp only [Bool.and_eq_true] at h
      obtain ⟨⟨⟨⟨h1, h2⟩, h4⟩, h5⟩, h6⟩ := h
      obtain ⟨st, hr, hev⟩ := C02_end_to_end_program_bytes src sql lets t hp hc h1 hl h2
        (tabNamed_of_B t h4) h5 h6
      intro db hdb
      obtain ⟨ha, hb⟩ := hev db hdb
      simp only [runBytes, hc, hr, Option.map_some, ha, hp, hb, Option.isSome_some, and_self]
    · cases h
  · cases h

/-! ### non-vacuity: concrete source bytes (`decide +kernel` = evaluation by the kernel) -/
namespace Ex
open C03.Ex

def s (x : String) : Bytes := Bytes.ofString x

/-- a `where`, a `sort`, a `take` -/
def exWhere : Bytes := s "T | where a > 10 | sort by a desc | take 2"
/-- a join with a nested pipeline, `extend`, `summarize … by`, `sort`, `take` -/
def exJoin : Bytes := s
  "T | where a > 1 | extend y = a + 1 | join kind=leftouter (U | project k) on k | summarize n = count() by k | sort by n desc | take 2"
/-- the PQL operator `!=` (written `<>` by the compiler) -/
def exNe : Bytes := s "T | where a != 20 and k != 2 | summarize n = count() by k"
/-- empty statements before and after the query -/
def exEmpty : Bytes := s ";;T | where a > 10 | take 1;;"

unseal Pql.scanFrom in
/-- all hypotheses of `C02_end_to_end_bytes` / `C02_end_to_end_bytes_raw` hold of the four texts -/
theorem ex_hyps : bytesHyps exWhere = true ∧ bytesHyps exJoin = true ∧ bytesHyps exNe = true ∧
    bytesHyps exEmpty = true := by
  refine ⟨by decide +kernel, by decide +kernel, by decide +kernel, by decide +kernel⟩

/-- the theorem instantiated -/
theorem ex_end_to_end : ∀ src ∈ [exWhere, exJoin, exNe, exEmpty],
    ∃ t, parse src = ([.tabular t], []) ∧ ∀ db, RectDB db → runBytes src db = some (Rel.interp src db t) := by
  intro src hs
  apply C02_end_to_end_run
  simp only [List.mem_cons, List.not_mem_nil, or_false] at hs
  rcases hs with rfl | rfl | rfl | rfl
  · exact ex_hyps.1
  · exact ex_hyps.2.1
  · exact ex_hyps.2.2.1
  · exact ex_hyps.2.2.2

/-- one let; two chained lets, one of them used as a projected column and in a `!=` test; a let used inside
    the right-hand side of a join -/
def exLet1 : Bytes := s "let n = 10; T | where a > n | sort by a desc | take 2"
def exLet2 : Bytes := s "let lim = 20; let m = lim; T | where a >= m and k != 2 | project k, a, m | take 1"
def exLet3 : Bytes := s "let k2 = 1; T | join kind=inner (U | where b > k2) on k | summarize c = count() by k = k"

unseal Pql.scanFrom in
/-- all hypotheses of `C02_end_to_end_program_bytes` hold of the three programs -/
theorem exLet_hyps : progHyps exLet1 = true ∧ progHyps exLet2 = true ∧ progHyps exLet3 = true := by
  refine ⟨by decide +kernel, by decide +kernel, by decide +kernel⟩

/-- the theorem instantiated: compile, read back, evaluate = the meaning of the program -/
theorem exLet_end_to_end : ∀ src ∈ [exLet1, exLet2, exLet3], ∀ db, RectDB db →
    (runBytes src db).isSome = true ∧ runBytes src db = Rel.interpProgram src db (parse src).1 := by
  intro src hs
  apply C02_end_to_end_program_run
  simp only [List.mem_cons, List.not_mem_nil, or_false] at hs
  rcases hs with rfl | rfl | rfl
  · exact exLet_hyps.1
  · exact exLet_hyps.2.1
  · exact exLet_hyps.2.2

set_option maxRecDepth 100000 in
unseal Pql.scanFrom in
/-- cross-check by evaluation: both sides computed on `C03.Ex.exDB` -/
theorem exLet_computed :
    runBytes exLet1 C03.Ex.exDB = some ⟨[bs "k", bs "a"], [[.null, .int 30], [.int 2, .int 20]]⟩ ∧
    Rel.interpProgram exLet1 C03.Ex.exDB (parse exLet1).1 =
      some ⟨[bs "k", bs "a"], [[.null, .int 30], [.int 2, .int 20]]⟩ ∧
    runBytes exLet2 C03.Ex.exDB = Rel.interpProgram exLet2 C03.Ex.exDB (parse exLet2).1 ∧
    runBytes exLet3 C03.Ex.exDB = Rel.interpProgram exLet3 C03.Ex.exDB (parse exLet3).1 := by
  refine ⟨by decide +kernel, by decide +kernel, by decide +kernel, by decide +kernel⟩

set_option maxRecDepth 100000 in
unseal Pql.scanFrom in
/-- cross-check by evaluation on the database `C03.Ex.exDB` (T(k, a), U(k, b)): both sides computed -/
theorem ex_computed :
    runBytes exWhere C03.Ex.exDB = some ⟨[bs "k", bs "a"], [[.null, .int 30], [.int 2, .int 20]]⟩ ∧
    runBytes exNe C03.Ex.exDB = some ⟨[bs "k", bs "n"], [[.int 1, .int 2]]⟩ ∧
    (runBytes exJoin C03.Ex.exDB).isSome = true := by
  refine ⟨by decide +kernel, by decide +kernel, by decide +kernel⟩

end Ex

/-! ### every hypothesis is needed (byte level) -/
namespace Cex
open C03.Ex Ex

/-- the hypotheses other than the named one, and what happens -/
def others (src : Bytes) : Option (Bool × Bool × Bool) :=
  match parse src, compile [] src with
  | ([.tabular t], []), .ok _ => some (k4Free [.tabular t], namesOk t, tabOpsOk t)
  | _, _ => none

/-- the query of a one-query source -/
def treeOf (src : Bytes) : Tabular :=
  match parse src with
  | ([.tabular t], _) => t
  | _ => .nil

/-- compile, read back, evaluate the NORMAL FORM -/
def runNorm (src : Bytes) (db : DB) : Option Table :=
  match compile [] src with
  | .ok sql => (readSql sql).map fun st => evalStatement db (normStatement st)
  | _ => none

/-- `T | extend z = In(a)` (finding K4): the emitted `SELECT *, In("a") AS "z" FROM "T";` is not read -/
def k4Src : Bytes := s "T | extend z = In(a)"

unseal Pql.scanFrom in
theorem k4Free_needed : others k4Src = some (false, true, true) ∧ runBytes k4Src C03.Ex.exDB = none ∧
    runNorm k4Src C03.Ex.exDB = none := by
  refine ⟨by decide +kernel, by decide +kernel, by decide +kernel⟩

/-- `T | as U | join (U) on k` (finding K3): the CTE named `U` captures the table `U` -/
def namesSrc : Bytes := s "T | as U | join (U) on k"

set_option maxRecDepth 100000 in
unseal Pql.scanFrom in
theorem namesOk_needed : others namesSrc = some (true, false, true) ∧ RectDB C03.Ex.exDB ∧
    (runBytes namesSrc C03.Ex.exDB).isSome = true ∧
    runBytes namesSrc C03.Ex.exDB ≠ some (Rel.interp namesSrc C03.Ex.exDB (treeOf namesSrc)) ∧
    runNorm namesSrc C03.Ex.exDB ≠ some (Rel.interp namesSrc C03.Ex.exDB (treeOf namesSrc)) := by
  refine ⟨by decide +kernel, by decide, by decide +kernel, by decide +kernel, by decide +kernel⟩

/-- `T | project c = count()`: SQL aggregates (one row), the pipeline reading does not -/
def opsSrc : Bytes := s "T | project c = count()"

set_option maxRecDepth 100000 in
unseal Pql.scanFrom in
theorem tabOpsOk_needed : others opsSrc = some (true, true, false) ∧
    runBytes opsSrc C03.Ex.exDB = some ⟨[bs "c"], [[.int 4]]⟩ ∧
    Rel.interp opsSrc C03.Ex.exDB (treeOf opsSrc) = ⟨[bs "c"], [[.int 0], [.int 0], [.int 0], [.int 0]]⟩ := by
  refine ⟨by decide +kernel, by decide +kernel, by decide +kernel⟩

/-! #### programs with lets -/

/-- the hypotheses (K4-free, `envJoinSafe`, `tabNamedB`, `namesOk`, `tabOpsOk`) of a program -/
def progOthers (src : Bytes) : Option (Bool × Bool × Bool × Bool × Bool) :=
  match parse src, compile [] src with
  | (stmts, []), .ok _ =>
    (splitLets stmts).map fun (lets, t) =>
      (k4Free stmts, envJoinSafe (letsEnv lets []), tabNamedB t,
        namesOk (substTabular (letsEnv lets []) t), tabOpsOk (substTabular (letsEnv lets []) t))
  | _, _ => none

/-- is what is read back the intended statement of the program, up to `normS`? -/
def readsIntended (src : Bytes) : Option Bool :=
  match compile [] src with
  | .ok sql =>
    match readSql sql, intended src (parse src).1 with
    | some st, some want => some (statementEq st want)
    | _, _ => none
  | _ => none

/-- the resolved query of a program -/
def resolvedOf (src : Bytes) : Tabular := (resolveLets (parse src).1 []).getD .nil

/-- `let $left = 1; T | join (U) on $left == $right.b`: the let captures the join alias -/
def joinSrc : Bytes := s "let $left = 1; T | join (U) on $left == $right.b"

unseal Pql.scanFrom in
/-- **`envJoinSafe` is needed** for "read as the intended statement" (`C02_end_to_end_program_bytes_detail`):
    the emitted `… ON 1 = "$right"."b"` is not the intended `… ON coalesce(1 = "$right"."b", FALSE)`.
    (The two evaluate alike — an `ON` condition that is NULL or FALSE drops the pair —, so for the evaluation
    alone the hypothesis may be unnecessary; expression level: `C06.C06_join_name_counterexample`.) -/
theorem envJoinSafe_needed :
    progOthers joinSrc = some (true, false, true, true, true) ∧ readsIntended joinSrc = some false := by
  refine ⟨by decide +kernel, by decide +kernel⟩

/-- `let n = 1; T | extend a + n`: the column is called `a + n` (source text of the program), the
    resolved program has no such text -/
def unnamedSrc : Bytes := s "let n = 1; T | extend a + n"

set_option maxRecDepth 100000 in
unseal Pql.scanFrom in
/-- **`tabNamed` is needed** for the formulation with `Rel.interp` of the RESOLVED query: the SQL names the
    column `a + n`, `Rel.interp` of the resolved query does not.  (Against `Rel.interpProgram`, which names the
    columns before resolving, the emitted SQL is right on this example: the hypothesis is a limitation of
    the formulation through `resolveLets`, shared with the oracle, which skips these programs.) -/
theorem tabNamed_needed :
    progOthers unnamedSrc = some (true, true, false, true, true) ∧
    (runBytes unnamedSrc C03.Ex.exDB).isSome = true ∧
    runBytes unnamedSrc C03.Ex.exDB ≠ some (Rel.interp unnamedSrc C03.Ex.exDB (resolvedOf unnamedSrc)) ∧
    runBytes unnamedSrc C03.Ex.exDB = Rel.interpProgram unnamedSrc C03.Ex.exDB (parse unnamedSrc).1 := by
  refine ⟨by decide +kernel, by decide +kernel, by decide +kernel, by decide +kernel⟩

/-- `let true = 0;` and the TREE `T | join (U)` with an EMPTY condition list (the parser never builds one:
    `on` needs at least one condition) -/
def tfLets : List Stmt := [.let_ .zero (some ⟨Bytes.ofString "true", .zero, false⟩) .zero (.lit .zero .number [48])]
def tfQ : Tabular :=
  .mk (some ⟨Bytes.ofString "T", .zero, false⟩)
    (.cons (.join .zero .zero .zero .zero none .zero (.mk (some ⟨Bytes.ofString "U", .zero, false⟩) .nil) .zero .zero .nil) .nil)

set_option maxRecDepth 100000 in
/-- **`TrueFree` is needed** (tree level): the condition the compiler makes up for a join without conditions
    is the NAME `true`, which the let captures — the emitted text ends in `ON 0`, the resolved query joins
    `ON TRUE`.  All other hypotheses of `C02_end_to_end_program` hold.  (For parsed programs every `on` list is
    non-empty — `TabNE` —, which is why `C02_end_to_end_program_bytes` does not need the hypothesis.) -/
theorem trueFree_needed :
    trueFreeB (letsEnv tfLets []) = false ∧ TabNE tfQ = false ∧ envJoinSafe (letsEnv tfLets []) = true ∧ tabNamedB tfQ = true ∧
    stmtsLexOK (tfLets ++ [Stmt.tabular tfQ]) = true ∧
    C05.tabularOK (substTabular (letsEnv tfLets []) tfQ) = true ∧
    namesOk (substTabular (letsEnv tfLets []) tfQ) = true ∧ tabOpsOk (substTabular (letsEnv tfLets []) tfQ) = true ∧
    (match compileChunks [] [] (tfLets ++ [Stmt.tabular tfQ]) with
     | .ok cs => (readSql (renderChunks cs)).map fun st =>
         decide (evalStatement C03.Ex.exDB st = Rel.interp [] C03.Ex.exDB (substTabular (letsEnv tfLets []) tfQ))
     | _ => none) = some false := by
  refine ⟨by decide, by decide, by decide, by decide, by decide, by decide, by decide, by decide, by decide +kernel⟩

end Cex

end Pql.E2EFinal
