/-
Property C12, termination half — the fuel supplied at the parser's entry points is never
exhausted: no error leaf returned by `Parse` is the distinguished out-of-fuel leaf `errFuel`.

The model supplies `fuelFor n = 8 * n + 32` to each statement of `n` tokens and `length + 1`
iterations to each list loop.  What the proof uses:

* expression block (`Lemmas/ParseFuelExpr.lean`): `4 * tokens + rank` with ranks
  pInner 1, pExprListTail 1, pTrail 1, pPrimary 2, pHigher 2, pUnary 3, pExpr 4, pExprList 5;
* tabular block (`Lemmas/ParseFuelTab.lean`): pTabular / pOps / pJoin `4 * tokens + 1`,
  pOperator `4 * tokens + 6`;
* loops (`Lemmas/ParseFuelBasic.lean`, `Lemmas/ParseFuelOps.lean`, `Lemmas/ParseFuelTop.lean`):
  `tokens + 1` iterations.

Hence an entry-point fuel of `4 * n + 4` would already be sufficient (`C12_statement_fuel_bound`);
`8 * n + 32` is comfortably above it.
-/
import PqlModel.Lemmas.ParseFuelTop
namespace Pql.C12
open Pql

/-- **C12 (statement fuel bound).** With `4 * tokens + 4` units of fuel neither alternative tried by
    `pStatement` can run out of fuel; `fuelFor` supplies at least that much. -/
theorem C12_statement_fuel_bound (c : PCtx) (fuel : Nat) (ts : List Token)
    (hf : 4 * ts.length + 4 ≤ fuel) :
    (∀ e ∈ (pLet c fuel ts).errs, e.fuel = false) ∧ (∀ e ∈ (pTabular c fuel ts).errs, e.fuel = false) :=
  statement_fuel_bound c fuel ts hf

theorem C12_fuelFor_ge (n : Nat) : 4 * n + 4 ≤ fuelFor n := fuelFor_ge n

/-- **C12 (expression fuel bound).** -/
theorem C12_expr_fuel_bound (c : PCtx) (fuel : Nat) (ts : List Token) (hf : 4 * ts.length + 4 ≤ fuel) :
    ∀ e ∈ (pExpr c fuel ts).errs, e.fuel = false :=
  pExpr_noFuel c fuel ts hf

/-- The slope 4 of the bound cannot be improved: on `(((` (3 tokens) `expr` runs out of fuel with
    `4 * 3 + 1` units and does not with `4 * 3 + 2`. -/
theorem C12_expr_fuel_slope_tight :
    let lp : Token := ⟨.lparen, 0, 1, []⟩
    (pExpr ⟨0⟩ (4 * 3 + 1) [lp, lp, lp]).errs.any (·.fuel) = true ∧
    (pExpr ⟨0⟩ (4 * 3 + 2) [lp, lp, lp]).errs.any (·.fuel) = false := by decide

/-- **C12 (fuel suffices).** `Parse` on a token list never reports the out-of-fuel leaf. -/
theorem parse_fuel_sufficient (srcLen : Nat) (ts : List Token) :
    ∀ e ∈ (parseTokens srcLen ts).2, e.fuel = false := by
  unfold parseTokens
  exact pStatements_noFuel ⟨srcLen⟩ (ts.length + 1) [] [] ts (Nat.le_refl _) NoFuel.nil

/-- **C12 (fuel suffices), source level.** -/
theorem parse_fuel_sufficient_src (src : Bytes) : ∀ e ∈ (parse src).2, e.fuel = false := by
  unfold parse
  exact parse_fuel_sufficient src.length (scan src)

/-- the out-of-fuel error list is never (a sublist of) the result -/
theorem parse_ne_errFuel (src : Bytes) : ∀ e ∈ errFuel, e ∉ (parse src).2 := by
  intro e he hmem
  have h := parse_fuel_sufficient_src src e hmem
  simp only [errFuel, List.mem_singleton] at he
  subst he
  cases h

end Pql.C12
