/-
Property C06 — substitution: "the binding's value is one operand wherever it lands".

The oracle compares `compile (lets ++ [query])` with `compile [resolveLets …]` on generated
programs.  Here the statement is proved for the expression writer, for every expression:

* `C06_let_value_is_unit`: what the statement loop stores for a let is the text of its value,
  in parentheses unless the value is an atom (name, literal, bare call).
* `C06_subst_expr`: with `n` bound by `let n = v`, writing `e` and writing `substExpr [(n, v)] e`
  without the binding succeed or fail together (with the same error), and the outputs are
  related by `StripOcc bv`: the second is the first with some occurrences of `( bv )` replaced
  by `bv`, where `bv` is the text of the value.  Nothing else differs.  Where the difference
  can occur is stated exactly by `C06_subst_operand_exact` (never in a position the writer
  wraps tightly; in operand positions only for a signed value) and `C06_subst_expr_atom`
  (never, if the value is an atom).
* `C06_subst_lets`: for any number of lets, writing under the scope the statement loop has
  built reads like writing the expression with all lets resolved (`resolveLets`' environment),
  up to `EqUpToParens`.
* `C06_subst_program`: the same for whole programs `lets ++ [query]` — the subquery splitter,
  the subquery writer and the CTE assembly commute with substitution — under the side
  conditions listed there (each one is needed: see the counterexamples at the end).

`EqUpToParens` is the least equivalence on chunk lists that is a congruence for `++` and
contains `parenthesise xs ~ xs`.  It is a statement about text: it does not know which
parentheses are redundant for SQL's grammar (the position-exact statements above do that job
for one binding); related lists have the same chunks apart from `(` / `)` chunks
(`EqUpToParens.eraseParens_eq`).

Mode.  A let value is written in let mode, the substituted value in the mode of its use.  In
default mode this makes no difference (`writeExpr_of_let`).  In a join condition it does if
bindings are called `$left` / `$right` or values mention them: `C06_join_counterexample`.
Hence the side condition `JoinSafe`, which is vacuous outside join conditions.
-/
import PqlModel.Lemmas.ScopeLets
import PqlModel.Lemmas.ScopeWriteSub
import PqlModel.Props.C14Order
namespace Pql.C06
open Pql CompileOracle

/-! ### the stored value is a unit -/

/-- values the writers never parenthesise: names, literals, calls that are not rewritten into
    an operator expression -/
def isAtom : Expr → Bool
  | .paren _ x _ => isAtom x
  | .qident _ => true
  | .lit .. => true
  | .call fn _ _ _ =>
    match knownFunction fn.name with
    | some (_, true) => false
    | _ => true
  | _ => false

theorem isAtom_iff : (x : Expr) → isAtom x = (!needsWrap x && !isSigned x)
  | .paren _ x _ => by
    simp only [isAtom, needsWrap, isSigned]
    exact isAtom_iff x
  | .qident parts => by
    simp only [isAtom, needsWrap_qident, isSigned]
    rfl
  | .lit .. => by
    simp only [isAtom, needsWrap, isSigned, exprTypeName]
    decide
  | .call fn _ _ _ => by
    simp only [isAtom, needsWrap, isSigned]
    cases knownFunction fn.name with
    | none => rfl
    | some p =>
      obtain ⟨w, b⟩ := p
      cases b <;> rfl
  | .nil => by
    simp only [isAtom, needsWrap, isSigned, exprTypeName]
    decide
  | .unary .. => by
    simp only [isAtom, needsWrap, isSigned, exprTypeName]
    decide
  | .binary .. => by
    simp only [isAtom, needsWrap, isSigned, exprTypeName]
    decide
  | .inE .. => by
    simp only [isAtom, needsWrap, isSigned, exprTypeName]
    decide
  | .index .. => by
    simp only [isAtom, needsWrap, isSigned, exprTypeName]
    decide

/-- **C06 (the value of a let is one unit).** The chunks stored for `let n = x` are the text of
    `x` itself if `x` is an atom, and that text enclosed in parentheses otherwise. -/
theorem C06_let_value_is_unit (x : Expr) (body : List Chunk) :
    (isAtom x = true ∧ wrapTight x body = body) ∨
      (isAtom x = false ∧ wrapTight x body = parenthesise body) := by
  rw [isAtom_iff]
  unfold wrapTight wrapMaybe
  cases isSigned x <;> cases needsWrap x <;> simp

/-- … and this is what the statement loop puts on top of the scope -/
theorem C06_let_binds_unit (src : Bytes) (kw a : Span) (n : Ident) (x : Expr) (rest : List Stmt) (scope : Scope) :
    compileStmts src (.let_ kw (some n) a x :: rest) scope none =
      match writeExpr ⟨src, scope, .let_⟩ x with
      | .ok body => compileStmts src rest ((n.name, wrapTight x body) :: scope) none
      | .error e => .error e := by
  simp only [compileStmts]
  cases writeExpr ⟨src, scope, .let_⟩ x <;> rfl

/-! ### one binding -/

/-- **C06 (substitution, one binding).** `s` is the scope before `let n = v`, whose value has
    been written (in let mode) to `bv`; the statement loop binds `n` to `wrapTight v bv`.
    For every expression `e` and every mode of use `m`, writing `e` with the binding and
    writing `e` with `n` replaced by `(v)` without it fail with the same error, or both
    succeed and the outputs differ only in that some occurrences of `( bv )` on the left are
    `bv` on the right. -/
theorem C06_subst_expr (src : Bytes) (s : Scope) (m : Mode) (n : Bytes) (v : Expr) (bv : List Chunk)
    (hlet : writeExpr ⟨src, s, .let_⟩ v = .ok bv) (hjoin : JoinSafe m n v) (e : Expr) :
    ExRel (StripOcc bv) (writeExpr ⟨src, (n, wrapTight v bv) :: s, m⟩ e)
      (writeExpr ⟨src, s, m⟩ (substExpr [(n, v)] e)) :=
  subst_expr_rel (substHyp_stripOcc hlet hjoin) e

/-- the same for any scope that looks like the one the statement loop builds -/
theorem C06_subst_expr_scopeEq (src : Bytes) (s sc : Scope) (m : Mode) (n : Bytes) (v : Expr) (bv : List Chunk)
    (hsc : ScopeEq sc ((n, wrapTight v bv) :: s))
    (hlet : writeExpr ⟨src, s, .let_⟩ v = .ok bv) (hjoin : JoinSafe m n v) (e : Expr) :
    ExRel (StripOcc bv) (writeExpr ⟨src, sc, m⟩ e) (writeExpr ⟨src, s, m⟩ (substExpr [(n, v)] e)) := by
  rw [writeExpr_scopeEq hsc e]
  exact C06_subst_expr src s m n v bv hlet hjoin e

/-- the same, spelled out -/
theorem C06_subst_expr' (src : Bytes) (s : Scope) (m : Mode) (n : Bytes) (v : Expr) (bv : List Chunk)
    (hlet : writeExpr ⟨src, s, .let_⟩ v = .ok bv) (hjoin : JoinSafe m n v) (e : Expr) :
    (∃ out out', writeExpr ⟨src, (n, wrapTight v bv) :: s, m⟩ e = .ok out ∧
        writeExpr ⟨src, s, m⟩ (substExpr [(n, v)] e) = .ok out' ∧ StripOcc bv out out') ∨
      (∃ er, writeExpr ⟨src, (n, wrapTight v bv) :: s, m⟩ e = .error er ∧
        writeExpr ⟨src, s, m⟩ (substExpr [(n, v)] e) = .error er) :=
  (C06_subst_expr src s m n v bv hlet hjoin e).cases_on

/-- up to parentheses -/
theorem C06_subst_expr_parens (src : Bytes) (s : Scope) (m : Mode) (n : Bytes) (v : Expr) (bv : List Chunk)
    (hlet : writeExpr ⟨src, s, .let_⟩ v = .ok bv) (hjoin : JoinSafe m n v) (e : Expr) :
    ExRel EqUpToParens (writeExpr ⟨src, (n, wrapTight v bv) :: s, m⟩ e)
      (writeExpr ⟨src, s, m⟩ (substExpr [(n, v)] e)) :=
  (C06_subst_expr src s m n v bv hlet hjoin e).mono fun _ _ h => h.eqUpToParens

/-- **C06 (substitution is exact for atoms).** If the value is a name, a literal or a bare
    call, the two outputs are equal. -/
theorem C06_subst_expr_atom (src : Bytes) (s : Scope) (m : Mode) (n : Bytes) (v : Expr) (bv : List Chunk)
    (hlet : writeExpr ⟨src, s, .let_⟩ v = .ok bv) (hjoin : JoinSafe m n v) (hatom : isAtom v = true) (e : Expr) :
    writeExpr ⟨src, (n, wrapTight v bv) :: s, m⟩ e = writeExpr ⟨src, s, m⟩ (substExpr [(n, v)] e) := by
  have hw : wrapTight v bv = bv := by
    rcases C06_let_value_is_unit v bv with h | h
    · exact h.2
    · rw [hatom] at h
      cases h.1
  have hm : wrapMaybe v bv = bv := by
    rw [isAtom_iff] at hatom
    simp only [Bool.and_eq_true, Bool.not_eq_true'] at hatom
    simp [wrapMaybe, hatom.1]
  have H0 := substHyp_stripOcc (m := m) hlet hjoin
  have H : SubstHyp Eq src s m n v bv :=
    { cong := ChunkCong.eq, hv := H0.hv, bare := hw, maybe := by rw [hw, hm], join := H0.join }
  exact (subst_expr_rel H e).eq

/-- **C06 (substitution is exact in operand positions).** Where the writer itself puts the
    name in an operand position — under a sign, as the base of an index (tight), or, for a
    value that is not signed, as an operand of a binary operator / `in` / an operator-like
    built-in — the text that lands there is the same on both sides, for any value. -/
theorem C06_subst_operand_exact (src : Bytes) (s : Scope) (m : Mode) (n : Bytes) (v : Expr) (bv : List Chunk)
    (hlet : writeExpr ⟨src, s, .let_⟩ v = .ok bv) (hjoin : JoinSafe m n v) (x : Expr) (hx : isVar n x = true) :
    (writeExpr ⟨src, (n, wrapTight v bv) :: s, m⟩ x).map (wrapTight x) =
        (writeExpr ⟨src, s, m⟩ (substExpr [(n, v)] x)).map (wrapTight (substExpr [(n, v)] x)) ∧
      (isSigned v = false →
        (writeExpr ⟨src, (n, wrapTight v bv) :: s, m⟩ x).map (wrapMaybe x) =
          (writeExpr ⟨src, s, m⟩ (substExpr [(n, v)] x)).map (wrapMaybe (substExpr [(n, v)] x))) := by
  have H0 := substHyp_stripOcc (m := m) hlet hjoin
  obtain ⟨h1, h2, h3, h4⟩ := subst_isVar n v x hx
  rw [write_isVar_scope _ x hx, write_isVar_subst H0.hv x hx]
  simp only [Except.map, Except.ok.injEq]
  constructor
  · simp only [wrapTight, wrapMaybe, h1, h2, h3, h4]
    rfl
  · intro hs
    simp only [wrapTight, wrapMaybe, h1, h3, hs]
    rfl

/-! ### any number of lets -/

/-- **C06 (substitution, all lets).** `lets` are the statements before the query, `s0` the
    scope of the parameters.  If the statement loop gets through them, then for every
    expression `e` of the query, writing `e` under the scope it has built and writing `e`
    with all lets resolved — by the environment `resolveLets` accumulates — under the
    parameters alone fail with the same error, or both succeed with outputs equal up to
    parentheses. -/
theorem C06_subst_lets (src : Bytes) (s0 : Scope) (m : Mode) (lets : List Stmt) (hl : IsLets lets)
    (hjoin : LetsJoinSafe m lets) (sc : Scope) (q : Option Tabular)
    (hrun : compileStmts src lets s0 none = .ok (sc, q)) (e : Expr) :
    ExRel EqUpToParens (writeExpr ⟨src, sc, m⟩ e) (writeExpr ⟨src, s0, m⟩ (substExpr (letsEnv lets []) e)) :=
  (lets_substInv lets hl hjoin s0 [] sc q (substInv_init src s0 m) hrun).2 e

/-- `letsEnv` is the environment of the oracle's `resolveLets` -/
theorem C06_resolveLets_env (lets : List Stmt) (t : Tabular) (hl : IsLets lets)
    (hnamed : ∀ st ∈ lets, ∀ kw a x, st ≠ Stmt.let_ kw none a x) :
    resolveLets (lets ++ [.tabular t]) [] = some (substTabular (letsEnv lets []) t) :=
  resolveLets_lets t lets [] hl hnamed

/-- outside join conditions there is no side condition -/
theorem letsJoinSafe_default (lets : List Stmt) : LetsJoinSafe .default lets := by
  intro _ _ _ _ _ _ _ hm
  cases hm

/-! ### where the expressions of the query are written -/

theorem compileStmts_lets_then_query (src : Bytes) (t : Tabular) :
    (lets : List Stmt) → IsLets lets → (s : Scope) →
      compileStmts src (lets ++ [.tabular t]) s none =
        match compileStmts src lets s none with
        | .ok (sc, _) => .ok (sc, some t)
        | .error e => .error e
  | [], _, s => by simp only [List.nil_append, compileStmts]
  | .tabular _ :: _, hl, _ => by
    obtain ⟨_, _, _, _, h⟩ := hl _ (List.mem_cons_self)
    cases h
  | .let_ kw name a x :: rest, hl, s => by
    simp only [List.cons_append, compileStmts]
    cases (writeExpr ⟨src, s, .let_⟩ x).map (wrapTight x) with
    | error e => rfl
    | ok sql =>
      cases name with
      | none => rfl
      | some n => exact compileStmts_lets_then_query src t rest (fun st hst => hl st (List.mem_cons_of_mem _ hst)) _

/-- **C06 (lets, then the query).** For a program `lets ++ [query]`, the result is what the
    writers produce for the query under the scope `sc` the lets have built — the scope
    `C06_subst_lets` speaks about (every expression of the query is written by `writeExpr`
    under `sc`, in default mode, or in join mode for join conditions). -/
theorem C06_lets_then_query (src : Bytes) (params : List (Bytes × Bytes)) (lets : List Stmt) (t : Tabular)
    (hl : IsLets lets) (sc : Scope) (q : Option Tabular)
    (hrun : compileStmts src lets (paramScope params) none = .ok (sc, q)) :
    compileChunks src params (lets ++ [.tabular t]) = C14.finishChunks src sc (some t) := by
  rw [C14.compileChunks_eq, compileStmts_lets_then_query src t lets hl, hrun]
  rfl

/-! ### whole programs -/

/-- after the statement loop: the splitter and the writers commute with substitution -/
theorem finishChunks_rel {src : Bytes} {sc s0 : Scope} {env : List (Bytes × Expr)}
    (HD : WriteRel src sc s0 env .default) (HJ : WriteRel src sc s0 env .join) (hT : TrueFree env)
    (t : Tabular) (hN : tabNamed t) :
    ExRel EqUpToParens (C14.finishChunks src sc (some t)) (C14.finishChunks src s0 (some (substTabular env t))) := by
  have C := EqUpToParens.cong
  unfold C14.finishChunks
  dsimp only
  refine ExRel.bind (splitQueries_rel HJ hT t hN [] [] .nil) fun subs subs' hsubs => ?_
  have hr := hsubs.reverse
  revert hr
  generalize subs.reverse = r
  generalize subs'.reverse = r'
  intro hr
  cases hr with
  | nil => exact ExRel.error_error _
  | @cons query query' ctesRev ctesRev' hq hctes =>
    dsimp only
    have hc := hctes.reverse
    rw [← hc.isEmpty_eq]
    apply ExRel.ite
    · refine ExRel.bind (R := EqUpToParens) (ExRel.pure_pure (EqUpToParens.refl _)) fun w w' hw =>
        ExRel.bind (Subquery_write_rel HD hq) fun b b' hb => ExRel.pure_pure ?_
      exact C.append (C.append hw hb) (EqUpToParens.refl _)
    · refine ExRel.bind (writeCtes_rel HD hc) fun c c' hcc =>
        ExRel.bind (R := EqUpToParens) (ExRel.pure_pure (C.cons _ hcc)) fun w w' hw =>
        ExRel.bind (Subquery_write_rel HD hq) fun b b' hb => ExRel.pure_pure ?_
      exact C.append (C.append hw hb) (EqUpToParens.refl _)

/-- no let is called `true` (the name the compiler makes up for a join without conditions) -/
theorem trueFree_letsEnv : (lets : List Stmt) → (env : List (Bytes × Expr)) → TrueFree env →
    (∀ st ∈ lets, ∀ kw n a x, st = Stmt.let_ kw (some n) a x → (n.name == Bytes.ofString "true") = false) →
    TrueFree (letsEnv lets env)
  | [], env, h, _ => by simpa only [letsEnv] using h
  | .tabular _ :: _, env, h, _ => by simpa only [letsEnv] using h
  | .let_ _ none _ _ :: _, env, h, _ => by simpa only [letsEnv] using h
  | .let_ kw (some n) a x :: rest, env, h, hn => by
    simp only [letsEnv]
    refine trueFree_letsEnv rest _ ?_ (fun st hst => hn st (List.mem_cons_of_mem _ hst))
    have hne := hn _ (List.mem_cons_self) kw n a x rfl
    unfold TrueFree at h ⊢
    simp only [substExpr, Bool.false_eq_true, if_false, List.find?_cons, hne] at h ⊢
    exact h

theorem trueFree_nil : TrueFree [] := substExpr_nil _

theorem lets_named_of_run (src : Bytes) : (lets : List Stmt) → IsLets lets → (s sc : Scope) → (q : Option Tabular) →
    compileStmts src lets s none = .ok (sc, q) → ∀ st ∈ lets, ∀ kw a x, st ≠ Stmt.let_ kw none a x
  | [], _, _, _, _, _ => by
    intro st hst
    cases hst
  | .tabular t :: rest, hl, _, _, _, _ => by
    obtain ⟨_, _, _, _, h⟩ := hl _ (List.mem_cons_self)
    cases h
  | .let_ kw name a x :: rest, hl, s, sc, q, h => by
    intro st hst kw' a' x' hx
    subst hx
    simp only [compileStmts] at h
    cases hw : (writeExpr ⟨src, s, .let_⟩ x).map (wrapTight x) with
    | error e => rw [hw] at h; cases h
    | ok sql =>
      rw [hw] at h
      cases name with
      | none => cases h
      | some n =>
        rcases List.mem_cons.1 hst with h1 | h1
        · cases h1
        · exact lets_named_of_run src rest (fun st hst => hl st (List.mem_cons_of_mem _ hst)) _ sc q h _ h1 kw' a' x' rfl

/-- **C06 (substitution, whole program).** For a program `lets ++ [query]` whose lets the
    statement loop accepts: compiling it, and compiling the query with all lets resolved
    (`resolveLets`, the program the oracle compares with), fail with the same error or both
    succeed with chunk lists equal up to parentheses.

    Side conditions: no let is called `$left` / `$right` and no let value mentions them
    (`LetsJoinSafe`, see `C06_join_counterexample`); no let is called `true` (`TrueFree`: the
    condition the compiler makes up for a join without conditions is the *name* `true`, which
    a let would capture on one side only); every extend / summarize column is `name = expr`
    (`tabNamed`: an implicit column name is sliced from the source text, which the resolved
    program does not have — the oracle skips these programs too). -/
theorem C06_subst_program (src : Bytes) (params : List (Bytes × Bytes)) (lets : List Stmt) (t : Tabular)
    (hl : IsLets lets) (hjoin : LetsJoinSafe .join lets) (hT : TrueFree (letsEnv lets [])) (hN : tabNamed t)
    (sc : Scope) (q : Option Tabular)
    (hrun : compileStmts src lets (paramScope params) none = .ok (sc, q)) :
    ∃ t', resolveLets (lets ++ [.tabular t]) [] = some t' ∧
      ExRel EqUpToParens (compileChunks src params (lets ++ [.tabular t]))
        (compileChunks src params [.tabular t']) := by
  refine ⟨_, C06_resolveLets_env lets t hl (lets_named_of_run src lets hl _ sc q hrun), ?_⟩
  rw [C06_lets_then_query src params lets t hl sc q hrun]
  have hrhs : compileChunks src params [.tabular (substTabular (letsEnv lets []) t)] =
      C14.finishChunks src (paramScope params) (some (substTabular (letsEnv lets []) t)) := by
    rw [C14.compileChunks_eq]
    rfl
  rw [hrhs]
  exact finishChunks_rel
    (fun e => C06_subst_lets src _ .default lets hl (letsJoinSafe_default lets) sc q hrun e)
    (fun e => C06_subst_lets src _ .join lets hl hjoin sc q hrun e) hT t hN

/-- non-vacuity: `let a = -1; T | where a > 0` satisfies all hypotheses -/
example :
    let a : Ident := ⟨[97], .zero, false⟩
    let lets : List Stmt := [.let_ .zero (some a) .zero (.unary .zero .minus (.lit .zero .number [49]))]
    let query : Tabular :=
      .mk (some ⟨[84], .zero, false⟩) (.cons (.where_ .zero .zero (.binary (.qident [a]) .zero .gt (.lit .zero .number [48]))) .nil)
    ∃ t', resolveLets (lets ++ [.tabular query]) [] = some t' ∧
      ExRel EqUpToParens (compileChunks [] [] (lets ++ [.tabular query])) (compileChunks [] [] [.tabular t']) := by
  intro a lets query
  refine C06_subst_program [] [] lets query ?_ ?_ ?_ ?_ [([97], [.txt "(", .txt "-", .num [49], .txt ")"])] none rfl
  · intro st hst
    simp only [lets, List.mem_singleton] at hst
    exact ⟨_, _, _, _, hst⟩
  · intro st hst kw n a' x hx _
    simp only [lets, List.mem_singleton] at hst
    rw [hst] at hx
    cases hx
    refine ⟨by decide, by decide, ?_, ?_⟩ <;> rfl
  · rfl
  · exact ⟨trivial, trivial⟩

/-! ### the side condition is needed: a counterexample in join mode -/

def cxScope : Scope := [(leftAlias, [.raw [49]]), (rightAlias, [.raw [50]])]
def cxValue : Expr :=
  .binary (.qident [⟨leftAlias, .zero, false⟩]) .zero .eq (.qident [⟨rightAlias, .zero, false⟩])
def cxName : Bytes := [97]
def cxUse : Expr := .qident [⟨cxName, .zero, false⟩]

/-- With parameters called `$left` and `$right`, `let a = $left == $right` stores
    `(coalesce(1 = 2, FALSE))`; used in a join condition, the substituted program writes the
    value in join mode, where the same equality is a join equality: `1 = 2`.  The two do not
    read alike (they differ on NULLs), so in join mode C06's substitution reading fails for
    bindings named after the join aliases. -/
theorem C06_join_counterexample :
    writeExpr ⟨[], cxScope, .let_⟩ cxValue =
        .ok [.txt "coalesce(", .raw [49], .txt " = ", .raw [50], .txt ", FALSE)"] ∧
      writeExpr ⟨[], (cxName, wrapTight cxValue [.txt "coalesce(", .raw [49], .txt " = ", .raw [50], .txt ", FALSE)"]) :: cxScope, .join⟩ cxUse =
        .ok [.txt "(", .txt "coalesce(", .raw [49], .txt " = ", .raw [50], .txt ", FALSE)", .txt ")"] ∧
      writeExpr ⟨[], cxScope, .join⟩ (substExpr [(cxName, cxValue)] cxUse) =
        .ok [.raw [49], .txt " = ", .raw [50]] := by
  refine ⟨?_, ?_, ?_⟩ <;> rfl

/-- … and the two outputs are not even equal up to parentheses -/
theorem C06_join_counterexample_not_related :
    ¬ EqUpToParens [.txt "(", .txt "coalesce(", .raw [49], .txt " = ", .raw [50], .txt ", FALSE)", .txt ")"]
      [.raw [49], .txt " = ", .raw [50]] := by
  intro h
  have := h.eraseParens_eq
  revert this
  decide

end Pql.C06
