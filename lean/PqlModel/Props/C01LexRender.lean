/-
Property C01 / C05, lexical half ("LexRender") — the bytes the expression writer emits are read
by the SQL lexer as exactly the tokens the chunks stand for.

No content of a name, string, number or function name and no juxtaposition of two chunks can
open a comment (`--`, `/*`), merge two tokens (two words, a number and a word, `<` and `>`, the
two quotes of adjacent quoted tokens) or swallow the following text.

* `lexRender_of_adj` (Lemmas/LexRenderChunks.lean) is the compositional lemma: for every chunk
  list satisfying the decidable adjacency predicate `AdjC rest cs`, lexing `renderChunks cs ++ rest`
  emits the chunk tokens and continues with `rest`.
* `writeExpr_adj`: every chunk list `writeExpr` returns for an `Expr.lexOK` tree (empty scope) is
  adjacent — before the end of the text and before every separator.
* `C01_lexRender`: the two combined.
-/
import PqlModel.Lemmas.LexRenderExpr
namespace Pql.C01
open Pql Sql LexRender

/-- **the writer's outputs are adjacent**, before every text that is empty or starts with white
    space, `)`, `]`, `[`, `,` or `;` -/
theorem writeExpr_adj_before (ctx : Ctx) (e : Expr) (cs : List Chunk) (hscope : ctx.scope = [])
    (hok : e.lexOK = true) (h : writeExpr ctx e = .ok cs) (rest : Bytes)
    (hrest : sepHead rest.head? = true) : AdjC rest cs = true :=
  (writeExpr_good ctx hscope e hok cs h).1 rest hrest

theorem writeExpr_adj (ctx : Ctx) (e : Expr) (cs : List Chunk) (hscope : ctx.scope = [])
    (hok : e.lexOK = true) (h : writeExpr ctx e = .ok cs) : Adj cs = true :=
  writeExpr_adj_before ctx e cs hscope hok h [] rfl

/-- an unsigned expression that is written without parentheses never starts with `-`: the
    sign's `"-"` followed by `wrapTight` cannot produce `--` -/
theorem writeExpr_no_leading_minus (ctx : Ctx) (e : Expr) (cs : List Chunk) (hscope : ctx.scope = [])
    (hok : e.lexOK = true) (h : writeExpr ctx e = .ok cs) (hs : isSigned e = false)
    (hw : needsWrap e = false) (rest : Bytes) (hrest : rest.head? ≠ some 45) :
    (renderChunks cs ++ rest).head? ≠ some 45 :=
  (writeExpr_good ctx hscope e hok cs h).2 hs hw rest hrest

/-- **C01 (LexRender).** Lexing the bytes the expression writer emits yields exactly the chunk
    tokens. -/
theorem C01_lexRender (ctx : Ctx) (e : Expr) (cs : List Chunk)
    (hscope : ctx.scope = [])
    (hok : e.lexOK = true)
    (h : writeExpr ctx e = .ok cs) :
    Sql.lex .standard (renderChunks cs) = some (toksOf cs) :=
  lexRender_of_adj_top cs (writeExpr_adj ctx e cs hscope hok h)

/-- **C01 (LexRender, in context).** The same inside a larger text: followed by any text that is
    empty or starts with a separator, the expression's bytes are read as its chunk tokens and
    lexing continues with exactly the following text (comments dropped on both sides). -/
theorem C01_lexRender_before (ctx : Ctx) (e : Expr) (cs : List Chunk)
    (hscope : ctx.scope = []) (hok : e.lexOK = true) (h : writeExpr ctx e = .ok cs)
    (rest : Bytes) (hrest : sepHead rest.head? = true) (fuel : Nat) :
    (lexAux .standard (fuel + steps cs) (renderChunks cs ++ rest)).map (·.filter (· != .comment)) =
      (lexAux .standard fuel rest).map (fun ts => toksOf cs ++ ts.filter (· != .comment)) :=
  lexRender_of_adj cs rest fuel (writeExpr_adj_before ctx e cs hscope hok h rest hrest)

/-- the adjacency predicate is not vacuous: it rejects `--` … -/
example : Adj [.txt "-", .txt "-", .qid [97]] = false := by decide
/-- … where the conclusion indeed fails (the rest of the line is a comment) … -/
example : Sql.lex .standard (renderChunks [.txt "-", .txt "-", .qid [97]]) ≠
    some (toksOf [.txt "-", .txt "-", .qid [97]]) := by decide
/-- … and accepts what the writer emits for `-(-a)` -/
example : Adj [.txt "-", .txt "(", .txt "-", .qid [97], .txt ")"] = true := by decide

end Pql.C01
