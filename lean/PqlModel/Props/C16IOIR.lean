/-
Property C16, tie by translation: `(*multiReadCloser).Read` and `(*multiReadCloser).Close` of cmd/pql/main.go.

`harness/extract_cliio.go` regenerates the bodies as an IR (`Facts.cliIOIR`), `Model/CliIOIR.lean` interprets it on a
heap of reader OBJECTS (a reader is the script of the results of its `Read` calls, as in the hand-written model
Lemmas/CliIOModel.lean), Props/C16IOIRTrees.lean pins the decoded trees.  Two steps:

  A  `read_run`, `close_run`: the interpretation of the regenerated body equals a function on lists of reader
     VALUES (`mrRead`, `mrClose`: handles into the heap) — for every heap, every list (nil entries and dangling
     handles included: Go panics / the interpreter is stuck exactly where the function says), every loop fuel above
     the number of readers;
  B  `mrRead_refines`, `mrClose_spec`: where the values denote scripts `rs` (no nil entry, no dangling handle, no
     object twice), that function returns what the hand-written `CliIO.multiRead rs` returns and leaves values that
     denote what `multiRead` leaves — so the statement applies again to the next `Read`.

Headlines: `C16_Read_ir_heap`, `C16_Read_ir` (one `Read` call = `multiRead` on the same state, every reader list and
every script: data-with-EOF, `0, EOF`, `0, nil`, non-EOF errors, the `len(mrc.readers) > 0` re-check that turns EOF into
nil), `C16_Read_ir_fuel_tight`, `C16_Read_ir_nil_panics`; `C16_Close_ir`, `C16_Close_ir_nil_panics`.
-/
import PqlModel.Props.C16IOIRTrees
import PqlModel.Lemmas.CliIOMulti
namespace Pql.CliIOIR
open Pql Pql.CliIO
set_option linter.unusedSimpArgs false

/-! ### `Read` on the level of reader values -/

def isPanic {α : Type} : M α → Bool
  | .error .panic => true
  | _ => false

/-- everything of a state but the variables -/
def State.world (st : State) : List Reader × List (Option RC) × List Nat × List String × Bytes :=
  (st.objs, st.readers, st.closed, st.created, st.data)

/-- `(*multiReadCloser).Read` as a function on the list of reader VALUES `mrc.readers` and the heap of reader
    objects: the loop of the Go function, one reader per step -/
def mrRead : List (Option RC) → State → M ((Int × GoErr) × State)
  | [], st => .ok ((0, .eof), { st with readers := [] })
  | none :: _, _ => goPanic
  | some rc :: rest, st =>
    match st.objs[rc.h]? with
    | none => stuck
    | some r =>
      let res := (Reader.read r).1
      let objs := st.objs.set rc.h (Reader.read r).2
      if res.2 = .eof then
        let closed := if rc.nop then st.closed else st.closed ++ [rc.h]
        if res.1.length > 0 then
          .ok ((res.1.length, if rest.length > 0 then .nil else .eof),
            { st with objs := objs, data := res.1, closed := closed, readers := rest })
        else mrRead rest { st with objs := objs, data := res.1, closed := closed, readers := rest }
      else .ok ((res.1.length, GoErr.ofStatus res.2), { st with objs := objs, data := res.1, readers := some rc :: rest })

/-- the state inside `Read` -/
def readSt (n : Int) (e : GoErr) (w : State) : State :=
  ⟨[("err", .err e), ("n", .int n), ("p", .buf), ("mrc", .mrcRef)], w.objs, w.readers, w.closed, w.created, w.data⟩

/-- what `Read` returns when its loop ended in the flow `f` -/
def finishRead (r : M (Flow × State)) : M (List Val × (List Reader × List (Option RC) × List Nat × List String × Bytes)) := do
  let (f, st) ← r
  match f with
  | .ret vs => pure (vs, st.world)
  | .next => pure ([.int 0, .err .eof], st.world)
  | .cont => stuck

def readLoopBody : List Stmt :=
  match readBody with
  | [.while_ _ b, _] => b
  | _ => []

def readLoopCond : Cond :=
  match readBody with
  | [.while_ c _, _] => c
  | _ => .eq .nil .nil

macro "io_simp" : tactic =>
  `(tactic| simp (config := { decide := true }) [*, execBlock, exec, eval, evalCond, evalAll, getAll, assignTo, State.get, State.declare, State.assign,
      State.leave, assignIn, asRC, asRCs, valEq, readObj, closeObj, openPath, createPath, elemsOf, typeMatches, stuck, goPanic, nilLike,
      bind, Except.bind, pure, Except.pure, Except.map, GoErr.ofStatus, State.world])

macro "read_simp" : tactic =>
  `(tactic| (simp [readLoopCond, readLoopBody, readBody, readSt, finishRead, mrRead]; io_simp))

theorem read_loop (env : Env) (fuel : Nat) :
    ∀ (l : List (Option RC)) (k : Nat) (w : State) (n : Int) (e : GoErr), w.readers = l → l.length < k →
      finishRead (loopN (fun s => evalCond s readLoopCond) (execBlock env ["n", "err"] fuel readLoopBody) k (readSt n e w)) =
        (mrRead l w).map fun r => ([.int r.1.1, .err r.1.2], r.2.world)
  | [], k, w, n, e, hl, hk => by
    obtain ⟨vars, objs, readers, closed, created, data⟩ := w
    simp only at hl
    subst hl
    obtain ⟨k, rfl⟩ : ∃ k', k = k' + 1 := ⟨k - 1, by simp at hk; omega⟩
    simp [loopN, readLoopCond, readBody, readSt, finishRead, mrRead]
    io_simp
  | none :: rest, k, w, n, e, hl, hk => by
    obtain ⟨vars, objs, readers, closed, created, data⟩ := w
    simp only at hl
    subst hl
    obtain ⟨k, rfl⟩ : ∃ k', k = k' + 1 := ⟨k - 1, by simp at hk; omega⟩
    simp [loopN, readLoopCond, readLoopBody, readBody, readSt, finishRead, mrRead]
    io_simp
  | some rc :: rest, k, w, n, e, hl, hk => by
    obtain ⟨vars, objs, readers, closed, created, data⟩ := w
    simp only at hl
    subst hl
    obtain ⟨k, rfl⟩ : ∃ k', k = k' + 1 := ⟨k - 1, by simp at hk; omega⟩
    obtain ⟨h, nop⟩ := rc
    have hk' : rest.length < k := by simp at hk; omega
    have ih := fun cl => read_loop env fuel rest k ⟨vars, objs.set h (Reader.read (objs[h]?.getD [])).2, rest, cl, created, []⟩ 0 .eof rfl hk'
    simp only [loopN]
    generalize loopN (fun s => evalCond s readLoopCond) (execBlock env ["n", "err"] fuel readLoopBody) k = L at ih ⊢
    cases ho : objs[h]? with
    | none => read_simp
    | some r =>
      rcases hr : Reader.read r with ⟨⟨chunk, s⟩, r'⟩
      simp only [ho, Option.getD_some, hr] at ih
      cases s with
      | ok => read_simp
      | err => read_simp
      | eof =>
        cases chunk with
        | cons b bs =>
          rcases rest with _ | ⟨x, xs⟩ <;> cases nop
          · read_simp
          · read_simp
          · have : (0 : Int) < ↑xs.length + 1 + 1 := by omega
            read_simp
          · have : (0 : Int) < ↑xs.length + 1 + 1 := by omega
            read_simp
        | nil =>
          cases nop
          · have ih := ih (closed ++ [h])
            simp [readSt, finishRead, bind, Except.bind, pure, Except.pure, Except.map, State.world, stuck] at ih
            read_simp
          · have ih := ih closed
            simp [readSt, finishRead, bind, Except.bind, pure, Except.pure, Except.map, State.world, stuck] at ih
            read_simp

/-- **`Read`, step A**: the interpretation of the regenerated body is `mrRead` (results and world), for every
    heap, every list of reader values (nil entries and dangling handles included) and every `fuel` above the
    number of readers -/
theorem read_run (env : Env) (fuel : Nat) (w : State) (hf : w.readers.length < fuel) :
    (runFn env fuel readFn [.mrcRef, .buf] w).map (fun r => (r.1, r.2.world)) =
      (mrRead w.readers w).map fun r => ([.int r.1.1, .err r.1.2], r.2.world) := by
  have h := read_loop env fuel w.readers fuel w 0 .nil rfl hf
  obtain ⟨vars, objs, readers, closed, created, data⟩ := w
  simp only [runFn, readFn, bindParams, resultVars, zeroOf, Option.map_some]
  simp (config := { decide := true }) only [List.map, List.filter, List.reverse_cons, List.reverse_nil, List.nil_append, List.cons_append,
    List.append_nil, bne_iff_ne, ne_eq, not_false_eq_true, String.reduceEq, decide_true, ↓reduceIte, String.reduceBNe]
  rw [show readBody = [.while_ readLoopCond readLoopBody, .ret [.int 0, .eof]] from rfl]
  simp only [execBlock, exec, bind, Except.bind]
  simp only [readSt, finishRead, bind, Except.bind] at h
  revert h
  generalize mrRead readers _ = R
  generalize loopN _ _ fuel _ = X
  intro h
  rcases X with e | ⟨f, st⟩
  · cases R <;> simp_all [Except.map]
  · cases f <;> cases R <;>
      simp_all (config := { decide := true }) [Except.map, pure, Except.pure, stuck, eval, evalAll, bind, Except.bind, State.world, nilAs]

/-! ### step B: `mrRead` on reader values refines `CliIO.multiRead` on reader scripts -/

/-- the scripts a list of reader values denotes in the heap (`none`: a nil entry or a dangling handle) -/
def denote (objs : List Reader) : List (Option RC) → Option (List Reader)
  | [] => some []
  | none :: _ => none
  | some rc :: l =>
    match objs[rc.h]?, denote objs l with
    | some r, some rs => some (r :: rs)
    | _, _ => none

/-- the objects behind a list of reader values -/
def handles : List (Option RC) → List Nat
  | [] => []
  | none :: l => handles l
  | some rc :: l => rc.h :: handles l

/-- the files (not `nopReadCloser`s) among a list of reader values -/
def fileHandles : List (Option RC) → List Nat
  | [] => []
  | some ⟨h, false⟩ :: l => h :: fileHandles l
  | _ :: l => fileHandles l

theorem denote_set (objs : List Reader) (h : Nat) (r : Reader) :
    ∀ l : List (Option RC), h ∉ handles l → denote (objs.set h r) l = denote objs l
  | [], _ => rfl
  | none :: l, _ => rfl
  | some rc :: l, hn => by
    simp only [handles, List.mem_cons, not_or] at hn
    simp only [denote, denote_set objs h r l hn.2]
    rw [List.getElem?_set_ne (by omega)]

theorem denote_length (objs : List Reader) : ∀ (l : List (Option RC)) (rs : List Reader),
    denote objs l = some rs → rs.length = l.length
  | [], rs, h => by simp [denote] at h; simp [← h]
  | none :: l, rs, h => by simp [denote] at h
  | some rc :: l, rs, h => by
    simp only [denote] at h
    cases ho : objs[rc.h]? with
    | none => simp [ho] at h
    | some r =>
      cases hl : denote objs l with
      | none => simp [ho, hl] at h
      | some rs' =>
        simp only [ho, hl, Option.some.injEq] at h
        subst h
        simp [denote_length objs l rs' hl]

/-- **`Read`, step B**: if the reader values denote the scripts `rs` (no nil entry, no dangling handle) and no object
    occurs twice, `mrRead` returns what `multiRead rs` returns — `n` = length of the chunk, `err` = its status, the
    chunk in `p[:n]` — and leaves reader values that denote what `multiRead` leaves, again without repetition; the
    readers it dropped are a prefix of the list, and exactly the files among them were closed, in order. -/
theorem mrRead_refines : ∀ (l : List (Option RC)) (st : State) (rs : List Reader),
    denote st.objs l = some rs → (handles l).Nodup →
    ∃ st' d, mrRead l st = .ok ((((multiRead rs).1.1.length : Nat), GoErr.ofStatus (multiRead rs).1.2), st') ∧
      st'.data.take (multiRead rs).1.1.length = (multiRead rs).1.1 ∧
      denote st'.objs st'.readers = some (multiRead rs).2 ∧ (handles st'.readers).Nodup ∧
      l = d ++ st'.readers ∧ st'.closed = st.closed ++ fileHandles d ∧ st'.created = st.created ∧
      st'.objs.length = st.objs.length
  | [], st, rs, hd, _ => by
    simp only [denote, Option.some.injEq] at hd
    subst hd
    exact ⟨{ st with readers := [] }, [], by simp [mrRead, multiRead, GoErr.ofStatus, denote, handles, fileHandles]⟩
  | none :: l, st, rs, hd, _ => by simp [denote] at hd
  | some rc :: l, st, rs, hd, hn => by
    obtain ⟨h, nop⟩ := rc
    simp only [handles, List.nodup_cons] at hn
    simp only [denote] at hd
    cases ho : st.objs[h]? with
    | none => simp [ho] at hd
    | some r =>
      cases hl : denote st.objs l with
      | none => simp [ho, hl] at hd
      | some rs' =>
        simp only [ho, hl, Option.some.injEq] at hd
        subst hd
        have hlt : h < st.objs.length := by
          rcases Nat.lt_or_ge h st.objs.length with h1 | h1
          · exact h1
          · simp [List.getElem?_eq_none h1] at ho
        rcases hr : Reader.read r with ⟨⟨chunk, s⟩, r'⟩
        have hrr : r.read = ((chunk, s), r') := hr
        have hset : (st.objs.set h r')[h]? = some r' := by simp [List.getElem?_set_self hlt]
        cases s with
        | ok =>
          refine ⟨{ st with objs := st.objs.set h r', data := chunk, readers := some ⟨h, nop⟩ :: l }, [], ?_⟩
          simp [mrRead, ho, hr, multiRead, GoErr.ofStatus, denote, handles, fileHandles, hn, denote_set _ _ _ _ hn.1, hl, hset]
        | err =>
          refine ⟨{ st with objs := st.objs.set h r', data := chunk, readers := some ⟨h, nop⟩ :: l }, [], ?_⟩
          simp [mrRead, ho, hr, multiRead, GoErr.ofStatus, denote, handles, fileHandles, hn, denote_set _ _ _ _ hn.1, hl, hset]
        | eof =>
          by_cases hc : chunk = []
          · subst hc
            obtain ⟨st', d, h1, h2, h3, h4, h5, h6, h7, h8⟩ := mrRead_refines l
              { st with objs := st.objs.set h r', data := [], closed := if nop then st.closed else st.closed ++ [h], readers := l }
              rs' (by simpa [denote_set _ _ _ _ hn.1] using hl) hn.2
            refine ⟨st', some ⟨h, nop⟩ :: d, ?_⟩
            cases nop <;>
              simp_all [mrRead, multiRead, GoErr.ofStatus, fileHandles, List.append_assoc]
          · refine ⟨{ st with objs := st.objs.set h r', data := chunk, closed := if nop then st.closed else st.closed ++ [h], readers := l },
              [some ⟨h, nop⟩], ?_⟩
            have hpos : 0 < chunk.length := List.length_pos_iff.mpr hc
            have hlen := denote_length _ _ _ hl
            have hne : l ≠ [] → rs' ≠ [] := fun h1 h2 => h1 (List.length_eq_zero_iff.mp (by rw [← hlen, h2]; rfl))
            cases l <;> cases nop <;>
              simp_all [mrRead, multiRead, GoErr.ofStatus, fileHandles, denote, handles, denote_set _ _ _ _ hn.1]

/-! ### `Read`: the headline theorems -/

theorem map_world_ok {α : Type} (x : M (α × State)) (a : α) (st' : State) (h : x.map (fun r => (r.1, r.2.world)) = .ok (a, st'.world)) :
    ∃ st'', x = .ok (a, st'') ∧ st''.world = st'.world := by
  rcases x with e | ⟨a', st''⟩
  · simp [Except.map] at h
  · simp only [Except.map, Except.ok.injEq, Prod.mk.injEq] at h
    exact ⟨st'', by rw [h.1], h.2⟩

/-- **C16 (`Read` is `multiRead`), on any heap.**  One call of the regenerated body of `(*multiReadCloser).Read`, in a
    world where `mrc.readers` denotes the scripts `rs` (no nil entry, no dangling handle, no object twice), with
    loop fuel above the number of readers: it returns `n` = the length of the chunk and `err` = the status that
    `CliIO.multiRead rs` yields (`io.EOF` turned into nil exactly when data came with it and readers are left), the
    chunk is in `p[:n]`, `mrc.readers` afterwards denotes what `multiRead` leaves (so the statement applies to the
    next call), the dropped readers are a prefix and exactly the files among them were closed, in order. -/
theorem C16_Read_ir_heap (env : Env) (fuel : Nat) (w : State) (rs : List Reader)
    (hd : denote w.objs w.readers = some rs) (hn : (handles w.readers).Nodup) (hf : w.readers.length < fuel) :
    ∃ st' d, runUnit env fuel "multiReadCloser.Read" [.mrcRef, .buf] w =
        .ok ([.int (multiRead rs).1.1.length, .err (GoErr.ofStatus (multiRead rs).1.2)], st') ∧
      st'.data.take (multiRead rs).1.1.length = (multiRead rs).1.1 ∧
      denote st'.objs st'.readers = some (multiRead rs).2 ∧ (handles st'.readers).Nodup ∧
      w.readers = d ++ st'.readers ∧ st'.closed = w.closed ++ fileHandles d ∧ st'.created = w.created := by
  obtain ⟨st1, d, h1, h2, h3, h4, h5, h6, h7, _⟩ := mrRead_refines w.readers w rs hd hn
  have hA := read_run env fuel w hf
  rw [h1] at hA
  obtain ⟨st2, hr, hw⟩ := map_world_ok _ _ st1 (by simpa [Except.map] using hA)
  simp only [State.world, Prod.mk.injEq] at hw
  obtain ⟨ho, hrd, hc, hcr, hdt⟩ := hw
  refine ⟨st2, d, ?_, ?_, ?_, ?_, ?_, ?_, ?_⟩
  · simp only [runUnit, read_ir]; exact hr
  · rw [hdt]; exact h2
  · rw [ho, hrd]; exact h3
  · rw [hrd]; exact h4
  · rw [hrd]; exact h5
  · rw [hc]; exact h6
  · rw [hcr]; exact h7

/-- the world in which the scripts `rs` are the objects 0 … n-1 and `mrc.readers` holds them in order (as files) -/
def worldOf (rs : List Reader) : State :=
  ⟨[], rs, (List.range' 0 rs.length).map fun i => some ⟨i, false⟩, [], [], []⟩

theorem denote_range' : ∀ (rs pre : List Reader),
    denote (pre ++ rs) ((List.range' pre.length rs.length).map fun i => some ⟨i, false⟩) = some rs
  | [], pre => by simp [denote]
  | r :: rs, pre => by
    have ih := denote_range' rs (pre ++ [r])
    simp only [List.length_append, List.length_cons, List.length_nil, List.append_assoc, List.cons_append, List.nil_append,
      Nat.zero_add] at ih
    simp [List.range'_succ, denote, ih]

theorem handles_range' (n k : Nat) : handles ((List.range' k n).map fun i => some ⟨i, false⟩) = List.range' k n := by
  induction n generalizing k with
  | zero => rfl
  | succ n ih => simp [List.range'_succ, handles, ih]

/-- **C16 (`Read` is `multiRead`).**  For every list of reader scripts `rs` — any chunking, data-with-EOF, `0, EOF`,
    `0, nil`, non-EOF errors, used-up readers — one `Read` call of the regenerated body on the multiReadCloser over
    them equals `CliIO.multiRead rs`: same `n`, same error class, the chunk in `p[:n]`, and the readers that remain
    denote `(multiRead rs).2`. -/
theorem C16_Read_ir (env : Env) (rs : List Reader) (fuel : Nat) (hf : rs.length < fuel) :
    ∃ st', runUnit env fuel "multiReadCloser.Read" [.mrcRef, .buf] (worldOf rs) =
        .ok ([.int (multiRead rs).1.1.length, .err (GoErr.ofStatus (multiRead rs).1.2)], st') ∧
      st'.data.take (multiRead rs).1.1.length = (multiRead rs).1.1 ∧
      denote st'.objs st'.readers = some (multiRead rs).2 := by
  obtain ⟨st', d, h1, h2, h3, _⟩ := C16_Read_ir_heap env fuel (worldOf rs) rs
    (by simpa [worldOf] using denote_range' rs [])
    (by simp [worldOf, handles_range', List.nodup_range'])
    (by simpa [worldOf] using hf)
  exact ⟨st', h1, h2, h3⟩

/-- `fuel = number of readers` can be too little (the last iteration only learns that the list is empty) -/
theorem C16_Read_ir_fuel_tight :
    (runUnit { openFile := fun _ => none } 1 "multiReadCloser.Read" [.mrcRef, .buf] (worldOf [[]])).toOption.map (·.1) = none := by
  decide

/-- a nil entry in `mrc.readers` is a Go panic (nil interface method call), a dangling handle is not Go: stuck -/
theorem C16_Read_ir_nil_panics :
    isPanic (runUnit { openFile := fun _ => none } 5 "multiReadCloser.Read" [.mrcRef, .buf] ⟨[], [], [none], [], [], []⟩) = true := by
  decide

/-! ### `Close` -/

/-- `(*multiReadCloser).Close` on the list of reader values: every reader is closed, the first error wins -/
def mrClose (env : Env) : List (Option RC) → GoErr → State → M (GoErr × State)
  | [], fe, st => .ok (fe, st)
  | none :: _, _, _ => goPanic
  | some ⟨_, true⟩ :: l, fe, st => mrClose env l fe st
  | some ⟨h, false⟩ :: l, fe, st =>
    mrClose env l (if fe = .nil then (if env.closeFails h then .other else .nil) else fe) { st with closed := st.closed ++ [h] }

def closeSt (fe : GoErr) (w : State) : State :=
  ⟨[("firstError", .err fe), ("mrc", .mrcRef)], w.objs, w.readers, w.closed, w.created, w.data⟩

def closeLoopBody : List Stmt :=
  match closeBody with
  | [_, .range _ _ b, _, _] => b
  | _ => []

theorem close_loop (env : Env) (fuel : Nat) : ∀ (l : List (Option RC)) (fe : GoErr) (w : State),
    rangeLoop "rc" (execBlock env [] fuel closeLoopBody) (l.map .rc) (closeSt fe w) =
      (mrClose env l fe w).map fun r => (.next, closeSt r.1 r.2)
  | [], fe, w => by simp [rangeLoop, mrClose, Except.map]
  | none :: l, fe, w => by
    simp [rangeLoop, mrClose, closeLoopBody, closeBody, closeSt]
    io_simp
  | some ⟨h, nop⟩ :: l, fe, w => by
    obtain ⟨vars, objs, readers, closed, created, data⟩ := w
    have ih := fun f cl => close_loop env fuel l f ⟨vars, objs, readers, cl, created, data⟩
    simp only [closeSt] at ih
    simp only [List.map, rangeLoop]
    generalize rangeLoop "rc" (execBlock env [] fuel closeLoopBody) (List.map Val.rc l) = L at ih ⊢
    cases nop <;> cases fe <;> cases hc : env.closeFails h <;>
      (simp [mrClose, closeLoopBody, closeBody, closeSt]; io_simp)

/-- **`Close`, step A**: the interpretation of the regenerated body is `mrClose` followed by `mrc.readers = nil` -/
theorem close_run (env : Env) (fuel : Nat) (w : State) :
    (runFn env fuel closeFn [.mrcRef] w).map (fun r => (r.1, r.2.world)) =
      (mrClose env w.readers .nil w).map fun r => ([.err r.1], ({ r.2 with readers := [] } : State).world) := by
  have h := close_loop env fuel w.readers .nil w
  obtain ⟨vars, objs, readers, closed, created, data⟩ := w
  simp only [closeSt] at h
  simp only [runFn, closeFn, bindParams, resultVars, zeroOf, Option.map_some]
  rw [show closeBody = [.varDecl "firstError" "error", .range "rc" (.fld "readers" (.var "mrc")) closeLoopBody,
    .assign (.fset "mrc" "readers") .nil, .ret [.var "firstError"]] from rfl]
  simp (config := { decide := true }) [execBlock, exec, eval, State.get, State.declare, elemsOf, bind, Except.bind, pure, Except.pure, h]
  cases mrClose env readers .nil ⟨vars, objs, readers, closed, created, data⟩ with
  | error e => simp [Except.map]
  | ok r => simp [Except.map, closeSt]; io_simp; simp [nilAs]

/-- the error `Close` reports: that of the first file whose `Close` fails -/
def firstFail (env : Env) (l : List (Option RC)) : GoErr := if (fileHandles l).any env.closeFails then .other else .nil

theorem mrClose_spec (env : Env) : ∀ (l : List (Option RC)) (fe : GoErr) (st : State), none ∉ l →
    mrClose env l fe st = .ok (if fe = .nil then firstFail env l else fe, { st with closed := st.closed ++ fileHandles l })
  | [], fe, st, _ => by cases fe <;> simp [mrClose, firstFail, fileHandles]
  | none :: l, fe, st, h => by simp at h
  | some ⟨h, true⟩ :: l, fe, st, hn => by
    rw [mrClose, mrClose_spec env l fe st (by simpa using hn)]
    simp [firstFail, fileHandles]
  | some ⟨h, false⟩ :: l, fe, st, hn => by
    rw [mrClose, mrClose_spec env l _ _ (by simpa using hn)]
    cases fe <;> cases hc : env.closeFails h <;> simp [firstFail, fileHandles, hc, List.append_assoc]

/-- **C16 (`Close`).**  The regenerated body of `(*multiReadCloser).Close`, on any list of non-nil readers: every file
    among them is closed, in order (a `nopReadCloser` — standard input — is not), the result is the error of the first
    file whose `Close` fails (nil if none does), `mrc.readers` is nil afterwards; nothing else changes.  No loop fuel
    is needed (`for … range`). -/
theorem C16_Close_ir (env : Env) (fuel : Nat) (w : State) (hn : none ∉ w.readers) :
    ∃ st', runUnit env fuel "multiReadCloser.Close" [.mrcRef] w = .ok ([.err (firstFail env w.readers)], st') ∧
      st'.world = (w.objs, [], w.closed ++ fileHandles w.readers, w.created, w.data) := by
  have hA := close_run env fuel w
  rw [mrClose_spec env w.readers .nil w hn] at hA
  obtain ⟨st2, hr, hw⟩ := map_world_ok _ _ ({ w with closed := w.closed ++ fileHandles w.readers, readers := [] } : State)
    (by simpa [Except.map] using hA)
  exact ⟨st2, by simp only [runUnit, close_ir]; exact hr, by rw [hw]; rfl⟩

/-- a nil reader in the list: `rc.Close()` panics -/
theorem C16_Close_ir_nil_panics :
    isPanic (runUnit { openFile := fun _ => none } 0 "multiReadCloser.Close" [.mrcRef] ⟨[], [], [none], [], [], []⟩) = true := by
  decide

end Pql.CliIOIR
