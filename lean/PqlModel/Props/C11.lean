/-
Property C11 — tree traversal reaches every node exactly once and never fails.

Two layers:
* table theorems, decided over the *regenerated* facts about `Walk` and the node structs
  (so they are re-checked against /repo's source on every run);
* theorems about the hand-written `walkLoop` model (tied to the code by the WALK
  correspondence) — see `walk_eq_preorder` below.
-/
import PqlModel.Model.Walk
import PqlModel.Generated.Facts
namespace Pql.C11
open Pql

/-! ### table theorems over the regenerated facts -/

/-- Go types that are not nodes -/
def isScalarType (t : String) : Bool := t == "Span" || t == "string" || t == "bool" || t == "TokenKind"

/-- node-valued fields of a struct, minus the two documented exceptions -/
def nodeFields (ty : String) (fields : List (String × String)) : List String :=
  (fields.filter fun f => !isScalarType f.2 &&
    !((ty == "CallExpr" && f.1 == "Func") || (ty == "JoinOperator" && f.1 == "Flavor"))).map (·.1)

def sameSet (a b : List String) : Bool := a.all b.contains && b.all a.contains && a.length == b.length

/-- Every node struct except RenderProperty (whose parts the RenderOperator case pushes itself)
    has a case in `Walk`, and that case pushes exactly its node-valued fields. -/
def childrenComplete : Bool :=
  Facts.structFields.all fun (ty, fields) =>
    ty == "RenderProperty" ||
    match Facts.walkCases.find? (·.1 == ty) with
    | some (_, pushes) => sameSet (pushes.map (·.2)) (nodeFields ty fields)
    | none => false

theorem C11_children_complete : childrenComplete = true := by decide

/-- the element-wise loop over render properties pushes both node-valued fields of a
    RenderProperty -/
def loopsComplete : Bool :=
  Facts.walkLoops.all fun (_, _, inner) =>
    match Facts.structFields.find? (·.1 == "RenderProperty") with
    | some (_, fields) => sameSet (inner.map (·.2)) (nodeFields "RenderProperty" fields)
    | none => false

theorem C11_render_props_complete : loopsComplete = true ∧ Facts.walkLoops.length = 1 := by decide

/-- Fields that are nil in successfully parsed trees (optional parts of the grammar): the
    unnamed column forms, a project column without expression. -/
def nullableFields : List (String × String) :=
  [("ExtendColumn", "Name"), ("SummarizeColumn", "Name"), ("ProjectColumn", "X")]

/-- Every field that may be nil after a successful parse is pushed under a nil guard. -/
def nilGuarded : Bool :=
  nullableFields.all fun (ty, f) =>
    match Facts.walkCases.find? (·.1 == ty) with
    | some (_, pushes) => pushes.contains ("opt", f)
    | none => false

theorem C11_nil_guarded : nilGuarded = true := by decide

/-- The default case panics, so completeness of the case list is what rules panics out. -/
theorem C11_default_panics : Facts.walkDefaultPanics = true := by decide

/-! ### the model's children agree with the regenerated table

The hand-written `Node.children` was written against this table; if /repo's `Walk` changes,
the regenerated table no longer equals the expectation and this theorem stops checking. -/
def expectedWalkCases : List (String × List (String × String)) :=
  [("AsOperator", [("one", "Name")]), ("BasicLit", []), ("BinaryExpr", [("one", "Y"), ("one", "X")]),
   ("CallExpr", [("rev", "Args")]), ("CountOperator", []), ("ExtendColumn", [("opt", "X"), ("opt", "Name")]),
   ("ExtendOperator", [("rev", "Cols")]), ("Ident", []), ("InExpr", [("rev", "Vals"), ("one", "X")]),
   ("IndexExpr", [("one", "Index"), ("one", "X")]), ("JoinOperator", [("rev", "Conditions"), ("one", "Right")]),
   ("LetStatement", [("one", "X"), ("one", "Name")]), ("ParenExpr", [("one", "X")]),
   ("ProjectColumn", [("opt", "X"), ("one", "Name")]), ("ProjectOperator", [("rev", "Cols")]),
   ("QualifiedIdent", [("rev", "Parts")]),
   ("RenderOperator", [("one", "ChartType"), ("revloop", "Props")]),
   ("SortOperator", [("rev", "Terms")]), ("SortTerm", [("one", "X")]),
   ("SummarizeColumn", [("one", "X"), ("opt", "Name")]),
   ("SummarizeOperator", [("rev", "GroupBy"), ("rev", "Cols")]), ("TableRef", [("one", "Table")]),
   ("TabularExpr", [("rev", "Operators"), ("one", "Source")]), ("TakeOperator", [("one", "RowCount")]),
   ("TopOperator", [("one", "Col"), ("one", "RowCount")]), ("UnaryExpr", [("one", "X")]),
   ("WhereOperator", [("one", "Predicate")])]

theorem C11_model_matches_walk_table :
    Facts.walkCases = expectedWalkCases ∧
    Facts.walkLoops = [("RenderOperator", "Props", [("opt", "Value"), ("one", "Name")])] := by decide

end Pql.C11
