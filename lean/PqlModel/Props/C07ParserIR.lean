/-
Property C07, the two translated levels of parser/parser.go put together.

The operator/statement level (`Pql.OpIR`, Props/C07OperatorIR*.lean) interprets the regenerated bodies of
`Parse`, `tabularExpr`, the operator methods … with the expression productions `expr`, `exprList`, `ident`
as PRIMITIVES whose meaning `OpIR.calleeAt` takes from the model (`pExpr`, `pExprList`, `pIdent`).
The expression level (`Pql.ExprParseIR`, Props/C07ExprIR.lean) interprets the regenerated bodies of exactly
those productions.  This file states the composition: the meaning `calleeAt` gives to a call of `expr` /
`exprList` / `ident` IS the interpretation of the regenerated unit (down to `next`/`prev`), whenever the
call has the fuel under which the model's own fuel suffices (`4 * tokens + rank`) — in particular at the
fuel `Parse` supplies for a statement (`fuelFor n`, every expression of it having at most `n` tokens).
So in every theorem of the operator level the primitive callees can be read as "run the translated Go
body of the callee".
-/
import PqlModel.Props.C07ExprIR
import PqlModel.Props.C07OperatorIR
namespace Pql.ParserIR
open Pql

/-- results of the expression level as values of the operator level -/
def toOpVal : ExprParseIR.Val → Option OpIR.Val
  | .expr e => some (.expr e)
  | .exprs l => some (.exprs l)
  | .ident i => some (.ident i)
  | .err e => some (.errs e)
  | _ => none

def toOpVals : List ExprParseIR.Val → Option (List OpIR.Val)
  | [] => some []
  | v :: vs => (toOpVal v).bind fun x => (toOpVals vs).map (x :: ·)

/-- what a run of an expression-level unit means to the operator level: values and remaining tokens -/
def ofRun : ExprParseIR.Out (List ExprParseIR.Val × ExprParseIR.PState) → Option (List OpIR.Val × List Token)
  | .ok (vs, p) => (toOpVals vs).map fun ws => (ws, p.rest)
  | _ => none

/-- **C07 (composition, `expr`).** -/
theorem C07_callee_expr_is_unit (c : ExprParseIR.ICtx) (fuel : Nat) (ts : List Token) (sk : Option TokKind)
    (h : 4 * ts.length + 4 ≤ fuel) :
    OpIR.calleeAt c.pctx fuel "expr" [] ts = ofRun (ExprParseIR.runUnit c fuel "expr" [] ⟨ts, none, sk⟩) := by
  rw [ExprParseIR.C07_expr_ir_exact c fuel ts sk h]
  rfl

/-- **C07 (composition, `exprList`).** -/
theorem C07_callee_exprList_is_unit (c : ExprParseIR.ICtx) (fuel : Nat) (ts : List Token) (sk : Option TokKind)
    (h : 4 * ts.length + 5 ≤ fuel) :
    OpIR.calleeAt c.pctx fuel "exprList" [] ts = ofRun (ExprParseIR.runUnit c fuel "exprList" [] ⟨ts, none, sk⟩) := by
  rw [ExprParseIR.C07_exprList_ir_exact c fuel ts sk h]
  rfl

/-- **C07 (composition, `ident`).**  No fuel is involved. -/
theorem C07_callee_ident_is_unit (c : ExprParseIR.ICtx) (fuel : Nat) (ts : List Token) (sk : Option TokKind) :
    OpIR.calleeAt c.pctx fuel "ident" [] ts = ofRun (ExprParseIR.runIdent c ⟨ts, none, sk⟩) := by
  rw [ExprParseIR.C07_ident_ir c ⟨ts, none, sk⟩]
  rfl

/-- at the fuel `Parse` supplies for a statement of `n` tokens -/
theorem C07_callee_expr_is_unit_entry (c : ExprParseIR.ICtx) (n : Nat) (ts : List Token) (sk : Option TokKind)
    (hn : ts.length ≤ n) :
    OpIR.calleeAt c.pctx (fuelFor n) "expr" [] ts =
      ofRun (ExprParseIR.runUnit c (fuelFor n) "expr" [] ⟨ts, none, sk⟩) :=
  C07_callee_expr_is_unit c (fuelFor n) ts sk (by unfold fuelFor; omega)

/-- the fuel hypothesis is needed: without fuel the unit answers `Out.fuel`, which means nothing to the
    operator level, while the primitive still answers (with the model's fuel leaf) -/
theorem C07_callee_expr_is_unit_needs_fuel (c : ExprParseIR.ICtx) (ts : List Token) (sk : Option TokKind) :
    ofRun (ExprParseIR.runUnit c 0 "expr" [] ⟨ts, none, sk⟩) = none ∧
    (OpIR.calleeAt c.pctx 0 "expr" [] ts).isSome = true := by
  constructor
  · rw [ExprParseIR.runUnit_zero]; rfl
  · rfl

end Pql.ParserIR
