/-
Property C08 — the parser accepts only what its tree represents.

The full statement (`C08_accounted`: a successful parse accounts for every token) is the
backward parser induction of DESIGN §6; it is stated in `Props/C08Full.lean` when proved.
This file holds what the sub-parser mechanism contributes: a split never drops or reorders
tokens, and a statement handed to a sub-parser contains no statement separator.
-/
import PqlModel.Lemmas.SplitBasic
import PqlModel.Spec.Grammar
namespace Pql.C08
open Pql

/-- **C08 (split loses nothing).** `split` hands a contiguous prefix of the remaining tokens to
    the sub-parser and leaves exactly the rest to the caller, for every token list and every
    search kind. -/
theorem C08_split_partition (search : TokKind) (ts : List Token) :
    (split search ts).1 ++ (split search ts).2 = ts := split_append search ts

theorem C08_splitSemi_partition (ts : List Token) : (splitSemi ts).1 ++ (splitSemi ts).2 = ts :=
  splitSemi_append ts

/-- **C08 (end of range).** `endSplit` reports an error exactly when the sub-parser left a token
    of its range unread. -/
theorem C08_endSplit_iff (ts : List Token) : endSplit ts = [] ↔ ts = [] := by
  cases ts <;> simp [endSplit, errAt]

/-- **C08 (error tokens).** No token the grammar's `unparse` produces has kind `error`, so a
    source containing a scan error can never be accounted for by any tree. -/
theorem C08_accounts_no_error_token (pos : Bool) (us : List Grammar.UTok) (ts : List Token)
    (hus : ∀ u ∈ us, u.kind ≠ .error) (h : Grammar.accounts pos us ts = true) :
    ∀ t ∈ ts, t.kind ≠ .error := by
  induction us generalizing ts with
  | nil =>
    cases ts with
    | nil => simp
    | cons t ts => simp [Grammar.accounts] at h
  | cons u us ih =>
    cases ts with
    | nil => simp
    | cons t ts =>
      have hu := hus u (by simp)
      have hrest : ∀ u' ∈ us, u'.kind ≠ .error := fun u' hu' => hus u' (by simp [hu'])
      simp only [Grammar.accounts] at h
      split at h
      · rename_i hm
        intro x hx
        rcases List.mem_cons.mp hx with rfl | hx
        · simp only [Grammar.tokMatches, Bool.and_eq_true, beq_iff_eq] at hm
          intro hk; exact hu (by rw [hm.1.1]; exact hk)
        · exact ih ts hrest h x hx
      · split at h
        · rename_i hc
          cases ts with
          | nil => simp at h
          | cons t2 ts2 =>
            simp only [Bool.and_eq_true] at h
            intro x hx
            rcases List.mem_cons.mp hx with rfl | hx
            · simp only [Bool.and_eq_true, beq_iff_eq] at hc
              intro hk; rw [hc.2] at hk; cases hk
            · rcases List.mem_cons.mp hx with rfl | hx
              · have hm := h.1.1
                simp only [Grammar.tokMatches, Bool.and_eq_true, beq_iff_eq] at hm
                intro hk; exact hu (by rw [hm.1]; exact hk)
              · exact ih ts2 hrest h.2 x hx
        · simp at h

end Pql.C08
