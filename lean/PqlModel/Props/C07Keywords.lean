/-
Property C07, tie by translation: the operator-keyword dispatch of `(*parser).tabularExpr` — which
identifier after `|` selects which parsing method, and which node type that method builds — is
regenerated from parser/parser.go on every run (`Facts.operatorKeywords`, translator
`harness/extract_tmpl.go`).  The parser model's `pOperator` is proved to dispatch exactly like
that table: a keyword of the table yields an operator of the listed node type (so the synonyms
where/filter, sort/order, take/limit build the same node type), every other identifier yields
no operator.  An added, removed or re-routed keyword breaks these theorems.
-/
import PqlModel.Model.Compile
namespace Pql.C07K
set_option linter.unusedSimpArgs false
open Pql

/-- the table as the documentation states it -/
theorem C07_keyword_table :
    Facts.operatorKeywords.map (fun r => (r.1, r.2.2)) =
      [("count", "CountOperator"), ("where", "WhereOperator"), ("filter", "WhereOperator"),
       ("sort", "SortOperator"), ("order", "SortOperator"), ("take", "TakeOperator"), ("limit", "TakeOperator"),
       ("top", "TopOperator"), ("project", "ProjectOperator"), ("extend", "ExtendOperator"),
       ("summarize", "SummarizeOperator"), ("join", "JoinOperator"), ("as", "AsOperator"),
       ("render", "RenderOperator")] := by decide

/-- the node type the table lists for an identifier, if any -/
def nodeTypeOf (v : Bytes) : Option String :=
  (Facts.operatorKeywords.find? fun r => Bytes.ofString r.1 == v).map (·.2.2)

theorem pSummarize_type (c : PCtx) (fuel : Nat) (pipe kw : Span) (ts : List Token) :
    opTypeName (pSummarize c fuel pipe kw ts).val = "SummarizeOperator" := by
  unfold pSummarize
  simp only
  repeat' split
  all_goals rfl

theorem pRender_type (c : PCtx) (fuel : Nat) (pipe kw : Span) (ts : List Token) :
    opTypeName (pRender c fuel pipe kw ts).val = "RenderOperator" := by
  unfold pRender
  simp only
  repeat' split
  all_goals rfl

theorem pJoin_type (c : PCtx) (fuel : Nat) (pipe kw : Span) (ts : List Token) :
    opTypeName (pJoin c (fuel + 1) pipe kw ts).val = "JoinOperator" := by
  unfold pJoin
  simp only
  split
  · rfl
  · split
    · rename_i heq
      repeat' split at heq
      all_goals first | (cases heq; rfl) | (cases heq)
    · rfl
    · repeat' split
      all_goals rfl

theorem nodeTypeOf_none (v : Bytes)
    (h : ∀ kw ∈ Facts.operatorKeywords.map (·.1), v ≠ Bytes.ofString kw) : nodeTypeOf v = none := by
  unfold nodeTypeOf
  rw [Option.map_eq_none_iff, List.find?_eq_none]
  intro r hr
  have := h r.1 (List.mem_map_of_mem hr)
  simp only [beq_iff_eq, Bool.not_eq_true]
  exact fun e => this e.symm |> False.elim |> fun x => x
  
/-- **C07 (operator keywords are the translated Go switch).**  With at least two units of fuel
    (`parse_fuel_sufficient`: the entry points always supply more), `pOperator` on an identifier
    token builds an operator of exactly the node type the regenerated table lists for that
    identifier, and no operator for any other identifier. -/
theorem C07_operator_table (c : PCtx) (fuel : Nat) (pipe : Span) (name : Token) (ts : List Token) :
    (pOperator c (fuel + 2) pipe name ts).map (fun r => opTypeName r.val) = nodeTypeOf name.value := by
  unfold pOperator
  simp only
  generalize name.value = v
  by_cases h0 : v = Bytes.ofString "count"
  · subst h0
    have : nodeTypeOf (Bytes.ofString "count") = some "CountOperator" := by decide
    rw [this]
    simp (config := { decide := true }) only [Option.map_some, Option.some.injEq, ↓reduceIte, Bool.or_true, Bool.true_or, Bool.or_false, Bool.false_or,
      pSummarize_type, pRender_type, pJoin_type]
    try (repeat' split)
    all_goals first | rfl | simp [opTypeName]
  by_cases h1 : v = Bytes.ofString "where"
  · subst h1
    have : nodeTypeOf (Bytes.ofString "where") = some "WhereOperator" := by decide
    rw [this]
    simp (config := { decide := true }) only [Option.map_some, Option.some.injEq, ↓reduceIte, Bool.or_true, Bool.true_or, Bool.or_false, Bool.false_or,
      pSummarize_type, pRender_type, pJoin_type]
    try (repeat' split)
    all_goals first | rfl | simp [opTypeName]
  by_cases h2 : v = Bytes.ofString "filter"
  · subst h2
    have : nodeTypeOf (Bytes.ofString "filter") = some "WhereOperator" := by decide
    rw [this]
    simp (config := { decide := true }) only [Option.map_some, Option.some.injEq, ↓reduceIte, Bool.or_true, Bool.true_or, Bool.or_false, Bool.false_or,
      pSummarize_type, pRender_type, pJoin_type]
    try (repeat' split)
    all_goals first | rfl | simp [opTypeName]
  by_cases h3 : v = Bytes.ofString "sort"
  · subst h3
    have : nodeTypeOf (Bytes.ofString "sort") = some "SortOperator" := by decide
    rw [this]
    simp (config := { decide := true }) only [Option.map_some, Option.some.injEq, ↓reduceIte, Bool.or_true, Bool.true_or, Bool.or_false, Bool.false_or,
      pSummarize_type, pRender_type, pJoin_type]
    try (repeat' split)
    all_goals first | rfl | simp [opTypeName]
  by_cases h4 : v = Bytes.ofString "order"
  · subst h4
    have : nodeTypeOf (Bytes.ofString "order") = some "SortOperator" := by decide
    rw [this]
    simp (config := { decide := true }) only [Option.map_some, Option.some.injEq, ↓reduceIte, Bool.or_true, Bool.true_or, Bool.or_false, Bool.false_or,
      pSummarize_type, pRender_type, pJoin_type]
    try (repeat' split)
    all_goals first | rfl | simp [opTypeName]
  by_cases h5 : v = Bytes.ofString "take"
  · subst h5
    have : nodeTypeOf (Bytes.ofString "take") = some "TakeOperator" := by decide
    rw [this]
    simp (config := { decide := true }) only [Option.map_some, Option.some.injEq, ↓reduceIte, Bool.or_true, Bool.true_or, Bool.or_false, Bool.false_or,
      pSummarize_type, pRender_type, pJoin_type]
    try (repeat' split)
    all_goals first | rfl | simp [opTypeName]
  by_cases h6 : v = Bytes.ofString "limit"
  · subst h6
    have : nodeTypeOf (Bytes.ofString "limit") = some "TakeOperator" := by decide
    rw [this]
    simp (config := { decide := true }) only [Option.map_some, Option.some.injEq, ↓reduceIte, Bool.or_true, Bool.true_or, Bool.or_false, Bool.false_or,
      pSummarize_type, pRender_type, pJoin_type]
    try (repeat' split)
    all_goals first | rfl | simp [opTypeName]
  by_cases h7 : v = Bytes.ofString "top"
  · subst h7
    have : nodeTypeOf (Bytes.ofString "top") = some "TopOperator" := by decide
    rw [this]
    simp (config := { decide := true }) only [Option.map_some, Option.some.injEq, ↓reduceIte, Bool.or_true, Bool.true_or, Bool.or_false, Bool.false_or,
      pSummarize_type, pRender_type, pJoin_type]
    try (repeat' split)
    all_goals first | rfl | simp [opTypeName]
  by_cases h8 : v = Bytes.ofString "project"
  · subst h8
    have : nodeTypeOf (Bytes.ofString "project") = some "ProjectOperator" := by decide
    rw [this]
    simp (config := { decide := true }) only [Option.map_some, Option.some.injEq, ↓reduceIte, Bool.or_true, Bool.true_or, Bool.or_false, Bool.false_or,
      pSummarize_type, pRender_type, pJoin_type]
    try (repeat' split)
    all_goals first | rfl | simp [opTypeName]
  by_cases h9 : v = Bytes.ofString "extend"
  · subst h9
    have : nodeTypeOf (Bytes.ofString "extend") = some "ExtendOperator" := by decide
    rw [this]
    simp (config := { decide := true }) only [Option.map_some, Option.some.injEq, ↓reduceIte, Bool.or_true, Bool.true_or, Bool.or_false, Bool.false_or,
      pSummarize_type, pRender_type, pJoin_type]
    try (repeat' split)
    all_goals first | rfl | simp [opTypeName]
  by_cases h10 : v = Bytes.ofString "summarize"
  · subst h10
    have : nodeTypeOf (Bytes.ofString "summarize") = some "SummarizeOperator" := by decide
    rw [this]
    simp (config := { decide := true }) only [Option.map_some, Option.some.injEq, ↓reduceIte, Bool.or_true, Bool.true_or, Bool.or_false, Bool.false_or,
      pSummarize_type, pRender_type, pJoin_type]
    try (repeat' split)
    all_goals first | rfl | simp [opTypeName]
  by_cases h11 : v = Bytes.ofString "join"
  · subst h11
    have : nodeTypeOf (Bytes.ofString "join") = some "JoinOperator" := by decide
    rw [this]
    simp (config := { decide := true }) only [Option.map_some, Option.some.injEq, ↓reduceIte, Bool.or_true, Bool.true_or, Bool.or_false, Bool.false_or,
      pSummarize_type, pRender_type, pJoin_type]
    try (repeat' split)
    all_goals first | rfl | simp [opTypeName]
  by_cases h12 : v = Bytes.ofString "as"
  · subst h12
    have : nodeTypeOf (Bytes.ofString "as") = some "AsOperator" := by decide
    rw [this]
    simp (config := { decide := true }) only [Option.map_some, Option.some.injEq, ↓reduceIte, Bool.or_true, Bool.true_or, Bool.or_false, Bool.false_or,
      pSummarize_type, pRender_type, pJoin_type]
    try (repeat' split)
    all_goals first | rfl | simp [opTypeName]
  by_cases h13 : v = Bytes.ofString "render"
  · subst h13
    have : nodeTypeOf (Bytes.ofString "render") = some "RenderOperator" := by decide
    rw [this]
    simp (config := { decide := true }) only [Option.map_some, Option.some.injEq, ↓reduceIte, Bool.or_true, Bool.true_or, Bool.or_false, Bool.false_or,
      pSummarize_type, pRender_type, pJoin_type]
    try (repeat' split)
    all_goals first | rfl | simp [opTypeName]
  · have hn : nodeTypeOf v = none := by
      apply nodeTypeOf_none
      intro kw hkw
      simp only [Facts.operatorKeywords, List.map_cons, List.map_nil, List.mem_cons, List.not_mem_nil, or_false] at hkw
      rcases hkw with rfl | rfl | rfl | rfl | rfl | rfl | rfl | rfl | rfl | rfl | rfl | rfl | rfl | rfl <;> assumption
    rw [hn]
    simp [h0, h1, h2, h3, h4, h5, h6, h7, h8, h9, h10, h11, h12, h13]

end Pql.C07K
