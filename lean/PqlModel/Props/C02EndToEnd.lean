/-
Property C02 / C03 / C05 composed — END TO END: the SQL text the compiler model emits for a pipeline,
read back by the reference SQL reader (`CompileOracle.readSql` = `Sql.lex .standard`, then
`Sql.parseStatement`) and evaluated by the reference evaluator (`Sql.evalStatement`), yields on every
rectangular database exactly the table the specification interpreter `Rel.interp` assigns to the pipeline.

    bytes ──Sql.lex──▶ toksOf cs            C05_lexRender_statement   (Props/C05LexStatement.lean)
          ──parseStatement──▶ st ≈ want     C05_parse_statement       (Props/C05ParseStatement.lean)
    evalStatement (normStatement st)
          = evalStatement want              evalStatement_of_statementEq, intended_noBang   (NEW: Lemmas/E2E*.lean)
          = Rel.interp src db t             C03_intended_semantics    (Props/C03Full.lean)

The reading of the conclusion.  `st ≈ want` is the oracle's `statementEq`: equality modulo `normS`
(function names lower-cased, `!=` read as `<>`).  The reference evaluator is invariant under the first
(`E2E.evalSelect_normSelF`) but NOT under the second (`E2E.evalStatement_not_invariant_under_statementEq`),
so the theorems evaluate the NORMAL FORM `normStatement st` of the statement read back — the very
object `statementEq` compares.
-/
import PqlModel.Lemmas.E2EIntended
import PqlModel.Lemmas.E2EOK
import PqlModel.Lemmas.E2EProgram
import PqlModel.Props.C05LexStatement
import PqlModel.Props.C05ParseStatement
import PqlModel.Props.C03Full
import PqlModel.Props.C06Subst
namespace Pql.E2E
open Pql Sql CompileOracle Intended JoinFull

theorem readSql_of_lex {sql : Bytes} {ts : List STok} (h : Sql.lex .standard sql = some ts) :
    readSql sql = parseStatement ts := by
  simp only [readSql, h, bind, Option.bind]

/-- **C02 (end to end, tree level), with the intermediate statement.**  For every source text `src`
    and every tabular expression `t` that `compileChunks` accepts (no parameters), under the side
    conditions of the three arrows: the emitted bytes are read back as a statement `st`; `st` is the
    intended statement `want` up to `normS`; and on every rectangular database the normal form of `st`
    — and `want` itself — evaluate to `Rel.interp src db t`. -/
theorem C02_end_to_end_tree_detail (src : Bytes) (t : Tabular) (cs : List Chunk)
    (hc : compileChunks src [] [.tabular t] = .ok cs)
    (hok : C05.tabularOK t = true) (hnames : namesOk t = true) (hops : tabOpsOk t = true) :
    ∃ st want, readSql (renderChunks cs) = some st ∧ intended src [.tabular t] = some want ∧
      statementEq st want = true ∧
      ∀ db, RectDB db →
        evalStatement db (normStatement st) = Rel.interp src db t ∧ evalStatement db want = Rel.interp src db t := by
  have hl := C05.C05_lexRender_statement src t cs (tabularOK_lexOK t hok) hc
  obtain ⟨st, want, hp, hi, heq⟩ := C05.C05_parse_statement src t cs hok hc
  refine ⟨st, want, by rw [readSql_of_lex hl, hp], hi, heq, fun db hdb => ?_⟩
  have hsem := C03.C03_intended_semantics src db t want hi hnames hops hdb
  exact ⟨by rw [evalStatement_of_statementEq db heq (intended_noBang src _ want hi), hsem], hsem⟩

/-- **C02 (end to end, tree level).**  The SQL text emitted for `t`, read back by the reference reader
    and evaluated (in normal form) by the reference evaluator, is `Rel.interp src db t` on every
    rectangular database. -/
theorem C02_end_to_end_tree (src : Bytes) (t : Tabular) (cs : List Chunk)
    (hc : compileChunks src [] [.tabular t] = .ok cs)
    (hok : C05.tabularOK t = true) (hnames : namesOk t = true) (hops : tabOpsOk t = true) :
    ∃ st, readSql (renderChunks cs) = some st ∧
      ∀ db, RectDB db → evalStatement db (normStatement st) = Rel.interp src db t := by
  obtain ⟨st, _, h1, _, _, h2⟩ := C02_end_to_end_tree_detail src t cs hc hok hnames hops
  exact ⟨st, h1, fun db hdb => (h2 db hdb).1⟩

/-- **C02 (end to end, tree level), without normalisation — conditional.**  If the statement read back
    contains no `!=` operator (`noBangStatement st`, a decidable check on the reading; the compiler writes
    `<>`, never `!=`, but this is not proved here: see the report), the statement itself evaluates to
    `Rel.interp src db t`. -/
theorem C02_end_to_end_tree_raw (src : Bytes) (t : Tabular) (cs : List Chunk)
    (hc : compileChunks src [] [.tabular t] = .ok cs)
    (hok : C05.tabularOK t = true) (hnames : namesOk t = true) (hops : tabOpsOk t = true) :
    ∃ st, readSql (renderChunks cs) = some st ∧
      (noBangStatement st = true → ∀ db, RectDB db → evalStatement db st = Rel.interp src db t) := by
  obtain ⟨st, h1, h2⟩ := C02_end_to_end_tree src t cs hc hok hnames hops
  exact ⟨st, h1, fun hnb db hdb => by rw [← evalStatement_normStatement db st hnb]; exact h2 db hdb⟩

/-! ### source level (no lets) -/

/-- **C02 (end to end, source bytes).**  If `Compile` (the byte-level model `compile`, no parameters)
    succeeds on `src` with the SQL text `sql`, and `src` parses to the single query `t` satisfying the
    side conditions, then `sql` read back and evaluated is `Rel.interp src db t`. -/
theorem C02_end_to_end_source (src sql : Bytes) (t : Tabular)
    (h : compile [] src = .ok sql) (hp : (parse src).1 = [.tabular t])
    (hok : C05.tabularOK t = true) (hnames : namesOk t = true) (hops : tabOpsOk t = true) :
    ∃ st, readSql sql = some st ∧
      ∀ db, RectDB db → evalStatement db (normStatement st) = Rel.interp src db t := by
  obtain ⟨cs, hcs, rfl, _⟩ := C05.C05_lexRender_compile src sql (by rw [hp]; exact tabularOK_lexOK t hok) h
  rw [hp] at hcs
  exact C02_end_to_end_tree src t cs hcs hok hnames hops

/-! ### programs with `let` statements -/

/-- the statement loop got through the lets of a program that compiles -/
theorem lets_run_of_compile (src : Bytes) (lets : List Stmt) (t : Tabular) (cs : List Chunk) (hl : IsLets lets)
    (hc : compileChunks src [] (lets ++ [.tabular t]) = .ok cs) :
    ∃ sc q, compileStmts src lets (paramScope []) none = .ok (sc, q) := by
  rw [C14.compileChunks_eq, C06.compileStmts_lets_then_query src t lets hl] at hc
  cases h : compileStmts src lets (paramScope []) none with
  | error e => rw [h] at hc; cases hc
  | ok r => exact ⟨r.1, r.2, rfl⟩

/-- `intended` of a program is `intended` of its resolution -/
theorem intended_of_resolveLets (src : Bytes) (stmts : List Stmt) (t' : Tabular)
    (h : resolveLets stmts [] = some t') : intended src stmts = intended src [.tabular t'] := by
  simp only [intended, h, resolveLets, C05.substTabular_nil]

/-- **C02 (end to end, programs with lets) — PARTIAL.**

    Full statement (NOT proved): for a program `lets ++ [query t]` that compiles to `cs`, with the side
    conditions below on the RESOLVED query `t' = substTabular (letsEnv lets []) t`,
    `∃ st, readSql (renderChunks cs) = some st ∧ ∀ db, RectDB db → evalStatement db (normStatement st) = Rel.interp src db t'`.

    Proved: (1) `resolveLets` gives `t'`, the program's meaning `Rel.interpProgram` is `Rel.interp … t'`, and
    `intended src (lets ++ [t])` is the intended statement `want` of `t'`; (2) the emitted text LEXES to the chunk tokens (C05, lexical half, whole programs);
    (3) the resolved program `[t']` compiles too, to chunks `cs'` that are `cs` up to parentheses (C06);
    (4) the end-to-end statement for `cs'`: read back as `st ≈ want`, and `normStatement st` and `want`
    evaluate to `Rel.interp src db t'`.

    Missing: that `parseStatement (toksOf cs)` is `parseStatement (toksOf cs')` — the SQL reader reads
    through the parentheses in which `cs` and `cs'` differ (an atomic let value is stored bare and
    substituted in parentheses).  `EqUpToParens` is a relation on TEXT (it does not know which parentheses
    are redundant for the grammar), so this needs C05_parse_statement redone under a let-built scope
    (Lemmas/ParseStmt*.lean with `exprP_of_ok` replaced by `C06_parse_roundtrip_scoped`). -/
theorem C02_end_to_end_program_partial (src : Bytes) (lets : List Stmt) (t : Tabular) (cs : List Chunk)
    (hc : compileChunks src [] (lets ++ [.tabular t]) = .ok cs)
    (hl : IsLets lets) (hjoin : LetsJoinSafe .join lets) (hT : TrueFree (letsEnv lets []))
    (hN : tabNamed t) (hlexP : stmtsLexOK (lets ++ [.tabular t]) = true)
    (hok : C05.tabularOK (substTabular (letsEnv lets []) t) = true)
    (hnames : namesOk (substTabular (letsEnv lets []) t) = true)
    (hops : tabOpsOk (substTabular (letsEnv lets []) t) = true) :
    resolveLets (lets ++ [.tabular t]) [] = some (substTabular (letsEnv lets []) t) ∧
    (∀ db, Rel.interpProgram src db (lets ++ [.tabular t]) =
      some (Rel.interp src db (substTabular (letsEnv lets []) t))) ∧
    Sql.lex .standard (renderChunks cs) = some (toksOf cs) ∧
    ∃ cs' st want, compileChunks src [] [.tabular (substTabular (letsEnv lets []) t)] = .ok cs' ∧
      EqUpToParens cs cs' ∧
      readSql (renderChunks cs') = some st ∧ intended src (lets ++ [.tabular t]) = some want ∧
      statementEq st want = true ∧
      ∀ db, RectDB db →
        evalStatement db (normStatement st) = Rel.interp src db (substTabular (letsEnv lets []) t) ∧
        evalStatement db want = Rel.interp src db (substTabular (letsEnv lets []) t) := by
  obtain ⟨sc, q, hrun⟩ := lets_run_of_compile src lets t cs hl hc
  obtain ⟨t', hres, hrel⟩ := C06.C06_subst_program src [] lets t hl hjoin hT hN sc q hrun
  have hres' := C06.C06_resolveLets_env lets t hl (C06.lets_named_of_run src lets hl _ sc q hrun)
  rw [hres'] at hres
  cases hres
  rw [hc] at hrel
  rcases hrel.cases_on with ⟨a, cs', ha, hcs', hpar⟩ | ⟨e, he, _⟩
  · cases ha
    obtain ⟨st, want, h1, h2, h3, h4⟩ := C02_end_to_end_tree_detail src _ cs' hcs' hok hnames hops
    exact ⟨hres', fun db => interpProgram_lets src db lets t _ hl hN hres', C05.C05_lexRender_program src _ cs hlexP hc, cs', st, want, hcs', hpar, h1,
      by rw [intended_of_resolveLets src _ _ hres']; exact h2, h3, h4⟩
  · cases he

/-! ### the same as one function -/

/-- compile the pipeline, read the text back, evaluate the normal form of what was read -/
def endToEnd (src : Bytes) (t : Tabular) (db : DB) : Option Table :=
  match compileChunks src [] [.tabular t] with
  | .ok cs => (readSql (renderChunks cs)).map fun st => evalStatement db (normStatement st)
  | .error _ => none

/-- … without normalisation (what the theorems do NOT speak about; equal on the examples below) -/
def endToEndRaw (src : Bytes) (t : Tabular) (db : DB) : Option Table :=
  match compileChunks src [] [.tabular t] with
  | .ok cs => (readSql (renderChunks cs)).map (evalStatement db)
  | .error _ => none

/-- **C02 (end to end), functional form**: whenever the pipeline compiles, `endToEnd` is the
    specification interpreter. -/
theorem C02_end_to_end (src : Bytes) (t : Tabular) (db : DB)
    (hc : (compileChunks src [] [.tabular t]).toBool = true)
    (hok : C05.tabularOK t = true) (hnames : namesOk t = true) (hops : tabOpsOk t = true) (hdb : RectDB db) :
    endToEnd src t db = some (Rel.interp src db t) := by
  unfold endToEnd
  cases hcs : compileChunks src [] [.tabular t] with
  | error e => rw [hcs] at hc; cases hc
  | ok cs =>
    obtain ⟨st, h1, h2⟩ := C02_end_to_end_tree src t cs hcs hok hnames hops
    simp only [h1, Option.map_some, h2 db hdb]

/-! ### non-vacuity -/
namespace Ex
open C05

/-- `T | where x > 1 | extend y = x + 1 | join kind=leftouter (U | project k) on k
      | summarize n = count() by k | sort by n desc | take 2` as a tree (spans irrelevant: all columns named) -/
def exQ : Tabular :=
  .mk (some (idn "T"))
    (.cons (.where_ .zero .zero (.binary (col "x") .zero .gt (numL "1")))
    (.cons (.extend .zero .zero [⟨some (idn "y"), .zero, .binary (col "x") .zero .plus (numL "1")⟩])
    (.cons (.join .zero .zero .zero .zero (some (idn "leftouter")) .zero
        (.mk (some (idn "U")) (.cons (.project .zero .zero [⟨some (idn "k"), .zero, .nil⟩]) .nil)) .zero .zero
        (.cons (col "k") .nil))
    (.cons (.summarize .zero .zero [⟨some (idn "n"), .zero, .call (idn "count") .zero .nil .zero⟩] .zero
        [⟨some (idn "k"), .zero, col "k"⟩])
    (.cons (.sort .zero .zero [⟨col "n", false, .zero, false, .zero⟩])
    (.cons (.take .zero .zero (numL "2")) .nil))))))

def b (s : String) : Bytes := Bytes.ofString s
/-- T(x, k), U(k, b) -/
def exDB : DB :=
  [(b "T", ⟨[b "x", b "k"], [[.int 1, .int 1], [.int 2, .int 1], [.int 4, .int 1], [.int 3, .int 2], [.int 5, .int 3]]⟩),
   (b "U", ⟨[b "k", b "b"], [[.int 1, .int 10], [.int 2, .int 20]]⟩)]
/-- the result: k = 1 twice, k = 2 once (k = 3 cut off by `take 2`) -/
def exResult : Table := ⟨[b "k", b "n"], [[.int 1, .int 2], [.int 2, .int 1]]⟩

/-- all hypotheses of `C02_end_to_end_tree` / `C02_end_to_end` hold of the example -/
theorem exQ_hyps : (compileChunks [] [] [.tabular exQ]).toBool = true ∧ tabularOK exQ = true ∧
    namesOk exQ = true ∧ tabOpsOk exQ = true ∧ RectDB exDB := by decide

/-- the theorem instantiated … -/
theorem exQ_end_to_end : endToEnd [] exQ exDB = some (Rel.interp [] exDB exQ) :=
  C02_end_to_end [] exQ exDB exQ_hyps.1 exQ_hyps.2.1 exQ_hyps.2.2.1 exQ_hyps.2.2.2.1 exQ_hyps.2.2.2.2

set_option maxRecDepth 100000 in
/-- … and both sides computed (kernel evaluation — `decide +kernel`: the SQL lexer is defined by well-founded recursion —, no `#eval`): the emitted text has 5 CTEs, and read back
    and evaluated — with or without normalisation — it is the table the interpreter gives -/
theorem exQ_computed :
    Rel.interp [] exDB exQ = exResult ∧ endToEnd [] exQ exDB = some exResult ∧
    endToEndRaw [] exQ exDB = some exResult ∧
    (match compileChunks [] [] [.tabular exQ] with
     | .ok cs => (readSql (renderChunks cs)).map (·.ctes.length)
     | .error _ => none) = some 5 := by
  refine ⟨by decide, by decide +kernel, by decide +kernel, by decide +kernel⟩

/-- source level: the same pipeline as PQL text -/
def exSrc : Bytes := Bytes.ofString
  "T | where x > 1 | extend y = x + 1 | join kind=leftouter (U | project k) on k | summarize n = count() by k | sort by n desc | take 2"

def srcHyps (src : Bytes) : Bool :=
  (match compile [] src with | .ok _ => true | _ => false) &&
  match (parse src).1 with
  | [.tabular t] => tabularOK t && namesOk t && tabOpsOk t
  | _ => false

/-- the hypotheses of `C02_end_to_end_source` hold of the text (`decide +kernel`: the scanner is defined
    by well-founded recursion, which only the kernel unfolds; no axiom beyond the three standard ones) -/
theorem exSrc_hyps : srcHyps exSrc = true := by decide +kernel

/-- `C02_end_to_end_source` instantiated -/
theorem exSrc_end_to_end : ∃ sql t st, compile [] exSrc = .ok sql ∧ (parse exSrc).1 = [.tabular t] ∧
    readSql sql = some st ∧ ∀ db, RectDB db → evalStatement db (normStatement st) = Rel.interp exSrc db t := by
  have h := exSrc_hyps
  unfold srcHyps at h
  cases hc : compile [] exSrc with
  | ok sql =>
    rw [hc] at h
    cases hp : (parse exSrc).1 with
    | nil => rw [hp] at h; simp at h
    | cons s rest =>
      rw [hp] at h
      cases s with
      | let_ => simp at h
      | tabular t =>
        cases rest with
        | cons _ _ => simp at h
        | nil =>
          simp only [Bool.true_and, Bool.and_eq_true] at h
          obtain ⟨st, h1, h2⟩ := C02_end_to_end_source exSrc sql t hc hp h.1.1 h.1.2 h.2
          exact ⟨sql, t, st, rfl, rfl, h1, h2⟩
  | error => rw [hc] at h; simp at h
  | panic => rw [hc] at h; simp at h

/-- `let n = 1; T | where x > n | sort by x desc | take 2`: the hypotheses of
    `C02_end_to_end_program_partial` hold (the resolved query is `T | where x > (1) | …`) -/
def exLets : List Stmt := [.let_ .zero (some (idn "n")) .zero (numL "1")]
def exLetQ : Tabular :=
  .mk (some (idn "T"))
    (.cons (.where_ .zero .zero (.binary (col "x") .zero .gt (col "n")))
    (.cons (.sort .zero .zero [⟨col "x", false, .zero, false, .zero⟩])
    (.cons (.take .zero .zero (numL "2")) .nil)))

theorem exLet_program : ∃ cs cs' st, compileChunks [] [] (exLets ++ [.tabular exLetQ]) = .ok cs ∧
    compileChunks [] [] [.tabular (substTabular (letsEnv exLets []) exLetQ)] = .ok cs' ∧ EqUpToParens cs cs' ∧
    Sql.lex .standard (renderChunks cs) = some (toksOf cs) ∧ readSql (renderChunks cs') = some st ∧
    ∀ db, RectDB db →
      evalStatement db (normStatement st) = Rel.interp [] db (substTabular (letsEnv exLets []) exLetQ) := by
  have hc : ∃ cs, compileChunks [] [] (exLets ++ [.tabular exLetQ]) = .ok cs := ⟨_, rfl⟩
  obtain ⟨cs, hc⟩ := hc
  obtain ⟨_, _, hlex, cs', st, want, h1, h2, h3, _, _, h6⟩ :=
    C02_end_to_end_program_partial [] exLets exLetQ cs hc
      (by intro s hs; simp only [exLets, List.mem_singleton] at hs; exact ⟨_, _, _, _, hs⟩)
      (by
        intro s hs kw n a x hx _
        simp only [exLets, List.mem_singleton] at hs
        rw [hs] at hx
        cases hx
        refine ⟨by decide, by decide, ?_, ?_⟩ <;> rfl)
      rfl ⟨trivial, trivial, trivial, trivial⟩ (by decide) (by decide) (by decide) (by decide)
  exact ⟨cs, cs', st, hc, h1, h2, hlex, h3, fun db hdb => (h6 db hdb).1⟩

end Ex

/-! ### every hypothesis is needed (end-to-end counterexamples)

* compilation succeeds (`hc`) — defines `cs`; not a side condition.
* `tabularOK`: `tabularOK_needed` below (expression level: `C05.C05_counterexample_untranslatable`,
  `…_empty_sort`, `…_anonymous_column`; the `lexOK` part: `C05.C05_lexOK_needed`; the `shapeOK` part:
  Props/C01Syntactic.lean).
* `namesOk` (name capture, finding K3): `namesOk_needed` (all parts: `C03.Cex.C03_needs_namesOk_*`).
* `tabOpsOk` (aggregates outside `summarize`; join aliases in a sort directly after a join):
  `tabOpsOk_needed` (others: `C02.Cex.C02_*_differs`, `C03.Cex.C03_join_sort_needs_aliasFree`).
* `RectDB`: `rectDB_needed` (= `C03.Cex.C03_join_sort_needs_rect`, end to end).
* evaluating the NORMAL FORM: `E2E.evalStatement_not_invariant_under_statementEq`. -/
namespace Cex
open C05 C03.Ex C03.Cex

/-- `T | project` (no columns) compiles to `SELECT  FROM "T";`, which the reader rejects -/
theorem tabularOK_needed :
    tabularOK cexProj = false ∧ namesOk cexProj = true ∧ tabOpsOk cexProj = true ∧
    (compileChunks [] [] [.tabular cexProj]).toBool = true ∧ endToEnd [] cexProj exDB = none := by decide +kernel

/-- `T | as U | join (U) on k`: the CTE named `U` captures the right-hand table `U` -/
def pNames : Tabular :=
  .mk (some (idt "T")) (.cons (.as_ .zero .zero (some (idt "U"))) (.cons (joinOp none tabU) .nil))

set_option maxRecDepth 100000 in
theorem namesOk_needed :
    tabularOK pNames = true ∧ namesOk pNames = false ∧ tabOpsOk pNames = true ∧ RectDB exDB ∧
    (endToEnd [] pNames exDB).isSome = true ∧ endToEnd [] pNames exDB ≠ some (Rel.interp [] exDB pNames) := by
  refine ⟨by decide, by decide, by decide, by decide, by decide +kernel, by decide +kernel⟩

/-- `T | project c = count()`: SQL aggregates (one row: 4), the pipeline reading does not (four rows: 0) -/
def pAgg : Tabular :=
  .mk (some (idt "T")) (.cons (.project .zero .zero [⟨some (idt "c"), .zero, .call (idt "count") .zero .nil .zero⟩]) .nil)

set_option maxRecDepth 100000 in
theorem tabOpsOk_needed :
    tabularOK pAgg = true ∧ namesOk pAgg = true ∧ tabOpsOk pAgg = false ∧ RectDB exDB ∧
    endToEnd [] pAgg exDB = some ⟨[bs "c"], [[.int 4]]⟩ ∧
    Rel.interp [] exDB pAgg = ⟨[bs "c"], [[.int 0], [.int 0], [.int 0], [.int 0]]⟩ := by
  refine ⟨by decide, by decide, by decide, by decide, by decide +kernel, by decide +kernel⟩

set_option maxRecDepth 100000 in
/-- `T | join (U) on k | sort by c asc` on a database with a short row -/
theorem rectDB_needed :
    tabularOK progSort = true ∧ namesOk progSort = true ∧ tabOpsOk progSort = true ∧ ¬ RectDB badDB ∧
    (endToEnd [] progSort badDB).isSome = true ∧
    endToEnd [] progSort badDB ≠ some (Rel.interp [] badDB progSort) := by
  refine ⟨by decide, by decide, by decide, by decide, by decide +kernel, by decide +kernel⟩

end Cex

end Pql.E2E
