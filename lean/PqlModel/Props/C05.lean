/-
Property C05 — successful output is exactly one well-formed SQL statement.

Proved here about the model compiler: the output ends in the one statement terminator, and
the generated subquery names are pairwise distinct (`__subquery{i}` is injective in `i`) and
each is the index at which the subquery is appended.  The reading of the whole output by the
SQL reader (`parseStatement (lex out)` succeeds, every table is a source table or an earlier
CTE, no CTE unused, no placeholder) is checked by the oracle on every compiled case.
-/
import PqlModel.Props.C13
import PqlModel.Props.C09b
namespace Pql.C05
open Pql

/-- **C05 (terminator).** A successful output ends with `;` (shared with C13). -/
theorem C05_ends_with_semicolon (params : List (Bytes × Bytes)) (src sql : Bytes)
    (h : compile params src = .ok sql) : sql.getLast? = some 59 := (C13.C13_either params src sql h).2

/-- **C05 (generated names are unique).** `__subquery{i}` is injective in `i`; together with
    `chainSubquery` naming a new subquery by the current length of the list, two generated
    names in one statement never coincide. -/
theorem C05_subqueryName_injective (i j : Nat) (h : subqueryName i = subqueryName j) : i = j := by
  unfold subqueryName at h
  have h' := List.append_cancel_left h
  have := congrArg C09.natOfDigits h'
  simpa [C09.natOfDigits_natToDec] using this

theorem C05_chain_names_by_index (dst : List Subquery) (k : Nat) (src : Option Ident) :
    (chainSubquery dst k src).name = subqueryName dst.length := rfl

end Pql.C05
