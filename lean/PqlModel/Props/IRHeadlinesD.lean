/-
THE HEADLINE PROPERTIES ON THE INTERPRETATIONS OF THE TRANSLATED GO CODE — part D: the lexer, statement
splitting, spans, Walk (C09, C15, C10, C11).  See Props/IRHeadlinesA.lean / C.lean for the conventions.
-/
import PqlModel.Lemmas.IRHeadlinesAux
import PqlModel.Props.C09
import PqlModel.Props.C09b
import PqlModel.Props.C09Gaps
import PqlModel.Props.C10Extent
import PqlModel.Props.C10Failed
import PqlModel.Props.C10Linecol
import PqlModel.Props.C10Compile
import PqlModel.Props.C11b
import PqlModel.Props.C15
import PqlModel.Props.C15Parse
namespace Pql.IRHead
open Pql Pql.Grammar
set_option linter.unusedSimpArgs false

local notation "ParseIR(" src ")" => OpIR.runParse (List.length src) (scan src) (OpIR.bodyOf "Parse")

/-! ## C09 — the scanner -/

/-- **C09 (one step = longest lexeme of the declarative grammar) on the translated switch of `Scan`.**
    At every non-empty suffix, whatever step the interpretation of the regenerated 21-case switch returns is
    the piece the regular-expression tokenizer with maximal munch prescribes (same width, trivia vs token,
    kind and value); it consumes at least one byte and at most what is left. -/
theorem C09_switch_ir (c : UInt8) (rest : Bytes) (st : Step) (h : Dispatch.interp (c :: rest) = some st) :
    stepOfPiece (LexSpec.pieceAt (c :: rest)) = st ∧ 1 ≤ st.width ∧ st.width ≤ (c :: rest).length := by
  rw [Dispatch.C09_dispatch_interp] at h
  injection h with h
  subst h
  exact ⟨C09.C09_refines_step c rest, scanOne_width_pos c rest, scanOne_width_le _⟩

/-- the switch has a meaning on every byte string (valid UTF-8 or not) -/
theorem C09_switch_total (s : Bytes) : ∃ st, Dispatch.interp s = some st := ⟨_, Dispatch.C09_dispatch_interp s⟩

/-- **C09 on the loop around the translated switch.**  For every byte string (valid UTF-8 or not) the loop
    returns tokens (never `none`: the switch always has a meaning and makes progress, `len + 1` iterations
    suffice), and whatever it returns: (a) is exactly the token list of the reference tokenizer (kinds,
    spans, values); (b) the tokens are non-empty, inside the source, in source order, non-overlapping;
    (c) before the first, between two consecutive and after the last token there is only white space and
    `//` comments; (d) rescanning a token's text gives that token. -/
theorem C09_scan_ir (s : Bytes) :
    (∃ ts, scanIR s = some ts) ∧
    ∀ ts, scanIR s = some ts →
      ts = LexSpec.tokens s ∧
      C09.Ordered 0 s.length ts ∧
      ((ts = [] → C09.AllTrivia s) ∧
       (∀ t tl, ts = t :: tl → C09.AllTrivia (s.take t.start)) ∧
       (∀ pre t1 t2 post, ts = pre ++ t1 :: t2 :: post → C09.AllTrivia ((s.drop t1.stop).take (t2.start - t1.stop))) ∧
       (∀ pre t, ts = pre ++ [t] → C09.AllTrivia (s.drop t.stop))) ∧
      (∀ t ∈ ts, ∃ ts', scanIR ((s.drop t.start).take (t.stop - t.start)) = some ts' ∧
        ts' = [⟨t.kind, 0, t.stop - t.start, t.value⟩]) := by
  refine ⟨⟨_, scanIR_eq s⟩, fun ts h => ?_⟩
  rw [scanIR_eq] at h
  injection h with h
  subst h
  exact ⟨C09.C09_refines s, C09.C09_partition s, C09.C09_gaps_trivia s,
    fun t ht => ⟨_, scanIR_eq _, C09.C09_rescan_any s t ht⟩⟩

/-- **C09 (numbers keep their value) on the translated `numberOrDot`.**  At a position where the remaining
    bytes start with a digit or '.' (where the switch of `Scan` hands over to it,
    `NoPanic.select_numberOrDot`): the interpretation of the regenerated `numberOrDot` — `numberExponent`,
    `normalizeNumberValue`, the cursor and span helpers interpreted from their own bodies — returns
    normally; and if what it returns is a NUMBER token with value `v` over `[a, b)`, then it starts at the
    cursor, the cursor is left after it, the source spelling is a well-formed literal and the decimal
    spelling `v` denotes exactly the same rational number; an integer token reads back as the source's
    number. -/
theorem C09_number_value_ir (lib : LexIR.Lib) (pre : Bytes) (c : UInt8) (rest : Bytes) (l : Nat)
    (hc : (isDigit c || c == 46) = true) :
    (∃ r, LexIR.numFn lib ((c :: rest).length + 1) "scanner.numberOrDot" [.scanner] ⟨pre ++ c :: rest, pre.length, l⟩ = .ok r) ∧
    ∀ (a b : Nat) (v : Bytes) (h' : LexIR.Heap),
      LexIR.numFn lib ((c :: rest).length + 1) "scanner.numberOrDot" [.scanner] ⟨pre ++ c :: rest, pre.length, l⟩ =
        .ok ([.tok .number a b v], h') →
      a = pre.length ∧ h'.pos = b ∧
      (∃ q : Rat, C09.spellingValue ((c :: rest).take (b - a)) = some q ∧ C09.decValue v = some q) ∧
      (C09.isFloatValue v = false →
        C09.allDigits v = true ∧ C09.spellingValue ((c :: rest).take (b - a)) = some (C09.natOfDigits v : Rat)) := by
  obtain ⟨l', msg, he⟩ := LexIR.C09_numberOrDot_ir lib ((c :: rest).length + 1) pre (c :: rest) l (Nat.lt_succ_self _)
    (by intro c' rest' h; injection h with h1 _; subst h1; exact hc)
  refine ⟨⟨_, he⟩, fun a b v h' hr => ?_⟩
  rw [he] at hr
  simp only [LexIR.lexTok, Except.ok.injEq, Prod.mk.injEq, List.cons.injEq, LexIR.Val.tok.injEq, and_true] at hr
  obtain ⟨⟨hk, ha, hb, hv⟩, hh⟩ := hr
  have hv' : (scanNumberOrDot (c :: rest)).value = v := by
    rw [hk] at hv
    simpa using hv
  have hw : (scanNumberOrDot (c :: rest)).width = b - a := by omega
  have hL : scanNumberOrDot (c :: rest) = ⟨.number, v, b - a⟩ := by
    cases hx : scanNumberOrDot (c :: rest) with
    | mk k v0 w0 =>
      rw [hx] at hk hv' hw
      simp only at hk hv' hw
      rw [hk, hv', hw]
  refine ⟨ha.symm, by rw [← hh]; simpa using hb, C09.C09_number_value c rest v _ hc hL, fun hf => ?_⟩
  obtain ⟨_, _, h3⟩ := C09.C09_accessors c rest v _ hc hL
  exact ⟨(h3 hf).1, (h3 hf).2.1⟩

/-- non-vacuity: the hex literal of "ab 0x1F+" — the interpretation returns a number token -/
theorem C09_number_value_ir_nonvacuous :
    ∃ r, LexIR.numFn lexLib 6 "scanner.numberOrDot" [.scanner] ⟨Bytes.ofString "ab " ++ 48 :: Bytes.ofString "x1F+", 3, 0⟩ = .ok r :=
  (C09_number_value_ir lexLib (Bytes.ofString "ab ") 48 (Bytes.ofString "x1F+") 0 (by decide)).1

/-- **C09 on translated code.** -/
theorem C09_on_translated_code :
    (∀ (c : UInt8) (rest : Bytes) (st : Step), Dispatch.interp (c :: rest) = some st →
      stepOfPiece (LexSpec.pieceAt (c :: rest)) = st ∧ 1 ≤ st.width ∧ st.width ≤ (c :: rest).length) ∧
    (∀ s : Bytes, ∃ ts, scanIR s = some ts ∧ ts = LexSpec.tokens s ∧ C09.Ordered 0 s.length ts) ∧
    scanFn = scan ∧
    (∀ (lib : LexIR.Lib) (pre : Bytes) (c : UInt8) (rest : Bytes) (l a b : Nat) (v : Bytes) (h' : LexIR.Heap),
      (isDigit c || c == 46) = true →
      LexIR.numFn lib ((c :: rest).length + 1) "scanner.numberOrDot" [.scanner] ⟨pre ++ c :: rest, pre.length, l⟩ =
        .ok ([.tok .number a b v], h') →
      ∃ q : Rat, C09.spellingValue ((c :: rest).take (b - a)) = some q ∧ C09.decValue v = some q) :=
  ⟨C09_switch_ir,
   fun s => ⟨_, scanIR_eq s, ((C09_scan_ir s).2 _ (scanIR_eq s)).1, ((C09_scan_ir s).2 _ (scanIR_eq s)).2.1⟩,
   scanFn_eq,
   fun lib pre c rest l a b v h' hc hr => ((C09_number_value_ir lib pre c rest l hc).2 a b v h' hr).2.2.1⟩

/-! ## C15 — statement splitting -/

/-- **C15 (SplitStatements) on the translated `SplitStatements`**, `Scan` being the model's scanner (or the
    loop around the interpreted switch: `lexLib_scan`).  For every byte string the interpretation of the
    regenerated body returns normally, and whatever `[]string` it returns: the heap is unchanged; joining
    the pieces with `;` restores the source byte for byte; there is one more piece than semicolon tokens;
    no piece, scanned on its own, contains a semicolon token; the scan of the whole is the scans of the
    pieces, shifted, with the semicolon tokens between them; each piece is the text of the source at its
    offset and its tokens inside the whole are its own tokens, shifted. -/
theorem C15_split_headlines_ir (lib : LexIR.Lib) (hs : lib.scan = scan) (src : Bytes) (h : LexIR.Heap) :
    (∃ r, LexIR.interpSplit lib [.str src] h = .ok r) ∧
    ∀ (ps : List Bytes) (h' : LexIR.Heap), LexIR.interpSplit lib [.str src] h = .ok ([.strs ps], h') →
      h' = h ∧
      C15.intercalateSemi ps = src ∧
      ps.length = ((scan src).filter (·.kind = .semi)).length + 1 ∧
      (∀ p ∈ ps, ∀ t ∈ scan p, t.kind ≠ .semi) ∧
      scan src = C15.rejoinTokens 0 ps ∧
      (∀ po ∈ ps.zip (pieceStarts src),
        (src.drop po.2).take po.1.length = po.1 ∧
        tokensWithin (scan src) po.2 po.1.length = (scan po.1).map (Token.shift po.2)) := by
  refine ⟨⟨_, LexIR.C15_split_ir lib hs src h⟩, fun ps h' hr => ?_⟩
  have := (split_ir_iff lib hs src h _).1 hr
  simp only [Prod.mk.injEq, List.cons.injEq, LexIR.Val.strs.injEq, and_true] at this
  obtain ⟨rfl, rfl⟩ := this
  exact ⟨rfl, C15.C15_join src, C15.C15_count src, C15.C15_no_semi_in_piece src, C15.C15_piece_tokens src,
    C15.C15_piece_tokens_at src⟩

/-- **C15 (Parse and the pieces) on the translated `SplitStatements` and `Parse`.**  With `ps` the pieces
    the interpretation of `SplitStatements` returns: the interpretation of `Parse` on the whole source
    succeeds iff it succeeds on every piece; a piece yields at most one statement; and on success the number
    of statements is the number of pieces with at least one token. -/
theorem C15_parse_pieces_ir (lib : LexIR.Lib) (hs : lib.scan = scan) (src : Bytes) (h h' : LexIR.Heap)
    (ps : List Bytes) (hr : LexIR.interpSplit lib [.str src] h = .ok ([.strs ps], h')) :
    ∃ stmts errs, ParseIR(src) = .ok (stmts, errs) ∧
      (errs = [] ↔ ∀ p ∈ ps, ∃ sp, ParseIR(p) = .ok (sp, [])) ∧
      (∀ p ∈ ps, ∃ sp ep, ParseIR(p) = .ok (sp, ep) ∧ sp.length ≤ 1) ∧
      (errs = [] → stmts.length = (ps.filter (fun p => decide (scan p ≠ []))).length) := by
  have := (split_ir_iff lib hs src h _).1 hr
  simp only [Prod.mk.injEq, List.cons.injEq, LexIR.Val.strs.injEq, and_true] at this
  obtain ⟨rfl, rfl⟩ := this
  refine ⟨(parse src).1, (parse src).2, OpIR.C07_Parse_ir src, ?_, ?_, Piecewise.C15_statement_count src⟩
  · rw [Piecewise.C15_parse_error_iff]
    constructor
    · intro hp p hm
      exact ⟨(parse p).1, by rw [OpIR.C07_Parse_ir, ← hp p hm]⟩
    · intro hp p hm
      obtain ⟨sp, hsp⟩ := hp p hm
      rw [(parse_ir_iff p _).1 hsp]
  · intro p hm
    exact ⟨_, _, OpIR.C07_Parse_ir p, (Piecewise.C15_piece_statements src p hm).1⟩

/-- **C15 on translated code** (the library of the lexer interpreters: `Scan` = the loop around the
    interpreted switch; empty heap) -/
theorem C15_on_translated_code (src : Bytes) :
    ∃ ps, LexIR.interpSplit lexLib [.str src] emptyHeap = .ok ([.strs ps], emptyHeap) ∧
      C15.intercalateSemi ps = src ∧
      ps.length = ((scan src).filter (·.kind = .semi)).length + 1 ∧
      (∀ p ∈ ps, ∀ t ∈ scan p, t.kind ≠ .semi) ∧
      scan src = C15.rejoinTokens 0 ps ∧
      ∃ stmts errs, ParseIR(src) = .ok (stmts, errs) ∧
        (errs = [] ↔ ∀ p ∈ ps, ∃ sp, ParseIR(p) = .ok (sp, [])) ∧
        (errs = [] → stmts.length = (ps.filter (fun p => decide (scan p ≠ []))).length) := by
  have hr := LexIR.C15_split_ir lexLib lexLib_scan src emptyHeap
  obtain ⟨_, h2, h3, h4, h5, _⟩ := (C15_split_headlines_ir lexLib lexLib_scan src emptyHeap).2 _ _ hr
  obtain ⟨stmts, errs, p1, p2, _, p4⟩ := C15_parse_pieces_ir lexLib lexLib_scan src _ _ _ hr
  exact ⟨_, hr, h2, h3, h4, h5, stmts, errs, p1, p2, p4⟩

/-! ## C10 — spans -/

theorem gspan_ofStmt (st : Stmt) : (AstIR.GNode.node (Node.ofStmt st)).span = st.spanOf := by
  cases st <;> rfl

/-- `Span()` interpreted on a non-nil expression returns the model's span (budget = size of the tree) -/
theorem span_ir_expr (e : Expr) (h : e ≠ .nil) :
    AstIR.interpSpan (Node.expr e).size (.node (.expr e)) = pure e.spanOf :=
  AstIR.C10_spanOf_ir _ (.node (.expr e)) (NoPanic.not_nilIface_of_ne (by intro hh; injection hh with hh; exact h hh))
    (Nat.le_refl _)

/-- **C10 (spans of a successfully parsed program) on the translated `Parse` and `Span()` methods.**  If the
    interpretation of `Parse` returns `stmts` without error then
    (a) on EVERY node of every statement (everything `Walk` can hand to a visitor) the interpretation of
        `n.Span()` — dynamic dispatch through the regenerated tables, `nodeSpan`, `nodeSliceSpan`,
        `unionSpans` interpreted — returns normally;
    (b) the `Span()` the interpretation returns for the `i`-th statement is the extent, first token's start
        to last token's end, of the `i`-th non-empty group of tokens of the scan. -/
theorem C10_span_extent_ir (src : Bytes) (stmts : List Stmt) (hp : ParseIR(src) = .ok (stmts, [])) :
    (∀ s ∈ stmts, ∀ m ∈ allNodes (Node.ofStmt s),
      AstIR.interpSpan m.size (.node m) = pure (AstIR.GNode.node m).span) ∧
    Forall₂ (fun st g => ∃ hne : g ≠ [],
        AstIR.interpSpan (Node.ofStmt st).size (.node (Node.ofStmt st)) =
          pure ⟨(g.head hne).start, (g.getLast hne).stop⟩)
      stmts (splitStatementsToks (scan src)) := by
  have hp' := (parse_ir_iff src _).1 hp
  have hall := fun s hs m hm => NoPanic.C12_span_ir_no_panic src stmts hp' s hs m hm
  refine ⟨hall, (C10.C10_span_extent src stmts hp').imp_mem ?_⟩
  intro st hst g _ ⟨hne, hsp⟩
  refine ⟨hne, ?_⟩
  rw [hall st hst _ (allNodes_self_mem _), gspan_ofStmt, hsp]

/-- **C10 (a node's span contains its parts, at any depth, and is its token extent) on the translated
    `Span()` methods.**  For an expression `e` whose `unparse` accounts for the tokens `ts` (true of every
    expression position of a parsed program, `C10Compile.parsed_segs`) and every sub-expression `d` of `e` at
    any depth: the interpretations of `e.Span()` and `d.Span()` return normally spans `se`, `sd` such that
    `sd` is the extent of a contiguous segment of `ts`, is valid, and lies within `se`. -/
theorem C10_span_deep_ir (e d : Expr) (us : List UTok) (ts : List Token) (hs : Expr.Sub d e)
    (hu : unparseExpr e = some us) (hok : TokOK ts) (ha : accounts true us ts = true) :
    ∃ se sd, AstIR.interpSpan (Node.expr e).size (.node (.expr e)) = pure se ∧
      AstIR.interpSpan (Node.expr d).size (.node (.expr d)) = pure sd ∧
      (∃ p seg q, ts = p ++ seg ++ q ∧ ∃ hne : seg ≠ [], sd = ⟨(seg.head hne).start, (seg.getLast hne).stop⟩) ∧
      sd.isValid = true ∧ C10.Span.within sd se := by
  obtain ⟨p, seg, q, h1, ⟨hne, h2⟩, h3, h4⟩ := C10.C10_span_extent_deep e d us ts hs hu hok ha
  have hd : d ≠ .nil := by
    intro hn; subst hn
    simp [Expr.spanOf, Span.isValid, Span.null] at h3
  have he : e ≠ .nil := by
    intro hn; subst hn
    simp [unparseExpr] at hu
  exact ⟨e.spanOf, d.spanOf, span_ir_expr e he, span_ir_expr d hd, ⟨p, seg, q, h1, hne, h2⟩, h3, h4⟩

/-- **C10 (every expression's span is its source text) on the translated `Parse` and `Span()`.**  If the
    interpretation of `Parse` returns `stmts` without error, then for every expression position `e` of the
    program (operator arguments, column expressions, sort terms, join conditions at any join depth, `let`
    values): the interpretation of `e.Span()` returns normally a span that is the extent of a non-empty run of
    tokens of the scan, a non-empty range inside the source, and slicing the source at it — what the compiler
    does for an implicit column name — gives exactly the bytes from the first token's start to the last
    token's end (`Glue.IsSourceText`). -/
theorem C10_expr_span_is_source_text_ir (src : Bytes) (stmts : List Stmt) (hp : ParseIR(src) = .ok (stmts, [])) :
    ∀ s ∈ stmts,
      ParsedOK.StmtAll
        (fun e => Glue.IsSourceText src e ∧ AstIR.interpSpan (Node.expr e).size (.node (.expr e)) = pure e.spanOf)
        (fun l => ∀ e ∈ l.toList,
          Glue.IsSourceText src e ∧ AstIR.interpSpan (Node.expr e).size (.node (.expr e)) = pure e.spanOf) s := by
  intro s hs
  have hne : ∀ e, Glue.IsSourceText src e → e ≠ .nil := by
    rintro e ⟨us, _, _, hu, _⟩ hn
    subst hn
    simp [unparseExpr] at hu
  refine ParsedOK.StmtAll.imp ?_ ?_ s (Glue.C10_expr_span_is_source_text src stmts ((parse_ir_iff src _).1 hp) s hs)
  · exact fun e he => ⟨he, span_ir_expr e (hne e he)⟩
  · exact fun l hl e hm => ⟨hl e hm, span_ir_expr e (hne e (hl e hm))⟩

/-- **C10 (positions of error messages) on the translated `Parse` and `linecol`.**  For every source and every
    error leaf with a position that the interpretation of `Parse` reports: the span lies inside the source,
    and the interpretation of the regenerated `linecol` on its start returns normally a line that is
    1 + the number of newline bytes before it (between 1 and the number of lines) and a column ≥ 1. -/
theorem C10_error_positions_ir (lib : LexIR.Lib) (src : Bytes) (h : LexIR.Heap) (stmts : List Stmt) (errs : Errs)
    (hp : ParseIR(src) = .ok (stmts, errs)) :
    ∀ e ∈ errs, ∀ sp, e.span = some sp →
      0 ≤ sp.start ∧ sp.start ≤ sp.stop ∧ sp.stop ≤ src.length ∧
      ∃ line col, LexIR.interpLinecolParser lib [.str src, .int sp.start.toNat] h = .ok ([.int line, .int col], h) ∧
        line = 1 + (src.take sp.start.toNat).count 10 ∧ line ≤ 1 + src.count 10 ∧ 1 ≤ col := by
  have hp' := (parse_ir_iff src _).1 hp
  intro e he sp hsp
  have he' : e ∈ (parse src).2 := by rw [hp']; exact he
  have hin := C10.C10_error_spans_inside src e he' sp hsp
  refine ⟨hin.1, hin.2.1, hin.2.2, _, _, (NoPanic.C12_linecol_ir_no_panic lib src h).1 e he' sp hsp,
    C10.C10_linecol_line src _, (C10.C10_linecol_line_bounds src _).2, C10.C10_linecol_col_pos src _⟩

/-- **C10 on translated code.** -/
theorem C10_on_translated_code (src : Bytes) (stmts : List Stmt) (hp : ParseIR(src) = .ok (stmts, [])) :
    (∀ s ∈ stmts, ∀ m ∈ allNodes (Node.ofStmt s),
      AstIR.interpSpan m.size (.node m) = pure (AstIR.GNode.node m).span) ∧
    Forall₂ (fun st g => ∃ hne : g ≠ [],
        AstIR.interpSpan (Node.ofStmt st).size (.node (Node.ofStmt st)) =
          pure ⟨(g.head hne).start, (g.getLast hne).stop⟩)
      stmts (splitStatementsToks (scan src)) :=
  C10_span_extent_ir src stmts hp

/-! ## C11 — Walk -/

/-- **C11 (Walk over a successfully parsed statement) on the translated `Parse` and `Walk`.**  If the
    interpretation of `Parse` returns `stmts` without error then, for every statement `s`, the
    interpretation of the regenerated loop of `Walk` (pop, type switch, visitor call, pushes from the
    regenerated per-type tables, default `panic`):
    (a) with a visitor that always answers true, records exactly one visit per node of the tree, in
        pre-order (parents before their children, children in order);
    (b) with any visitor `decide` (answer to the `i`-th call), records exactly the recursive pre-order with
        pruning `preNode` — a false answer skips exactly that node's descendants —, which is a
        sub-sequence of the full pre-order; never a nil node, never a panic;
    (c) with a visitor that answers false at the root, records the root only;
    (d) with ANY visitor (answers may depend on the node too) returns normally without a panic event. -/
theorem C11_walk_headlines_ir (src : Bytes) (stmts : List Stmt) (hp : ParseIR(src) = .ok (stmts, []))
    (s : Stmt) (hs : s ∈ stmts) :
    (AstIR.interpWalk (fun _ _ => true) (Node.ofStmt s)).trace = some ((allNodes (Node.ofStmt s)).map eventOf) ∧
    (∀ decide : Nat → Bool, ∃ evs,
      (AstIR.interpWalk (fun i _ => decide i) (Node.ofStmt s)).trace = some evs ∧
      evs = (preNode decide 0 (Node.ofStmt s)).1 ∧
      evs.Sublist ((allNodes (Node.ofStmt s)).map eventOf) ∧
      WalkEvent.panic ∉ evs ∧ WalkEvent.visitNil ∉ evs) ∧
    (∀ decide : Nat → Bool, decide 0 = false →
      (AstIR.interpWalk (fun i _ => decide i) (Node.ofStmt s)).trace = some [eventOf (Node.ofStmt s)]) ∧
    (∀ v : Nat → Node → Bool, ∃ r w, AstIR.interpWalk v (Node.ofStmt s) = .ok r w ∧ WalkEvent.panic ∉ w.events) := by
  have hp' := (parse_ir_iff src _).1 hp
  have hc : Complete (Node.ofStmt s) := C11.C11_parsed_complete _ _ stmts hp' s hs
  refine ⟨?_, fun decide => ?_, fun decide hd => ?_, fun v => ?_⟩
  · have := AstIR.C11_walk_ir_model (fun _ => true) (Node.ofStmt s)
    rw [C11.C11_visits_all _ hc.noPanic] at this
    exact this
  · refine ⟨_, AstIR.C11_walk_ir_model decide _, C11.walk_eq_preNode decide _ hc.noPanic,
      C11.C11_visits_sublist decide _ hc.noPanic, C11.C11_no_panic decide _ hc.noPanic, C11.C11_no_nil decide _ hc⟩
  · rw [AstIR.C11_walk_ir_model, C11.C11_prune decide _ hc.noPanic hd]
  · obtain ⟨r, w, h1, _, h3⟩ := NoPanic.C12_walk_ir_no_panic src stmts hp' s hs v
    exact ⟨r, w, h1, h3⟩

/-- **C11 on translated code.** -/
theorem C11_on_translated_code (src : Bytes) (stmts : List Stmt) (hp : ParseIR(src) = .ok (stmts, []))
    (s : Stmt) (hs : s ∈ stmts) :
    (AstIR.interpWalk (fun _ _ => true) (Node.ofStmt s)).trace = some ((allNodes (Node.ofStmt s)).map eventOf) ∧
    (∀ decide : Nat → Bool, ∃ evs,
      (AstIR.interpWalk (fun i _ => decide i) (Node.ofStmt s)).trace = some evs ∧
      evs = (preNode decide 0 (Node.ofStmt s)).1 ∧
      evs.Sublist ((allNodes (Node.ofStmt s)).map eventOf) ∧
      WalkEvent.panic ∉ evs ∧ WalkEvent.visitNil ∉ evs) ∧
    (∀ decide : Nat → Bool, decide 0 = false →
      (AstIR.interpWalk (fun i _ => decide i) (Node.ofStmt s)).trace = some [eventOf (Node.ofStmt s)]) ∧
    (∀ v : Nat → Node → Bool, ∃ r w, AstIR.interpWalk v (Node.ofStmt s) = .ok r w ∧ WalkEvent.panic ∉ w.events) :=
  C11_walk_headlines_ir src stmts hp s hs

/-- non-vacuity of C10 / C11: `A | join (B) on $left.x == $right.y` — the interpretation of `Parse` returns one
    statement without error; its walk has 14 events -/
theorem C11_on_translated_code_nonvacuous :
    ParseIR(Glue.joinSrc) = .ok ([Glue.joinStmt], []) ∧
    ∃ r w, AstIR.interpWalk (fun _ _ => true) (Node.ofStmt Glue.joinStmt) = .ok r w ∧ w.events.length = 14 :=
  ⟨NoPanic.C12_parse_ir_nonvacuous, NoPanic.C12_walk_ir_nonvacuous.2.1⟩

end Pql.IRHead
