/-
Property C10 — "line:column prefixes of error messages point into the source".

`linecol src pos` (both Go copies) walks the *runes* of `src[:pos]`.  The theorems below pin the
result to the bytes of that prefix, for every byte string (valid UTF-8 or not) and every offset:

* the line is one more than the number of newline bytes before `pos` (a newline byte is never
  swallowed by a multi-byte rune step, `decodeRune_wide_all_ge`; a rune cut by `take pos`
  decodes as RuneError of width 1, which the same lemma covers);
* the column is at least 1;
* the result depends only on `src[:pos]`, and the line is monotone in `pos`.

Property theorems only; helper lemmas live in PqlModel/Lemmas/LinecolLemmas.lean.
-/
import PqlModel.Lemmas.LinecolLemmas
namespace Pql.C10
open Pql

/-- **C10 (decoder fact).** When `decodeRune` consumes more than one byte, none of the consumed
    bytes is ASCII; in particular a newline byte is always a rune of its own. -/
theorem C10_rune_no_ascii_inside (s : Bytes) (hw : 1 < (decodeRune s).2) :
    ∀ x ∈ s.take (decodeRune s).2, 0x80 ≤ x.toNat :=
  decodeRune_wide_all_ge s hw

/-- **C10 (line).** The line `linecol` reports is 1 + the number of newline bytes (10) in
    `src[:pos]`. -/
theorem C10_linecol_line (src : Bytes) (pos : Nat) :
    (linecol src pos).1 = 1 + (src.take pos).count 10 := by
  unfold linecol
  exact linecolRunes_line _ _ 1 1 (Nat.lt_succ_self _)

/-- **C10 (column).** The column `linecol` reports is at least 1. -/
theorem C10_linecol_col_pos (src : Bytes) (pos : Nat) : 1 ≤ (linecol src pos).2 := by
  unfold linecol
  exact linecolRunes_col_pos _ _ 1 1 (Nat.le_refl 1)

/-- **C10 (line within the source).** The reported line is between 1 and the number of lines of
    the source (1 + its newline bytes). -/
theorem C10_linecol_line_bounds (src : Bytes) (pos : Nat) :
    1 ≤ (linecol src pos).1 ∧ (linecol src pos).1 ≤ 1 + src.count 10 := by
  rw [C10_linecol_line]
  have : (src.take pos).count 10 ≤ src.count 10 := (List.take_sublist pos src).count_le 10
  omega

/-- **C10 (prefix).** `linecol` depends only on `src[:pos]`, and the line is monotone in `pos`. -/
theorem C10_linecol_prefix (src : Bytes) (pos : Nat) :
    (∀ src' : Bytes, src'.take pos = src.take pos → linecol src' pos = linecol src pos) ∧
    (∀ pos', pos ≤ pos' → (linecol src pos).1 ≤ (linecol src pos').1) := by
  constructor
  · intro src' h
    unfold linecol
    rw [h]
  · intro pos' hle
    rw [C10_linecol_line, C10_linecol_line]
    have hpre : src.take pos = (src.take pos').take pos := by
      rw [List.take_take, Nat.min_eq_left hle]
    have : (src.take pos).count 10 ≤ (src.take pos').count 10 := by
      rw [hpre]
      exact (List.take_sublist pos (src.take pos')).count_le 10
    omega

-- sanity tests (evaluated): "a\n\tb" at offset 3 is line 2, column 9; a cut 3-byte rune
#guard linecol [97, 10, 9, 98] 3 = (2, 9)
#guard linecol [0xE2, 0x80, 10, 97] 4 = (2, 2)
#guard linecol [0xE2, 0x80, 0xA8, 10, 97] 2 = (1, 3)

end Pql.C10
