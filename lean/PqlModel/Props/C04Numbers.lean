/-
Property C04, numbers end to end (glue A).

"Each such SQL token decodes … to exactly the value written in PQL (… numbers to the same numeric
value whether written in decimal, hexadecimal, with leading zeros, leading dot or exponent)".

Pieces proved separately before: `C09_number_value` (the number sub-scanner's decimal spelling
has the value of the source lexeme), `ParsedOK.scan_number_numOK` (the spelling is one SQL number
token), the writer emits a number literal verbatim (`writeExpr`, `.lit` case: chunk `.num v`).
Here they are composed for every number token of `scan src`, with an SQL-side value
`Glue.sqlNumValue` (Lemmas/GlueNum.lean) defined independently of `C09.decValue`.
-/
import PqlModel.Lemmas.GlueNum
import PqlModel.Lemmas.LexReach
import PqlModel.Lemmas.GlueAcc
import PqlModel.Props.C05Parsed
namespace Pql.Glue
open Pql Sql ParsedOK

/-! ### which step produced a number token, with its width -/

theorem scanOne_number (s v : Bytes) (h : (scanOne s).tok = some (TokKind.number, v)) :
    ∃ c rest, s = c :: rest ∧ (isDigit c || c == 46) = true ∧
      scanNumberOrDot s = ⟨.number, v, (scanOne s).width⟩ := by
  unfold scanOne at h ⊢
  split at h
  · cases h
  · rename_i c rest
    refine ⟨c, rest, rfl, ?_⟩
    split at h
    · exact absurd rfl (ParsedOK.scanNonAscii_kind h).2
    rename_i h128
    split at h
    · cases h
    rename_i hsp
    split at h
    · rename_i hid
      simp only [Step.ofLexeme, Option.some.injEq, Prod.mk.injEq] at h
      rcases ParsedOK.scanIdent_kind_value h.1 h.2 with ⟨_, h2⟩ | ⟨h1, _⟩
      · exact absurd rfl h2
      · cases h1
    rename_i hid
    split at h
    · rename_i hd
      refine ⟨hd, ?_⟩
      simp only [Step.ofLexeme, Option.some.injEq, Prod.mk.injEq] at h
      simp only [if_neg h128, hsp, hid, hd, if_true, Bool.false_eq_true, if_false, Step.ofLexeme]
      rw [← h.1, ← h.2]
    rename_i hd
    split at h
    · simp only [Step.ofLexeme, Option.some.injEq, Prod.mk.injEq] at h
      exact absurd h.1 (ParsedOK.scanString_kind (c :: rest)).2
    split at h
    · simp only [Step.ofLexeme, Option.some.injEq, Prod.mk.injEq] at h
      exact absurd h.1 (ParsedOK.scanQuotedIdent_kind (c :: rest)).2
    · exact absurd rfl (ParsedOK.scanPunct_kind h).2

/-! ### the headline theorem -/

/-- **C04, numbers end to end (token level).**  For every source `src` (any bytes) and every
    number token `t` of `scan src`:
    * the SQL lexer reads the token's value — the text the compiler emits for the literal — as
      exactly one number token with that very text;
    * the value of that SQL token (`sqlNumValue`: mantissa digits / 10^(fraction digits) ·
      10^exponent, exact rational) equals the value of the source lexeme
      `src[t.start, t.stop)` under `C09.spellingValue` (decimal, hexadecimal `0x…`, leading zeros,
      leading dot, trailing dot, exponent). -/
theorem C04_number_token_roundtrip (src : Bytes) (t : Token) (ht : t ∈ scan src)
    (hk : t.kind = .number) :
    Sql.lex .standard t.value = some [.num t.value] ∧
    ∃ q : Rat, sqlNumValue t.value = some q ∧
      C09.spellingValue (src.extract t.start t.stop) = some q := by
  have hok := ParsedOK.scan_number_numOK src t ht hk
  refine ⟨by simpa [numOK] using hok, ?_⟩
  obtain ⟨n, h1, _, h3, h4, h5⟩ := reaches_of_mem src 0 t ht
  rw [hk] at h4
  obtain ⟨c, rest, hs, hc, hL⟩ := scanOne_number _ _ h4
  rw [hs] at hL
  obtain ⟨q, hq1, hq2⟩ := C09.C09_number_value c rest t.value _ hc hL
  refine ⟨q, ?_, ?_⟩
  · rw [sqlNumValue_eq_of_numOK _ hok]; exact hq2
  · have e1 : t.start = n := by omega
    have e2 : t.stop - n = (scanOne (src.drop n)).width := by omega
    simp only [List.extract, e1, e2]
    rw [hs]; exact hq1

/-! ### tree level: every number literal of an error-free parse -/

/-- the writer emits a number literal's value verbatim, as one `.num` chunk (whose bytes are the
    value), in every context -/
theorem writeExpr_number_lit (ctx : Ctx) (sp : Span) (v : Bytes) :
    writeExpr ctx (.lit sp .number v) = .ok [.num v] ∧ renderChunks [.num v] = v := by
  simp [writeExpr, renderChunks, Chunk.bytes]

/-- what C04 asks of a number literal node `BasicLit{Span: sp, Kind: number, Value: v}` of a tree
    parsed from `src`: its span is a non-empty range of the source; the SQL lexer reads the text
    the compiler emits for it (`v`, verbatim) as exactly one number token; and the value of that
    token is the value of the source text `src[sp.start, sp.stop)` as a PQL number spelling. -/
def NumLitOK (src : Bytes) (sp : Span) (v : Bytes) : Prop :=
  (0 ≤ sp.start ∧ sp.start < sp.stop ∧ sp.stop ≤ (src.length : Int)) ∧
  Sql.lex .standard v = some [.num v] ∧
  ∃ q : Rat, sqlNumValue v = some q ∧
    C09.spellingValue (src.extract sp.start.toNat sp.stop.toNat) = some q

/-- every number literal below `e`, at any depth, is `NumLitOK` -/
def NumLitsOK (src : Bytes) (e : Expr) : Prop :=
  ∀ d, Expr.Sub d e → ∀ sp v, d = .lit sp .number v → NumLitOK src sp v

theorem numLitsOK_of_seg (src : Bytes) (e : Expr) (h : ESeg (scan src) e) : NumLitsOK src e := by
  intro d hd sp v hlit
  subst hlit
  obtain ⟨t, ht, hsp, hk, hv⟩ := (h.sub hd).lit
  have hv' := hv (by decide)
  obtain ⟨h1, q, h2, h3⟩ := C04_number_token_roundtrip src t ht hk
  have hb := mem_scan_bounds src t ht
  subst hsp
  simp only [Token.span]
  rw [← hv']
  refine ⟨⟨?_, ?_, ?_⟩, h1, q, h2, ?_⟩
  · dsimp only; omega
  · dsimp only; omega
  · dsimp only; omega
  · simpa using h3

/-- **C04, numbers end to end (tree level).**  If `parse src` reports no error, then every
    number literal node of the program — at any depth below any operator argument, column
    expression, sort term, join condition (at any join depth) or `let` value — satisfies
    `NumLitOK`: the text the compiler writes for it is one SQL number token whose value is the
    value of the source text at the node's span. -/
theorem C04_number_literal_roundtrip (src : Bytes) (stmts : List Stmt)
    (h : parse src = (stmts, [])) :
    ∀ s ∈ stmts, StmtAll (NumLitsOK src) (fun l => ∀ e ∈ l.toList, NumLitsOK src e) s := by
  intro s hs
  refine ParsedOK.StmtAll.imp ?_ ?_ s (parsed_segs src stmts h s hs)
  · exact numLitsOK_of_seg src
  · intro l hl e he
    exact numLitsOK_of_seg src e (hl.mem e he)

/-! ### non-vacuity: the six spellings of the property text -/

private abbrev B := Bytes.ofString

unseal Pql.scanFrom in
/-- what the scanner makes of `0x1F`, `007`, `.5`, `1e3`, `2.5E-3`, `0e0` (and of a number inside
    a longer source): one number token each, spanning the whole lexeme, with a normalised value -/
theorem ex_number_tokens :
    scan (B "0x1F") = [⟨.number, 0, 4, B "31"⟩] ∧
    scan (B "007") = [⟨.number, 0, 3, B "7"⟩] ∧
    scan (B ".5") = [⟨.number, 0, 2, B "0.5"⟩] ∧
    scan (B "1e3") = [⟨.number, 0, 3, B "1e3"⟩] ∧
    scan (B "2.5E-3") = [⟨.number, 0, 6, B "2.5E-3"⟩] ∧
    scan (B "0e0") = [⟨.number, 0, 3, B "0e0"⟩] ∧
    scan (B "x > 0x1F") = [⟨.ident, 0, 1, B "x"⟩, ⟨.gt, 2, 3, []⟩, ⟨.number, 4, 8, B "31"⟩] := by
  decide +kernel

/-- both sides of the round trip, evaluated: SQL-side value of the emitted text = value of the
    source spelling -/
theorem ex_number_values :
    (sqlNumValue (B "31") = some 31 ∧ C09.spellingValue (B "0x1F") = some 31) ∧
    (sqlNumValue (B "7") = some 7 ∧ C09.spellingValue (B "007") = some 7) ∧
    (sqlNumValue (B "0.5") = some (1 / 2) ∧ C09.spellingValue (B ".5") = some (1 / 2)) ∧
    (sqlNumValue (B "1e3") = some 1000 ∧ C09.spellingValue (B "1e3") = some 1000) ∧
    (sqlNumValue (B "2.5E-3") = some (1 / 400) ∧ C09.spellingValue (B "2.5E-3") = some (1 / 400)) ∧
    (sqlNumValue (B "0e0") = some 0 ∧ C09.spellingValue (B "0e0") = some 0) := by
  decide +kernel

/-- the headline theorem instantiated: the hex literal in `x > 0x1F` -/
theorem ex_roundtrip_hex :
    Sql.lex .standard (B "31") = some [.num (B "31")] ∧
    ∃ q : Rat, sqlNumValue (B "31") = some q ∧
      C09.spellingValue ((B "x > 0x1F").extract 4 8) = some q :=
  C04_number_token_roundtrip (B "x > 0x1F") ⟨.number, 4, 8, B "31"⟩
    (by rw [ex_number_tokens.2.2.2.2.2.2]; simp) rfl

/-- `T | where x > 0x1F` -/
def exSrc : Bytes := B "T | where x > 0x1F"

unseal Pql.scanFrom in
theorem ex_parse : parse exSrc =
    ([.tabular (.mk (some ⟨B "T", ⟨0, 1⟩, false⟩) (.cons (.where_ ⟨2, 3⟩ ⟨4, 9⟩
      (.binary (.qident [⟨B "x", ⟨10, 11⟩, false⟩]) ⟨12, 13⟩ .gt (.lit ⟨14, 18⟩ .number (B "31")))) .nil))],
     []) := by
  with_unfolding_all rfl

/-- the tree-level theorem instantiated: the literal node `0x1F` at [14,18) of
    `T | where x > 0x1F` carries the value `31`, which SQL reads as the number 31 = 0x1F -/
theorem ex_literal_roundtrip : NumLitOK exSrc ⟨14, 18⟩ (B "31") := by
  have h := C04_number_literal_roundtrip exSrc _ ex_parse _ (List.mem_singleton.2 rfl)
  simp only [StmtAll, TabAll, OpsAll, OpAll] at h
  exact h.1 _ (.step (.refl _) (by simp [Expr.children])) _ _ rfl

/-- the SQL-side reading is not `decValue` under another name: it rejects the leading-dot
    spelling that `decValue` accepts (the scanner never emits one: it normalises `.5` to `0.5`) -/
theorem sqlNumValue_ne_decValue :
    sqlNumValue (B ".5") = none ∧ C09.decValue (B ".5") = some (1 / 2) := by decide +kernel

end Pql.Glue
