/-
Property C05, lexical half ("LexRender" for whole statements) — the bytes `Compile` emits for a
program are read by the SQL lexer as exactly the tokens the chunks stand for: no content of a
name, string, number, render value or function name and no juxtaposition of two chunks opens a
comment, leaves a token unterminated, merges two tokens or swallows the following text; and the
one `;` symbol token is the statement terminator at the very end.

Route (Lemmas/LexStmt*.lean), lifting the expression-level result (Props/C01LexRender.lean):

* `writeExpr_good_scope` — the expression writer's outputs are adjacent under every scope whose
  entries are (`ScopeAdj`; `let` statements establish it: `scopeAdj_cons`);
* `write_good` — `Subquery.write` level, for subqueries satisfying `SubOK`;
* `splitQueries_subOK` — every subquery `splitQueries` produces satisfies `SubOK` (its source is
  a quoted name or the join source built in `splitOps`);
* `writeCtes_adj`, `finish_adj`, `program_adj` — the CTE list and the final assembly;
* `program_sf`, `toksOf_no_semi` — no fixed text the writers emit contains the byte `;`.

The side condition `Tabular.lexOK` / `stmtsLexOK` (Lemmas/LexStmtOK.lean, LexStmtProgram.lean)
only asks `Expr.lexOK` of the expressions in the operators (and of `let` values).
-/
import PqlModel.Lemmas.LexStmtSemiStmt
namespace Pql.C05
open Pql Sql LexRender

/-! ### deliverable 1: the `Subquery.write` level -/

/-- the chunks of every subquery `splitQueries` produces (its source is `[.qid n]` or the join
    source built in `splitOps`) are adjacent before every text that is empty or begins with `)`
    or `;` -/
theorem C05_subquery_adj (src : Bytes) (t : Tabular) (subs : List Subquery)
    (hok : Tabular.lexOK t = true) (hs : splitQueries src [] [] t = .ok subs)
    (sub : Subquery) (hsub : sub ∈ subs) (mode : Mode) (cs : List Chunk)
    (h : sub.write ⟨src, [], mode⟩ = .ok cs)
    (rest : Bytes) (hrest : rest = [] ∨ rest.head? = some 41 ∨ rest.head? = some 59) :
    AdjC rest cs = true := by
  have hS := splitQueries_subOK src [] scopeAdj_nil t [] subs hok (by simp) hs sub hsub
  refine write_good ⟨src, [], mode⟩ scopeAdj_nil hS h rest ?_
  rcases hrest with rfl | h | h
  · rfl
  · rw [h]; decide
  · rw [h]; decide

/-- … hence are read as their chunk tokens, lexing continuing with exactly the following text -/
theorem C05_subquery_lexRender_before (src : Bytes) (t : Tabular) (subs : List Subquery)
    (hok : Tabular.lexOK t = true) (hs : splitQueries src [] [] t = .ok subs)
    (sub : Subquery) (hsub : sub ∈ subs) (mode : Mode) (cs : List Chunk)
    (h : sub.write ⟨src, [], mode⟩ = .ok cs)
    (rest : Bytes) (hrest : rest = [] ∨ rest.head? = some 41 ∨ rest.head? = some 59) (fuel : Nat) :
    (lexAux .standard (fuel + steps cs) (renderChunks cs ++ rest)).map (·.filter (· != .comment)) =
      (lexAux .standard fuel rest).map (fun ts => toksOf cs ++ ts.filter (· != .comment)) :=
  lexRender_of_adj cs rest fuel (C05_subquery_adj src t subs hok hs sub hsub mode cs h rest hrest)

/-! ### deliverable 2 and the main theorem -/

theorem stmtsLexOK_single (t : Tabular) : stmtsLexOK [.tabular t] = t.lexOK := rfl

/-- the whole chunk list of a compiled statement is adjacent -/
theorem C05_statement_adj (src : Bytes) (t : Tabular) (cs : List Chunk)
    (hok : Tabular.lexOK t = true) (hc : compileChunks src [] [.tabular t] = .ok cs) : Adj cs = true :=
  program_adj src [.tabular t] cs hok hc

/-- **C05 (LexRender, whole statement).** For a program that is a single tabular statement,
    without parameters, the bytes `Compile` emits lex to exactly the token list `toksOf cs`. -/
theorem C05_lexRender_statement (src : Bytes) (t : Tabular) (cs : List Chunk)
    (hok : Tabular.lexOK t = true)
    (hc : compileChunks src [] [.tabular t] = .ok cs) :
    Sql.lex .standard (renderChunks cs) = some (toksOf cs) :=
  lexRender_of_adj_top cs (C05_statement_adj src t cs hok hc)

/-- **C05 (LexRender, whole program; stretch goal 1).** The same with `let` statements before
    (and after) the query: the value of every `let` before the query must be `Expr.lexOK`. -/
theorem C05_lexRender_program (src : Bytes) (stmts : List Stmt) (cs : List Chunk)
    (hok : stmtsLexOK stmts = true)
    (hc : compileChunks src [] stmts = .ok cs) :
    Sql.lex .standard (renderChunks cs) = some (toksOf cs) :=
  lexRender_of_adj_top cs (program_adj src stmts cs hok hc)

/-- the same from any initial scope satisfying `ScopeAdj` (what parameters would have to provide:
    every bound chunk list adjacent before every separator and not starting with `-`) -/
theorem C05_lexRender_from_scope (src : Bytes) (scope0 : List (Bytes × List Chunk)) (hs0 : ScopeAdj scope0)
    (stmts : List Stmt) (cs : List Chunk) (hok : stmtsLexOK stmts = true)
    (hc : (compileStmts src stmts scope0 none >>= fun r => C14.finishChunks src r.1 r.2) = .ok cs) :
    Sql.lex .standard (renderChunks cs) = some (toksOf cs) :=
  lexRender_of_adj_top cs (program_adj_from src scope0 hs0 stmts cs hok hc)

/-- a scope of string and number literals satisfies `ScopeAdj` -/
theorem scopeAdj_literals (scope : List (Bytes × List Chunk))
    (h : ∀ p ∈ scope, (∃ v, p.2 = [.qstr v]) ∨ (∃ v, p.2 = [.num v] ∧ numOK v = true)) : ScopeAdj scope := by
  intro p hp
  rcases h p hp with ⟨v, hv⟩ | ⟨v, hv, hn⟩
  · rw [hv]; exact ⟨good_qstr v, head_qstr v⟩
  · rw [hv]; exact ⟨good_num hn, head_num hn⟩

/-- at the level of `compile`: the SQL text of a successful compilation (no parameters) lexes to
    the tokens of its chunks -/
theorem C05_lexRender_compile (src sql : Bytes) (hok : stmtsLexOK (parse src).1 = true)
    (h : compile [] src = .ok sql) :
    ∃ cs, compileChunks src [] (parse src).1 = .ok cs ∧ sql = renderChunks cs ∧
      Sql.lex .standard sql = some (toksOf cs) := by
  unfold compile at h
  dsimp only at h
  split at h
  · cases h
  · split at h
    · rename_i cs hcs
      cases h
      exact ⟨cs, hcs, rfl, C05_lexRender_program src _ cs hok hcs⟩
    · cases h
    · cases h

/-! ### deliverable 3: corollaries -/

/-- no comment swallows anything and no token is unterminated: the output lexes -/
theorem C05_no_comment_or_unterminated (src : Bytes) (t : Tabular) (cs : List Chunk)
    (hok : Tabular.lexOK t = true) (hc : compileChunks src [] [.tabular t] = .ok cs) :
    (Sql.lex .standard (renderChunks cs)).isSome = true := by
  rw [C05_lexRender_statement src t cs hok hc]; rfl

theorem txtToks_semicolon : txtToks ";" = [STok.sym ";"] := by decide

/-- whole programs: the token list ends with the symbol `;` and contains no other `;` symbol -/
theorem C05_single_semicolon_program (src : Bytes) (stmts : List Stmt) (cs : List Chunk)
    (hok : stmtsLexOK stmts = true) (hc : compileChunks src [] stmts = .ok cs) :
    ∃ pre, toksOf cs = pre ++ [STok.sym ";"] ∧ STok.sym ";" ∉ pre := by
  obtain ⟨init, rfl, hsf⟩ := program_sf src stmts cs hc
  have hadj := program_adj src stmts _ hok hc
  refine ⟨toksOf init, ?_, toksOf_no_semi (AdjC_split hadj).1 hsf⟩
  rw [toksOf_append]
  simp [toksOf, chunkToks, txtToks_semicolon]

/-- **C05 (one statement).** The token list `toksOf cs` ends with the symbol `;` and contains no
    other `;` symbol token: a `;` inside a name or a string never separates statements. -/
theorem C05_single_semicolon (src : Bytes) (t : Tabular) (cs : List Chunk)
    (hok : Tabular.lexOK t = true) (hc : compileChunks src [] [.tabular t] = .ok cs) :
    ∃ pre, toksOf cs = pre ++ [STok.sym ";"] ∧ STok.sym ";" ∉ pre :=
  C05_single_semicolon_program src [.tabular t] cs hok hc

/-- what the lexer of a consumer sees: exactly one `;` symbol, last -/
theorem C05_single_semicolon_lexed (src : Bytes) (t : Tabular) (cs : List Chunk)
    (hok : Tabular.lexOK t = true) (hc : compileChunks src [] [.tabular t] = .ok cs) :
    ∃ pre, Sql.lex .standard (renderChunks cs) = some (pre ++ [STok.sym ";"]) ∧ STok.sym ";" ∉ pre := by
  obtain ⟨pre, h1, h2⟩ := C05_single_semicolon src t cs hok hc
  exact ⟨pre, by rw [C05_lexRender_statement src t cs hok hc, h1], h2⟩

/-! ### non-vacuity

`let n = -3; T | where a == 'x;--' and b > n | join kind=leftouter (U | take 5) on k
 | summarize c = count() by a | sort by c desc | project c, d = a
 | render barchart with (title='t;')` as a tree (spans irrelevant). -/

def exId (s : String) : Ident := ⟨Bytes.ofString s, .zero, false⟩
def exCol (s : String) : Expr := .qident [exId s]
def exQuery : Tabular :=
  .mk (some (exId "T"))
    (.cons (.where_ .zero .zero (.binary (.binary (exCol "a") .zero .eq (.lit .zero .string (Bytes.ofString "x;--")))
        .zero .and_ (.binary (exCol "b") .zero .gt (exCol "n"))))
    (.cons (.join .zero .zero .zero .zero (some (exId "leftouter")) .zero
        (.mk (some (exId "U")) (.cons (.take .zero .zero (.lit .zero .number [53])) .nil)) .zero .zero
        (.cons (exCol "k") .nil))
    (.cons (.summarize .zero .zero [⟨some (exId "c"), .zero, .call (exId "count") .zero .nil .zero⟩] .zero
        [⟨some (exId "a"), .zero, exCol "a"⟩])
    (.cons (.sort .zero .zero [⟨exCol "c", false, .zero, false, .zero⟩])
    (.cons (.project .zero .zero [⟨some (exId "c"), .zero, .nil⟩, ⟨some (exId "d"), .zero, exCol "a"⟩])
    (.cons (.render .zero .zero (some (exId "barchart")) .zero .zero
        [⟨some (exId "title"), .zero, .lit .zero .string (Bytes.ofString "t;")⟩] .zero) .nil))))))
def exProgram : List Stmt :=
  [.let_ .zero (some (exId "n")) .zero (.unary .zero .minus (.lit .zero .number [51])), .tabular exQuery]

/-- the hypotheses of `C05_lexRender_statement` / `C05_single_semicolon` hold of the example … -/
example : Tabular.lexOK exQuery = true ∧ (compileChunks [] [] [.tabular exQuery]).toBool = true := by decide
/-- … and those of `C05_lexRender_program` (the `let` value `-3` is substituted as `(-3)`) -/
example : stmtsLexOK exProgram = true ∧ (compileChunks [] [] exProgram).toBool = true := by decide

set_option maxRecDepth 100000 in
/-- the example's output contains three `;` bytes (two of them inside strings, one of these
    followed by `--`) but one `;` token -/
example : (match compileChunks [] [] exProgram with
    | .ok cs => ((renderChunks cs).count 59, (toksOf cs).count (.sym ";"), (toksOf cs).contains (.str (Bytes.ofString "x;--")))
    | .error _ => (0, 0, false)) = (3, 1, true) := by decide

/-- `C05_subquery_adj` on the example: all seven subqueries, before `)` -/
example : (match splitQueries [] [] [] exQuery with
    | .ok subs => subs.all fun sub =>
        match sub.write ⟨[], [], .default⟩ with
        | .ok cs => AdjC [41] cs
        | .error _ => false
    | .error _ => false) = true := by decide

/-- a scope of literals for `C05_lexRender_from_scope` -/
example : ScopeAdj [(Bytes.ofString "p", [.qstr (Bytes.ofString "it's; --")]), (Bytes.ofString "q", [.num [52, 50]])] :=
  scopeAdj_literals _ (by
    intro p hp
    simp only [List.mem_cons, List.not_mem_nil, or_false] at hp
    rcases hp with rfl | rfl
    · exact Or.inl ⟨_, rfl⟩
    · exact Or.inr ⟨_, rfl, by decide⟩)

/-! ### the side condition is needed for arbitrary trees

`Expr.lexOK` asks number literals to be spelled as numbers.  A tree (not one the parser builds)
whose row count "number" is the text `5 --` compiles to `SELECT * FROM "T" LIMIT 5 --;`: the
terminator is swallowed by the comment. -/

def cexQuery : Tabular :=
  .mk (some (exId "T")) (.cons (.take .zero .zero (.lit .zero .number (Bytes.ofString "5 --"))) .nil)

theorem C05_lexOK_needed :
    Tabular.lexOK cexQuery = false ∧
    ∃ cs, compileChunks [] [] [.tabular cexQuery] = .ok cs ∧
      Sql.lex .standard (renderChunks cs) ≠ some (toksOf cs) ∧
      Sql.lex .standard (renderChunks cs) = some [.word (Bytes.ofString "SELECT"), .sym "*",
        .word (Bytes.ofString "FROM"), .qid [84], .word (Bytes.ofString "LIMIT"), .num [53]] := by
  refine ⟨by decide, _, rfl, by decide, by decide⟩

end Pql.C05
