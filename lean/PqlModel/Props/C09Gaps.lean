/-
Property C09 — "… the tokens leave between them only white space and `//` comments".

* `IsSpaceRunePrefix x`   : `x` is exactly one UTF-8 rune and that rune is white space;
* `IsLineComment x y`     : `x` (followed by `y`) is a `//` comment: two slashes, a newline-free
                            body, and then the newline — or the end of the input (`y = []`);
* `IsTriviaStep x y`      : one of the two;
* `AllTrivia g`           : `g` is a concatenation of trivia steps.

`C09_skip_is_trivia` / `C09_trivia_is_skip`: a step of the scanner emits no token exactly on a
trivia step.  `C09_gaps_trivia`: for every byte string, the text before the first token, between
any two consecutive tokens and after the last token of `scan` is `AllTrivia`; scanning such a
gap alone yields no token (`C09_gaps_rescan_nil`).

Property theorems only; helper lemmas live in PqlModel/Lemmas/GapLemmas.lean.
-/
import PqlModel.Props.C09
import PqlModel.Lemmas.GapLemmas
namespace Pql.C09
open Pql

/-- `x` is exactly one rune (as Go decodes it) and the rune is white space (`unicode.IsSpace`) -/
def IsSpaceRunePrefix (x : Bytes) : Prop :=
  x ≠ [] ∧ (decodeRune x).2 = x.length ∧ isSpaceRune (decodeRune x).1 = true

/-- `x`, followed by `y`, is a `//` comment: it starts with the bytes 47 47 and extends to and
    including the next newline, or to the end of the input -/
def IsLineComment (x y : Bytes) : Prop :=
  ∃ body : Bytes, (∀ b ∈ body, b ≠ 10) ∧
    (x = 47 :: 47 :: (body ++ [10]) ∨ (x = 47 :: 47 :: body ∧ y = []))

/-- one step of trivia at the head of `x ++ y` -/
def IsTriviaStep (x y : Bytes) : Prop := IsSpaceRunePrefix x ∨ IsLineComment x y

/-- a concatenation of trivia steps -/
inductive AllTrivia : Bytes → Prop
  | nil : AllTrivia []
  | step (x y : Bytes) : IsTriviaStep x y → AllTrivia y → AllTrivia (x ++ y)

/-- **C09 (skipped steps are trivia).** Whenever a step of the scanner emits no token, the bytes
    it consumes are one white-space rune or one `//` comment. -/
theorem C09_skip_is_trivia (c : UInt8) (rest : Bytes) (h : (scanOne (c :: rest)).tok = none) :
    IsTriviaStep ((c :: rest).take (scanOne (c :: rest)).width)
      ((c :: rest).drop (scanOne (c :: rest)).width) := by
  rcases scanOne_none_cases c rest h with ⟨_, hs, hw⟩ | ⟨hlt, hs, hw⟩ | ⟨rfl, t, rfl, hw⟩
  · -- a non-ASCII white-space rune
    left
    rw [hw]
    have hpos := decodeRune_width_pos c rest
    have hle := decodeRune_width_le (c :: rest)
    have hlen : ((c :: rest).take (decodeRune (c :: rest)).2).length = (decodeRune (c :: rest)).2 := by
      rw [List.length_take]; omega
    refine ⟨?_, ?_, ?_⟩
    · intro h0; rw [h0] at hlen; simp at hlen; omega
    · rw [decodeRune_take_self, hlen]
    · rw [decodeRune_take_self]; exact hs
  · -- an ASCII white-space byte
    left
    rw [hw]
    refine ⟨by simp, ?_, ?_⟩
    · simp [decodeRune_cons, hlt]
    · simp only [List.take_succ_cons, List.take_zero, decodeRune_cons, hlt, if_true]
      exact isSpaceRune_of_isAsciiSpace c hs
  · -- a comment
    right
    rw [hw]
    obtain ⟨body, hb, hor⟩ := commentLen_spec t
    refine ⟨body, hb, ?_⟩
    simp only [List.take_succ_cons, List.drop_succ_cons]
    rcases hor with h1 | ⟨h1, h2⟩
    · exact Or.inl (by rw [h1])
    · exact Or.inr ⟨by rw [h1], h2⟩

/-- **C09 (trivia is skipped).** Conversely, at a white-space rune and at `//` the scanner emits
    no token: `scanOne` returns `tok = none` *exactly* on trivia. -/
theorem C09_trivia_is_skip (c : UInt8) (rest : Bytes)
    (h : isSpaceRune (decodeRune (c :: rest)).1 = true ∨ ∃ t, c :: rest = 47 :: 47 :: t) :
    (scanOne (c :: rest)).tok = none := by
  rcases h with h | ⟨t, ht⟩
  · unfold scanOne
    simp only
    by_cases h1 : 128 ≤ c.toNat
    · rw [if_pos h1]
      unfold scanNonAscii
      simp only [h, if_true, Step.skip]
    · rw [if_neg h1]
      have hlt : c.toNat < 0x80 := by omega
      rw [decodeRune_cons, if_pos hlt] at h
      have hsp : isAsciiSpace c = true := by
        simp only [isSpaceRune, Bool.or_eq_true, beq_iff_eq, Bool.and_eq_true,
          decide_eq_true_eq] at h
        simp only [isAsciiSpace, Bool.or_eq_true, beq_iff_eq]
        have hc : c.toNat = 9 ∨ c.toNat = 10 ∨ c.toNat = 11 ∨ c.toNat = 12 ∨ c.toNat = 13 ∨
            c.toNat = 32 := by omega
        rcases hc with hc | hc | hc | hc | hc | hc
        · exact Or.inl (Or.inl (Or.inl (Or.inl (Or.inl (UInt8.toNat_inj.mp hc)))))
        · exact Or.inl (Or.inl (Or.inl (Or.inl (Or.inr (UInt8.toNat_inj.mp hc)))))
        · exact Or.inl (Or.inl (Or.inl (Or.inr (UInt8.toNat_inj.mp hc))))
        · exact Or.inl (Or.inl (Or.inr (UInt8.toNat_inj.mp hc)))
        · exact Or.inl (Or.inr (UInt8.toNat_inj.mp hc))
        · exact Or.inr (UInt8.toNat_inj.mp hc)
      rw [if_pos hsp]; rfl
  · simp only [List.cons.injEq] at ht
    obtain ⟨rfl, rfl⟩ := ht
    have e1 : isAsciiSpace 47 = false := by decide
    have e2 : isIdentStart 47 = false := by decide
    have e3 : (isDigit 47 || (47 : UInt8) == 46) = false := by decide
    unfold scanOne
    simp only [e1, e2, e3]
    simp [scanPunct, singleKind, Step.skip]

/-! ### gaps -/

theorem IsTriviaStep.take {x y : Bytes} (h : IsTriviaStep x y) (k : Nat) :
    IsTriviaStep x (y.take k) := by
  rcases h with h | ⟨body, hb, hor⟩
  · exact Or.inl h
  · refine Or.inr ⟨body, hb, ?_⟩
    rcases hor with h1 | ⟨h1, h2⟩
    · exact Or.inl h1
    · exact Or.inr ⟨h1, by rw [h2]; simp⟩

theorem AllTrivia.of_split (s : Bytes) (w : Nat) (h1 : IsTriviaStep (s.take w) (s.drop w))
    (h2 : AllTrivia (s.drop w)) : AllTrivia s := by
  have := AllTrivia.step _ _ h1 h2
  rwa [List.take_append_drop] at this

theorem AllTrivia.of_split_take (s : Bytes) (w k : Nat) (h1 : IsTriviaStep (s.take w) (s.drop w))
    (h2 : AllTrivia ((s.drop w).take k)) : AllTrivia (s.take (w + k)) := by
  have := AllTrivia.step _ _ (h1.take k) h2
  rwa [← List.take_add] at this

/-- The strengthened induction of `scanFrom_ordered`: what is scanned before the first token
    (or, if there is no token, everything) is trivia. -/
theorem scanFrom_first_gap (s : Bytes) (off : Nat) :
    (scanFrom s off = [] → AllTrivia s) ∧
    (∀ t ts, scanFrom s off = t :: ts → AllTrivia (s.take (t.start - off))) := by
  fun_induction scanFrom s off with
  | case1 off => exact ⟨fun _ => AllTrivia.nil, fun t ts h => (by cases h)⟩
  | case2 off c rest st tl k v hk ih =>
    refine ⟨fun h => (by cases h), fun t ts h => ?_⟩
    simp only [List.cons.injEq] at h
    obtain ⟨rfl, _⟩ := h
    simp only [Nat.sub_self, List.take_zero]
    exact AllTrivia.nil
  | case3 off c rest st tl hk ih =>
    have hstep := C09_skip_is_trivia c rest hk
    refine ⟨fun h => AllTrivia.of_split _ _ hstep (ih.1 h), fun t ts h => ?_⟩
    have hb := mem_scanFrom_bounds (List.drop st.width (c :: rest)) (off + st.width) t
      (by show t ∈ tl; rw [h]; simp)
    have e : t.start - off = st.width + (t.start - (off + st.width)) := by omega
    rw [e]
    exact AllTrivia.of_split_take _ _ _ hstep (ih.2 t ts h)

/-- Scanning what precedes the first token (or, if there is no token, everything) yields no
    token: the gap, replayed through `scanOne` on its own, consists of skipped steps only. -/
theorem scanFrom_first_gap_rescan (s : Bytes) (off : Nat) :
    ∀ t ts, scanFrom s off = t :: ts → ∀ off', scanFrom (s.take (t.start - off)) off' = [] := by
  fun_induction scanFrom s off with
  | case1 off => intro t ts h; cases h
  | case2 off c rest st tl k v hk ih =>
    intro t ts h off'
    simp only [List.cons.injEq] at h
    obtain ⟨rfl, _⟩ := h
    simp only [Nat.sub_self, List.take_zero]
    exact scanFrom_nil off'
  | case3 off c rest st tl hk ih =>
    intro t ts h off'
    have hb := mem_scanFrom_bounds (List.drop st.width (c :: rest)) (off + st.width) t
      (by show t ∈ tl; rw [h]; simp)
    have hpos : 1 ≤ st.width := scanOne_width_pos c rest
    have hle : st.width ≤ (c :: rest).length := scanOne_width_le (c :: rest)
    have e : t.start - off = st.width + (t.start - (off + st.width)) := by omega
    have ih' := ih t ts h
    generalize t.start - (off + st.width) = k at e ih'
    rw [e]
    -- the step at the head of the gap is the step at the head of the source
    have hsplit : (c :: rest) = (c :: rest).take (st.width + k) ++ (c :: rest).drop (st.width + k) :=
      (List.take_append_drop _ _).symm
    have hlen : st.width ≤ ((c :: rest).take (st.width + k)).length := by
      rw [List.length_take]; omega
    have hone : scanOne ((c :: rest).take (st.width + k)) = st := by
      have := scanOne_append ((c :: rest).take (st.width + k)) ((c :: rest).drop (st.width + k))
      rw [← hsplit] at this
      exact (this hlen).symm
    have hne : (c :: rest).take (st.width + k) ≠ [] := by
      intro h0; rw [h0] at hlen; simp at hlen; omega
    rw [scanFrom_step hne, hone]
    have hd : ((c :: rest).take (st.width + k)).drop st.width = ((c :: rest).drop st.width).take k := by
      rw [List.drop_take]; congr 1; omega
    rw [hd, ih']
    simp [Step.toks, hk]

/-- **C09 (gaps are trivia).** For every byte string `s`: if `scan s` has no token, all of `s`
    is trivia; otherwise the text before the first token, the text between any two consecutive
    tokens, and the text after the last token are concatenations of white-space runes and `//`
    comments. -/
theorem C09_gaps_trivia (s : Bytes) :
    (scan s = [] → AllTrivia s) ∧
    (∀ t ts, scan s = t :: ts → AllTrivia (s.take t.start)) ∧
    (∀ pre t1 t2 post, scan s = pre ++ t1 :: t2 :: post →
        AllTrivia ((s.drop t1.stop).take (t2.start - t1.stop))) ∧
    (∀ pre t, scan s = pre ++ [t] → AllTrivia (s.drop t.stop)) := by
  refine ⟨(scanFrom_first_gap s 0).1, ?_, ?_, ?_⟩
  · intro t ts h
    simpa using (scanFrom_first_gap s 0).2 t ts h
  · intro pre t1 t2 post h
    have hs := scanFrom_suffix s 0 pre t1 (t2 :: post) h
    simp only [Nat.sub_zero] at hs
    exact (scanFrom_first_gap _ _).2 t2 post hs
  · intro pre t h
    have hs := scanFrom_suffix s 0 pre t [] h
    simp only [Nat.sub_zero] at hs
    exact (scanFrom_first_gap _ _).1 hs

/-- **C09 (gaps rescan to nothing).** The text before the first token, between two consecutive
    tokens and after the last token, scanned on its own, yields no token. -/
theorem C09_gaps_rescan_nil (s : Bytes) :
    (∀ t ts, scan s = t :: ts → scan (s.take t.start) = []) ∧
    (∀ pre t1 t2 post, scan s = pre ++ t1 :: t2 :: post →
        scan ((s.drop t1.stop).take (t2.start - t1.stop)) = []) ∧
    (∀ pre t, scan s = pre ++ [t] → scan (s.drop t.stop) = []) := by
  refine ⟨?_, ?_, ?_⟩
  · intro t ts h
    simpa [scan] using scanFrom_first_gap_rescan s 0 t ts h 0
  · intro pre t1 t2 post h
    have hs := scanFrom_suffix s 0 pre t1 (t2 :: post) h
    simp only [Nat.sub_zero] at hs
    exact scanFrom_first_gap_rescan _ _ t2 post hs 0
  · intro pre t h
    have hs := scanFrom_suffix s 0 pre t [] h
    simp only [Nat.sub_zero] at hs
    -- `scanFrom` does not depend on the offset when the result is empty
    have : ∀ (u : Bytes) (a b : Nat), scanFrom u a = [] → scanFrom u b = [] := by
      intro u
      induction hn : u.length using Nat.strongRecOn generalizing u with
      | _ n ih =>
        subst hn
        intro a b h
        by_cases hu : u = []
        · subst hu; exact scanFrom_nil b
        · have hpos := scanOne_width_pos' hu
          have hlen : 0 < u.length := List.length_pos_iff.mpr hu
          rw [scanFrom_step hu] at h ⊢
          simp only [List.append_eq_nil_iff] at h ⊢
          refine ⟨?_, ih _ (by simp only [List.length_drop]; omega) _ rfl _ _ h.2⟩
          have h1 := h.1
          unfold Step.toks at h1 ⊢
          split at h1
          · simp at h1
          · simp
    exact this _ _ 0 hs

-- sanity test (evaluated): `a // c\n b` — the gap between the two tokens is " // c\n "
#guard (scan [97, 32, 47, 47, 32, 99, 10, 32, 98]).map (fun t => (t.start, t.stop)) = [(0, 1), (8, 9)]

end Pql.C09
